/-
C11 driver: replays a harness trace on the model (correspondence, `MISMATCH`)
and evaluates the property monitor on the implementation's answers (`MONITOR`).

Symbolic/real crypto boundary: the driver never computes a cipher.  Every
observed byte string that the model describes by a term (handshake tags, the
encrypted static key, session keys and salts) is *bound* to that term the
first time it is seen; the binding must stay a bijection (same term ⇒ same
bytes, different term ⇒ different bytes).  Acts fed to `RecvAct*` are mapped
back through the binding, unknown bytes are junk.
-/
import LndModel.Prelude.Lines
import LndModel.C11.Model
import LndModel.C11.ConnModel
import LndModel.C11.Pool
import LndModel.C11.Listener

open LndModel LndModel.Lines LndModel.C11

namespace LndModel.C11.Driver

def substr (s : String) (a n : Nat) : String := String.ofList ((s.toList.drop a).take n)

/-- key identity used for the byte bindings (cheap to compare): salt and key installed by
    `split`, number of rotations since, salt-or-key.  The model itself carries the full key
    terms; this is only the driver's name for them. -/
abbrev KeyRef := Term × Term × Nat × Bool

structure Mach where
  id : Nat := 0
  hs : HState := default
  snd : Sender := { cs := CipherState.init Term.zeroKey Term.zeroKey, hdr := [], body := [] }
  rcv : CipherState := CipherState.init Term.zeroKey Term.zeroKey
  split : Bool := false
  /-- `(salt, key)` installed by `split` and AEAD uses since, per direction (driver bookkeeping
      for the rotation count the harness reports) -/
  sBase : Term × Term := (Term.zeroKey, Term.zeroKey)
  rBase : Term × Term := (Term.zeroKey, Term.zeroKey)
  sUses : Nat := 0
  rUses : Nat := 0
  -- monitor bookkeeping (from the trace only)
  peer : Nat := 0
  isInit : Bool := false
  lsKey : Nat := 0
  target : Nat := 0
  out1 : String := ""
  out2 : String := ""
  out3 : String := ""
  in1 : String := ""
  in2 : String := ""
  in3 : String := ""
  r1ok : Bool := false
  r2ok : Bool := false
  r3ok : Bool := false
  g3ok : Bool := false
  hsClean : Bool := true
  keysSeen : Option (String × String × String × String) := none
  sent : Array Msg := #[]
  flushedCnt : Nat := 0
  readIdx : Nat := 0
  readFailed : Bool := false
  /-- pending record: payload length, bytes accepted by the writer so far, sum of Flush results -/
  pend : Option (Nat × Nat × Nat) := none
  lastUsed : Option (String × Nat) := none
  usedKeys : List String := []
  usedCount : Nat := 0
  lastHead : Option Nat := none
  /-- the implementation reported buffered bytes after its last operation -/
  implPend : Bool := false
  /-- receive nonce / rotation count the implementation reported after its last operation -/
  implRn : Nat := 0
  implRe : Nat := 0
  /-- `Conn.readBuf` of this side, and what `Conn.Read` decrypted / returned since the last
      `cread` summary line -/
  rbuf : List PByte := []
  cgot : List Msg := []
  cgotN : Nat := 0
deriving Inhabited

/-- AEAD uses between two states of one cipher stream (an operation makes at most two) -/
def usesBetween (c c' : CipherState) : Nat :=
  (c'.nonce + keyRotationInterval - c.nonce) % keyRotationInterval

def Mach.withSnd (m : Mach) (s' : Sender) : Mach :=
  { m with snd := s', sUses := m.sUses + usesBetween m.snd.cs s'.cs }

def Mach.withRcv (m : Mach) (c' : CipherState) : Mach :=
  { m with rcv := c', rUses := m.rUses + usesBetween m.rcv c' }

def Mach.splitTo (m : Mach) (snd rcv : CipherState) : Mach :=
  { m with split := true, snd := { cs := snd, hdr := [], body := [] }, rcv := rcv,
           sBase := (snd.salt, snd.key), rBase := (rcv.salt, rcv.key), sUses := 0, rUses := 0 }

def Mach.sEpoch (m : Mach) : Nat := m.sUses / keyRotationInterval
def Mach.rEpoch (m : Mach) : Nat := m.rUses / keyRotationInterval

structure Pipe where
  id : Nat := 0
  buf : List WByte := []
  hist : List WByte := []
  keepHist : Bool := false
  clean : Bool := true
deriving Inhabited

structure St where
  caseId : String := "0"
  kind : String := ""
  machs : List Mach := []
  pipes : List Pipe := []
  pubs : List (Nat × String) := []
  termTab : List (Term × String) := []
  keyTab : List (KeyRef × String) := []
  connSent : List (String × List Msg) := []
  -- counters
  lines : Nat := 0
  cases : Nat := 0
  ops : Nat := 0
  mismatches : Nat := 0
  monitorFails : Nat := 0
  samples : Nat := 0
  delivered : Nat := 0
  rejected : Nat := 0
  postFailData : Nat := 0
  hsOk : Nat := 0
  hsRejected : Nat := 0
  flushes : Nat := 0
  partialFlushes : Nat := 0
  maxEpoch : Nat := 0
  encryptions : Nat := 0
  tampers : Nat := 0
  refusedWrites : Nat := 0
  connSessions : Nat := 0
  dist : List (String × Nat) := []
  /-- shared-memory model of the send-buffer pools (Pool.lean); the pools are process-wide, so
      heap / free lists / allocator persist over the cases, the Machines do not -/
  pool : PState := {}
  /-- implementation buffer number ↔ model buffer id -/
  bufTab : List (Nat × Nat) := []
  poolOps : Nat := 0
  poolReused : Nat := 0
  poolFresh : Nat := 0
  poolClears : Nat := 0
  listenerSessions : Nat := 0
  listenerFaults : Nat := 0

def mismatch (s : St) (detail : String) : IO St := do
  if s.mismatches < 40 then
    IO.println s!"MISMATCH case={s.caseId} line={s.lines} {detail}"
  return { s with mismatches := s.mismatches + 1 }

def monitor (s : St) (clause detail : String) : IO St := do
  if s.monitorFails < 40 then
    IO.println s!"MONITOR case={s.caseId} clause={clause} line={s.lines} {detail}"
  return { s with monitorFails := s.monitorFails + 1 }

def getMach (s : St) (id : Nat) : Mach := (s.machs.find? (·.id == id)).getD { id := id }
def setMach (s : St) (m : Mach) : St :=
  if s.machs.any (·.id == m.id) then { s with machs := s.machs.map (fun x => if x.id == m.id then m else x) }
  else { s with machs := m :: s.machs }
def getPipe (s : St) (id : Nat) : Pipe := (s.pipes.find? (·.id == id)).getD { id := id }
def setPipe (s : St) (p : Pipe) : St :=
  if s.pipes.any (·.id == p.id) then { s with pipes := s.pipes.map (fun x => if x.id == p.id then p else x) }
  else { s with pipes := p :: s.pipes }

/-- words before `=>`, the result words, the observation words after `|` -/
def splitLine (ws : List String) : List String × List String × List String :=
  let args := ws.takeWhile (· ≠ "=>")
  let rest := (ws.dropWhile (· ≠ "=>")).drop 1
  let res := rest.takeWhile (· ≠ "|")
  let obs := (rest.dropWhile (· ≠ "|")).drop 1
  (args, res, obs)

def parseVal (len : Nat) (hex : String) : Nat :=
  let v := (hexNat? hex).getD 0
  if len ≤ 8 then v else 2 ^ 256 + v

def showVal (m : Msg) : String := s!"len={m.len} val={m.val % 2 ^ 64}"

/-- bind a term to observed bytes; the binding must be a bijection. -/
def bindTerm (s : St) (t : Term) (hex : String) (what : String) : IO St := do
  match s.termTab.find? (·.1 == t) with
  | some (_, h) =>
    if h == hex then return s else mismatch s s!"{what}: same symbolic value, different bytes ({h.take 16} vs {hex.take 16})"
  | none =>
    match s.termTab.find? (·.2 == hex) with
    | some _ => mismatch s s!"{what}: different symbolic values, identical bytes {hex.take 16}"
    | none => return { s with termTab := (t, hex) :: s.termTab }

def bindKey (s : St) (k : KeyRef) (hex : String) (what : String) : IO St := do
  match s.keyTab.find? (·.1 == k) with
  | some (_, h) =>
    if h == hex then return s else mismatch s s!"{what}: same symbolic key, different bytes ({h} vs {hex})"
  | none =>
    match s.keyTab.find? (·.2 == hex) with
    | some _ => mismatch s s!"{what}: different symbolic keys, identical bytes {hex}"
    | none => return { s with keyTab := (k, hex) :: s.keyTab }

/-- before the first rotation the salt is the installed salt whatever the key is. -/
def keyRefOf (base : Term × Term) (uses : Nat) (salt : Bool) : KeyRef :=
  let epoch := uses / keyRotationInterval
  if salt && epoch == 0 then (base.1, Term.atom 0, 0, true) else (base.1, base.2, epoch, salt)

def fieldOf (s : St) (hex : String) : CtField :=
  match s.termTab.find? (·.2 == hex) with
  | some (t, _) => .ct t
  | none => .junk

def pubField (pk : String) : PubField :=
  match nat? pk with
  | some k => .valid k
  | none => .invalid

def hexByte (s : String) (i : Nat) : Nat := (hexNat? (substr s (2 * i) 2)).getD 999

def parseAct12 (s : St) (hex pk : String) : Act12 :=
  { ver := hexByte hex 0, e := pubField pk, tag := fieldOf s (substr hex (2 * 34) 32) }

def parseAct3 (s : St) (hex : String) : Act3 :=
  { ver := hexByte hex 0, c := fieldOf s (substr hex 2 98), tag := fieldOf s (substr hex 100 32) }

def hErrStr : HErr → String
  | .version => "version" | .parse => "parse" | .mac => "mac" | .state => "panic"

def rErrStr : RErr → String
  | .eof => "eof" | .short => "short" | .mac => "mac"

def pubHex (s : St) (k : Nat) : String := ((s.pubs.find? (·.1 == k)).map (·.2)).getD "?"

/-- compare the observation suffix `sn= se= rn= re= hl= bl=` with the model. -/
def checkObs (s : St) (m : Mach) (obs : List String) (op : String) : IO St := do
  -- `mid=1`: the line was produced while a read of the same machine was in progress (full
  -- duplex); its receive counters are in flux and are compared on the read's own line
  let mid := kv? obs "mid" == some "1"
  let want := if mid then s!"sn={m.snd.cs.nonce} se={m.sEpoch} hl={m.snd.hdr.length} bl={m.snd.body.length}"
    else s!"sn={m.snd.cs.nonce} se={m.sEpoch} rn={m.rcv.nonce} re={m.rEpoch} hl={m.snd.hdr.length} bl={m.snd.body.length}"
  let got := if mid then s!"sn={(kvNat? obs "sn").getD 0} se={(kvNat? obs "se").getD 0} hl={(kvNat? obs "hl").getD 0} bl={(kvNat? obs "bl").getD 0}"
    else s!"sn={(kvNat? obs "sn").getD 0} se={(kvNat? obs "se").getD 0} rn={(kvNat? obs "rn").getD 0} re={(kvNat? obs "re").getD 0} hl={(kvNat? obs "hl").getD 0} bl={(kvNat? obs "bl").getD 0}"
  let s := { s with maxEpoch := max s.maxEpoch (max m.sEpoch m.rEpoch) }
  if want == got then return s else mismatch s s!"{op} mach={m.id}: model [{want}] impl [{got}]"

/-- generated act one/two: layout and tag binding -/
def checkGen12 (s : St) (a : Act12) (hex : String) (what : String) : IO St := do
  let mut s := s
  if hex.length != 2 * actOneSize then s ← mismatch s s!"{what}: act has {hex.length / 2} bytes"
  if hexByte hex 0 != a.ver then s ← mismatch s s!"{what}: version byte"
  match a.e with
  | .valid k => if substr hex 2 66 != pubHex s k then s ← mismatch s s!"{what}: ephemeral key field is not pub({k})"
  | .invalid => pure ()
  match a.tag with
  | .ct t => s ← bindTerm s t (substr hex 68 32) what
  | .junk => pure ()
  return s

/-! #### monitor helpers (trace only) -/

/-- handshake authentication clause, evaluated when a machine reports success. -/
def monitorAuthResp (s : St) (r : Mach) : IO St := do
  let ok := s.machs.any fun i => i.isInit && i.out1 == r.in1 && i.out3 == r.in3 && i.in2 == r.out2 && i.r2ok &&
      i.out1 != "" && i.out3 != "" && pubHex s i.target == pubHex s r.lsKey
  if ok then return s
  else monitor s "handshake-auth" s!"responder {r.id} completed without an initiator that dialled its key and exchanged exactly these acts"

def monitorAuthInit (s : St) (i : Mach) : IO St := do
  let ok := s.machs.any fun r => !r.isInit && r.in1 == i.out1 && r.out2 == i.in2 && r.r1ok && r.out2 != "" &&
      pubHex s i.target == pubHex s r.lsKey
  if ok then return s
  else monitor s "handshake-auth" s!"initiator {i.id} accepted act two not produced by the dialled responder for its act one"

/-- nonce/rotation clause from the trial-decryption observations of one encryption. -/
def monitorUsed (s : St) (m : Mach) (kh : String) (n : Nat) : IO (St × Mach) := do
  let mut s := s
  let mut m := m
  let peer := getMach s m.peer
  match m.lastUsed with
  | some (k0, n0) =>
    if k0 == kh then
      if n ≤ n0 then s ← monitor s "nonce-unique" s!"mach {m.id}: nonce {n} after {n0} under the same key {kh}"
      m := { m with usedCount := m.usedCount + 1 }
      if m.usedCount > keyRotationInterval then
        s ← monitor s "rotation-interval" s!"mach {m.id}: {m.usedCount} encryptions under key {kh}"
    else
      if m.usedKeys.contains kh then s ← monitor s "nonce-unique" s!"mach {m.id}: key {kh} used again after rotation"
      if m.usedCount != keyRotationInterval then
        s ← monitor s "rotation-interval" s!"mach {m.id}: key rotated after {m.usedCount} encryptions"
      m := { m with usedCount := 1, usedKeys := kh :: m.usedKeys }
  | none => m := { m with usedCount := m.usedCount + 1, usedKeys := kh :: m.usedKeys }
  if m.peer != 0 && peer.usedKeys.contains kh then
    s ← monitor s "nonce-unique" s!"mach {m.id}: encrypts under key {kh} which its peer {peer.id} also encrypts under"
  m := { m with lastUsed := some (kh, n) }
  return ({ s with encryptions := s.encryptions + 1 }, m)

/-- a read delivered `d` to machine `m`. -/
def monitorDelivered (s : St) (m : Mach) (d : Msg) : IO (St × Mach) := do
  if m.peer == 0 then return (s, m)
  if m.readFailed then return ({ s with postFailData := s.postFailData + 1 }, m)
  let peer := getMach s m.peer
  let s ← match peer.sent[m.readIdx]? with
    | some w =>
      if w == d then pure { s with delivered := s.delivered + 1 }
      else monitor s "delivered-not-sent" s!"mach {m.id} message #{m.readIdx}: delivered {showVal d}, sent {showVal w}"
    | none => monitor s "delivered-not-sent" s!"mach {m.id} message #{m.readIdx}: delivered {showVal d}, nothing was sent"
  return (s, { m with readIdx := m.readIdx + 1 })

/-- provenance clause: a read (before the first failure) returned data although the bytes it
    consumed are not exactly the peer's next record as the peer wrote it (`exact=0` is computed by
    the harness from the origin of every consumed byte: altered, replayed, reordered, deleted,
    reflected or foreign bytes all give 0). Independent of the model and of the content. -/
def monitorTampered (s : St) (m : Mach) (res : List String) (op : String) : IO St := do
  if m.peer == 0 || m.readFailed then return s
  match kv? res "exact" with
  | some "1" => return s
  | some "0" => monitor s "tampered-accepted" s!"{op} mach={m.id} message #{m.readIdx}: data returned from bytes that are not the peer's next record as written ({res})"
  | _ => return s

/-- a read by `m` from pipe `p` failed with class `res` (`stage` = header/body). -/
def monitorReadFail (s : St) (m : Mach) (p : Pipe) (res : String) (consumed : Bool) : IO (St × Mach) := do
  let mut s := { s with rejected := s.rejected + 1 }
  if !consumed && res == "eof" then return (s, m)   -- nothing was there, nothing happened
  let peer := getMach s m.peer
  if m.peer != 0 && p.id == m.peer && p.clean && !m.readFailed && m.readIdx < peer.flushedCnt then
    s ← monitor s "clean-stream-rejected" s!"mach {m.id}: message #{m.readIdx} was sent completely and unaltered but the read failed ({res})"
  return (s, { m with readFailed := true })

def noteObs (m : Mach) (obs : List String) : Mach :=
  let m := { m with implPend := (kvNat? obs "hl").getD 0 + (kvNat? obs "bl").getD 0 > 0 }
  if kv? obs "mid" == some "1" then m
  else { m with implRn := (kvNat? obs "rn").getD 0, implRe := (kvNat? obs "re").getD 0 }

def dirty (s : St) (pid : Nat) : St := setPipe s { getPipe s pid with clean := false }

/-- a reader other than the writer's peer consumes the pipe: it is no longer an honest stream. -/
def touchPipe (s : St) (m : Mach) (p : Pipe) : St :=
  if m.peer == p.id then s else dirty s p.id

def connResStr : ConnRes → String
  | .ok => "ok" | .io => "io" | .hs e => hErrStr e

/-! #### pooled send buffers (Pool.lean) -/

def bufModel (s : St) (x : Nat) : Option Nat := (s.bufTab.find? (·.1 == x)).map (·.2)

/-- the implementation holds buffer `impl` where the model holds `model` -/
def bindBuf (s : St) (impl model : Option Nat) (what : String) : IO St := do
  match impl, model with
  | none, none => return s
  | some x, some k =>
    match bufModel s x with
    | some k' =>
      if k' == k then return { s with poolReused := s.poolReused + 1 }
      else
        let owner := (s.pool.machs.find? fun p => p.2.hb == some k' || p.2.bb == some k').map (·.1)
        let s ← mismatch s s!"{what}: the pool handed out buffer #{x}, which the model does not have free (model id {k'}, in use by machine {owner}); model allocated {k}"
        return { s with bufTab := (x, k) :: s.bufTab.filter (·.1 != x) }
    | none =>
      if s.bufTab.any (·.2 == k) then
        let s ← mismatch s s!"{what}: model reuses buffer {k}, implementation holds a buffer never seen (#{x})"
        return { s with bufTab := (x, k) :: s.bufTab.filter (·.2 != k) }
      else return { s with bufTab := (x, k) :: s.bufTab, poolFresh := s.poolFresh + 1 }
  | _, _ => mismatch s s!"{what}: pooled buffer impl={impl} model={model}"

/-- compare the buffers Machine `id` holds (`hb=` / `bb=` of the observation) with the model -/
def checkPool (s : St) (id : Nat) (obs : List String) (op : String) : IO St := do
  if (kv? obs "hb").isNone then return s
  let pm := s.pool.mach id
  let s ← bindBuf s (kvNat? obs "hb") pm.hb s!"{op} mach={id} header buffer"
  bindBuf s (kvNat? obs "bb") pm.bb s!"{op} mach={id} body buffer"

/-- replay one sending-side operation on the shared-memory model; what the pools hand out is
    taken from the observation (a buffer the model knows, else a new one) -/
def poolStep (s : St) (id : Nat) (op : String) (obs : List String) (mk : Option Nat → Option Nat → POp)
    (snd : Sender) : IO St := do
  if (kv? obs "hb").isNone then return s
  let ch := (kvNat? obs "hb").bind (bufModel s)
  let cb := (kvNat? obs "bb").bind (bufModel s)
  let (_, p') := s.pool.step id (mk ch cb)
  let mut s := { s with pool := p', poolOps := s.poolOps + 1 }
  s ← checkPool s id obs op
  -- the value model and the memory model agree on what the Machine has buffered (PoolProps)
  let v := s.pool.view id
  if v.hdr.length != snd.hdr.length || v.body.length != snd.body.length || v.cs.nonce != snd.cs.nonce then
    s ← mismatch s s!"{op} mach={id}: memory model buffers hl={v.hdr.length} bl={v.body.length} sn={v.cs.nonce}, value model hl={snd.hdr.length} bl={snd.body.length} sn={snd.cs.nonce}"
  return s

/-! #### the step function -/

def step (s : St) (line : String) : IO St := do
  let s := { s with lines := s.lines + 1 }
  let ws := words line
  let (args, res, obs) := splitLine ws
  let res0 := res.head?.getD "?"
  match args with
  | "FACT" :: rest =>
    let chk (s : St) (key : String) (v : Nat) : IO St :=
      if kvNat? rest key == some v then pure s
      else mismatch s s!"fact {key}: model={v} impl={(kv? rest key).getD "?"}"
    let s ← chk s "keyRotationInterval" keyRotationInterval
    let s ← chk s "macSize" macSize
    let s ← chk s "lengthHeaderSize" lengthHeaderSize
    let s ← chk s "encHeaderSize" encHeaderSize
    let s ← chk s "maxMessageSize" maxMessageSize
    let s ← chk s "actOneSize" actOneSize
    let s ← chk s "actTwoSize" actTwoSize
    let s ← chk s "actThreeSize" actThreeSize
    chk s "handshakeVersion" handshakeVersion
  | "CASE" :: id :: rest =>
    let s := { s with caseId := id, kind := (kv? rest "kind").getD "", machs := [], pipes := [], pubs := [],
                       termTab := [], keyTab := [], connSent := [], cases := s.cases + 1,
                       pool := { s.pool with machs := [] } }
    if s.samples < 4 && (s.cases % 9 == 1) then
      IO.println s!"SAMPLE {line}"
      return { s with samples := s.samples + 1 }
    return s
  | ["END"] => return s
  | "dist" :: kvw :: _ =>
    match kvw.splitOn "=" with
    | [k, v] => return { s with dist := (k, (nat? v).getD 0) :: s.dist }
    | _ => return s
  | "key" :: k :: rest =>
    return { s with pubs := ((nat? k).getD 0, (kv? rest "pub").getD "?") :: s.pubs }
  | "mach" :: id :: rest =>
    let id := (nat? id).getD 0
    let ls := (kvNat? rest "ls").getD 0
    let isInit := kv? rest "role" == some "init"
    let tgt := (kvNat? rest "rs").getD 0
    let hs := HState.new isInit ls (if isInit then some tgt else none)
    let s := setMach s { id := id, hs := hs, isInit := isInit, lsKey := ls, target := tgt }
    return setPipe s { id := id }
  | "pair" :: a :: b :: _ =>
    let a := (nat? a).getD 0
    let b := (nat? b).getD 0
    let s := setMach s { getMach s a with peer := b }
    return setMach s { getMach s b with peer := a }
  | "hist" :: p :: _ =>
    return setPipe s { getPipe s ((nat? p).getD 0) with keepHist := true }
  | "clone" :: n :: rest =>
    let n := (nat? n).getD 0
    let f := (kvNat? rest "from").getD 0
    let s := setMach s { getMach s f with id := n }
    let s := { s with pool := { s.pool with machs := amSet s.pool.machs n (s.pool.mach f) } }
    return setPipe s { getPipe s f with id := n }
  | "clonepair" :: na :: nb :: _ :: fb :: _ =>
    let na := (nat? na).getD 0
    let nb := (nat? nb).getD 0
    let fa := (kvNat? args "from").getD 0
    let fb := (nat? fb).getD 0
    let s := setMach s { getMach s fa with id := na, peer := nb }
    let s := setMach s { getMach s fb with id := nb, peer := na }
    let s := { s with pool := { s.pool with machs := amSet (amSet s.pool.machs na (s.pool.mach fa)) nb (s.pool.mach fb) } }
    let s := setPipe s { getPipe s fa with id := na }
    return setPipe s { getPipe s fb with id := nb }
  ----------------------------------------------------------------- handshake
  | "gen1" :: id :: rest | "gen2" :: id :: rest =>
    let s := { s with ops := s.ops + 1 }
    let op := args.head!
    let m := getMach s ((nat? id).getD 0)
    let e := (kvNat? rest "e").getD 0
    let (r, hs') := if op == "gen1" then genActOne m.hs e else genActTwo m.hs e
    let m := { m with hs := hs' }
    match r with
    | .ok a =>
      let hex := (kv? res "act").getD ""
      let mut s ← if res0 == "ok" then pure s else mismatch s s!"{op}: model=ok impl={res0}"
      s ← checkGen12 s a hex s!"{op} mach={m.id}"
      let m := if op == "gen1" then { m with out1 := hex } else { m with out2 := hex }
      return setMach s m
    | .error e =>
      let s ← if res0 == hErrStr e then pure s else mismatch s s!"{op}: model={hErrStr e} impl={res0}"
      return setMach s m
  | "gen3" :: id :: _ =>
    let s := { s with ops := s.ops + 1 }
    let m := getMach s ((nat? id).getD 0)
    let (r, hs') := genActThree m.hs
    let m := { m with hs := hs' }
    match r with
    | .ok (a, snd, rcv) =>
      let hex := (kv? res "act").getD ""
      let mut s ← if res0 == "ok" then pure s else mismatch s s!"gen3: model=ok impl={res0}"
      if hex.length != 2 * actThreeSize then s ← mismatch s s!"gen3: act has {hex.length / 2} bytes"
      if hexByte hex 0 != a.ver then s ← mismatch s "gen3: version byte"
      match a.c with
      | .ct t => s ← bindTerm s t (substr hex 2 98) s!"gen3 mach={m.id} static-key ciphertext"
      | .junk => pure ()
      match a.tag with
      | .ct t => s ← bindTerm s t (substr hex 100 32) s!"gen3 mach={m.id} tag"
      | .junk => pure ()
      let m := { (m.splitTo snd rcv) with out3 := hex, g3ok := true }
      return setMach { s with pool := s.pool.install m.id snd } m
    | .error e =>
      let s ← if res0 == hErrStr e then pure s else mismatch s s!"gen3: model={hErrStr e} impl={res0}"
      return setMach s m
  | "gen3bad" :: id :: _ =>
    -- the harness sealed 33 bytes that are no curve point with the machine's own handshake
    -- cipher (`EncryptAndHash`) and put them where act three carries the static key
    let s := { s with ops := s.ops + 1 }
    let m := getMach s ((nat? id).getD 0)
    let (c, hs') := m.hs.encryptAndHash (Term.atom 77)
    let hex := (kv? res "act").getD ""
    let s ← bindTerm s c (substr hex 2 98) s!"gen3bad mach={m.id} ciphertext"
    return setMach s { m with hs := hs' }
  | "recv1" :: id :: rest | "recv2" :: id :: rest =>
    let s := { s with ops := s.ops + 1 }
    let op := args.head!
    let m := getMach s ((nat? id).getD 0)
    let hex := (kv? rest "act").getD ""
    let a := parseAct12 s hex ((kv? rest "pk").getD "invalid")
    let (r, hs') := if op == "recv1" then recvActOne m.hs a else recvActTwo m.hs a
    let model := match r with | .ok _ => "ok" | .error e => hErrStr e
    let mut s ← if model == res0 then pure s else mismatch s s!"{op} mach={m.id}: model={model} impl={res0}"
    -- monitor
    let peer := getMach s m.peer
    let honestInput := m.peer != 0 && (if op == "recv1" then peer.out1 else peer.out2) == hex && hex != ""
    let rightKey := if m.isInit then pubHex s m.target == pubHex s peer.lsKey else pubHex s peer.target == pubHex s m.lsKey
    let first := if op == "recv1" then m.in1 == "" else m.in2 == ""
    let wasClean := first && m.hsClean && peer.hsClean && (op == "recv1" || (m.out1 != "" && peer.in1 == m.out1 && peer.r1ok))
    let mut m := { m with hs := hs' }
    if op == "recv1" then m := { m with in1 := hex, r1ok := res0 == "ok" } else m := { m with in2 := hex, r2ok := res0 == "ok" }
    if !honestInput then m := { m with hsClean := false }
    if res0 == "ok" then
      s := { s with hsOk := s.hsOk + 1 }
    else
      s := { s with hsRejected := s.hsRejected + 1 }
      if honestInput && rightKey && wasClean then
        s ← monitor s "right-key-rejected" s!"{op} mach={m.id}: unaltered act from the peer, right static key, result {res0}"
    s := setMach s m
    if res0 == "ok" && op == "recv2" then s ← monitorAuthInit s m
    return s
  | "recv3" :: id :: rest =>
    let s := { s with ops := s.ops + 1 }
    let m := getMach s ((nat? id).getD 0)
    let hex := (kv? rest "act").getD ""
    let a := parseAct3 s hex
    let (r, hs') := recvActThree m.hs a
    let model := match r with | .ok _ => "ok" | .error e => hErrStr e
    let mut s ← if model == res0 then pure s else mismatch s s!"recv3 mach={m.id}: model={model} impl={res0}"
    let peer := getMach s m.peer
    let honestInput := m.peer != 0 && peer.out3 == hex && hex != ""
    let rightKey := pubHex s peer.target == pubHex s m.lsKey
    let wasClean := m.in3 == "" && m.hsClean && peer.hsClean && m.r1ok && peer.r2ok && peer.in2 == m.out2 && m.in1 == peer.out1
    let mut m := { m with hs := hs', in3 := hex, r3ok := res0 == "ok" }
    if !honestInput then m := { m with hsClean := false }
    match r with
    | .ok (snd, rcv) =>
      m := m.splitTo snd rcv
      s := { s with pool := s.pool.install m.id snd }
      if res0 == "ok" then
        let want := (hs'.rs.map toString).getD "-"
        if (kv? res "rpub").getD "-" != want then
          s ← mismatch s s!"recv3 mach={m.id}: remote static model={want} impl={(kv? res "rpub").getD "-"}"
    | .error _ => pure ()
    if res0 == "ok" then
      s := { s with hsOk := s.hsOk + 1 }
    else
      s := { s with hsRejected := s.hsRejected + 1 }
      if honestInput && rightKey && wasClean then
        s ← monitor s "right-key-rejected" s!"recv3 mach={m.id}: unaltered handshake, right static key, result {res0}"
    s := setMach s m
    if res0 == "ok" then
      s ← monitorAuthResp s m
      -- the static key the responder learned is the initiator's
      match (kv? res "rpub").bind nat? with
      | some k =>
        if !(s.machs.any fun i => i.isInit && i.out3 == hex && pubHex s i.lsKey == pubHex s k) then
          s ← monitor s "handshake-auth" s!"responder {m.id} learned static key {k} which is not the act-three author's"
      | none => s ← monitor s "handshake-auth" s!"responder {m.id} completed without a remote static key"
    return s
  | "keys" :: id :: _ =>
    let s := { s with ops := s.ops + 1 }
    let m := getMach s ((nat? id).getD 0)
    let sk := (kv? res "sk").getD "?"
    let ss := (kv? res "ss").getD "?"
    let rk := (kv? res "rk").getD "?"
    let rs := (kv? res "rs").getD "?"
    let mut s := s
    if !m.split then s ← mismatch s s!"keys mach={m.id}: model has not split"
    s ← bindKey s (keyRefOf m.sBase m.sUses false) sk s!"keys mach={m.id} send key"
    s ← bindKey s (keyRefOf m.sBase m.sUses true) ss s!"keys mach={m.id} send salt"
    s ← bindKey s (keyRefOf m.rBase m.rUses false) rk s!"keys mach={m.id} recv key"
    s ← bindKey s (keyRefOf m.rBase m.rUses true) rs s!"keys mach={m.id} recv salt"
    s ← checkObs s m obs "keys"
    -- monitor: mirror
    let m := { m with keysSeen := some (sk, ss, rk, rs) }
    s := setMach s m
    let peer := getMach s m.peer
    if sk == rk then s ← monitor s "keys-mirror" s!"mach {m.id}: send key equals receive key"
    match peer.keysSeen with
    | some (psk, pss, prk, prs) =>
      let done := (m.g3ok || m.r3ok) && (peer.g3ok || peer.r3ok) && m.hsClean && peer.hsClean
      if done && !(sk == prk && rk == psk && ss == prs && rs == pss) then
        s ← monitor s "keys-mirror" s!"mach {m.id}/{peer.id}: send/recv keys do not mirror"
    | none => pure ()
    return s
  ----------------------------------------------------------------- transport
  | "write" :: id :: rest =>
    let s := { s with ops := s.ops + 1 }
    let m := getMach s ((nat? id).getD 0)
    let len := (kvNat? rest "len").getD 0
    let msg : Msg := { len := len, val := parseVal len ((kv? rest "val").getD "0") }
    let mut m := m
    let c0 := m.snd.cs
    let u0 := m.sUses
    -- monitor (trace only): refusal exactly when oversized or something is still buffered
    let mustRefuse := len > maxPayload || m.implPend
    let s ← if res0 == "ok" && mustRefuse then
        monitor s "write-accepted" s!"mach {m.id}: WriteMessage accepted {len} bytes {if m.implPend then "while a record is buffered" else "(too long)"}"
      else if res0 != "ok" && !mustRefuse then
        monitor s "write-refused" s!"mach {m.id}: WriteMessage refused {len} bytes with nothing buffered ({res0})"
      else pure s
    m := noteObs m obs
    match writeMessage m.snd msg with
    | .ok snd' =>
      let mut s ← if res0 == "ok" then pure s else mismatch s s!"write mach={m.id}: model=ok impl={res0}"
      m := m.withSnd snd'
      if res0 == "ok" then
        let hk := (kv? res "hk").getD "?"
        let bk := (kv? res "bk").getD "?"
        s ← bindKey s (keyRefOf m.sBase u0 false) hk s!"write mach={m.id} header key"
        s ← bindKey s (keyRefOf m.sBase (u0 + 1) false) bk s!"write mach={m.id} body key"
        if kvNat? res "hn" != some c0.nonce then
          s ← mismatch s s!"write mach={m.id}: header nonce model={c0.nonce} impl={(kv? res "hn").getD "?"}"
        if kvNat? res "bn" != some c0.advance.nonce then
          s ← mismatch s s!"write mach={m.id}: body nonce model={c0.advance.nonce} impl={(kv? res "bn").getD "?"}"
        -- monitor
        match kvNat? res "hn", kvNat? res "bn" with
        | some hn, some bn =>
          (s, m) ← monitorUsed s m hk hn
          (s, m) ← monitorUsed s m bk bn
        | _, _ =>
          s ← monitor s "nonce-unique" s!"mach {m.id}: record sealed under a (key, nonce) that is none of this connection's keys with a nonce below {keyRotationInterval} (hk={hk} hn={(kv? res "hn").getD "?"} bk={bk} bn={(kv? res "bn").getD "?"})"
        m := { m with sent := m.sent.push msg, pend := some (len, 0, 0) }
      s ← checkObs s m obs "write"
      s ← poolStep s m.id "write" obs (fun ch cb => .write msg ch cb) m.snd
      return setMach s m
    | .error e =>
      let model := match e with | .tooLong => "toolong" | .notFlushed => "notflushed"
      let mut s ← if model == res0 then pure s else mismatch s s!"write mach={m.id}: model={model} impl={res0}"
      s := { s with refusedWrites := s.refusedWrites + 1 }
      if res0 == "ok" then
        m := { m with sent := m.sent.push msg, pend := some (len, 0, 0) }
      s ← checkObs s m obs "write"
      s ← poolStep s m.id "write" obs (fun ch cb => .write msg ch cb) m.snd
      return setMach s m
  | "flush" :: id :: rest =>
    let s := { s with ops := s.ops + 1, flushes := s.flushes + 1 }
    let m := getMach s ((nat? id).getD 0)
    let budget := (kv? rest "budget").bind nat?
    let eager := kv? rest "eager" == some "1"
    let r := flush m.snd budget eager
    let implN := (kvNat? res "n").getD 0
    let implErr := (kv? res "err").getD "?"
    let modelErr := if r.err then "timeout" else "ok"
    let mut s := s
    if r.nn != implN || modelErr != implErr then
      s ← mismatch s s!"flush mach={m.id} budget={(kv? rest "budget").getD "?"}: model n={r.nn} err={modelErr}, impl n={implN} err={implErr}"
    let mut m := m.withSnd r.st
    let p := getPipe s m.id
    s := setPipe s { p with buf := p.buf ++ r.out, hist := if p.keepHist then p.hist ++ r.out else [] }
    -- monitor: accounting, recomputed from the budgets alone
    match m.pend with
    | some (len, acc, sum) =>
      let total := encHeaderSize + len + macSize
      let take := match budget with | some b => min b (total - acc) | none => total - acc
      let acc := acc + take
      let sum := sum + implN
      let want := min (acc - encHeaderSize) len
      if take < total - (acc - take) then s := { s with partialFlushes := s.partialFlushes + 1 }
      if sum != want then
        s ← monitor s "flush-accounting" s!"mach {m.id}: {acc} of {total} bytes written, Flush results add up to {sum}, plaintext bytes on the wire {want}"
      if implErr == "ok" && acc != total then
        s ← monitor s "flush-accounting" s!"mach {m.id}: Flush returned no error with {total - acc} bytes unwritten"
      if acc == total then m := { m with pend := none, flushedCnt := m.flushedCnt + 1 }
      else m := { m with pend := some (len, acc, sum) }
    | none =>
      if implN != 0 then s ← monitor s "flush-accounting" s!"mach {m.id}: Flush with nothing pending returned {implN}"
    s ← checkObs s m obs "flush"
    s ← poolStep s m.id "flush" obs (fun _ _ => .flush budget eager) m.snd
    return setMach s (noteObs m obs)
  | "clear" :: id :: _ =>
    -- Conn.ClearPendingSend: whatever is buffered is dropped; if that was (part of) a record the
    -- byte stream of this direction is no longer a sequence of records
    let s := { s with ops := s.ops + 1, poolClears := s.poolClears + 1 }
    let m := getMach s ((nat? id).getD 0)
    let (_, snd') := m.snd.pstep .clear
    let dropped := m.snd.hdr.length + m.snd.body.length > 0
    let mut m := m.withSnd snd'
    let mut s := s
    if res0 != "ok" then s ← mismatch s s!"clear mach={m.id}: impl={res0}"
    if dropped || m.implPend then
      s := dirty s m.id
      m := { m with pend := none }
    s ← checkObs s m obs "clear"
    s ← poolStep s m.id "clear" obs (fun _ _ => .clear) m.snd
    return setMach s (noteObs m obs)
  | "read" :: id :: rest =>
    let s := { s with ops := s.ops + 1 }
    let m := getMach s ((nat? id).getD 0)
    let p := getPipe s ((kvNat? rest "from").getD 0)
    let (r, c', w') := readMessage m.rcv p.buf
    -- did the implementation's receive state move? (its own previous report, not the model's)
    let implConsumed := !(kvNat? obs "rn" == some m.implRn && kvNat? obs "re" == some m.implRe)
    let mut m := m.withRcv c' 
    let mut s := touchPipe s m p
    s := setPipe s { getPipe s p.id with buf := w' }
    match r with
    | .ok d =>
      if res0 != "ok" || kvNat? res "len" != some d.len || parseVal d.len ((kv? res "val").getD "0") != d.val then
        s ← mismatch s s!"read mach={m.id}: model=ok {showVal d} impl={res0} len={(kv? res "len").getD "-"}"
    | .error e =>
      if res0 != rErrStr e then s ← mismatch s s!"read mach={m.id}: model={rErrStr e} impl={res0}"
    if kvNat? obs "pl" != some w'.length then
      s ← mismatch s s!"read mach={m.id}: bytes left in pipe model={w'.length} impl={(kv? obs "pl").getD "?"}"
    -- monitor
    if res0 == "ok" then
      let len := (kvNat? res "len").getD 0
      s ← monitorTampered s m res "read"
      (s, m) ← monitorDelivered s m { len := len, val := parseVal len ((kv? res "val").getD "0") }
    else
      (s, m) ← monitorReadFail s m p res0 implConsumed
      if !(res0 == "eof" && !implConsumed) then s := dirty s p.id
    s ← checkObs s m obs "read"
    return setMach s (noteObs m obs)
  | "rhead" :: id :: rest =>
    let s := { s with ops := s.ops + 1 }
    let m := getMach s ((nat? id).getD 0)
    let p := getPipe s ((kvNat? rest "from").getD 0)
    let (r, c', w') := readHeader m.rcv p.buf
    let mut m := { (m.withRcv c') with lastHead := none }
    let mut s := touchPipe s m p
    s := setPipe s { getPipe s p.id with buf := w' }
    match r with
    | .ok n =>
      if res0 != "ok" || kvNat? res "n" != some n then
        s ← mismatch s s!"rhead mach={m.id}: model=ok n={n} impl={res0} n={(kv? res "n").getD "-"}"
    | .error e =>
      if res0 != rErrStr e then s ← mismatch s s!"rhead mach={m.id}: model={rErrStr e} impl={res0}"
    if kvNat? obs "pl" != some w'.length then
      s ← mismatch s s!"rhead mach={m.id}: bytes left in pipe model={w'.length} impl={(kv? obs "pl").getD "?"}"
    if res0 == "ok" then
      m := { m with lastHead := kvNat? res "n" }
    else
      (s, m) ← monitorReadFail s m p res0 (res0 != "eof")
      if res0 != "eof" then s := dirty s p.id
    s ← checkObs s m obs "rhead"
    return setMach s (noteObs m obs)
  | "rbody" :: id :: rest =>
    let s := { s with ops := s.ops + 1 }
    let m := getMach s ((nat? id).getD 0)
    let p := getPipe s ((kvNat? rest "from").getD 0)
    let n := (kvNat? rest "n").getD 0
    let (r, c', w') := readBody m.rcv n p.buf
    let paired := m.lastHead == some n
    let mut m := { (m.withRcv c') with lastHead := none }
    let mut s := touchPipe s m p
    s := setPipe s { getPipe s p.id with buf := w' }
    match r with
    | .ok d =>
      if res0 != "ok" || kvNat? res "len" != some d.len || parseVal d.len ((kv? res "val").getD "0") != d.val then
        s ← mismatch s s!"rbody mach={m.id}: model=ok {showVal d} impl={res0} len={(kv? res "len").getD "-"}"
    | .error e =>
      if res0 != rErrStr e then s ← mismatch s s!"rbody mach={m.id}: model={rErrStr e} impl={res0}"
    if kvNat? obs "pl" != some w'.length then
      s ← mismatch s s!"rbody mach={m.id}: bytes left in pipe model={w'.length} impl={(kv? obs "pl").getD "?"}"
    if res0 == "ok" then
      if paired then
        let len := (kvNat? res "len").getD 0
        s ← monitorTampered s m res "rbody"
        (s, m) ← monitorDelivered s m { len := len, val := parseVal len ((kv? res "val").getD "0") }
    else
      (s, m) ← monitorReadFail s m p res0 true
      s := dirty s p.id
    s ← checkObs s m obs "rbody"
    return setMach s (noteObs m obs)
  ----------------------------------------------------------------- tampering
  | "corrupt" :: pid :: rest =>
    let p := getPipe s ((nat? pid).getD 0)
    let off := (kvNat? rest "off").getD 0
    return setPipe { s with tampers := s.tampers + 1 }
      { p with buf := p.buf.set off (.raw ((kvNat? rest "xor").getD 0)), clean := false }
  | "trunc" :: pid :: rest =>
    let p := getPipe s ((nat? pid).getD 0)
    return setPipe { s with tampers := s.tampers + 1 }
      { p with buf := p.buf.take ((kvNat? rest "keep").getD 0), clean := false }
  | "del" :: pid :: rest =>
    let p := getPipe s ((nat? pid).getD 0)
    let at_ := (kvNat? rest "at").getD 0
    let n := (kvNat? rest "n").getD 0
    return setPipe { s with tampers := s.tampers + 1 }
      { p with buf := p.buf.take at_ ++ p.buf.drop (at_ + n), clean := false }
  | "inject" :: pid :: rest =>
    let p := getPipe s ((nat? pid).getD 0)
    let src := getPipe s ((kvNat? rest "src").getD 0)
    let at_ := (kvNat? rest "at").getD 0
    let from_ := (kvNat? rest "from").getD 0
    let n := (kvNat? rest "n").getD 0
    return setPipe { s with tampers := s.tampers + 1 }
      { p with buf := p.buf.take at_ ++ (src.hist.drop from_).take n ++ p.buf.drop at_, clean := false }
  ----------------------------------------------------------------- Dial / doHandshake / Conn
  | "connhs" :: rest =>
    let s := { s with ops := s.ops + 1, connSessions := s.connSessions + 1 }
    let g (k : String) : Nat := (kvNat? rest k).getD 0
    let tam := ((kv? rest "tamper").getD "none").splitOn ":"
    let kind := tam.head?.getD "none"
    let dir := tam[1]?.getD ""
    let off := (tam[2]?.bind nat?).getD 0
    let pkf := pubField ((kv? rest "pk").getD "invalid")
    let tamper : Tamper :=
      if kind == "flip" then .flip (dir == "i2r") off pkf
      else if kind == "cut" then .cut (dir == "i2r") off
      else .none
    let o := connHandshake (g "is") (g "ie") (g "target") (g "rs") (g "re") tamper
    let dial := (kv? res "dial").getD "?"
    let acc := (kv? res "accept").getD "?"
    let rpub := (kv? res "rpub").getD "-"
    let oRpub := (o.rpub.map toString).getD "-"
    let mut s := s
    if connResStr o.dial != dial || connResStr o.accept != acc || oRpub != rpub then
      s ← mismatch s s!"connhs tamper={(kv? rest "tamper").getD "?"}: model dial={connResStr o.dial} accept={connResStr o.accept} rpub={oRpub}, impl dial={dial} accept={acc} rpub={rpub}"
    -- monitor
    let right := pubHex s (g "target") == pubHex s (g "rs")
    if acc == "ok" then s := { s with hsOk := s.hsOk + 1 } else s := { s with hsRejected := s.hsRejected + 1 }
    if acc == "ok" && !(right && kind == "none") then
      s ← monitor s "handshake-auth" s!"listener accepted a connection although {if right then "the handshake bytes were altered" else "the dialled key is not its own"}"
    if dial == "ok" && !(right && (kind == "none" || (dir == "i2r" && off ≥ actOneSize))) then
      s ← monitor s "handshake-auth" s!"Dial succeeded although {if right then "act one or two was altered in flight" else "the dialled key is not the listener's"}"
    if right && kind == "none" && !(dial == "ok" && acc == "ok") then
      s ← monitor s "right-key-rejected" s!"Dial/doHandshake with the right key and unaltered bytes: dial={dial} accept={acc}"
    if acc == "ok" && (nat? rpub).map (pubHex s) != some (pubHex s (g "is")) then
      s ← monitor s "handshake-auth" s!"listener reports remote key {rpub}, dialler is {g "is"}"
    match o.keys with
    | some ((isnd, ircv), (rsnd, rrcv)) =>
      s := setMach s { (({ id := 1 } : Mach).splitTo isnd ircv) with peer := 2 }
      s := setMach s { (({ id := 2 } : Mach).splitTo rsnd rrcv) with peer := 1 }
      s := setPipe s { id := 1 }
      s := setPipe s { id := 2 }
    | none => pure ()
    return s
  | "lflow" :: id :: rest =>
    -- one inbound connection of a Listener with several handshakes in flight: the complete
    -- control flow of doHandshake (Listener.lean) on what this session's environment did
    let s := { s with ops := s.ops + 1, listenerSessions := s.listenerSessions + 1 }
    let m := getMach s ((nat? id).getD 0)
    let peer := getMach s m.peer
    let dl := (kvNat? rest "dl").getD 0
    let ban := (kvNat? rest "ban").getD 0
    let d1 := kv? rest "d1" == some "true"
    let d3 := kv? rest "d3" == some "true"
    let a1hex := (kv? rest "a1").getD ""
    let a3hex := (kv? rest "a3").getD ""
    let env : LEnv :=
      { dl1 := dl != 1,
        rd1 := if d1 then some (parseAct12 s a1hex ((kv? rest "pk1").getD "invalid")) else none,
        wr2 := true, dl2 := dl != 2,
        rd3 := if d3 then some (parseAct3 s a3hex) else none,
        dl3 := dl != 3,
        accept := fun _ => (ban == 0 || ban == 3, ban == 1 || ban == 3) }
    let (r, a2) := listenerFlow m.lsKey ((kvNat? rest "e").getD 0) env
    let (model, mrpub) : String × String := match r with
      | .done _ y => ("ok", toString y)
      | .rejected .deadline => ("deadline", "-")
      | .rejected .io => ("io", "-")
      | .rejected (.hs e) => (hErrStr e, "-")
      | .rejected .noRemoteKey => ("noremote", "-")
      | .rejected .banned => ("banned", "-")
    let rpub := (kv? res "rpub").getD "-"
    let res := (kv? res "res").getD "?"
    let mut s := s
    let implRpub := if res == "ok" then rpub else "-"
    if model != res || mrpub != implRpub then
      s ← mismatch s s!"lflow mach={m.id}: model res={model} rpub={mrpub}, impl res={res} rpub={implRpub}"
    -- act two went out exactly when the model says so
    if a2.isSome != (m.out2 != "") then
      s ← mismatch s s!"lflow mach={m.id}: act two written model={a2.isSome} impl={m.out2 != ""}"
    let faulty := dl != 0 || ban == 1 || ban == 2 || !d1 || !(d3 || m.out2 == "")
    if faulty then s := { s with listenerFaults := s.listenerFaults + 1 }
    if res == "ok" then s := { s with hsOk := s.hsOk + 1 } else s := { s with hsRejected := s.hsRejected + 1 }
    -- monitor (trace only)
    if res == "ok" && !(d1 && d3) then
      s ← monitor s "handshake-auth" s!"listener session {m.id} accepted although act {if d1 then "three" else "one"} was never delivered completely"
    let right := pubHex s peer.target == pubHex s m.lsKey
    let unaltered := m.peer != 0 && d1 && d3 && a1hex == peer.out1 && a3hex == peer.out3 && peer.in2 == m.out2 && m.out2 != ""
    if res == "ok" && !(right && unaltered) then
      s ← monitor s "handshake-auth" s!"listener session {m.id} accepted although {if right then "the acts were altered in flight" else "the dialled key is not the listener's"}"
    if res != "ok" && right && unaltered && dl == 0 && (ban == 0 || ban == 3) then
      s ← monitor s "right-key-rejected" s!"listener session {m.id}: right static key dialled, acts delivered unaltered, no fault on the connection, yet rejected ({res})"
    return s
  | "lsema" :: rest =>
    -- every doHandshake returns its slot of the handshake semaphore (resource bookkeeping, not
    -- part of the property: correspondence only)
    let s := { s with ops := s.ops + 1 }
    if kvNat? rest "cap" != kvNat? res "free" then
      mismatch s s!"listener semaphore: {(kv? res "free").getD "?"} of {(kv? rest "cap").getD "?"} slots free after all handshakes ended"
    else return s
  | "cwrite" :: who :: rest =>
    let s := { s with ops := s.ops + 1 }
    let wid := if who == "i" then 1 else 2
    let chunks : List Msg := (((kv? rest "chunks").getD "").splitOn ",").filterMap fun c =>
      match c.splitOn ":" with
      | [l, v] => (nat? l).map fun l => { len := l, val := parseVal l v }
      | _ => none
    let budget0 := (kv? rest "budget").bind nat?
    let m0 := getMach s wid
    let p0 := getPipe s wid
    let r := connWrite m0.snd budget0 chunks
    let m := m0.withSnd r.st
    let p := { p0 with buf := p0.buf ++ r.out }
    let total := r.n
    let err := match r.err with
      | .none => "ok" | .timeout => "timeout" | .refused .tooLong => "toolong" | .refused .notFlushed => "notflushed"
    let mut s := setPipe (setMach s m) p
    -- the record lengths the harness reports are those of `chunkLens`
    if chunks.map (·.len) != chunkLens (chunks.foldl (fun a c => a + c.len) 0) then
      s ← mismatch s s!"cwrite {who}: record lengths {chunks.map (·.len)} differ from the model's chunking"
    let implN := (kvNat? res "n").getD 0
    let implErr := (kv? res "err").getD "?"
    if implN != total || implErr != err || kvNat? res "pl" != some p.buf.length then
      s ← mismatch s s!"cwrite {who}: model n={total} err={err} pl={p.buf.length}, impl n={implN} err={implErr} pl={(kv? res "pl").getD "?"}"
    -- monitor: the count returned is the number of plaintext bytes on the wire
    let all := chunks.foldl (fun a c => a + c.len) 0
    let wire := (kvNat? res "pl").getD 0   -- bytes that actually reached the pipe
    let rec plain (cs : List Msg) (w : Nat) : Nat :=
      match cs with
      | [] => 0
      | c :: cs' =>
        if w ≥ encHeaderSize + c.len + macSize then c.len + plain cs' (w - (encHeaderSize + c.len + macSize))
        else min (w - encHeaderSize) c.len
    if implN != plain chunks wire then
      s ← monitor s "flush-accounting" s!"Conn.Write returned {implN}, plaintext bytes on the wire {plain chunks wire}"
    if implErr == "ok" && implN != all then
      s ← monitor s "flush-accounting" s!"Conn.Write returned {implN} of {all} without error"
    return { s with connSent := (who, chunks) :: s.connSent.filter (·.1 != who) }
  | "crd" :: who :: rest =>
    -- one `Conn.Read(b)`, `len(b) = cap`, by the peer of `who`; replayed on `ConnR.step`
    let s := { s with ops := s.ops + 1 }
    let wid := if who == "i" then 1 else 2
    let rid := if who == "i" then 2 else 1
    let cap := (kvNat? rest "cap").getD 0
    let m0 := getMach s rid
    let p0 := getPipe s wid
    -- the unread stream handed to the model in fragments 1, 17, 1000, rest (the model must not
    -- depend on the fragmentation)
    let frags := [p0.buf.take 1, (p0.buf.drop 1).take 17, (p0.buf.drop 18).take 1000, p0.buf.drop 1018]
    let (cr, st) := ConnR.step { rcv := m0.rcv, inb := frags, buf := m0.rbuf } (.read cap)
    let (mn, merr) : Nat × String := match cr with
      | .data bs => (bs.length, "ok")
      | .fail e => (0, rErrStr e)
      | .emptyEof => (0, "eof")
    let m := { (m0.withRcv st.rcv) with rbuf := st.buf, cgot := m0.cgot ++ st.msgs, cgotN := m0.cgotN + mn }
    let mut s := setPipe (setMach s m) { p0 with buf := st.inb.flatten }
    let implN := (kvNat? res "n").getD 0
    let implErr := (kv? res "err").getD "?"
    if implN != mn || implErr != merr || kvNat? res "bl" != some st.buf.length then
      s ← mismatch s s!"crd {who} cap={cap}: model n={mn} err={merr} bl={st.buf.length}, impl {res}"
    -- monitor (from the bytes themselves): what Conn.Read has returned so far is a prefix of
    -- what the peer wrote; a Read never returns more than the caller's buffer holds
    if kv? res "pfx" != some "1" then
      s ← monitor s "delivered-not-sent" s!"Conn.Read (buffer {cap}) returned bytes that are not the next bytes written by the peer ({res})"
    if implN > cap then
      s ← monitor s "delivered-not-sent" s!"Conn.Read returned {implN} bytes into a buffer of {cap}"
    return s
  | "cread" :: who :: rest =>
    -- summary of the `crd` lines since the last summary
    let s := { s with ops := s.ops + 1 }
    let rid := if who == "i" then 2 else 1
    let want := (kvNat? rest "want").getD 0
    let sentChunks := ((s.connSent.find? (·.1 == who)).map (·.2)).getD []
    let m0 := getMach s rid
    let n := m0.cgotN
    let same := m0.cgot == sentChunks && m0.rbuf.isEmpty
    let implSame := kv? res "same" == some "1"
    let implErr := (kv? res "err").getD "?"
    let mut s := setMach s { m0 with cgot := [], cgotN := 0 }
    if kvNat? res "got" != some n || implSame != same then
      s ← mismatch s s!"cread {who}: model got={n} same={same}, impl {res}"
    if !implSame then
      s ← monitor s "delivered-not-sent" s!"Conn.Read returned bytes different from those written ({res})"
    else s := { s with delivered := s.delivered + sentChunks.length }
    -- an unaltered, completely written message must be readable completely (an empty one
    -- surfaces as io.EOF from bytes.Buffer.Read)
    if (kvNat? res "got" != some want) || (implErr != "ok" && !(want == 0 && implErr == "eof")) then
      s ← monitor s "clean-stream-rejected" s!"Conn.Read of a completely written, unaltered message of {want} bytes: {res}"
    return s
  | "cnext" :: who :: _ =>
    -- one record of the message written by `who`, read by the other side through
    -- ReadNextHeader + ReadNextBody (possibly while that side was writing itself)
    let s := { s with ops := s.ops + 1 }
    let wid := if who == "i" then 1 else 2
    let rid := if who == "i" then 2 else 1
    let m0 := getMach s rid
    let p0 := getPipe s wid
    let pending := ((s.connSent.find? (·.1 == who)).map (·.2)).getD []
    let (rh, c1, w1) := readHeader m0.rcv p0.buf
    let (model, c2, w2) : String × CipherState × List WByte := match rh with
      | .error e => (rErrStr e, c1, w1)
      | .ok n =>
        match readBody c1 n w1 with
        | (.ok d, c2, w2) => (s!"ok len={d.len} val={d.val % 2 ^ 64}", c2, w2)
        | (.error e, c2, w2) => (rErrStr e, c2, w2)
    let mut s := setPipe (setMach s (m0.withRcv c2)) { p0 with buf := w2 }
    let impl := if res0 == "ok" then
        let len := (kvNat? res "len").getD 0
        s!"ok len={len} val={parseVal len ((kv? res "val").getD "0") % 2 ^ 64}"
      else res0
    if impl != model then s ← mismatch s s!"cnext {who}: model={model} impl={impl}"
    -- monitor: the k-th record read is the k-th record written; an unaltered stream is not refused
    match pending with
    | w :: rest =>
      let want := s!"ok len={w.len} val={w.val % 2 ^ 64}"
      if res0 == "ok" then
        if impl != want then
          s ← monitor s "delivered-not-sent" s!"Conn {who}: record delivered {impl}, written {showVal w}"
        else s := { s with delivered := s.delivered + 1 }
      else
        s ← monitor s "clean-stream-rejected" s!"Conn {who}: a completely written, unaltered record was refused ({res0}) while the reading side was sending"
      return { s with connSent := (who, rest) :: s.connSent.filter (·.1 != who) }
    | [] =>
      if res0 == "ok" then s ← monitor s "delivered-not-sent" s!"Conn {who}: record delivered {impl}, nothing was written"
      return s
  | [] => return s
  | _ => mismatch s s!"unparsed line: {line.take 60}"

end LndModel.C11.Driver

open LndModel.C11.Driver in
def main : IO Unit := do
  let s ← LndModel.Lines.foldStdin step {}
  IO.println s!"STAT lines={s.lines}"
  IO.println s!"STAT cases={s.cases}"
  IO.println s!"STAT evaluations={s.ops}"
  IO.println s!"STAT nontrivial={s.delivered + s.rejected + s.hsOk + s.hsRejected + s.partialFlushes + s.refusedWrites}"
  IO.println s!"STAT delivered={s.delivered}"
  IO.println s!"STAT reads_rejected={s.rejected}"
  IO.println s!"STAT data_after_failed_read={s.postFailData}"
  IO.println s!"STAT handshake_steps_accepted={s.hsOk}"
  IO.println s!"STAT handshake_steps_rejected={s.hsRejected}"
  IO.println s!"STAT conn_sessions={s.connSessions}"
  IO.println s!"STAT flushes={s.flushes}"
  IO.println s!"STAT partial_flushes={s.partialFlushes}"
  IO.println s!"STAT refused_writes={s.refusedWrites}"
  IO.println s!"STAT encryptions_observed={s.encryptions}"
  IO.println s!"STAT max_key_epoch={s.maxEpoch}"
  IO.println s!"STAT tamper_ops={s.tampers}"
  IO.println s!"STAT listener_sessions={s.listenerSessions}"
  IO.println s!"STAT listener_sessions_with_fault={s.listenerFaults}"
  IO.println s!"STAT pool_ops={s.poolOps}"
  IO.println s!"STAT pool_buffers_reused={s.poolReused}"
  IO.println s!"STAT pool_buffers_new={s.poolFresh}"
  IO.println s!"STAT clear_pending_send={s.poolClears}"
  for (k, v) in s.dist.reverse do
    IO.println s!"STAT dist_{k}={v}"
  IO.println s!"STAT mismatches={s.mismatches}"
  IO.println s!"STAT monitor_failures={s.monitorFails}"
