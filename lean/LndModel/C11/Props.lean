/-
C11 — property theorems (DESIGN.md §2 C11).  Helper lemmas live in Lemmas.lean.

Cryptography is ideal/symbolic (see Model.lean): ECDH commutes, HKDF / SHA-256
/ public-key derivation are free constructors, the AEAD opens exactly the byte
string it produced for (key, nonce, associated data).  `Authentic` below is the
corresponding unforgeability assumption about the wire.
-/
import LndModel.C11.Lemmas

namespace LndModel.C11

/-! ## 1. nonce_unique -/

/-- The `i`-th AEAD use after `InitializeKeyWithSalt salt key` (counting from 0; encryptions on the
    sending side, decryptions on the receiving side) runs under the key obtained by applying the
    HKDF ratchet `i / 1000` times, with nonce `i % 1000`: the key is rotated exactly every
    `keyRotationInterval` uses, the nonce restarts at 0 and never reaches the interval. -/
theorem rotation_schedule (salt key : Term) (i : Nat) :
    (stateAt (CipherState.init salt key) i).key = (ratchet salt key (i / keyRotationInterval)).2 ∧
    (stateAt (CipherState.init salt key) i).salt = (ratchet salt key (i / keyRotationInterval)).1 ∧
    (stateAt (CipherState.init salt key) i).nonce = i % keyRotationInterval := by
  have h := stateAt_closed (CipherState.init salt key) (init_wf salt key) i
  simp only [CipherState.init, Nat.zero_add] at h
  exact ⟨h.2.1, h.1, h.2.2⟩

/-- `nonce_unique` (schedule form): entry `k` of the log of packets sealed while sending any
    message list from any well-formed state `c` is sealed under the key of ratchet step
    `(c.nonce + k) / 1000` with nonce `(c.nonce + k) % 1000`; entries `2i`, `2i+1` are the length
    prefix and the payload of message `i`.  Hence (step, nonce) increases strictly and
    lexicographically along the log, and the key changes every 1000 uses = 500 messages. -/
theorem nonce_unique (c : CipherState) (hc : c.WF) (ms : List Msg) (i : Nat) (m : Msg)
    (h : ms[i]? = some m) :
    (sealLog c ms)[2 * i]? = some ((stateAt c (2 * i)).seal Term.empty (lenMsg m.len)) ∧
    (sealLog c ms)[2 * i + 1]? = some ((stateAt c (2 * i + 1)).seal Term.empty m) ∧
    (∀ k, (stateAt c k).key = (ratchet c.salt c.key ((c.nonce + k) / keyRotationInterval)).2 ∧
          (stateAt c k).nonce = (c.nonce + k) % keyRotationInterval) := by
  obtain ⟨h1, h2⟩ := sealLog_getElem ms c i
  rw [h] at h1 h2
  exact ⟨h1, h2, fun k => ⟨(stateAt_closed c hc k).2.1, (stateAt_closed c hc k).2.2⟩⟩

/-- no `(key, nonce)` pair is used twice in one direction: two different positions of the log
    never carry the same key TERM and nonce (uses: the keys of different ratchet steps are
    different terms). -/
theorem no_key_nonce_reuse (c : CipherState) (hc : c.WF) (ms : List Msg) :
    (sealLog c ms).Pairwise (fun p q => ¬ (p.key = q.key ∧ p.nonce = q.nonce)) :=
  sealLog_pairwise ms c hc

/-- `nonce_unique` over ARBITRARY operation traces: whatever sequence of `WriteMessage` (accepted
    or refused: too long / previous record not flushed) and `Flush` (any budget, eager or not,
    complete or not, also none at all for the last record) is applied to a fresh sending side,
    the ghost log of all `Encrypt` calls equals the spec log of the accepted messages, no two of
    its entries share (key, nonce), the cipher state has advanced by exactly two uses per accepted
    message (a refused write does not consume a nonce), and the bytes handed to the writer plus
    the bytes still buffered are exactly the encoding of the accepted messages. -/
theorem trace_nonce_unique (c : CipherState) (hc : c.WF) (ops : List Op) :
    let t := runOps (Trace.start c) ops
    t.log = sealLog c t.accepted ∧
    t.log.Pairwise (fun p q => ¬ (p.key = q.key ∧ p.nonce = q.nonce)) ∧
    t.s.cs = stateAt c (2 * t.accepted.length) ∧
    t.wire ++ (t.s.hdr ++ t.s.body) = encodeAll c t.accepted := by
  obtain ⟨h1, h2, h3, _⟩ := traceInv_run c ops _ (traceInv_start c)
  exact ⟨h1, by rw [h1]; exact sealLog_pairwise _ c hc, h2, h3⟩

/-- the two directions of a connection (`split`: same salt `ck`, keys `kdf1 ck ∅` / `kdf2 ck ∅`)
    never use the same key, at any pair of ratchet steps. -/
theorem directions_use_distinct_keys (ck : Term) (ms ms' : List Msg) (p q : Packet)
    (hp : p ∈ sealLog (CipherState.init ck (.kdf1 ck Term.empty)) ms)
    (hq : q ∈ sealLog (CipherState.init ck (.kdf2 ck Term.empty)) ms') :
    p.key ≠ q.key := by
  obtain ⟨_, ⟨k1, a, _⟩, _⟩ := mem_sealLog_wf ms _ (init_wf _ _) p hp
  obtain ⟨_, ⟨k2, b, _⟩, _⟩ := mem_sealLog_wf ms' _ (init_wf _ _) q hq
  rw [a, b, (stateAt_closed _ (init_wf _ _) k1).2.1, (stateAt_closed _ (init_wf _ _) k2).2.1]
  simp only [CipherState.init]
  exact ratchet_directions_distinct ck _ _ (by simp) (by simp [Term.size]) _ _

example : (sealLog (CipherState.init (.atom 7) (.atom 8)) [⟨3, 5⟩, ⟨0, 0⟩]).length = 4 := rfl

example : (runOps (Trace.start (CipherState.init (.atom 7) (.atom 8)))
    [.write ⟨3, 5⟩, .flush (some 4) true, .write ⟨1, 1⟩, .flush none false, .write ⟨70000, 0⟩,
     .write ⟨0, 0⟩]).accepted = [⟨3, 5⟩, ⟨0, 0⟩] := by decide

/-! ## 2. flush_accounting -/

/-- One `Flush` call, whatever the writer accepts: the bytes handed to the writer followed by what
    stays buffered is what was buffered before (so the wire always carries a prefix of
    `header ‖ body`), the cipher state is untouched, and the returned count is exactly the number
    of payload bytes (body bytes before the 16-byte MAC) that left the buffer in this call. -/
theorem flush_step (s : Sender) (budget : Option Nat) (eager : Bool) :
    (flush s budget eager).out ++ ((flush s budget eager).st.hdr ++ (flush s budget eager).st.body)
      = s.hdr ++ s.body ∧
    (flush s budget eager).st.cs = s.cs ∧
    (flush s budget eager).nn + ((flush s budget eager).st.body.length - macSize)
      = s.body.length - macSize :=
  ⟨(flush_conserve s budget eager).1, (flush_conserve s budget eager).2, flush_count s budget eager⟩

/-- `flush_accounting`: after `WriteMessage m`, for ANY sequence of `Flush` calls (each against a
    writer accepting any number of bytes, timing out or not): the concatenated output is a prefix
    of the record, the returned counts add up to the number of payload bytes on the wire
    (`m.len` minus the payload bytes still buffered), and once nothing is buffered the counts add
    up to `m.len` and the wire carries exactly the record. -/
theorem flush_accounting (s s1 : Sender) (m : Msg) (hw : writeMessage s m = .ok s1)
    (fs : List (Option Nat × Bool)) :
    (runFlushes s1 fs).1 ++ ((runFlushes s1 fs).2.2.hdr ++ (runFlushes s1 fs).2.2.body)
      = encodeMsg s.cs m ∧
    (runFlushes s1 fs).2.1.sum + ((runFlushes s1 fs).2.2.body.length - macSize) = m.len ∧
    ((runFlushes s1 fs).2.2.hdr = [] → (runFlushes s1 fs).2.2.body = [] →
      (runFlushes s1 fs).2.1.sum = m.len ∧ (runFlushes s1 fs).1 = encodeMsg s.cs m) := by
  obtain ⟨_, _, _, hs1⟩ := writeMessage_inv s s1 m hw
  obtain ⟨h1, _, h3⟩ := runFlushes_conserve fs s1
  have hb : s1.body.length - macSize = m.len := by
    rw [hs1]; simp [render_length, seal_pt]
  have he : s1.hdr ++ s1.body = encodeMsg s.cs m := by rw [hs1]; rfl
  rw [he] at h1
  rw [hb] at h3
  refine ⟨h1, h3, ?_⟩
  intro hh hbd
  rw [hh, hbd] at h1
  rw [hbd] at h3
  exact ⟨by simpa using h3, by simpa using h1⟩

example : ∃ s1, writeMessage ⟨CipherState.init (.atom 1) (.atom 2), [], []⟩ ⟨3, 9⟩ = .ok s1 :=
  ⟨_, writeMessage_ok _ _ (by simp [maxPayload]) rfl rfl⟩

/-! ## 3. stream_in_order -/

/-- `stream_in_order`: any list of messages of admissible size, each written with `WriteMessage`
    and pushed out by ANY pattern of partial flushes (any budgets, eager or not, ending with a
    complete flush), read from the resulting byte stream by a receiver whose receive state equals
    the sender's send state, comes out identical and in order, with nothing left over. Holds for
    every list length, hence across any number of key rotations. -/
theorem stream_in_order (s : Sender) (hh : s.hdr = []) (hb : s.body = []) (steps : List SendStep)
    (hl : ∀ st ∈ steps, st.msg.len ≤ maxPayload) :
    ∃ wire s', sendAll s steps = some (wire, s') ∧
      recvAll steps.length s.cs wire = steps.map (·.msg) ∧
      ∀ fuel, steps.length ≤ fuel → recvAll fuel s.cs wire = steps.map (·.msg) := by
  obtain ⟨s', h1, _, _, _⟩ := sendAll_encodeAll steps s hh hb hl
  refine ⟨_, s', h1, ?_, ?_⟩
  · exact recvAll_encodeAll _ _ _ (by simp)
  · intro fuel hf; exact recvAll_encodeAll _ _ _ (by simpa using hf)

/-- the send state after the stream equals the receive state after reading it: the two sides
    stay in step (same epoch, same nonce), ready for the next message. -/
theorem stream_states_in_step (s : Sender) (hh : s.hdr = []) (hb : s.body = []) (steps : List SendStep)
    (hl : ∀ st ∈ steps, st.msg.len ≤ maxPayload) :
    ∃ wire s', sendAll s steps = some (wire, s') ∧ s'.cs = stateAt s.cs (2 * steps.length) := by
  obtain ⟨s', h1, _, _, h4⟩ := sendAll_encodeAll steps s hh hb hl
  exact ⟨_, s', h1, h4⟩

example : (∀ st ∈ [(⟨⟨5, 1⟩, [(some 3, true), (some 0, false)]⟩ : SendStep)], st.msg.len ≤ maxPayload) := by
  simp [maxPayload]

/-- `read_write_commute`: on one Machine an operation of the sending side (`WriteMessage`, any
    `Flush`) and an operation of the receiving side (bytes arriving, `ReadMessage`) commute: both
    orders give the same Machine state, the same read result, the same bytes written. -/
theorem read_write_commute (d : Duplex) (s : Op) (r : ROp) :
    (d.step (.send s)).step (.recv r) = (d.step (.recv r)).step (.send s) := by
  cases r <;> rfl

/-- full duplex: for ANY interleaving of sending-side and receiving-side operations on one
    Machine, the sending side ends exactly as if only its own operations had run (same ghost log
    of encryptions, same wire bytes, same buffers and nonce) and the receiving side — cipher
    state, unread bytes and the result of every read — exactly as if only its own had run.
    Together with `stream_in_order` / `trace_nonce_unique` this gives delivery and nonce
    uniqueness for two directions active at once. -/
theorem duplex_independent (ops : List DOp) : ∀ (d : Duplex),
    (d.run ops).tx = runOps d.tx (sendPart ops) ∧
    (d.run ops).rx = (recvPart ops).foldl RecvSide.step d.rx := by
  induction ops with
  | nil => intro d; exact ⟨rfl, rfl⟩
  | cons op ops ih =>
    intro d
    cases op with
    | send o =>
      obtain ⟨h1, h2⟩ := ih (d.step (.send o))
      exact ⟨h1, h2⟩
    | recv o =>
      obtain ⟨h1, h2⟩ := ih (d.step (.recv o))
      exact ⟨h1, h2⟩

/-- two Machines, both directions at once: A's sending side feeds B's receiving side while B
    sends to A in arbitrary interleaving; what B reads is what A sent (here: everything A wrote
    arrives before B reads, in any fragmentation of the arrival). -/
theorem duplex_delivery (c : CipherState) (steps : List SendStep)
    (hl : ∀ st ∈ steps, st.msg.len ≤ maxPayload) (frags : List (List WByte)) (rx0 : CipherState)
    (other : List Op) (wire : List WByte) (s' : Sender)
    (hsend : sendAll ⟨c, [], []⟩ steps = some (wire, s')) (hfr : frags.flatten = wire) :
    recvAll steps.length c
      ((((Duplex.mk (Trace.start rx0) ⟨c, [], []⟩).run
          ((frags.map (fun f => DOp.recv (.arrive f))) ++ other.map DOp.send)).rx).inb)
      = steps.map (·.msg) := by
  obtain ⟨wire', s'', h1, h2, _⟩ := stream_in_order ⟨c, [], []⟩ rfl rfl steps hl
  rw [hsend] at h1
  injection h1 with h1
  injection h1 with hw _
  subst hw
  obtain ⟨_, hrx⟩ := duplex_independent
    ((frags.map (fun f => DOp.recv (.arrive f))) ++ other.map DOp.send) (Duplex.mk (Trace.start rx0) ⟨c, [], []⟩)
  rw [hrx]
  have hpart : ∀ (fs : List (List WByte)),
      recvPart ((fs.map (fun f => DOp.recv (.arrive f))) ++ other.map DOp.send) = fs.map ROp.arrive := by
    have a : ∀ (l : List Op), recvPart (l.map DOp.send) = [] := by
      intro l; induction l with
      | nil => rfl
      | cons x xs ih => simpa [recvPart] using ih
    intro fs
    induction fs with
    | nil => simpa using a other
    | cons f fs ih => simp only [List.map_cons, List.cons_append, recvPart, ih]
  rw [hpart frags]
  have hinb : ∀ (fs : List (List WByte)) (r : RecvSide),
      ((fs.map ROp.arrive).foldl RecvSide.step r).inb = r.inb ++ fs.flatten := by
    intro fs
    induction fs with
    | nil => intro r; simp
    | cons f fs ih => intro r; simp [List.foldl_cons, RecvSide.step, ih, List.append_assoc]
  rw [hinb]
  simpa [hfr] using h2

/-! ## 4. tamper_fails -/

/-- `tamper_fails` (one read): `ReadMessage` returns data only if the bytes in front of it are
    EXACTLY the two records the sender produces for that message from the same cipher state
    (same key epoch, same nonce).  Any modification, truncation, insertion, reordering, replay
    of an earlier record, or reflection of the reader's own ciphertext changes those bytes and
    therefore yields an error. -/
theorem read_ok_iff (c c' : CipherState) (w w' : List WByte) (m : Msg) :
    readMessage c w = (.ok m, c', w') ↔ (w = encodeMsg c m ++ w' ∧ c' = c.advance.advance) := by
  constructor
  · exact readMessage_ok c c' w w' m
  · rintro ⟨rfl, rfl⟩; exact readMessage_encode c m w'

/-- a record sealed under a different key term or a different nonce (earlier message: replay;
    later message: reordering; the other direction: reflection; another session) is rejected —
    and ONLY the AEAD inputs matter: a record from a state with another salt or history but the
    same key term and nonce is the same byte string and is accepted (`read_ok_iff`). -/
theorem foreign_record_rejected (c d : CipherState) (m : Msg) (w : List WByte)
    (hne : d.key ≠ c.key ∨ d.nonce ≠ c.nonce) :
    ∀ m' c' w', readMessage c (encodeMsg d m ++ w) ≠ (.ok m', c', w') := by
  intro m' c' w' h
  obtain ⟨hw, _⟩ := readMessage_ok _ _ _ _ _ h
  obtain ⟨t1, h1⟩ := render_head (d.seal Term.empty (lenMsg m.len))
  obtain ⟨t2, h2⟩ := render_head (c.seal Term.empty (lenMsg m'.len))
  simp only [encodeMsg, List.append_assoc] at hw
  rw [h1, h2] at hw
  injection hw with hw _
  injection hw with hw _
  simp only [CipherState.seal, Packet.mk.injEq] at hw
  obtain ⟨e1, _, _, e4⟩ := hw
  rcases hne with h | h
  · exact h e4
  · exact h e1

/-- the salt plays no role for acceptance: same key term, same nonce ⇒ the record is read. -/
theorem same_key_nonce_accepted (c d : CipherState) (m : Msg) (w : List WByte)
    (hk : d.key = c.key) (hn : d.nonce = c.nonce) (hn' : d.nonce + 1 ≠ keyRotationInterval) :
    ∃ c', readMessage c (encodeMsg d m ++ w) = (.ok m, c', w) := by
  have e : encodeMsg d m = encodeMsg c m := by
    have ha : d.advance.key = c.advance.key ∧ d.advance.nonce = c.advance.nonce := by
      simp only [CipherState.advance, hn', hn ▸ hn', if_false, hk, hn]
      exact ⟨trivial, trivial⟩
    simp only [encodeMsg, CipherState.seal, hk, hn, ha.1, ha.2]
  rw [e]
  exact ⟨_, readMessage_encode c m w⟩

/-- a stream cut anywhere inside a record gives an I/O error, never data. -/
theorem truncated_rejected (c : CipherState) (m : Msg) (k : Nat) (hk : k < (encodeMsg c m).length) :
    ∀ m' c' w', readMessage c ((encodeMsg c m).take k) ≠ (.ok m', c', w') := by
  intro m' c' w' h
  obtain ⟨hw, _⟩ := readMessage_ok _ _ _ _ _ h
  -- the first record fixes the length prefix, hence m'.len = m.len, hence the lengths clash
  have hlen : ((encodeMsg c m).take k).length = k := by simp [List.length_take]; omega
  have hl2 : (encodeMsg c m' ++ w').length = k := by rw [← hw]; exact hlen
  have em := encodeMsg_length c
  by_cases hk18 : k < encHeaderSize
  · rw [List.length_append, em] at hl2; omega
  · -- the header record survives intact, so the length prefixes agree
    have hpre : ((encodeMsg c m).take k).take encHeaderSize = (encodeMsg c m' ++ w').take encHeaderSize := by
      rw [hw]
    have hA : (encodeMsg c m).take encHeaderSize = render (c.seal Term.empty (lenMsg m.len)) := by
      have := take_hdr c m []
      simpa using this
    have hB := take_hdr c m' w'
    rw [List.take_take, Nat.min_eq_left (by omega), hA, hB] at hpre
    have := render_inj _ _ hpre
    have hmm : m.len = m'.len := by
      have := congrArg (fun p : Packet => p.pt.val) this
      simpa [seal_pt, lenMsg] using this
    rw [List.length_append, em] at hl2
    rw [em] at hk
    omega

/-- a damaged byte anywhere inside the record gives an error, never data. -/
theorem corrupted_rejected (c : CipherState) (m : Msg) (w : List WByte) (i x : Nat)
    (hi : i < (encodeMsg c m).length) :
    ∀ m' c' w', readMessage c (((encodeMsg c m) ++ w).set i (.raw x)) ≠ (.ok m', c', w') := by
  intro m' c' w' h
  obtain ⟨hw, _⟩ := readMessage_ok _ _ _ _ _ h
  -- position i of the left side is a raw byte; of the right side either a packet byte …
  have hlen : i < ((encodeMsg c m) ++ w).length := by rw [List.length_append]; omega
  have hlen' : i < (encodeMsg c m).length + w.length := by omega
  have hget : (((encodeMsg c m) ++ w).set i (.raw x))[i]? = some (.raw x) := by
    simp [List.getElem?_set, hlen']
  rw [hw] at hget
  have em := encodeMsg_length c
  -- … unless i lies beyond the record read, which needs m'.len < m.len; but the header is
  -- either damaged (i < 18) or intact (then the lengths agree)
  by_cases hin : i < (encodeMsg c m').length
  · rw [List.getElem?_append_left hin] at hget
    have hmem := List.mem_of_getElem? hget
    simp only [encodeMsg, List.mem_append] at hmem
    rcases hmem with hmem | hmem
    · obtain ⟨o, ho⟩ := mem_render _ _ hmem; cases ho
    · obtain ⟨o, ho⟩ := mem_render _ _ hmem; cases ho
  · have hi18 : encHeaderSize ≤ i := by rw [em] at hin; omega
    have hpre : ((((encodeMsg c m) ++ w).set i (.raw x))).take encHeaderSize =
        (encodeMsg c m' ++ w').take encHeaderSize := by rw [hw]
    rw [List.take_set_of_le hi18] at hpre
    have hA := take_hdr c m w
    have hB := take_hdr c m' w'
    rw [hA, hB] at hpre
    have := render_inj _ _ hpre
    have hmm : m.len = m'.len := by
      have := congrArg (fun p : Packet => p.pt.val) this
      simpa [seal_pt, lenMsg] using this
    rw [em] at hin hi
    omega

/-- Unforgeability of the ideal AEAD, as a property of a byte stream `w`: every packet byte on
    the wire that is sealed under the sending side's base key stems from a packet the sender
    really sealed while sending `ms` (the adversary may cut, splice, repeat, reorder and mix in
    arbitrary foreign bytes, but cannot seal under any key of this direction's ratchet chain,
    identified by the key TERM, whatever state it was computed from). -/
def Authentic (c : CipherState) (ms : List Msg) (w : List WByte) : Prop :=
  ∀ p off, WByte.pkt p off ∈ w → (∃ e, p.key = (ratchet c.salt c.key e).2) → p ∈ sealLog c ms

theorem delivered_prefix_aux (c0 : CipherState) (hc : c0.WF) (ms0 : List Msg) :
    ∀ (fuel j : Nat) (w : List WByte), Authentic c0 ms0 w →
      recvAll fuel (stateAt c0 (2 * j)) w <+: ms0.drop j := by
  intro fuel
  induction fuel with
  | zero => intro j w _; exact List.nil_prefix
  | succ n ih =>
    intro j w ha
    simp only [recvAll]
    split
    · rename_i m c' w' hr
      obtain ⟨hw, hc'⟩ := readMessage_ok _ _ _ _ _ hr
      -- the payload record is on the wire, sealed under the session key at position 2j+1
      have hmem : WByte.pkt ((stateAt c0 (2 * j)).advance.seal Term.empty m) 0 ∈ w := by
        rw [hw]; simp only [encodeMsg, List.mem_append]
        exact Or.inl (Or.inr (head_mem_render _))
      have hin := ha _ _ hmem
        ⟨_, (stateAt_closed c0 hc (2 * j + 1)).2.1⟩
      obtain ⟨i, mi, hi, hp⟩ := mem_sealLog ms0 c0 _ hin
      have hij : i = j ∧ mi = m := by
        rcases hp with hp | hp
        · have hk := congrArg Packet.key hp
          have hn := congrArg Packet.nonce hp
          have := stateAt_index_inj c0 hc (2 * j + 1) (2 * i) hk hn
          omega
        · have hk := congrArg Packet.key hp
          have hn := congrArg Packet.nonce hp
          have := stateAt_index_inj c0 hc (2 * j + 1) (2 * i + 1) hk hn
          have h2 := congrArg Packet.pt hp
          simp only [seal_pt] at h2
          exact ⟨by omega, h2.symm⟩
      obtain ⟨rfl, rfl⟩ := hij
      obtain ⟨hlt, hget⟩ := List.getElem?_eq_some_iff.mp hi
      rw [List.drop_eq_getElem_cons hlt, hget]
      refine List.cons_prefix_cons.mpr ⟨rfl, ?_⟩
      have hc2 : c' = stateAt c0 (2 * (i + 1)) := by
        rw [hc']; rfl
      rw [hc2]
      apply ih (i + 1) w'
      intro p off hp' h1
      exact ha p off (by rw [hw]; exact List.mem_append_right _ hp') h1
    · exact List.nil_prefix

/-- `tamper_fails` (whole connection): whatever byte stream reaches the receiver — honest bytes
    cut, spliced, reordered, repeated, mixed with reflected or foreign or random bytes, as long
    as the adversary cannot itself seal under the session key (`Authentic`) — the messages
    delivered before the first failed read are a prefix of the messages sent: nothing altered,
    nothing reordered, nothing duplicated, nothing invented. -/
theorem delivered_prefix (c : CipherState) (hc : c.WF) (ms : List Msg) (w : List WByte)
    (ha : Authentic c ms w) (fuel : Nat) : recvAll fuel c w <+: ms := by
  have := delivered_prefix_aux c hc ms fuel 0 w ha
  simpa [stateAt] using this

/-- non-vacuity: the honest stream followed by a replay of itself is authentic -/
example (c : CipherState) (ms : List Msg) : Authentic c ms (encodeAll c ms ++ encodeAll c ms) := by
  intro p off hp _
  have key : ∀ (ms : List Msg) (c : CipherState) (p : Packet) (off : Nat),
      WByte.pkt p off ∈ encodeAll c ms → p ∈ sealLog c ms := by
    intro ms
    induction ms with
    | nil => intro c p off h; simp [encodeAll] at h
    | cons m ms ih =>
      intro c p off h
      simp only [encodeAll, encodeMsg, List.mem_append] at h
      simp only [sealLog, List.mem_cons]
      rcases h with (h | h) | h
      · obtain ⟨o, ho⟩ := mem_render _ _ h; injection ho with ho _; exact Or.inl ho
      · obtain ⟨o, ho⟩ := mem_render _ _ h; injection ho with ho _; exact Or.inr (Or.inl ho)
      · exact Or.inr (Or.inr (ih _ _ _ h))
  rcases List.mem_append.mp hp with h | h <;> exact key ms c p off h

/-- Why the stronger claim "after a failed read no later read yields data" is NOT a theorem (and
    not true of the code, see notes): the first record is the two bytes 0x0002 and its header is
    damaged; the first `ReadMessage` fails, a second one then takes the 18-byte payload record
    (nonce 1) for a header, reads "length 2", and hands out the next record's length prefix
    (here 5) as a two-byte message. The property therefore speaks about reads up to the first
    failure (`delivered_prefix`); lnd drops the connection on a failed read. -/
example :
    (readMessage (CipherState.init (.atom 1) (.atom 2))
        ((encodeAll (CipherState.init (.atom 1) (.atom 2)) [⟨2, 2⟩, ⟨5, 77⟩]).set 0 (.raw 0))).1.toOption = none ∧
    (readMessage
        (readMessage (CipherState.init (.atom 1) (.atom 2))
          ((encodeAll (CipherState.init (.atom 1) (.atom 2)) [⟨2, 2⟩, ⟨5, 77⟩]).set 0 (.raw 0))).2.1
        (readMessage (CipherState.init (.atom 1) (.atom 2))
          ((encodeAll (CipherState.init (.atom 1) (.atom 2)) [⟨2, 2⟩, ⟨5, 77⟩]).set 0 (.raw 0))).2.2).1.toOption
      = some ⟨2, 5⟩ := by
  decide

/-! ## 5. handshake -/

/-- chaining keys and handshake keys of an honest exchange -/
def hsCk1 (ie rs : Nat) : Term := .kdf1 Term.protoHash (mkDh ie rs)
def hsK1 (ie rs : Nat) : Term := .kdf2 Term.protoHash (mkDh ie rs)
def hsCk2 (ie rs re : Nat) : Term := .kdf1 (hsCk1 ie rs) (mkDh re ie)
def hsK2 (ie rs re : Nat) : Term := .kdf2 (hsCk1 ie rs) (mkDh re ie)
def hsCk3 (is ie rs re : Nat) : Term := .kdf1 (hsCk2 ie rs re) (mkDh re is)
def hsK3 (is ie rs re : Nat) : Term := .kdf2 (hsCk2 ie rs re) (mkDh re is)

/-- the complete result of an honest exchange with the right key: session keys of both sides
    and the `(key, nonce)` of every `Encrypt` call made during the three acts. -/
theorem handshake_result (is ie rs re : Nat) :
    ∃ iF rF, runHandshakeStates is ie rs rs re = some
        ((CipherState.init (hsCk3 is ie rs re) (.kdf1 (hsCk3 is ie rs re) Term.empty),
          CipherState.init (hsCk3 is ie rs re) (.kdf2 (hsCk3 is ie rs re) Term.empty)),
         (CipherState.init (hsCk3 is ie rs re) (.kdf2 (hsCk3 is ie rs re) Term.empty),
          CipherState.init (hsCk3 is ie rs re) (.kdf1 (hsCk3 is ie rs re) Term.empty)), iF, rF) ∧
      iF.uses = [(hsK3 is ie rs re, 0), (hsK2 ie rs re, 1), (hsK1 ie rs, 0)] ∧
      rF.uses = [(hsK2 ie rs re, 0)] := by
  simp [runHandshakeStates, genActOne, recvActOne, recvAct12, genActTwo, recvActTwo, genActThree,
    recvActThree, HState.new, HState.mixHash, HState.mixKey, HState.encryptAndHash, HState.decryptAndHash,
    hsOpen, handshakeVersion, mkDh_comm is re, HState.split, hsCk1, hsCk2, hsCk3, hsK1, hsK2, hsK3]
  exact ⟨_, _, ⟨rfl, rfl⟩, rfl, rfl⟩

/-- `handshake_iff_right_key` (this IS the clause "the handshake completes exactly when the
    initiator targets the responder's real static key", for acts delivered unaltered; altered
    acts are covered by `responder_auth` / `initiator_auth` below): for all static and ephemeral
    keys, the three acts complete **iff** the key the initiator dials is the responder's. -/
theorem handshake_iff_right_key (is ie target rs re : Nat) :
    (runHandshake is ie target rs re).isSome ↔ target = rs := by
  by_cases h : target = rs
  · subst h
    obtain ⟨iF, rF, hr, _⟩ := handshake_result is ie target re
    simp [runHandshake, hr]
  · simp [runHandshake, runHandshakeStates, genActOne, recvActOne, recvAct12, HState.new, HState.mixHash,
      HState.mixKey, HState.encryptAndHash, HState.decryptAndHash, hsOpen, handshakeVersion, h]

/-- after a completed handshake each side's send state is the other side's receive state
    (key, salt, nonce 0), the two directions share the salt and use different keys of equal size. -/
theorem handshake_keys_mirror (is ie target rs re : Nat) (ik rk : CipherState × CipherState)
    (h : runHandshake is ie target rs re = some (ik, rk)) :
    ik.1 = rk.2 ∧ ik.2 = rk.1 ∧ ik.1.key ≠ ik.2.key ∧ ik.1.salt = ik.2.salt ∧
    ik.1.nonce = 0 ∧ ik.2.nonce = 0 ∧ ik.1.key.size = ik.2.key.size ∧
    ik.1.key = .kdf1 ik.1.salt Term.empty ∧ ik.2.key = .kdf2 ik.1.salt Term.empty := by
  have ht : target = rs := (handshake_iff_right_key is ie target rs re).mp (by rw [h]; rfl)
  subst ht
  obtain ⟨iF, rF, hr, _⟩ := handshake_result is ie target re
  simp only [runHandshake, hr, Option.map_some, Option.some.injEq, Prod.mk.injEq] at h
  obtain ⟨rfl, rfl⟩ := h
  simp [CipherState.init, Term.size]

/-- `RecvActOne` accepts exactly one tag for a given ephemeral key: the one an initiator holding
    that ephemeral key computes when it dials THIS responder's static key from the same
    transcript.  Any other version byte, an unparsable key, or any other tag is refused. -/
theorem recvActOne_ok_iff (s : HState) (a : Act12) :
    (recvActOne s a).1 = .ok () ↔
      a.ver = handshakeVersion ∧ ∃ x pt, a.e = .valid x ∧
        a.tag = .ct (.aead (.kdf2 s.ck (mkDh x s.ls)) 0 (.hash s.h (.pub x)) pt) := by
  obtain ⟨ver, e, tag⟩ := a
  unfold recvActOne recvAct12
  by_cases hv : ver = handshakeVersion
  · subst hv
    cases e with
    | invalid => simp
    | valid x =>
      cases tag with
      | junk => simp [HState.mixHash, HState.mixKey, HState.decryptAndHash, hsOpen]
      | ct t =>
        cases t with
        | aead k n ad pt =>
          by_cases hc : k = Term.kdf2 s.ck (mkDh x s.ls) ∧ n = 0 ∧ ad = Term.hash s.h (Term.pub x)
          · obtain ⟨rfl, rfl, rfl⟩ := hc
            simp [HState.mixHash, HState.mixKey, HState.decryptAndHash, hsOpen]
          · simp only [HState.mixHash, HState.mixKey, HState.decryptAndHash, hsOpen, hc, if_false, ne_eq,
              not_true_eq_false]
            simp only [not_and] at hc
            simp
            intro h1 h2 h3
            exact hc h1 h2 h3
        | _ => simp [HState.mixHash, HState.mixKey, HState.decryptAndHash, hsOpen]
  · simp [hv]

/-- `RecvActTwo`: same statement for the initiator, with its own ephemeral key in the ECDH. -/
theorem recvActTwo_ok_iff (s : HState) (a : Act12) :
    (recvActTwo s a).1 = .ok () ↔
      a.ver = handshakeVersion ∧ ∃ x e pt, a.e = .valid x ∧ s.le = some e ∧
        a.tag = .ct (.aead (.kdf2 s.ck (mkDh x e)) 0 (.hash s.h (.pub x)) pt) := by
  obtain ⟨ver, e, tag⟩ := a
  unfold recvActTwo recvAct12
  by_cases hv : ver = handshakeVersion
  · subst hv
    cases e with
    | invalid => simp
    | valid x =>
      cases hle : s.le with
      | none => simp
      | some e0 =>
        cases tag with
        | junk => simp [HState.mixHash, HState.mixKey, HState.decryptAndHash, hsOpen]
        | ct t =>
          cases t with
          | aead k n ad pt =>
            by_cases hc : k = Term.kdf2 s.ck (mkDh x e0) ∧ n = 0 ∧ ad = Term.hash s.h (Term.pub x)
            · obtain ⟨rfl, rfl, rfl⟩ := hc
              simp [HState.mixHash, HState.mixKey, HState.decryptAndHash, hsOpen]
            · simp only [HState.mixHash, HState.mixKey, HState.decryptAndHash, hsOpen, hc, if_false, ne_eq,
                not_true_eq_false]
              simp only [not_and] at hc
              simp
              intro h1 h2 h3
              exact hc h1 h2 h3
          | _ => simp [HState.mixHash, HState.mixKey, HState.decryptAndHash, hsOpen]
  · simp [hv]

/-- `RecvActThree` completes exactly on the act three whose first part is the sender's static key
    sealed under the current handshake key/nonce/digest and whose tag is the one determined by
    that key, the responder's ephemeral key and the transcript. -/
theorem recvActThree_ok_iff (s : HState) (a : Act3) :
    (∃ keys, (recvActThree s a).1 = .ok keys) ↔
      a.ver = handshakeVersion ∧ ∃ x e pt, s.le = some e ∧
        a.c = .ct (.aead s.k s.n s.h (.pub x)) ∧
        a.tag = .ct (.aead (.kdf2 s.ck (mkDh x e)) 0 (.hash s.h (.aead s.k s.n s.h (.pub x))) pt) := by
  obtain ⟨ver, c, tag⟩ := a
  unfold recvActThree
  by_cases hv : ver ≠ handshakeVersion
  · simp [hv]
  have hv : ver = handshakeVersion := Decidable.not_not.mp hv
  subst hv
  cases c with
  | junk => simp [HState.decryptAndHash, hsOpen]
  | ct t =>
    cases t with
    | aead k n ad pt =>
      by_cases hc : k = s.k ∧ n = s.n ∧ ad = s.h
      · obtain ⟨rfl, rfl, rfl⟩ := hc
        cases pt with
        | pub x =>
          cases hle : s.le with
          | none => simp [HState.decryptAndHash, hsOpen, hle]
          | some e =>
            cases tag with
            | junk => simp [HState.decryptAndHash, hsOpen, hle, HState.mixKey]
            | ct t2 =>
              cases t2 with
              | aead k2 n2 ad2 pt2 =>
                by_cases hc2 : k2 = Term.kdf2 s.ck (mkDh x e) ∧ n2 = 0 ∧
                    ad2 = Term.hash s.h (Term.aead s.k s.n s.h (Term.pub x))
                · obtain ⟨rfl, rfl, rfl⟩ := hc2
                  simp [HState.decryptAndHash, hsOpen, hle, HState.mixKey]
                · simp only [HState.decryptAndHash, hsOpen, hle, HState.mixKey, and_self, if_true, hc2, if_false]
                  simp only [not_and] at hc2
                  simp
                  intro h1 h2 h3
                  exact hc2 h1 h2 h3
              | _ => simp [HState.decryptAndHash, hsOpen, hle, HState.mixKey]
        | _ => simp [HState.decryptAndHash, hsOpen]
      · simp only [HState.decryptAndHash, hsOpen, hc, if_false]
        simp only [not_and] at hc
        simp
        intro x e _ h0 h1 h2
        exact absurd h2 (hc h0 h1)
    | _ => simp [HState.decryptAndHash, hsOpen]

/-- end to end: after a completed handshake, every message list sent by either side with any
    flush pattern is delivered to the other side identical and in order, and whatever a side
    sends — at any point of its stream, under any rotated key — is rejected when reflected back
    to it at any point of its receive stream. -/
theorem end_to_end (is ie target rs re : Nat) (ik rk : CipherState × CipherState)
    (h : runHandshake is ie target rs re = some (ik, rk))
    (steps : List SendStep) (hl : ∀ st ∈ steps, st.msg.len ≤ maxPayload) :
    (∃ wire s', sendAll ⟨ik.1, [], []⟩ steps = some (wire, s') ∧
        recvAll steps.length rk.2 wire = steps.map (·.msg)) ∧
    (∃ wire s', sendAll ⟨rk.1, [], []⟩ steps = some (wire, s') ∧
        recvAll steps.length ik.2 wire = steps.map (·.msg)) ∧
    (∀ i j m w m' c' w',
        readMessage (stateAt ik.2 j) (encodeMsg (stateAt ik.1 i) m ++ w) ≠ (.ok m', c', w')) := by
  obtain ⟨h1, h2, _, h4, n1, n2, _, k1, k2⟩ := handshake_keys_mirror is ie target rs re ik rk h
  refine ⟨?_, ?_, ?_⟩
  · obtain ⟨wire, s', a, b, _⟩ := stream_in_order ⟨ik.1, [], []⟩ rfl rfl steps hl
    exact ⟨wire, s', a, by rw [← h1]; exact b⟩
  · obtain ⟨wire, s', a, b, _⟩ := stream_in_order ⟨rk.1, [], []⟩ rfl rfl steps hl
    exact ⟨wire, s', a, by rw [h2]; exact b⟩
  · intro i j m w
    apply foreign_record_rejected
    left
    have w1 : ik.1.WF := by simp [CipherState.WF, n1, keyRotationInterval]
    have w2 : ik.2.WF := by simp [CipherState.WF, n2, keyRotationInterval]
    rw [(stateAt_closed ik.1 w1 i).2.1, (stateAt_closed ik.2 w2 j).2.1, ← h4, k1, k2]
    exact ratchet_directions_distinct _ _ _ (by simp) (by simp [Term.size]) _ _

/-- (key, nonce) uniqueness including the handshake: in an honest exchange the four `Encrypt`
    calls of the three acts (initiator: act one, the two of act three; responder: act two) use
    pairwise different (key, nonce) pairs, and none of the handshake keys is ever a transport
    key of either direction, at any ratchet step. -/
theorem handshake_nonce_unique (is ie rs re : Nat) (ms ms' : List Msg) :
    ∃ ik rk iF rF, runHandshakeStates is ie rs rs re = some (ik, rk, iF, rF) ∧
      (iF.uses ++ rF.uses).Pairwise (· ≠ ·) ∧
      ∀ u ∈ iF.uses ++ rF.uses, ∀ p, (p ∈ sealLog ik.1 ms ∨ p ∈ sealLog ik.2 ms') → u.1 ≠ p.key := by
  obtain ⟨iF, rF, hr, hi, hrr⟩ := handshake_result is ie rs re
  refine ⟨_, _, iF, rF, hr, ?_, ?_⟩
  · rw [hi, hrr]
    simp [hsK1, hsK2, hsK3, hsCk1, hsCk2, Term.protoHash]
  · intro u hu p hp
    have hsz : u.1.size ≤ 7 := by
      rw [hi, hrr] at hu
      simp only [List.cons_append, List.nil_append, List.mem_cons, List.mem_nil_iff, or_false] at hu
      rcases hu with rfl | rfl | rfl | rfl <;>
        simp [hsK1, hsK2, hsK3, hsCk1, hsCk2, Term.size, mkDh, Term.protoHash]
    have hp9 : 9 ≤ p.key.size := by
      rcases hp with hp | hp
      · obtain ⟨_, ⟨k, a, _⟩, _⟩ := mem_sealLog_wf ms _ (init_wf _ _) p hp
        rw [a, (stateAt_closed _ (init_wf _ _) k).2.1]
        refine Nat.le_trans ?_ (ratchet_size_ge _ _ _)
        simp [CipherState.init, hsCk3, hsCk2, hsCk1, Term.size, mkDh, Term.protoHash, Term.empty]
      · obtain ⟨_, ⟨k, a, _⟩, _⟩ := mem_sealLog_wf ms' _ (init_wf _ _) p hp
        rw [a, (stateAt_closed _ (init_wf _ _) k).2.1]
        refine Nat.le_trans ?_ (ratchet_size_ge _ _ _)
        simp [CipherState.init, hsCk3, hsCk2, hsCk1, Term.size, mkDh, Term.protoHash, Term.empty]
    intro he
    rw [he] at hsz
    omega

/-- a 16-byte tag field can only be the sealing of the empty string -/
def TagOk (f : CtField) : Prop := ∀ k n ad pt, f = .ct (.aead k n ad pt) → pt = Term.empty

/-- `initiator_auth`: if the initiator (any static/ephemeral key, dialling `target`) accepts ANY act
    two — whatever was done to the bytes in flight — then that act two is exactly the one the
    responder holding the static key `target` generates, with some ephemeral key `z`, after
    having accepted this initiator's act one. -/
theorem initiator_auth (is ie target : Nat) (a1 a2 : Act12) (i1 i2 : HState)
    (h1 : genActOne (HState.new true is (some target)) ie = (.ok a1, i1))
    (h2 : recvActTwo i1 a2 = (.ok (), i2)) (t2 : TagOk a2.tag) :
    ∃ z, (recvActOne (HState.new false target none) a1).1 = .ok () ∧
      (genActTwo (recvActOne (HState.new false target none) a1).2 z).1 = .ok a2 := by
  have hok : (recvActTwo i1 a2).1 = .ok () := by rw [h2]
  obtain ⟨hv, x, e, pt, he, hle, ht⟩ := (recvActTwo_ok_iff i1 a2).mp hok
  have hpt := t2 _ _ _ _ ht
  subst hpt
  obtain ⟨ver, e2, tag⟩ := a2
  simp only at hv he ht
  subst hv he ht
  simp [genActOne, HState.new, HState.mixHash, HState.mixKey, HState.encryptAndHash] at h1
  obtain ⟨rfl, rfl⟩ := h1
  simp only [Option.some.injEq] at hle
  subst hle
  refine ⟨x, ?_, ?_⟩
  · simp [recvActOne, recvAct12, HState.new, HState.mixHash, HState.mixKey, HState.decryptAndHash, hsOpen,
      handshakeVersion]
  · simp [recvActOne, recvAct12, HState.new, genActTwo, HState.mixHash, HState.mixKey, HState.encryptAndHash,
      HState.decryptAndHash, hsOpen, handshakeVersion, mkDh_comm]

/-- `responder_auth` (handshake authentication, the monitor's `handshake-auth` clause as a
    theorem): if a responder with static key `rs` accepts ANY act one, answers with act two, and
    then accepts ANY act three, then there are an ephemeral key `x` and a static key `y` such that
    an initiator with these keys that DIALLED `rs` generates exactly this act one, accepts exactly
    this act two and generates exactly this act three; `y` is the remote static key the
    responder reports, and the session keys mirror. (Symbolic: the accepted fields are uniquely
    determined terms; that only the holder of the private keys can build them is the ideal-crypto
    assumption.) -/
theorem responder_auth (rs re : Nat) (a1 a2 : Act12) (a3 : Act3) (r1 r2 r3 : HState)
    (keys : CipherState × CipherState)
    (h1 : recvActOne (HState.new false rs none) a1 = (.ok (), r1))
    (h2 : genActTwo r1 re = (.ok a2, r2))
    (h3 : recvActThree r2 a3 = (.ok keys, r3))
    (t1 : TagOk a1.tag) (t3 : TagOk a3.tag) :
    ∃ x y,
      (genActOne (HState.new true y (some rs)) x).1 = .ok a1 ∧
      (recvActTwo (genActOne (HState.new true y (some rs)) x).2 a2).1 = .ok () ∧
      (genActThree (recvActTwo (genActOne (HState.new true y (some rs)) x).2 a2).2).1 =
        .ok (a3, keys.2, keys.1) ∧
      r3.rs = some y := by
  have hok1 : (recvActOne (HState.new false rs none) a1).1 = .ok () := by rw [h1]
  obtain ⟨hv, x, pt, he, ht⟩ := (recvActOne_ok_iff _ a1).mp hok1
  have hpt := t1 _ _ _ _ ht
  subst hpt
  obtain ⟨ver, e1, tag⟩ := a1
  simp only at hv he ht
  subst hv he ht
  simp [recvActOne, recvAct12, HState.new, HState.mixHash, HState.mixKey, HState.decryptAndHash, hsOpen,
    handshakeVersion] at h1
  subst h1
  simp [genActTwo, HState.mixHash, HState.mixKey, HState.encryptAndHash] at h2
  obtain ⟨rfl, rfl⟩ := h2
  have hok3 : ∃ k, (recvActThree _ a3).1 = .ok k := ⟨keys, by rw [h3]⟩
  obtain ⟨hv3, y, e, pt3, hle, hc, htag⟩ := (recvActThree_ok_iff _ a3).mp hok3
  have hpt3 := t3 _ _ _ _ htag
  subst hpt3
  obtain ⟨ver3, c3, tag3⟩ := a3
  simp only at hv3 hc htag
  subst hv3 hc htag
  simp only [Option.some.injEq] at hle
  subst hle
  simp [recvActThree, HState.mixKey, HState.decryptAndHash, hsOpen, handshakeVersion, HState.split,
    CipherState.init] at h3
  obtain ⟨rfl, rfl⟩ := h3
  refine ⟨x, y, ?_, ?_, ?_, ?_⟩
  · simp [genActOne, HState.new, HState.mixHash, HState.mixKey, HState.encryptAndHash, handshakeVersion]
  · simp [genActOne, recvActTwo, recvAct12, HState.new, HState.mixHash, HState.mixKey, HState.encryptAndHash,
      HState.decryptAndHash, hsOpen, handshakeVersion, mkDh_comm]
  · simp [genActOne, recvActTwo, recvAct12, genActThree, HState.new, HState.mixHash, HState.mixKey,
      HState.encryptAndHash, HState.decryptAndHash, hsOpen, handshakeVersion, mkDh_comm, HState.split,
      CipherState.init]
  · simp
/-! ## 5b. fragmentation -/

/-- `io.ReadFull` semantics: what is assembled depends only on the byte stream, not on how it
    is cut into fragments — the first `n` bytes of the concatenation, leaving exactly the rest;
    it fails iff the stream is shorter than `n`. -/
theorem readFullF_flatten {α : Type} (fs : List (List α)) : ∀ (n : Nat),
    (n ≤ fs.flatten.length → ∃ r, readFullF n fs = some (fs.flatten.take n, r) ∧
        r.flatten = fs.flatten.drop n) ∧
    (fs.flatten.length < n → readFullF n fs = none) := by
  induction fs with
  | nil =>
    intro n
    refine ⟨fun h => ?_, fun h => ?_⟩
    · have : n = 0 := by simpa using h
      subst this; exact ⟨[], by simp [readFullF]⟩
    · have : n ≠ 0 := by simp at h; omega
      simp [readFullF, this]
  | cons f fs ih =>
    intro n
    simp only [List.flatten_cons, List.length_append, readFullF]
    by_cases hn : n ≤ f.length
    · refine ⟨fun _ => ⟨f.drop n :: fs, ?_, ?_⟩, fun h => by omega⟩
      · simp [hn, List.take_append_of_le_length hn]
      · simp [List.drop_append_of_le_length hn]
    · obtain ⟨a, b⟩ := ih (n - f.length)
      have hlt : f.length < n := by omega
      refine ⟨fun h => ?_, fun h => ?_⟩
      · obtain ⟨r, h1, h2⟩ := a (by omega)
        refine ⟨r, ?_, ?_⟩
        · simp only [hn, if_false, h1, Option.map_some]
          rw [List.take_append, List.take_of_length_le (Nat.le_of_lt hlt)]
        · rw [h2, List.drop_append, List.drop_of_length_le (Nat.le_of_lt hlt)]
          simp
      · simp [hn, b (by omega)]

/-- the model's atomic `readFull` is `io.ReadFull` over ANY fragmentation of the same stream:
    same bytes delivered, same bytes left, same success/failure (reader-side fragmentation is
    invisible to `ReadHeader` / `ReadBody` / `ReadMessage`). -/
theorem readFull_fragmentation_independent (n : Nat) (fs : List (List WByte)) :
    (∀ bs rest, readFull n fs.flatten = (.ok bs, rest) →
      ∃ r, readFullF n fs = some (bs, r) ∧ r.flatten = rest) ∧
    (∀ e rest, readFull n fs.flatten = (.error e, rest) → readFullF n fs = none) := by
  obtain ⟨a, b⟩ := readFullF_flatten fs n
  refine ⟨?_, ?_⟩
  · intro bs rest h
    obtain ⟨hw, hl⟩ := readFull_ok _ _ _ _ h
    have hle : n ≤ fs.flatten.length := by rw [hw, List.length_append]; omega
    obtain ⟨r, h1, h2⟩ := a hle
    simp only [readFull, hle, if_true, Prod.mk.injEq, Except.ok.injEq] at h
    exact ⟨r, by rw [h1, h.1], by rw [h2, h.2]⟩
  · intro e rest h
    by_cases hle : n ≤ fs.flatten.length
    · simp only [readFull, hle, if_true, Prod.mk.injEq] at h
      exact absurd h.1 (by simp)
    · exact b (by omega)

/-- handshake outcome is independent of fragmentation: `Dial` and `doHandshake` read each act
    with `io.ReadFull`, so for every serialisation `enc` of an act into `size` bytes and every
    way the stream `enc a ++ later` is cut into fragments (first fragment of one byte, the rest
    arriving later, …) the receiver gets exactly `enc a` and is left with exactly `later`; hence
    the act handed to `RecvAct*` is the act sent and `connHandshake … .none` is the outcome for
    every fragmentation. -/
theorem act_delivery_fragmentation_independent {α β : Type} (enc : α → List β) (size : Nat)
    (a : α) (ha : (enc a).length = size) (later : List β) (fs : List (List β))
    (hfs : fs.flatten = enc a ++ later) :
    ∃ r, readFullF size fs = some (enc a, r) ∧ r.flatten = later := by
  obtain ⟨h, _⟩ := readFullF_flatten fs size
  obtain ⟨r, h1, h2⟩ := h (by rw [hfs, List.length_append]; omega)
  refine ⟨r, ?_, ?_⟩
  · rw [h1, hfs, ← ha]; simp
  · rw [h2, hfs, ← ha]; simp

/-! ## 6. conn.go / listener.go -/

/-- `Dial` against `Listener.doHandshake` with nothing altered in flight: both succeed iff the
    dialled key is the listener's; then the listener reports the dialler's static key and the
    session keys are those of `runHandshake`. -/
theorem connHandshake_honest_iff (is ie target rs re : Nat) :
    ((connHandshake is ie target rs re .none).dial = .ok ∧
     (connHandshake is ie target rs re .none).accept = .ok) ↔ target = rs := by
  by_cases h : target = rs
  · subst h
    simp [connHandshake, genActOne, recvActOne, recvAct12, genActTwo, recvActTwo, genActThree, recvActThree,
      HState.new, HState.mixHash, HState.mixKey, HState.encryptAndHash, HState.decryptAndHash, hsOpen,
      handshakeVersion, mkDh_comm is re]
  · simp [connHandshake, genActOne, recvActOne, recvAct12, HState.new, HState.mixHash, HState.mixKey,
      HState.encryptAndHash, HState.decryptAndHash, hsOpen, handshakeVersion, h]

theorem connHandshake_honest_result (is ie rs re : Nat) :
    (connHandshake is ie rs rs re .none).rpub = some is ∧
    (connHandshake is ie rs rs re .none).keys = runHandshake is ie rs rs re := by
  obtain ⟨iF, rF, hr, _⟩ := handshake_result is ie rs re
  simp only [runHandshake, hr]
  simp [connHandshake, genActOne, recvActOne, recvAct12, genActTwo, recvActTwo, genActThree, recvActThree,
    HState.new, HState.mixHash, HState.mixKey, HState.encryptAndHash, HState.decryptAndHash, hsOpen,
    handshakeVersion, mkDh_comm is re, HState.split, hsCk1, hsCk2, hsCk3]

/-- record lengths of `Conn.Write`: they add up to the input length, none exceeds 65535, and
    there is always at least one record (an empty write sends an empty record). -/
theorem chunkLens_spec (n : Nat) :
    (chunkLens n).sum = n ∧ (∀ l ∈ chunkLens n, l ≤ maxPayload) ∧ chunkLens n ≠ [] := by
  have gen : ∀ (f n : Nat), n ≤ f * maxPayload + maxPayload →
      (chunkLensF f n).sum = n ∧ (∀ l ∈ chunkLensF f n, l ≤ maxPayload) ∧ chunkLensF f n ≠ [] := by
    intro f
    induction f with
    | zero => intro n h; simp only [Nat.zero_mul, Nat.zero_add] at h; simp [chunkLensF, h]
    | succ f ih =>
      intro n h
      simp only [chunkLensF]
      split
      · rename_i h1; simp [h1]
      · rename_i h1
        have h2 : n - maxPayload ≤ f * maxPayload + maxPayload := by
          rw [Nat.succ_mul] at h; omega
        obtain ⟨a, b, _⟩ := ih _ h2
        refine ⟨?_, ?_, by simp⟩
        · simp only [List.sum_cons, a]; omega
        · intro l hl
          simp only [List.mem_cons] at hl
          rcases hl with rfl | hl
          · exact Nat.le_refl _
          · exact b l hl
  exact gen n n (by
    have : n ≤ n * maxPayload := Nat.le_mul_of_pos_right n (by simp [maxPayload])
    omega)

/-- `Conn.Write` accounting, for any chunk list and any writer budget: the returned
    `bytesWritten` plus the payload bytes still buffered equals the total length of the records
    handed to `WriteMessage`, and the bytes that reached the wire followed by the buffered bytes
    are exactly the encoding of those records — i.e. `bytesWritten` is the number of plaintext
    bytes on the wire. -/
theorem connWrite_accounting (chunks : List Msg) : ∀ (s : Sender) (budget : Option Nat),
    s.hdr = [] → s.body = [] →
    (connWrite s budget chunks).n + ((connWrite s budget chunks).st.body.length - macSize) =
      ((connWrite s budget chunks).written.map (·.len)).sum ∧
    (connWrite s budget chunks).out ++
        ((connWrite s budget chunks).st.hdr ++ (connWrite s budget chunks).st.body) =
      encodeAll s.cs (connWrite s budget chunks).written ∧
    ((connWrite s budget chunks).err = .none →
      (connWrite s budget chunks).written = chunks ∧ (connWrite s budget chunks).st.hdr = [] ∧
      (connWrite s budget chunks).st.body = []) := by
  induction chunks with
  | nil => intro s b hh hb; simp [connWrite, encodeAll, hh, hb]
  | cons c cs ih =>
    intro s b hh hb
    simp only [connWrite]
    cases hw : writeMessage s c with
    | error e => simp [encodeAll, hh, hb]
    | ok s1 =>
      obtain ⟨_, _, _, hs1⟩ := writeMessage_inv s s1 c hw
      have hbody : s1.body.length - macSize = c.len := by rw [hs1]; simp [render_length, seal_pt]
      have henc : s1.hdr ++ s1.body = encodeMsg s.cs c := by rw [hs1]; rfl
      have hcs : s1.cs = s.cs.advance.advance := by rw [hs1]
      obtain ⟨g1, g2⟩ := flush_conserve s1 b false
      have g3 := flush_count s1 b false
      simp only
      by_cases he : (flush s1 b false).err = true
      · simp only [he, if_true]
        refine ⟨?_, ?_, ?_⟩
        · simp only [List.map_cons, List.map_nil, List.sum_cons, List.sum_nil]; omega
        · simp only [encodeAll, List.append_nil]; rw [g1, henc]
        · intro h; cases h
      · have he' : (flush s1 b false).err = false := by simpa using he
        obtain ⟨c1, c2⟩ := flush_noerr_clean s1 b false he'
        obtain ⟨i1, i2, i3⟩ := ih (flush s1 b false).st (flush s1 b false).budget c1 c2
        simp only [he', Bool.false_eq_true, if_false]
        rw [c1, c2] at g1
        rw [c2] at g3
        refine ⟨?_, ?_, ?_⟩
        · simp only [List.map_cons, List.sum_cons]
          simp only [List.length_nil] at g3
          omega
        · simp only [encodeAll, List.append_assoc]
          rw [i2, g2, hcs]
          simp only [List.append_nil] at g1
          rw [g1, henc]
        · intro h
          obtain ⟨j1, j2, j3⟩ := i3 h
          exact ⟨by rw [j1], j2, j3⟩

/-- with an unlimited writer and admissible record sizes `Conn.Write` never fails: it returns the
    total length and puts the encoding of all records on the wire. -/
theorem connWrite_unlimited (chunks : List Msg) : ∀ (s : Sender), s.hdr = [] → s.body = [] →
    (∀ c ∈ chunks, c.len ≤ maxPayload) →
    (connWrite s none chunks).err = .none ∧ (connWrite s none chunks).budget = none := by
  induction chunks with
  | nil => intro s _ _ _; simp [connWrite]
  | cons c cs ih =>
    intro s hh hb hl
    have hw := writeMessage_ok s c (hl c (by simp)) hh hb
    simp only [connWrite, hw]
    obtain ⟨f1, f2, f3⟩ := flush_none
      { cs := s.cs.advance.advance, hdr := render (s.cs.seal Term.empty (lenMsg c.len)),
        body := render (s.cs.advance.seal Term.empty c) } false
    have fb := flush_none_budget
      { cs := s.cs.advance.advance, hdr := render (s.cs.seal Term.empty (lenMsg c.len)),
        body := render (s.cs.advance.seal Term.empty c) } false
    simp only [f3, Bool.false_eq_true, if_false, fb]
    exact ih _ f1 f2 (fun x hx => hl x (by simp [hx]))

example : (runHandshake 1 2 3 3 4).isSome := (handshake_iff_right_key 1 2 3 3 4).mpr rfl
example : ¬ (runHandshake 1 2 5 3 4).isSome := fun h => by
  have := (handshake_iff_right_key 1 2 5 3 4).mp h
  omega

end LndModel.C11
