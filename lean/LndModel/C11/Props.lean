/-
C11 — property theorems (DESIGN.md §2 C11).  Helper lemmas live in Lemmas.lean.

Cryptography is ideal/symbolic (see Model.lean): ECDH commutes, HKDF / SHA-256
/ public-key derivation are free constructors, the AEAD opens exactly the byte
string it produced for (key, nonce, associated data).  `Authentic` below is the
corresponding unforgeability assumption about the wire.
-/
import LndModel.C11.Lemmas

namespace LndModel.C11

/-! ## 1. nonce_unique -/

/-- The `i`-th AEAD use after `InitializeKeyWithSalt` (counting from 0, encryptions on the sending
    side, decryptions on the receiving side) runs under key epoch `i / 1000` with nonce
    `i % 1000`: the key is rotated exactly every `keyRotationInterval` uses, the nonce restarts
    at 0 and never reaches the interval. -/
theorem rotation_schedule (salt key : Term) (i : Nat) :
    (stateAt (CipherState.init salt key) i).epoch = i / keyRotationInterval ∧
    (stateAt (CipherState.init salt key) i).nonce = i % keyRotationInterval ∧
    (stateAt (CipherState.init salt key) i).salt0 = salt ∧
    (stateAt (CipherState.init salt key) i).key0 = key := by
  have h := stateAt_epoch_nonce (CipherState.init salt key) (init_wf salt key) i
  simp only [CipherState.init, Nat.zero_add] at h
  exact ⟨h.1, h.2, stateAt_salt0 _ i, stateAt_key0 _ i⟩

/-- message number `j` (from 0) of a connection is sealed with uses `2j` (length prefix) and
    `2j+1` (payload): the key changes every 500 messages. -/
theorem message_schedule (c : CipherState) (ms : List Msg) (j : Nat) (m : Msg) (h : ms[j]? = some m) :
    (stateAt c (2 * j)).seal Term.empty (lenMsg m.len) ∈ sealLog c ms ∧
    (stateAt c (2 * j + 1)).seal Term.empty m ∈ sealLog c ms :=
  sealLog_mem ms c j m h

/-- `nonce_unique`: the `(epoch, nonce)` pairs used for encryption while sending any message list
    are strictly increasing in lexicographic order (in particular no pair repeats), every nonce
    is below `keyRotationInterval`, and every packet is sealed under the connection's base key. -/
theorem nonce_unique (c : CipherState) (hc : c.WF) (ms : List Msg) :
    (sealLog c ms).Pairwise
      (fun p q => p.epoch < q.epoch ∨ (p.epoch = q.epoch ∧ p.nonce < q.nonce)) ∧
    ∀ p ∈ sealLog c ms, p.nonce < keyRotationInterval ∧ p.salt0 = c.salt0 ∧ p.key0 = c.key0 := by
  have hw := fun p hp => mem_sealLog_wf ms c hc p hp
  refine ⟨?_, fun p hp => ⟨(hw p hp).1, (hw p hp).2.1, (hw p hp).2.2.1⟩⟩
  have hp := (sealLog_pairwise ms c hc).1
  have hp2 : (sealLog c ms).Pairwise (fun p q => p ∈ sealLog c ms ∧ q ∈ sealLog c ms ∧ p.pos < q.pos) := by
    have := List.Pairwise.and_mem.mp hp
    exact this.imp (fun ⟨a, b, c⟩ => ⟨a, b, c⟩)
  refine hp2.imp ?_
  intro p q ⟨h1, h2, h3⟩
  have n1 := (hw p h1).1
  have n2 := (hw q h2).1
  simp only [Packet.pos, keyRotationInterval] at *
  omega

/-- the AEAD key a packet was sealed with, as a term -/
def Packet.keyT (p : Packet) : Term := (ratchet p.salt0 p.key0 p.epoch).2

/-- no `(key, nonce)` pair is used twice in one direction: two different positions of the log
    never carry the same key term and nonce. -/
theorem no_key_nonce_reuse (c : CipherState) (hc : c.WF) (ms : List Msg) :
    (sealLog c ms).Pairwise (fun p q => ¬ (p.keyT = q.keyT ∧ p.nonce = q.nonce)) := by
  obtain ⟨h1, h2⟩ := nonce_unique c hc ms
  have h1' := List.Pairwise.and_mem.mp h1
  refine h1'.imp ?_
  intro p q ⟨hp, hq, hlt⟩ ⟨hk, hn⟩
  have ep : p.epoch = q.epoch := by
    have a := (h2 p hp).2
    have b := (h2 q hq).2
    simp only [Packet.keyT, a.1, a.2, b.1, b.2] at hk
    exact ratchet_key_inj _ _ _ _ hk
  omega

/-- the two directions of a connection (`split`: same salt `ck`, keys `kdf1 ck ∅` / `kdf2 ck ∅`)
    never use the same key, at any pair of epochs. -/
theorem directions_use_distinct_keys (ck : Term) (ms ms' : List Msg) (p q : Packet)
    (hp : p ∈ sealLog (CipherState.init ck (.kdf1 ck Term.empty)) ms)
    (hq : q ∈ sealLog (CipherState.init ck (.kdf2 ck Term.empty)) ms') :
    p.keyT ≠ q.keyT := by
  have a := mem_sealLog_wf ms _ (init_wf _ _) p hp
  have b := mem_sealLog_wf ms' _ (init_wf _ _) q hq
  simp only [Packet.keyT, a.2.1, a.2.2.1, b.2.1, b.2.2.1, CipherState.init]
  exact ratchet_directions_distinct ck _ _ (by simp) (by simp [Term.size]) _ _

example : (sealLog (CipherState.init (.atom 7) (.atom 8)) [⟨3, 5⟩, ⟨0, 0⟩]).length = 4 := rfl

/-! ## 2. flush_accounting -/

/-- One `Flush` call, whatever the writer accepts: the bytes handed to the writer followed by what
    stays buffered is what was buffered before (so the wire always carries a prefix of
    `header ‖ body`), the cipher state is untouched, and the returned count is exactly the number
    of payload bytes (body bytes before the 16-byte MAC) that left the buffer in this call. -/
theorem flush_step (s : Sender) (budget : Option Nat) (eager : Bool) :
    (flush s budget eager).out ++ ((flush s budget eager).st.hdr ++ (flush s budget eager).st.body)
      = s.hdr ++ s.body ∧
    (flush s budget eager).st.cs = s.cs ∧
    (flush s budget eager).nn + ((flush s budget eager).st.body.length - macSize)
      = s.body.length - macSize :=
  ⟨(flush_conserve s budget eager).1, (flush_conserve s budget eager).2, flush_count s budget eager⟩

/-- `flush_accounting`: after `WriteMessage m`, for ANY sequence of `Flush` calls (each against a
    writer accepting any number of bytes, timing out or not): the concatenated output is a prefix
    of the record, the returned counts add up to the number of payload bytes on the wire
    (`m.len` minus the payload bytes still buffered), and once nothing is buffered the counts add
    up to `m.len` and the wire carries exactly the record. -/
theorem flush_accounting (s s1 : Sender) (m : Msg) (hw : writeMessage s m = .ok s1)
    (fs : List (Option Nat × Bool)) :
    (runFlushes s1 fs).1 ++ ((runFlushes s1 fs).2.2.hdr ++ (runFlushes s1 fs).2.2.body)
      = encodeMsg s.cs m ∧
    (runFlushes s1 fs).2.1.sum + ((runFlushes s1 fs).2.2.body.length - macSize) = m.len ∧
    ((runFlushes s1 fs).2.2.hdr = [] → (runFlushes s1 fs).2.2.body = [] →
      (runFlushes s1 fs).2.1.sum = m.len ∧ (runFlushes s1 fs).1 = encodeMsg s.cs m) := by
  obtain ⟨_, _, _, hs1⟩ := writeMessage_inv s s1 m hw
  obtain ⟨h1, _, h3⟩ := runFlushes_conserve fs s1
  have hb : s1.body.length - macSize = m.len := by
    rw [hs1]; simp [render_length, seal_pt]
  have he : s1.hdr ++ s1.body = encodeMsg s.cs m := by rw [hs1]; rfl
  rw [he] at h1
  rw [hb] at h3
  refine ⟨h1, h3, ?_⟩
  intro hh hbd
  rw [hh, hbd] at h1
  rw [hbd] at h3
  exact ⟨by simpa using h3, by simpa using h1⟩

/-- a second `WriteMessage` is refused while anything is buffered; the cipher state (nonce) does
    not move on a refusal. -/
theorem write_refused_while_pending (s : Sender) (m : Msg) (h : s.hdr ≠ [] ∨ s.body ≠ []) :
    writeMessage s m = .error .notFlushed ∨ writeMessage s m = .error .tooLong := by
  unfold writeMessage
  by_cases hl : m.len > maxPayload
  · right; simp [hl]
  · left; simp [hl, h]

example : ∃ s1, writeMessage ⟨CipherState.init (.atom 1) (.atom 2), [], []⟩ ⟨3, 9⟩ = .ok s1 :=
  ⟨_, writeMessage_ok _ _ (by simp [maxPayload]) rfl rfl⟩

/-! ## 3. stream_in_order -/

/-- `stream_in_order`: any list of messages of admissible size, each written with `WriteMessage`
    and pushed out by ANY pattern of partial flushes (any budgets, eager or not, ending with a
    complete flush), read from the resulting byte stream by a receiver whose receive state equals
    the sender's send state, comes out identical and in order, with nothing left over. Holds for
    every list length, hence across any number of key rotations. -/
theorem stream_in_order (s : Sender) (hh : s.hdr = []) (hb : s.body = []) (steps : List SendStep)
    (hl : ∀ st ∈ steps, st.msg.len ≤ maxPayload) :
    ∃ wire s', sendAll s steps = some (wire, s') ∧
      recvAll steps.length s.cs wire = steps.map (·.msg) ∧
      ∀ fuel, steps.length ≤ fuel → recvAll fuel s.cs wire = steps.map (·.msg) := by
  obtain ⟨s', h1, _, _, _⟩ := sendAll_encodeAll steps s hh hb hl
  refine ⟨_, s', h1, ?_, ?_⟩
  · exact recvAll_encodeAll _ _ _ (by simp)
  · intro fuel hf; exact recvAll_encodeAll _ _ _ (by simpa using hf)

/-- the send state after the stream equals the receive state after reading it: the two sides
    stay in step (same epoch, same nonce), ready for the next message. -/
theorem stream_states_in_step (s : Sender) (hh : s.hdr = []) (hb : s.body = []) (steps : List SendStep)
    (hl : ∀ st ∈ steps, st.msg.len ≤ maxPayload) :
    ∃ wire s', sendAll s steps = some (wire, s') ∧ s'.cs = stateAt s.cs (2 * steps.length) := by
  obtain ⟨s', h1, _, _, h4⟩ := sendAll_encodeAll steps s hh hb hl
  exact ⟨_, s', h1, h4⟩

example : (∀ st ∈ [(⟨⟨5, 1⟩, [(some 3, true), (some 0, false)]⟩ : SendStep)], st.msg.len ≤ maxPayload) := by
  simp [maxPayload]

/-! ## 4. tamper_fails -/

/-- `tamper_fails` (one read): `ReadMessage` returns data only if the bytes in front of it are
    EXACTLY the two records the sender produces for that message from the same cipher state
    (same key epoch, same nonce).  Any modification, truncation, insertion, reordering, replay
    of an earlier record, or reflection of the reader's own ciphertext changes those bytes and
    therefore yields an error. -/
theorem read_ok_iff (c c' : CipherState) (w w' : List WByte) (m : Msg) :
    readMessage c w = (.ok m, c', w') ↔ (w = encodeMsg c m ++ w' ∧ c' = c.advance.advance) := by
  constructor
  · exact readMessage_ok c c' w w' m
  · rintro ⟨rfl, rfl⟩; exact readMessage_encode c m w'

/-- a record sealed at another position (earlier message: replay; later message: reordering) or
    under another base key (the other direction: reflection; another session) is rejected. -/
theorem foreign_record_rejected (c d : CipherState) (m : Msg) (w : List WByte)
    (hne : d.salt0 ≠ c.salt0 ∨ d.key0 ≠ c.key0 ∨ d.epoch ≠ c.epoch ∨ d.nonce ≠ c.nonce) :
    ∀ m' c' w', readMessage c (encodeMsg d m ++ w) ≠ (.ok m', c', w') := by
  intro m' c' w' h
  obtain ⟨hw, _⟩ := readMessage_ok _ _ _ _ _ h
  obtain ⟨t1, h1⟩ := render_head (d.seal Term.empty (lenMsg m.len))
  obtain ⟨t2, h2⟩ := render_head (c.seal Term.empty (lenMsg m'.len))
  simp only [encodeMsg, List.append_assoc] at hw
  rw [h1, h2] at hw
  injection hw with hw _
  injection hw with hw _
  simp only [CipherState.seal, Packet.mk.injEq] at hw
  obtain ⟨e1, e2, _, _, e5, e6⟩ := hw
  rcases hne with h | h | h | h
  · exact h e6
  · exact h e5
  · exact h e1
  · exact h e2

/-- a stream cut anywhere inside a record gives an I/O error, never data. -/
theorem truncated_rejected (c : CipherState) (m : Msg) (k : Nat) (hk : k < (encodeMsg c m).length) :
    ∀ m' c' w', readMessage c ((encodeMsg c m).take k) ≠ (.ok m', c', w') := by
  intro m' c' w' h
  obtain ⟨hw, _⟩ := readMessage_ok _ _ _ _ _ h
  -- the first record fixes the length prefix, hence m'.len = m.len, hence the lengths clash
  have hlen : ((encodeMsg c m).take k).length = k := by simp [List.length_take]; omega
  have hl2 : (encodeMsg c m' ++ w').length = k := by rw [← hw]; exact hlen
  have em := encodeMsg_length c
  by_cases hk18 : k < encHeaderSize
  · rw [List.length_append, em] at hl2; omega
  · -- the header record survives intact, so the length prefixes agree
    have hpre : ((encodeMsg c m).take k).take encHeaderSize = (encodeMsg c m' ++ w').take encHeaderSize := by
      rw [hw]
    have hA : (encodeMsg c m).take encHeaderSize = render (c.seal Term.empty (lenMsg m.len)) := by
      have := take_hdr c m []
      simpa using this
    have hB := take_hdr c m' w'
    rw [List.take_take, Nat.min_eq_left (by omega), hA, hB] at hpre
    have := render_inj _ _ hpre
    simp only [CipherState.seal, lenMsg, Packet.mk.injEq, Msg.mk.injEq] at this
    have hmm : m.len = m'.len := this.2.2.1.2
    rw [List.length_append, em] at hl2
    rw [em] at hk
    omega

/-- a damaged byte anywhere inside the record gives an error, never data. -/
theorem corrupted_rejected (c : CipherState) (m : Msg) (w : List WByte) (i x : Nat)
    (hi : i < (encodeMsg c m).length) :
    ∀ m' c' w', readMessage c (((encodeMsg c m) ++ w).set i (.raw x)) ≠ (.ok m', c', w') := by
  intro m' c' w' h
  obtain ⟨hw, _⟩ := readMessage_ok _ _ _ _ _ h
  -- position i of the left side is a raw byte; of the right side either a packet byte …
  have hlen : i < ((encodeMsg c m) ++ w).length := by rw [List.length_append]; omega
  have hlen' : i < (encodeMsg c m).length + w.length := by omega
  have hget : (((encodeMsg c m) ++ w).set i (.raw x))[i]? = some (.raw x) := by
    simp [List.getElem?_set, hlen']
  rw [hw] at hget
  have em := encodeMsg_length c
  -- … unless i lies beyond the record read, which needs m'.len < m.len; but the header is
  -- either damaged (i < 18) or intact (then the lengths agree)
  by_cases hin : i < (encodeMsg c m').length
  · rw [List.getElem?_append_left hin] at hget
    have hmem := List.mem_of_getElem? hget
    simp only [encodeMsg, List.mem_append] at hmem
    rcases hmem with hmem | hmem
    · obtain ⟨o, ho⟩ := mem_render _ _ hmem; cases ho
    · obtain ⟨o, ho⟩ := mem_render _ _ hmem; cases ho
  · have hi18 : encHeaderSize ≤ i := by rw [em] at hin; omega
    have hpre : ((((encodeMsg c m) ++ w).set i (.raw x))).take encHeaderSize =
        (encodeMsg c m' ++ w').take encHeaderSize := by rw [hw]
    rw [List.take_set_of_le hi18] at hpre
    have hA := take_hdr c m w
    have hB := take_hdr c m' w'
    rw [hA, hB] at hpre
    have := render_inj _ _ hpre
    simp only [CipherState.seal, lenMsg, Packet.mk.injEq, Msg.mk.injEq] at this
    have hmm : m.len = m'.len := this.2.2.1.2
    rw [em] at hin hi
    omega

/-- Unforgeability of the ideal AEAD, as a property of a byte stream `w`: every packet byte on
    the wire that is sealed under the sending side's base key stems from a packet the sender
    really sealed while sending `ms` (the adversary may cut, splice, repeat, reorder and mix in
    arbitrary foreign bytes, but cannot seal under the session key). -/
def Authentic (c : CipherState) (ms : List Msg) (w : List WByte) : Prop :=
  ∀ p off, WByte.pkt p off ∈ w → p.salt0 = c.salt0 → p.key0 = c.key0 → p ∈ sealLog c ms

theorem delivered_prefix_aux (c0 : CipherState) (hc : c0.WF) (ms0 : List Msg) :
    ∀ (fuel j : Nat) (w : List WByte), Authentic c0 ms0 w →
      recvAll fuel (stateAt c0 (2 * j)) w <+: ms0.drop j := by
  intro fuel
  induction fuel with
  | zero => intro j w _; exact List.nil_prefix
  | succ n ih =>
    intro j w ha
    simp only [recvAll]
    split
    · rename_i m c' w' hr
      obtain ⟨hw, hc'⟩ := readMessage_ok _ _ _ _ _ hr
      -- the payload record is on the wire, sealed under the session key at position 2j+1
      have hmem : WByte.pkt ((stateAt c0 (2 * j)).advance.seal Term.empty m) 0 ∈ w := by
        rw [hw]; simp only [encodeMsg, List.mem_append]
        exact Or.inl (Or.inr (head_mem_render _))
      have hin := ha _ _ hmem
        (by show ((stateAt c0 (2 * j + 1)).seal Term.empty m).salt0 = _; exact stateAt_salt0 c0 _)
        (by show ((stateAt c0 (2 * j + 1)).seal Term.empty m).key0 = _; exact stateAt_key0 c0 _)
      obtain ⟨i, mi, hi, hp⟩ := mem_sealLog ms0 c0 _ hin
      have wfj := stateAt_wf c0 hc (2 * j + 1)
      have pj := stateAt_pos c0 hc (2 * j + 1)
      have hij : i = j ∧ mi = m := by
        rcases hp with hp | hp
        · have wfi := stateAt_wf c0 hc (2 * i)
          have pi := stateAt_pos c0 hc (2 * i)
          have := congrArg Packet.pos hp
          change (stateAt c0 (2 * j + 1)).pos = (stateAt c0 (2 * i)).pos at this
          omega
        · have pi := stateAt_pos c0 hc (2 * i + 1)
          have h1 := congrArg Packet.pos hp
          change (stateAt c0 (2 * j + 1)).pos = (stateAt c0 (2 * i + 1)).pos at h1
          have h2 := congrArg Packet.pt hp
          simp only [seal_pt] at h2
          exact ⟨by omega, h2.symm⟩
      obtain ⟨rfl, rfl⟩ := hij
      obtain ⟨hlt, hget⟩ := List.getElem?_eq_some_iff.mp hi
      rw [List.drop_eq_getElem_cons hlt, hget]
      refine List.cons_prefix_cons.mpr ⟨rfl, ?_⟩
      have hc2 : c' = stateAt c0 (2 * (i + 1)) := by
        rw [hc']; rfl
      rw [hc2]
      apply ih (i + 1) w'
      intro p off hp' h1 h2
      exact ha p off (by rw [hw]; exact List.mem_append_right _ hp') h1 h2
    · exact List.nil_prefix

/-- `tamper_fails` (whole connection): whatever byte stream reaches the receiver — honest bytes
    cut, spliced, reordered, repeated, mixed with reflected or foreign or random bytes, as long
    as the adversary cannot itself seal under the session key (`Authentic`) — the messages
    delivered before the first failed read are a prefix of the messages sent: nothing altered,
    nothing reordered, nothing duplicated, nothing invented. -/
theorem delivered_prefix (c : CipherState) (hc : c.WF) (ms : List Msg) (w : List WByte)
    (ha : Authentic c ms w) (fuel : Nat) : recvAll fuel c w <+: ms := by
  have := delivered_prefix_aux c hc ms fuel 0 w ha
  simpa [stateAt] using this

/-- non-vacuity: the honest stream followed by a replay of itself is authentic -/
example (c : CipherState) (ms : List Msg) : Authentic c ms (encodeAll c ms ++ encodeAll c ms) := by
  intro p off hp _ _
  have key : ∀ (ms : List Msg) (c : CipherState) (p : Packet) (off : Nat),
      WByte.pkt p off ∈ encodeAll c ms → p ∈ sealLog c ms := by
    intro ms
    induction ms with
    | nil => intro c p off h; simp [encodeAll] at h
    | cons m ms ih =>
      intro c p off h
      simp only [encodeAll, encodeMsg, List.mem_append] at h
      simp only [sealLog, List.mem_cons]
      rcases h with (h | h) | h
      · obtain ⟨o, ho⟩ := mem_render _ _ h; injection ho with ho _; exact Or.inl ho
      · obtain ⟨o, ho⟩ := mem_render _ _ h; injection ho with ho _; exact Or.inr (Or.inl ho)
      · exact Or.inr (Or.inr (ih _ _ _ h))
  rcases List.mem_append.mp hp with h | h <;> exact key ms c p off h

/-- Why the stronger claim "after a failed read no later read yields data" is NOT a theorem (and
    not true of the code, see notes): the first record is the two bytes 0x0002 and its header is
    damaged; the first `ReadMessage` fails, a second one then takes the 18-byte payload record
    (nonce 1) for a header, reads "length 2", and hands out the next record's length prefix
    (here 5) as a two-byte message. The property therefore speaks about reads up to the first
    failure (`delivered_prefix`); lnd drops the connection on a failed read. -/
example :
    (readMessage (CipherState.init (.atom 1) (.atom 2))
        ((encodeAll (CipherState.init (.atom 1) (.atom 2)) [⟨2, 2⟩, ⟨5, 77⟩]).set 0 (.raw 0))).1.toOption = none ∧
    (readMessage
        (readMessage (CipherState.init (.atom 1) (.atom 2))
          ((encodeAll (CipherState.init (.atom 1) (.atom 2)) [⟨2, 2⟩, ⟨5, 77⟩]).set 0 (.raw 0))).2.1
        (readMessage (CipherState.init (.atom 1) (.atom 2))
          ((encodeAll (CipherState.init (.atom 1) (.atom 2)) [⟨2, 2⟩, ⟨5, 77⟩]).set 0 (.raw 0))).2.2).1.toOption
      = some ⟨2, 5⟩ := by
  decide

/-! ## 5. handshake -/

theorem mkDh_comm (a b : Nat) : mkDh a b = mkDh b a := by
  simp only [mkDh, Nat.min_comm, Nat.max_comm]

/-- `handshake_iff_right_key`: for all static and ephemeral keys, the three acts delivered
    unaltered complete **iff** the key the initiator dials is the responder's static key. -/
theorem handshake_iff_right_key (is ie target rs re : Nat) :
    (runHandshake is ie target rs re).isSome ↔ target = rs := by
  by_cases h : target = rs
  · subst h
    simp [runHandshake, genActOne, recvActOne, recvAct12, genActTwo, recvActTwo, genActThree, recvActThree,
      HState.new, HState.mixHash, HState.mixKey, HState.encryptAndHash, HState.decryptAndHash, hsOpen,
      handshakeVersion, mkDh_comm is re]
  · simp [runHandshake, genActOne, recvActOne, recvAct12, HState.new, HState.mixHash, HState.mixKey,
      HState.encryptAndHash, HState.decryptAndHash, hsOpen, handshakeVersion, h]

/-- after a completed handshake each side's send state is the other side's receive state
    (key, salt, epoch 0, nonce 0), and the two directions use different keys. -/
theorem handshake_keys_mirror (is ie target rs re : Nat) (ik rk : CipherState × CipherState)
    (h : runHandshake is ie target rs re = some (ik, rk)) :
    ik.1 = rk.2 ∧ ik.2 = rk.1 ∧ ik.1.key0 ≠ ik.2.key0 ∧ ik.1.salt0 = ik.2.salt0 ∧
    ik.1.nonce = 0 ∧ ik.1.epoch = 0 ∧ ik.2.nonce = 0 ∧ ik.2.epoch = 0 ∧
    ik.1.key0.size = ik.2.key0.size := by
  have ht : target = rs := (handshake_iff_right_key is ie target rs re).mp (by rw [h]; rfl)
  subst ht
  simp [runHandshake, genActOne, recvActOne, recvAct12, genActTwo, recvActTwo, genActThree, recvActThree,
    HState.new, HState.mixHash, HState.mixKey, HState.encryptAndHash, HState.decryptAndHash, hsOpen,
    handshakeVersion, mkDh_comm is re, HState.split, CipherState.init] at h
  obtain ⟨rfl, rfl⟩ := h
  simp [Term.size]

/-- `RecvActOne` accepts exactly one tag for a given ephemeral key: the one an initiator holding
    that ephemeral key computes when it dials THIS responder's static key from the same
    transcript.  Any other version byte, an unparsable key, or any other tag is refused. -/
theorem recvActOne_ok_iff (s : HState) (a : Act12) :
    (recvActOne s a).1 = .ok () ↔
      a.ver = handshakeVersion ∧ ∃ x pt, a.e = .valid x ∧
        a.tag = .ct (.aead (.kdf2 s.ck (mkDh x s.ls)) 0 (.hash s.h (.pub x)) pt) := by
  obtain ⟨ver, e, tag⟩ := a
  unfold recvActOne recvAct12
  by_cases hv : ver = handshakeVersion
  · subst hv
    cases e with
    | invalid => simp
    | valid x =>
      cases tag with
      | junk => simp [HState.mixHash, HState.mixKey, HState.decryptAndHash, hsOpen]
      | ct t =>
        cases t with
        | aead k n ad pt =>
          by_cases hc : k = Term.kdf2 s.ck (mkDh x s.ls) ∧ n = 0 ∧ ad = Term.hash s.h (Term.pub x)
          · obtain ⟨rfl, rfl, rfl⟩ := hc
            simp [HState.mixHash, HState.mixKey, HState.decryptAndHash, hsOpen]
          · simp only [HState.mixHash, HState.mixKey, HState.decryptAndHash, hsOpen, hc, if_false, ne_eq,
              not_true_eq_false]
            simp only [not_and] at hc
            simp
            intro h1 h2 h3
            exact hc h1 h2 h3
        | _ => simp [HState.mixHash, HState.mixKey, HState.decryptAndHash, hsOpen]
  · simp [hv]

/-- `RecvActTwo`: same statement for the initiator, with its own ephemeral key in the ECDH. -/
theorem recvActTwo_ok_iff (s : HState) (a : Act12) :
    (recvActTwo s a).1 = .ok () ↔
      a.ver = handshakeVersion ∧ ∃ x e pt, a.e = .valid x ∧ s.le = some e ∧
        a.tag = .ct (.aead (.kdf2 s.ck (mkDh x e)) 0 (.hash s.h (.pub x)) pt) := by
  obtain ⟨ver, e, tag⟩ := a
  unfold recvActTwo recvAct12
  by_cases hv : ver = handshakeVersion
  · subst hv
    cases e with
    | invalid => simp
    | valid x =>
      cases hle : s.le with
      | none => simp
      | some e0 =>
        cases tag with
        | junk => simp [HState.mixHash, HState.mixKey, HState.decryptAndHash, hsOpen]
        | ct t =>
          cases t with
          | aead k n ad pt =>
            by_cases hc : k = Term.kdf2 s.ck (mkDh x e0) ∧ n = 0 ∧ ad = Term.hash s.h (Term.pub x)
            · obtain ⟨rfl, rfl, rfl⟩ := hc
              simp [HState.mixHash, HState.mixKey, HState.decryptAndHash, hsOpen]
            · simp only [HState.mixHash, HState.mixKey, HState.decryptAndHash, hsOpen, hc, if_false, ne_eq,
                not_true_eq_false]
              simp only [not_and] at hc
              simp
              intro h1 h2 h3
              exact hc h1 h2 h3
          | _ => simp [HState.mixHash, HState.mixKey, HState.decryptAndHash, hsOpen]
  · simp [hv]

/-- `RecvActThree` completes exactly on the act three whose first part is the sender's static key
    sealed under the current handshake key/nonce/digest and whose tag is the one determined by
    that key, the responder's ephemeral key and the transcript. -/
theorem recvActThree_ok_iff (s : HState) (a : Act3) :
    (∃ keys, (recvActThree s a).1 = .ok keys) ↔
      a.ver = handshakeVersion ∧ ∃ x e pt, s.le = some e ∧
        a.c = .ct (.aead s.k s.n s.h (.pub x)) ∧
        a.tag = .ct (.aead (.kdf2 s.ck (mkDh x e)) 0 (.hash s.h (.aead s.k s.n s.h (.pub x))) pt) := by
  obtain ⟨ver, c, tag⟩ := a
  unfold recvActThree
  by_cases hv : ver ≠ handshakeVersion
  · simp [hv]
  have hv : ver = handshakeVersion := Decidable.not_not.mp hv
  subst hv
  cases c with
  | junk => simp [HState.decryptAndHash, hsOpen]
  | ct t =>
    cases t with
    | aead k n ad pt =>
      by_cases hc : k = s.k ∧ n = s.n ∧ ad = s.h
      · obtain ⟨rfl, rfl, rfl⟩ := hc
        cases pt with
        | pub x =>
          cases hle : s.le with
          | none => simp [HState.decryptAndHash, hsOpen, hle]
          | some e =>
            cases tag with
            | junk => simp [HState.decryptAndHash, hsOpen, hle, HState.mixKey]
            | ct t2 =>
              cases t2 with
              | aead k2 n2 ad2 pt2 =>
                by_cases hc2 : k2 = Term.kdf2 s.ck (mkDh x e) ∧ n2 = 0 ∧
                    ad2 = Term.hash s.h (Term.aead s.k s.n s.h (Term.pub x))
                · obtain ⟨rfl, rfl, rfl⟩ := hc2
                  simp [HState.decryptAndHash, hsOpen, hle, HState.mixKey]
                · simp only [HState.decryptAndHash, hsOpen, hle, HState.mixKey, and_self, if_true, hc2, if_false]
                  simp only [not_and] at hc2
                  simp
                  intro h1 h2 h3
                  exact hc2 h1 h2 h3
              | _ => simp [HState.decryptAndHash, hsOpen, hle, HState.mixKey]
        | _ => simp [HState.decryptAndHash, hsOpen]
      · simp only [HState.decryptAndHash, hsOpen, hc, if_false]
        simp only [not_and] at hc
        simp
        intro x e _ h0 h1 h2
        exact absurd h2 (hc h0 h1)
    | _ => simp [HState.decryptAndHash, hsOpen]

/-- whatever happens to a ciphertext handed to `Decrypt`, the nonce moves on (also on a MAC
    failure): a failed read leaves the receiver one step ahead of the sender. -/
theorem decrypt_always_advances (c : CipherState) (ad : Term) (bs : List WByte) :
    (decrypt c ad bs).2 = c.advance := rfl

/-- end to end: after a completed handshake, every message list sent by either side with any
    flush pattern is delivered to the other side identical and in order, and what a side sends
    is rejected when reflected back to it. -/
theorem end_to_end (is ie target rs re : Nat) (ik rk : CipherState × CipherState)
    (h : runHandshake is ie target rs re = some (ik, rk))
    (steps : List SendStep) (hl : ∀ st ∈ steps, st.msg.len ≤ maxPayload) :
    (∃ wire s', sendAll ⟨ik.1, [], []⟩ steps = some (wire, s') ∧
        recvAll steps.length rk.2 wire = steps.map (·.msg)) ∧
    (∃ wire s', sendAll ⟨rk.1, [], []⟩ steps = some (wire, s') ∧
        recvAll steps.length ik.2 wire = steps.map (·.msg)) ∧
    (∀ m w m' c' w', readMessage ik.2 (encodeMsg ik.1 m ++ w) ≠ (.ok m', c', w')) := by
  obtain ⟨h1, h2, h3, _⟩ := handshake_keys_mirror is ie target rs re ik rk h
  refine ⟨?_, ?_, ?_⟩
  · obtain ⟨wire, s', a, b, _⟩ := stream_in_order ⟨ik.1, [], []⟩ rfl rfl steps hl
    exact ⟨wire, s', a, by rw [← h1]; exact b⟩
  · obtain ⟨wire, s', a, b, _⟩ := stream_in_order ⟨rk.1, [], []⟩ rfl rfl steps hl
    exact ⟨wire, s', a, by rw [h2]; exact b⟩
  · intro m w
    exact foreign_record_rejected ik.2 ik.1 m w (Or.inr (Or.inl h3))

example : (runHandshake 1 2 3 3 4).isSome := (handshake_iff_right_key 1 2 3 3 4).mpr rfl
example : ¬ (runHandshake 1 2 5 3 4).isSome := fun h => by
  have := (handshake_iff_right_key 1 2 5 3 4).mp h
  omega

end LndModel.C11
