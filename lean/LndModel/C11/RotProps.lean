/-
C11 — round 5 theorems, part 3: key rotation, (key, nonce) uniqueness over a whole connection,
and the two halves (ConnProps.lean) put together: any sender behaviour against any writer, any
fragmentation, any reader behaviour.
-/
import LndModel.C11.ConnProps

namespace LndModel.C11

/-! ## C. rotation -/

/-- the key changes between two consecutive uses EXACTLY when the use count (from the nonce the
    state started with) reaches a multiple of `keyRotationInterval`: uses 1000, 2000, … and no
    others; the same statement holds for the sender's encryptions and the receiver's decryptions
    (both are `stateAt`). -/
theorem rotation_exactly_at_interval (c : CipherState) (hc : c.WF) (i : Nat) :
    (stateAt c (i + 1)).key ≠ (stateAt c i).key ↔ (c.nonce + i + 1) % keyRotationInterval = 0 := by
  obtain ⟨_, k1, _⟩ := stateAt_closed c hc (i + 1)
  obtain ⟨_, k2, _⟩ := stateAt_closed c hc i
  rw [k1, k2]
  simp only [keyRotationInterval]
  constructor
  · intro h
    apply Classical.byContradiction
    intro hm
    apply h
    have : (c.nonce + (i + 1)) / 1000 = (c.nonce + i) / 1000 := by omega
    rw [this]
  · intro hm heq
    have := ratchet_key_inj _ _ _ _ heq
    omega

/-- two uses run under the same key iff they lie in the same epoch (block of 1000 uses) -/
theorem key_eq_iff_same_epoch (c : CipherState) (hc : c.WF) (i j : Nat) :
    (stateAt c i).key = (stateAt c j).key ↔
      (c.nonce + i) / keyRotationInterval = (c.nonce + j) / keyRotationInterval := by
  rw [(stateAt_closed c hc i).2.1, (stateAt_closed c hc j).2.1]
  exact ⟨ratchet_key_inj _ _ _ _, fun h => by rw [h]⟩

/-- **(key epoch, nonce) pairs never repeat**: the map use-index ↦ (epoch, nonce) is injective,
    the nonce stays below the interval, and equal (key TERM, nonce) means equal (epoch, nonce)
    means the same use — for all use counts. -/
theorem epoch_nonce_unique (c : CipherState) (hc : c.WF) (i j : Nat) :
    (stateAt c i).nonce < keyRotationInterval ∧
    (((stateAt c i).key = (stateAt c j).key ∧ (stateAt c i).nonce = (stateAt c j).nonce) ↔ i = j) ∧
    ((((c.nonce + i) / keyRotationInterval, (stateAt c i).nonce) =
      ((c.nonce + j) / keyRotationInterval, (stateAt c j).nonce)) ↔ i = j) := by
  refine ⟨stateAt_wf c hc i, ⟨fun h => stateAt_index_inj c hc i j h.1 h.2, fun h => by subst h; exact ⟨rfl, rfl⟩⟩, ?_⟩
  rw [(stateAt_closed c hc i).2.2, (stateAt_closed c hc j).2.2]
  simp only [keyRotationInterval, Prod.mk.injEq]
  constructor
  · intro h; omega
  · intro h; subst h; exact ⟨rfl, rfl⟩

theorem mem_encodeAll_sealLog (ms : List Msg) : ∀ (c : CipherState) (p : Packet) (off : Nat),
    WByte.pkt p off ∈ encodeAll c ms → p ∈ sealLog c ms := by
  induction ms with
  | nil => intro c p off h; simp [encodeAll] at h
  | cons m ms ih =>
    intro c p off h
    simp only [encodeAll, encodeMsg, List.mem_append] at h
    simp only [sealLog, List.mem_cons]
    rcases h with (h | h) | h
    · obtain ⟨o, ho⟩ := mem_render _ _ h; injection ho with ho _; exact Or.inl ho
    · obtain ⟨o, ho⟩ := mem_render _ _ h; injection ho with ho _; exact Or.inr (Or.inl ho)
    · exact Or.inr (Or.inr (ih _ _ _ h))

/-- whatever part of the honest stream (in whatever order, with repetitions) reaches the
    receiver is `Authentic` -/
theorem authentic_of_honest_bytes (c : CipherState) (ms : List Msg) (w : List WByte)
    (h : ∀ b ∈ w, b ∈ encodeAll c ms) : Authentic c ms w := by
  intro p off hp _
  exact mem_encodeAll_sealLog ms c p off (h _ hp)

/-- **one direction, both halves, everything universally quantified.**  The sender performs ANY
    sequence of `Conn.Write` / `Conn.Flush` against ANY writer (arbitrary short writes and
    temporary errors); what the writer has accepted so far reaches the receiver in ANY
    fragmentation; the receiver performs ANY sequence of `Conn.Read` (any buffer sizes) /
    `ReadNextMessage` (while `readBuf` is empty).  Then up to the first failed read
    * the decrypted messages are a prefix of the records the sender's `WriteMessage` accepted and
      the bytes handed to the reading caller are a prefix of the concatenated plaintext;
    * sender and receiver are on the same key schedule for every message count: the sender's
      cipher state is `stateAt c (2·#accepted)`, the receiver's `stateAt c (2·#decrypted)` — the
      same key epoch and nonce whenever the counts agree, across any number of rotations. -/
theorem conn_end_to_end {σ : Type} (W : Writer σ) (c : CipherState) (hc : c.WF) (w0 : σ)
    (wops : List WOp) (fs : List (List WByte))
    (hfs : fs.flatten = (WTrace.run W (WTrace.start c w0) wops).wire) (rops : List COp)
    (hd : Disciplined (ConnR.fresh c fs) rops) :
    let t := WTrace.run W (WTrace.start c w0) wops
    let r := (ConnR.fresh c fs).run rops
    r.1.msgs <+: t.accepted ∧ r.1.outs <+: t.accepted.flatMap msgBytes ∧
    t.s.cs = stateAt c (2 * t.accepted.length) ∧
    (r.2 = none → r.1.rcv = stateAt c (2 * r.1.msgs.length) ∧
      (r.1.msgs.length = t.accepted.length → r.1.rcv = t.s.cs)) := by
  intro t r
  obtain ⟨h1, _, _, _, h5⟩ := conn_write_accounting W c w0 wops
  have ha : Authentic c t.accepted fs.flatten := by
    apply authentic_of_honest_bytes
    intro b hb
    rw [hfs] at hb
    rw [← h1]
    exact List.mem_append_left _ hb
  obtain ⟨p1, p2⟩ := conn_read_prefix_of_sent c hc t.accepted fs ha rops hd
  obtain ⟨_, _, q3⟩ := conn_read_stream c fs rops hd
  refine ⟨p1, p2, h5, fun hn => ⟨(q3 hn).1, fun hl => ?_⟩⟩
  rw [(q3 hn).1, h5, hl]

/-- both directions at once after a completed handshake: the initiator's sending half feeds the
    responder's receiving half and vice versa; each direction has its own counters and rotates
    independently (`conn_end_to_end` with the mirrored keys), and the two directions never use
    the same key, at any pair of message counts. -/
theorem conn_both_directions (is ie target rs re : Nat) (ik rk : CipherState × CipherState)
    (h : runHandshake is ie target rs re = some (ik, rk)) (a b : Nat) :
    stateAt ik.1 a = stateAt rk.2 a ∧ stateAt rk.1 b = stateAt ik.2 b ∧
    ik.1.WF ∧ ik.2.WF ∧
    (stateAt ik.1 a).key = (ratchet ik.1.salt ik.1.key (a / keyRotationInterval)).2 ∧
    (stateAt rk.1 b).key = (ratchet rk.1.salt rk.1.key (b / keyRotationInterval)).2 ∧
    (stateAt ik.1 a).key ≠ (stateAt rk.1 b).key := by
  obtain ⟨h1, h2, _, h4, n1, n2, _, k1, k2⟩ := handshake_keys_mirror is ie target rs re ik rk h
  have w1 : ik.1.WF := by simp [CipherState.WF, n1, keyRotationInterval]
  have w2 : ik.2.WF := by simp [CipherState.WF, n2, keyRotationInterval]
  have e1 := (stateAt_closed ik.1 w1 a).2.1
  have e2 := (stateAt_closed ik.2 w2 b).2.1
  rw [n1, Nat.zero_add] at e1
  rw [n2, Nat.zero_add] at e2
  refine ⟨by rw [h1], by rw [h2], w1, w2, e1, by rw [← h2]; exact e2, ?_⟩
  rw [← h2, e1, e2, ← h4, k1, k2]
  exact ratchet_directions_distinct _ _ _ (by simp) (by simp [Term.size]) _ _

/-- **no (key, nonce) pair is used to encrypt twice in a whole connection**: the four
    encryptions of the handshake (both parties) and all transport encryptions of both directions,
    for any two message lists, are pairwise different as (key term, nonce) pairs. -/
theorem connection_nonce_unique (is ie rs re : Nat) (ms ms' : List Msg) :
    ∃ ik rk iF rF, runHandshakeStates is ie rs rs re = some (ik, rk, iF, rF) ∧
      ((iF.uses ++ rF.uses) ++
        ((sealLog ik.1 ms).map (fun p => (p.key, p.nonce)) ++
         (sealLog rk.1 ms').map (fun p => (p.key, p.nonce)))).Pairwise (· ≠ ·) := by
  obtain ⟨ik, rk, iF, rF, hr, hu, hx⟩ := handshake_nonce_unique is ie rs re ms ms'
  have hrun : runHandshake is ie rs rs re = some (ik, rk) := by simp [runHandshake, hr]
  obtain ⟨_, h2, _, h4, n1, n2, _, k1, k2⟩ := handshake_keys_mirror is ie rs rs re ik rk hrun
  have w1 : ik.1.WF := by simp [CipherState.WF, n1, keyRotationInterval]
  have w2 : ik.2.WF := by simp [CipherState.WF, n2, keyRotationInterval]
  refine ⟨ik, rk, iF, rF, hr, ?_⟩
  rw [← h2]
  rw [List.pairwise_append]
  refine ⟨hu, ?_, ?_⟩
  · rw [List.pairwise_append]
    refine ⟨?_, ?_, ?_⟩
    · rw [List.pairwise_map]
      exact (no_key_nonce_reuse ik.1 w1 ms).imp (fun h heq => h (by
        simp only [Prod.mk.injEq] at heq; exact heq))
    · rw [List.pairwise_map]
      exact (no_key_nonce_reuse ik.2 w2 ms').imp (fun h heq => h (by
        simp only [Prod.mk.injEq] at heq; exact heq))
    · intro x hx1 y hy1 heq
      obtain ⟨p, hp, rfl⟩ := List.mem_map.mp hx1
      obtain ⟨q, hq, rfl⟩ := List.mem_map.mp hy1
      simp only [Prod.mk.injEq] at heq
      have e1 : ik.1 = CipherState.init ik.1.salt (.kdf1 ik.1.salt Term.empty) := by
        cases hik : ik.1; simp only [hik] at k1 n1; simp [CipherState.init, k1, n1]
      have e2 : ik.2 = CipherState.init ik.1.salt (.kdf2 ik.1.salt Term.empty) := by
        cases hik : ik.2; simp only [hik] at k2 n2 h4; simp [CipherState.init, k2, n2, h4]
      rw [e1] at hp
      rw [e2] at hq
      exact directions_use_distinct_keys _ ms ms' p q hp hq heq.1
  · intro u hu1 y hy1 heq
    rcases List.mem_append.mp hy1 with hy | hy
    · obtain ⟨p, hp, rfl⟩ := List.mem_map.mp hy
      exact hx u hu1 p (Or.inl hp) (by rw [heq])
    · obtain ⟨p, hp, rfl⟩ := List.mem_map.mp hy
      exact hx u hu1 p (Or.inr hp) (by rw [heq])

example : (CipherState.init (.atom 1) (.atom 2)).WF := init_wf _ _

end LndModel.C11
