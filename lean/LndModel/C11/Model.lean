/-
C11 — model of lnd's `brontide` package (noise.go, the parts of conn.go /
listener.go that drive it).  Hand-written; tied to the code by the behavioural
correspondence check (harness/overlay/brontide/zz_c11_verif_test.go → drv_c11).

Cryptography is symbolic (DESIGN §1.6): keys, digests and handshake
ciphertexts are terms of a free algebra (`Term`); ECDH is the normalised
unordered pair of the two private-key identities, HKDF and SHA-256 are
injective constructors, the AEAD opens a ciphertext iff key, nonce and
associated data are the ones it was sealed with.

Transport ciphertext is a list of *tagged bytes* (`WByte`): byte `off` of the
packet `(key, epoch, nonce, ad, plaintext)`, or a junk byte.  Fragmentation,
truncation, splicing, reordering, replay and reflection are operations on
such lists.

`cipherState` of the code is `{nonce, secretKey, salt}` and so is the model's
`CipherState {salt, key, nonce}`; `rotateKey` replaces `(salt, key)` by the two
HKDF outputs.  A packet is identified by exactly what the AEAD sees: key term,
nonce, associated data, plaintext.
-/
namespace LndModel.C11

/-! ### constants of noise.go (compared with the code through `FACT` lines) -/

def keyRotationInterval : Nat := 1000
def macSize : Nat := 16
def lengthHeaderSize : Nat := 2
def encHeaderSize : Nat := lengthHeaderSize + macSize
/-- `math.MaxUint16`: the largest payload `WriteMessage` accepts. -/
def maxPayload : Nat := 65535
def maxMessageSize : Nat := maxPayload + macSize
def handshakeVersion : Nat := 0
def actOneSize : Nat := 50
def actTwoSize : Nat := 50
def actThreeSize : Nat := 66
def pubKeySize : Nat := 33

/-! ### symbolic terms -/

inductive Term where
  | atom (n : Nat)
  /-- public key of the private key with identity `sk` -/
  | pub (sk : Nat)
  /-- ECDH of private keys `a ≤ b` (normal form) -/
  | dh (a b : Nat)
  /-- `sha256(acc ‖ data)` (`mixHash`) -/
  | hash (acc data : Term)
  /-- first / second 32 bytes of `hkdf(sha256, secret = ikm, salt)` -/
  | kdf1 (salt ikm : Term)
  | kdf2 (salt ikm : Term)
  /-- ChaCha20-Poly1305 ciphertext (handshake payloads) -/
  | aead (key : Term) (nonce : Nat) (ad pt : Term)
deriving DecidableEq, Repr, Inhabited

namespace Term
/-- `sha256(protocolName)` -/
def protoHash : Term := atom 0
/-- `"lightning"` -/
def prologue : Term := atom 1
/-- the empty byte string -/
def empty : Term := atom 2
/-- the all-zero 32-byte key -/
def zeroKey : Term := atom 3

def size : Term → Nat
  | atom _ => 1
  | pub _ => 1
  | dh _ _ => 1
  | hash a b => a.size + b.size + 1
  | kdf1 a b => a.size + b.size + 1
  | kdf2 a b => a.size + b.size + 1
  | aead k _ a p => k.size + a.size + p.size + 1
end Term

/-- `ecdh(pub b, priv a)`: `dh a (pub b) = dh b (pub a)`. -/
def mkDh (a b : Nat) : Term := .dh (min a b) (max a b)

/-! ### transport cipher state -/

structure CipherState where
  /-- `cipherState.salt` -/
  salt : Term
  /-- `cipherState.secretKey` -/
  key : Term
  nonce : Nat
deriving DecidableEq, Repr, Inhabited

/-- `(salt, secretKey)` after `n` calls of `rotateKey` starting from `(s, k)`. -/
def ratchet (s k : Term) : Nat → Term × Term
  | 0 => (s, k)
  | n + 1 => (.kdf1 (ratchet s k n).1 (ratchet s k n).2, .kdf2 (ratchet s k n).1 (ratchet s k n).2)

/-- `rotateKey`: `hkdf(secret = key, salt = salt)` → new salt, new key; nonce back to 0. -/
def CipherState.rotate (c : CipherState) : CipherState :=
  { salt := .kdf1 c.salt c.key, key := .kdf2 c.salt c.key, nonce := 0 }

/-- the deferred block of `Encrypt`/`Decrypt`: `nonce++`, rotate when it equals
    `keyRotationInterval`. -/
def CipherState.advance (c : CipherState) : CipherState :=
  if c.nonce + 1 = keyRotationInterval then c.rotate
  else { c with nonce := c.nonce + 1 }

/-- `InitializeKeyWithSalt` -/
def CipherState.init (salt key : Term) : CipherState :=
  { salt := salt, key := key, nonce := 0 }

/-- A byte string: `len` bytes whose content is identified by `val`
    (big-endian value; the driver uses the SHA-256 digest for long strings). -/
structure Msg where
  len : Nat
  val : Nat
deriving DecidableEq, Repr, Inhabited

/-- AEAD output of the transport phase: what ChaCha20-Poly1305 is given. Two
    packets are the same byte string iff all four components agree. -/
structure Packet where
  nonce : Nat
  pt : Msg
  ad : Term
  key : Term
deriving DecidableEq, Repr, Inhabited

/-- Same decision procedure, but physically identical objects are recognised
    without walking the key term (all bytes of one rendered packet share the
    packet object).  Logically this is just the derived instance. -/
instance (priority := high) Packet.fastDecEq : DecidableEq Packet :=
  fun p q => withPtrEqDecEq p q (fun _ => instDecidableEqPacket p q)

def CipherState.seal (c : CipherState) (ad : Term) (m : Msg) : Packet :=
  { nonce := c.nonce, pt := m, ad := ad, key := c.key }

/-- `cipherState.Encrypt`. -/
def encrypt (c : CipherState) (ad : Term) (m : Msg) : Packet × CipherState :=
  (c.seal ad m, c.advance)

/-- one byte on the wire -/
inductive WByte where
  | pkt (p : Packet) (off : Nat)
  | raw (b : Nat)
deriving DecidableEq, Repr, Inhabited

/-- the `len + 16` bytes of a packet -/
def render (p : Packet) : List WByte :=
  (List.range (p.pt.len + macSize)).map (WByte.pkt p)

/-- `cipher.Open` under state `c`: succeeds iff `bs` is exactly the rendering of
    a packet sealed with this key, nonce and associated data. -/
def openBytes (c : CipherState) (ad : Term) (bs : List WByte) : Option Msg :=
  match bs with
  | .pkt p _ :: _ => if p = c.seal ad p.pt ∧ bs = render p then some p.pt else none
  | _ => none

/-- `cipherState.Decrypt`: the nonce advances whether or not the MAC verifies. -/
def decrypt (c : CipherState) (ad : Term) (bs : List WByte) : Option Msg × CipherState :=
  (openBytes c ad bs, c.advance)

/-! ### sending: `WriteMessage` / `Flush` -/

structure Sender where
  cs : CipherState
  /-- `nextHeaderSend` -/
  hdr : List WByte
  /-- `nextBodySend` -/
  body : List WByte
deriving Repr, Inhabited

inductive WErr where
  | tooLong      -- ErrMaxMessageLengthExceeded
  | notFlushed   -- ErrMessageNotFlushed
deriving DecidableEq, Repr

/-- the two-byte big-endian length prefix -/
def lenMsg (n : Nat) : Msg := { len := lengthHeaderSize, val := n }

/-- `Machine.WriteMessage`, returning also the packets produced by its two
    `Encrypt` calls (ghost output, used for the (key, nonce) log). -/
def writeMessageL (s : Sender) (m : Msg) : Except WErr (Sender × List Packet) :=
  if m.len > maxPayload then .error .tooLong
  else if s.hdr ≠ [] ∨ s.body ≠ [] then .error .notFlushed
  else
    let e1 := encrypt s.cs Term.empty (lenMsg m.len)
    let e2 := encrypt e1.2 Term.empty m
    .ok ({ cs := e2.2, hdr := render e1.1, body := render e2.1 }, [e1.1, e2.1])

/-- `Machine.WriteMessage`. -/
def writeMessage (s : Sender) (m : Msg) : Except WErr Sender :=
  match writeMessageL s m with
  | .ok r => .ok r.1
  | .error e => .error e

/-- An `io.Writer` that accepts `budget` more bytes (`none` = unlimited) and
    reports a timeout on a short write; when `eager` also as soon as the budget
    is used up.  Result: bytes taken, error?, remaining budget. -/
def wwrite (budget : Option Nat) (eager : Bool) (len : Nat) : Nat × Bool × Option Nat :=
  match budget with
  | none => (len, false, none)
  | some b =>
    let n := min len b
    (n, decide (n < len) || (eager && decide (b - n = 0)), some (b - n))

/-- the plaintext-byte count `Flush` derives from one body write of `n` bytes
    (`start` bytes pending before, `stop` after). -/
def flushCount (start stop n : Nat) : Nat :=
  if start > macSize ∧ stop ≤ macSize then n - (macSize - stop)
  else if start > macSize ∧ stop > macSize then n
  else 0

structure FlushRes where
  /-- returned count -/
  nn : Nat
  /-- a timeout error was returned -/
  err : Bool
  /-- bytes that reached the writer, in order -/
  out : List WByte
  st : Sender
  budget : Option Nat
deriving Repr

/-- `Machine.Flush(w)`. -/
def flush (s : Sender) (budget : Option Nat) (eager : Bool) : FlushRes :=
  let r1 := if s.hdr = [] then (0, false, budget) else wwrite budget eager s.hdr.length
  let out1 := s.hdr.take r1.1
  let hdr' := s.hdr.drop r1.1
  if r1.2.1 then { nn := 0, err := true, out := out1, st := { s with hdr := hdr' }, budget := r1.2.2 }
  else if s.body = [] then
    { nn := 0, err := false, out := out1, st := { s with hdr := hdr' }, budget := r1.2.2 }
  else
    let r2 := wwrite r1.2.2 eager s.body.length
    let body' := s.body.drop r2.1
    { nn := flushCount s.body.length body'.length r2.1, err := r2.2.1,
      out := out1 ++ s.body.take r2.1, st := { s with hdr := hdr', body := body' },
      budget := r2.2.2 }

/-! ### receiving: `ReadHeader` / `ReadBody` / `ReadMessage` -/

inductive RErr where
  | eof     -- io.EOF: nothing could be read
  | short   -- io.ErrUnexpectedEOF: the stream ended inside the record
  | mac     -- authentication failed
deriving DecidableEq, Repr

/-- `io.ReadFull` on a finite byte stream. A failed read consumes what was there. -/
def readFull (n : Nat) (w : List WByte) : Except RErr (List WByte) × List WByte :=
  if n ≤ w.length then (.ok (w.take n), w.drop n)
  else if w = [] then (.error .eof, [])
  else (.error .short, [])

/-- `io.ReadFull(r, buf[:n])` over a reader that hands out the stream in fragments (one list
    element per `Read` that could be satisfied; a `Read` never returns more than is asked for):
    the bytes assembled and the fragments left, or `none` if the stream ends first.  Used for
    the handshake acts (`Dial`, `doHandshake`: n = act size) and for `ReadHeader`/`ReadBody`. -/
def readFullF {α : Type} (n : Nat) : List (List α) → Option (List α × List (List α))
  | [] => if n = 0 then some ([], []) else none
  | f :: fs =>
    if n ≤ f.length then some (f.take n, f.drop n :: fs)
    else (readFullF (n - f.length) fs).map (fun r => (f ++ r.1, r.2))

/-- `Machine.ReadHeader`: returns `pktLen` (= payload length + macSize). -/
def readHeader (c : CipherState) (w : List WByte) : Except RErr Nat × CipherState × List WByte :=
  match readFull encHeaderSize w with
  | (.error e, w') => (.error e, c, w')
  | (.ok bs, w') =>
    match decrypt c Term.empty bs with
    | (none, c') => (.error .mac, c', w')
    | (some m, c') => (.ok (m.val + macSize), c', w')

/-- `Machine.ReadBody` with a buffer of `n` bytes. -/
def readBody (c : CipherState) (n : Nat) (w : List WByte) : Except RErr Msg × CipherState × List WByte :=
  match readFull n w with
  | (.error e, w') => (.error e, c, w')
  | (.ok bs, w') =>
    match decrypt c Term.empty bs with
    | (none, c') => (.error .mac, c', w')
    | (some m, c') => (.ok m, c', w')

/-- `Machine.ReadMessage`. -/
def readMessage (c : CipherState) (w : List WByte) : Except RErr Msg × CipherState × List WByte :=
  match readHeader c w with
  | (.error e, c', w') => (.error e, c', w')
  | (.ok n, c', w') => readBody c' n w'

/-- read messages until the first failure (a connection is torn down on error). -/
def recvAll : Nat → CipherState → List WByte → List Msg
  | 0, _, _ => []
  | fuel + 1, c, w =>
    match readMessage c w with
    | (.ok m, c', w') => m :: recvAll fuel c' w'
    | (.error _, _, _) => []

/-! ### the sender's side as pure functions of the message list -/

/-- state after `i` encryptions/decryptions -/
def stateAt (c : CipherState) : Nat → CipherState
  | 0 => c
  | i + 1 => (stateAt c i).advance

/-- wire bytes of one message sent from state `c` -/
def encodeMsg (c : CipherState) (m : Msg) : List WByte :=
  render (c.seal Term.empty (lenMsg m.len)) ++ render (c.advance.seal Term.empty m)

/-- wire bytes of a message list sent from state `c` -/
def encodeAll (c : CipherState) : List Msg → List WByte
  | [] => []
  | m :: ms => encodeMsg c m ++ encodeAll c.advance.advance ms

/-- every packet sealed while sending `ms` from `c`, in order -/
def sealLog (c : CipherState) : List Msg → List Packet
  | [] => []
  | m :: ms => c.seal Term.empty (lenMsg m.len) :: c.advance.seal Term.empty m ::
      sealLog c.advance.advance ms

/-- One message with the budgets/flags of the `Flush` calls used to push it out
    (the final unlimited flush is implicit). -/
structure SendStep where
  msg : Msg
  flushes : List (Option Nat × Bool)

/-- run the flushes, collecting emitted bytes and returned counts -/
def runFlushes (s : Sender) : List (Option Nat × Bool) → List WByte × List Nat × Sender
  | [] => ([], [], s)
  | (b, e) :: fs =>
    let r := flush s b e
    let t := runFlushes r.st fs
    (r.out ++ t.1, r.nn :: t.2.1, t.2.2)

/-- `WriteMessage` then the listed flushes then a final unlimited flush, for
    each step; `none` if some `WriteMessage` is refused. -/
def sendAll (s : Sender) : List SendStep → Option (List WByte × Sender)
  | [] => some ([], s)
  | st :: rest =>
    match writeMessage s st.msg with
    | .error _ => none
    | .ok s1 =>
      let t := runFlushes s1 (st.flushes ++ [(none, false)])
      match sendAll t.2.2 rest with
      | none => none
      | some (o', s3) => some (t.1 ++ o', s3)

/-! ### arbitrary operation traces on the sending side -/

inductive Op where
  | write (m : Msg)
  | flush (budget : Option Nat) (eager : Bool)
deriving Repr

/-- sending side with ghost history -/
structure Trace where
  s : Sender
  /-- every packet produced by an `Encrypt` call so far, oldest first -/
  log : List Packet
  /-- every byte handed to the writer so far -/
  wire : List WByte
  /-- the messages `WriteMessage` accepted so far -/
  accepted : List Msg

def Trace.start (c : CipherState) : Trace :=
  { s := { cs := c, hdr := [], body := [] }, log := [], wire := [], accepted := [] }

/-- one operation; a refused `WriteMessage` changes nothing. -/
def Trace.step (t : Trace) : Op → Trace
  | .write m =>
    match writeMessageL t.s m with
    | .ok r => { t with s := r.1, log := t.log ++ r.2, accepted := t.accepted ++ [m] }
    | .error _ => t
  | .flush b e =>
    let r := flush t.s b e
    { t with s := r.st, wire := t.wire ++ r.out }

def runOps (t : Trace) (ops : List Op) : Trace := ops.foldl Trace.step t

/-! ### one Machine used in both directions at once -/

/-- operations on the receiving side of a Machine: bytes arrive, `ReadMessage` is called -/
inductive ROp where
  | arrive (bs : List WByte)
  | read
deriving Repr

/-- an operation on a Machine: on its sending side or on its receiving side -/
inductive DOp where
  | send (op : Op)
  | recv (op : ROp)
deriving Repr

/-- receiving side: cipher state, inbound bytes not yet consumed, results of the reads so far -/
structure RecvSide where
  rcv : CipherState
  inb : List WByte
  results : List (Except RErr Msg)

def RecvSide.step (r : RecvSide) : ROp → RecvSide
  | .arrive bs => { r with inb := r.inb ++ bs }
  | .read =>
    let x := readMessage r.rcv r.inb
    { rcv := x.2.1, inb := x.2.2, results := r.results ++ [x.1] }

/-- the transport part of a `Machine`: `sendCipher` + pending buffers and `recvCipher`.
    (The code's Machine also owns scratch buffers; that they are not shared between the two
    sides is what the full-duplex correspondence cases check.) -/
structure Duplex where
  tx : Trace
  rx : RecvSide

def Duplex.step (d : Duplex) : DOp → Duplex
  | .send op => { d with tx := d.tx.step op }
  | .recv op => { d with rx := d.rx.step op }

def Duplex.run (d : Duplex) (ops : List DOp) : Duplex := ops.foldl Duplex.step d

def sendPart : List DOp → List Op
  | [] => []
  | .send op :: r => op :: sendPart r
  | .recv _ :: r => sendPart r

def recvPart : List DOp → List ROp
  | [] => []
  | .send _ :: r => recvPart r
  | .recv op :: r => op :: recvPart r

/-! ### handshake -/

/-- the 33-byte key field of an act as parsed by `btcec.ParsePubKey` -/
inductive PubField where
  | valid (sk : Nat)
  | invalid
deriving DecidableEq, Repr, Inhabited

/-- a ciphertext field of an act -/
inductive CtField where
  | ct (t : Term)
  | junk
deriving DecidableEq, Repr, Inhabited

/-- acts one and two: version, ephemeral key, tag -/
structure Act12 where
  ver : Nat
  e : PubField
  tag : CtField
deriving DecidableEq, Repr, Inhabited

/-- act three: version, encrypted static key (49 bytes), tag -/
structure Act3 where
  ver : Nat
  c : CtField
  tag : CtField
deriving DecidableEq, Repr, Inhabited

inductive HErr where
  | version
  | parse
  | mac
  | state    -- Go would dereference nil (acts called out of order)
deriving DecidableEq, Repr

/-- `handshakeState` (with the embedded `symmetricState`/`cipherState`). -/
structure HState where
  initiator : Bool
  ck : Term
  h : Term
  /-- `cipherState.secretKey` (= `tempKey`) -/
  k : Term
  /-- `cipherState.nonce` -/
  n : Nat
  /-- identity of `localStatic` -/
  ls : Nat
  le : Option Nat
  /-- identity behind `remoteStatic` -/
  rs : Option Nat
  re : Option Nat
  /-- ghost: the `(key, nonce)` of every `Encrypt` call made so far, newest first -/
  uses : List (Term × Nat) := []
deriving DecidableEq, Repr, Inhabited

def HState.mixHash (s : HState) (d : Term) : HState := { s with h := .hash s.h d }

def HState.mixKey (s : HState) (input : Term) : HState :=
  { s with ck := .kdf1 s.ck input, k := .kdf2 s.ck input, n := 0 }

/-- `EncryptAndHash` -/
def HState.encryptAndHash (s : HState) (pt : Term) : Term × HState :=
  let c := Term.aead s.k s.n s.h pt
  (c, { s with n := s.n + 1, h := .hash s.h c, uses := (s.k, s.n) :: s.uses })

/-- `cipher.Open` on a handshake field. -/
def hsOpen (k : Term) (n : Nat) (ad : Term) : CtField → Option Term
  | .ct (.aead k' n' ad' pt) => if k' = k ∧ n' = n ∧ ad' = ad then some pt else none
  | _ => none

/-- `DecryptAndHash`: the nonce advances in any case, the digest only on success. -/
def HState.decryptAndHash (s : HState) (f : CtField) : Option Term × HState :=
  match hsOpen s.k s.n s.h f, f with
  | some pt, .ct c => (some pt, { s with n := s.n + 1, h := .hash s.h c })
  | _, _ => (none, { s with n := s.n + 1 })

/-- `newHandshakeState` / `NewBrontideMachine`. -/
def HState.new (initiator : Bool) (ls : Nat) (remote : Option Nat) : HState :=
  let s : HState := { initiator, ck := Term.protoHash, h := Term.protoHash, k := Term.zeroKey, n := 0,
                      ls, le := none, rs := remote, re := none }
  let s := s.mixHash Term.prologue
  if initiator then
    match remote with
    | some r => s.mixHash (.pub r)
    | none => s            -- Go panics on the nil key
  else s.mixHash (.pub ls)

/-- `GenActOne` with the ephemeral key `e` drawn by `ephemeralGen`. -/
def genActOne (s : HState) (e : Nat) : Except HErr Act12 × HState :=
  let s := { s with le := some e }
  let s := s.mixHash (.pub e)
  match s.rs with
  | none => (.error .state, s)
  | some r =>
    let s := s.mixKey (mkDh e r)
    let (tag, s) := s.encryptAndHash Term.empty
    (.ok { ver := handshakeVersion, e := .valid e, tag := .ct tag }, s)

/-- shared body of `RecvActOne` / `RecvActTwo`; `priv` is the private key used for the ECDH. -/
def recvAct12 (s : HState) (priv : Option Nat) (a : Act12) : Except HErr Unit × HState :=
  if a.ver ≠ handshakeVersion then (.error .version, s)
  else
    match a.e with
    | .invalid => (.error .parse, { s with re := none })
    | .valid x =>
      let s := { s with re := some x }
      let s := s.mixHash (.pub x)
      match priv with
      | none => (.error .state, s)
      | some p =>
        let s := s.mixKey (mkDh x p)
        match s.decryptAndHash a.tag with
        | (some _, s) => (.ok (), s)
        | (none, s) => (.error .mac, s)

def recvActOne (s : HState) (a : Act12) : Except HErr Unit × HState := recvAct12 s (some s.ls) a

/-- `GenActTwo` with ephemeral key `e`. -/
def genActTwo (s : HState) (e : Nat) : Except HErr Act12 × HState :=
  let s := { s with le := some e }
  let s := s.mixHash (.pub e)
  match s.re with
  | none => (.error .state, s)
  | some r =>
    let s := s.mixKey (mkDh e r)
    let (tag, s) := s.encryptAndHash Term.empty
    (.ok { ver := handshakeVersion, e := .valid e, tag := .ct tag }, s)

def recvActTwo (s : HState) (a : Act12) : Except HErr Unit × HState := recvAct12 s s.le a

/-- result of `split()`: `(sendCipher, recvCipher)`. -/
def HState.split (s : HState) : CipherState × CipherState :=
  let k1 := Term.kdf1 s.ck Term.empty
  let k2 := Term.kdf2 s.ck Term.empty
  if s.initiator then (CipherState.init s.ck k1, CipherState.init s.ck k2)
  else (CipherState.init s.ck k2, CipherState.init s.ck k1)

/-- `GenActThree`. -/
def genActThree (s : HState) : Except HErr (Act3 × CipherState × CipherState) × HState :=
  let (c, s) := s.encryptAndHash (.pub s.ls)
  match s.re with
  | none => (.error .state, s)
  | some r =>
    let s := s.mixKey (mkDh r s.ls)
    let (tag, s) := s.encryptAndHash Term.empty
    (.ok ({ ver := handshakeVersion, c := .ct c, tag := .ct tag }, s.split), s)

/-- `RecvActThree`. -/
def recvActThree (s : HState) (a : Act3) : Except HErr (CipherState × CipherState) × HState :=
  if a.ver ≠ handshakeVersion then (.error .version, s)
  else
    match s.decryptAndHash a.c with
    | (none, s) => (.error .mac, s)
    | (some pt, s) =>
      match pt with
      | .pub x =>
        let s := { s with rs := some x }
        match s.le with
        | none => (.error .state, s)
        | some e =>
          let s := s.mixKey (mkDh x e)
          match s.decryptAndHash a.tag with
          | (none, s) => (.error .mac, s)
          | (some _, s) => (.ok s.split, s)
      | _ => (.error .parse, { s with rs := none })

/-- outcome of a full three-act exchange between an initiator (static `is`,
    ephemeral `ie`, dialling the key with identity `target`) and a responder
    (static `rs`, ephemeral `re`), all acts delivered unaltered. Returns the
    initiator's and the responder's `(send, recv)` cipher states and the two
    final handshake states. -/
def runHandshakeStates (is ie target rs re : Nat) :
    Option ((CipherState × CipherState) × (CipherState × CipherState) × HState × HState) :=
  let i0 := HState.new true is (some target)
  let r0 := HState.new false rs none
  match genActOne i0 ie with
  | (.error _, _) => none
  | (.ok a1, i1) =>
    match recvActOne r0 a1 with
    | (.error _, _) => none
    | (.ok (), r1) =>
      match genActTwo r1 re with
      | (.error _, _) => none
      | (.ok a2, r2) =>
        match recvActTwo i1 a2 with
        | (.error _, _) => none
        | (.ok (), i2) =>
          match genActThree i2 with
          | (.error _, _) => none
          | (.ok (a3, ikeys), i3) =>
            match recvActThree r2 a3 with
            | (.error _, _) => none
            | (.ok rkeys, r3) => some (ikeys, rkeys, i3, r3)

def runHandshake (is ie target rs re : Nat) :
    Option ((CipherState × CipherState) × (CipherState × CipherState)) :=
  (runHandshakeStates is ie target rs re).map (fun r => (r.1, r.2.1))

/-! ### conn.go / listener.go: `Dial` against `Listener.doHandshake`, `Conn.Write`, `Conn.Read` -/

/-- what happens to the handshake bytes in flight -/
inductive Tamper where
  | none
  /-- one byte at stream offset `off` of the initiator→responder (`toResp`) or the
      responder→initiator stream is altered; `pk` = how the key field parses then -/
  | flip (toResp : Bool) (off : Nat) (pk : PubField)
  /-- the stream is cut after `off` bytes -/
  | cut (toResp : Bool) (off : Nat)
deriving DecidableEq, Repr

inductive ConnRes where
  | ok
  /-- read/write error on the connection (EOF, closed) -/
  | io
  | hs (e : HErr)
deriving DecidableEq, Repr

def tamper12 (a : Act12) (off : Nat) (pk : PubField) : Act12 :=
  if off = 0 then { a with ver := a.ver + 1 }
  else if off ≤ pubKeySize then { a with e := pk }
  else { a with tag := .junk }

def tamper3 (a : Act3) (off : Nat) : Act3 :=
  if off = 0 then { a with ver := a.ver + 1 }
  else if off ≤ pubKeySize + macSize then { a with c := .junk }
  else { a with tag := .junk }

structure ConnOut where
  dial : ConnRes
  accept : ConnRes
  /-- static key the listener reports for the peer -/
  rpub : Option Nat
  keys : Option ((CipherState × CipherState) × (CipherState × CipherState))
deriving Repr

/-- `Dial` (conn.go) running against `Listener.doHandshake` (listener.go): act
    order, who notices which failure (a side that fails closes the connection,
    the other side's pending read then fails with an I/O error; `Dial` returns
    as soon as act three is written). -/
def connHandshake (is ie target rs re : Nat) (t : Tamper) : ConnOut :=
  let i0 := HState.new true is (some target)
  let r0 := HState.new false rs none
  let fail (d a : ConnRes) : ConnOut := { dial := d, accept := a, rpub := none, keys := none }
  match genActOne i0 ie with
  | (.error e, _) => fail (.hs e) .io
  | (.ok a1, i1) =>
    match (match t with
           | .cut true off => if off < actOneSize then none else some a1
           | .flip true off pk => if off < actOneSize then some (tamper12 a1 off pk) else some a1
           | _ => some a1) with
    | none => fail .io .io
    | some a1 =>
      match recvActOne r0 a1 with
      | (.error e, _) => fail .io (.hs e)
      | (.ok (), r1) =>
        match genActTwo r1 re with
        | (.error e, _) => fail .io (.hs e)
        | (.ok a2, r2) =>
          match (match t with
                 | .cut false _ => none
                 | .flip false off pk => some (tamper12 a2 off pk)
                 | _ => some a2) with
          | none => fail .io .io
          | some a2 =>
            match recvActTwo i1 a2 with
            | (.error e, _) => fail (.hs e) .io
            | (.ok (), i2) =>
              match genActThree i2 with
              | (.error e, _) => fail (.hs e) .io
              | (.ok (a3, ikeys), _) =>
                match (match t with
                       | .cut true _ => none
                       | .flip true off _ => some (tamper3 a3 (off - actOneSize))
                       | _ => some a3) with
                | none => fail .ok .io
                | some a3 =>
                  match recvActThree r2 a3 with
                  | (.error e, _) => fail .ok (.hs e)
                  | (.ok rkeys, r3) =>
                    { dial := .ok, accept := .ok, rpub := r3.rs, keys := some (ikeys, rkeys) }

/-- lengths of the records `Conn.Write` produces for `n` bytes: one record up to
    65535 bytes (also for 0), otherwise full records and a last shorter one. -/
def chunkLensF : Nat → Nat → List Nat
  | 0, n => [n]
  | f + 1, n => if n ≤ maxPayload then [n] else maxPayload :: chunkLensF f (n - maxPayload)

def chunkLens (n : Nat) : List Nat := chunkLensF n n

inductive CWErr where
  | none
  | timeout
  | refused (e : WErr)
deriving DecidableEq, Repr

structure ConnWriteRes where
  /-- `bytesWritten` -/
  n : Nat
  err : CWErr
  out : List WByte
  st : Sender
  budget : Option Nat
  /-- ghost: records for which `WriteMessage` succeeded -/
  written : List Msg

/-- the loop of `Conn.Write` over the chunk list (for one chunk it coincides
    with the single-record branch): `WriteMessage`, `Flush`, add the count, stop
    at the first error. -/
def connWrite (s : Sender) (budget : Option Nat) : List Msg → ConnWriteRes
  | [] => { n := 0, err := .none, out := [], st := s, budget := budget, written := [] }
  | c :: cs =>
    match writeMessage s c with
    | .error e => { n := 0, err := .refused e, out := [], st := s, budget := budget, written := [] }
    | .ok s1 =>
      let r := flush s1 budget false
      if r.err then
        { n := r.nn, err := .timeout, out := r.out, st := r.st, budget := r.budget, written := [c] }
      else
        let t := connWrite r.st r.budget cs
        { n := r.nn + t.n, err := t.err, out := r.out ++ t.out, st := t.st, budget := t.budget,
          written := c :: t.written }

/-- the `ReadMessage` calls behind a `Conn.Read` loop that wants `want` bytes
    (at least one record is read). -/
def connReadMsgs : Nat → Nat → CipherState → List WByte → List Msg × Option RErr × CipherState × List WByte
  | 0, _, c, w => ([], none, c, w)
  | fuel + 1, want, c, w =>
    match readMessage c w with
    | (.error e, c', w') => ([], some e, c', w')
    | (.ok m, c', w') =>
      if m.len ≥ want then ([m], none, c', w')
      else
        let r := connReadMsgs fuel (want - m.len) c' w'
        (m :: r.1, r.2.1, r.2.2.1, r.2.2.2)

end LndModel.C11
