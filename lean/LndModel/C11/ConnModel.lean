/-
C11 — model extension (round 5): the parts of conn.go / noise.go around the core that were
monitor-only so far.

A. reading over a *fragmented* byte stream (`io.ReadFull` over a reader that hands out the stream
   in arbitrary pieces), `Conn.Read` with its partial-read buffer `readBuf`, `ReadNextMessage`
   (= `ReadNextHeader` + `ReadNextBody` with the advertised length);
B. `Flush` / `Conn.Write` / `Conn.Flush` against an ARBITRARY underlying writer (any state, any
   sequence of short writes and temporary errors, restricted only by the io.Writer contract);
D. byte-level handshake acts (version ‖ key ‖ tag; version ‖ sealed key ‖ tag) as lists of
   symbolic bytes, their parsing, and the control flow of `Dial` / `Listener.doHandshake` as
   functions of the I/O events (bytes read, read timeout / EOF, write result, ban decision).

Core Lean only.  Plaintext bytes are tagged like wire bytes: `PByte m off` is byte `off` of message
`m`.
-/
import LndModel.C11.Model

namespace LndModel.C11

/-! ## A. fragmented reads and `Conn.Read` -/

/-- `io.ReadFull(r, buf[:n])` over the fragments `fs` (one element per `Read` of the underlying
    connection), with the error classes of the atomic `readFull`. -/
def readFullS (n : Nat) (fs : List (List WByte)) : Except RErr (List WByte) × List (List WByte) :=
  match readFullF n fs with
  | some (bs, r) => (.ok bs, r)
  | none => (if fs.flatten = [] then .error .eof else .error .short, [])

/-- `Machine.ReadHeader` over a fragmented stream. -/
def readHeaderS (c : CipherState) (fs : List (List WByte)) :
    Except RErr Nat × CipherState × List (List WByte) :=
  match readFullS encHeaderSize fs with
  | (.error e, r) => (.error e, c, r)
  | (.ok bs, r) =>
    match decrypt c Term.empty bs with
    | (none, c') => (.error .mac, c', r)
    | (some m, c') => (.ok (m.val + macSize), c', r)

/-- `Machine.ReadBody` over a fragmented stream. -/
def readBodyS (c : CipherState) (n : Nat) (fs : List (List WByte)) :
    Except RErr Msg × CipherState × List (List WByte) :=
  match readFullS n fs with
  | (.error e, r) => (.error e, c, r)
  | (.ok bs, r) =>
    match decrypt c Term.empty bs with
    | (none, c') => (.error .mac, c', r)
    | (some m, c') => (.ok m, c', r)

/-- `Machine.ReadMessage` over a fragmented stream. -/
def readMessageS (c : CipherState) (fs : List (List WByte)) :
    Except RErr Msg × CipherState × List (List WByte) :=
  match readHeaderS c fs with
  | (.error e, c', r) => (.error e, c', r)
  | (.ok n, c', r) => readBodyS c' n r

/-- one plaintext byte: byte `off` of message `msg` -/
structure PByte where
  msg : Msg
  off : Nat
deriving DecidableEq, Repr, Inhabited

/-- the `len` bytes of a decrypted message body -/
def msgBytes (m : Msg) : List PByte := (List.range m.len).map (PByte.mk m)

/-- receiving half of a `brontide.Conn`: `noise.recvCipher`, the underlying connection's pending
    fragments, `readBuf`; ghost: every message `ReadMessage` handed out, every byte handed to the
    caller (by `Read` or `ReadNextMessage`), in order. -/
structure ConnR where
  rcv : CipherState
  inb : List (List WByte)
  buf : List PByte
  msgs : List Msg := []
  outs : List PByte := []
deriving Repr

inductive COp where
  /-- `Conn.Read(b)` with `len(b) = cap` -/
  | read (cap : Nat)
  /-- `Conn.ReadNextMessage()`, equivalently `ReadNextHeader` followed by `ReadNextBody` with a
      buffer of the advertised length -/
  | nextMessage
deriving Repr, DecidableEq

inductive CRes where
  | data (bs : List PByte)
  /-- `ReadMessage` failed -/
  | fail (e : RErr)
  /-- `bytes.Buffer.Read` on an empty buffer with a non-empty destination: `(0, io.EOF)`
      (an empty brontide message was received) -/
  | emptyEof
deriving Repr, DecidableEq

/-- `c.readBuf.Read(b)` -/
def ConnR.bufRead (s : ConnR) (cap : Nat) : CRes × ConnR :=
  if s.buf = [] then (if cap = 0 then .data [] else .emptyEof, s)
  else (.data (s.buf.take cap), { s with buf := s.buf.drop cap, outs := s.outs ++ s.buf.take cap })

def ConnR.step (s : ConnR) : COp → CRes × ConnR
  | .read cap =>
    if s.buf = [] then
      match readMessageS s.rcv s.inb with
      | (.error e, c', r) => (.fail e, { s with rcv := c', inb := r })
      | (.ok m, c', r) =>
        ConnR.bufRead { s with rcv := c', inb := r, buf := msgBytes m, msgs := s.msgs ++ [m] } cap
    else s.bufRead cap
  | .nextMessage =>
    match readMessageS s.rcv s.inb with
    | (.error e, c', r) => (.fail e, { s with rcv := c', inb := r })
    | (.ok m, c', r) =>
      (.data (msgBytes m),
       { s with rcv := c', inb := r, msgs := s.msgs ++ [m], outs := s.outs ++ msgBytes m })

/-- run operations up to the first failed `ReadMessage` (the connection is dropped then) -/
def ConnR.run : ConnR → List COp → ConnR × Option RErr
  | s, [] => (s, none)
  | s, op :: ops =>
    match s.step op with
    | (.fail e, s') => (s', some e)
    | (_, s') => s'.run ops

/-- `ReadNextMessage` / `ReadNextHeader` bypass `readBuf`: they are only meaningful while it is
    empty (lnd's peer uses only these; `Read` users use only `Read`). -/
def Disciplined : ConnR → List COp → Prop
  | _, [] => True
  | s, .read cap :: ops => Disciplined (s.step (.read cap)).2 ops
  | s, .nextMessage :: ops => s.buf = [] ∧ Disciplined (s.step .nextMessage).2 ops

/-! ## B. an arbitrary underlying writer -/

/-- An `io.Writer` with arbitrary internal state `σ`: `write w len = (n, err, w')`.  The two
    fields are the io.Writer contract: `0 ≤ n ≤ len`, and `n < len` only together with an error. -/
structure Writer (σ : Type) where
  write : σ → Nat → Nat × Bool × σ
  le : ∀ w len, (write w len).1 ≤ len
  full : ∀ w len, (write w len).2.1 = false → (write w len).1 = len

/-- the writer driven by a script of results: the k-th `Write(p)` accepts `min n_k len(p)` bytes
    and fails iff `e_k` or the write was short; after the script everything is accepted. Every
    finite pattern of short writes / temporary errors is such a script. -/
def scriptWriter : Writer (List (Nat × Bool)) where
  write := fun rs len =>
    match rs with
    | [] => (len, false, [])
    | r :: rs' => (min r.1 len, r.2 || decide (min r.1 len < len), rs')
  le := by
    intro w len
    cases w with
    | nil => exact Nat.le_refl _
    | cons r rs => exact Nat.min_le_right _ _
  full := by
    intro w len h
    cases w with
    | nil => rfl
    | cons r rs =>
      simp only [Bool.or_eq_false_iff, decide_eq_false_iff_not] at h
      have := Nat.min_le_right r.1 len
      simp only
      omega

/-- the budget writer of Model.lean (`wwrite`) as a `Writer` -/
def budgetWriter (eager : Bool) : Writer (Option Nat) where
  write := fun b len => wwrite b eager len
  le := by
    intro b len
    unfold wwrite
    cases b with
    | none => exact Nat.le_refl _
    | some x => exact Nat.min_le_left _ _
  full := by
    intro b len h
    unfold wwrite at *
    cases b with
    | none => rfl
    | some x =>
      simp only [Bool.or_eq_false_iff, decide_eq_false_iff_not] at h
      have := Nat.min_le_left len x
      simp only
      omega

structure FlushResW (σ : Type) where
  nn : Nat
  err : Bool
  out : List WByte
  st : Sender
  w : σ

/-- `Machine.Flush(w)` against an arbitrary writer (same text as `flush`). -/
def flushW {σ : Type} (W : Writer σ) (s : Sender) (w : σ) : FlushResW σ :=
  let r1 := if s.hdr = [] then (0, false, w) else W.write w s.hdr.length
  let out1 := s.hdr.take r1.1
  let hdr' := s.hdr.drop r1.1
  if r1.2.1 then { nn := 0, err := true, out := out1, st := { s with hdr := hdr' }, w := r1.2.2 }
  else if s.body = [] then
    { nn := 0, err := false, out := out1, st := { s with hdr := hdr' }, w := r1.2.2 }
  else
    let r2 := W.write r1.2.2 s.body.length
    let body' := s.body.drop r2.1
    { nn := flushCount s.body.length body'.length r2.1, err := r2.2.1,
      out := out1 ++ s.body.take r2.1, st := { s with hdr := hdr', body := body' }, w := r2.2.2 }

structure ConnWriteResW (σ : Type) where
  n : Nat
  err : CWErr
  out : List WByte
  st : Sender
  w : σ
  written : List Msg

/-- `Conn.Write` over the records `chunks` (cut by `chunkLens`) against an arbitrary writer. -/
def connWriteW {σ : Type} (W : Writer σ) (s : Sender) (w : σ) : List Msg → ConnWriteResW σ
  | [] => { n := 0, err := .none, out := [], st := s, w := w, written := [] }
  | c :: cs =>
    match writeMessage s c with
    | .error e => { n := 0, err := .refused e, out := [], st := s, w := w, written := [] }
    | .ok s1 =>
      let r := flushW W s1 w
      if r.err then
        { n := r.nn, err := .timeout, out := r.out, st := r.st, w := r.w, written := [c] }
      else
        let t := connWriteW W r.st r.w cs
        { n := r.nn + t.n, err := t.err, out := r.out ++ t.out, st := t.st, w := t.w,
          written := c :: t.written }

/-- what the user of a `Conn` does on the sending side -/
inductive WOp where
  /-- `Conn.Write(b)`, `b` cut into these records -/
  | write (chunks : List Msg)
  /-- `Conn.Flush()` (the documented way to resume after a timeout) -/
  | flush
deriving Repr

/-- sending half of a `Conn` with ghost history: bytes the writer accepted, records
    `WriteMessage` accepted, the sum of all counts returned to the caller. -/
structure WTrace (σ : Type) where
  s : Sender
  w : σ
  wire : List WByte
  accepted : List Msg
  reported : Nat

def WTrace.start {σ : Type} (c : CipherState) (w : σ) : WTrace σ :=
  { s := { cs := c, hdr := [], body := [] }, w := w, wire := [], accepted := [], reported := 0 }

def WTrace.step {σ : Type} (W : Writer σ) (t : WTrace σ) : WOp → WTrace σ
  | .write chunks =>
    let r := connWriteW W t.s t.w chunks
    { s := r.st, w := r.w, wire := t.wire ++ r.out, accepted := t.accepted ++ r.written,
      reported := t.reported + r.n }
  | .flush =>
    let r := flushW W t.s t.w
    { s := r.st, w := r.w, wire := t.wire ++ r.out, accepted := t.accepted,
      reported := t.reported + r.nn }

def WTrace.run {σ : Type} (W : Writer σ) (t : WTrace σ) (ops : List WOp) : WTrace σ :=
  ops.foldl (WTrace.step W) t

/-- length of the canonical ciphertext of a record list -/
def encLen (ms : List Msg) : Nat := (ms.map (fun m => encHeaderSize + (m.len + macSize))).sum

/-- SPEC, independent of the code: the number of plaintext bytes whose ciphertext lies within the
    first `w` bytes of the canonical ciphertext stream of `ms` (header and MAC bytes do not
    count). -/
def plainCount : List Msg → Nat → Nat
  | [], _ => 0
  | m :: ms, w =>
    if encHeaderSize + (m.len + macSize) ≤ w then
      m.len + plainCount ms (w - (encHeaderSize + (m.len + macSize)))
    else min (w - encHeaderSize) m.len

/-! ## D. handshake acts as byte strings; `Dial` / `doHandshake` control flow -/

/-- symbolic length in bytes of a term -/
def Term.tlen : Term → Nat
  | .atom n => if n = 2 then 0 else 32
  | .pub _ => 33
  | .dh _ _ => 32
  | .hash _ _ => 32
  | .kdf1 _ _ => 32
  | .kdf2 _ _ => 32
  | .aead _ _ _ pt => pt.tlen + macSize

/-- one byte of a handshake stream: a literal, byte `off` of the compressed public key of `sk`,
    or byte `off` of the ciphertext `t`. -/
inductive HByte where
  | v (n : Nat)
  | kb (sk : Nat) (off : Nat)
  | cb (t : Term) (off : Nat)
deriving DecidableEq, Repr, Inhabited

def keyBytes (sk : Nat) : List HByte := (List.range pubKeySize).map (HByte.kb sk)
def ctBytes (t : Term) : List HByte := (List.range t.tlen).map (HByte.cb t)

/-- `btcec.ParsePubKey` on a 33-byte field: a key iff the field is the serialisation of one
    (compressed serialisation is canonical). -/
def parsePk (bs : List HByte) : PubField :=
  match bs with
  | .kb sk _ :: _ => if bs = keyBytes sk then .valid sk else .invalid
  | _ => .invalid

/-- a ciphertext field: a known ciphertext iff the field is exactly its bytes -/
def parseCt (bs : List HByte) : CtField :=
  match bs with
  | .cb t _ :: _ => if bs = ctBytes t then .ct t else .junk
  | _ => .junk

/-- the slicing of `RecvActOne` / `RecvActTwo`: `[0]`, `[1:34]`, `[34:]`; `val` gives the numeric
    value of a byte (fixed on literals, arbitrary on key / ciphertext bytes). -/
def parseAct12B (val : HByte → Nat) (bs : List HByte) : Act12 :=
  { ver := val (bs.headD (.v 0)),
    e := parsePk ((bs.drop 1).take pubKeySize),
    tag := parseCt (bs.drop (1 + pubKeySize)) }

/-- the slicing of `RecvActThree`: `[0]`, `[1:50]`, `[50:]` -/
def parseAct3B (val : HByte → Nat) (bs : List HByte) : Act3 :=
  { ver := val (bs.headD (.v 0)),
    c := parseCt ((bs.drop 1).take (pubKeySize + macSize)),
    tag := parseCt (bs.drop (1 + pubKeySize + macSize)) }

def pubFieldBytes : PubField → List HByte
  | .valid x => keyBytes x
  | .invalid => List.replicate pubKeySize (.v 0)

def ctFieldBytes (n : Nat) : CtField → List HByte
  | .ct t => ctBytes t
  | .junk => List.replicate n (.v 0)

/-- the bytes `GenActOne` / `GenActTwo` return -/
def serAct12 (a : Act12) : List HByte := .v a.ver :: (pubFieldBytes a.e ++ ctFieldBytes macSize a.tag)

/-- the bytes `GenActThree` returns -/
def serAct3 (a : Act3) : List HByte :=
  .v a.ver :: (ctFieldBytes (pubKeySize + macSize) a.c ++ ctFieldBytes macSize a.tag)

/-- what the environment answers to the I/O calls of a handshake, in the order they are made -/
inductive IOEv where
  /-- `io.ReadFull` returned the requested number of bytes (any content) -/
  | rd (bs : List HByte)
  /-- `io.ReadFull` failed: deadline (`handshakeReadTimeout`), EOF, reset -/
  | rdFail
  | wrOk
  | wrFail
deriving Repr

inductive HsFail where
  | io
  | hs (e : HErr)
  | noRemoteKey
  | banned
deriving DecidableEq, Repr

inductive ListenerOut where
  /-- `acceptConn`: session keys `(send, recv)`, remote static key, act two as sent -/
  | done (keys : CipherState × CipherState) (rpub : Nat) (a2 : Act12)
  | rejected (why : HsFail)
deriving Repr

/-- `Listener.doHandshake` as a function of the I/O results: read 50 bytes, `RecvActOne`,
    `GenActTwo`, write, read 66 bytes, `RecvActThree`, `RemotePub() != nil`, `shouldAccept`. -/
def listenerRun (val : HByte → Nat) (rs re : Nat) (shouldAccept : Nat → Bool) :
    List IOEv → ListenerOut
  | .rd b1 :: rest =>
    if b1.length ≠ actOneSize then .rejected .io      -- cannot happen: `io.ReadFull` into `[50]byte`
    else
    match recvActOne (HState.new false rs none) (parseAct12B val b1) with
    | (.error e, _) => .rejected (.hs e)
    | (.ok (), r1) =>
      match genActTwo r1 re with
      | (.error e, _) => .rejected (.hs e)
      | (.ok a2, r2) =>
        match rest with
        | .wrOk :: .rd b3 :: _ =>
          if b3.length ≠ actThreeSize then .rejected .io
          else
          match recvActThree r2 (parseAct3B val b3) with
          | (.error e, _) => .rejected (.hs e)
          | (.ok keys, r3) =>
            match r3.rs with
            | none => .rejected .noRemoteKey
            | some y => if shouldAccept y then .done keys y a2 else .rejected .banned
        | _ => .rejected .io
  | _ => .rejected .io

inductive DialOut where
  /-- `Dial` returns a `*Conn`: session keys `(send, recv)`, acts one and three as sent -/
  | done (keys : CipherState × CipherState) (a1 : Act12) (a3 : Act3)
  | failed (why : HsFail)
deriving Repr

/-- `Dial` as a function of the I/O results: `GenActOne`, write, read 50 bytes, `RecvActTwo`,
    `GenActThree`, write. -/
def dialRun (val : HByte → Nat) (is ie target : Nat) : List IOEv → DialOut :=
  fun evs =>
  match genActOne (HState.new true is (some target)) ie with
  | (.error e, _) => .failed (.hs e)
  | (.ok a1, i1) =>
    match evs with
    | .wrOk :: .rd b2 :: rest =>
      if b2.length ≠ actTwoSize then .failed .io      -- cannot happen: `io.ReadFull` into `[50]byte`
      else
      match recvActTwo i1 (parseAct12B val b2) with
      | (.error e, _) => .failed (.hs e)
      | (.ok (), i2) =>
        match genActThree i2 with
        | (.error e, _) => .failed (.hs e)
        | (.ok (a3, keys), _) =>
          match rest with
          | .wrOk :: _ => .done keys a1 a3
          | _ => .failed .io
    | _ => .failed .io

end LndModel.C11
