/-
C11 — model extension (round 7): the complete control flow of `Listener.doHandshake`
(listener.go) and `Dial` (conn.go) including the paths that `listenerRun` / `dialRun`
(ConnModel.lean) leave out: the three (resp. two) `SetReadDeadline` calls with their error
returns, the `shouldAccept` closure returning `(accepted, err)`, and the order in which the
failure paths are taken.  Field level (acts already sliced into version / key / tag), so that the
driver can replay it on every listener session of the harness; `listenerFlow_run` /
`dialFlow_run` tie it to the byte-level `listenerRun` / `dialRun` and through them to
`listener_done_auth` / `dial_done_auth`.

Core Lean only.
-/
import LndModel.C11.ConnModel

namespace LndModel.C11

/-- what the environment of one `doHandshake` call answers, in program order -/
structure LEnv where
  /-- `conn.SetReadDeadline(now + handshakeReadTimeout)` before act one succeeds -/
  dl1 : Bool
  /-- `io.ReadFull(conn, actOne[:])`: the 50 bytes as sliced by `RecvActOne`, `none` = error -/
  rd1 : Option Act12
  /-- `conn.Write(actTwo[:])` succeeds -/
  wr2 : Bool
  /-- second `SetReadDeadline` -/
  dl2 : Bool
  rd3 : Option Act3
  /-- `conn.SetReadDeadline(time.Time{})` -/
  dl3 : Bool
  /-- `shouldAccept(remoteKey)`: `(accepted, err != nil)` -/
  accept : Nat → Bool × Bool

inductive LFail where
  | deadline
  | io
  | hs (e : HErr)
  | noRemoteKey
  | banned
deriving DecidableEq, Repr

inductive LRes where
  /-- `acceptConn`: session keys `(send, recv)`, remote static key -/
  | done (keys : CipherState × CipherState) (rpub : Nat)
  | rejected (why : LFail)
deriving Repr

/-- `Listener.doHandshake`; second component: act two if it was handed to `conn.Write`. -/
def listenerFlow (rs re : Nat) (env : LEnv) : LRes × Option Act12 :=
  if !env.dl1 then (.rejected .deadline, none) else
  match env.rd1 with
  | none => (.rejected .io, none)
  | some a1 =>
    match recvActOne (HState.new false rs none) a1 with
    | (.error e, _) => (.rejected (.hs e), none)
    | (.ok (), r1) =>
      match genActTwo r1 re with
      | (.error e, _) => (.rejected (.hs e), none)
      | (.ok a2, r2) =>
        if !env.wr2 then (.rejected .io, some a2) else
        if !env.dl2 then (.rejected .deadline, some a2) else
        match env.rd3 with
        | none => (.rejected .io, some a2)
        | some a3 =>
          match recvActThree r2 a3 with
          | (.error e, _) => (.rejected (.hs e), some a2)
          | (.ok keys, r3) =>
            if !env.dl3 then (.rejected .deadline, some a2) else
            match r3.rs with
            | none => (.rejected .noRemoteKey, some a2)
            | some y =>
              -- `if !accepted { reject }`: the error value alone does not reject
              if (env.accept y).1 then (.done keys y, some a2) else (.rejected .banned, some a2)

/-- what the environment of one `Dial` answers (after the TCP dial succeeded) -/
structure DEnv where
  wr1 : Bool
  dl1 : Bool
  rd2 : Option Act12
  wr3 : Bool
  dl2 : Bool

inductive DRes where
  | done (keys : CipherState × CipherState)
  | failed (why : LFail)
deriving Repr

/-- `Dial`: `GenActOne`, write, deadline, read 50, `RecvActTwo`, `GenActThree`, write, deadline.
    Second / third component: the acts handed to `conn.Write`. -/
def dialFlow (is ie target : Nat) (env : DEnv) : DRes × Option Act12 × Option Act3 :=
  match genActOne (HState.new true is (some target)) ie with
  | (.error e, _) => (.failed (.hs e), none, none)
  | (.ok a1, i1) =>
    if !env.wr1 then (.failed .io, some a1, none) else
    if !env.dl1 then (.failed .deadline, some a1, none) else
    match env.rd2 with
    | none => (.failed .io, some a1, none)
    | some a2 =>
      match recvActTwo i1 a2 with
      | (.error e, _) => (.failed (.hs e), some a1, none)
      | (.ok (), i2) =>
        match genActThree i2 with
        | (.error e, _) => (.failed (.hs e), some a1, none)
        | (.ok (a3, keys), _) =>
          if !env.wr3 then (.failed .io, some a1, some a3) else
          if !env.dl2 then (.failed .deadline, some a1, some a3) else
          (.done keys, some a1, some a3)

/-- embedding of the byte-level failure reasons -/
def LFail.ofHs : HsFail → LFail
  | .io => .io
  | .hs e => .hs e
  | .noRemoteKey => .noRemoteKey
  | .banned => .banned

end LndModel.C11
