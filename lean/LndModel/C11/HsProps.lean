/-
C11 — round 5 theorems, part 2: the handshake at BYTE level and as a state machine.
`Listener.doHandshake` and `Dial` are functions of the I/O events (ConnModel.lean §D); the acts
are arbitrary lists of symbolic bytes (literals, bytes of any public key, bytes of any ciphertext
term, in any mixture: cut, spliced, reflected, replayed).  Parsing and the MAC checks are symbolic
equalities.
-/
import LndModel.C11.ConnModel
import LndModel.C11.Props

namespace LndModel.C11

theorem tlen_eq_zero (t : Term) (h : t.tlen = 0) : t = Term.empty := by
  cases t with
  | atom n =>
    simp only [Term.tlen] at h
    split at h
    · rename_i hn; subst hn; rfl
    · cases h
  | aead k n ad pt => simp [Term.tlen, macSize] at h
  | _ => simp [Term.tlen] at h

theorem ctBytes_length (t : Term) : (ctBytes t).length = t.tlen := by simp [ctBytes]
theorem keyBytes_length (x : Nat) : (keyBytes x).length = pubKeySize := by simp [keyBytes]

theorem parseCt_ct (bs : List HByte) (t : Term) (h : parseCt bs = .ct t) : bs = ctBytes t := by
  unfold parseCt at h
  split at h
  · split at h
    · rename_i heq; injection h with h; subst h; exact heq
    · cases h
  · cases h

theorem parsePk_valid (bs : List HByte) (x : Nat) (h : parsePk bs = .valid x) : bs = keyBytes x := by
  unfold parsePk at h
  split at h
  · split at h
    · rename_i heq; injection h with h; subst h; exact heq
    · cases h
  · cases h

theorem parseCt_ctBytes (t : Term) (h : 0 < t.tlen) : parseCt (ctBytes t) = .ct t := by
  obtain ⟨n, hn⟩ : ∃ n, t.tlen = n + 1 := ⟨t.tlen - 1, by omega⟩
  have hd : ctBytes t = HByte.cb t 0 :: (List.range n).map (fun i => HByte.cb t (i + 1)) := by
    unfold ctBytes
    rw [hn, List.range_succ_eq_map]
    simp [List.map_map, Function.comp_def]
  have : parseCt (HByte.cb t 0 :: (List.range n).map (fun i => HByte.cb t (i + 1))) = .ct t := by
    simp only [parseCt, ← hd, if_true]
  rw [hd]; exact this

theorem parsePk_keyBytes (x : Nat) : parsePk (keyBytes x) = .valid x := by
  have hd : keyBytes x = HByte.kb x 0 :: (List.range 32).map (fun i => HByte.kb x (i + 1)) := by
    unfold keyBytes pubKeySize
    rw [List.range_succ_eq_map]
    simp [List.map_map, Function.comp_def]
  have : parsePk (HByte.kb x 0 :: (List.range 32).map (fun i => HByte.kb x (i + 1))) = .valid x := by
    simp only [parsePk, ← hd, if_true]
  rw [hd]; exact this

/-- a 16-byte field can only hold the sealing of the empty string: the hypothesis `TagOk` of
    `responder_auth` / `initiator_auth` is a consequence of the byte layout. -/
theorem tagOk_of_bytes (bs : List HByte) (hl : bs.length = macSize) : TagOk (parseCt bs) := by
  intro k n ad pt h
  have := parseCt_ct _ _ h
  have hlen := congrArg List.length this
  rw [hl, ctBytes_length] at hlen
  simp only [Term.tlen] at hlen
  exact tlen_eq_zero pt (by omega)

/-- if the 50 bytes of an act one / two parse to a key and a ciphertext, then everything after
    the version byte IS the serialisation of that key followed by that ciphertext. -/
theorem parseAct12B_bytes (val : HByte → Nat) (bs : List HByte)
    (x : Nat) (t : Term) (he : (parseAct12B val bs).e = .valid x) (ht : (parseAct12B val bs).tag = .ct t) :
    bs.drop 1 = keyBytes x ++ ctBytes t := by
  have h1 := parsePk_valid _ _ he
  have h2 := parseCt_ct _ _ ht
  have : bs.drop 1 = (bs.drop 1).take pubKeySize ++ (bs.drop 1).drop pubKeySize :=
    (List.take_append_drop _ _).symm
  rw [this, h1, List.drop_drop, ← h2]

theorem parseAct3B_bytes (val : HByte → Nat) (bs : List HByte)
    (c t : Term) (hc : (parseAct3B val bs).c = .ct c) (ht : (parseAct3B val bs).tag = .ct t) :
    bs.drop 1 = ctBytes c ++ ctBytes t := by
  have h1 := parseCt_ct _ _ hc
  have h2 := parseCt_ct _ _ ht
  have : bs.drop 1 = (bs.drop 1).take (pubKeySize + macSize) ++ (bs.drop 1).drop (pubKeySize + macSize) :=
    (List.take_append_drop _ _).symm
  rw [this, h1, List.drop_drop, ← h2]
  congr 2

theorem genActOne_form (s : HState) (e : Nat) (a : Act12) (h : (genActOne s e).1 = .ok a) :
    ∃ t, a = ⟨handshakeVersion, .valid e, .ct t⟩ := by
  unfold genActOne at h
  dsimp only at h
  split at h
  · cases h
  · injection h with h; exact ⟨_, h.symm⟩

theorem genActTwo_form (s : HState) (e : Nat) (a : Act12) (h : (genActTwo s e).1 = .ok a) :
    ∃ t, a = ⟨handshakeVersion, .valid e, .ct t⟩ := by
  unfold genActTwo at h
  dsimp only at h
  split at h
  · cases h
  · injection h with h; exact ⟨_, h.symm⟩

theorem genActThree_form (s : HState) (a : Act3) (k : CipherState × CipherState)
    (h : (genActThree s).1 = .ok (a, k)) : ∃ c t, a = ⟨handshakeVersion, .ct c, .ct t⟩ := by
  unfold genActThree at h
  dsimp only at h
  split at h
  · cases h
  · injection h with h; injection h with h _; exact ⟨_, _, h.symm⟩

/-- **`Listener.doHandshake` completes ⇒ …**, for ALL sequences of I/O events and ALL byte strings
    in them.  If the listener holding static key `rs` (ephemeral `re`) hands out a connection, then
    * the events were, in this order: act one read in full, act two written, act three read in
      full (no timeout / EOF / write error in between; anything after is not looked at);
    * both version bytes have the value `HandshakeVersion`;
    * the ban closure accepted the remote key `y` it reports;
    * there are an ephemeral key `x` such that an initiator with static key `y`, ephemeral `x`
      that DIALLED `rs` (it knew the responder's static key: its act one is keyed with
      `ECDH(x, rs)` and binds `pub rs` in the transcript) produces act one and act three whose
      serialisations agree with the received 50 / 66 bytes in every position after the version
      byte, accepts the act two the listener sent, and derives exactly the mirrored session
      keys (its send = the listener's receive and vice versa). -/
theorem listener_done_auth (val : HByte → Nat) (rs re : Nat) (acc : Nat → Bool) (evs : List IOEv)
    (keys : CipherState × CipherState) (y : Nat) (a2 : Act12)
    (h : listenerRun val rs re acc evs = .done keys y a2) :
    ∃ b1 b3 rest x a1 a3,
      evs = .rd b1 :: .wrOk :: .rd b3 :: rest ∧
      b1.length = actOneSize ∧ b3.length = actThreeSize ∧
      val (b1.headD (.v 0)) = handshakeVersion ∧ val (b3.headD (.v 0)) = handshakeVersion ∧
      acc y = true ∧
      (genActOne (HState.new true y (some rs)) x).1 = .ok a1 ∧
      (recvActTwo (genActOne (HState.new true y (some rs)) x).2 a2).1 = .ok () ∧
      (genActThree (recvActTwo (genActOne (HState.new true y (some rs)) x).2 a2).2).1 =
        .ok (a3, keys.2, keys.1) ∧
      b1.drop 1 = (serAct12 a1).drop 1 ∧ b3.drop 1 = (serAct3 a3).drop 1 := by
  unfold listenerRun at h
  split at h
  rotate_left
  · cases h
  rename_i b1 rest
  split at h
  · cases h
  rename_i hl1
  have hl1 : b1.length = actOneSize := Decidable.not_not.mp hl1
  split at h
  · cases h
  rename_i r1 hr1
  split at h
  · cases h
  rename_i a2' r2 hr2
  split at h
  rotate_left
  · cases h
  rename_i b3 rest'
  split at h
  · cases h
  rename_i hl3
  have hl3 : b3.length = actThreeSize := Decidable.not_not.mp hl3
  split at h
  · cases h
  rename_i keys' r3 hr3
  split at h
  · cases h
  rename_i y' hy
  split at h
  rotate_left
  · cases h
  rename_i hacc
  injection h with hk hy' ha2
  subst hk hy' ha2
  have t1 : TagOk (parseAct12B val b1).tag := by
    apply tagOk_of_bytes
    simp only [List.length_drop, hl1, actOneSize, pubKeySize, macSize]
  have t3 : TagOk (parseAct3B val b3).tag := by
    apply tagOk_of_bytes
    simp only [List.length_drop, hl3, actThreeSize, pubKeySize, macSize]
  obtain ⟨x, y2, g1, g2, g3, g4⟩ := responder_auth rs re _ _ _ r1 r2 r3 _ hr1 hr2 hr3 t1 t3
  rw [hy] at g4
  injection g4 with g4
  subst g4
  obtain ⟨tg, hf1⟩ := genActOne_form _ _ _ g1
  obtain ⟨c3, tg3, hf3⟩ := genActThree_form _ _ _ g3
  refine ⟨b1, b3, _, x, _, _, rfl, hl1, hl3, ?_, ?_, hacc, g1, g2, g3, ?_, ?_⟩
  · have := congrArg Act12.ver hf1; exact this
  · have := congrArg Act3.ver hf3; exact this
  · have he := congrArg Act12.e hf1
    have ht := congrArg Act12.tag hf1
    rw [parseAct12B_bytes val b1 x tg he ht, hf1]
    rfl
  · have hc := congrArg Act3.c hf3
    have ht := congrArg Act3.tag hf3
    rw [parseAct3B_bytes val b3 c3 tg3 hc ht, hf3]
    rfl

/-- **`Dial` completes ⇒ …**, for ALL sequences of I/O events and ALL byte strings in them.  If
    `Dial` (static `is`, ephemeral `ie`, dialling `target`) returns a connection, then
    * the events were, in order: act one written, act two read in full, act three written;
    * the version byte of the received act two has the value `HandshakeVersion`;
    * there is an ephemeral key `z` such that the responder holding the DIALLED static key
      `target` accepts this initiator's act one and then generates an act two whose serialisation
      agrees with the 50 received bytes in every position after the version byte — and that
      responder accepts the act three `Dial` sent, reports `is` as the remote key, and derives
      exactly the mirrored session keys. -/
theorem dial_done_auth (val : HByte → Nat) (is ie target : Nat) (evs : List IOEv)
    (keys : CipherState × CipherState) (a1 : Act12) (a3 : Act3)
    (h : dialRun val is ie target evs = .done keys a1 a3) :
    ∃ b2 rest z a2,
      evs = .wrOk :: .rd b2 :: .wrOk :: rest ∧ b2.length = actTwoSize ∧
      val (b2.headD (.v 0)) = handshakeVersion ∧
      (genActOne (HState.new true is (some target)) ie).1 = .ok a1 ∧
      (recvActOne (HState.new false target none) a1).1 = .ok () ∧
      (genActTwo (recvActOne (HState.new false target none) a1).2 z).1 = .ok a2 ∧
      b2.drop 1 = (serAct12 a2).drop 1 ∧
      (recvActThree (genActTwo (recvActOne (HState.new false target none) a1).2 z).2 a3).1 =
        .ok (keys.2, keys.1) ∧
      (recvActThree (genActTwo (recvActOne (HState.new false target none) a1).2 z).2 a3).2.rs =
        some is := by
  unfold dialRun at h
  split at h
  · cases h
  rename_i a1' i1 hg1
  split at h
  rotate_left
  · cases h
  rename_i b2 rest
  split at h
  · cases h
  rename_i hl2
  have hl2 : b2.length = actTwoSize := Decidable.not_not.mp hl2
  split at h
  · cases h
  rename_i i2 hr2
  split at h
  · cases h
  rename_i a3' keys' i3 hg3
  split at h
  rotate_left
  · cases h
  rename_i rest'
  injection h with hk ha1 ha3
  subst hk ha1 ha3
  have t2 : TagOk (parseAct12B val b2).tag := by
    apply tagOk_of_bytes
    simp only [List.length_drop, hl2, actTwoSize, pubKeySize, macSize]
  obtain ⟨z, q1, q2⟩ := initiator_auth is ie target _ _ i1 i2 hg1 hr2 t2
  obtain ⟨tg, hf2⟩ := genActTwo_form _ _ _ q2
  have he := congrArg Act12.e hf2
  have ht := congrArg Act12.tag hf2
  have hb := parseAct12B_bytes val b2 z tg he ht
  refine ⟨b2, _, z, _, rfl, hl2, ?_, by rw [hg1], q1, q2, ?_, ?_, ?_⟩
  · exact congrArg Act12.ver hf2
  · rw [hb, hf2]; rfl
  all_goals
    -- the responder's view of act three: everything is a concrete term
    have q2' := q2
    simp [genActOne, HState.new, HState.mixHash, HState.mixKey, HState.encryptAndHash] at hg1
    obtain ⟨rfl, rfl⟩ := hg1
    simp [recvActOne, recvAct12, genActTwo, HState.new, HState.mixHash, HState.mixKey,
      HState.encryptAndHash, HState.decryptAndHash, hsOpen, handshakeVersion] at q2'
    rw [← q2'] at hr2
    simp [recvActTwo, recvAct12, HState.mixHash, HState.mixKey, HState.decryptAndHash, hsOpen,
      handshakeVersion, mkDh_comm] at hr2
    subst hr2
    simp [genActThree, HState.mixKey, HState.encryptAndHash, HState.split,
      CipherState.init] at hg3
    obtain ⟨⟨rfl, rfl⟩, _⟩ := hg3
    simp [recvActOne, recvAct12, genActTwo, recvActThree, HState.new, HState.mixHash, HState.mixKey,
      HState.encryptAndHash, HState.decryptAndHash, hsOpen, handshakeVersion, mkDh_comm, HState.split,
      CipherState.init]

/-! ### honest bytes are parsed back (the byte-level model accepts what the peers generate) -/

theorem parseAct12B_ser (val : HByte → Nat) (hval : ∀ n, val (.v n) = n) (v x : Nat) (t : Term)
    (ht : 0 < t.tlen) : parseAct12B val (serAct12 ⟨v, .valid x, .ct t⟩) = ⟨v, .valid x, .ct t⟩ := by
  have h1 : ((serAct12 ⟨v, .valid x, .ct t⟩).drop 1).take pubKeySize = keyBytes x := by
    simp only [serAct12, pubFieldBytes, ctFieldBytes, List.drop_succ_cons, List.drop_zero]
    rw [← keyBytes_length x]; exact List.take_left
  have h2 : (serAct12 ⟨v, .valid x, .ct t⟩).drop (1 + pubKeySize) = ctBytes t := by
    simp only [serAct12, pubFieldBytes, ctFieldBytes, Nat.add_comm 1, List.drop_succ_cons]
    rw [← keyBytes_length x]; exact List.drop_left
  simp only [parseAct12B, h1, h2, parsePk_keyBytes, parseCt_ctBytes t ht]
  simp [serAct12, hval]

theorem parseAct3B_ser (val : HByte → Nat) (hval : ∀ n, val (.v n) = n) (v : Nat) (c t : Term)
    (hc : c.tlen = pubKeySize + macSize) (ht : 0 < t.tlen) :
    parseAct3B val (serAct3 ⟨v, .ct c, .ct t⟩) = ⟨v, .ct c, .ct t⟩ := by
  have h1 : ((serAct3 ⟨v, .ct c, .ct t⟩).drop 1).take (pubKeySize + macSize) = ctBytes c := by
    simp only [serAct3, ctFieldBytes, List.drop_succ_cons, List.drop_zero]
    rw [← hc, ← ctBytes_length c]; exact List.take_left
  have h2 : (serAct3 ⟨v, .ct c, .ct t⟩).drop (1 + pubKeySize + macSize) = ctBytes t := by
    have e : 1 + pubKeySize + macSize = (pubKeySize + macSize) + 1 := by omega
    simp only [serAct3, ctFieldBytes, e, List.drop_succ_cons]
    rw [← hc, ← ctBytes_length c]; exact List.drop_left
  simp only [parseAct3B, h1, h2, parseCt_ctBytes t ht, parseCt_ctBytes c (by rw [hc]; simp [pubKeySize, macSize])]
  simp [serAct3, hval]

/-- the acts of an honest exchange and the initiator's session keys -/
def honestActs (is ie target rs re : Nat) : Option (Act12 × Act12 × Act3 × (CipherState × CipherState)) :=
  match genActOne (HState.new true is (some target)) ie with
  | (.error _, _) => none
  | (.ok a1, i1) =>
    match recvActOne (HState.new false rs none) a1 with
    | (.error _, _) => none
    | (.ok (), r1) =>
      match genActTwo r1 re with
      | (.error _, _) => none
      | (.ok a2, _) =>
        match recvActTwo i1 a2 with
        | (.error _, _) => none
        | (.ok (), i2) =>
          match genActThree i2 with
          | (.error _, _) => none
          | (.ok (a3, ki), _) => some (a1, a2, a3, ki)

/-- **honest session at byte level**: `Dial` (static `is`, ephemeral `ie`) against
    `doHandshake` (static `rs`, ephemeral `re`), every act delivered as generated, no I/O error,
    peer not banned, right key dialled: both complete, the listener reports `is`, and the session
    keys mirror. -/
theorem session_honest_bytes (val : HByte → Nat) (hval : ∀ n, val (.v n) = n)
    (is ie rs re : Nat) (acc : Nat → Bool) (hacc : acc is = true) :
    ∃ a1 a2 a3 ki, honestActs is ie rs rs re = some (a1, a2, a3, ki) ∧
      listenerRun val rs re acc [.rd (serAct12 a1), .wrOk, .rd (serAct3 a3)] = .done (ki.2, ki.1) is a2 ∧
      dialRun val is ie rs [.wrOk, .rd (serAct12 a2), .wrOk] = .done ki a1 a3 := by
  have hx : ∃ x, honestActs is ie rs rs re = some x := by
    simp [honestActs, genActOne, recvActOne, recvAct12, genActTwo, recvActTwo, genActThree,
      HState.new, HState.mixHash, HState.mixKey, HState.encryptAndHash, HState.decryptAndHash, hsOpen,
      handshakeVersion, mkDh_comm]
  obtain ⟨⟨a1, a2, a3, ki⟩, hx⟩ := hx
  refine ⟨a1, a2, a3, ki, hx, ?_, ?_⟩
  all_goals
    simp [honestActs, genActOne, recvActOne, recvAct12, genActTwo, recvActTwo, genActThree,
      HState.new, HState.mixHash, HState.mixKey, HState.encryptAndHash, HState.decryptAndHash, hsOpen,
      handshakeVersion, mkDh_comm] at hx
    obtain ⟨rfl, rfl, rfl, rfl⟩ := hx
  · simp only [listenerRun]
    rw [parseAct12B_ser val hval _ _ _ (by simp [Term.tlen, macSize]),
      parseAct3B_ser val hval _ _ _ (by simp [Term.tlen, macSize, pubKeySize]) (by simp [Term.tlen, macSize])]
    simp [serAct12, serAct3, pubFieldBytes, ctFieldBytes, keyBytes_length, ctBytes_length, Term.tlen,
      actOneSize, actThreeSize, pubKeySize, macSize, Term.empty, HState.new,
      recvActOne, recvAct12, genActTwo, recvActThree, HState.mixHash, HState.mixKey, HState.encryptAndHash,
      HState.decryptAndHash, hsOpen, handshakeVersion, mkDh_comm, hacc, HState.split, CipherState.init]
  · simp only [dialRun, genActOne, HState.new, HState.mixHash, HState.mixKey, HState.encryptAndHash]
    rw [parseAct12B_ser val hval _ _ _ (by simp [Term.tlen, macSize])]
    simp [serAct12, pubFieldBytes, ctFieldBytes, keyBytes_length, ctBytes_length, Term.tlen, actTwoSize,
      pubKeySize, macSize, Term.empty,
      recvActTwo, recvAct12, genActThree, HState.mixHash, HState.mixKey, HState.encryptAndHash,
      HState.decryptAndHash, hsOpen, handshakeVersion, mkDh_comm, HState.split, CipherState.init]

/-- wrong key at byte level: the listener rejects the honest act one of an initiator that dialled
    another key with a MAC error, whatever follows. -/
theorem session_wrong_key_bytes (val : HByte → Nat) (hval : ∀ n, val (.v n) = n)
    (is ie target rs re : Nat) (acc : Nat → Bool) (hne : target ≠ rs) (rest : List IOEv) :
    ∃ a1, (genActOne (HState.new true is (some target)) ie).1 = .ok a1 ∧
      listenerRun val rs re acc (.rd (serAct12 a1) :: rest) = .rejected (.hs .mac) := by
  refine ⟨_, by simp [genActOne, HState.new, HState.mixHash, HState.mixKey, HState.encryptAndHash]; rfl, ?_⟩
  simp only [listenerRun]
  rw [parseAct12B_ser val hval _ _ _ (by simp [Term.tlen, macSize])]
  simp [serAct12, pubFieldBytes, ctFieldBytes, keyBytes_length, ctBytes_length, Term.tlen,
    actOneSize, pubKeySize, macSize, Term.empty, HState.new,
    recvActOne, recvAct12, HState.mixHash, HState.mixKey,
    HState.decryptAndHash, hsOpen, handshakeVersion, hne]

/-- non-vacuity of `listener_done_auth` / `dial_done_auth`: the honest session completes -/
example : ∃ keys y a2 evs, listenerRun (fun b => match b with | .v n => n | _ => 1) 3 4 (fun _ => true) evs
    = .done keys y a2 := by
  obtain ⟨a1, a2, a3, ki, _, h, _⟩ :=
    session_honest_bytes (fun b => match b with | .v n => n | _ => 1) (fun _ => rfl) 1 2 3 4 (fun _ => true) rfl
  exact ⟨_, _, _, _, h⟩

end LndModel.C11
