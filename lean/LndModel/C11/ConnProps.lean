/-
C11 — round 5 theorems, part 1: the receiving half of `brontide.Conn` (`Read` with `readBuf`,
`ReadNextMessage`) over arbitrarily fragmented streams and arbitrary caller buffer sizes, and
the sending half (`Flush`, `Conn.Write`, `Conn.Flush`) against an arbitrary underlying writer.
Model: ConnModel.lean.
-/
import LndModel.C11.ConnModel
import LndModel.C11.Props

namespace LndModel.C11

/-! ## A. fragmented reads -/

/-- `io.ReadFull` over any fragmentation = the atomic `readFull` on the concatenation: same
    bytes, same remainder, same error class. -/
theorem readFullS_flatten (n : Nat) (fs : List (List WByte)) :
    readFull n fs.flatten = ((readFullS n fs).1, (readFullS n fs).2.flatten) := by
  obtain ⟨a, b⟩ := readFullF_flatten fs n
  by_cases h : n ≤ fs.flatten.length
  · obtain ⟨r, h1, h2⟩ := a h
    simp only [readFullS, h1, readFull, h, if_true, h2]
  · have hn := b (by omega)
    simp only [readFullS, hn, readFull, h, if_false]
    by_cases he : fs.flatten = [] <;> simp [he]

theorem readHeaderS_flatten (c : CipherState) (fs : List (List WByte)) :
    readHeader c fs.flatten =
      ((readHeaderS c fs).1, (readHeaderS c fs).2.1, (readHeaderS c fs).2.2.flatten) := by
  simp only [readHeader, readHeaderS, readFullS_flatten encHeaderSize fs]
  generalize readFullS encHeaderSize fs = x
  obtain ⟨r, rest⟩ := x
  cases r with
  | error e => rfl
  | ok bs =>
    simp only [decrypt]
    cases openBytes c Term.empty bs <;> rfl

theorem readBodyS_flatten (c : CipherState) (n : Nat) (fs : List (List WByte)) :
    readBody c n fs.flatten =
      ((readBodyS c n fs).1, (readBodyS c n fs).2.1, (readBodyS c n fs).2.2.flatten) := by
  simp only [readBody, readBodyS, readFullS_flatten n fs]
  generalize readFullS n fs = x
  obtain ⟨r, rest⟩ := x
  cases r with
  | error e => rfl
  | ok bs =>
    simp only [decrypt]
    cases openBytes c Term.empty bs <;> rfl

/-- `ReadMessage` (hence `ReadNextHeader` + `ReadNextBody`) is independent of how the underlying
    stream is fragmented: result, cipher state and unread remainder are those of the atomic model
    on the concatenated stream, for EVERY fragmentation. -/
theorem readMessageS_flatten (c : CipherState) (fs : List (List WByte)) :
    readMessage c fs.flatten =
      ((readMessageS c fs).1, (readMessageS c fs).2.1, (readMessageS c fs).2.2.flatten) := by
  simp only [readMessage, readMessageS, readHeaderS_flatten c fs]
  generalize readHeaderS c fs = x
  obtain ⟨r, c', rest⟩ := x
  cases r with
  | error e => rfl
  | ok n => exact readBodyS_flatten c' n rest

/-! ## A'. `Conn.Read` / `ReadNextMessage` -/

/-- the receiver is in step with the stream: the original byte stream is the canonical encoding
    of the messages handed out so far followed by what is still unread, and the receive cipher
    has made two uses per message. -/
def ConnR.Sync (c0 : CipherState) (w0 : List WByte) (s : ConnR) : Prop :=
  w0 = encodeAll c0 s.msgs ++ s.inb.flatten ∧ s.rcv = stateAt c0 (2 * s.msgs.length)

/-- byte conservation: everything handed to the caller followed by what sits in `readBuf` is the
    concatenation of the bodies of the messages decrypted so far, in order. -/
def ConnR.Bytes (s : ConnR) : Prop := s.outs ++ s.buf = s.msgs.flatMap msgBytes

theorem bufRead_inv (s : ConnR) (cap : Nat) (hb : s.Bytes) :
    (∀ e, (s.bufRead cap).1 ≠ .fail e) ∧ (s.bufRead cap).2.Bytes ∧
    (s.bufRead cap).2.msgs = s.msgs ∧ (s.bufRead cap).2.rcv = s.rcv ∧
    (s.bufRead cap).2.inb = s.inb := by
  unfold ConnR.bufRead
  by_cases h : s.buf = []
  · rw [if_pos h]
    refine ⟨?_, hb, rfl, rfl, rfl⟩
    intro e; split <;> simp
  · rw [if_neg h]
    refine ⟨by intro e; simp, ?_, rfl, rfl, rfl⟩
    unfold ConnR.Bytes at *
    simp only [List.append_assoc, List.take_append_drop]
    exact hb

theorem readMessageS_ok_sync (c0 : CipherState) (w0 : List WByte) (s : ConnR) (m : Msg)
    (c' : CipherState) (r : List (List WByte)) (hs : s.Sync c0 w0)
    (h : readMessageS s.rcv s.inb = (.ok m, c', r)) :
    w0 = encodeAll c0 (s.msgs ++ [m]) ++ r.flatten ∧
    c' = stateAt c0 (2 * (s.msgs ++ [m]).length) := by
  have hf := readMessageS_flatten s.rcv s.inb
  rw [h] at hf
  simp only at hf
  obtain ⟨hw, hc⟩ := readMessage_ok _ _ _ _ _ hf
  obtain ⟨h1, h2⟩ := hs
  refine ⟨?_, ?_⟩
  · rw [encodeAll_append, List.append_assoc, ← h2, ← hw]; exact h1
  · rw [hc, h2, ← stateAt_two, stateAt_add]
    congr 1
    simp only [List.length_append, List.length_cons, List.length_nil]; omega

/-- one operation: a failed `ReadMessage` hands out nothing and leaves `readBuf` and the history
    untouched (nothing of the record that failed authentication is ever delivered); any other
    outcome keeps the receiver in step and conserves bytes. -/
theorem ConnR.step_inv (c0 : CipherState) (w0 : List WByte) (s : ConnR) (op : COp)
    (hs : s.Sync c0 w0) (hb : s.Bytes) (hd : op = .nextMessage → s.buf = []) :
    (∀ e, (s.step op).1 = .fail e →
      (s.step op).2.msgs = s.msgs ∧ (s.step op).2.outs = s.outs ∧ (s.step op).2.buf = s.buf) ∧
    ((∀ e, (s.step op).1 ≠ .fail e) → (s.step op).2.Sync c0 w0 ∧ (s.step op).2.Bytes) := by
  cases op with
  | read cap =>
    simp only [ConnR.step]
    by_cases hbuf : s.buf = []
    · simp only [hbuf, if_true]
      cases hr : readMessageS s.rcv s.inb with
      | mk res rest =>
        obtain ⟨c', r⟩ := rest
        cases res with
        | error e =>
          dsimp only
          refine ⟨fun _ _ => ⟨rfl, rfl, hbuf.symm ▸ rfl⟩, fun h => absurd rfl (h e)⟩
        | ok m =>
          dsimp only
          obtain ⟨hw, hc⟩ := readMessageS_ok_sync c0 w0 s m c' r hs hr
          have hb' : ConnR.Bytes { s with rcv := c', inb := r, buf := msgBytes m, msgs := s.msgs ++ [m] } := by
            unfold ConnR.Bytes at *
            simp only [List.flatMap_append, List.flatMap_cons, List.flatMap_nil, List.append_nil]
            rw [← hb, hbuf, List.append_nil]
          obtain ⟨g1, g2, g3, g4, g5⟩ := bufRead_inv _ cap hb'
          refine ⟨fun e he => absurd he (g1 e), fun _ => ⟨⟨?_, ?_⟩, g2⟩⟩
          · rw [g3, g5]; exact hw
          · rw [g3, g4]; exact hc
    · simp only [hbuf, if_false]
      obtain ⟨g1, g2, g3, g4, g5⟩ := bufRead_inv s cap hb
      refine ⟨fun e he => absurd he (g1 e), fun _ => ⟨⟨?_, ?_⟩, g2⟩⟩
      · rw [g3, g5]; exact hs.1
      · rw [g3, g4]; exact hs.2
  | nextMessage =>
    have hbuf := hd rfl
    simp only [ConnR.step]
    cases hr : readMessageS s.rcv s.inb with
    | mk res rest =>
      obtain ⟨c', r⟩ := rest
      cases res with
      | error e =>
        dsimp only
        exact ⟨fun _ _ => ⟨rfl, rfl, rfl⟩, fun h => absurd rfl (h e)⟩
      | ok m =>
        dsimp only
        obtain ⟨hw, hc⟩ := readMessageS_ok_sync c0 w0 s m c' r hs hr
        refine ⟨fun e he => (by cases he), fun _ => ⟨⟨hw, hc⟩, ?_⟩⟩
        unfold ConnR.Bytes at *
        simp only [List.flatMap_append, List.flatMap_cons, List.flatMap_nil, List.append_nil]
        rw [← hb, hbuf, List.append_nil, List.append_nil]

/-- the run invariant, for every operation list -/
theorem ConnR.run_inv (c0 : CipherState) (w0 : List WByte) (ops : List COp) : ∀ (s : ConnR),
    s.Sync c0 w0 → s.Bytes → Disciplined s ops →
    (s.run ops).1.Bytes ∧ (∃ rest, w0 = encodeAll c0 (s.run ops).1.msgs ++ rest) ∧
    ((s.run ops).2 = none → (s.run ops).1.Sync c0 w0) := by
  induction ops with
  | nil => intro s hs hb _; exact ⟨hb, ⟨_, hs.1⟩, fun _ => hs⟩
  | cons op ops ih =>
    intro s hs hb hd
    have hd1 : op = .nextMessage → s.buf = [] := by
      intro h; subst h; exact hd.1
    have hd2 : Disciplined (s.step op).2 ops := by
      cases op with
      | read cap => exact hd
      | nextMessage => exact hd.2
    obtain ⟨f1, f2⟩ := ConnR.step_inv c0 w0 s op hs hb hd1
    simp only [ConnR.run]
    cases hst : s.step op with
    | mk res s' =>
      rw [hst] at f1 f2 hd2
      cases res with
      | fail e =>
        obtain ⟨a, b, c⟩ := f1 e rfl
        simp only
        refine ⟨?_, ⟨s.inb.flatten, by rw [a]; exact hs.1⟩, fun h => by cases h⟩
        unfold ConnR.Bytes at *
        rw [a, b, c]; exact hb
      | data bs =>
        obtain ⟨g1, g2⟩ := f2 (by intro e h; cases h)
        exact ih s' g1 g2 hd2
      | emptyEof =>
        obtain ⟨g1, g2⟩ := f2 (by intro e h; cases h)
        exact ih s' g1 g2 hd2

/-- a fresh `Conn` on cipher state `c` whose underlying connection will deliver `fs` -/
def ConnR.fresh (c : CipherState) (fs : List (List WByte)) : ConnR :=
  { rcv := c, inb := fs, buf := [] }

theorem disciplined_reads (caps : List Nat) : ∀ (s : ConnR), Disciplined s (caps.map COp.read) := by
  induction caps with
  | nil => intro s; trivial
  | cons c cs ih => intro s; exact ih _

/-- **Conn.Read reassembly.**  For EVERY fragmentation `fs` of the underlying stream and EVERY
    sequence of caller buffer sizes / `ReadNextMessage` calls (the latter only while `readBuf` is
    empty), run up to the first failed `ReadMessage`:
    * the bytes handed to the caller, followed by what is left in `readBuf`, are exactly the
      concatenation, in order, of the bodies of the messages decrypted so far — no loss, no
      duplication, no reordering, and no byte that does not come from an authenticated message;
    * those messages are exactly the ones whose canonical encoding (from the receive state the
      connection started with) is a prefix of the byte stream;
    * if no read failed, the receive cipher has made exactly two uses per message and the unread
      remainder of the stream is what follows that prefix. -/
theorem conn_read_stream (c : CipherState) (fs : List (List WByte)) (ops : List COp)
    (hd : Disciplined (ConnR.fresh c fs) ops) :
    ((ConnR.fresh c fs).run ops).1.outs ++ ((ConnR.fresh c fs).run ops).1.buf =
      ((ConnR.fresh c fs).run ops).1.msgs.flatMap msgBytes ∧
    (∃ rest, fs.flatten = encodeAll c ((ConnR.fresh c fs).run ops).1.msgs ++ rest) ∧
    (((ConnR.fresh c fs).run ops).2 = none →
      ((ConnR.fresh c fs).run ops).1.rcv = stateAt c (2 * ((ConnR.fresh c fs).run ops).1.msgs.length) ∧
      fs.flatten = encodeAll c ((ConnR.fresh c fs).run ops).1.msgs ++
        ((ConnR.fresh c fs).run ops).1.inb.flatten) := by
  have hs : (ConnR.fresh c fs).Sync c fs.flatten := by
    simp [ConnR.Sync, ConnR.fresh, encodeAll, stateAt]
  have hb : (ConnR.fresh c fs).Bytes := by simp [ConnR.Bytes, ConnR.fresh]
  obtain ⟨h1, h2, h3⟩ := ConnR.run_inv c fs.flatten ops _ hs hb hd
  exact ⟨h1, h2, fun h => ⟨(h3 h).2, (h3 h).1⟩⟩

theorem recvAll_encodeAll_append (ms : List Msg) : ∀ (c : CipherState) (rest : List WByte),
    recvAll ms.length c (encodeAll c ms ++ rest) = ms := by
  induction ms with
  | nil => intro c rest; rfl
  | cons m ms ih =>
    intro c rest
    simp only [List.length_cons, recvAll, encodeAll, List.append_assoc, readMessage_encode]
    rw [ih]

theorem flatMap_prefix {α β : Type} (f : α → List β) (a b : List α) (h : a <+: b) :
    a.flatMap f <+: b.flatMap f := by
  obtain ⟨t, rfl⟩ := h
  rw [List.flatMap_append]
  exact List.prefix_append _ _

/-- **what the caller of `Conn.Read` gets is a prefix of what the peer sent**, whatever reaches
    the receiver: for any byte stream satisfying `Authentic` (honest ciphertext cut, spliced,
    repeated, reordered, reflected, mixed with foreign bytes — but nothing sealed under this
    direction's keys by anybody but the sender), any fragmentation, any buffer sizes: the bytes
    delivered up to the first failed read are a prefix of the concatenation of the sent message
    bodies, and the decrypted messages a prefix of the sent messages. -/
theorem conn_read_prefix_of_sent (c : CipherState) (hc : c.WF) (sent : List Msg)
    (fs : List (List WByte)) (ha : Authentic c sent fs.flatten) (ops : List COp)
    (hd : Disciplined (ConnR.fresh c fs) ops) :
    ((ConnR.fresh c fs).run ops).1.msgs <+: sent ∧
    ((ConnR.fresh c fs).run ops).1.outs <+: sent.flatMap msgBytes := by
  obtain ⟨h1, ⟨rest, h2⟩, _⟩ := conn_read_stream c fs ops hd
  have hp : ((ConnR.fresh c fs).run ops).1.msgs <+: sent := by
    have := delivered_prefix c hc sent fs.flatten ha ((ConnR.fresh c fs).run ops).1.msgs.length
    rw [h2, recvAll_encodeAll_append] at this
    exact this
  refine ⟨hp, ?_⟩
  have := flatMap_prefix msgBytes _ _ hp
  rw [← h1] at this
  exact List.IsPrefix.trans (List.prefix_append _ _) this

/-! ## B. `Flush` / `Conn.Write` / `Conn.Flush` against an arbitrary writer -/

/-- `flush` of Model.lean (the function the correspondence check replays against the code) is
    `flushW` instantiated with the budget writer: the general theorems below apply to it. -/
theorem flush_eq_flushW (s : Sender) (b : Option Nat) (e : Bool) :
    (flush s b e).nn = (flushW (budgetWriter e) s b).nn ∧
    (flush s b e).err = (flushW (budgetWriter e) s b).err ∧
    (flush s b e).out = (flushW (budgetWriter e) s b).out ∧
    (flush s b e).st = (flushW (budgetWriter e) s b).st ∧
    (flush s b e).budget = (flushW (budgetWriter e) s b).w := by
  unfold flush flushW budgetWriter
  dsimp only
  generalize (if s.hdr = [] then ((0 : Nat), false, b) else wwrite b e s.hdr.length) = r1
  obtain ⟨n1, e1, b1⟩ := r1
  cases e1
  · by_cases hb : s.body = []
    · simp [hb]
    · simp [hb]
  · simp

section writer
variable {σ : Type} (W : Writer σ)

/-- one `Flush`, any writer: a prefix of `hdr ++ body` goes out, the rest stays, the cipher state
    is untouched. -/
theorem flushW_conserve (s : Sender) (w : σ) :
    (flushW W s w).out ++ ((flushW W s w).st.hdr ++ (flushW W s w).st.body) = s.hdr ++ s.body ∧
    (flushW W s w).st.cs = s.cs := by
  unfold flushW
  by_cases hh : s.hdr = []
  · simp only [hh, if_true, List.take_nil, List.drop_nil]
    by_cases hb : s.body = []
    · simp [hb]
    · simp [hb, List.take_append_drop]
  · simp only [hh, if_false]
    by_cases he : (W.write w s.hdr.length).2.1 = true
    · simp only [he, if_true]
      rw [← List.append_assoc, List.take_append_drop]
      exact ⟨rfl, trivial⟩
    · have he' : (W.write w s.hdr.length).2.1 = false := by simpa using he
      have hn := W.full _ _ he'
      by_cases hb : s.body = []
      · simp [he', hb, List.take_append_drop]
      · simp [he', hb, hn, List.take_append_drop]

/-- the count one `Flush` returns = payload (non-MAC) body bytes that left the buffer. -/
theorem flushW_count (s : Sender) (w : σ) :
    (flushW W s w).nn + ((flushW W s w).st.body.length - macSize) = s.body.length - macSize := by
  unfold flushW
  generalize (if s.hdr = [] then ((0 : Nat), false, w) else W.write w s.hdr.length) = r1
  obtain ⟨n1, e1, b1⟩ := r1
  cases e1 with
  | true => simp
  | false =>
    by_cases hb : s.body = []
    · simp [hb]
    · have hle := W.le b1 s.body.length
      simp only [hb, if_false, Bool.false_eq_true]
      generalize W.write b1 s.body.length = r2 at hle ⊢
      obtain ⟨n2, e2, b2⟩ := r2
      simp only [List.length_drop, flushCount, macSize] at *
      split
      · omega
      · split <;> omega

/-- shape of the pending buffers after one `Flush`: both only shrink, and the body is touched
    only after the header is completely out (needs the io.Writer contract). -/
theorem flushW_shape (s : Sender) (w : σ) :
    (flushW W s w).st.hdr.length ≤ s.hdr.length ∧
    (flushW W s w).st.body.length ≤ s.body.length ∧
    ((flushW W s w).st.hdr ≠ [] → (flushW W s w).st.body = s.body) ∧
    ((flushW W s w).err = false → (flushW W s w).st.hdr = [] ∧ (flushW W s w).st.body = []) := by
  unfold flushW
  by_cases hh : s.hdr = []
  · simp only [hh, if_true, List.take_nil, List.drop_nil]
    by_cases hb : s.body = []
    · simp [hb]
    · simp only [hb, if_false, Bool.false_eq_true]
      refine ⟨by simp, by simp, by simp, ?_⟩
      intro he
      have := W.full _ _ he
      simp [this]
  · simp only [hh, if_false]
    by_cases he : (W.write w s.hdr.length).2.1 = true
    · simp [he]
    · have he' : (W.write w s.hdr.length).2.1 = false := by simpa using he
      have hn := W.full _ _ he'
      by_cases hb : s.body = []
      · simp [he', hb, hn]
      · simp only [he', hb, if_false, Bool.false_eq_true, hn, List.drop_length]
        refine ⟨by simp, by simp, by simp, ?_⟩
        intro he2
        have := W.full _ _ he2
        simp [this]

/-- invariant of the sending half, over raw components: cipher schedule, canonical-stream
    prefix, shape of the pending record, count accounting. -/
def WI (c0 : CipherState) (s : Sender) (wire : List WByte) (acc : List Msg) (rep : Nat) : Prop :=
  s.cs = stateAt c0 (2 * acc.length) ∧
  wire ++ (s.hdr ++ s.body) = encodeAll c0 acc ∧
  ((acc = [] ∧ s.hdr = [] ∧ s.body = []) ∨
   (∃ ms m, acc = ms ++ [m] ∧ s.hdr.length ≤ encHeaderSize ∧ s.body.length ≤ m.len + macSize ∧
      (s.hdr ≠ [] → s.body.length = m.len + macSize))) ∧
  rep + (s.body.length - macSize) = (acc.map (·.len)).sum

theorem WI_write (c0 : CipherState) (s s1 : Sender) (wire : List WByte) (acc : List Msg) (rep : Nat)
    (m : Msg) (h : WI c0 s wire acc rep) (hw : writeMessage s m = .ok s1) :
    WI c0 s1 wire (acc ++ [m]) rep := by
  obtain ⟨h1, h2, _, h4⟩ := h
  obtain ⟨_, hh, hb, hs1⟩ := writeMessage_inv s s1 m hw
  subst hs1
  rw [hh, hb] at h2
  rw [hb] at h4
  refine ⟨?_, ?_, Or.inr ⟨acc, m, rfl, ?_, ?_, ?_⟩, ?_⟩
  · simp only [h1, List.length_append, List.length_cons, List.length_nil]
    show (stateAt c0 (2 * acc.length)).advance.advance = _
    rw [← stateAt_two, stateAt_add]; congr 1
  · simp only [encodeAll_append, ← h2, h1, List.append_nil]
    rfl
  · simp [render_length, seal_pt, lenMsg, encHeaderSize]
  · simp [render_length, seal_pt]
  · intro _; simp [render_length, seal_pt]
  · simp only [List.map_append, List.sum_append, List.map_cons, List.map_nil, List.sum_cons,
      List.sum_nil, render_length, seal_pt]
    simp only [List.length_nil] at h4
    omega

theorem WI_flush (c0 : CipherState) (s : Sender) (w : σ) (wire : List WByte) (acc : List Msg)
    (rep : Nat) (h : WI c0 s wire acc rep) :
    WI c0 (flushW W s w).st (wire ++ (flushW W s w).out) acc (rep + (flushW W s w).nn) := by
  obtain ⟨h1, h2, h3, h4⟩ := h
  obtain ⟨g1, g2⟩ := flushW_conserve W s w
  have g3 := flushW_count W s w
  obtain ⟨s1, s2, s3, _⟩ := flushW_shape W s w
  refine ⟨by rw [g2]; exact h1, by rw [List.append_assoc, g1]; exact h2, ?_, by omega⟩
  rcases h3 with ⟨a, b, c⟩ | ⟨ms, m, a, b, c, d⟩
  · left
    rw [b] at s1; rw [c] at s2
    exact ⟨a, List.eq_nil_of_length_eq_zero (by simpa using s1),
      List.eq_nil_of_length_eq_zero (by simpa using s2)⟩
  · right
    refine ⟨ms, m, a, by omega, by omega, ?_⟩
    intro hne
    rw [s3 hne]
    apply d
    intro h0
    rw [h0] at s1
    exact hne (List.eq_nil_of_length_eq_zero (by simpa using s1))

theorem WI_connWrite (c0 : CipherState) (chunks : List Msg) : ∀ (s : Sender) (w : σ)
    (wire : List WByte) (acc : List Msg) (rep : Nat), WI c0 s wire acc rep →
    WI c0 (connWriteW W s w chunks).st (wire ++ (connWriteW W s w chunks).out)
      (acc ++ (connWriteW W s w chunks).written) (rep + (connWriteW W s w chunks).n) := by
  induction chunks with
  | nil => intro s w wire acc rep h; simpa [connWriteW] using h
  | cons c cs ih =>
    intro s w wire acc rep h
    simp only [connWriteW]
    cases hw : writeMessage s c with
    | error e => simpa using h
    | ok s1 =>
      have h1 := WI_write c0 s s1 wire acc rep c h hw
      have h2 := WI_flush W c0 s1 w wire (acc ++ [c]) rep h1
      dsimp only
      by_cases he : (flushW W s1 w).err = true
      · simp only [he, if_true]
        exact h2
      · have he' : (flushW W s1 w).err = false := by simpa using he
        simp only [he', Bool.false_eq_true, if_false]
        have h3 := ih _ (flushW W s1 w).w _ _ _ h2
        simpa [List.append_assoc, Nat.add_assoc] using h3

theorem encodeAll_length (ms : List Msg) : ∀ (c : CipherState), (encodeAll c ms).length = encLen ms := by
  induction ms with
  | nil => intro c; rfl
  | cons m ms ih =>
    intro c
    simp only [encodeAll, List.length_append, encodeMsg_length, ih, encLen, List.map_cons, List.sum_cons]

theorem plainCount_append_last (m : Msg) (k : Nat) (hk : k ≤ encHeaderSize + (m.len + macSize)) :
    ∀ (ms : List Msg), plainCount (ms ++ [m]) (encLen ms + k) =
      (ms.map (·.len)).sum + min (k - encHeaderSize) m.len := by
  intro ms
  induction ms with
  | nil =>
    simp only [List.nil_append, encLen, List.map_nil, List.sum_nil, Nat.zero_add, plainCount]
    split
    · simp only [encHeaderSize, lengthHeaderSize, macSize] at *; omega
    · rfl
  | cons m0 ms ih =>
    have e : encLen (m0 :: ms) = encHeaderSize + (m0.len + macSize) + encLen ms := by
      simp [encLen]
    simp only [List.cons_append, plainCount, e, List.map_cons, List.sum_cons]
    rw [if_pos (by omega)]
    have : encHeaderSize + (m0.len + macSize) + encLen ms + k - (encHeaderSize + (m0.len + macSize))
        = encLen ms + k := by omega
    rw [this, ih]; omega

/-- from the invariant: the total reported to the caller is the SPEC count of plaintext bytes
    inside the ciphertext the writer has accepted. -/
theorem WI_plain (c0 : CipherState) (s : Sender) (wire : List WByte) (acc : List Msg) (rep : Nat)
    (h : WI c0 s wire acc rep) : rep = plainCount acc wire.length := by
  obtain ⟨_, h2, h3, h4⟩ := h
  have hl := congrArg List.length h2
  simp only [List.length_append, encodeAll_length] at hl
  rcases h3 with ⟨a, b, c⟩ | ⟨ms, m, a, b, c, d⟩
  · subst a
    rw [c] at h4
    simp only [encLen, List.map_nil, List.sum_nil, b, c, List.length_nil] at hl h4
    simp only [plainCount]; omega
  · subst a
    have e : encLen (ms ++ [m]) = encLen ms + (encHeaderSize + (m.len + macSize)) := by
      simp [encLen]
    rw [e] at hl
    simp only [List.map_append, List.sum_append, List.map_cons, List.map_nil, List.sum_cons,
      List.sum_nil] at h4
    have hk : wire.length = encLen ms + (encHeaderSize + (m.len + macSize) - s.hdr.length - s.body.length) := by
      omega
    rw [hk, plainCount_append_last m _ (by omega) ms]
    by_cases hh : s.hdr = []
    · simp only [hh, List.length_nil] at *
      simp only [encHeaderSize, lengthHeaderSize, macSize] at *
      omega
    · have := d hh
      have hpos : 0 < s.hdr.length := List.length_pos_iff.mpr hh
      simp only [encHeaderSize, lengthHeaderSize, macSize] at *
      omega

/-- **Conn.Write / Conn.Flush accounting over ALL writers and ALL operation sequences.**  Let the
    user of a `Conn` perform any sequence of `Write(b)` (any sizes, chunked or not) and `Flush()`
    calls against ANY underlying writer obeying the io.Writer contract — any pattern of short
    writes and temporary errors, including `Write` calls refused because the previous record is
    not flushed.  Then at every point
    * the bytes the writer accepted, followed by the bytes still buffered, are the canonical
      ciphertext stream of the records `WriteMessage` accepted: the writer holds a PREFIX of the
      canonical stream, nothing duplicated, dropped or reordered;
    * the sum of all counts returned to the caller equals `plainCount`, the number of plaintext
      bytes whose ciphertext has been accepted by the writer (headers and MACs not counted);
    * the send cipher has made exactly two uses per accepted record. -/
theorem conn_write_accounting (c : CipherState) (w0 : σ) (ops : List WOp) :
    let t := WTrace.run W (WTrace.start c w0) ops
    t.wire ++ (t.s.hdr ++ t.s.body) = encodeAll c t.accepted ∧
    t.wire <+: encodeAll c t.accepted ∧
    t.reported = plainCount t.accepted t.wire.length ∧
    t.reported + (t.s.body.length - macSize) = (t.accepted.map (·.len)).sum ∧
    t.s.cs = stateAt c (2 * t.accepted.length) := by
  have key : ∀ (ops : List WOp) (t : WTrace σ), WI c t.s t.wire t.accepted t.reported →
      WI c (WTrace.run W t ops).s (WTrace.run W t ops).wire (WTrace.run W t ops).accepted
        (WTrace.run W t ops).reported := by
    intro ops
    induction ops with
    | nil => intro t h; exact h
    | cons op ops ih =>
      intro t h
      simp only [WTrace.run, List.foldl_cons]
      apply ih
      cases op with
      | write chunks => exact WI_connWrite W c chunks _ _ _ _ _ h
      | flush => exact WI_flush W c t.s t.w t.wire t.accepted t.reported h
  have h0 : WI c (WTrace.start c w0).s (WTrace.start c w0).wire (WTrace.start c w0).accepted
      (WTrace.start c w0).reported := by
    simp [WI, WTrace.start, stateAt, encodeAll]
  have h := key ops _ h0
  have hp := WI_plain c _ _ _ _ h
  obtain ⟨h1, h2, _, h4⟩ := h
  exact ⟨h2, ⟨_, h2⟩, hp, h4, h1⟩

/-- one `Conn.Write` on a connection with nothing pending, any writer: the count returned is the
    SPEC count of plaintext bytes on the wire, the wire is a prefix of the canonical encoding of
    the records, and without an error everything was written. -/
theorem conn_write_single (s : Sender) (hh : s.hdr = []) (hb : s.body = []) (w : σ)
    (chunks : List Msg) :
    (connWriteW W s w chunks).n =
      plainCount (connWriteW W s w chunks).written (connWriteW W s w chunks).out.length ∧
    (connWriteW W s w chunks).out <+: encodeAll s.cs (connWriteW W s w chunks).written ∧
    ((connWriteW W s w chunks).err = .none →
      (connWriteW W s w chunks).written = chunks ∧
      (connWriteW W s w chunks).out = encodeAll s.cs chunks ∧
      (connWriteW W s w chunks).n = (chunks.map (·.len)).sum) := by
  have h0 : WI s.cs s [] [] 0 := by simp [WI, stateAt, encodeAll, hh, hb]
  have h := WI_connWrite W s.cs chunks s w [] [] 0 h0
  simp only [List.nil_append, Nat.zero_add] at h
  have hp := WI_plain _ _ _ _ _ h
  obtain ⟨_, h2, _, h4⟩ := h
  refine ⟨hp, ⟨_, h2⟩, ?_⟩
  intro he
  have clean : ∀ (chunks : List Msg) (s : Sender) (w : σ), (connWriteW W s w chunks).err = .none →
      (connWriteW W s w chunks).written = chunks ∧
      ((connWriteW W s w chunks).st.hdr = s.hdr ∧ (connWriteW W s w chunks).st.body = s.body ∨
       (connWriteW W s w chunks).st.hdr = [] ∧ (connWriteW W s w chunks).st.body = []) := by
    intro chunks
    induction chunks with
    | nil => intro s w _; exact ⟨rfl, Or.inl ⟨rfl, rfl⟩⟩
    | cons c cs ih =>
      intro s w he
      simp only [connWriteW] at he ⊢
      cases hw : writeMessage s c with
      | error e => rw [hw] at he; simp at he
      | ok s1 =>
        rw [hw] at he
        dsimp only at he ⊢
        by_cases hE : (flushW W s1 w).err = true
        · simp [hE] at he
        · have hE' : (flushW W s1 w).err = false := by simpa using hE
          simp only [hE', Bool.false_eq_true, if_false] at he ⊢
          obtain ⟨a, b⟩ := ih _ _ he
          obtain ⟨_, _, _, s4⟩ := flushW_shape W s1 w
          obtain ⟨f1, f2⟩ := s4 hE'
          refine ⟨by rw [a], Or.inr ?_⟩
          rcases b with ⟨b1, b2⟩ | b
          · exact ⟨by rw [b1, f1], by rw [b2, f2]⟩
          · exact b
  obtain ⟨a, b⟩ := clean chunks s w he
  have hclean : (connWriteW W s w chunks).st.hdr = [] ∧ (connWriteW W s w chunks).st.body = [] := by
    rcases b with ⟨b1, b2⟩ | b
    · exact ⟨by rw [b1, hh], by rw [b2, hb]⟩
    · exact b
  rw [hclean.1, hclean.2, a] at h2
  rw [hclean.2, a] at h4
  exact ⟨a, by simpa using h2, by simpa using h4⟩

end writer

/-- non-vacuity / the statement instantiated: a script writer that takes 5 bytes then times out,
    then 30 bytes with an error although complete, then everything. -/
example :
    let t := WTrace.run scriptWriter (WTrace.start (CipherState.init (.atom 7) (.atom 8))
      [(5, false), (30, true)]) [.write [⟨40, 1⟩], .flush, .write [⟨3, 2⟩], .flush, .write [⟨3, 2⟩]]
    t.reported = 43 ∧ t.wire.length = (18 + 56) + (18 + 19) ∧ t.accepted.map (·.len) = [40, 3] := by
  decide

/-! ## A''. nothing is lost: an honest stream is delivered completely -/

theorem readMessageS_encode (c : CipherState) (m : Msg) (rest : List WByte) (fs : List (List WByte))
    (h : fs.flatten = encodeMsg c m ++ rest) :
    ∃ r, readMessageS c fs = (.ok m, c.advance.advance, r) ∧ r.flatten = rest := by
  have hf := readMessageS_flatten c fs
  rw [h, readMessage_encode] at hf
  cases hx : readMessageS c fs with
  | mk a b =>
    obtain ⟨b1, b2⟩ := b
    rw [hx] at hf
    simp only [Prod.mk.injEq] at hf
    exact ⟨b2, by rw [hf.1, hf.2.1], hf.2.2.symm⟩

theorem readMessageS_nil (c : CipherState) (fs : List (List WByte)) (h : fs.flatten = []) :
    ∃ c' r, readMessageS c fs = (.error .eof, c', r) := by
  have hf := readMessageS_flatten c fs
  rw [h] at hf
  have h0 : readMessage c [] = (.error .eof, c, []) := by
    simp [readMessage, readHeader, readFull, encHeaderSize, lengthHeaderSize, macSize]
  rw [h0] at hf
  cases hx : readMessageS c fs with
  | mk a b =>
    obtain ⟨b1, b2⟩ := b
    rw [hx] at hf
    simp only [Prod.mk.injEq] at hf
    exact ⟨b1, b2, by rw [hf.1]⟩

theorem msgBytes_length (m : Msg) : (msgBytes m).length = m.len := by simp [msgBytes]

theorem conn_read_complete_aux (caps : List Nat) : ∀ (s : ConnR) (rem : List Msg),
    (∀ k ∈ caps, 0 < k) → s.inb.flatten = encodeAll s.rcv rem →
    s.buf.length + (rem.map (·.len + 1)).sum < caps.length →
    (s.run (caps.map COp.read)).1.outs = s.outs ++ s.buf ++ rem.flatMap msgBytes ∧
    (s.run (caps.map COp.read)).2 = some .eof := by
  induction caps with
  | nil => intro s rem _ _ h; simp at h
  | cons cap caps ih =>
    intro s rem hpos hin hmu
    have hcap : 0 < cap := hpos cap (by simp)
    have hpos' : ∀ k ∈ caps, 0 < k := fun k hk => hpos k (by simp [hk])
    simp only [List.map_cons, ConnR.run, ConnR.step]
    by_cases hb : s.buf = []
    · simp only [hb, if_true]
      cases rem with
      | nil =>
        obtain ⟨c', r, hr⟩ := readMessageS_nil s.rcv s.inb (by simpa [encodeAll] using hin)
        simp [hr]
      | cons m rem' =>
        obtain ⟨r, hr, hrf⟩ := readMessageS_encode s.rcv m _ s.inb (by simpa [encodeAll] using hin)
        simp only [hr, ConnR.bufRead]
        by_cases hm : msgBytes m = []
        · have hcap' : cap ≠ 0 := by omega
          simp only [hm, if_true, hcap', if_false]
          have hlen : m.len = 0 := by rw [← msgBytes_length, hm]; rfl
          have := ih ⟨s.rcv.advance.advance, r, [], s.msgs ++ [m], s.outs⟩
            rem' hpos' hrf (by
              simp only [List.length_nil, List.map_cons, List.sum_cons, List.length_cons, hb] at hmu ⊢
              omega)
          simp only [List.append_nil] at this
          simp only [List.flatMap_cons, hm, List.nil_append, List.append_nil]
          exact this
        · simp only [hm, if_false]
          have hl := msgBytes_length m
          have hpos_m : 0 < (msgBytes m).length := List.length_pos_iff.mpr hm
          have := ih ⟨s.rcv.advance.advance, r, (msgBytes m).drop cap, s.msgs ++ [m],
              s.outs ++ (msgBytes m).take cap⟩
            rem' hpos' hrf (by
              simp only [List.length_drop, List.map_cons, List.sum_cons, List.length_cons, hb,
                List.length_nil] at hmu ⊢
              omega)
          simp only [List.flatMap_cons, List.append_nil]
          rw [this.1, this.2]
          simp only [List.append_assoc, and_true]
          rw [← List.append_assoc ((msgBytes m).take cap), List.take_append_drop]
    · simp only [hb, if_false, ConnR.bufRead]
      have hposb : 0 < s.buf.length := List.length_pos_iff.mpr hb
      have := ih ⟨s.rcv, s.inb, s.buf.drop cap, s.msgs, s.outs ++ s.buf.take cap⟩ rem hpos' hin (by
        simp only [List.length_drop, List.length_cons] at hmu ⊢
        omega)
      rw [this.1, this.2]
      simp only [List.append_assoc, and_true]
      rw [← List.append_assoc (s.buf.take cap), List.take_append_drop]

/-- **no loss**: an honest stream — the canonical encoding of ANY message list (any sizes, also
    empty messages, across any number of rotations) — cut into ANY fragments and read through
    `Conn.Read` with ANY positive buffer sizes is handed to the caller completely and in order;
    once enough reads have been made (each read delivers at least one byte or consumes an empty
    message) the next one reports `io.EOF` of the exhausted stream. -/
theorem conn_read_complete (c : CipherState) (ms : List Msg) (fs : List (List WByte))
    (hfs : fs.flatten = encodeAll c ms) (caps : List Nat) (hpos : ∀ k ∈ caps, 0 < k)
    (hlen : (ms.map (·.len + 1)).sum < caps.length) :
    ((ConnR.fresh c fs).run (caps.map COp.read)).1.outs = ms.flatMap msgBytes ∧
    ((ConnR.fresh c fs).run (caps.map COp.read)).2 = some .eof := by
  have := conn_read_complete_aux caps (ConnR.fresh c fs) ms hpos hfs (by simpa [ConnR.fresh] using hlen)
  simpa [ConnR.fresh] using this

/-- non-vacuity, and the reason for the discipline hypothesis: `ReadNextMessage` while `readBuf`
    still holds the tail of the previous message hands the NEXT message out first.  (Not a
    violation of the property: lnd's peer reads only through `ReadNextHeader`/`ReadNextBody`.) -/
example :
    let c := CipherState.init (.atom 1) (.atom 2)
    let r := (ConnR.fresh c [encodeAll c [⟨2, 7⟩, ⟨1, 9⟩]]).run [.read 1, .nextMessage, .read 5]
    r.1.outs.map (fun b => (b.msg.val, b.off)) = [(7, 0), (9, 0), (7, 1)] ∧ r.2 = none := by
  decide
