/-
C12 — theorems about the persisted confirmed commit set and the restart of a pending-close
channel (model: `Persist.lean`).

* `decCommitSet_encCommitSet` — byte-level round trip of `encodeCommitSet` / `decodeCommitSet`
  for EVERY well-formed commit set (any number < 256 of sets, any number < 65536 of HTLCs per
  set, every field value in its Go type's range).
* `restart_pending_close_eq_handleClose` — a channel whose close handler persisted its data and
  stopped before the state was committed is resolved after the restart EXACTLY as the
  uninterrupted handler would have resolved it: same state, same upstream fails, same
  finalisations, same resolvers.
* corollaries `restart_exactly_one_resolver` / `restart_no_failback_with_output`.
-/
import LndModel.C12.Persist
import LndModel.C12.Props

namespace LndModel.C12.Persist

/-! ### integers -/

theorem beBytes_length (k n : Nat) : (beBytes k n).length = k := by
  induction k with
  | zero => rfl
  | succ k ih => simp [beBytes, ih]

theorem beValAcc_beBytes (k n acc : Nat) :
    beValAcc acc (beBytes k n) = acc * 256 ^ k + n % 256 ^ k := by
  induction k generalizing acc with
  | zero => simp [beBytes, beValAcc, Nat.mod_one]
  | succ k ih =>
    simp only [beBytes, beValAcc, ih]
    have h := Nat.mod_mul (x := n) (a := 256 ^ k) (b := 256)
    rw [Nat.pow_succ, h, Nat.add_mul, Nat.mul_assoc, Nat.mul_comm 256 (256 ^ k),
      Nat.mul_comm (n / 256 ^ k % 256) (256 ^ k)]
    omega

theorem beVal_beBytes (k n : Nat) (h : n < 256 ^ k) : beVal (beBytes k n) = n := by
  simp [beVal, beValAcc_beBytes, Nat.mod_eq_of_lt h]

theorem leVal_leBytes (k n : Nat) (h : n < 256 ^ k) : leVal (leBytes k n) = n := by
  simp [leVal, leBytes, beVal_beBytes k n h]

theorem leBytes_length (k n : Nat) : (leBytes k n).length = k := by
  simp [leBytes, beBytes_length]

theorem ofU32_toU32 (i : Int) (h1 : -2147483648 ≤ i) (h2 : i < 2147483648) : ofU32 (toU32 i) = i := by
  unfold ofU32 toU32
  split <;> omega

/-! ### readers on `encoding ++ rest` -/

theorem readN_append (a rest : Bytes) (k : Nat) (h : a.length = k) : readN k (a ++ rest) = some (a, rest) := by
  subst h
  induction a with
  | nil => simp [readN]
  | cons b a ih => simp [readN, ih]

theorem readBE_append (k n : Nat) (rest : Bytes) (h : n < 256 ^ k) :
    readBE k (beBytes k n ++ rest) = some (n, rest) := by
  simp [readBE, readN_append _ _ k (beBytes_length k n), beVal_beBytes k n h]

theorem readBool_append (b : Bool) (rest : Bytes) : readBool (boolByte b :: rest) = some (b, rest) := by
  cases b <;> simp [readBool, boolByte]

theorem readVarInt_small (n : Nat) (rest : Bytes) (h : n < 253) :
    readVarInt (varInt n ++ rest) = some (n, rest) := by
  have : n < 0xfd := h
  simp [varInt, readVarInt, this]

theorem readVarInt_u16 (n : Nat) (rest : Bytes) (h1 : 253 ≤ n) (h2 : n < 65536) :
    readVarInt (varInt n ++ rest) = some (n, rest) := by
  have a : ¬ n < 0xfd := by omega
  have b : n ≤ 0xffff := by omega
  have hl : leVal (leBytes 2 n) = n := leVal_leBytes 2 n (by simpa using h2)
  have e : varInt n = 0xfd :: leBytes 2 n := by simp [varInt, a, b]
  have hr : readN 2 (leBytes 2 n ++ rest) = some (leBytes 2 n, rest) :=
    readN_append _ _ 2 (leBytes_length 2 n)
  rw [e]
  simp [readVarInt, hr, hl, a]

theorem readVarBytes_small (b rest : Bytes) (h : b.length < 253) :
    readVarBytes (varBytes b ++ rest) = some (b, rest) := by
  unfold readVarBytes varBytes
  rw [List.append_assoc, readVarInt_small _ _ h]
  have : ¬ b.length > maxVarBytes := by unfold maxVarBytes; omega
  simp [this, readN_append b rest b.length rfl]

theorem readVarBytes_u16 (b rest : Bytes) (h1 : 253 ≤ b.length) (h2 : b.length < 65536) :
    readVarBytes (varBytes b ++ rest) = some (b, rest) := by
  unfold readVarBytes varBytes
  rw [List.append_assoc, readVarInt_u16 _ _ h1 h2]
  have : ¬ b.length > maxVarBytes := by unfold maxVarBytes; omega
  simp [this, readN_append b rest b.length rfl]

/-! ### HTLCs -/

/-- every field inside the range of its Go type; the signature short enough for a one-byte
    length prefix (DER signatures are ≤ 73 bytes), onion blob + TLV tail below 64 KiB -/
structure PHtlc.WF (h : PHtlc) : Prop where
  sig : h.sig.length < 253
  rhash : h.rhash.length = 32
  amt : h.amt < 256 ^ 8
  timeout : h.timeout < 256 ^ 4
  outLo : -2147483648 ≤ h.outputIndex
  outHi : h.outputIndex < 2147483648
  onion : h.onion.length = onionSize
  extra : h.onion.length + h.extra.length < 65536
  htlcIndex : h.htlcIndex < 256 ^ 8
  logIndex : h.logIndex < 256 ^ 8

theorem toU32_lt (i : Int) : toU32 i < 256 ^ 4 := by
  unfold toU32
  have : (256 : Nat) ^ 4 = 4294967296 := by decide
  omega

theorem decHtlc_encHtlc (h : PHtlc) (wf : h.WF) (rest : Bytes) :
    decHtlc (encHtlc h ++ rest) = some (h, rest) := by
  unfold decHtlc encHtlc
  have hblob1 : 253 ≤ (h.onion ++ h.extra).length := by
    rw [List.length_append, wf.onion]; unfold onionSize; omega
  have hblob2 : (h.onion ++ h.extra).length < 65536 := by
    rw [List.length_append]; exact wf.extra
  simp only [List.append_assoc, List.cons_append]
  rw [readVarBytes_small _ _ wf.sig]
  simp only []
  rw [readN_append _ _ 32 wf.rhash]
  simp only []
  rw [readBE_append 8 _ _ wf.amt]
  simp only []
  rw [readBE_append 4 _ _ wf.timeout]
  simp only []
  rw [readBE_append 4 _ _ (toU32_lt _)]
  simp only []
  rw [readBool_append]
  simp only []
  rw [readVarBytes_u16 _ _ hblob1 hblob2]
  simp only []
  rw [readBE_append 8 _ _ wf.htlcIndex]
  simp only []
  rw [readBE_append 8 _ _ wf.logIndex]
  simp only []
  have hlen : ¬ (h.onion ++ h.extra).length < onionSize := by
    rw [List.length_append, wf.onion]; omega
  rw [if_neg hlen, ofU32_toU32 _ wf.outLo wf.outHi]
  have ht : (h.onion ++ h.extra).take onionSize = h.onion := by
    rw [← wf.onion]; simp
  have hd : (h.onion ++ h.extra).drop onionSize = h.extra := by
    rw [← wf.onion]; simp
  rw [ht, hd]

theorem decHtlcList_enc (hs : List PHtlc) (wf : ∀ h ∈ hs, h.WF) (rest : Bytes) :
    decHtlcList hs.length ((hs.map encHtlc).flatten ++ rest) = some (hs, rest) := by
  induction hs with
  | nil => simp [decHtlcList]
  | cons h t ih =>
    simp only [List.map_cons, List.flatten_cons, List.length_cons, decHtlcList, List.append_assoc]
    rw [decHtlc_encHtlc h (wf h (List.mem_cons_self ..))]
    simp only []
    rw [ih (fun x hx => wf x (List.mem_cons_of_mem _ hx))]

theorem decHtlcs_encHtlcs (hs : List PHtlc) (hn : hs.length < 65536) (wf : ∀ h ∈ hs, h.WF)
    (rest : Bytes) : decHtlcs (encHtlcs hs ++ rest) = some (hs, rest) := by
  unfold decHtlcs encHtlcs
  rw [List.append_assoc, readBE_append 2 _ _ (by simpa using hn)]
  simp only []
  exact decHtlcList_enc hs wf rest

/-! ### the commit set -/

theorem decKey_encKey (k : PKey) (rest : Bytes) : decKey (encKey k ++ rest) = some (k, rest) := by
  cases k with
  | mk a b => simp [decKey, encKey, readBool_append]

structure PCommitSet.WF (c : PCommitSet) : Prop where
  nsets : c.sets.length < 256
  counts : ∀ e ∈ c.sets, e.2.length < 65536
  htlcs : ∀ e ∈ c.sets, ∀ h ∈ e.2, h.WF

theorem decSetList_enc (l : List (PKey × List PHtlc)) (hc : ∀ e ∈ l, e.2.length < 65536)
    (hw : ∀ e ∈ l, ∀ h ∈ e.2, h.WF) (rest : Bytes) :
    decSetList l.length ((l.map encSet).flatten ++ rest) = some (l, rest) := by
  induction l with
  | nil => simp [decSetList]
  | cons e t ih =>
    simp only [List.map_cons, List.flatten_cons, List.length_cons, decSetList, encSet, List.append_assoc]
    rw [decKey_encKey]
    simp only []
    rw [decHtlcs_encHtlcs e.2 (hc e (List.mem_cons_self ..)) (hw e (List.mem_cons_self ..))]
    simp only []
    rw [ih (fun x hx => hc x (List.mem_cons_of_mem _ hx)) (fun x hx => hw x (List.mem_cons_of_mem _ hx))]

/-- **Round trip.** What `FetchConfirmedCommitSet` decodes from the bytes written by
    `InsertConfirmedCommitSet` is the commit set that was written — confirmed key, every set
    under its own key, every HTLC with every field (in particular the SIGNED output index that
    tells dust from non-dust), for any number of sets and HTLCs. -/
theorem decCommitSet_encCommitSet (c : PCommitSet) (wf : c.WF) :
    decCommitSet (encCommitSet c) = some c := by
  unfold decCommitSet encCommitSet
  rw [decKey_encKey]
  simp only []
  have h1 : readBE 1 (c.sets.length % 256 :: (c.sets.map encSet).flatten) =
      some (c.sets.length, (c.sets.map encSet).flatten) := by
    simp [readBE, readN, beVal, beValAcc, Nat.mod_eq_of_lt wf.nsets]
  rw [h1]
  simp only []
  have := decSetList_enc c.sets wf.counts wf.htlcs []
  rw [List.append_nil] at this
  rw [this]

/-! ### restart of a pending-close channel -/

/-- the close event the handler was processing when the node stopped -/
def evOf (ct : CloseType) (cs : CommitSet) (res : Resolutions) (h : Nat) : Option CloseEv :=
  match ct with
  | .localForce => some (.localForce cs res h)
  | .remoteForce => some (.remoteForce cs res h)
  | .breach => some (.breach cs res h)
  | _ => none

/-- two arbitrators that differ at most in their `active` HTLC sets -/
def Same (a b : Arb) : Prop :=
  a.state = b.state ∧ a.resolutions = b.resolutions ∧ a.fcErr = b.fcErr ∧ a.inserted = b.inserted

/-- with a confirmed commit set at hand `stateStep` never looks at `activeHTLCs` -/
theorem stateStep_congr (env : Env) (a b : Arb) (hab : Same a b) (h : Nat) (t : Trigger)
    (cs : CommitSet) (pl : Bool) :
    stateStep env a h t (some cs) pl = stateStep env b h t (some cs) pl := by
  obtain ⟨sa, aa, ra, fa, ia⟩ := a
  obtain ⟨sb, ab, rb, fb, ib⟩ := b
  obtain ⟨h1, h2, h3, h4⟩ := hab
  simp only at h1 h2 h3 h4
  subst h1 h2 h3 h4
  cases sa <;> rfl

theorem advance_congr (env : Env) (h : Nat) (t : Trigger) (cs : CommitSet) (choice : AState → Bool)
    (fuel : Nat) : ∀ a b : Arb, Same a b →
    Same (advance env a h t (some cs) choice fuel).1 (advance env b h t (some cs) choice fuel).1 ∧
    (advance env a h t (some cs) choice fuel).2 = (advance env b h t (some cs) choice fuel).2 := by
  induction fuel with
  | zero => intro a b hab; exact ⟨hab, rfl⟩
  | succ n ih =>
    intro a b hab
    have hs := stateStep_congr env a b hab h t cs (choice a.state)
    have hsb : stateStep env b h t (some cs) (choice b.state) =
        stateStep env a h t (some cs) (choice a.state) := by rw [← hab.1, hs]
    rw [advance, advance, hsb]
    cases hst : stateStep env a h t (some cs) (choice a.state) with
    | none =>
      simp only []
      refine ⟨hab, ?_⟩
      rw [hab.1]
    | some r =>
      obtain ⟨next, out, ins⟩ := r
      simp only []
      rw [hab.1]
      by_cases hn : (next == b.state) = true
      · simp only [hn, if_true]
        refine ⟨⟨?_, ?_, ?_, ?_⟩, trivial⟩ <;> simp [hab.2.1, hab.2.2.1, hab.2.2.2]
      · simp only [hn, Bool.false_eq_true, if_false]
        have := ih { a with state := next, inserted := a.inserted + ins }
          { b with state := next, inserted := b.inserted + ins }
          ⟨rfl, hab.2.1, hab.2.2.1, by simp [hab.2.2.2]⟩
        exact ⟨this.1, by rw [this.2]⟩

/-- **Restart = uninterrupted handling.**  The close handler logged the resolutions `res`, wrote
    the commit set `p` (well-formed, confirmed key naming a commitment) with
    `InsertConfirmedCommitSet`, marked the channel closed and the node stopped before any state was
    committed (log state `st` ∈ {Default, BroadcastCommit, CommitmentBroadcasted}).  After the
    restart `progressStateMachineAfterRestart` does — for every map-iteration choice and whatever
    HTLC sets the stopped arbitrator had in memory — exactly what the handler itself would have
    done with the in-memory commit set: same final state, same `ForceCloseChan` count, same
    upstream fails, same finalisations, same resolvers. -/
theorem restart_pending_close_eq_handleClose (env : Env) (hashId : Bytes → Nat) (p : PCommitSet)
    (wf : p.WF) (cs : CommitSet) (hcs : p.toCommitSet hashId = some cs)
    (st : AState) (hst : isPreClose st = true) (res : Resolutions) (fc : FcErr)
    (ct : CloseType) (h : Nat) (ev : CloseEv) (hev : evOf ct cs res h = some ev)
    (active : Sets) (choice : AState → Bool) :
    (restartPendingClose env hashId
        { state := st, resolutions := some res, commitSet := some (encCommitSet p), fcErr := fc }
        ct h choice).map (fun r => (r.1.state, r.2)) =
      some ((handleClose env { state := st, active := active, resolutions := none, fcErr := fc }
              ev choice).1.state,
            (handleClose env { state := st, active := active, resolutions := none, fcErr := fc }
              ev choice).2) := by
  unfold restartPendingClose restartWith
  simp only [decCommitSet_encCommitSet p wf, hcs, restartTrigger, hst, if_true, Option.map_some]
  have key : ∀ trig, 
      ((advance env { state := st, active := {}, resolutions := some res, fcErr := fc } h trig
          (some cs) choice advanceFuel).1.state,
        (advance env { state := st, active := {}, resolutions := some res, fcErr := fc } h trig
          (some cs) choice advanceFuel).2) =
      ((advance env { state := st, active := active, resolutions := some res, fcErr := fc } h trig
          (some cs) choice advanceFuel).1.state,
        (advance env { state := st, active := active, resolutions := some res, fcErr := fc } h trig
          (some cs) choice advanceFuel).2) := by
    intro trig
    have := advance_congr env h trig cs choice advanceFuel
      { state := st, active := {}, resolutions := some res, fcErr := fc }
      { state := st, active := active, resolutions := some res, fcErr := fc } ⟨rfl, rfl, rfl, rfl⟩
    rw [this.1.1, this.2]
  cases ct <;> simp only [evOf, Option.some.injEq, reduceCtorEq] at hev <;> subst hev <;>
    simp only [handleClose, CloseType.trigger] <;> exact congrArg some (key _)

/-- every HTLC with an output on the confirmed commitment gets exactly one resolver also when the
    close is processed after such a restart (instance of `exactly_one_resolver_arb` through
    `restart_pending_close_eq_handleClose`): the resolvers inserted after the restart are those
    the uninterrupted handler inserts. -/
theorem restart_resolvers_eq (env : Env) (hashId : Bytes → Nat) (p : PCommitSet)
    (wf : p.WF) (cs : CommitSet) (hcs : p.toCommitSet hashId = some cs)
    (st : AState) (hst : isPreClose st = true) (res : Resolutions) (fc : FcErr)
    (ct : CloseType) (h : Nat) (ev : CloseEv) (hev : evOf ct cs res h = some ev)
    (active : Sets) (choice : AState → Bool) :
    ∃ r, restartPendingClose env hashId
        { state := st, resolutions := some res, commitSet := some (encCommitSet p), fcErr := fc }
        ct h choice = some r ∧
      r.2.resolvers = (handleClose env { state := st, active := active, resolutions := none, fcErr := fc }
              ev choice).2.resolvers ∧
      r.2.fails = (handleClose env { state := st, active := active, resolutions := none, fcErr := fc }
              ev choice).2.fails ∧
      r.2.finals = (handleClose env { state := st, active := active, resolutions := none, fcErr := fc }
              ev choice).2.finals := by
  have := restart_pending_close_eq_handleClose env hashId p wf cs hcs st hst res fc ct h ev hev active choice
  cases hr : restartPendingClose env hashId
        { state := st, resolutions := some res, commitSet := some (encCommitSet p), fcErr := fc }
        ct h choice with
  | none => rw [hr] at this; simp at this
  | some r =>
    rw [hr] at this
    simp only [Option.map_some, Option.some.injEq, Prod.mk.injEq] at this
    exact ⟨r, rfl, by rw [this.2], by rw [this.2], by rw [this.2]⟩

/-- a corrupted commit set never goes unnoticed as "no HTLCs": if the bytes under `commitSetKey`
    do not decode, the arbitrator does not start (it does not resolve the channel with an empty
    set). -/
theorem restart_undecodable_does_not_start (env : Env) (hashId : Bytes → Nat) (d : Disk)
    (bytes : Bytes) (hb : d.commitSet = some bytes) (hd : decCommitSet bytes = none)
    (ct : CloseType) (h : Nat) (choice : AState → Bool) :
    restartPendingClose env hashId d ct h choice = none := by
  simp [restartPendingClose, restartWith, hb, hd]

/-! ### non-vacuity -/

def exH : PHtlc :=
  { sig := [], rhash := List.replicate 32 7, amt := 5000000, timeout := 700, outputIndex := -1,
    incoming := false, onion := List.replicate onionSize 0, extra := [], htlcIndex := 9, logIndex := 9 }

theorem exH_wf : exH.WF := by
  constructor <;> simp only [exH, List.length_replicate, List.length_nil, onionSize] <;>
    first | decide | omega

/-- the hypotheses of `restart_pending_close_eq_handleClose` are satisfiable: a well-formed
    persisted set with a dust HTLC whose confirmed key names the peer's commitment -/
example : (⟨keyRem, [(keyRem, [exH]), (keyLoc, [])]⟩ : PCommitSet).WF ∧
    ((⟨keyRem, [(keyRem, [exH]), (keyLoc, [])]⟩ : PCommitSet).toCommitSet (fun _ => 1)).isSome = true ∧
    isPreClose .commitmentBroadcasted = true := by
  refine ⟨⟨by simp, ?_, ?_⟩, by decide, rfl⟩
  · intro e he
    simp only [List.mem_cons, List.not_mem_nil, or_false] at he
    rcases he with rfl | rfl <;> simp
  · intro e he h hh
    simp only [List.mem_cons, List.not_mem_nil, or_false] at he
    rcases he with rfl | rfl
    · simp only [List.mem_cons, List.not_mem_nil, or_false] at hh
      subst hh; exact exH_wf
    · simp at hh

def exP : PCommitSet := ⟨keyPend, [(keyRem, [exH]), (keyLoc, []), (keyPend, [exH, { exH with outputIndex := 3, htlcIndex := 10 }])]⟩

example : (exP.toCommitSet (fun _ => 1)).map (·.key) = some .pend := by decide

end LndModel.C12.Persist
