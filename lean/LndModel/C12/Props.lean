/-
C12 — property theorems (DESIGN.md §2 C12).  Helper lemmas are in Lemmas.lean / PathLemmas.lean.

  1. go_onchain_in_time / never_for_unclaimable      (force-close decision)
  2. exactly_one_resolver                            (one resolver per HTLC with an output)
  3. dust_and_dangling_failed_once_partial (StateDefault → peer's commitment), …_default_local
     (StateDefault → our commitment), failed_exactly_user_then_local (user force close → our
     commitment: exact fail counts for EVERY index, containing both the true part of the
     statement and finding F2 in general form) + the machine-checked negations (F2/F2b/F2c)
  4. no_failback_with_output
-/
import LndModel.C12.PathLemmas2

namespace LndModel.C12

/-! ## 1. The node goes on chain in time, and never for an HTLC it cannot claim -/

/-- `go_onchain_in_time` (offered HTLC, classification level): at every height at or past
    `RefundTimeout − OutgoingBroadcastDelta` an offered HTLC on our commitment that we forwarded
    (or any offered HTLC once the start-up grace period is over) makes the chain-trigger action map
    non-empty.  Domain: `RefundTimeout ≥ delta` (no `uint32` wrap, see `cutoff_wraps`). -/
theorem go_onchain_in_time (env : Env) (sets : Sets) (height : Nat) (pl : Bool) (h : Htlc)
    (hm : h ∈ sets.loc.outgoing)
    (hnw : env.deltaOut ≤ h.refundTimeout) (hlt : h.refundTimeout < U32)
    (hdue : h.refundTimeout - env.deltaOut ≤ height)
    (hobl : env.isForwarded h.index = true ∨ env.pastGrace = true) :
    checkLocal env height .chain sets false pl ≠ [] := by
  have hs : shouldGoOnChain env h env.deltaOut height = true :=
    (shouldGoOnChain_iff env h _ height hnw hlt).mpr ⟨hdue, Or.inr hobl⟩
  exact checkLocal_ne_nil_of_out env sets height pl h hm hs

/-- `go_onchain_in_time` (received HTLC whose preimage is known). -/
theorem go_onchain_in_time_received (env : Env) (sets : Sets) (height : Nat) (pl : Bool) (h : Htlc)
    (hm : h ∈ sets.loc.incoming) (hdir : h.incoming = true)
    (hpre : env.preimageKnown h.hash = true)
    (hnw : env.deltaIn ≤ h.refundTimeout) (hlt : h.refundTimeout < U32)
    (hdue : h.refundTimeout - env.deltaIn ≤ height) :
    checkLocal env height .chain sets false pl ≠ [] := by
  have hs : shouldGoOnChain env h env.deltaIn height = true :=
    (shouldGoOnChain_iff env h _ height hnw hlt).mpr ⟨hdue, Or.inl hdir⟩
  exact checkLocal_ne_nil_of_in env sets height pl h hm hpre hs

/-- `go_onchain_in_time` (offered HTLC that is only on the peer's current / pending commitment,
    e.g. an add we signed that is not yet on our commitment, or a removal the peer has not yet
    signed): if every copy of it is at or past its cut-off (unwrapped domain), forwarded or past
    grace, and its preimage is unknown, the chain-trigger action map is non-empty. -/
theorem go_onchain_in_time_dangling (env : Env) (sets : Sets) (height : Nat) (pl : Bool) (i : Nat)
    (hi : i ∈ (sets.rem.outgoing ++ sets.pend.outgoing).map (·.index))
    (hnl : i ∉ sets.loc.outgoing.map (·.index))
    (hall : ∀ x ∈ sets.rem.outgoing ++ sets.pend.outgoing, x.index = i →
      env.deltaOut ≤ x.refundTimeout ∧ x.refundTimeout < U32 ∧
      x.refundTimeout - env.deltaOut ≤ height ∧
      (env.isForwarded x.index = true ∨ env.pastGrace = true) ∧
      env.preimageKnown x.hash = false) :
    checkLocal env height .chain sets false pl ≠ [] := by
  apply checkLocal_ne_nil_of_dangling env sets height pl i hi hnl
  intro x hx hxi
  obtain ⟨h1, h2, h3, h4, h5⟩ := hall x hx hxi
  exact ⟨(shouldGoOnChain_iff env x _ height h1 h2).mpr ⟨h3, Or.inr h4⟩, h5⟩

/-- … and a non-empty action map on a block epoch in `StateDefault` means `ForceCloseChan` is
    called exactly once during that `advanceState`, whatever `ForceCloseChan` returns, and the
    arbitrator leaves `StateDefault`. -/
theorem go_onchain_step (env : Env) (a : Arb) (height : Nat) (choice : AState → Bool)
    (hs : a.state = .default)
    (hne : checkLocal env height .chain a.active false (choice .default) ≠ []) :
    (advance env a height .chain none choice advanceFuel).2.forceClose = 1 ∧
    (advance env a height .chain none choice advanceFuel).1.state ≠ .default :=
  advance_chain_go env a height choice hs hne

/-- the two combined, for an arbitrator in `StateDefault` whose local commitment carries a due
    forwarded offered HTLC. -/
theorem go_onchain_in_time_arb (env : Env) (a : Arb) (height : Nat) (choice : AState → Bool)
    (h : Htlc) (hs : a.state = .default)
    (hm : h ∈ a.active.loc.outgoing)
    (hnw : env.deltaOut ≤ h.refundTimeout) (hlt : h.refundTimeout < U32)
    (hdue : h.refundTimeout - env.deltaOut ≤ height)
    (hobl : env.isForwarded h.index = true ∨ env.pastGrace = true) :
    (handleBlock env a height none choice).2.forceClose = 1 := by
  have hne := go_onchain_in_time env a.active height (choice .default) h hm hnw hlt hdue hobl
  have := (advance_chain_go env a height choice hs hne).1
  simp only [handleBlock, hs, AState.isContractClosed]
  simpa [Out.append] using this

/-! ### 1b. After a (re)start every HTLC of every start-up set is under the deadline check -/

theorem linkUpdate_state (a : Arb) (k : SetKey) (hs : List Htlc) :
    (linkUpdate a k hs).state = a.state := by
  cases k <;> rfl

theorem linkUpdate_other (a : Arb) (k k' : SetKey) (hs : List Htlc) (hne : k ≠ k') :
    (linkUpdate a k' hs).active.get k = a.active.get k := by
  cases k <;> cases k' <;> first | exact absurd rfl hne | rfl

/-- link updates for OTHER commitments leave a start-up set (and the state) as it was -/
theorem linkUpdates_preserve (us : List (SetKey × List Htlc)) (a : Arb) (k : SetKey)
    (hk : ∀ u ∈ us, u.1 ≠ k) :
    (us.foldl (fun a u => linkUpdate a u.1 u.2) a).active.get k = a.active.get k ∧
    (us.foldl (fun a u => linkUpdate a u.1 u.2) a).state = a.state := by
  induction us generalizing a with
  | nil => exact ⟨rfl, rfl⟩
  | cons u us ih =>
    simp only [List.foldl_cons]
    have h1 := ih (linkUpdate a u.1 u.2) (fun v hv => hk v (by simp [hv]))
    rw [h1.1, h1.2, linkUpdate_state,
      linkUpdate_other a k u.1 u.2 (fun h => hk u (by simp) h.symm)]
    exact ⟨rfl, rfl⟩

/-- `restart_goes_onchain_local`: the arbitrator is built by `NewChannelArbitrator` from the
    three start-up sets (restart) and the peer stays silent — or the link only reports the
    peer's commitments anew.  A forwarded (or past-grace) offered HTLC of the start-up LOCAL set
    makes the first block at or past `RefundTimeout − delta` call `ForceCloseChan` exactly once. -/
theorem restart_goes_onchain_local (env : Env) (loc rem : List Htlc) (pend : Option (List Htlc))
    (fcErr : FcErr) (us : List (SetKey × List Htlc)) (hus : ∀ u ∈ us, u.1 ≠ .loc)
    (height : Nat) (choice : AState → Bool) (h : Htlc)
    (hm : h ∈ (newHtlcSet loc).outgoing)
    (hnw : env.deltaOut ≤ h.refundTimeout) (hlt : h.refundTimeout < U32)
    (hdue : h.refundTimeout - env.deltaOut ≤ height)
    (hobl : env.isForwarded h.index = true ∨ env.pastGrace = true) :
    (handleBlock env (us.foldl (fun a u => linkUpdate a u.1 u.2) (startUp loc rem pend fcErr))
      height none choice).2.forceClose = 1 := by
  have hp := linkUpdates_preserve us (startUp loc rem pend fcErr) .loc hus
  apply go_onchain_in_time_arb env _ height choice h (by rw [hp.2]; rfl) _ hnw hlt hdue hobl
  have : (us.foldl (fun a u => linkUpdate a u.1 u.2) (startUp loc rem pend fcErr)).active.loc
      = newHtlcSet loc := hp.1
  rw [this]; exact hm

/-- `restart_goes_onchain_dangling`: same for an offered HTLC that the start-up sets carry only
    on the peer's current and/or PENDING commitment (one of our CommitSigs was unrevoked when the
    node went down): with a silent peer the first block at which every copy is at its cut-off
    (preimage unknown) calls `ForceCloseChan` exactly once.  This is the set the deadline check
    must not lose at start-up. -/
theorem restart_goes_onchain_dangling (env : Env) (loc rem : List Htlc) (pend : Option (List Htlc))
    (fcErr : FcErr) (height : Nat) (choice : AState → Bool) (i : Nat)
    (hi : i ∈ ((startSets loc rem pend).rem.outgoing ++ (startSets loc rem pend).pend.outgoing).map (·.index))
    (hnl : i ∉ (startSets loc rem pend).loc.outgoing.map (·.index))
    (hall : ∀ x ∈ (startSets loc rem pend).rem.outgoing ++ (startSets loc rem pend).pend.outgoing,
      x.index = i →
      env.deltaOut ≤ x.refundTimeout ∧ x.refundTimeout < U32 ∧
      x.refundTimeout - env.deltaOut ≤ height ∧
      (env.isForwarded x.index = true ∨ env.pastGrace = true) ∧
      env.preimageKnown x.hash = false) :
    (handleBlock env (startUp loc rem pend fcErr) height none choice).2.forceClose = 1 := by
  have hne := go_onchain_in_time_dangling env (startSets loc rem pend) height (choice .default) i
    hi hnl hall
  have := (advance_chain_go env (startUp loc rem pend fcErr) height choice rfl hne).1
  simp only [handleBlock, startUp, AState.isContractClosed]
  simpa [Out.append, startUp] using this

namespace Restart

def h3 : Htlc := { index := 3, incoming := false, amt := 5000000, refundTimeout := 900, outputIndex := 0, hash := 1 }
/-- forwarded HTLC 8 was added by our last, still unrevoked CommitSig: only on the pending set -/
def h8 : Htlc := { index := 8, incoming := false, amt := 4000000, refundTimeout := 700, outputIndex := 1, hash := 2 }

def env : Env :=
  { preimageKnown := fun _ => false, isForwarded := fun _ => true, pastGrace := true,
    deltaOut := 5, deltaIn := 5 }

/-- the hypotheses of `restart_goes_onchain_dangling` hold for HTLC 8 at its cut-off 695 -/
example : 8 ∈ ((startSets [h3] [h3] (some [h3, h8])).rem.outgoing ++
      (startSets [h3] [h3] (some [h3, h8])).pend.outgoing).map (·.index) ∧
    8 ∉ (startSets [h3] [h3] (some [h3, h8])).loc.outgoing.map (·.index) := by
  decide +kernel

/-- start-up as it is: at the cut-off of HTLC 8 the node force closes … -/
theorem restart_pending_deadline_met (choice : AState → Bool) :
    (handleBlock env (startUp [h3] [h3] (some [h3, h8])) 695 none choice).2.forceClose = 1 := by
  apply restart_goes_onchain_dangling env [h3] [h3] (some [h3, h8]) .none 695 choice 8
  · decide +kernel
  · decide +kernel
  · intro x hx hxi
    have hl : (startSets [h3] [h3] (some [h3, h8])).rem.outgoing ++
        (startSets [h3] [h3] (some [h3, h8])).pend.outgoing = [h3, h3, h8] := by decide +kernel
    rw [hl] at hx
    simp only [List.mem_cons, List.not_mem_nil, or_false] at hx
    have : x = h8 := by
      rcases hx with rfl | rfl | rfl
      · exact absurd hxi (by decide)
      · exact absurd hxi (by decide)
      · rfl
    subst this
    refine ⟨by decide, by decide, by decide, Or.inl rfl, rfl⟩

/-- … whereas a start-up that seeds the pending entry from the peer's CURRENT commitment
    (dropping the pending set) never goes on chain for it: not at the cut-off, not at expiry. -/
theorem dropping_pending_set_misses_deadline (choice : AState → Bool) (height : Nat)
    (hh : height < 895) :
    (handleBlock env (startUp [h3] [h3] (some [h3])) height none choice).2.forceClose = 0 ∧
    (handleBlock env (startUp [h3] [h3] (some [h3])) height none choice).1.state = .default := by
  have hnil : checkLocal env height .chain (startSets [h3] [h3] (some [h3])) false (choice .default) = [] := by
    have hs : shouldGoOnChain env h3 5 height = false := by
      simp only [shouldGoOnChain, sub32, U32, h3]
      have : height < (900 + 4294967296 - 5 % 4294967296) % 4294967296 := by omega
      simp [this]
    cases choice .default <;>
      simp [checkLocal, checkCommit, checkRemoteDangling, mergeRemote, haveChainActions, startSets,
        newHtlcSet, mapOfList, insertByIndex, hasIndex, h3, env] <;>
      simpa [env, h3] using hs
  have := advance_chain_stay env (startUp [h3] [h3] (some [h3])) height choice rfl hnil
  simp only [handleBlock, startUp, AState.isContractClosed] at this ⊢
  simp [Out.append, this]

end Restart

/-- `never_for_unclaimable`: if no offered HTLC on any commitment has reached its cut-off and every
    received HTLC on our commitment that has reached its cut-off has an unknown preimage, the
    chain-trigger action map is empty … -/
theorem never_for_unclaimable (env : Env) (sets : Sets) (height : Nat) (pl : Bool)
    (hout : ∀ h ∈ sets.loc.outgoing ++ sets.rem.outgoing ++ sets.pend.outgoing,
      shouldGoOnChain env h env.deltaOut height = false)
    (hin : ∀ h ∈ sets.loc.incoming,
      env.preimageKnown h.hash = false ∨ shouldGoOnChain env h env.deltaIn height = false) :
    checkLocal env height .chain sets false pl = [] :=
  checkLocal_eq_nil env sets height pl hout hin

/-- the same with the hypotheses stated arithmetically (unwrapped domain) instead of through the
    model's own `shouldGoOnChain`: every offered HTLC on any of the three commitments is strictly
    before `RefundTimeout − OutgoingBroadcastDelta`, and every received HTLC on our commitment
    either has an unknown preimage (whatever the height) or is strictly before
    `RefundTimeout − IncomingBroadcastDelta`. -/
theorem never_for_unclaimable_arith (env : Env) (sets : Sets) (height : Nat) (pl : Bool)
    (hout : ∀ h ∈ sets.loc.outgoing ++ sets.rem.outgoing ++ sets.pend.outgoing,
      env.deltaOut ≤ h.refundTimeout ∧ h.refundTimeout < U32 ∧ height < h.refundTimeout - env.deltaOut)
    (hin : ∀ h ∈ sets.loc.incoming, env.preimageKnown h.hash = false ∨
      (env.deltaIn ≤ h.refundTimeout ∧ h.refundTimeout < U32 ∧ height < h.refundTimeout - env.deltaIn)) :
    checkLocal env height .chain sets false pl = [] := by
  have hf : ∀ (h : Htlc) (d : Nat), d ≤ h.refundTimeout → h.refundTimeout < U32 →
      height < h.refundTimeout - d → shouldGoOnChain env h d height = false := by
    intro h d h1 h2 h3
    cases hc : shouldGoOnChain env h d height
    · rfl
    · have := ((shouldGoOnChain_iff env h d height h1 h2).mp hc).1
      omega
  apply checkLocal_eq_nil
  · intro h hh
    obtain ⟨h1, h2, h3⟩ := hout h hh
    exact hf h _ h1 h2 h3
  · intro h hh
    rcases hin h hh with hp | ⟨h1, h2, h3⟩
    · exact Or.inl hp
    · exact Or.inr (hf h _ h1 h2 h3)

/-- … and the arbitrator stays in `StateDefault` without calling `ForceCloseChan`, failing
    anything upstream or creating resolvers. -/
theorem never_for_unclaimable_arb (env : Env) (a : Arb) (height : Nat) (choice : AState → Bool)
    (hs : a.state = .default)
    (hout : ∀ h ∈ a.active.loc.outgoing ++ a.active.rem.outgoing ++ a.active.pend.outgoing,
      shouldGoOnChain env h env.deltaOut height = false)
    (hin : ∀ h ∈ a.active.loc.incoming,
      env.preimageKnown h.hash = false ∨ shouldGoOnChain env h env.deltaIn height = false) :
    (handleBlock env a height none choice).1.state = .default ∧
    (handleBlock env a height none choice).2.forceClose = 0 ∧
    (handleBlock env a height none choice).2.fails = [] ∧
    (handleBlock env a height none choice).2.resolvers = [] := by
  have hnil := checkLocal_eq_nil env a.active height (choice .default) hout hin
  have := advance_chain_stay env a height choice hs hnil
  simp only [handleBlock, hs, AState.isContractClosed]
  simp [this, Out.append, hs]

/-- In particular a received HTLC whose preimage is unknown never causes a force close, however
    far past its expiry the chain is: with only such HTLCs the map is empty at every height. -/
theorem never_for_unclaimable_only_received (env : Env) (sets : Sets) (height : Nat) (pl : Bool)
    (hno : sets.loc.outgoing = [] ∧ sets.rem.outgoing = [] ∧ sets.pend.outgoing = [])
    (hin : ∀ h ∈ sets.loc.incoming, env.preimageKnown h.hash = false) :
    checkLocal env height .chain sets false pl = [] := by
  apply checkLocal_eq_nil
  · intro h hh; simp [hno.1, hno.2.1, hno.2.2] at hh
  · intro h hh; exact Or.inl (hin h hh)

/-- The recorded counter-example outside the realistic domain: with `RefundTimeout = 3 < delta = 5`
    the `uint32` cut-off wraps to `2^32 − 2`, and the HTLC does not trigger a force close at any
    height below that — including heights past its expiry. -/
theorem cutoff_wraps (env : Env) (h : Htlc) (hexp : h.refundTimeout = 3) (height : Nat)
    (hh : height < U32 - 2) : shouldGoOnChain env h 5 height = false := by
  unfold shouldGoOnChain
  have : sub32 h.refundTimeout 5 = U32 - 2 := by rw [hexp]; decide
  simp [this, hh]

/-! ## 2. Every HTLC with an output on the confirmed commitment gets exactly one resolver -/

/-- `exactly_one_resolver` (offered HTLC, classification level): whichever commitment `k` confirms,
    for a close trigger, an offered HTLC of that commitment with an output has exactly one entry
    in the action map under a resolver-producing action (`Timeout` or `OutgoingWatch`) … -/
theorem exactly_one_resolver_offered (env : Env) (k : SetKey) (sets : Sets) (height : Nat)
    (trigger : Trigger) (pl : Bool) (hwf : WFSet (sets.get k)) (ht : trigger ≠ .chain)
    (h : Htlc) (hm : h ∈ (sets.get k).outgoing) (hnd : h.dust = false) :
    (construct env k sets height trigger pl).filter
        (fun e => e.1.isResolver && !e.2.incoming && e.2.index == h.index)
      = [(classifyOut env height h, h)] ∧
    (classifyOut env height h = .timeout ∨ classifyOut env height h = .outWatch) :=
  ⟨resolverEntries_out env k sets height trigger pl hwf ht h hm hnd,
   classifyOut_cases env height h hnd⟩

/-- … and a received HTLC with an output has exactly one entry, under `IncomingWatch`. -/
theorem exactly_one_resolver_received (env : Env) (k : SetKey) (sets : Sets) (height : Nat)
    (trigger : Trigger) (pl : Bool) (hwf : WFSet (sets.get k)) (ht : trigger ≠ .chain)
    (h : Htlc) (hm : h ∈ (sets.get k).incoming) (hnd : h.dust = false) :
    (construct env k sets height trigger pl).filter
        (fun e => e.1.isResolver && e.2.incoming && e.2.index == h.index)
      = [(.inWatch, h)] :=
  resolverEntries_in env k sets height trigger pl hwf ht h hm hnd

/-- dust HTLCs and HTLCs that are not on the confirmed commitment get no resolver-producing
    action: every resolver-producing entry is a non-dust HTLC of the confirmed commitment. -/
theorem resolver_only_for_confirmed_outputs (env : Env) (k : SetKey) (sets : Sets) (height : Nat)
    (trigger : Trigger) (pl : Bool) (e : Action × Htlc)
    (he : e ∈ construct env k sets height trigger pl) (hr : e.1.isResolver = true) :
    e.2.dust = false ∧ (e.2 ∈ (sets.get k).outgoing ∨ e.2 ∈ (sets.get k).incoming) :=
  resolver_entry_confirmed env k sets height trigger pl e he hr

/-- `exactly_one_resolver` (resolver level): in `StateContractClosed` (no breach), the number of
    timeout/outgoing-contest resolvers created for an offered HTLC of the confirmed commitment
    that has an output is 1 if the close summary carries a resolution for its outpoint, else 0. -/
theorem exactly_one_resolver_created (env : Env) (k : SetKey) (sets : Sets) (height : Nat)
    (trigger : Trigger) (pl : Bool) (res : Resolutions) (hb : res.breach = false)
    (hwf : WFSet (sets.get k)) (ht : trigger ≠ .chain)
    (h : Htlc) (hm : h ∈ (sets.get k).outgoing) (hnd : h.dust = false) :
    ((prepResolvers res (construct env k sets height trigger pl)).filter
        (fun r => (r.1 == .timeout || r.1 == .outContest) && r.2 == h.index)).length
      = if res.outOuts.contains (outU32 h) then 1 else 0 :=
  resolvers_out_count env k sets height trigger pl res hb hwf ht h hm hnd

/-- same for a received HTLC (incoming-contest / success resolvers). -/
theorem exactly_one_resolver_created_received (env : Env) (k : SetKey) (sets : Sets) (height : Nat)
    (trigger : Trigger) (pl : Bool) (res : Resolutions) (hb : res.breach = false)
    (hwf : WFSet (sets.get k)) (ht : trigger ≠ .chain)
    (h : Htlc) (hm : h ∈ (sets.get k).incoming) (hnd : h.dust = false) :
    ((prepResolvers res (construct env k sets height trigger pl)).filter
        (fun r => (r.1 == .inContest || r.1 == .success) && r.2 == h.index)).length
      = if res.inOuts.contains (outU32 h) then 1 else 0 :=
  resolvers_in_count env k sets height trigger pl res hb hwf ht h hm hnd

/-- `exactly_one_resolver` (arbitrator level): when a unilateral close of commitment `cs.key` is
    processed from `StateDefault`, `StateBroadcastCommit` or `StateCommitmentBroadcasted`, the
    resolvers handed to `InsertUnresolvedContracts` contain exactly one timeout / outgoing-contest
    resolver for every offered HTLC of the confirmed commitment that has an output and a
    resolution, and none if the close summary has no resolution for its outpoint. -/
theorem exactly_one_resolver_arb (env : Env) (a : Arb) (cs : CommitSet) (res : Resolutions)
    (height : Nat) (choice : AState → Bool) (isLocal : Bool)
    (hpre : a.state = .default ∨ a.state = .broadcastCommit ∨ a.state = .commitmentBroadcasted)
    (hb : res.breach = false)
    (hwf : WFSet (cs.sets.get cs.key))
    (h : Htlc) (hm : h ∈ (cs.sets.get cs.key).outgoing) (hnd : h.dust = false) :
    ((handleClose env a
        (if isLocal then .localForce cs res height else .remoteForce cs res height) choice).2.resolvers.filter
        (fun r => (r.1 == .timeout || r.1 == .outContest) && r.2 == h.index)).length
      = if res.outOuts.contains (outU32 h) then 1 else 0 := by
  have hne : (res.isEmpty && cs.sets.isEmpty) = false := by
    rw [sets_not_empty_of_mem cs.sets cs.key h (Or.inl hm)]; simp
  rw [close_resolvers env a cs res height choice isLocal hpre hb hne]
  exact resolvers_out_count env cs.key cs.sets height _ _ res hb hwf (by cases isLocal <;> simp) h hm hnd

/-- same for received HTLCs. -/
theorem exactly_one_resolver_arb_received (env : Env) (a : Arb) (cs : CommitSet) (res : Resolutions)
    (height : Nat) (choice : AState → Bool) (isLocal : Bool)
    (hpre : a.state = .default ∨ a.state = .broadcastCommit ∨ a.state = .commitmentBroadcasted)
    (hb : res.breach = false)
    (hwf : WFSet (cs.sets.get cs.key))
    (h : Htlc) (hm : h ∈ (cs.sets.get cs.key).incoming) (hnd : h.dust = false) :
    ((handleClose env a
        (if isLocal then .localForce cs res height else .remoteForce cs res height) choice).2.resolvers.filter
        (fun r => (r.1 == .inContest || r.1 == .success) && r.2 == h.index)).length
      = if res.inOuts.contains (outU32 h) then 1 else 0 := by
  have hne : (res.isEmpty && cs.sets.isEmpty) = false := by
    rw [sets_not_empty_of_mem cs.sets cs.key h (Or.inr hm)]; simp
  rw [close_resolvers env a cs res height choice isLocal hpre hb hne]
  exact resolvers_in_count env cs.key cs.sets height _ _ res hb hwf (by cases isLocal <;> simp) h hm hnd

/-! ## 0. Lookup errors: the theorems are about the error-free environment -/

/-- the layer that models hard registry errors in `isPreimageAvailable` (used by the driver for
    the correspondence check) coincides with `advance` when no lookup fails; `ErrInvoiceNotFound`
    and `ErrNoInvoicesCreated` are not errors but `preimageKnown = false`. -/
theorem advanceE_no_error (env : Env) (a : Arb) (height : Nat) (trigger : Trigger)
    (conf : Option CommitSet) (choice : AState → Bool) (fuel : Nat) :
    advanceE env (fun _ => false) a height trigger conf choice fuel =
      advance env a height trigger conf choice fuel := by
  have hf : ∀ (a : Arb), stepFails (fun _ => false) a conf = false := by
    intro a
    unfold stepFails lookupFails
    cases a.state <;> cases conf <;> simp
    cases a.resolutions <;> simp
  induction fuel generalizing a with
  | zero => rfl
  | succ n ih =>
    unfold advanceE advance
    simp only [hf a, Bool.false_eq_true, if_false]
    cases hstep : stateStep env a height trigger conf (choice a.state) with
    | none => rfl
    | some r =>
      obtain ⟨next, out, ins⟩ := r
      simp only []
      split
      · rfl
      · rw [ih]

/-! ## 2b. The chain watcher hands over the commitment that was really spent -/

/-- `commit_set_names_spent_commitment`: the `CommitSet` dispatched by the chain watcher for a
    spend of commitment `k` has `ConfCommitKey = k`, its HTLC set for `k` is exactly the (index-
    unique) HTLC set of that commitment in the channel state, our own commitment fires the local
    and the peer's commitments the remote unilateral-close subscription. Together with the
    theorems above (stated for `cs.key`) this ties "the commitment that confirmed" to the chain. -/
theorem commit_set_names_spent_commitment (c : ChanCommits) (k : SetKey) (sub : CloseSub)
    (cs : CommitSet) (h : commitSetOfSpend c k = some (sub, cs)) :
    cs.key = k ∧ WFSet (cs.sets.get cs.key) ∧
    cs.sets.get cs.key = newHtlcSet (match k with
      | .loc => c.loc | .rem => c.rem | .pend => c.pend.getD []) ∧
    (sub = .localUnilateral ↔ k = .loc) := by
  cases k
  · simp only [commitSetOfSpend, Option.some.injEq, Prod.mk.injEq] at h
    obtain ⟨rfl, rfl⟩ := h
    exact ⟨rfl, newHtlcSet_wf _, rfl, by simp⟩
  · simp only [commitSetOfSpend, Option.some.injEq, Prod.mk.injEq] at h
    obtain ⟨rfl, rfl⟩ := h
    exact ⟨rfl, newHtlcSet_wf _, rfl, by simp⟩
  · cases hp : c.pend with
    | none => simp [commitSetOfSpend, hp] at h
    | some p =>
      simp only [commitSetOfSpend, hp, Option.isSome_some, if_true, Option.some.injEq,
        Prod.mk.injEq] at h
      obtain ⟨rfl, rfl⟩ := h
      exact ⟨rfl, newHtlcSet_wf _, rfl, by simp⟩

example : ∃ sub cs, commitSetOfSpend { loc := [], rem := [], pend := some [default] } .pend
    = some (sub, cs) := ⟨_, _, rfl⟩

/-! ## 2c. Chain watcher dispatch composed with the arbitrator: exactly one resolver, unconditionally -/

/-- the close summary built for the spent commitment has a resolution for the outpoint of every
    HTLC that has an output there -/
theorem close_summary_has_resolution (s : HtlcSet) (commit anchor : Bool) (h : Htlc)
    (hnd : h.dust = false) :
    (h ∈ s.outgoing → (closeSummaryResolutions s commit anchor).outOuts.contains (outU32 h) = true) ∧
    (h ∈ s.incoming → (closeSummaryResolutions s commit anchor).inOuts.contains (outU32 h) = true) := by
  constructor <;> intro hm <;>
    simp only [closeSummaryResolutions, List.contains_iff_mem, List.mem_map, List.mem_filter] <;>
    exact ⟨h, ⟨hm, by simp [hnd]⟩, rfl⟩

/-- `watcher_dispatch_exactly_one_resolver`: commitment `k` (ours, the peer's current, the
    peer's pending one) is spent on chain; the chain watcher dispatches `cs` for it and lnwallet
    builds the close summary for that commitment; the arbitrator handles the event from
    `StateDefault`, `StateBroadcastCommit` or `StateCommitmentBroadcasted`.  Then EVERY HTLC with
    an output on the spent commitment gets exactly one resolver — no "if a resolution exists"
    side condition left: offered ⇒ one timeout / outgoing-contest resolver, received ⇒ one
    success / incoming-contest resolver. -/
theorem watcher_dispatch_exactly_one_resolver (env : Env) (a : Arb) (c : ChanCommits) (k : SetKey)
    (sub : CloseSub) (cs : CommitSet) (commit anchor : Bool) (height : Nat) (choice : AState → Bool)
    (hd : commitSetOfSpend c k = some (sub, cs))
    (hpre : a.state = .default ∨ a.state = .broadcastCommit ∨ a.state = .commitmentBroadcasted)
    (h : Htlc) (hnd : h.dust = false) :
    let res := closeSummaryResolutions (cs.sets.get cs.key) commit anchor
    let out := (handleClose env a
        (if sub = .localUnilateral then .localForce cs res height else .remoteForce cs res height) choice).2
    (h ∈ (newHtlcSet (match k with | .loc => c.loc | .rem => c.rem | .pend => c.pend.getD [])).outgoing →
      (out.resolvers.filter (fun r => (r.1 == .timeout || r.1 == .outContest) && r.2 == h.index)).length = 1) ∧
    (h ∈ (newHtlcSet (match k with | .loc => c.loc | .rem => c.rem | .pend => c.pend.getD [])).incoming →
      (out.resolvers.filter (fun r => (r.1 == .inContest || r.1 == .success) && r.2 == h.index)).length = 1) := by
  intro res out
  obtain ⟨hkey, hwf, hset, hsub⟩ := commit_set_names_spent_commitment c k sub cs hd
  have hres := close_summary_has_resolution (cs.sets.get cs.key) commit anchor h hnd
  have hb : res.breach = false := rfl
  constructor
  · intro hm
    rw [← hset] at hm
    have := exactly_one_resolver_arb env a cs res height choice (decide (sub = .localUnilateral))
      hpre hb hwf h hm hnd
    simp only [decide_eq_true_eq] at this
    rw [hres.1 hm] at this
    simpa [out] using this
  · intro hm
    rw [← hset] at hm
    have := exactly_one_resolver_arb_received env a cs res height choice
      (decide (sub = .localUnilateral)) hpre hb hwf h hm hnd
    simp only [decide_eq_true_eq] at this
    rw [hres.2 hm] at this
    simpa [out] using this

example : ∃ (c : ChanCommits) (sub : CloseSub) (cs : CommitSet) (h : Htlc),
    commitSetOfSpend c .pend = some (sub, cs) ∧ h.dust = false ∧
    h ∈ (newHtlcSet (c.pend.getD [])).outgoing :=
  ⟨{ loc := [], rem := [], pend := some [{ (default : Htlc) with outputIndex := 2 }] }, _, _,
    { (default : Htlc) with outputIndex := 2 }, rfl, by decide, by decide⟩

/-! ## 4. No fail-back for an offered HTLC that has an output on the confirmed commitment -/

/-- `no_failback_with_output` (classification level): no `FailDust` / `FailDangling` entry carries
    the index of an offered HTLC that has an output on the confirmed commitment `k`. -/
theorem no_failback_with_output (env : Env) (k : SetKey) (sets : Sets) (height : Nat)
    (trigger : Trigger) (pl : Bool) (hwf : WFSet (sets.get k))
    (h : Htlc) (hm : h ∈ (sets.get k).outgoing) (hnd : h.dust = false) :
    ∀ e ∈ construct env k sets height trigger pl, e.1.isFail = true → e.2.index ≠ h.index :=
  fail_entry_index_ne env k sets height trigger pl hwf h hm hnd

/-- `no_failback_with_output` (arbitrator level): when a unilateral close of commitment `k`
    (ours, the peer's current or the peer's pending one) is processed from `StateDefault`,
    `StateBroadcastCommit` or `StateCommitmentBroadcasted`, none of the upstream fail messages
    sent while handling that confirmation is for an offered HTLC with an output on `k`. -/
theorem no_failback_with_output_arb (env : Env) (a : Arb) (cs : CommitSet) (res : Resolutions)
    (height : Nat) (choice : AState → Bool) (isLocal : Bool)
    (hpre : a.state = .default ∨ a.state = .broadcastCommit ∨ a.state = .commitmentBroadcasted)
    (hb : res.breach = false) (hwf : WFSet (cs.sets.get cs.key))
    (h : Htlc) (hm : h ∈ (cs.sets.get cs.key).outgoing) (hnd : h.dust = false) :
    h.index ∉ (handleClose env a
      (if isLocal then .localForce cs res height else .remoteForce cs res height) choice).2.fails.flatten :=
  close_fails_no_output env a cs res height choice isLocal hpre hb hwf h hm hnd

/-! ## 3. Dust and dangling offered HTLCs are failed upstream exactly once -/

/-- what must be failed upstream when the peer's commitment `confRemote sets b` confirms: offered
    HTLCs that are dust there, and offered HTLCs that exist only on the peer's other commitment
    and whose preimage is not known.  (An offered HTLC that is on OUR commitment but on neither
    commitment of the peer is not listed: BOLT-2's update order makes every offered HTLC of our
    commitment appear on the peer's current commitment, and the code does nothing for such an
    HTLC; the theorems below therefore say "exactly once for this list, nothing else failed".) -/
def mustFailRemote (env : Env) (sets : Sets) (b : Bool) : List Nat :=
  ((confRemote sets b).outgoing.filter (·.dust)).map (·.index) ++
  ((otherRemote sets b).outgoing.filter (fun h =>
      !hasIndex (confRemote sets b).outgoing h.index && !env.preimageKnown h.hash)).map (·.index)

/-
Full statement (DESIGN): every index of `mustFail k` appears exactly once in the union of the
upstream fails issued by the steps StateDefault … StateContractClosed along EVERY path of the
arbitrator state machine that reaches StateContractClosed for `k`.

Proved below with the explicit path hypothesis `a.state = .default` (the confirmation is the
first thing that moves the arbitrator out of StateDefault).  It is FALSE for the paths through
StateCommitmentBroadcasted — see `failed_once_fails_after_broadcast` (finding F2).
-/

/-- `dust_and_dangling_failed_once` on the path StateDefault → (remote close) →
    StateContractClosed: every HTLC that must be failed is failed exactly once, and nothing else
    is failed. -/
theorem dust_and_dangling_failed_once_partial (env : Env) (a : Arb) (sets : Sets)
    (res : Resolutions) (height : Nat) (choice : AState → Bool) (b : Bool)
    (hs : a.state = .default) (hb : res.breach = false)
    (hwfo : WFSet (otherRemote sets b)) (i : Nat) :
    (handleClose env a (.remoteForce ⟨remoteKey b, sets⟩ res height) choice).2.fails.flatten.count i
      = if i ∈ mustFailRemote env sets b then 1 else 0 := by
  unfold mustFailRemote
  exact close_default_remote_fails env a sets res height choice b hs hb hwfo i

/-- … and received dust on the confirmed commitment is closed out (`IncomingDustFinal`) exactly
    once and gets no resolver; nothing else is finalised. -/
theorem incoming_dust_final_once (env : Env) (a : Arb) (sets : Sets)
    (res : Resolutions) (height : Nat) (choice : AState → Bool) (b : Bool)
    (hs : a.state = .default) (hb : res.breach = false)
    (hne : (res.isEmpty && sets.isEmpty) = false)
    (hwfc : WFSet (confRemote sets b)) (i : Nat) :
    (handleClose env a (.remoteForce ⟨remoteKey b, sets⟩ res height) choice).2.finals.count i
      = if i ∈ ((confRemote sets b).incoming.filter (·.dust)).map (·.index) then 1 else 0 :=
  close_default_remote_finals env a sets res height choice b hs hb hne hwfc i

/-- the intended path: user force close, then OUR commitment confirms: an offered HTLC that is
    dust on our commitment is failed exactly once (at broadcast time, not again at confirmation). -/
theorem dust_failed_once_user_then_local (env : Env) (a : Arb) (res : Resolutions) (h0 h1 : Nat)
    (choice : AState → Bool) (hs : a.state = .default) (hf : a.fcErr = .none)
    (hb : res.breach = false) (h : Htlc) (hm : h ∈ a.active.loc.outgoing) (hd : h.dust = true) :
    let r1 := handleUser env a h0 choice
    let r2 := handleClose env r1.1 (.localForce ⟨.loc, a.active⟩ res h1) choice
    r1.1.state = .commitmentBroadcasted ∧ r1.2.forceClose = 1 ∧
    (r1.2.fails ++ r2.2.fails).flatten.count h.index = 1 := by
  intro r1 r2
  have hu := advance_default_user env a h0 choice hs hf
  have hr1 : r1 = advance env a h0 .user none choice advanceFuel := by
    simp [r1, handleUser, hs]
  have hst : r1.1.state = .commitmentBroadcasted := by rw [hr1, hu.2.2]
  refine ⟨hst, by rw [hr1]; exact hu.2.1, ?_⟩
  have hr2 : r2.2 = ccOut env ⟨.loc, a.active⟩ res h1 .localClose (choice .contractClosed) := by
    simp only [r2, handleClose]
    exact advance_broadcast_close env _ h1 .localClose _ res choice (Or.inr rfl) (Or.inr hst) rfl hb
  rw [List.flatten_append, List.count_append, hr2, ccOut_fails_flatten, hr1, hu.1,
    flatten_failBatch, count_indexSet, count_indexSet]
  simp only [construct, checkLocal_failDust env h0 .user a.active false _ (by decide),
    checkLocal_failDangling env h1 .localClose a.active true _ (by decide)]
  have hin : h.index ∈ (a.active.loc.outgoing.filter (·.dust) ++
      actionsOf (checkRemoteDangling env h0 a.active false (choice .default)) .failDust).map (·.index) := by
    rw [List.map_append, List.mem_append]
    exact Or.inl (List.mem_map.mpr ⟨h, List.mem_filter.mpr ⟨hm, hd⟩, rfl⟩)
  have hnot : h.index ∉ (actionsOf (checkRemoteDangling env h1 a.active true
      (choice .contractClosed)) .failDangling).map (·.index) := by
    intro hc
    obtain ⟨x, hx, hxi⟩ := List.mem_map.mp hc
    apply dangling_index_notin_local env h1 a.active true _ _ x hx
    rw [hxi]
    exact List.mem_map.mpr ⟨h, hm, rfl⟩
  rw [if_pos hin, if_neg hnot]

/-- at-most-once on the paths through `StateCommitmentBroadcasted` to a REMOTE confirmation: we
    broadcast (user request, or a block whose chain-trigger action map is non-empty) with a
    working `ForceCloseChan`, then the peer's current or pending commitment confirms. Under the
    protocol shape "every offered HTLC on our commitment is also on the confirmed peer commitment"
    no HTLC index is failed upstream twice along the path. (What F2 breaks on these paths is
    at-LEAST-once, see below; for a LOCAL confirmation at-most-once is false as well, see F2b.) -/
theorem failed_at_most_once_after_broadcast_remote (env : Env) (a : Arb) (res : Resolutions)
    (h0 h1 : Nat) (choice : AState → Bool) (b : Bool) (trig : Trigger)
    (hs : a.state = .default) (hf : a.fcErr = .none) (hb : res.breach = false)
    (htrig : trig = .user ∨
      (trig = .chain ∧ checkLocal env h0 .chain a.active false (choice .default) ≠ []))
    (hshape : ∀ x ∈ a.active.loc.outgoing,
      x.index ∈ (confRemote a.active b).outgoing.map (·.index))
    (hwfo : WFSet (otherRemote a.active b)) (i : Nat) :
    ((advance env a h0 trig none choice advanceFuel).2.fails ++
      (handleClose env (advance env a h0 trig none choice advanceFuel).1
        (.remoteForce ⟨remoteKey b, a.active⟩ res h1) choice).2.fails).flatten.count i ≤ 1 :=
  broadcast_then_remote_at_most_once env a res h0 h1 choice b trig hs hf hb htrig hshape hwfo i

/-! ### Paths that end with OUR commitment confirming (peer's two commitments agree) -/

/-- `dust_and_dangling_failed_once` on the path StateDefault → (local close) →
    StateContractClosed, i.e. our own commitment confirms although this run never broadcast it:
    when the peer's current and pending commitment agree on the HTLCs they share (`Agree`;
    without it the count depends on map order, finding F2b), every offered HTLC that is dust on
    our commitment or exists only on the peer's commitment(s) with unknown preimage is failed
    upstream exactly once, and nothing else is failed — for both map-iteration choices. -/
theorem dust_and_dangling_failed_once_default_local (env : Env) (a : Arb) (sets : Sets)
    (res : Resolutions) (height : Nat) (choice : AState → Bool)
    (hs : a.state = .default) (hb : res.breach = false)
    (hwr : WFSet sets.rem) (hwp : WFSet sets.pend) (hag : Agree sets) (i : Nat) :
    (handleClose env a (.localForce ⟨.loc, sets⟩ res height) choice).2.fails.flatten.count i
      = if i ∈ mustFailLocal env sets then 1 else 0 :=
  close_default_local_fails env a sets res height choice hs hb hwr hwp hag i

/-- The ordinary path — user force close at height `h0`, then OUR commitment confirms —
    characterised completely: for EVERY index the number of upstream fails along the whole path
    is 1 if the HTLC is dust on our commitment, or dangling (only on the peer's commitments,
    preimage unknown) with an output there, or dangling dust that was already at its cut-off at
    `h0`; and 0 otherwise.  So the statement holds on this path for all of those, and fails
    exactly for dangling dust that was not yet due at broadcast time (finding F2, here for all
    inputs rather than one witness). -/
theorem failed_exactly_user_then_local (env : Env) (a : Arb) (res : Resolutions) (h0 h1 : Nat)
    (choice : AState → Bool) (hs : a.state = .default) (hf : a.fcErr = .none)
    (hb : res.breach = false)
    (hwr : WFSet a.active.rem) (hwp : WFSet a.active.pend) (hag : Agree a.active) (i : Nat) :
    ((handleUser env a h0 choice).2.fails ++
      (handleClose env (handleUser env a h0 choice).1
        (.localForce ⟨.loc, a.active⟩ res h1) choice).2.fails).flatten.count i
      = if i ∈ failedUserLocal env a.active h0 then 1 else 0 :=
  user_then_local_fails env a res h0 h1 choice hs hf hb hwr hwp hag i

/-- `dust_and_dangling_failed_once` on user force close → our commitment confirms, when every
    dangling dust HTLC (if any) was at its cut-off when we broadcast: exactly once for every
    HTLC that must be failed, nothing else. -/
theorem dust_and_dangling_failed_once_user_then_local (env : Env) (a : Arb) (res : Resolutions)
    (h0 h1 : Nat) (choice : AState → Bool) (hs : a.state = .default) (hf : a.fcErr = .none)
    (hb : res.breach = false)
    (hwr : WFSet a.active.rem) (hwp : WFSet a.active.pend) (hag : Agree a.active)
    (hdue : ∀ x ∈ a.active.rem.outgoing ++ a.active.pend.outgoing,
      hasIndex a.active.loc.outgoing x.index = false → x.dust = true →
      shouldGoOnChain env x env.deltaOut h0 = true) (i : Nat) :
    ((handleUser env a h0 choice).2.fails ++
      (handleClose env (handleUser env a h0 choice).1
        (.localForce ⟨.loc, a.active⟩ res h1) choice).2.fails).flatten.count i
      = if i ∈ mustFailLocal env a.active then 1 else 0 := by
  rw [failed_exactly_user_then_local env a res h0 h1 choice hs hf hb hwr hwp hag i]
  have : i ∈ failedUserLocal env a.active h0 ↔ i ∈ mustFailLocal env a.active := by
    unfold failedUserLocal mustFailLocal
    simp only [List.mem_append, List.mem_map, List.mem_filter, Bool.and_eq_true,
      Bool.not_eq_true', Bool.or_eq_true]
    constructor
    · rintro (h | ⟨x, ⟨hx, ⟨h1', h2'⟩, _⟩, rfl⟩)
      · exact Or.inl h
      · exact Or.inr ⟨x, ⟨hx, h1', h2'⟩, rfl⟩
    · rintro (h | ⟨x, ⟨hx, h1', h2'⟩, rfl⟩)
      · exact Or.inl h
      · refine Or.inr ⟨x, ⟨hx, ⟨h1', h2'⟩, ?_⟩, rfl⟩
        cases hd : x.dust
        · exact Or.inl rfl
        · exact Or.inr (hdue x (List.mem_append.mpr hx) h1' hd)
  by_cases h : i ∈ mustFailLocal env a.active
  · rw [if_pos (this.mpr h), if_pos h]
  · rw [if_neg (fun h' => h (this.mp h')), if_neg h]

/-- Finding F2 on the ordinary path, for all inputs: an offered HTLC that exists only on the
    peer's commitment(s), is dust there, has an unknown preimage and was not yet at its cut-off
    when the user force-closed must be failed back (it is in `mustFailLocal`) but is never
    failed along user force close → our commitment confirms. -/
theorem dangling_dust_not_due_never_failed (env : Env) (a : Arb) (res : Resolutions)
    (h0 h1 : Nat) (choice : AState → Bool) (hs : a.state = .default) (hf : a.fcErr = .none)
    (hb : res.breach = false)
    (hwr : WFSet a.active.rem) (hwp : WFSet a.active.pend) (hag : Agree a.active)
    (x : Htlc) (hx : x ∈ a.active.rem.outgoing ++ a.active.pend.outgoing)
    (hnl : hasIndex a.active.loc.outgoing x.index = false) (hd : x.dust = true)
    (hk : env.preimageKnown x.hash = false)
    (hnd : shouldGoOnChain env x env.deltaOut h0 = false) :
    x.index ∈ mustFailLocal env a.active ∧
    ((handleUser env a h0 choice).2.fails ++
      (handleClose env (handleUser env a h0 choice).1
        (.localForce ⟨.loc, a.active⟩ res h1) choice).2.fails).flatten.count x.index = 0 := by
  constructor
  · unfold mustFailLocal
    refine List.mem_append.mpr (Or.inr (List.mem_map.mpr ⟨x, List.mem_filter.mpr ⟨hx, ?_⟩, rfl⟩))
    simp [hnl, hk]
  · rw [failed_exactly_user_then_local env a res h0 h1 choice hs hf hb hwr hwp hag x.index]
    have hnot : x.index ∉ failedUserLocal env a.active h0 := by
      unfold failedUserLocal
      intro hc
      rcases List.mem_append.mp hc with h | h
      · obtain ⟨y, hy, hyi⟩ := List.mem_map.mp h
        have := (hasIndex_iff a.active.loc.outgoing x.index).mpr
          (List.mem_map.mpr ⟨y, (List.mem_filter.mp hy).1, hyi⟩)
        rw [hnl] at this; cases this
      · obtain ⟨y, hy, hyi⟩ := List.mem_map.mp h
        have hy' := List.mem_filter.mp hy
        have hc := copy_props env a.active hwr hwp hag y x hy'.1 hx hyi env.deltaOut h0
        have h2 := hy'.2
        simp only [Bool.and_eq_true, Bool.not_eq_true', Bool.or_eq_true] at h2
        rcases h2.2 with h3 | h3
        · rw [hc.1, hd] at h3; cases h3
        · rw [hc.2.2, hnd] at h3; cases h3
    rw [if_neg hnot]

/-! ### Finding F2: the statement is false on the path through StateCommitmentBroadcasted -/

namespace F2

/-- offered HTLC 99: output 0 on our commitment, dust on the peer's. -/
def hLocal : Htlc := { index := 99, incoming := false, amt := 10000000, refundTimeout := 700, outputIndex := 0, hash := 1 }
def hRemote : Htlc := { hLocal with outputIndex := -1 }

def sets : Sets := { loc := newHtlcSet [hLocal], rem := newHtlcSet [hRemote], pend := {} }

def env : Env :=
  { preimageKnown := fun _ => false, isForwarded := fun _ => true, pastGrace := true,
    deltaOut := 5, deltaIn := 5 }

def start : Arb := { state := .default, active := sets }

/-- user force close at height 100 … -/
def afterUser (choice : AState → Bool) : Arb × Out := handleUser env start 100 choice

/-- … then the REMOTE commitment confirms at height 102 (no HTLC resolutions: it is dust there). -/
def afterClose (choice : AState → Bool) : Arb × Out :=
  handleClose env (afterUser choice).1 (.remoteForce ⟨.rem, sets⟩ {} 102) choice

end F2

/-- Negation of `dust_and_dangling_failed_once` on the path
    StateDefault —user→ StateBroadcastCommit → StateCommitmentBroadcasted —remote close→
    StateContractClosed: HTLC 99 must be failed (it is dust on the confirmed commitment), the
    force close was broadcast (one `ForceCloseChan`), and yet along the whole path no upstream
    fail is issued for it, no resolver is created, and the arbitrator ends in
    `StateFullyResolved`.  Holds for every map-iteration choice. -/
theorem failed_once_fails_after_broadcast (choice : AState → Bool) :
    (F2.afterUser choice).1.state = .commitmentBroadcasted ∧
    (F2.afterUser choice).2.forceClose = 1 ∧
    99 ∈ mustFailRemote F2.env F2.sets false ∧
    ((F2.afterUser choice).2.fails ++ (F2.afterClose choice).2.fails).flatten.count 99 = 0 ∧
    (F2.afterClose choice).2.resolvers = [] ∧
    (F2.afterClose choice).1.state = .fullyResolved := by
  refine ⟨?_, ?_, ?_, ?_, ?_, ?_⟩ <;>
    simp [F2.afterUser, F2.afterClose, F2.start, F2.sets, F2.env, F2.hLocal, F2.hRemote,
      handleUser, handleClose, advance, advanceFuel, stateStep, checkLocal, checkCommit,
      checkRemote, checkRemoteDangling, checkRemoteDiff, construct, haveChainActions,
      shouldGoOnChain, sub32, U32, classifyOut, classifyIn, Htlc.dust, newHtlcSet, mapOfList,
      insertByIndex, mergeRemote, hasIndex, actionsOf, indexSet, dedupNat, failBatch,
      Out.append, confRemote, otherRemote, mustFailRemote, prepResolvers, Resolutions.isEmpty,
      Sets.isEmpty, HtlcSet.isEmpty, legacyBreach, classifyDangling, resolverFor]

namespace F2dd

/-- offered HTLC 3 on all three commitments with an output; offered HTLC 7 only on the peer's
    pending commitment, dust there, far from expiry. -/
def h3 : Htlc := { index := 3, incoming := false, amt := 5000000, refundTimeout := 900, outputIndex := 0, hash := 1 }
def h7 : Htlc := { index := 7, incoming := false, amt := 100000, refundTimeout := 900, outputIndex := -1, hash := 2 }

def sets : Sets := { loc := newHtlcSet [h3], rem := newHtlcSet [h3], pend := newHtlcSet [h3, h7] }

def start : Arb := { state := .default, active := sets }

def afterUser (choice : AState → Bool) : Arb × Out := handleUser F2.env start 100 choice

/-- our OWN commitment confirms, with the resolution for HTLC 3. -/
def afterClose (choice : AState → Bool) : Arb × Out :=
  handleClose F2.env (afterUser choice).1 (.localForce ⟨.loc, sets⟩ { outOuts := [0] } 101) choice

end F2dd

/-- Second witness (the ordinary path: user force close, then OUR commitment confirms): offered
    HTLC 7 exists only on the peer's pending commitment and is dust there; it is not near expiry
    when we broadcast, so the `StateDefault` step does not fail it, and at confirmation it is
    classified `FailDust`, which `StateContractClosed` ignores: never failed upstream. HTLC 3 gets
    its resolver. -/
theorem failed_once_fails_after_broadcast_dangling_dust (choice : AState → Bool) :
    (F2dd.afterUser choice).1.state = .commitmentBroadcasted ∧
    ((F2dd.afterUser choice).2.fails ++ (F2dd.afterClose choice).2.fails).flatten.count 7 = 0 ∧
    (F2dd.afterClose choice).2.resolvers = [(.outContest, 3)] ∧
    (F2dd.afterClose choice).1.state = .waitingFullResolution := by
  refine ⟨?_, ?_, ?_, ?_⟩ <;> cases h1 : choice .default <;> cases h2 : choice .contractClosed <;>
    simp [h1, h2, F2dd.afterUser, F2dd.afterClose, F2dd.start, F2dd.sets, F2.env, F2dd.h3, F2dd.h7,
      handleUser, handleClose, advance, advanceFuel, stateStep, checkLocal, checkCommit,
      checkRemote, checkRemoteDangling, checkRemoteDiff, construct, haveChainActions,
      shouldGoOnChain, sub32, U32, classifyOut, classifyIn, Htlc.dust, newHtlcSet, mapOfList,
      insertByIndex, mergeRemote, hasIndex, actionsOf, indexSet, dedupNat, failBatch,
      Out.append, confRemote, otherRemote, prepResolvers, Resolutions.isEmpty,
      Sets.isEmpty, HtlcSet.isEmpty, legacyBreach, classifyDangling, resolverFor, outU32]

/-- the same HTLC sets without our broadcast (remote close straight from `StateDefault`): 99 is
    failed exactly once — the witness is not an artefact of the sets. -/
example (choice : AState → Bool) :
    (handleClose F2.env F2.start (.remoteForce ⟨.rem, F2.sets⟩ {} 102) choice).2.fails.flatten.count 99 = 1 := by
  have := dust_and_dangling_failed_once_partial F2.env F2.start F2.sets {} 102 choice false rfl rfl
    ⟨by simp [otherRemote, F2.sets], by simp [otherRemote, F2.sets],
     by simp [otherRemote, NodupIdx, F2.sets], by simp [otherRemote, NodupIdx, F2.sets]⟩ 99
  rw [show remoteKey false = SetKey.rem from rfl] at this
  rw [this]
  simp [mustFailRemote, confRemote, F2.sets, F2.hRemote, F2.hLocal, newHtlcSet, mapOfList,
    insertByIndex, Htlc.dust]

/-! ### Finding F2b: the peer's two commitments disagree on dust, our commitment confirms -/

namespace F2b

/-- offered HTLC 7 is only on the peer's commitments: dust on the current, output 1 on the pending
    one (fee change between the two). HTLC 3 is everywhere. -/
def h3 : Htlc := { index := 3, incoming := false, amt := 5000000, refundTimeout := 900, outputIndex := 0, hash := 1 }
def h7d : Htlc := { index := 7, incoming := false, amt := 100000, refundTimeout := 900, outputIndex := -1, hash := 2 }
def h7n : Htlc := { h7d with outputIndex := 1 }
def sets : Sets := { loc := newHtlcSet [h3], rem := newHtlcSet [h3, h7d], pend := newHtlcSet [h3, h7n] }
def start : Arb := { state := .default, active := sets }

/-- user force close at height 896 (HTLC 7 is at its cut-off 895), our commitment confirms at 897;
    `d`/`c` = which remote copy wins in the StateDefault / StateContractClosed computation. -/
def failsOf (d c : Bool) : List (List Nat) :=
  let ch : AState → Bool := fun st => if st == .default then d else c
  let r1 := handleUser F2.env start 896 ch
  let r2 := handleClose F2.env r1.1 (.localForce ⟨.loc, sets⟩ { outOuts := [0] } 897) ch
  r1.2.fails ++ r2.2.fails

end F2b

/-- the same inputs, three outcomes: HTLC 7 is failed upstream 0, 1 or 2 times depending only on
    the Go map iteration order in the two `checkRemoteDanglingActions` calls of the path. -/
theorem remote_copies_disagree_order_dependent :
    (F2b.failsOf true false).flatten.count 7 = 0 ∧
    (F2b.failsOf false false).flatten.count 7 = 1 ∧
    (F2b.failsOf false true).flatten.count 7 = 2 := by
  refine ⟨?_, ?_, ?_⟩ <;>
    simp [F2b.failsOf, F2b.start, F2b.sets, F2.env, F2b.h3, F2b.h7d, F2b.h7n,
      handleUser, handleClose, advance, advanceFuel, stateStep, checkLocal, checkCommit,
      checkRemoteDangling, construct, haveChainActions,
      shouldGoOnChain, sub32, U32, classifyOut, classifyIn, Htlc.dust, newHtlcSet, mapOfList,
      insertByIndex, mergeRemote, hasIndex, actionsOf, indexSet, dedupNat, failBatch,
      Out.append, prepResolvers, Resolutions.isEmpty,
      Sets.isEmpty, HtlcSet.isEmpty, classifyDangling, resolverFor, outU32]

/-! ### Finding F2c: failed back at broadcast although the output is on the commitment that confirms

Clause 4 of the property, read literally ("an upstream fail-back is never issued for an offered
HTLC that still has an output on the confirmed commitment"), is violated on the path
broadcast → remote confirmation: `no_failback_with_output_arb` only covers the fails issued while
the confirmation is handled. -/

namespace F2c

/-- offered HTLC 5: dust on OUR commitment, output 0 on the peer's. -/
def hLocal : Htlc := { index := 5, incoming := false, amt := 600000, refundTimeout := 700, outputIndex := -1, hash := 1 }
def hRemote : Htlc := { hLocal with outputIndex := 0 }
def sets : Sets := { loc := newHtlcSet [hLocal], rem := newHtlcSet [hRemote], pend := {} }
def start : Arb := { state := .default, active := sets }
def afterUser (choice : AState → Bool) : Arb × Out := handleUser F2.env start 100 choice
def afterClose (choice : AState → Bool) : Arb × Out :=
  handleClose F2.env (afterUser choice).1 (.remoteForce ⟨.rem, sets⟩ { outOuts := [0] } 102) choice

end F2c

/-- user force close fails HTLC 5 upstream (dust on ours); then the REMOTE commitment confirms, on
    which HTLC 5 has an output: it gets an outgoing-contest resolver there — a fail-back was issued
    for an HTLC that has an output on the confirmed commitment. For every iteration choice. -/
theorem failback_before_confirmation_with_output (choice : AState → Bool) :
    (F2c.afterUser choice).2.fails = [[5]] ∧
    F2c.hRemote ∈ (F2c.sets.get .rem).outgoing ∧ F2c.hRemote.dust = false ∧
    (F2c.afterClose choice).2.resolvers = [(.outContest, 5)] ∧
    (F2c.afterClose choice).2.fails = [] := by
  refine ⟨?_, ?_, ?_, ?_, ?_⟩ <;>
    simp [F2c.afterUser, F2c.afterClose, F2c.start, F2c.sets, F2.env, F2c.hLocal, F2c.hRemote,
      handleUser, handleClose, advance, advanceFuel, stateStep, checkLocal, checkCommit,
      checkRemote, checkRemoteDangling, checkRemoteDiff, construct, haveChainActions,
      shouldGoOnChain, sub32, U32, classifyOut, classifyIn, Htlc.dust, newHtlcSet, mapOfList,
      insertByIndex, mergeRemote, hasIndex, actionsOf, indexSet, dedupNat, failBatch,
      Out.append, confRemote, otherRemote, prepResolvers, Resolutions.isEmpty, Sets.get,
      Sets.isEmpty, HtlcSet.isEmpty, classifyDangling, resolverFor, outU32]

/-! ### non-vacuity of the hypotheses -/

example : WFSet F2.sets.rem ∧ F2.hRemote ∈ F2.sets.rem.outgoing ∧ F2.hRemote.dust = true :=
  ⟨newHtlcSet_wf _, by simp [F2.sets, newHtlcSet, mapOfList, insertByIndex, F2.hRemote, F2.hLocal],
   by simp [F2.hRemote, F2.hLocal, Htlc.dust]⟩

example : F2.hLocal ∈ F2.sets.loc.outgoing ∧
    F2.env.deltaOut ≤ F2.hLocal.refundTimeout ∧ F2.hLocal.refundTimeout < U32 ∧
    F2.hLocal.refundTimeout - F2.env.deltaOut ≤ 695 ∧ F2.env.isForwarded F2.hLocal.index = true :=
  ⟨by simp [F2.sets, newHtlcSet, mapOfList, insertByIndex, F2.hLocal], by decide, by decide,
   by decide, rfl⟩

example : F2.hLocal.dust = false ∧ WFSet (F2.sets.get .loc) :=
  ⟨by simp [F2.hLocal, Htlc.dust], newHtlcSet_wf _⟩

/-- the hypotheses of the local-confirmation theorems (`Agree`, well-formed sets, a dangling dust
    HTLC that is not due at the broadcast height 100) are satisfied by the F2 witness sets -/
example : Agree F2dd.sets ∧ WFSet F2dd.sets.rem ∧ WFSet F2dd.sets.pend ∧
    F2dd.h7 ∈ F2dd.sets.rem.outgoing ++ F2dd.sets.pend.outgoing ∧
    hasIndex F2dd.sets.loc.outgoing F2dd.h7.index = false ∧ F2dd.h7.dust = true ∧
    F2.env.preimageKnown F2dd.h7.hash = false ∧
    shouldGoOnChain F2.env F2dd.h7 F2.env.deltaOut 100 = false := by
  refine ⟨?_, newHtlcSet_wf _, newHtlcSet_wf _, ?_, ?_, ?_, ?_, ?_⟩
  · intro x hx y hy hi
    simp [F2dd.sets, newHtlcSet, mapOfList, insertByIndex, F2dd.h3, F2dd.h7] at hx hy
    subst hx
    rcases hy with rfl | rfl
    · exact ⟨rfl, rfl, rfl⟩
    · simp at hi
  · simp [F2dd.sets, newHtlcSet, mapOfList, insertByIndex, F2dd.h3, F2dd.h7]
  · simp [F2dd.sets, newHtlcSet, mapOfList, insertByIndex, F2dd.h3, F2dd.h7, hasIndex]
  · simp [F2dd.h7, Htlc.dust]
  · simp [F2.env, F2dd.h7]
  · simp [shouldGoOnChain, F2.env, F2dd.h7, sub32, U32]

end LndModel.C12
