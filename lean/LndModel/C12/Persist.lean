/-
C12 — persistence of the confirmed commit set and the restart of a pending-close channel.

Byte-level executable model of `contractcourt/briefcase.go` `encodeHtlcSetKey` /
`encodeCommitSet` / `decodeHtlcSetKey` / `decodeCommitSet` (what `InsertConfirmedCommitSet`
writes under `commitSetKey` and `FetchConfirmedCommitSet` reads back) including
`channeldb.SerializeHtlcs` / `DeserializeHtlcs` for HTLCs without extra TLV data, the
`wire.ReadVarBytes(…, 66000)` length prefix with its canonical-encoding check, and of
`ChannelArbitrator.progressStateMachineAfterRestart` for a channel that is already marked
closed in the database (`IsPendingClose`) while the arbitrator log still says
StateDefault / StateBroadcastCommit / StateCommitmentBroadcasted: the close trigger is
rebuilt from `CloseType`, the trigger height from `ClosingHeight`, and the commit set is the
one DECODED from the log.

Core Lean only.
-/
import LndModel.C12.Model

namespace LndModel.C12.Persist

abbrev Bytes := List Nat

/-- big-endian, `k` bytes (`binary.Write(w, binary.BigEndian, …)`) -/
def beBytes : Nat → Nat → Bytes
  | 0, _ => []
  | k + 1, n => (n / 256 ^ k) % 256 :: beBytes k n

def beValAcc (acc : Nat) : Bytes → Nat
  | [] => acc
  | b :: bs => beValAcc (acc * 256 + b) bs

def beVal (bs : Bytes) : Nat := beValAcc 0 bs

/-- little-endian (the multi-byte forms of btcd's `WriteVarInt`) -/
def leBytes (k n : Nat) : Bytes := (beBytes k n).reverse
def leVal (bs : Bytes) : Nat := beVal bs.reverse

/-- read exactly `k` bytes (`io.ReadFull`) -/
def readN : Nat → Bytes → Option (Bytes × Bytes)
  | 0, bs => some ([], bs)
  | _ + 1, [] => none
  | k + 1, b :: bs =>
    match readN k bs with
    | some (a, r) => some (b :: a, r)
    | none => none

def readBE (k : Nat) (bs : Bytes) : Option (Nat × Bytes) :=
  match readN k bs with
  | some (a, r) => some (beVal a, r)
  | none => none

/-- `binary.Read` of a `bool`: any non-zero byte is `true` -/
def readBool (bs : Bytes) : Option (Bool × Bytes) :=
  match bs with
  | [] => none
  | b :: r => some (b != 0, r)

def boolByte (b : Bool) : Nat := if b then 1 else 0

/-- `wire.WriteVarInt` -/
def varInt (n : Nat) : Bytes :=
  if n < 0xfd then [n]
  else if n ≤ 0xffff then 0xfd :: leBytes 2 n
  else if n ≤ 0xffffffff then 0xfe :: leBytes 4 n
  else 0xff :: leBytes 8 n

/-- `wire.ReadVarInt` with the canonical-encoding check -/
def readVarInt (bs : Bytes) : Option (Nat × Bytes) :=
  match bs with
  | [] => none
  | d :: r =>
    if d < 0xfd then some (d, r)
    else
      let k := if d == 0xfd then 2 else if d == 0xfe then 4 else 8
      let min := if d == 0xfd then 0xfd else if d == 0xfe then 0x10000 else 0x100000000
      match readN k r with
      | some (a, r') => if leVal a < min then none else some (leVal a, r')
      | none => none

/-- `wire.ReadVarBytes(r, 0, 66000, "[]byte")` as used by `channeldb.ReadElement(*[]byte)` -/
def maxVarBytes : Nat := 66000

def varBytes (b : Bytes) : Bytes := varInt b.length ++ b

def readVarBytes (bs : Bytes) : Option (Bytes × Bytes) :=
  match readVarInt bs with
  | some (n, r) => if n > maxVarBytes then none else readN n r
  | none => none

def onionSize : Nat := 1366

/-- the persisted fields of a `channeldb.HTLC` (no blinding point / custom records: `extra`
    is the raw TLV tail, which the harness keeps empty) -/
structure PHtlc where
  sig : Bytes := []
  rhash : Bytes := []
  amt : Nat := 0
  timeout : Nat := 0
  outputIndex : Int := 0
  incoming : Bool := false
  onion : Bytes := []
  extra : Bytes := []
  htlcIndex : Nat := 0
  logIndex : Nat := 0
deriving Repr, DecidableEq, Inhabited

def toU32 (i : Int) : Nat := (i % 4294967296).toNat
def ofU32 (n : Nat) : Int := if n < 2147483648 then (n : Int) else (n : Int) - 4294967296

def encHtlc (h : PHtlc) : Bytes :=
  varBytes h.sig ++ (h.rhash ++ (beBytes 8 h.amt ++ (beBytes 4 h.timeout ++
    (beBytes 4 (toU32 h.outputIndex) ++ (boolByte h.incoming :: (varBytes (h.onion ++ h.extra) ++
    (beBytes 8 h.htlcIndex ++ beBytes 8 h.logIndex)))))))

def decHtlc (bs : Bytes) : Option (PHtlc × Bytes) :=
  match readVarBytes bs with
  | none => none
  | some (sig, r1) =>
  match readN 32 r1 with
  | none => none
  | some (rhash, r2) =>
  match readBE 8 r2 with
  | none => none
  | some (amt, r3) =>
  match readBE 4 r3 with
  | none => none
  | some (timeout, r4) =>
  match readBE 4 r4 with
  | none => none
  | some (oi, r5) =>
  match readBool r5 with
  | none => none
  | some (inc, r6) =>
  match readVarBytes r6 with
  | none => none
  | some (blob, r7) =>
  match readBE 8 r7 with
  | none => none
  | some (hi, r8) =>
  match readBE 8 r8 with
  | none => none
  | some (li, r9) =>
    if blob.length < onionSize then none
    else some ({ sig := sig, rhash := rhash, amt := amt, timeout := timeout, outputIndex := ofU32 oi,
                 incoming := inc, onion := blob.take onionSize, extra := blob.drop onionSize,
                 htlcIndex := hi, logIndex := li }, r9)

/-- `SerializeHtlcs` -/
def encHtlcs (hs : List PHtlc) : Bytes :=
  beBytes 2 hs.length ++ (hs.map encHtlc).flatten

def decHtlcList : Nat → Bytes → Option (List PHtlc × Bytes)
  | 0, bs => some ([], bs)
  | n + 1, bs =>
    match decHtlc bs with
    | none => none
    | some (h, r) =>
      match decHtlcList n r with
      | none => none
      | some (hs, r') => some (h :: hs, r')

/-- `DeserializeHtlcs` -/
def decHtlcs (bs : Bytes) : Option (List PHtlc × Bytes) :=
  match readBE 2 bs with
  | none => none
  | some (n, r) => decHtlcList n r

/-- `HtlcSetKey` -/
structure PKey where
  isRemote : Bool
  isPending : Bool
deriving Repr, DecidableEq, Inhabited

def encKey (k : PKey) : Bytes := [boolByte k.isRemote, boolByte k.isPending]

def decKey (bs : Bytes) : Option (PKey × Bytes) :=
  match readBool bs with
  | none => none
  | some (a, r) =>
    match readBool r with
    | none => none
    | some (b, r') => some (⟨a, b⟩, r')

/-- the commit set as it lies on disk: the confirmed key and the sets in the order in which the
    Go map was iterated when it was written -/
structure PCommitSet where
  conf : PKey
  sets : List (PKey × List PHtlc)
deriving Repr, DecidableEq, Inhabited

def encSet (e : PKey × List PHtlc) : Bytes := encKey e.1 ++ encHtlcs e.2

/-- `encodeCommitSet` (`numSets` is a `uint8`) -/
def encCommitSet (c : PCommitSet) : Bytes :=
  encKey c.conf ++ ((c.sets.length % 256) :: (c.sets.map encSet).flatten)

def decSetList : Nat → Bytes → Option (List (PKey × List PHtlc) × Bytes)
  | 0, bs => some ([], bs)
  | n + 1, bs =>
    match decKey bs with
    | none => none
    | some (k, r) =>
      match decHtlcs r with
      | none => none
      | some (hs, r') =>
        match decSetList n r' with
        | none => none
        | some (l, r'') => some ((k, hs) :: l, r'')

/-- `decodeCommitSet` (trailing bytes are not looked at) -/
def decCommitSet (bs : Bytes) : Option PCommitSet :=
  match decKey bs with
  | none => none
  | some (k, r) =>
    match readBE 1 r with
    | none => none
    | some (n, r') =>
      match decSetList n r' with
      | none => none
      | some (l, _) => some ⟨k, l⟩

/-! ### from the persisted form to what the arbitrator classifies -/

def PHtlc.toHtlc (hashId : Bytes → Nat) (h : PHtlc) : Htlc :=
  { index := h.htlcIndex, incoming := h.incoming, amt := h.amt, refundTimeout := h.timeout,
    outputIndex := h.outputIndex, hash := hashId h.rhash }

def keyLoc : PKey := ⟨false, false⟩
def keyRem : PKey := ⟨true, false⟩
def keyPend : PKey := ⟨true, true⟩

def PKey.toSetKey (k : PKey) : Option SetKey :=
  if k = keyLoc then some .loc else if k = keyRem then some .rem
  else if k = keyPend then some .pend else none

/-- `c.HtlcSets[key]` after decoding: the LAST entry written for a key wins (map assignment) -/
def lookupSet (l : List (PKey × List PHtlc)) (k : PKey) : List PHtlc :=
  match (l.reverse.find? (fun e => e.1 == k)) with
  | some e => e.2
  | none => []

/-- `toActiveHTLCSets` -/
def PCommitSet.toSets (hashId : Bytes → Nat) (c : PCommitSet) : Sets :=
  { loc := newHtlcSet ((lookupSet c.sets keyLoc).map (PHtlc.toHtlc hashId)),
    rem := newHtlcSet ((lookupSet c.sets keyRem).map (PHtlc.toHtlc hashId)),
    pend := newHtlcSet ((lookupSet c.sets keyPend).map (PHtlc.toHtlc hashId)) }

def PCommitSet.toCommitSet (hashId : Bytes → Nat) (c : PCommitSet) : Option CommitSet :=
  match c.conf.toSetKey with
  | some k => some ⟨k, c.toSets hashId⟩
  | none => none

/-! ### restart of a channel that is already marked closed -/

/-- `channeldb.ClosureType` as far as `progressStateMachineAfterRestart` looks at it -/
inductive CloseType | coop | breach | localForce | remoteForce | other
deriving Repr, DecidableEq, Inhabited

def CloseType.trigger : CloseType → Trigger
  | .coop => .coopClose | .breach => .breachClose
  | .localForce => .localClose | .remoteForce => .remoteClose
  | .other => .chain

def isPreClose : AState → Bool
  | .default | .broadcastCommit | .commitmentBroadcasted => true
  | _ => false

/-- the trigger `progressStateMachineAfterRestart` uses for a pending-close channel -/
def restartTrigger (state : AState) (ct : CloseType) : Trigger :=
  if isPreClose state then ct.trigger else .chain

/-- what is on disk when the arbitrator of a closed channel starts: the logged state, the
    logged resolutions and the bytes under `commitSetKey` (`none`: never written, as after a
    cooperative close) -/
structure Disk where
  state : AState := .default
  resolutions : Option Resolutions := none
  commitSet : Option Bytes := none
  fcErr : FcErr := .none

/-- `ChainArbitrator` creates the arbitrator of a closing channel with EMPTY HTLC sets;
    `Start` reads the state and the commit set from the log (a commit set that does not decode
    makes `Start` fail: `none`), then `progressStateMachineAfterRestart` runs ONE `advanceState`
    at `ClosingHeight` with the rebuilt trigger and the decoded commit set. -/
def restartWith (adv : Arb → Nat → Trigger → Option CommitSet → Arb × Out)
    (hashId : Bytes → Nat) (d : Disk) (ct : CloseType) (closingHeight : Nat) : Option (Arb × Out) :=
  let a : Arb := { state := d.state, active := {}, resolutions := d.resolutions, fcErr := d.fcErr }
  match d.commitSet with
  | none => some (adv a closingHeight (restartTrigger d.state ct) none)
  | some bytes =>
    match decCommitSet bytes with
    | none => none
    | some p =>
      -- a decoded key that names no commitment makes `constructChainActions` fail; the harness
      -- never writes one
      match p.toCommitSet hashId with
      | none => none
      | some cs => some (adv a closingHeight (restartTrigger d.state ct) (some cs))

def restartPendingClose (env : Env) (hashId : Bytes → Nat) (d : Disk) (ct : CloseType)
    (closingHeight : Nat) (choice : AState → Bool) : Option (Arb × Out) :=
  restartWith (fun a h t c => advance env a h t c choice advanceFuel) hashId d ct closingHeight

/-- the same with preimage lookups that may fail hard (see `advanceE`) -/
def restartPendingCloseE (env : Env) (err : Nat → Bool) (hashId : Bytes → Nat) (d : Disk)
    (ct : CloseType) (closingHeight : Nat) (choice : AState → Bool) : Option (Arb × Out) :=
  restartWith (fun a h t c => advanceE env err a h t c choice advanceFuel) hashId d ct closingHeight

end LndModel.C12.Persist
