/-
C12 — lemmas about the action maps and about `advance` along the paths of the arbitrator state
machine (core Lean only).
-/
import LndModel.C12.Lemmas

namespace LndModel.C12

/-! ### chain trigger: empty / non-empty action map -/

theorem checkCommit_ne_nil_of_have (env : Env) (height : Nat) (trigger : Trigger) (s : HtlcSet)
    (hh : haveChainActions env height s = true) : checkCommit env height trigger s ≠ [] := by
  unfold checkCommit
  simp only [hh, Bool.not_true, Bool.false_and, Bool.false_eq_true, if_false]
  unfold haveChainActions at hh
  simp only [Bool.or_eq_true, List.any_eq_true] at hh
  intro hnil
  have := List.append_eq_nil_iff.mp hnil
  rcases hh with ⟨x, hx, _⟩ | ⟨x, hx, _⟩
  · have h1 := this.1
    rw [List.map_eq_nil_iff] at h1
    rw [h1] at hx; cases hx
  · have h1 := this.2
    rw [List.map_eq_nil_iff] at h1
    rw [h1] at hx; cases hx

theorem checkLocal_ne_nil_of_out (env : Env) (sets : Sets) (height : Nat) (pl : Bool) (h : Htlc)
    (hm : h ∈ sets.loc.outgoing) (hs : shouldGoOnChain env h env.deltaOut height = true) :
    checkLocal env height .chain sets false pl ≠ [] := by
  have hh : haveChainActions env height sets.loc = true := by
    unfold haveChainActions
    simp only [Bool.or_eq_true, List.any_eq_true]
    exact Or.inl ⟨h, hm, hs⟩
  have := checkCommit_ne_nil_of_have env height .chain sets.loc hh
  unfold checkLocal
  intro hnil
  exact this (List.append_eq_nil_iff.mp hnil).1

theorem checkLocal_ne_nil_of_in (env : Env) (sets : Sets) (height : Nat) (pl : Bool) (h : Htlc)
    (hm : h ∈ sets.loc.incoming) (hpre : env.preimageKnown h.hash = true)
    (hs : shouldGoOnChain env h env.deltaIn height = true) :
    checkLocal env height .chain sets false pl ≠ [] := by
  have hh : haveChainActions env height sets.loc = true := by
    unfold haveChainActions
    simp only [Bool.or_eq_true, List.any_eq_true, Bool.and_eq_true]
    exact Or.inr ⟨h, hm, hpre, hs⟩
  have := checkCommit_ne_nil_of_have env height .chain sets.loc hh
  unfold checkLocal
  intro hnil
  exact this (List.append_eq_nil_iff.mp hnil).1

theorem checkLocal_eq_nil (env : Env) (sets : Sets) (height : Nat) (pl : Bool)
    (hout : ∀ h ∈ sets.loc.outgoing ++ sets.rem.outgoing ++ sets.pend.outgoing,
      shouldGoOnChain env h env.deltaOut height = false)
    (hin : ∀ h ∈ sets.loc.incoming,
      env.preimageKnown h.hash = false ∨ shouldGoOnChain env h env.deltaIn height = false) :
    checkLocal env height .chain sets false pl = [] := by
  have hh : haveChainActions env height sets.loc = false := by
    unfold haveChainActions
    rw [Bool.or_eq_false_iff]
    constructor
    · rw [List.any_eq_false]
      intro x hx
      have := hout x (by simp [hx])
      simp [this]
    · rw [List.any_eq_false]
      intro x hx
      rcases hin x hx with h | h <;> simp [h]
  unfold checkLocal
  rw [List.append_eq_nil_iff]
  constructor
  · unfold checkCommit; simp [hh]
  · unfold checkRemoteDangling
    simp only [List.map_eq_nil_iff, List.filter_eq_nil_iff, List.mem_filter]
    intro x hx
    have hmem := mem_mergeRemote hx.1
    have : shouldGoOnChain env x env.deltaOut height = false := by
      apply hout
      rcases hmem with h | h <;> simp [h]
    simp [this]

/-! ### `advance` on a chain trigger from StateDefault -/

theorem advance_chain_stay (env : Env) (a : Arb) (height : Nat) (choice : AState → Bool)
    (hs : a.state = .default)
    (hnil : checkLocal env height .chain a.active false (choice .default) = []) :
    advance env a height .chain none choice advanceFuel = (a, {}) := by
  obtain ⟨st, act, r, f, ins⟩ := a
  simp only at hs hnil
  subst hs
  simp [advanceFuel, advance, stateStep, hnil]

theorem advance_chain_go (env : Env) (a : Arb) (height : Nat) (choice : AState → Bool)
    (hs : a.state = .default)
    (hne : checkLocal env height .chain a.active false (choice .default) ≠ []) :
    (advance env a height .chain none choice advanceFuel).2.forceClose = 1 ∧
    (advance env a height .chain none choice advanceFuel).1.state ≠ .default := by
  have hne' : (checkLocal env height .chain a.active false (choice .default)).isEmpty = false := by
    cases h : checkLocal env height .chain a.active false (choice .default) with
    | nil => exact absurd h hne
    | cons _ _ => rfl
  cases hf : a.fcErr <;>
    simp [advanceFuel, advance, stateStep, hs, hne', hf, Out.append]

/-! ### resolver-producing entries -/

theorem classifyOut_cases (env : Env) (height : Nat) (h : Htlc) (hnd : h.dust = false) :
    classifyOut env height h = .timeout ∨ classifyOut env height h = .outWatch := by
  unfold classifyOut
  simp only [hnd, Bool.false_eq_true, if_false]
  split
  · exact Or.inr rfl
  · exact Or.inl rfl

theorem filter_extra_resolver_nil (env : Env) (k : SetKey) (sets : Sets) (height : Nat) (pl : Bool)
    (p : Action × Htlc → Bool) :
    (extraOf env k sets height pl).filter (fun e => e.1.isResolver && p e) = [] := by
  rw [List.filter_eq_nil_iff]
  intro e he
  have := isFail_not_isResolver _ (extraOf_isFail env k sets height pl e he)
  simp [this]

theorem resolverEntries_out (env : Env) (k : SetKey) (sets : Sets) (height : Nat)
    (trigger : Trigger) (pl : Bool) (hwf : WFSet (sets.get k)) (ht : trigger ≠ .chain)
    (h : Htlc) (hm : h ∈ (sets.get k).outgoing) (hnd : h.dust = false) :
    (construct env k sets height trigger pl).filter
        (fun e => e.1.isResolver && !e.2.incoming && e.2.index == h.index)
      = [(classifyOut env height h, h)] := by
  rw [construct_eq, List.filter_append, checkCommit_nonchain _ _ _ _ ht, List.filter_append]
  have h3 : (extraOf env k sets height pl).filter
      (fun e => e.1.isResolver && !e.2.incoming && e.2.index == h.index) = [] := by
    have := filter_extra_resolver_nil env k sets height pl
      (fun e => !e.2.incoming && e.2.index == h.index)
    simpa [Bool.and_assoc] using this
  have h2 : ((sets.get k).incoming.map (fun h => (classifyIn h, h))).filter
      (fun e => e.1.isResolver && !e.2.incoming && e.2.index == h.index) = [] := by
    rw [List.filter_eq_nil_iff]
    intro e he
    simp only [List.mem_map] at he
    obtain ⟨x, hx, rfl⟩ := he
    simp [hwf.inDir x hx]
  have h1 : ((sets.get k).outgoing.map (fun h => (classifyOut env height h, h))).filter
      (fun e => e.1.isResolver && !e.2.incoming && e.2.index == h.index)
      = [(classifyOut env height h, h)] := by
    rw [List.filter_map]
    have : (sets.get k).outgoing.filter
        ((fun e : Action × Htlc => e.1.isResolver && !e.2.incoming && e.2.index == h.index) ∘
          (fun h => (classifyOut env height h, h))) = [h] := by
      apply filter_eq_singleton _ hwf.outNodup hm
      · simp [classifyOut_isResolver, hnd, hwf.outDir h hm]
      · intro x _ hx
        simp only [Function.comp, Bool.and_eq_true, beq_iff_eq] at hx
        exact hx.2
    rw [this]; rfl
  rw [h1, h2, h3]; rfl

theorem resolverEntries_in (env : Env) (k : SetKey) (sets : Sets) (height : Nat)
    (trigger : Trigger) (pl : Bool) (hwf : WFSet (sets.get k)) (ht : trigger ≠ .chain)
    (h : Htlc) (hm : h ∈ (sets.get k).incoming) (hnd : h.dust = false) :
    (construct env k sets height trigger pl).filter
        (fun e => e.1.isResolver && e.2.incoming && e.2.index == h.index)
      = [(.inWatch, h)] := by
  rw [construct_eq, List.filter_append, checkCommit_nonchain _ _ _ _ ht, List.filter_append]
  have h3 : (extraOf env k sets height pl).filter
      (fun e => e.1.isResolver && e.2.incoming && e.2.index == h.index) = [] := by
    have := filter_extra_resolver_nil env k sets height pl
      (fun e => e.2.incoming && e.2.index == h.index)
    simpa [Bool.and_assoc] using this
  have h1 : ((sets.get k).outgoing.map (fun h => (classifyOut env height h, h))).filter
      (fun e => e.1.isResolver && e.2.incoming && e.2.index == h.index) = [] := by
    rw [List.filter_eq_nil_iff]
    intro e he
    simp only [List.mem_map] at he
    obtain ⟨x, hx, rfl⟩ := he
    simp [hwf.outDir x hx]
  have h2 : ((sets.get k).incoming.map (fun h => (classifyIn h, h))).filter
      (fun e => e.1.isResolver && e.2.incoming && e.2.index == h.index)
      = [(.inWatch, h)] := by
    rw [List.filter_map]
    have : (sets.get k).incoming.filter
        ((fun e : Action × Htlc => e.1.isResolver && e.2.incoming && e.2.index == h.index) ∘
          (fun h => (classifyIn h, h))) = [h] := by
      apply filter_eq_singleton _ hwf.inNodup hm
      · simp [classifyIn_isResolver, hnd, hwf.inDir h hm]
      · intro x _ hx
        simp only [Function.comp, Bool.and_eq_true, beq_iff_eq] at hx
        exact hx.2
    rw [this]
    simp [classifyIn, hnd]
  rw [h1, h2, h3]; rfl

theorem resolver_entry_confirmed (env : Env) (k : SetKey) (sets : Sets) (height : Nat)
    (trigger : Trigger) (pl : Bool) (e : Action × Htlc)
    (he : e ∈ construct env k sets height trigger pl) (hr : e.1.isResolver = true) :
    e.2.dust = false ∧ (e.2 ∈ (sets.get k).outgoing ∨ e.2 ∈ (sets.get k).incoming) := by
  rw [construct_eq, List.mem_append] at he
  rcases he with he | he
  · unfold checkCommit at he
    split at he
    · cases he
    · rw [List.mem_append] at he
      rcases he with he | he
      · simp only [List.mem_map] at he
        obtain ⟨x, hx, rfl⟩ := he
        rw [classifyOut_isResolver] at hr
        exact ⟨by simpa using hr, Or.inl hx⟩
      · simp only [List.mem_map] at he
        obtain ⟨x, hx, rfl⟩ := he
        rw [classifyIn_isResolver] at hr
        exact ⟨by simpa using hr, Or.inr hx⟩
  · have := isFail_not_isResolver _ (extraOf_isFail env k sets height pl e he)
    rw [this] at hr; cases hr

/-! ### fail entries -/

theorem fail_entry_index_ne (env : Env) (k : SetKey) (sets : Sets) (height : Nat)
    (trigger : Trigger) (pl : Bool) (hwf : WFSet (sets.get k))
    (h : Htlc) (hm : h ∈ (sets.get k).outgoing) (hnd : h.dust = false) :
    ∀ e ∈ construct env k sets height trigger pl, e.1.isFail = true → e.2.index ≠ h.index := by
  intro e he hf
  rw [construct_eq, List.mem_append] at he
  rcases he with he | he
  · unfold checkCommit at he
    split at he
    · cases he
    · rw [List.mem_append] at he
      rcases he with he | he
      · simp only [List.mem_map] at he
        obtain ⟨x, hx, rfl⟩ := he
        rw [classifyOut_isFail] at hf
        intro hidx
        have := eq_of_index_eq hwf.outNodup hx hm hidx
        subst this
        rw [hnd] at hf; cases hf
      · simp only [List.mem_map] at he
        obtain ⟨x, hx, rfl⟩ := he
        rw [classifyIn_isFail] at hf; cases hf
  · intro hidx
    apply extraOf_index_notin env k sets height pl e he
    rw [hidx]
    exact List.mem_map.mpr ⟨h, hm, rfl⟩

/-! ### from entries to resolvers -/

/-- where an entry of `constructChainActions` comes from. -/
theorem construct_entry_cases (env : Env) (k : SetKey) (sets : Sets) (height : Nat)
    (trigger : Trigger) (pl : Bool) (hwf : WFSet (sets.get k)) (e : Action × Htlc)
    (he : e ∈ construct env k sets height trigger pl) :
    (e.2 ∈ (sets.get k).outgoing ∧ e.1 = classifyOut env height e.2 ∧ e.2.incoming = false) ∨
    (e.2 ∈ (sets.get k).incoming ∧ e.1 = classifyIn e.2 ∧ e.2.incoming = true) ∨
    e.1.isFail = true := by
  rw [construct_eq, List.mem_append] at he
  rcases he with he | he
  · unfold checkCommit at he
    split at he
    · cases he
    · rw [List.mem_append] at he
      rcases he with he | he
      · simp only [List.mem_map] at he
        obtain ⟨x, hx, rfl⟩ := he
        exact Or.inl ⟨hx, rfl, hwf.outDir x hx⟩
      · simp only [List.mem_map] at he
        obtain ⟨x, hx, rfl⟩ := he
        exact Or.inr (Or.inl ⟨hx, rfl, hwf.inDir x hx⟩)
  · exact Or.inr (Or.inr (extraOf_isFail env k sets height pl e he))

theorem flatMap_filter_eq {α β : Type} (m : List α) (f : α → List β) (P : β → Bool) (E : α → Bool)
    (h : ∀ e ∈ m, (f e).filter P = if E e then f e else []) :
    (m.flatMap f).filter P = (m.filter E).flatMap f := by
  induction m with
  | nil => simp
  | cons x xs ih =>
    have hx := h x (by simp)
    have ih' := ih (fun e he => h e (by simp [he]))
    simp only [List.flatMap_cons, List.filter_append, hx, ih', List.filter_cons]
    cases hE : E x <;> simp

theorem classifyOut_tri (env : Env) (height : Nat) (x : Htlc) :
    (x.dust = true ∧ classifyOut env height x = .failDust) ∨
    (x.dust = false ∧ classifyOut env height x = .outWatch) ∨
    (x.dust = false ∧ classifyOut env height x = .timeout) := by
  unfold classifyOut
  by_cases hd : x.dust = true
  · simp [hd]
  · have hd' : x.dust = false := by simpa using hd
    by_cases hg : (!shouldGoOnChain env x env.deltaOut height) = true
    · simp [hd', hg]
    · simp [hd', hg]

theorem classifyIn_di (x : Htlc) :
    (x.dust = true ∧ classifyIn x = .inDustFinal) ∨ (x.dust = false ∧ classifyIn x = .inWatch) := by
  unfold classifyIn
  by_cases hd : x.dust = true
  · simp [hd]
  · have hd' : x.dust = false := by simpa using hd
    simp [hd']

/-- entries as (constructor, htlc, direction) alternatives. -/
theorem construct_entry_cases' (env : Env) (k : SetKey) (sets : Sets) (height : Nat)
    (trigger : Trigger) (pl : Bool) (hwf : WFSet (sets.get k)) (e : Action × Htlc)
    (he : e ∈ construct env k sets height trigger pl) :
    ((e.1 = .outWatch ∨ e.1 = .timeout) ∧ e.2.incoming = false) ∨
    (e.1 = .inWatch ∧ e.2.incoming = true) ∨
    e.1 = .failDust ∨ e.1 = .failDangling ∨ e.1 = .inDustFinal := by
  rcases construct_entry_cases env k sets height trigger pl hwf e he with ⟨_, h1, h2⟩ | ⟨_, h1, h2⟩ | h1
  · rcases classifyOut_tri env height e.2 with ⟨_, h⟩ | ⟨_, h⟩ | ⟨_, h⟩
    · exact Or.inr (Or.inr (Or.inl (h1.trans h)))
    · exact Or.inl ⟨Or.inl (h1.trans h), h2⟩
    · exact Or.inl ⟨Or.inr (h1.trans h), h2⟩
  · rcases classifyIn_di e.2 with ⟨_, h⟩ | ⟨_, h⟩
    · exact Or.inr (Or.inr (Or.inr (Or.inr (h1.trans h))))
    · exact Or.inr (Or.inl ⟨h1.trans h, h2⟩)
  · obtain ⟨a, x⟩ := e
    cases a <;> first | exact Or.inr (Or.inr (Or.inl rfl)) | exact Or.inr (Or.inr (Or.inr (Or.inl rfl))) | cases h1

theorem resolverFor_out_filter (env : Env) (k : SetKey) (sets : Sets) (height : Nat)
    (trigger : Trigger) (pl : Bool) (res : Resolutions) (hwf : WFSet (sets.get k)) (i : Nat)
    (e : Action × Htlc) (he : e ∈ construct env k sets height trigger pl) :
    (resolverFor res e).filter (fun r => (r.1 == .timeout || r.1 == .outContest) && r.2 == i) =
      if (e.1.isResolver && !e.2.incoming && e.2.index == i) then resolverFor res e else [] := by
  have hc := construct_entry_cases' env k sets height trigger pl hwf e he
  clear he
  obtain ⟨a, x⟩ := e
  simp only at hc
  rcases hc with ⟨h1 | h1, h2⟩ | ⟨h1, h2⟩ | h1 | h1 | h1 <;> subst h1 <;>
    simp only [resolverFor, Action.isResolver]
  · by_cases hc : res.outOuts.contains (outU32 x) = true <;> by_cases hi : x.index = i <;>
      simp [hc, hi, h2]
  · by_cases hc : res.outOuts.contains (outU32 x) = true <;> by_cases hi : x.index = i <;>
      simp [hc, hi, h2]
  · by_cases hc : res.inOuts.contains (outU32 x) = true <;> simp [hc, h2]
  all_goals simp

theorem resolverFor_in_filter (env : Env) (k : SetKey) (sets : Sets) (height : Nat)
    (trigger : Trigger) (pl : Bool) (res : Resolutions) (hwf : WFSet (sets.get k)) (i : Nat)
    (e : Action × Htlc) (he : e ∈ construct env k sets height trigger pl) :
    (resolverFor res e).filter (fun r => (r.1 == .inContest || r.1 == .success) && r.2 == i) =
      if (e.1.isResolver && e.2.incoming && e.2.index == i) then resolverFor res e else [] := by
  have hc := construct_entry_cases' env k sets height trigger pl hwf e he
  clear he
  obtain ⟨a, x⟩ := e
  simp only at hc
  rcases hc with ⟨h1 | h1, h2⟩ | ⟨h1, h2⟩ | h1 | h1 | h1 <;> subst h1 <;>
    simp only [resolverFor, Action.isResolver]
  · by_cases hc : res.outOuts.contains (outU32 x) = true <;> simp [hc, h2]
  · by_cases hc : res.outOuts.contains (outU32 x) = true <;> simp [hc, h2]
  · by_cases hc : res.inOuts.contains (outU32 x) = true <;> by_cases hi : x.index = i <;>
      simp [hc, hi, h2]
  all_goals simp

theorem resolvers_out_count (env : Env) (k : SetKey) (sets : Sets) (height : Nat)
    (trigger : Trigger) (pl : Bool) (res : Resolutions) (hb : res.breach = false)
    (hwf : WFSet (sets.get k)) (ht : trigger ≠ .chain)
    (h : Htlc) (hm : h ∈ (sets.get k).outgoing) (hnd : h.dust = false) :
    ((prepResolvers res (construct env k sets height trigger pl)).filter
        (fun r => (r.1 == .timeout || r.1 == .outContest) && r.2 == h.index)).length
      = if res.outOuts.contains (outU32 h) then 1 else 0 := by
  unfold prepResolvers
  simp only [hb, Bool.false_eq_true, if_false, List.filter_append]
  have h1 : (if res.anchor = true then [(RKind.anchor, 0)] else []).filter
      (fun r => (r.1 == RKind.timeout || r.1 == .outContest) && r.2 == h.index) = [] := by
    cases res.anchor <;> simp
  have h3 : (if res.commit = true then [(RKind.commitSweep, 0)] else []).filter
      (fun r => (r.1 == RKind.timeout || r.1 == .outContest) && r.2 == h.index) = [] := by
    cases res.commit <;> simp
  rw [h1, h3, flatMap_filter_eq _ _ _ _
    (resolverFor_out_filter env k sets height trigger pl res hwf h.index),
    resolverEntries_out env k sets height trigger pl hwf ht h hm hnd]
  rcases classifyOut_cases env height h hnd with hc | hc <;>
    (simp only [List.flatMap_cons, List.flatMap_nil, hc, resolverFor]
     by_cases hcc : outU32 h ∈ res.outOuts <;> simp [hcc])

theorem resolvers_in_count (env : Env) (k : SetKey) (sets : Sets) (height : Nat)
    (trigger : Trigger) (pl : Bool) (res : Resolutions) (hb : res.breach = false)
    (hwf : WFSet (sets.get k)) (ht : trigger ≠ .chain)
    (h : Htlc) (hm : h ∈ (sets.get k).incoming) (hnd : h.dust = false) :
    ((prepResolvers res (construct env k sets height trigger pl)).filter
        (fun r => (r.1 == .inContest || r.1 == .success) && r.2 == h.index)).length
      = if res.inOuts.contains (outU32 h) then 1 else 0 := by
  unfold prepResolvers
  simp only [hb, Bool.false_eq_true, if_false, List.filter_append]
  have h1 : (if res.anchor = true then [(RKind.anchor, 0)] else []).filter
      (fun r => (r.1 == RKind.inContest || r.1 == .success) && r.2 == h.index) = [] := by
    cases res.anchor <;> simp
  have h3 : (if res.commit = true then [(RKind.commitSweep, 0)] else []).filter
      (fun r => (r.1 == RKind.inContest || r.1 == .success) && r.2 == h.index) = [] := by
    cases res.commit <;> simp
  rw [h1, h3, flatMap_filter_eq _ _ _ _
    (resolverFor_in_filter env k sets height trigger pl res hwf h.index),
    resolverEntries_in env k sets height trigger pl hwf ht h hm hnd]
  simp only [List.flatMap_cons, List.flatMap_nil, resolverFor]
  by_cases hcc : outU32 h ∈ res.inOuts <;> simp [hcc]

/-! ### `advance` state by state -/

@[simp] theorem Out.empty_append (o : Out) : Out.append {} o = o := by
  cases o; simp [Out.append]

@[simp] theorem Out.append_empty (o : Out) : Out.append o {} = o := by
  cases o; simp [Out.append]

theorem advance_fr (env : Env) (a : Arb) (height : Nat) (trig : Trigger) (conf : Option CommitSet)
    (choice : AState → Bool) (fuel : Nat) (hs : a.state = .fullyResolved) :
    (advance env a height trig conf choice (fuel + 1)).2 = {} ∧
    (advance env a height trig conf choice (fuel + 1)).1.state = .fullyResolved := by
  obtain ⟨st, act, r, f, ins⟩ := a
  simp only at hs; subst hs
  simp [advance, stateStep]

theorem advance_wfr (env : Env) (a : Arb) (height : Nat) (trig : Trigger) (conf : Option CommitSet)
    (choice : AState → Bool) (fuel : Nat) (hs : a.state = .waitingFullResolution) :
    (advance env a height trig conf choice (fuel + 2)).2 = {} := by
  obtain ⟨st, act, r, f, ins⟩ := a
  simp only at hs; subst hs
  by_cases hi : ins = 0
  · subst hi
    simp [advance, stateStep]
  · simp [advance, stateStep, hi]

/-- what the `StateContractClosed` step emits (no breach). -/
def ccOut (env : Env) (cs : CommitSet) (res : Resolutions) (height : Nat) (trig : Trigger) (pl : Bool) : Out :=
  if res.isEmpty && cs.sets.isEmpty then {}
  else
    let actions := construct env cs.key cs.sets height trig pl
    { finals := (actionsOf actions .inDustFinal).map (·.index),
      fails := failBatch (indexSet (actionsOf actions .failDangling)),
      resolvers := prepResolvers res actions }

theorem advance_cc (env : Env) (a : Arb) (height : Nat) (trig : Trigger) (cs : CommitSet)
    (res : Resolutions) (choice : AState → Bool) (fuel : Nat) (hs : a.state = .contractClosed)
    (hr : a.resolutions = some res) (hb : res.breach = false) :
    (advance env a height trig (some cs) choice (fuel + 3)).2 =
      ccOut env cs res height trig (choice .contractClosed) := by
  obtain ⟨st, act, r, f, ins⟩ := a
  simp only at hs hr; subst hs hr
  unfold ccOut
  by_cases he : (res.isEmpty && cs.sets.isEmpty) = true
  · rw [advance]
    simp only [stateStep, he, if_true]
    simp
    exact (advance_fr env _ height trig (some cs) choice (fuel + 1) rfl).1
  · rw [advance]
    simp only [stateStep, he, hb]
    simp
    rw [advance_wfr env _ height trig (some cs) choice fuel rfl]
    simp

def isCloseTrig (t : Trigger) : Prop := t = .remoteClose ∨ t = .localClose

/-- close trigger from StateBroadcastCommit / StateCommitmentBroadcasted: only the
    StateContractClosed step emits anything. -/
theorem advance_broadcast_close (env : Env) (a : Arb) (height : Nat) (trig : Trigger)
    (cs : CommitSet) (res : Resolutions) (choice : AState → Bool)
    (htrig : isCloseTrig trig)
    (hs : a.state = .broadcastCommit ∨ a.state = .commitmentBroadcasted)
    (hr : a.resolutions = some res) (hb : res.breach = false) :
    (advance env a height trig (some cs) choice advanceFuel).2 =
      ccOut env cs res height trig (choice .contractClosed) := by
  obtain ⟨st, act, r, f, ins⟩ := a
  simp only at hs hr; subst hr
  rcases hs with rfl | rfl <;> rcases htrig with rfl | rfl <;>
  · rw [advanceFuel, advance]
    simp only [stateStep]
    simp
    exact advance_cc env _ height _ cs res choice 4 rfl rfl hb

/-- close trigger from StateDefault: the StateDefault step fails the `FailDust` entries, then
    the StateContractClosed step runs. -/
theorem advance_default_close (env : Env) (a : Arb) (height : Nat) (trig : Trigger)
    (cs : CommitSet) (res : Resolutions) (choice : AState → Bool)
    (htrig : isCloseTrig trig)
    (hs : a.state = .default)
    (hr : a.resolutions = some res) (hb : res.breach = false) :
    (advance env a height trig (some cs) choice advanceFuel).2 =
      Out.append
        { fails := failBatch (indexSet (actionsOf
            (construct env cs.key cs.sets height trig (choice .default)) .failDust)) }
        (ccOut env cs res height trig (choice .contractClosed)) := by
  obtain ⟨st, act, r, f, ins⟩ := a
  simp only at hs hr; subst hr hs
  rcases htrig with rfl | rfl <;>
  · rw [advanceFuel, advance]
    simp only [stateStep]
    simp
    rw [advance_cc env _ height _ cs res choice 4 rfl rfl hb]

theorem flatten_failBatch (l : List Nat) : (failBatch l).flatten = l := by
  unfold failBatch
  cases l <;> simp

theorem actionsOf_append (m1 m2 : ActionMap) (a : Action) :
    actionsOf (m1 ++ m2) a = actionsOf m1 a ++ actionsOf m2 a := by
  simp [actionsOf]

theorem actionsOf_map (l : List Htlc) (f : Htlc → Action) (a : Action) :
    actionsOf (l.map (fun h => (f h, h))) a = l.filter (fun h => f h == a) := by
  induction l with
  | nil => rfl
  | cons x xs ih =>
    simp only [actionsOf, List.map_cons, List.filter_cons] at *
    cases h : f x == a <;> simp [ih]

theorem mem_actionsOf {m : ActionMap} {a : Action} {x : Htlc} (h : x ∈ actionsOf m a) :
    (a, x) ∈ m := by
  simp only [actionsOf, List.mem_map, List.mem_filter, beq_iff_eq] at h
  obtain ⟨e, ⟨he, h1⟩, rfl⟩ := h
  rw [← h1]; exact he

theorem construct_of_isEmpty (env : Env) (k : SetKey) (sets : Sets) (height : Nat) (trig : Trigger)
    (pl : Bool) (he : sets.isEmpty = true) : construct env k sets height trig pl = [] := by
  simp only [Sets.isEmpty, HtlcSet.isEmpty, Bool.and_eq_true, List.isEmpty_iff] at he
  obtain ⟨⟨⟨h1, h2⟩, ⟨h3, h4⟩⟩, ⟨h5, h6⟩⟩ := he
  cases k <;>
    simp [construct, checkLocal, checkRemote, checkCommit, checkRemoteDangling, checkRemoteDiff,
      mergeRemote, confRemote, otherRemote, h1, h2, h3, h4, h5, h6]

theorem ccOut_fails_flatten (env : Env) (cs : CommitSet) (res : Resolutions) (height : Nat)
    (trig : Trigger) (pl : Bool) :
    (ccOut env cs res height trig pl).fails.flatten =
      indexSet (actionsOf (construct env cs.key cs.sets height trig pl) .failDangling) := by
  unfold ccOut
  by_cases he : (res.isEmpty && cs.sets.isEmpty) = true
  · have h2 : cs.sets.isEmpty = true := by
      simp only [Bool.and_eq_true] at he; exact he.2
    simp [he, construct_of_isEmpty env cs.key cs.sets height trig pl h2, actionsOf, indexSet, dedupNat]
  · simp [he, flatten_failBatch]

/-- every upstream fail issued while handling a confirmation is a `FailDust`/`FailDangling`
    entry of `constructChainActions` for the confirmed commitment. -/
theorem close_fail_is_entry (env : Env) (a : Arb) (cs : CommitSet) (res : Resolutions)
    (height : Nat) (choice : AState → Bool) (trig : Trigger) (htrig : isCloseTrig trig)
    (hpre : a.state = .default ∨ a.state = .broadcastCommit ∨ a.state = .commitmentBroadcasted)
    (hr : a.resolutions = some res) (hb : res.breach = false) (i : Nat)
    (hi : i ∈ (advance env a height trig (some cs) choice advanceFuel).2.fails.flatten) :
    ∃ pl, ∃ e ∈ construct env cs.key cs.sets height trig pl, e.1.isFail = true ∧ e.2.index = i := by
  rcases hpre with hs | hs
  · rw [advance_default_close env a height trig cs res choice htrig hs hr hb] at hi
    simp only [Out.append, List.flatten_append, List.mem_append, flatten_failBatch,
      ccOut_fails_flatten] at hi
    rcases hi with hi | hi
    · simp only [indexSet, mem_dedupNat, List.mem_map] at hi
      obtain ⟨x, hx, rfl⟩ := hi
      exact ⟨_, _, mem_actionsOf hx, rfl, rfl⟩
    · simp only [indexSet, mem_dedupNat, List.mem_map] at hi
      obtain ⟨x, hx, rfl⟩ := hi
      exact ⟨_, _, mem_actionsOf hx, rfl, rfl⟩
  · rw [advance_broadcast_close env a height trig cs res choice htrig hs hr hb] at hi
    simp only [ccOut_fails_flatten, indexSet, mem_dedupNat, List.mem_map] at hi
    obtain ⟨x, hx, rfl⟩ := hi
    exact ⟨_, _, mem_actionsOf hx, rfl, rfl⟩

theorem close_fails_no_output (env : Env) (a : Arb) (cs : CommitSet) (res : Resolutions)
    (height : Nat) (choice : AState → Bool) (isLocal : Bool)
    (hpre : a.state = .default ∨ a.state = .broadcastCommit ∨ a.state = .commitmentBroadcasted)
    (hb : res.breach = false) (hwf : WFSet (cs.sets.get cs.key))
    (h : Htlc) (hm : h ∈ (cs.sets.get cs.key).outgoing) (hnd : h.dust = false) :
    h.index ∉ (handleClose env a
      (if isLocal then .localForce cs res height else .remoteForce cs res height) choice).2.fails.flatten := by
  intro hi
  cases isLocal
  · simp only [Bool.false_eq_true, if_false, handleClose] at hi
    obtain ⟨pl, e, he, hf, hidx⟩ := close_fail_is_entry env { a with resolutions := some res } cs res
      height choice .remoteClose (Or.inl rfl) hpre rfl hb _ hi
    exact fail_entry_index_ne env cs.key cs.sets height _ pl hwf h hm hnd e he hf hidx
  · simp only [if_true, handleClose] at hi
    obtain ⟨pl, e, he, hf, hidx⟩ := close_fail_is_entry env { a with resolutions := some res } cs res
      height choice .localClose (Or.inr rfl) hpre rfl hb _ hi
    exact fail_entry_index_ne env cs.key cs.sets height _ pl hwf h hm hnd e he hf hidx

/-! ### remote commitment confirmed while in StateDefault -/

def remoteKey (b : Bool) : SetKey := if b then .pend else .rem

/-- the dangling list of `checkRemoteDiffActions`. -/
def diffList (env : Env) (sets : Sets) (b : Bool) : List Htlc :=
  (otherRemote sets b).outgoing.filter (fun h =>
      !hasIndex (confRemote sets b).outgoing h.index && !env.preimageKnown h.hash)

theorem construct_remoteKey (env : Env) (sets : Sets) (height : Nat) (trig : Trigger) (pl b : Bool) :
    construct env (remoteKey b) sets height trig pl = checkRemote env height trig sets b := by
  cases b <;> rfl

theorem classifyOut_beq_failDust (env : Env) (height : Nat) (h : Htlc) :
    (classifyOut env height h == Action.failDust) = h.dust := by
  rcases classifyOut_tri env height h with ⟨h1, h2⟩ | ⟨h1, h2⟩ | ⟨h1, h2⟩ <;> rw [h1, h2] <;> rfl

theorem classifyOut_beq_failDangling (env : Env) (height : Nat) (h : Htlc) :
    (classifyOut env height h == Action.failDangling) = false := by
  rcases classifyOut_tri env height h with ⟨_, h2⟩ | ⟨_, h2⟩ | ⟨_, h2⟩ <;> rw [h2] <;> rfl

theorem classifyIn_beq_failDust (h : Htlc) : (classifyIn h == Action.failDust) = false := by
  rcases classifyIn_di h with ⟨_, h2⟩ | ⟨_, h2⟩ <;> rw [h2] <;> rfl

theorem classifyIn_beq_failDangling (h : Htlc) : (classifyIn h == Action.failDangling) = false := by
  rcases classifyIn_di h with ⟨_, h2⟩ | ⟨_, h2⟩ <;> rw [h2] <;> rfl

theorem classifyIn_beq_inDustFinal (h : Htlc) : (classifyIn h == Action.inDustFinal) = h.dust := by
  rcases classifyIn_di h with ⟨h1, h2⟩ | ⟨h1, h2⟩ <;> rw [h1, h2] <;> rfl

theorem classifyOut_beq_inDustFinal (env : Env) (height : Nat) (h : Htlc) :
    (classifyOut env height h == Action.inDustFinal) = false := by
  rcases classifyOut_tri env height h with ⟨_, h2⟩ | ⟨_, h2⟩ | ⟨_, h2⟩ <;> rw [h2] <;> rfl

theorem classifyDangling_beq_failDust (h : Htlc) : (classifyDangling h == Action.failDust) = h.dust := by
  unfold classifyDangling; cases hd : h.dust <;> rfl

theorem classifyDangling_beq_failDangling (h : Htlc) :
    (classifyDangling h == Action.failDangling) = !h.dust := by
  unfold classifyDangling; cases hd : h.dust <;> rfl

theorem classifyDangling_beq_inDustFinal (h : Htlc) :
    (classifyDangling h == Action.inDustFinal) = false := by
  unfold classifyDangling; cases hd : h.dust <;> rfl

theorem filter_const_false {α : Type} (l : List α) : l.filter (fun _ => false) = [] := by
  induction l <;> simp_all

theorem checkRemote_failDust (env : Env) (height : Nat) (trig : Trigger) (sets : Sets) (b : Bool)
    (ht : trig ≠ .chain) :
    actionsOf (checkRemote env height trig sets b) .failDust =
      (confRemote sets b).outgoing.filter (·.dust) ++ (diffList env sets b).filter (·.dust) := by
  unfold checkRemote checkRemoteDiff
  rw [checkCommit_nonchain _ _ _ _ ht]
  simp only [actionsOf_append, actionsOf_map, classifyOut_beq_failDust, classifyIn_beq_failDust,
    classifyDangling_beq_failDust, filter_const_false, List.append_nil, diffList]

theorem checkRemote_failDangling (env : Env) (height : Nat) (trig : Trigger) (sets : Sets) (b : Bool)
    (ht : trig ≠ .chain) :
    actionsOf (checkRemote env height trig sets b) .failDangling =
      (diffList env sets b).filter (fun h => !h.dust) := by
  unfold checkRemote checkRemoteDiff
  rw [checkCommit_nonchain _ _ _ _ ht]
  simp only [actionsOf_append, actionsOf_map, classifyOut_beq_failDangling,
    classifyIn_beq_failDangling, classifyDangling_beq_failDangling, filter_const_false,
    List.append_nil, List.nil_append, diffList]

theorem checkRemote_inDustFinal (env : Env) (height : Nat) (trig : Trigger) (sets : Sets) (b : Bool)
    (ht : trig ≠ .chain) :
    actionsOf (checkRemote env height trig sets b) .inDustFinal =
      (confRemote sets b).incoming.filter (·.dust) := by
  unfold checkRemote checkRemoteDiff
  rw [checkCommit_nonchain _ _ _ _ ht]
  simp only [actionsOf_append, actionsOf_map, classifyOut_beq_inDustFinal,
    classifyIn_beq_inDustFinal, classifyDangling_beq_inDustFinal, filter_const_false,
    List.append_nil, List.nil_append]

theorem close_default_remote_fails (env : Env) (a : Arb) (sets : Sets)
    (res : Resolutions) (height : Nat) (choice : AState → Bool) (b : Bool)
    (hs : a.state = .default) (hb : res.breach = false)
    (hwfo : WFSet (otherRemote sets b)) (i : Nat) :
    (handleClose env a (.remoteForce ⟨remoteKey b, sets⟩ res height) choice).2.fails.flatten.count i
      = if i ∈ ((confRemote sets b).outgoing.filter (·.dust)).map (·.index) ++
            ((otherRemote sets b).outgoing.filter (fun h =>
              !hasIndex (confRemote sets b).outgoing h.index && !env.preimageKnown h.hash)).map (·.index)
        then 1 else 0 := by
  simp only [handleClose]
  rw [advance_default_close env { a with resolutions := some res } height .remoteClose
    ⟨remoteKey b, sets⟩ res choice (Or.inl rfl) hs rfl hb]
  simp only [Out.append, List.flatten_append, flatten_failBatch, ccOut_fails_flatten,
    List.count_append, count_indexSet, construct_remoteKey,
    checkRemote_failDust env height .remoteClose sets b (by decide),
    checkRemote_failDangling env height .remoteClose sets b (by decide)]
  have hD : diffList env sets b = (otherRemote sets b).outgoing.filter (fun h =>
      !hasIndex (confRemote sets b).outgoing h.index && !env.preimageKnown h.hash) := rfl
  rw [← hD]
  -- the five facts
  have hDn : NodupIdx (diffList env sets b) := NodupIdx.filter _ hwfo.outNodup
  have F4 : ∀ x ∈ diffList env sets b, x.index ∉ (confRemote sets b).outgoing.map (·.index) := by
    intro x hx hc
    have h1 := (List.mem_filter.mp hx).2
    simp only [Bool.and_eq_true, Bool.not_eq_true'] at h1
    have := (hasIndex_iff _ _).mpr hc
    rw [h1.1] at this; cases this
  by_cases hA : i ∈ ((confRemote sets b).outgoing.filter (·.dust)).map (·.index)
  · have hnD : i ∉ (diffList env sets b).map (·.index) := by
      intro hc
      obtain ⟨x, hx, rfl⟩ := List.mem_map.mp hc
      obtain ⟨y, hy, hyx⟩ := List.mem_map.mp hA
      exact F4 x hx (List.mem_map.mpr ⟨y, (List.mem_filter.mp hy).1, hyx⟩)
    have hnDn : i ∉ ((diffList env sets b).filter (fun h => !h.dust)).map (·.index) := by
      intro hc
      obtain ⟨x, hx, rfl⟩ := List.mem_map.mp hc
      exact hnD (List.mem_map.mpr ⟨x, (List.mem_filter.mp hx).1, rfl⟩)
    simp [hA, hnDn]
  · by_cases hDd : i ∈ ((diffList env sets b).filter (·.dust)).map (·.index)
    · have hnDn : i ∉ ((diffList env sets b).filter (fun h => !h.dust)).map (·.index) := by
        intro hc
        obtain ⟨x, hx, rfl⟩ := List.mem_map.mp hc
        obtain ⟨y, hy, hyx⟩ := List.mem_map.mp hDd
        have hx' := List.mem_filter.mp hx
        have hy' := List.mem_filter.mp hy
        have := eq_of_index_eq hDn hy'.1 hx'.1 hyx
        subst this
        have h1 := hx'.2; have h2 := hy'.2
        simp only [Bool.not_eq_true'] at h1
        rw [h1] at h2; cases h2
      have hD' : i ∈ (diffList env sets b).map (·.index) := by
        obtain ⟨y, hy, hyx⟩ := List.mem_map.mp hDd
        exact List.mem_map.mpr ⟨y, (List.mem_filter.mp hy).1, hyx⟩
      simp [hA, hDd, hnDn, hD']
    · by_cases hDn' : i ∈ ((diffList env sets b).filter (fun h => !h.dust)).map (·.index)
      · have hD' : i ∈ (diffList env sets b).map (·.index) := by
          obtain ⟨y, hy, hyx⟩ := List.mem_map.mp hDn'
          exact List.mem_map.mpr ⟨y, (List.mem_filter.mp hy).1, hyx⟩
        simp [hA, hDd, hDn', hD']
      · have hD' : i ∉ (diffList env sets b).map (·.index) := by
          intro hc
          obtain ⟨x, hx, rfl⟩ := List.mem_map.mp hc
          cases hd : x.dust
          · exact hDn' (List.mem_map.mpr ⟨x, List.mem_filter.mpr ⟨hx, by simp [hd]⟩, rfl⟩)
          · exact hDd (List.mem_map.mpr ⟨x, List.mem_filter.mpr ⟨hx, by simp [hd]⟩, rfl⟩)
        simp [hA, hDd, hDn', hD']

theorem close_default_remote_finals (env : Env) (a : Arb) (sets : Sets)
    (res : Resolutions) (height : Nat) (choice : AState → Bool) (b : Bool)
    (hs : a.state = .default) (hb : res.breach = false)
    (hne : (res.isEmpty && sets.isEmpty) = false)
    (hwfc : WFSet (confRemote sets b)) (i : Nat) :
    (handleClose env a (.remoteForce ⟨remoteKey b, sets⟩ res height) choice).2.finals.count i
      = if i ∈ ((confRemote sets b).incoming.filter (·.dust)).map (·.index) then 1 else 0 := by
  simp only [handleClose]
  rw [advance_default_close env { a with resolutions := some res } height .remoteClose
    ⟨remoteKey b, sets⟩ res choice (Or.inl rfl) hs rfl hb]
  simp only [Out.append, ccOut, hne, Bool.false_eq_true, if_false, List.nil_append,
    construct_remoteKey, checkRemote_inDustFinal env height .remoteClose sets b (by decide)]
  have hn : (((confRemote sets b).incoming.filter (·.dust)).map (·.index)).Nodup :=
    NodupIdx.filter _ hwfc.inNodup
  rw [hn.count]

/-! ### resolvers created at confirmation; the user-then-local path -/

theorem close_resolvers (env : Env) (a : Arb) (cs : CommitSet) (res : Resolutions)
    (height : Nat) (choice : AState → Bool) (isLocal : Bool)
    (hpre : a.state = .default ∨ a.state = .broadcastCommit ∨ a.state = .commitmentBroadcasted)
    (hb : res.breach = false) (hne : (res.isEmpty && cs.sets.isEmpty) = false) :
    (handleClose env a
      (if isLocal then .localForce cs res height else .remoteForce cs res height) choice).2.resolvers =
    prepResolvers res (construct env cs.key cs.sets height
      (if isLocal then .localClose else .remoteClose) (choice .contractClosed)) := by
  cases isLocal
  · simp only [Bool.false_eq_true, if_false, handleClose]
    rcases hpre with hs | hs
    · rw [advance_default_close env { a with resolutions := some res } height .remoteClose cs res
        choice (Or.inl rfl) hs rfl hb]
      simp [Out.append, ccOut, hne]
    · rw [advance_broadcast_close env { a with resolutions := some res } height .remoteClose cs res
        choice (Or.inl rfl) hs rfl hb]
      simp [ccOut, hne]
  · simp only [if_true, handleClose]
    rcases hpre with hs | hs
    · rw [advance_default_close env { a with resolutions := some res } height .localClose cs res
        choice (Or.inr rfl) hs rfl hb]
      simp [Out.append, ccOut, hne]
    · rw [advance_broadcast_close env { a with resolutions := some res } height .localClose cs res
        choice (Or.inr rfl) hs rfl hb]
      simp [ccOut, hne]

/-- user trigger from StateDefault with a working `ForceCloseChan`. -/
theorem advance_default_user (env : Env) (a : Arb) (height : Nat) (choice : AState → Bool)
    (hs : a.state = .default) (hf : a.fcErr = .none) :
    (advance env a height .user none choice advanceFuel).2.fails =
      failBatch (indexSet (actionsOf
        (checkLocal env height .user a.active false (choice .default)) .failDust)) ∧
    (advance env a height .user none choice advanceFuel).2.forceClose = 1 ∧
    (advance env a height .user none choice advanceFuel).1 =
      { a with state := .commitmentBroadcasted } := by
  obtain ⟨st, act, r, f, ins⟩ := a
  simp only at hs hf; subst hs hf
  simp [advanceFuel, advance, stateStep, Out.append]

theorem checkLocal_failDust (env : Env) (height : Nat) (trig : Trigger) (sets : Sets) (cc pl : Bool)
    (ht : trig ≠ .chain) :
    actionsOf (checkLocal env height trig sets cc pl) .failDust =
      sets.loc.outgoing.filter (·.dust) ++
      actionsOf (checkRemoteDangling env height sets cc pl) .failDust := by
  unfold checkLocal
  rw [checkCommit_nonchain _ _ _ _ ht]
  simp only [actionsOf_append, actionsOf_map, classifyOut_beq_failDust, classifyIn_beq_failDust,
    filter_const_false, List.append_nil]

theorem checkLocal_failDangling (env : Env) (height : Nat) (trig : Trigger) (sets : Sets) (cc pl : Bool)
    (ht : trig ≠ .chain) :
    actionsOf (checkLocal env height trig sets cc pl) .failDangling =
      actionsOf (checkRemoteDangling env height sets cc pl) .failDangling := by
  unfold checkLocal
  rw [checkCommit_nonchain _ _ _ _ ht]
  simp only [actionsOf_append, actionsOf_map, classifyOut_beq_failDangling,
    classifyIn_beq_failDangling, filter_const_false, List.nil_append]

theorem dangling_index_notin_local (env : Env) (height : Nat) (sets : Sets) (cc pl : Bool) (a : Action)
    (x : Htlc) (hx : x ∈ actionsOf (checkRemoteDangling env height sets cc pl) a) :
    x.index ∉ sets.loc.outgoing.map (·.index) :=
  checkRemoteDangling_index_notin env height sets cc pl _ (mem_actionsOf hx)



/-- chain trigger from StateDefault with a non-empty action map and a working `ForceCloseChan`. -/
theorem advance_default_chain (env : Env) (a : Arb) (height : Nat) (choice : AState → Bool)
    (hs : a.state = .default) (hf : a.fcErr = .none)
    (hne : checkLocal env height .chain a.active false (choice .default) ≠ []) :
    (advance env a height .chain none choice advanceFuel).2.fails =
      failBatch (indexSet (actionsOf
        (checkLocal env height .chain a.active false (choice .default)) .failDust)) ∧
    (advance env a height .chain none choice advanceFuel).1 =
      { a with state := .commitmentBroadcasted } := by
  have hne' : (checkLocal env height .chain a.active false (choice .default)).isEmpty = false := by
    cases h : checkLocal env height .chain a.active false (choice .default) with
    | nil => exact absurd h hne
    | cons _ _ => rfl
  obtain ⟨st, act, r, f, ins⟩ := a
  simp only at hs hf hne'; subst hs hf
  simp [advanceFuel, advance, stateStep, Out.append, hne']

/-- a `FailDust` entry of `checkLocalChainActions` is a dust HTLC of our own commitment or a
    dust entry of the merged remote map that is not on our commitment. -/
theorem checkLocal_failDust_cases (env : Env) (height : Nat) (trig : Trigger) (sets : Sets)
    (cc pl : Bool) (x : Htlc)
    (hx : x ∈ actionsOf (checkLocal env height trig sets cc pl) .failDust) :
    x ∈ sets.loc.outgoing ∨
    (x ∈ mergeRemote sets pl ∧ x.dust = true ∧ x.index ∉ sets.loc.outgoing.map (·.index)) := by
  have hm := mem_actionsOf hx
  unfold checkLocal at hm
  rw [List.mem_append] at hm
  rcases hm with hm | hm
  · unfold checkCommit at hm
    split at hm
    · cases hm
    · rw [List.mem_append] at hm
      rcases hm with hm | hm
      · simp only [List.mem_map, Prod.mk.injEq] at hm
        obtain ⟨y, hy, _, rfl⟩ := hm
        exact Or.inl hy
      · simp only [List.mem_map, Prod.mk.injEq] at hm
        obtain ⟨y, _, h1, rfl⟩ := hm
        have := classifyIn_beq_failDust y
        rw [h1] at this; cases this
  · have hni := checkRemoteDangling_index_notin env height sets cc pl _ hm
    simp only [checkRemoteDangling, List.mem_map, List.mem_filter, Prod.mk.injEq] at hm
    obtain ⟨y, ⟨⟨hy, _⟩, _⟩, h1, rfl⟩ := hm
    refine Or.inr ⟨hy, ?_, hni⟩
    have := classifyDangling_beq_failDust y
    rw [h1] at this
    simpa using this.symm

/-- after our broadcast (user request, or a block with a non-empty action map) the peer's current
    or pending commitment confirms: nothing is failed upstream twice. -/
theorem broadcast_then_remote_at_most_once (env : Env) (a : Arb) (res : Resolutions)
    (h0 h1 : Nat) (choice : AState → Bool) (b : Bool) (trig : Trigger)
    (hs : a.state = .default) (hf : a.fcErr = .none) (hb : res.breach = false)
    (htrig : trig = .user ∨
      (trig = .chain ∧ checkLocal env h0 .chain a.active false (choice .default) ≠ []))
    (hshape : ∀ x ∈ a.active.loc.outgoing,
      x.index ∈ (confRemote a.active b).outgoing.map (·.index))
    (hwfo : WFSet (otherRemote a.active b)) (i : Nat) :
    ((advance env a h0 trig none choice advanceFuel).2.fails ++
      (handleClose env (advance env a h0 trig none choice advanceFuel).1
        (.remoteForce ⟨remoteKey b, a.active⟩ res h1) choice).2.fails).flatten.count i ≤ 1 := by
  have hstep : (advance env a h0 trig none choice advanceFuel).2.fails =
      failBatch (indexSet (actionsOf
        (checkLocal env h0 trig a.active false (choice .default)) .failDust)) ∧
      (advance env a h0 trig none choice advanceFuel).1 = { a with state := .commitmentBroadcasted } := by
    rcases htrig with rfl | ⟨rfl, hne⟩
    · have := advance_default_user env a h0 choice hs hf
      exact ⟨this.1, this.2.2⟩
    · exact advance_default_chain env a h0 choice hs hf hne
  rw [hstep.1, hstep.2]
  simp only [handleClose]
  rw [advance_broadcast_close env _ h1 .remoteClose ⟨remoteKey b, a.active⟩ res choice (Or.inl rfl)
    (Or.inr rfl) rfl hb]
  rw [List.flatten_append, List.count_append, flatten_failBatch, ccOut_fails_flatten,
    count_indexSet, count_indexSet]
  simp only [construct_remoteKey, checkRemote_failDangling env h1 .remoteClose a.active b (by decide)]
  by_cases h2 : i ∈ ((diffList env a.active b).filter (fun h => !h.dust)).map (·.index)
  · have h1' : i ∉ (actionsOf (checkLocal env h0 trig a.active false (choice .default))
        .failDust).map (·.index) := by
      intro hc
      obtain ⟨x, hx, hxi⟩ := List.mem_map.mp hc
      obtain ⟨y, hy, hyi⟩ := List.mem_map.mp h2
      have hy' := List.mem_filter.mp hy
      have hyD := List.mem_filter.mp hy'.1
      have hynd : y.dust = false := by simpa using hy'.2
      have hyconf : y.index ∉ (confRemote a.active b).outgoing.map (·.index) := by
        intro hcc
        have := (hasIndex_iff _ _).mpr hcc
        have h3 := hyD.2
        simp only [Bool.and_eq_true, Bool.not_eq_true'] at h3
        rw [h3.1] at this; cases this
      rcases checkLocal_failDust_cases env h0 trig a.active false _ x hx with hl | ⟨hmr, hxd, _⟩
      · apply hyconf
        rw [hyi, ← hxi]
        exact hshape x hl
      · have hxo : x ∈ (otherRemote a.active b).outgoing := by
          rcases mem_mergeRemote hmr with h | h
          · cases b
            · exfalso; apply hyconf; rw [hyi, ← hxi]
              exact List.mem_map.mpr ⟨x, by simpa [confRemote] using h, rfl⟩
            · simpa [otherRemote] using h
          · cases b
            · simpa [otherRemote] using h
            · exfalso; apply hyconf; rw [hyi, ← hxi]
              exact List.mem_map.mpr ⟨x, by simpa [confRemote] using h, rfl⟩
        have := eq_of_index_eq hwfo.outNodup hxo hyD.1 (hxi.trans hyi.symm)
        subst this
        rw [hynd] at hxd; cases hxd
    rw [if_neg h1', if_pos h2]; omega
  · rw [if_neg h2]
    split <;> omega




theorem index_mem_insertByIndex (m : List Htlc) (h : Htlc) (i : Nat)
    (hi : i ∈ m.map (·.index) ∨ i = h.index) : i ∈ (insertByIndex m h).map (·.index) := by
  unfold insertByIndex
  rw [List.map_append, List.mem_append]
  by_cases he : i = h.index
  · exact Or.inr (by simp [he])
  · rcases hi with hi | hi
    · obtain ⟨x, hx, rfl⟩ := List.mem_map.mp hi
      refine Or.inl (List.mem_map.mpr ⟨x, List.mem_filter.mpr ⟨hx, ?_⟩, rfl⟩)
      simpa using he
    · exact absurd hi he

theorem index_mem_foldl_insert (l acc : List Htlc) (i : Nat)
    (hi : i ∈ acc.map (·.index) ∨ i ∈ l.map (·.index)) :
    i ∈ (l.foldl insertByIndex acc).map (·.index) := by
  induction l generalizing acc with
  | nil => rcases hi with hi | hi
           · simpa using hi
           · simp at hi
  | cons y ys ih =>
    simp only [List.foldl_cons]
    apply ih
    rcases hi with hi | hi
    · exact Or.inl (index_mem_insertByIndex acc y i (Or.inl hi))
    · simp only [List.map_cons, List.mem_cons] at hi
      rcases hi with hi | hi
      · exact Or.inl (index_mem_insertByIndex acc y i (Or.inr hi))
      · exact Or.inr hi

theorem index_mem_mergeRemote (sets : Sets) (pl : Bool) (i : Nat)
    (hi : i ∈ (sets.rem.outgoing ++ sets.pend.outgoing).map (·.index)) :
    i ∈ (mergeRemote sets pl).map (·.index) := by
  unfold mergeRemote
  split
  · exact index_mem_foldl_insert _ _ i (Or.inr hi)
  · apply index_mem_foldl_insert _ _ i
    refine Or.inr ?_
    simp only [List.map_append, List.mem_append] at hi ⊢
    exact hi.symm

/-- an offered HTLC that is only on the peer's commitment(s), every copy of which is at its
    cut-off and whose preimage is unknown, makes the chain-trigger action map non-empty. -/
theorem checkLocal_ne_nil_of_dangling (env : Env) (sets : Sets) (height : Nat) (pl : Bool) (i : Nat)
    (hi : i ∈ (sets.rem.outgoing ++ sets.pend.outgoing).map (·.index))
    (hnl : i ∉ sets.loc.outgoing.map (·.index))
    (hall : ∀ x ∈ sets.rem.outgoing ++ sets.pend.outgoing, x.index = i →
      shouldGoOnChain env x env.deltaOut height = true ∧ env.preimageKnown x.hash = false) :
    checkLocal env height .chain sets false pl ≠ [] := by
  obtain ⟨x, hx, hxi⟩ := List.mem_map.mp (index_mem_mergeRemote sets pl i hi)
  have hxs := mem_mergeRemote hx
  have := hall x (by rw [List.mem_append]; exact hxs) hxi
  intro hnil
  unfold checkLocal at hnil
  have h2 := (List.append_eq_nil_iff.mp hnil).2
  unfold checkRemoteDangling at h2
  simp only [List.map_eq_nil_iff, List.filter_eq_nil_iff, List.mem_filter] at h2
  have hh : hasIndex sets.loc.outgoing x.index = false := by
    cases hc : hasIndex sets.loc.outgoing x.index
    · rfl
    · exact absurd ((hasIndex_iff _ _).mp hc) (by rw [hxi]; exact hnl)
  have := h2 x ⟨hx, by simp [hh]⟩
  simp_all


theorem sets_not_empty_of_mem (sets : Sets) (k : SetKey) (h : Htlc)
    (hm : h ∈ (sets.get k).outgoing ∨ h ∈ (sets.get k).incoming) : sets.isEmpty = false := by
  cases he : sets.isEmpty
  · rfl
  · exfalso
    simp only [Sets.isEmpty, HtlcSet.isEmpty, Bool.and_eq_true, List.isEmpty_iff] at he
    obtain ⟨⟨⟨h1, h2⟩, ⟨h3, h4⟩⟩, ⟨h5, h6⟩⟩ := he
    cases k <;> simp [Sets.get, h1, h2, h3, h4, h5, h6] at hm

end LndModel.C12
