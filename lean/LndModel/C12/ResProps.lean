/-
C12 — theorems about the resolver decision loops (`LndModel.C12.Res`), for every
configuration (commitment type, taproot, mempool watcher or not, exit hop or not, registry
answers), every environment history and every order of events.

(a) offered HTLC: an upstream fail-back is reported only on a CONFIRMED spend of the HTLC
    output that is not a preimage spend, never on an unconfirmed one; a spend that reveals
    the preimage (confirmed, or unconfirmed when a mempool watcher is configured) settles
    upstream with that preimage;
(b) received HTLC: the contest resolver gives up only at a height >= expiry (or when the
    invoice is cancelled / the HTLC is invalid), and a preimage learned at any earlier
    height turns it into the success resolver;
(c) for all event orders every HTLC gets at most one disposition, and exactly one when the
    contract is marked resolved.
-/
import LndModel.C12.ResModel

namespace LndModel.C12.Res

/-! ### dispositions -/

def isDisp : Eff → Bool
  | .fail | .settle | .final _ => true
  | _ => false

/-- number of terminal reports (upstream fail / settle, final incoming outcome) -/
def disp (l : List Eff) : Nat := l.countP isDisp

def isResolvedEff : Eff → Bool
  | .resolved => true
  | _ => false

def resolvedCount (l : List Eff) : Nat := l.countP isResolvedEff

/-- dispositions a process in this phase has produced so far -/
def expectedDisp : Phase → Nat
  | .done | .toStage2 => 1
  | _ => 0

def expectedResolved : Phase → Nat
  | .done => 1
  | _ => 0

@[simp] theorem disp_nil : disp [] = 0 := rfl
@[simp] theorem disp_cons (e : Eff) (l : List Eff) :
    disp (e :: l) = (if isDisp e then 1 else 0) + disp l := by
  simp [disp, List.countP_cons, Nat.add_comm]
@[simp] theorem resolvedCount_cons (e : Eff) (l : List Eff) :
    resolvedCount (e :: l) = (if isResolvedEff e then 1 else 0) + resolvedCount l := by
  simp [resolvedCount, List.countP_cons, Nat.add_comm]
@[simp] theorem disp_append (a b : List Eff) : disp (a ++ b) = disp a + disp b := by
  simp [disp, List.countP_append]
@[simp] theorem resolvedCount_nil : resolvedCount [] = 0 := rfl
@[simp] theorem resolvedCount_append (a b : List Eff) :
    resolvedCount (a ++ b) = resolvedCount a + resolvedCount b := by
  simp [resolvedCount, List.countP_append]

/-! ### building blocks: what each sub-routine reports -/

theorem claimCleanUp_spec (c : Cfg) (st : St) (s : Spend) :
    disp (claimCleanUp c st s).2 = expectedDisp (claimCleanUp c st s).1.phase ∧
    resolvedCount (claimCleanUp c st s).2 = expectedResolved (claimCleanUp c st s).1.phase ∧
    Eff.fail ∉ (claimCleanUp c st s).2 ∧ (∀ b, Eff.final b ∉ (claimCleanUp c st s).2) := by
  unfold claimCleanUp
  cases claimOutcome c s <;> simp [isDisp, isResolvedEff, expectedDisp, expectedResolved]

theorem launchTO_spec (c : Cfg) (st : St) :
    disp (launchTO c st).2 = 0 ∧ resolvedCount (launchTO c st).2 = 0 ∧
    (launchTO c st).1.phase = st.phase ∧ (launchTO c st).1.conf = st.conf ∧
    (launchTO c st).1.conf2 = st.conf2 ∧ Eff.fail ∉ (launchTO c st).2 ∧
    (∀ b, Eff.final b ∉ (launchTO c st).2) := by
  unfold launchTO
  split
  · simp
  · cases c.commit <;> simp [isDisp, isResolvedEff]

theorem launchSU_spec (c : Cfg) (st : St) :
    disp (launchSU c st).2 = 0 ∧ resolvedCount (launchSU c st).2 = 0 ∧
    (launchSU c st).1.phase = st.phase ∧ (launchSU c st).1.conf = st.conf ∧
    (launchSU c st).1.conf2 = st.conf2 ∧ (launchSU c st).1.height = st.height ∧
    (launchSU c st).1.known = st.known ∧
    Eff.fail ∉ (launchSU c st).2 ∧ Eff.settle ∉ (launchSU c st).2 ∧
    (∀ b, Eff.final b ∉ (launchSU c st).2) := by
  unfold launchSU
  split
  · simp
  · cases c.commit <;> simp [isDisp, isResolvedEff]

theorem toSecondStage_spec (st : St) :
    disp (toSecondStage st).2 = 0 ∧ expectedDisp (toSecondStage st).1.phase = 1 ∧
    resolvedCount (toSecondStage st).2 = expectedResolved (toSecondStage st).1.phase ∧
    Eff.fail ∉ (toSecondStage st).2 ∧ (∀ b, Eff.final b ∉ (toSecondStage st).2) := by
  unfold toSecondStage
  split <;> simp [isDisp, isResolvedEff, expectedDisp, expectedResolved]

/-- the timeout resolver's reaction to the spend it was handed: one disposition; a
    fail-back only for a spend that is not a preimage spend -/
theorem toSpend_spec (c : Cfg) (st : St) (s : Spend) :
    disp (toSpend c st s).2 = expectedDisp (toSpend c st s).1.phase ∧
    resolvedCount (toSpend c st s).2 = expectedResolved (toSpend c st s).1.phase ∧
    (Eff.fail ∈ (toSpend c st s).2 → isPreimageSpend c.taproot c.isLocal s = false) ∧
    (∀ b, Eff.final b ∉ (toSpend c st s).2) := by
  unfold toSpend
  split
  · rename_i h
    have := claimCleanUp_spec c st s
    exact ⟨this.1, this.2.1, fun hf => absurd hf this.2.2.1, this.2.2.2⟩
  · rename_i h
    have h2 := toSecondStage_spec st
    cases hc : c.commit <;>
      simp_all [isDisp, isResolvedEff, expectedDisp, expectedResolved]

theorem toResolve_spec (c : Cfg) (st : St) :
    disp (toResolve c st).2 = expectedDisp (toResolve c st).1.phase ∧
    resolvedCount (toResolve c st).2 = expectedResolved (toResolve c st).1.phase ∧
    (Eff.fail ∈ (toResolve c st).2 →
      ∃ s, st.conf = some s ∧ isPreimageSpend c.taproot c.isLocal s = false) ∧
    (∀ b, Eff.final b ∉ (toResolve c st).2) := by
  unfold toResolve
  cases hconf : st.conf with
  | none =>
    by_cases hl : c.commit = .legacy <;>
      simp [hl, isDisp, isResolvedEff, expectedDisp, expectedResolved]
  | some s =>
    have h := toSpend_spec c st s
    by_cases hl : c.commit = .legacy <;>
      simp_all [isDisp, isResolvedEff]

theorem becomeTO_spec (c : Cfg) (st : St) :
    disp (becomeTO c st).2 = expectedDisp (becomeTO c st).1.phase ∧
    resolvedCount (becomeTO c st).2 = expectedResolved (becomeTO c st).1.phase ∧
    (Eff.fail ∈ (becomeTO c st).2 →
      ∃ s, st.conf = some s ∧ isPreimageSpend c.taproot c.isLocal s = false) ∧
    (∀ b, Eff.final b ∉ (becomeTO c st).2) ∧ Eff.swapTO ∈ (becomeTO c st).2 := by
  unfold becomeTO
  have h1 := launchTO_spec c st
  have h2 := toResolve_spec c (launchTO c st).1
  simp only [disp_append, resolvedCount_append, List.mem_append]
  refine ⟨?_, ?_, ?_, ?_, ?_⟩
  · simp [isDisp, h1.1, h2.1]
  · simp [isResolvedEff, h1.2.1, h2.2.1]
  · intro hf
    rcases hf with (hf | hf) | hf
    · simp at hf
    · exact absurd hf h1.2.2.2.2.2.1
    · have := h2.2.2.1 hf
      rw [h1.2.2.2.1] at this
      exact this
  · intro b hf
    rcases hf with (hf | hf) | hf
    · simp at hf
    · exact h1.2.2.2.2.2.2 b hf
    · exact h2.2.2.2 b hf
  · simp

theorem suSecondStage_spec (st : St) :
    disp (suSecondStage st).2 = expectedDisp (suSecondStage st).1.phase ∧
    resolvedCount (suSecondStage st).2 = expectedResolved (suSecondStage st).1.phase ∧
    Eff.fail ∉ (suSecondStage st).2 ∧ Eff.settle ∉ (suSecondStage st).2 ∧
    Eff.final false ∉ (suSecondStage st).2 := by
  unfold suSecondStage
  split <;> simp [isDisp, isResolvedEff, expectedDisp, expectedResolved]

theorem suSpend_spec (c : Cfg) (st : St) (s : Spend) (hp : expectedDisp st.phase = 0)
    (hr : expectedResolved st.phase = 0) :
    disp (suSpend c st s).2 = expectedDisp (suSpend c st s).1.phase ∧
    resolvedCount (suSpend c st s).2 = expectedResolved (suSpend c st s).1.phase ∧
    Eff.fail ∉ (suSpend c st s).2 ∧ Eff.settle ∉ (suSpend c st s).2 := by
  unfold suSpend foreign
  have h2 := suSecondStage_spec st
  cases hc : c.commit
  · by_cases h1 : suIsPreimageSpend c s <;> by_cases h3 : s.preOk <;>
      simp [h1, h3, isDisp, isResolvedEff, expectedDisp, expectedResolved]
  · by_cases h1 : s.lvl2
    · simp_all [isDisp, isResolvedEff]
    · simp [h1, isDisp, isResolvedEff, expectedDisp, expectedResolved]
  · simp [hp, hr]

theorem suResolve_spec (c : Cfg) (st : St) (hp : expectedDisp st.phase = 0)
    (hr : expectedResolved st.phase = 0) :
    disp (suResolve c st).2 = expectedDisp (suResolve c st).1.phase ∧
    resolvedCount (suResolve c st).2 = expectedResolved (suResolve c st).1.phase ∧
    Eff.fail ∉ (suResolve c st).2 ∧ Eff.settle ∉ (suResolve c st).2 := by
  unfold suResolve
  have h2 := suSecondStage_spec st
  cases hc : c.commit
  · cases hconf : st.conf with
    | none => simp [expectedDisp, expectedResolved]
    | some s => simpa [hc] using suSpend_spec c st s hp hr
  · cases hconf : st.conf with
    | none => simp [expectedDisp, expectedResolved]
    | some s => simpa [hc] using suSpend_spec c st s hp hr
  · simp_all [isDisp, isResolvedEff]

theorem becomeSU_spec (c : Cfg) (st : St) (hp : expectedDisp st.phase = 0)
    (hr : expectedResolved st.phase = 0) :
    disp (becomeSU c st).2 = expectedDisp (becomeSU c st).1.phase ∧
    resolvedCount (becomeSU c st).2 = expectedResolved (becomeSU c st).1.phase ∧
    Eff.fail ∉ (becomeSU c st).2 ∧ Eff.settle ∉ (becomeSU c st).2 ∧
    Eff.swapSU ∈ (becomeSU c st).2 := by
  unfold becomeSU
  have h1 := launchSU_spec c st
  have h2 := suResolve_spec c (launchSU c st).1 (by rw [h1.2.2.1]; exact hp) (by rw [h1.2.2.1]; exact hr)
  simp only [disp_append, resolvedCount_append, List.mem_append]
  refine ⟨?_, ?_, ?_, ?_, ?_⟩
  · simp [isDisp, h1.1, h2.1]
  · simp [isResolvedEff, h1.2.1, h2.2.1]
  · intro hf
    rcases hf with (hf | hf) | hf
    · simp at hf
    · exact h1.2.2.2.2.2.2.2.1 hf
    · exact h2.2.2.1 hf
  · intro hf
    rcases hf with (hf | hf) | hf
    · simp at hf
    · exact h1.2.2.2.2.2.2.2.2.1 hf
    · exact h2.2.2.2 hf
  · simp

theorem icResolve_spec (c : Cfg) (st : St) (hp : expectedDisp st.phase = 0)
    (hr : expectedResolved st.phase = 0) :
    disp (icResolve c st).2 = expectedDisp (icResolve c st).1.phase ∧
    resolvedCount (icResolve c st).2 = expectedResolved (icResolve c st).1.phase ∧
    Eff.fail ∉ (icResolve c st).2 ∧ Eff.settle ∉ (icResolve c st).2 := by
  have hb := becomeSU_spec c st hp hr
  unfold icResolve
  split
  · simp [giveUp, isDisp, isResolvedEff, expectedDisp, expectedResolved]
  split
  · simp [giveUp, isDisp, isResolvedEff, expectedDisp, expectedResolved]
  split
  · simp [giveUp, isDisp, isResolvedEff, expectedDisp, expectedResolved]
  split
  · cases c.regR
    · simp [expectedDisp, expectedResolved]
    · exact ⟨hb.1, hb.2.1, hb.2.2.1, hb.2.2.2.1⟩
    · simp [expectedDisp, expectedResolved]
    · simp [giveUp, isDisp, isResolvedEff, expectedDisp, expectedResolved]
  split
  · exact ⟨hb.1, hb.2.1, hb.2.2.1, hb.2.2.2.1⟩
  · simp [expectedDisp, expectedResolved]

/-! ### (c) exactly one disposition, for every order of events -/

theorem record_phase (st : St) (ev : Ev) : (record st ev).phase = st.phase := by
  cases ev <;> simp [record] <;> split <;> rfl

theorem react_disp (c : Cfg) (st : St) (ph : Phase) (ev : Ev) (h : st.phase = ph) :
    disp (react c st ph ev).2 + expectedDisp ph = expectedDisp (react c st ph ev).1.phase ∧
    resolvedCount (react c st ph ev).2 + expectedResolved ph
      = expectedResolved (react c st ph ev).1.phase := by
  have hz : ∀ p : Phase, st.phase = p → expectedDisp p = 0 → expectedResolved p = 0 →
      expectedDisp st.phase = 0 ∧ expectedResolved st.phase = 0 := by
    intro p hp h1 h2; rw [hp]; exact ⟨h1, h2⟩
  cases ph <;> cases ev <;> simp only [react] <;>
    (try (simp [h, expectedDisp, expectedResolved]; done))
  -- ocWait: block, conf
  · split
    · have := becomeTO_spec c st
      simp [expectedDisp, expectedResolved, this.1, this.2.1]
    · simp [h, expectedDisp, expectedResolved]
  · have := claimCleanUp_spec c st ‹Spend›
    simp [expectedDisp, expectedResolved, this.1, this.2.1]
  -- toWait: conf, mem
  · have := toSpend_spec c st ‹Spend›
    simp [expectedDisp, expectedResolved, this.1, this.2.1]
  · split
    · have := claimCleanUp_spec c st ‹Spend›
      simp [expectedDisp, expectedResolved, this.1, this.2.1]
    · simp [h, expectedDisp, expectedResolved]
  -- toStage2: conf2
  · simp [isDisp, isResolvedEff, expectedDisp, expectedResolved]
  -- icWait: block, pre, hodl
  · split
    · simp [giveUp, isDisp, isResolvedEff, expectedDisp, expectedResolved]
    · simp [h, expectedDisp, expectedResolved]
  · rename_i hodl
    cases hodl <;> simp only []
    · have hh := hz _ h rfl rfl
      have := becomeSU_spec c st hh.1 hh.2
      simp [expectedDisp, expectedResolved, this.1, this.2.1]
    · simp [h, expectedDisp, expectedResolved]
  · rename_i hodl settle
    cases hodl <;> cases settle <;> simp only []
    · simp [h, expectedDisp, expectedResolved]
    · simp [h, expectedDisp, expectedResolved]
    · simp [giveUp, isDisp, isResolvedEff, expectedDisp, expectedResolved]
    · have hh := hz _ h rfl rfl
      have := becomeSU_spec c st hh.1 hh.2
      simp [expectedDisp, expectedResolved, this.1, this.2.1]
  -- suWait: conf
  · have hh := hz _ h rfl rfl
    have := suSpend_spec c st ‹Spend› hh.1 hh.2
    simp [expectedDisp, expectedResolved, this.1, this.2.1]
  -- suStage2: conf2
  · simp [isDisp, isResolvedEff, expectedDisp, expectedResolved]

/-- One event: the dispositions reported plus those already made equal what the new phase
    accounts for — so no event can add a second disposition. -/
theorem step_disp (c : Cfg) (st : St) (ev : Ev) :
    disp (step c st ev).2 + expectedDisp st.phase = expectedDisp (step c st ev).1.phase ∧
    resolvedCount (step c st ev).2 + expectedResolved st.phase
      = expectedResolved (step c st ev).1.phase := by
  unfold step
  split
  · simp
  · have := react_disp c (record st ev) (record st ev).phase ev rfl
    rw [record_phase] at this
    rw [record_phase]
    exact this

theorem ocLaunch_spec (c : Cfg) (st : St) :
    disp (ocLaunch c st).2 = 0 ∧ resolvedCount (ocLaunch c st).2 = 0 ∧
    (ocLaunch c st).1.phase = st.phase ∧ (ocLaunch c st).1.conf = st.conf ∧
    Eff.fail ∉ (ocLaunch c st).2 := by
  have h := launchTO_spec c st
  unfold ocLaunch
  split
  · simp
  · exact ⟨h.1, h.2.1, h.2.2.1, h.2.2.2.1, h.2.2.2.2.2.1⟩

theorem ocResolve_spec (c : Cfg) (st : St) :
    disp (ocResolve c st).2 = expectedDisp (ocResolve c st).1.phase ∧
    resolvedCount (ocResolve c st).2 = expectedResolved (ocResolve c st).1.phase ∧
    (Eff.fail ∈ (ocResolve c st).2 →
      ∃ s, st.conf = some s ∧ isPreimageSpend c.taproot c.isLocal s = false) := by
  unfold ocResolve
  cases hconf : st.conf with
  | some s =>
    have := claimCleanUp_spec c st s
    exact ⟨this.1, this.2.1, fun hf => absurd hf this.2.2.1⟩
  | none =>
    simp only []
    split
    · have := becomeTO_spec c st
      refine ⟨this.1, this.2.1, fun hf => ?_⟩
      have := this.2.2.1 hf
      rw [hconf] at this
      exact this
    · simp [expectedDisp, expectedResolved]

theorem icLaunch_spec (c : Cfg) (st : St) :
    disp (icLaunch c st).2 = 0 ∧ resolvedCount (icLaunch c st).2 = 0 ∧
    (icLaunch c st).1.phase = st.phase ∧ (icLaunch c st).1.height = st.height ∧
    (∀ b, Eff.final b ∉ (icLaunch c st).2) := by
  have h := launchSU_spec c st
  unfold icLaunch
  split
  · exact ⟨h.1, h.2.1, h.2.2.1, h.2.2.2.2.2.1, h.2.2.2.2.2.2.2.2.2⟩
  · simp

theorem start_disp (c : Cfg) (st : St) (hi : st.phase = .init) :
    disp (start c st).2 = expectedDisp (start c st).1.phase ∧
    resolvedCount (start c st).2 = expectedResolved (start c st).1.phase := by
  have hp : expectedDisp st.phase = 0 := by simp [hi, expectedDisp]
  have hr : expectedResolved st.phase = 0 := by simp [hi, expectedResolved]
  unfold start
  cases c.out <;> cases c.contest <;> simp only []
  · -- success resolver
    have h1 := launchSU_spec c st
    have h2 := suResolve_spec c (launchSU c st).1 (by rw [h1.2.2.1]; exact hp) (by rw [h1.2.2.1]; exact hr)
    simp [h1.1, h1.2.1, h2.1, h2.2.1]
  · -- incoming contest
    have h1 := icLaunch_spec c st
    have h2 := icResolve_spec c (icLaunch c st).1 (by rw [h1.2.2.1]; exact hp) (by rw [h1.2.2.1]; exact hr)
    simp [h1.1, h1.2.1, h2.1, h2.2.1]
  · -- timeout resolver
    have h1 := launchTO_spec c st
    have h2 := toResolve_spec c (launchTO c st).1
    simp [h1.1, h1.2.1, h2.1, h2.2.1]
  · -- outgoing contest
    have h1 := ocLaunch_spec c st
    have h2 := ocResolve_spec c (ocLaunch c st).1
    simp [h1.1, h1.2.1, h2.1, h2.2.1]

theorem runFrom_disp (c : Cfg) (evs : List Ev) (st : St) :
    disp (runFrom c st evs).2 + expectedDisp st.phase = expectedDisp (runFrom c st evs).1.phase ∧
    resolvedCount (runFrom c st evs).2 + expectedResolved st.phase
      = expectedResolved (runFrom c st evs).1.phase := by
  induction evs generalizing st with
  | nil => simp [runFrom]
  | cons e es ih =>
    have h1 := step_disp c st e
    have h2 := ih (step c st e).1
    simp only [runFrom, disp_append, resolvedCount_append]
    omega

theorem early_phase (evs : List Ev) (st : St) : (early st evs).phase = st.phase := by
  unfold early
  induction evs generalizing st with
  | nil => rfl
  | cons e es ih =>
    simp only [List.foldl_cons]
    rw [ih]
    split
    · rfl
    · exact record_phase st e

/-- **(c)** For every configuration, start height, environment history before the close
    and every list (= order) of events afterwards: the resolver chain reports exactly as
    many dispositions (upstream fail / settle, final incoming outcome) as its final phase
    accounts for — never more than one, and exactly one once the contract is marked
    resolved; `ResolveContract` is called at most once and exactly when it ends `done`. -/
theorem exactly_one_disposition (c : Cfg) (h0 : Nat) (pre evs : List Ev) :
    disp (run c h0 pre evs).2 ≤ 1 ∧
    ((run c h0 pre evs).1.phase = .done → disp (run c h0 pre evs).2 = 1) ∧
    resolvedCount (run c h0 pre evs).2 ≤ 1 ∧
    ((run c h0 pre evs).1.phase = .done ↔ resolvedCount (run c h0 pre evs).2 = 1) := by
  unfold run
  have hi : (early { height := h0 } pre).phase = .init := by rw [early_phase]
  have h1 := start_disp c _ hi
  have h2 := runFrom_disp c evs (start c (early { height := h0 } pre)).1
  simp only [disp_append, resolvedCount_append]
  generalize (runFrom c (start c (early { height := h0 } pre)).1 evs).1.phase = ph at h2 ⊢
  generalize (start c (early { height := h0 } pre)).1.phase = ph0 at h1 h2
  have e1 : disp (start c (early { height := h0 } pre)).2
      + disp (runFrom c (start c (early { height := h0 } pre)).1 evs).2 = expectedDisp ph := by omega
  have e2 : resolvedCount (start c (early { height := h0 } pre)).2
      + resolvedCount (runFrom c (start c (early { height := h0 } pre)).1 evs).2
        = expectedResolved ph := by omega
  rw [e1, e2]
  cases ph <;> simp [expectedDisp, expectedResolved]

/-! ### (a) offered HTLC -/

/-- **(a1)** A fail-back is reported on an event only if that event is a CONFIRMED spend of
    the HTLC output that is not a preimage spend.  In particular never on a mempool spend,
    a block, or a preimage. -/
theorem react_fail (c : Cfg) (st : St) (ph : Phase) (ev : Ev) (h : st.phase = ph)
    (hf : Eff.fail ∈ (react c st ph ev).2) :
    (∃ s, ev = .conf s ∧ isPreimageSpend c.taproot c.isLocal s = false) ∨
    (∃ s, st.conf = some s ∧ isPreimageSpend c.taproot c.isLocal s = false ∧
        ∃ h, ev = .block h) := by
  have hz : ∀ p : Phase, st.phase = p → expectedDisp p = 0 → expectedResolved p = 0 →
      expectedDisp st.phase = 0 ∧ expectedResolved st.phase = 0 := by
    intro p hp h1 h2; rw [hp]; exact ⟨h1, h2⟩
  cases ph <;> cases ev <;> simp only [react] at hf <;> (try (simp at hf; done))
  -- ocWait: block, conf
  · split at hf
    · obtain ⟨s, hs, hn⟩ := (becomeTO_spec c st).2.2.1 hf
      exact Or.inr ⟨s, hs, hn, _, rfl⟩
    · simp at hf
  · exact absurd hf (claimCleanUp_spec c st _).2.2.1
  -- toWait: conf, mem
  · rename_i s
    exact Or.inl ⟨s, rfl, (toSpend_spec c st s).2.2.1 hf⟩
  · split at hf
    · exact absurd hf (claimCleanUp_spec c st _).2.2.1
    · simp at hf
  -- icWait: block, pre, hodl
  · split at hf <;> simp [giveUp] at hf
  · rename_i hodl
    cases hodl <;> simp only [] at hf
    · have hh := hz _ h rfl rfl
      exact absurd hf (becomeSU_spec c st hh.1 hh.2).2.2.1
    · simp at hf
  · rename_i hodl settle
    cases hodl <;> cases settle <;> simp only [] at hf <;> (try (simp [giveUp] at hf; done))
    have hh := hz _ h rfl rfl
    exact absurd hf (becomeSU_spec c st hh.1 hh.2).2.2.1
  -- suWait: conf
  · have hh := hz _ h rfl rfl
    exact absurd hf (suSpend_spec c st _ hh.1 hh.2).2.2.1

theorem failback_only_on_confirmed_timeout_spend (c : Cfg) (st : St) (ev : Ev)
    (hf : Eff.fail ∈ (step c st ev).2) :
    (∃ s, ev = .conf s ∧ isPreimageSpend c.taproot c.isLocal s = false) ∨
    (∃ s, (record st ev).conf = some s ∧ isPreimageSpend c.taproot c.isLocal s = false ∧
        ∃ h, ev = .block h) := by
  unfold step at hf
  split at hf
  · simp at hf
  · exact react_fail c (record st ev) _ ev rfl hf

/-- **(a1, start)** When the resolver is started, a fail-back is reported right away only if
    a confirmed non-preimage spend of the HTLC output is already on record (our timeout
    transaction confirmed while the node was not watching). -/
theorem failback_at_start_only_after_confirmed_timeout_spend (c : Cfg) (st : St)
    (hi : st.phase = .init) (hf : Eff.fail ∈ (start c st).2) :
    ∃ s, st.conf = some s ∧ isPreimageSpend c.taproot c.isLocal s = false := by
  have hp : expectedDisp st.phase = 0 := by simp [hi, expectedDisp]
  have hr : expectedResolved st.phase = 0 := by simp [hi, expectedResolved]
  unfold start at hf
  cases hout : c.out <;> cases hcon : c.contest <;> simp only [hout, hcon, List.mem_append] at hf
  · have h1 := launchSU_spec c st
    have h2 := suResolve_spec c (launchSU c st).1 (by rw [h1.2.2.1]; exact hp) (by rw [h1.2.2.1]; exact hr)
    rcases hf with hf | hf
    · exact absurd hf h1.2.2.2.2.2.2.2.1
    · exact absurd hf h2.2.2.1
  · have h2 := icResolve_spec c (icLaunch c st).1
      (by rw [(icLaunch_spec c st).2.2.1]; exact hp) (by rw [(icLaunch_spec c st).2.2.1]; exact hr)
    rcases hf with hf | hf
    · unfold icLaunch at hf
      split at hf
      · exact absurd hf (launchSU_spec c st).2.2.2.2.2.2.2.1
      · simp at hf
    · exact absurd hf h2.2.2.1
  · have h1 := launchTO_spec c st
    rcases hf with hf | hf
    · exact absurd hf h1.2.2.2.2.2.1
    · have := (toResolve_spec c (launchTO c st).1).2.2.1 hf
      rw [h1.2.2.2.1] at this
      exact this
  · have h1 := ocLaunch_spec c st
    rcases hf with hf | hf
    · exact absurd hf h1.2.2.2.2
    · have := (ocResolve_spec c (ocLaunch c st).1).2.2 hf
      rw [h1.2.2.2.1] at this
      exact this

/-- **(a1')** An unconfirmed (mempool) spend that does not reveal a preimage changes nothing
    and reports nothing, whatever the phase. -/
theorem mempool_non_preimage_spend_ignored (c : Cfg) (st : St) (s : Spend)
    (hn : isPreimageSpend c.taproot c.isLocal s = false) :
    step c st (.mem s) = (st, []) := by
  unfold step
  simp only [dropped, record]
  cases st.phase <;> simp [react, hn]

/-- **(a1'')** No mempool spend ever produces a fail-back. -/
theorem mempool_spend_never_fails (c : Cfg) (st : St) (s : Spend) :
    Eff.fail ∉ (step c st (.mem s)).2 := by
  intro hf
  rcases failback_only_on_confirmed_timeout_spend c st (.mem s) hf with ⟨s', h, _⟩ | ⟨_, _, _, h', hb⟩
  · cases h
  · cases hb

/-- the classifier `isPreimageSpend` and the extractor in `claimCleanUp` look at the same
    witness element: a spend classified as preimage spend is never out of range -/
theorem preimage_spend_extractable (c : Cfg) (s : Spend)
    (hp : isPreimageSpend c.taproot c.isLocal s = true) :
    claimOutcome c s = (if s.preOk then .settled else .mismatch) := by
  unfold isPreimageSpend checkSizeAndIndex at hp
  unfold claimOutcome
  have hstrip : ∀ i, i < (stripAnnex c.taproot s).length →
      s.lens[i]? = (stripAnnex c.taproot s)[i]? := by
    intro i hi
    unfold stripAnnex at hi ⊢
    by_cases hcond : (c.taproot && s.annex && decide (s.lens.length ≥ 2)) = true
    · simp only [hcond, ite_true, List.length_dropLast] at hi ⊢
      rw [List.getElem?_dropLast]
      simp [hi]
    · simp only [hcond] at hi ⊢
      rfl
  cases ht : c.taproot <;> cases hl : c.isLocal <;> simp only [ht, hl] at hp hstrip ⊢
  · -- legacy witness, remote commitment: index 3 of 5
    simp only [Bool.and_eq_true, beq_iff_eq] at hp
    have := hstrip 3 (by omega)
    simp [this, hp.2]
  · simp only [Bool.and_eq_true, beq_iff_eq] at hp
    have := hstrip 1 (by omega)
    simp [this, hp.2]
  · simp only [Bool.and_eq_true, beq_iff_eq] at hp
    have := hstrip 2 (by omega)
    simp [this, hp.2]
  · simp only [Bool.and_eq_true, beq_iff_eq] at hp
    have := hstrip 1 (by omega)
    have hne : ¬ (stripAnnex true s).length = 1 := by omega
    simp [this, hp.2, hne]

/-- **(a2)** While the contest or the timeout resolver watches the HTLC output, a confirmed
    spend that reveals the right preimage is reported upstream as a settle (with the
    preimage added to the beacon), the contract is resolved, and nothing is failed. -/
theorem confirmed_preimage_spend_settles (c : Cfg) (st : St) (s : Spend)
    (hph : st.phase = .ocWait ∨ st.phase = .toWait) (hnone : st.conf = none)
    (hp : isPreimageSpend c.taproot c.isLocal s = true) (hok : s.preOk = true) :
    (step c st (.conf s)).2 = [.addpre, .settle, .ckptClaimed, .resolved] ∧
    (step c st (.conf s)).1.phase = .done := by
  have hc := preimage_spend_extractable c s hp
  unfold step
  simp only [dropped, record, hnone, Option.isSome_none, Option.isNone_none]
  rcases hph with h | h <;> simp [h, react, toSpend, hp, claimCleanUp, hc, hok]

/-- **(a2')** With a mempool watcher, the timeout resolver settles upstream as soon as the
    preimage spend is seen unconfirmed. -/
theorem mempool_preimage_spend_settles (c : Cfg) (st : St) (s : Spend)
    (hph : st.phase = .toWait) (hm : c.mempool = true)
    (hp : isPreimageSpend c.taproot c.isLocal s = true) (hok : s.preOk = true) :
    (step c st (.mem s)).2 = [.addpre, .settle, .ckptClaimed, .resolved] ∧
    (step c st (.mem s)).1.phase = .done := by
  have hc := preimage_spend_extractable c s hp
  unfold step
  simp [dropped, record, react, hph, hm, hp, claimCleanUp, hc, hok]

/-- **(a3)** The contest resolver hands over to the timeout resolver on the first block at
    height >= expiry-1 — so in particular no later than at expiry — and a sweep (or the
    nursery hand-over for legacy channels) is offered by then. -/
theorem timeout_taken_up_by_expiry (c : Cfg) (st : St) (h : Nat)
    (hph : st.phase = .ocWait) (he : 1 ≤ c.expiry) (he2 : c.expiry < U32) (hh : h < U32)
    (hge : c.expiry ≤ h + 1) :
    Eff.swapTO ∈ (step c st (.block h)).2 ∧
    (st.launched = false →
      (c.commit = .remote → Eff.sweepDirectTimeout ∈ (step c st (.block h)).2) ∧
      (c.commit = .zf → Eff.sweepTimeoutTx ∈ (step c st (.block h)).2) ∧
      (c.commit = .legacy → Eff.incubate ∈ (step c st (.block h)).2)) := by
  have hp32 : pred32 c.expiry = c.expiry - 1 := by
    unfold pred32 U32 at *
    omega
  have hcond : h % U32 ≥ pred32 c.expiry := by
    rw [hp32, Nat.mod_eq_of_lt hh]; omega
  unfold step
  simp only [dropped, record, react, hph, hcond, ite_true, Bool.false_eq_true, ite_false]
  refine ⟨(becomeTO_spec c _).2.2.2.2, ?_⟩
  intro hl
  unfold becomeTO launchTO toResolve
  refine ⟨?_, ?_, ?_⟩ <;> intro hc <;> simp [hl, hc]
  cases st.conf <;> simp

/-! ### (b) received HTLC -/

/-- **(b1)** While contesting, the resolver records a failed outcome (without having
    turned into the success resolver) only on a block at height >= expiry or when the
    invoice registry cancels the HTLC. -/
theorem incoming_gives_up_only_at_expiry (c : Cfg) (st : St) (ev : Ev) (hodl : Bool)
    (hph : st.phase = .icWait hodl) (hf : Eff.final false ∈ (step c st ev).2)
    (hns : Eff.swapSU ∉ (step c st ev).2) :
    (∃ h, ev = .block h ∧ h % U32 ≥ c.expiry) ∨ (ev = .hodl false ∧ hodl = true) := by
  unfold step at hf hns
  split at hf
  · simp at hf
  · rename_i hd
    simp only [hd, Bool.false_eq_true, ite_false, record_phase, hph] at hf hns
    have hrec : (record st ev).phase = .icWait hodl := by rw [record_phase, hph]
    generalize record st ev = st' at hf hns hrec
    have hb := becomeSU_spec c st' (by simp [hrec, expectedDisp]) (by simp [hrec, expectedResolved])
    cases ev <;> simp only [react] at hf hns <;> (try (simp at hf; done))
    · rename_i h
      split at hf
      · rename_i hge
        exact Or.inl ⟨h, rfl, hge⟩
      · simp at hf
    · cases hodl <;> simp only [] at hf hns
      · exact absurd hb.2.2.2.2 hns
      · simp at hf
    · rename_i settle
      cases hodl <;> cases settle <;> simp only [] at hf hns
      · simp at hf
      · simp at hf
      · exact Or.inr ⟨rfl, rfl⟩
      · exact absurd hb.2.2.2.2 hns

/-- **(b1')** …and at start only when the height has reached expiry already, the onion
    cannot be decoded, the final-hop details are invalid or the invoice is cancelled. -/
theorem incoming_gives_up_at_start_only_with_cause (c : Cfg) (st : St)
    (hi : st.phase = .init) (hout : c.out = false) (hcon : c.contest = true)
    (hf : Eff.final false ∈ (start c st).2) (hns : Eff.swapSU ∉ (start c st).2) :
    c.onionErr = true ∨ invalidFinal c st.height = true ∨ st.height % U32 ≥ c.expiry ∨
    (c.exit = true ∧ c.regR = .cancel) := by
  have key : ∀ st1 : St, st1.height = st.height → expectedDisp st1.phase = 0 →
      expectedResolved st1.phase = 0 →
      Eff.final false ∈ (icResolve c st1).2 → Eff.swapSU ∉ (icResolve c st1).2 →
      c.onionErr = true ∨ invalidFinal c st.height = true ∨ st.height % U32 ≥ c.expiry ∨
      (c.exit = true ∧ c.regR = .cancel) := by
    intro st1 hh hp hr hf hns
    have hb := becomeSU_spec c st1 hp hr
    unfold icResolve at hf hns
    split at hf
    · rename_i h; exact Or.inl h
    split at hf
    · rename_i h; rw [hh] at h; exact Or.inr (Or.inl h)
    split at hf
    · rename_i h; rw [hh] at h; exact Or.inr (Or.inr (Or.inl h))
    rename_i h1 h2 h3
    simp only [h1, h2, h3, ite_false, Bool.false_eq_true] at hns
    split at hf
    · rename_i hex
      simp only [hex, ite_true] at hns
      cases hreg : c.regR <;> simp only [hreg] at hf hns
      · simp at hf
      · exact absurd hb.2.2.2.2 hns
      · simp at hf
      · exact Or.inr (Or.inr (Or.inr ⟨hex, rfl⟩))
    · rename_i hex
      simp only [hex, ite_false, Bool.false_eq_true] at hns
      split at hf
      · rename_i hk
        simp only [hk, ite_true] at hns
        exact absurd hb.2.2.2.2 hns
      · simp at hf
  unfold start at hf hns
  simp only [hout, hcon, List.mem_append, not_or] at hf hns
  have hl := icLaunch_spec c st
  rcases hf with hf | hf
  · exact absurd hf (hl.2.2.2.2 false)
  · exact key (icLaunch c st).1 hl.2.2.2.1 (by rw [hl.2.2.1]; simp [hi, expectedDisp])
      (by rw [hl.2.2.1]; simp [hi, expectedResolved]) hf hns.2

/-- **(b2)** A block below expiry and a foreign preimage leave the contest resolver waiting
    and report nothing. -/
theorem incoming_keeps_waiting (c : Cfg) (st : St) (hodl : Bool) (ev : Ev)
    (hph : st.phase = .icWait hodl)
    (hev : (∃ h, ev = .block h ∧ h % U32 < c.expiry) ∨ ev = .wrongpre) :
    (step c st ev).2 = [] ∧ (step c st ev).1.phase = .icWait hodl := by
  unfold step
  rcases hev with ⟨h, rfl, hlt⟩ | rfl
  · have : ¬ (h % U32 ≥ c.expiry) := by omega
    simp [dropped, record, react, hph, this]
  · simp [dropped, record, react, hph]

/-- **(b3)** A forwarded HTLC's preimage arriving through the witness beacon while the
    contest resolver waits turns it into the success resolver (SwapContract), which is
    launched: the claim is offered to the sweeper / published. -/
theorem incoming_uses_preimage (c : Cfg) (st : St) (hph : st.phase = .icWait false) :
    Eff.swapSU ∈ (step c st .pre).2 ∧ (st.conf = none → Eff.final false ∉ (step c st .pre).2) := by
  unfold step
  simp only [dropped, record, react, hph]
  refine ⟨(becomeSU_spec c _ (by simp [expectedDisp]) (by simp [expectedResolved])).2.2.2.2, ?_⟩
  intro hconf
  unfold becomeSU launchSU suResolve suSecondStage
  cases c.commit <;> cases st.launched <;> cases st.conf2 <;> simp [hconf]

theorem incoming_uses_hodl_settle (c : Cfg) (st : St) (hph : st.phase = .icWait true) :
    Eff.swapSU ∈ (step c st (.hodl true)).2 := by
  unfold step
  simp only [dropped, record, react, hph]
  exact (becomeSU_spec c _ (by simp [hph, expectedDisp]) (by simp [hph, expectedResolved])).2.2.2.2

/-- **(b)** at trace level: whatever sequence of blocks below expiry and foreign preimages
    goes by — in particular the block expiry-1 — the preimage arriving afterwards is
    still used, and nothing has been given up before. -/
theorem incoming_uses_preimage_at_any_earlier_height (c : Cfg) (st : St) (evs : List Ev)
    (hph : st.phase = .icWait false) (hnone : st.conf = none)
    (hall : ∀ ev ∈ evs, (∃ h, ev = .block h ∧ h % U32 < c.expiry) ∨ ev = .wrongpre) :
    Eff.swapSU ∈ (runFrom c st (evs ++ [.pre])).2 ∧
    Eff.final false ∉ (runFrom c st (evs ++ [.pre])).2 := by
  induction evs generalizing st with
  | nil =>
    simp only [List.nil_append, runFrom, List.append_nil]
    have h := incoming_uses_preimage c st hph
    exact ⟨h.1, h.2 hnone⟩
  | cons e es ih =>
    have hw := incoming_keeps_waiting c st false e hph (hall e (by simp))
    have hconf : (step c st e).1.conf = none := by
      unfold step
      rcases hall e (by simp) with ⟨h, rfl, hlt⟩ | rfl
      · have : ¬ (h % U32 ≥ c.expiry) := by omega
        simp [dropped, record, react, hph, this, hnone]
      · simp [dropped, record, react, hph, hnone]
    have := ih (step c st e).1 hw.2 hconf (fun ev hev => hall ev (by simp [hev]))
    simp only [List.cons_append, runFrom, hw.1, List.nil_append]
    exact this

/-! ### satisfiable hypotheses -/

/-- remote commitment, legacy script: the peer's success spend `<0> <sig> <sig> <preimage> <script>` -/
def exSuccessRemote : Spend := { lens := [0, 72, 72, 32, 3], annex := false, preOk := true, scr := true, lvl2 := false }
/-- our direct timeout sweep `<sig> <0> <script>` -/
def exTimeoutRemote : Spend := { lens := [72, 0, 3], annex := false, preOk := false, scr := true, lvl2 := false }
/-- taproot, remote commitment, with annex -/
def exSuccessTaprootAnnex : Spend := { lens := [64, 64, 32, 3, 33, 2], annex := true, preOk := true, scr := true, lvl2 := false }

def exCfg : Cfg :=
  { out := true, contest := true, commit := .remote, taproot := false, mempool := true,
    expiry := 150, bh := 146, exit := false, onionErr := false, amtOK := true, cltvOK := true,
    regL := .none, regR := .none, maxDelta := 65535 }

example : isPreimageSpend exCfg.taproot exCfg.isLocal exSuccessRemote = true := by decide +kernel
example : isPreimageSpend exCfg.taproot exCfg.isLocal exTimeoutRemote = false := by decide +kernel
example : isPreimageSpend true false exSuccessTaprootAnnex = true := by decide +kernel

/-- the C12_7 shape: contest resolver, block expiry-1, our own sweep in the mempool, then the
    peer's preimage spend confirms: swap + sweep, nothing on the mempool spend, settle. -/
example : (run exCfg 147 [] [.block 148, .block 149, .mem exTimeoutRemote, .block 150, .conf exSuccessRemote]).2
    = [.swapTO, .sweepDirectTimeout, .addpre, .settle, .ckptClaimed, .resolved] := by decide +kernel

/-- …and when our sweep confirms instead: exactly one fail-back, at the confirmation. -/
example : (run exCfg 147 [] [.block 149, .mem exTimeoutRemote, .block 151, .conf exTimeoutRemote]).2
    = [.swapTO, .sweepDirectTimeout, .fail, .ckptTimeout, .resolved] := by decide +kernel

def exCfgIn : Cfg := { exCfg with out := false }

/-- the C12_8 shape: block expiry-1 goes by, the preimage arrives in the last block -/
example : (run exCfgIn 147 [] [.block 148, .block 149, .pre]).2 = [.swapSU, .sweepDirectSuccess] ∧
    (run exCfgIn 147 [] [.block 148, .block 149, .pre]).1.phase = .suWait := by decide +kernel

example : (run exCfgIn 147 [] [.block 149, .block 150, .pre]).2 = [.final false, .ckptTimeout, .resolved] := by
  decide

example : ∃ st : St, st.phase = .icWait false ∧ st.conf = none ∧
    ∀ ev ∈ [Ev.block 148, Ev.wrongpre, Ev.block 149],
      (∃ h, ev = .block h ∧ h % U32 < exCfgIn.expiry) ∨ ev = .wrongpre :=
  ⟨{ phase := .icWait false, height := 147 }, rfl, rfl, by
    intro ev hev
    simp only [List.mem_cons, List.not_mem_nil, or_false] at hev
    rcases hev with rfl | rfl | rfl
    · exact Or.inl ⟨148, rfl, by decide +kernel⟩
    · exact Or.inr rfl
    · exact Or.inl ⟨149, rfl, by decide +kernel⟩⟩

end LndModel.C12.Res
