/-
C12 — lemmas for the fail-back clause on the paths that end in a LOCAL confirmation
(our own commitment confirms), for HTLC sets in which the peer's two commitments carry the
same copy of every offered HTLC they share (`Agree`).  Without `Agree` the clause is false on
these paths (finding F2b, `remote_copies_disagree_order_dependent`).
-/
import LndModel.C12.PathLemmas

namespace LndModel.C12

/-- the peer's current and pending commitment agree on every offered HTLC they both carry:
    same dust flag, payment hash and expiry -/
def Agree (sets : Sets) : Prop :=
  ∀ x ∈ sets.rem.outgoing, ∀ y ∈ sets.pend.outgoing, x.index = y.index →
    x.dust = y.dust ∧ x.hash = y.hash ∧ x.refundTimeout = y.refundTimeout

/-- the filter of `checkRemoteDanglingActions` for one candidate -/
def danglingOK (env : Env) (height : Nat) (sets : Sets) (cc : Bool) (x : Htlc) : Bool :=
  !hasIndex sets.loc.outgoing x.index &&
  ((shouldGoOnChain env x env.deltaOut height || cc) && !env.preimageKnown x.hash)

theorem shouldGoOnChain_congr (env : Env) (x y : Htlc) (d h : Nat) (hi : x.index = y.index)
    (hd : x.incoming = y.incoming) (ht : x.refundTimeout = y.refundTimeout) :
    shouldGoOnChain env x d h = shouldGoOnChain env y d h := by
  simp [shouldGoOnChain, hi, hd, ht]

/-- two copies of the same offered HTLC on the peer's commitments look the same -/
theorem copy_props (env : Env) (sets : Sets) (hwr : WFSet sets.rem) (hwp : WFSet sets.pend)
    (hag : Agree sets) (x y : Htlc)
    (hx : x ∈ sets.rem.outgoing ++ sets.pend.outgoing)
    (hy : y ∈ sets.rem.outgoing ++ sets.pend.outgoing) (hi : x.index = y.index) (d h : Nat) :
    x.dust = y.dust ∧ x.hash = y.hash ∧ shouldGoOnChain env x d h = shouldGoOnChain env y d h := by
  rw [List.mem_append] at hx hy
  rcases hx with hx | hx <;> rcases hy with hy | hy
  · have := eq_of_index_eq hwr.outNodup hx hy hi
    subst this; exact ⟨rfl, rfl, rfl⟩
  · obtain ⟨h1, h2, h3⟩ := hag x hx y hy hi
    exact ⟨h1, h2, shouldGoOnChain_congr env x y d h hi
      ((hwr.outDir x hx).trans (hwp.outDir y hy).symm) h3⟩
  · obtain ⟨h1, h2, h3⟩ := hag y hy x hx hi.symm
    exact ⟨h1.symm, h2.symm, shouldGoOnChain_congr env x y d h hi
      ((hwp.outDir x hx).trans (hwr.outDir y hy).symm) h3.symm⟩
  · have := eq_of_index_eq hwp.outNodup hx hy hi
    subst this; exact ⟨rfl, rfl, rfl⟩

theorem mem_actionsOf_intro {m : ActionMap} {a : Action} {x : Htlc} (h : (a, x) ∈ m) :
    x ∈ actionsOf m a := by
  simp only [actionsOf, List.mem_map, List.mem_filter, beq_iff_eq]
  exact ⟨(a, x), ⟨h, rfl⟩, rfl⟩

/-- Which indices `checkRemoteDanglingActions` puts under action `a`: independent of the map
    iteration order when the peer's two commitments agree. -/
theorem dangling_index_iff (env : Env) (height : Nat) (sets : Sets) (cc pl : Bool) (a : Action)
    (hwr : WFSet sets.rem) (hwp : WFSet sets.pend) (hag : Agree sets) (i : Nat) :
    i ∈ (actionsOf (checkRemoteDangling env height sets cc pl) a).map (·.index) ↔
    ∃ x ∈ sets.rem.outgoing ++ sets.pend.outgoing,
      x.index = i ∧ danglingOK env height sets cc x = true ∧ classifyDangling x = a := by
  constructor
  · intro hi
    obtain ⟨x, hx, rfl⟩ := List.mem_map.mp hi
    have hm := mem_actionsOf hx
    simp only [checkRemoteDangling, List.mem_map, List.mem_filter, Prod.mk.injEq] at hm
    obtain ⟨y, ⟨⟨hy, h1⟩, h2⟩, h3, rfl⟩ := hm
    refine ⟨y, List.mem_append.mpr (mem_mergeRemote hy), rfl, ?_, h3⟩
    simp only [danglingOK, Bool.and_eq_true]
    exact ⟨h1, by simpa using h2⟩
  · rintro ⟨x, hx, rfl, hok, hcl⟩
    have hidx : x.index ∈ (sets.rem.outgoing ++ sets.pend.outgoing).map (·.index) :=
      List.mem_map.mpr ⟨x, hx, rfl⟩
    obtain ⟨y, hy, hyi⟩ := List.mem_map.mp (index_mem_mergeRemote sets pl x.index hidx)
    have hy' : y ∈ sets.rem.outgoing ++ sets.pend.outgoing :=
      List.mem_append.mpr (mem_mergeRemote hy)
    obtain ⟨hd, hh, hs⟩ := copy_props env sets hwr hwp hag y x hy' hx hyi env.deltaOut height
    refine List.mem_map.mpr ⟨y, mem_actionsOf_intro ?_, hyi⟩
    simp only [checkRemoteDangling, List.mem_map, List.mem_filter, Prod.mk.injEq]
    simp only [danglingOK, Bool.and_eq_true] at hok
    refine ⟨y, ⟨⟨hy, ?_⟩, ?_⟩, ?_, rfl⟩
    · rw [hyi]; exact hok.1
    · rw [hs, hh]; simpa using hok.2
    · rw [← hcl]; simp [classifyDangling, hd]

theorem danglingOK_notin_local (env : Env) (height : Nat) (sets : Sets) (cc : Bool) (x : Htlc)
    (h : danglingOK env height sets cc x = true) : x.index ∉ sets.loc.outgoing.map (·.index) := by
  intro hc
  have := (hasIndex_iff _ _).mpr hc
  simp only [danglingOK, Bool.and_eq_true, Bool.not_eq_true'] at h
  rw [h.1] at this; cases this

theorem classifyDangling_eq_failDust (x : Htlc) : classifyDangling x = .failDust ↔ x.dust = true := by
  unfold classifyDangling; cases x.dust <;> simp

theorem classifyDangling_eq_failDangling (x : Htlc) :
    classifyDangling x = .failDangling ↔ x.dust = false := by
  unfold classifyDangling; cases x.dust <;> simp

/-! ### StateDefault → our own commitment confirms -/

/-- what must be failed upstream when OUR commitment confirms: offered HTLCs that are dust on
    it, and offered HTLCs that exist only on the peer's commitment(s) and whose preimage is
    unknown. -/
def mustFailLocal (env : Env) (sets : Sets) : List Nat :=
  (sets.loc.outgoing.filter (·.dust)).map (·.index) ++
  ((sets.rem.outgoing ++ sets.pend.outgoing).filter (fun h =>
      !hasIndex sets.loc.outgoing h.index && !env.preimageKnown h.hash)).map (·.index)

theorem construct_loc (env : Env) (sets : Sets) (height : Nat) (trig : Trigger) (pl : Bool) :
    construct env .loc sets height trig pl = checkLocal env height trig sets true pl := by
  simp [construct]

theorem close_default_local_fails (env : Env) (a : Arb) (sets : Sets)
    (res : Resolutions) (height : Nat) (choice : AState → Bool)
    (hs : a.state = .default) (hb : res.breach = false)
    (hwr : WFSet sets.rem) (hwp : WFSet sets.pend) (hag : Agree sets) (i : Nat) :
    (handleClose env a (.localForce ⟨.loc, sets⟩ res height) choice).2.fails.flatten.count i
      = if i ∈ mustFailLocal env sets then 1 else 0 := by
  simp only [handleClose]
  rw [advance_default_close env { a with resolutions := some res } height .localClose
    ⟨.loc, sets⟩ res choice (Or.inr rfl) hs rfl hb]
  simp only [Out.append, List.flatten_append, flatten_failBatch, ccOut_fails_flatten,
    List.count_append, count_indexSet, construct_loc,
    checkLocal_failDust env height .localClose sets true _ (by decide),
    checkLocal_failDangling env height .localClose sets true _ (by decide)]
  have KD := dangling_index_iff env height sets true (choice .default) .failDust hwr hwp hag i
  have KN := dangling_index_iff env height sets true (choice .contractClosed) .failDangling hwr hwp hag i
  rw [List.map_append]
  have E1 : i ∈ (sets.loc.outgoing.filter (·.dust)).map (·.index) ++
      (actionsOf (checkRemoteDangling env height sets true (choice .default)) .failDust).map (·.index) ↔
      (i ∈ (sets.loc.outgoing.filter (·.dust)).map (·.index) ∨
        ∃ x ∈ sets.rem.outgoing ++ sets.pend.outgoing, x.index = i ∧
          danglingOK env height sets true x = true ∧ classifyDangling x = .failDust) := by
    rw [List.mem_append, KD]
  -- membership in the specification
  have hM : i ∈ mustFailLocal env sets ↔
      i ∈ (sets.loc.outgoing.filter (·.dust)).map (·.index) ∨
      ∃ x ∈ sets.rem.outgoing ++ sets.pend.outgoing, x.index = i ∧
        danglingOK env height sets true x = true := by
    unfold mustFailLocal
    rw [List.mem_append]
    constructor
    · rintro (h | h)
      · exact Or.inl h
      · obtain ⟨x, hx, rfl⟩ := List.mem_map.mp h
        have hx' := List.mem_filter.mp hx
        exact Or.inr ⟨x, hx'.1, rfl, by simpa [danglingOK] using hx'.2⟩
    · rintro (h | ⟨x, hx, rfl, hok⟩)
      · exact Or.inl h
      · exact Or.inr (List.mem_map.mpr ⟨x, List.mem_filter.mpr ⟨hx, by simpa [danglingOK] using hok⟩, rfl⟩)
  by_cases hA : i ∈ (sets.loc.outgoing.filter (·.dust)).map (·.index)
  · -- dust on our commitment: not dangling
    have hloc : i ∈ sets.loc.outgoing.map (·.index) := by
      obtain ⟨x, hx, rfl⟩ := List.mem_map.mp hA
      exact List.mem_map.mpr ⟨x, (List.mem_filter.mp hx).1, rfl⟩
    have hnN : ¬ ∃ x ∈ sets.rem.outgoing ++ sets.pend.outgoing, x.index = i ∧
        danglingOK env height sets true x = true ∧ classifyDangling x = .failDangling := by
      rintro ⟨x, _, rfl, hok, _⟩
      exact danglingOK_notin_local env height sets true x hok hloc
    rw [if_pos (E1.mpr (Or.inl hA)), if_neg (fun h => hnN (KN.mp h)), if_pos (hM.mpr (Or.inl hA))]
  · by_cases hX : ∃ x ∈ sets.rem.outgoing ++ sets.pend.outgoing, x.index = i ∧
        danglingOK env height sets true x = true
    · obtain ⟨x, hx, hxi, hok⟩ := hX
      cases hd : x.dust
      · -- dangling, has an output on the peer's commitment(s): FailDangling only
        have hnD : ¬ ∃ y ∈ sets.rem.outgoing ++ sets.pend.outgoing, y.index = i ∧
            danglingOK env height sets true y = true ∧ classifyDangling y = .failDust := by
          rintro ⟨y, hy, hyi, _, hcl⟩
          have := (copy_props env sets hwr hwp hag y x hy hx (hyi.trans hxi.symm) 0 0).1
          rw [(classifyDangling_eq_failDust y).mp hcl, hd] at this; cases this
        have hN : ∃ y ∈ sets.rem.outgoing ++ sets.pend.outgoing, y.index = i ∧
            danglingOK env height sets true y = true ∧ classifyDangling y = .failDangling :=
          ⟨x, hx, hxi, hok, (classifyDangling_eq_failDangling x).mpr hd⟩
        have hnA : ¬ (i ∈ (sets.loc.outgoing.filter (·.dust)).map (·.index) ∨
            ∃ y ∈ sets.rem.outgoing ++ sets.pend.outgoing, y.index = i ∧
              danglingOK env height sets true y = true ∧ classifyDangling y = .failDust) := by
          rintro (h | h)
          · exact hA h
          · exact hnD h
        rw [if_neg (fun h => hnA (E1.mp h)), if_pos (KN.mpr hN), if_pos (hM.mpr (Or.inr ⟨x, hx, hxi, hok⟩))]
      · -- dangling dust: FailDust only
        have hD : ∃ y ∈ sets.rem.outgoing ++ sets.pend.outgoing, y.index = i ∧
            danglingOK env height sets true y = true ∧ classifyDangling y = .failDust :=
          ⟨x, hx, hxi, hok, (classifyDangling_eq_failDust x).mpr hd⟩
        have hnN : ¬ ∃ y ∈ sets.rem.outgoing ++ sets.pend.outgoing, y.index = i ∧
            danglingOK env height sets true y = true ∧ classifyDangling y = .failDangling := by
          rintro ⟨y, hy, hyi, _, hcl⟩
          have := (copy_props env sets hwr hwp hag y x hy hx (hyi.trans hxi.symm) 0 0).1
          rw [(classifyDangling_eq_failDangling y).mp hcl, hd] at this; cases this
        rw [if_pos (E1.mpr (Or.inr hD)), if_neg (fun h => hnN (KN.mp h)), if_pos (hM.mpr (Or.inr ⟨x, hx, hxi, hok⟩))]
    · have hnD : ¬ (i ∈ (sets.loc.outgoing.filter (·.dust)).map (·.index) ∨
          ∃ y ∈ sets.rem.outgoing ++ sets.pend.outgoing, y.index = i ∧
            danglingOK env height sets true y = true ∧ classifyDangling y = .failDust) := by
        rintro (h | ⟨y, hy, hyi, hok, _⟩)
        · exact hA h
        · exact hX ⟨y, hy, hyi, hok⟩
      have hnN : ¬ ∃ y ∈ sets.rem.outgoing ++ sets.pend.outgoing, y.index = i ∧
          danglingOK env height sets true y = true ∧ classifyDangling y = .failDangling := by
        rintro ⟨y, hy, hyi, hok, _⟩
        exact hX ⟨y, hy, hyi, hok⟩
      have hnM : i ∉ mustFailLocal env sets := by
        intro h
        rcases hM.mp h with h | h
        · exact hA h
        · exact hX h
      rw [if_neg (fun h => hnD (E1.mp h)), if_neg (fun h => hnN (KN.mp h)), if_neg hnM]

/-! ### user force close, then our own commitment confirms -/

/-- what IS failed upstream (exactly once) along user force close at `h0` → our commitment
    confirms: dust on our commitment; dangling HTLCs with an output on the peer's
    commitment(s); dangling dust HTLCs that were already at their cut-off at `h0`.  Dangling
    dust that was not yet due at `h0` is missing: finding F2. -/
def failedUserLocal (env : Env) (sets : Sets) (h0 : Nat) : List Nat :=
  (sets.loc.outgoing.filter (·.dust)).map (·.index) ++
  ((sets.rem.outgoing ++ sets.pend.outgoing).filter (fun h =>
      !hasIndex sets.loc.outgoing h.index && !env.preimageKnown h.hash &&
      (!h.dust || shouldGoOnChain env h env.deltaOut h0))).map (·.index)

theorem user_then_local_fails (env : Env) (a : Arb) (res : Resolutions) (h0 h1 : Nat)
    (choice : AState → Bool) (hs : a.state = .default) (hf : a.fcErr = .none)
    (hb : res.breach = false)
    (hwr : WFSet a.active.rem) (hwp : WFSet a.active.pend) (hag : Agree a.active) (i : Nat) :
    ((handleUser env a h0 choice).2.fails ++
      (handleClose env (handleUser env a h0 choice).1
        (.localForce ⟨.loc, a.active⟩ res h1) choice).2.fails).flatten.count i
      = if i ∈ failedUserLocal env a.active h0 then 1 else 0 := by
  have hu := advance_default_user env a h0 choice hs hf
  have hr1 : handleUser env a h0 choice = advance env a h0 .user none choice advanceFuel := by
    simp [handleUser, hs]
  have hst : (handleUser env a h0 choice).1.state = .commitmentBroadcasted := by
    rw [hr1, hu.2.2]
  have hr2 : (handleClose env (handleUser env a h0 choice).1
      (.localForce ⟨.loc, a.active⟩ res h1) choice).2
        = ccOut env ⟨.loc, a.active⟩ res h1 .localClose (choice .contractClosed) := by
    simp only [handleClose]
    exact advance_broadcast_close env _ h1 .localClose _ res choice (Or.inr rfl) (Or.inr hst) rfl hb
  rw [List.flatten_append, List.count_append, hr2, ccOut_fails_flatten, hr1, hu.1,
    flatten_failBatch, count_indexSet, count_indexSet]
  simp only [construct_loc, checkLocal_failDust env h0 .user a.active false _ (by decide),
    checkLocal_failDangling env h1 .localClose a.active true _ (by decide)]
  generalize a.active = sets at *
  have KD := dangling_index_iff env h0 sets false (choice .default) .failDust hwr hwp hag i
  have KN := dangling_index_iff env h1 sets true (choice .contractClosed) .failDangling hwr hwp hag i
  rw [List.map_append]
  have E1 : i ∈ (sets.loc.outgoing.filter (·.dust)).map (·.index) ++
      (actionsOf (checkRemoteDangling env h0 sets false (choice .default)) .failDust).map (·.index) ↔
      (i ∈ (sets.loc.outgoing.filter (·.dust)).map (·.index) ∨
        ∃ x ∈ sets.rem.outgoing ++ sets.pend.outgoing, x.index = i ∧
          danglingOK env h0 sets false x = true ∧ classifyDangling x = .failDust) := by
    rw [List.mem_append, KD]
  -- the specification, split by kind
  have hM : i ∈ failedUserLocal env sets h0 ↔
      i ∈ (sets.loc.outgoing.filter (·.dust)).map (·.index) ∨
      ∃ x ∈ sets.rem.outgoing ++ sets.pend.outgoing, x.index = i ∧
        hasIndex sets.loc.outgoing x.index = false ∧ env.preimageKnown x.hash = false ∧
        (x.dust = false ∨ shouldGoOnChain env x env.deltaOut h0 = true) := by
    unfold failedUserLocal
    rw [List.mem_append]
    constructor
    · rintro (h | h)
      · exact Or.inl h
      · obtain ⟨x, hx, rfl⟩ := List.mem_map.mp h
        have hx' := List.mem_filter.mp hx
        refine Or.inr ⟨x, hx'.1, rfl, ?_⟩
        have := hx'.2
        simp only [Bool.and_eq_true, Bool.not_eq_true', Bool.or_eq_true] at this
        exact ⟨this.1.1, this.1.2, this.2⟩
    · rintro (h | ⟨x, hx, rfl, h1, h2, h3⟩)
      · exact Or.inl h
      · refine Or.inr (List.mem_map.mpr ⟨x, List.mem_filter.mpr ⟨hx, ?_⟩, rfl⟩)
        simp only [Bool.and_eq_true, Bool.not_eq_true', Bool.or_eq_true]
        exact ⟨⟨h1, h2⟩, h3⟩
  by_cases hA : i ∈ (sets.loc.outgoing.filter (·.dust)).map (·.index)
  · have hloc : i ∈ sets.loc.outgoing.map (·.index) := by
      obtain ⟨x, hx, rfl⟩ := List.mem_map.mp hA
      exact List.mem_map.mpr ⟨x, (List.mem_filter.mp hx).1, rfl⟩
    have hnN : ¬ ∃ x ∈ sets.rem.outgoing ++ sets.pend.outgoing, x.index = i ∧
        danglingOK env h1 sets true x = true ∧ classifyDangling x = .failDangling := by
      rintro ⟨x, _, rfl, hok, _⟩
      exact danglingOK_notin_local env h1 sets true x hok hloc
    rw [if_pos (E1.mpr (Or.inl hA)), if_neg (fun h => hnN (KN.mp h)), if_pos (hM.mpr (Or.inl hA))]
  · by_cases hX : ∃ x ∈ sets.rem.outgoing ++ sets.pend.outgoing, x.index = i ∧
        hasIndex sets.loc.outgoing x.index = false ∧ env.preimageKnown x.hash = false
    · obtain ⟨x, hx, hxi, hnl, hnk⟩ := hX
      have same : ∀ y ∈ sets.rem.outgoing ++ sets.pend.outgoing, y.index = i →
          y.dust = x.dust ∧
          shouldGoOnChain env y env.deltaOut h0 = shouldGoOnChain env x env.deltaOut h0 := by
        intro y hy hyi
        have := copy_props env sets hwr hwp hag y x hy hx (hyi.trans hxi.symm) env.deltaOut h0
        exact ⟨this.1, this.2.2⟩
      cases hd : x.dust
      · -- output on the peer's commitment(s): failed at confirmation only
        have hN : ∃ y ∈ sets.rem.outgoing ++ sets.pend.outgoing, y.index = i ∧
            danglingOK env h1 sets true y = true ∧ classifyDangling y = .failDangling :=
          ⟨x, hx, hxi, by simp [danglingOK, hnl, hnk], (classifyDangling_eq_failDangling x).mpr hd⟩
        have hnD : ¬ (i ∈ (sets.loc.outgoing.filter (·.dust)).map (·.index) ∨
            ∃ y ∈ sets.rem.outgoing ++ sets.pend.outgoing, y.index = i ∧
              danglingOK env h0 sets false y = true ∧ classifyDangling y = .failDust) := by
          rintro (h | ⟨y, hy, hyi, _, hcl⟩)
          · exact hA h
          · have := (same y hy hyi).1
            rw [(classifyDangling_eq_failDust y).mp hcl, hd] at this; cases this
        rw [if_neg (fun h => hnD (E1.mp h)), if_pos (KN.mpr hN), if_pos (hM.mpr (Or.inr ⟨x, hx, hxi, hnl, hnk, Or.inl hd⟩))]
      · -- dust on the peer's commitment(s): failed at broadcast iff it was due then
        have hnN : ¬ ∃ y ∈ sets.rem.outgoing ++ sets.pend.outgoing, y.index = i ∧
            danglingOK env h1 sets true y = true ∧ classifyDangling y = .failDangling := by
          rintro ⟨y, hy, hyi, _, hcl⟩
          have := (same y hy hyi).1
          rw [(classifyDangling_eq_failDangling y).mp hcl, hd] at this; cases this
        cases hdue : shouldGoOnChain env x env.deltaOut h0
        · have hnD : ¬ (i ∈ (sets.loc.outgoing.filter (·.dust)).map (·.index) ∨
              ∃ y ∈ sets.rem.outgoing ++ sets.pend.outgoing, y.index = i ∧
                danglingOK env h0 sets false y = true ∧ classifyDangling y = .failDust) := by
            rintro (h | ⟨y, hy, hyi, hok, _⟩)
            · exact hA h
            · have := (same y hy hyi).2
              simp only [danglingOK, Bool.and_eq_true, Bool.or_false] at hok
              rw [hok.2.1, hdue] at this; cases this
          have hnM : i ∉ failedUserLocal env sets h0 := by
            intro h
            rcases hM.mp h with h | ⟨y, hy, hyi, _, _, h3⟩
            · exact hA h
            · have := same y hy hyi
              rcases h3 with h3 | h3
              · rw [h3, hd] at this; cases this.1
              · rw [h3, hdue] at this; cases this.2
          rw [if_neg (fun h => hnD (E1.mp h)), if_neg (fun h => hnN (KN.mp h)), if_neg hnM]
        · have hD : ∃ y ∈ sets.rem.outgoing ++ sets.pend.outgoing, y.index = i ∧
              danglingOK env h0 sets false y = true ∧ classifyDangling y = .failDust :=
            ⟨x, hx, hxi, by simp [danglingOK, hnl, hnk, hdue], (classifyDangling_eq_failDust x).mpr hd⟩
          rw [if_pos (E1.mpr (Or.inr hD)), if_neg (fun h => hnN (KN.mp h)),
            if_pos (hM.mpr (Or.inr ⟨x, hx, hxi, hnl, hnk, Or.inr hdue⟩))]
    · have hnD : ¬ (i ∈ (sets.loc.outgoing.filter (·.dust)).map (·.index) ∨
          ∃ y ∈ sets.rem.outgoing ++ sets.pend.outgoing, y.index = i ∧
            danglingOK env h0 sets false y = true ∧ classifyDangling y = .failDust) := by
        rintro (h | ⟨y, hy, hyi, hok, _⟩)
        · exact hA h
        · simp only [danglingOK, Bool.and_eq_true, Bool.not_eq_true'] at hok
          exact hX ⟨y, hy, hyi, hok.1, hok.2.2⟩
      have hnN : ¬ ∃ y ∈ sets.rem.outgoing ++ sets.pend.outgoing, y.index = i ∧
          danglingOK env h1 sets true y = true ∧ classifyDangling y = .failDangling := by
        rintro ⟨y, hy, hyi, hok, _⟩
        simp only [danglingOK, Bool.and_eq_true, Bool.not_eq_true'] at hok
        exact hX ⟨y, hy, hyi, hok.1, hok.2.2⟩
      have hnM : i ∉ failedUserLocal env sets h0 := by
        intro h
        rcases hM.mp h with h | ⟨y, hy, hyi, h1', h2', _⟩
        · exact hA h
        · exact hX ⟨y, hy, hyi, h1', h2'⟩
      rw [if_neg (fun h => hnD (E1.mp h)), if_neg (fun h => hnN (KN.mp h)), if_neg hnM]

end LndModel.C12
