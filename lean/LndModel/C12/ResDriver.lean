/-
C12 driver for the stream `resolvers`: replays the resolver-level harness trace on
`LndModel.C12.Res` (correspondence, `MISMATCH`) and evaluates the property statements on
the reports of the REAL resolvers (`MONITOR`).  The monitor does not use the model's step
function: it judges every report against the oracle's event history (which spends were
confirmed / unconfirmed and of which kind, which heights were reached, when the preimage
arrived).
-/
import LndModel.Prelude.Lines
import LndModel.C12.ResModel

open LndModel LndModel.Lines LndModel.C12.Res

namespace LndModel.C12.ResDriver

def effTag : Eff → String
  | .sweepDirectTimeout => "sweep:direct-timeout" | .sweepTimeoutTx => "sweep:timeout-tx"
  | .sweepTimeout2nd => "sweep:timeout-2nd" | .sweepDirectSuccess => "sweep:direct-success"
  | .sweepSuccessTx => "sweep:success-tx" | .sweepSuccess2nd => "sweep:success-2nd"
  | .incubate => "incubate" | .publish => "publish" | .addpre => "addpre:ok"
  | .fail => "fail" | .settle => "settle:ok"
  | .final true => "final:1" | .final false => "final:0"
  | .ckptClaimed => "ckpt:claimed" | .ckptTimeout => "ckpt:timeout"
  | .ckptFirstStage => "ckpt:firststage" | .ckptAbandoned => "ckpt:abandoned"
  | .ckptNone => "ckpt:-" | .ckptClaimedFirst => "ckpt:claimed+firststage"
  | .repAbandoned => "rep:abandoned" | .swapTO => "swap:TO" | .swapSU => "swap:SU"
  | .resolved => "resolved" | .errMismatch => "err:preimage-mismatch"
  | .errInvalidSuccess => "err:invalid-success-resolver" | .errOther => "err:other"
  | .panic => "panic"

def renderEffs (l : List Eff) : String :=
  if l.isEmpty then "-" else " ".intercalate (l.map effTag)

structure D where
  -- bookkeeping
  lines : Nat := 0
  cases : Nat := 0
  ops : Nat := 0
  nontrivial : Nat := 0
  mismatches : Nat := 0
  monitorFails : Nat := 0
  caseId : String := ""
  inCase : Bool := false
  samples : Nat := 0
  maxDelta : Nat := 65535
  -- model
  cfg : Cfg := default
  st : St := {}
  -- monitor: oracle history of the current case
  h0 : Nat := 0
  height : Nat := 0
  started : Bool := false
  reachedExpiry : Bool := false
  confKind : String := ""
  conf2Seen : Bool := false
  preKnown : Bool := false
  cancelSeen : Bool := false
  transformed : Bool := false
  terminal : Bool := false
  sweepSeen : Bool := false
  nFail : Nat := 0
  nSettle : Nat := 0
  nFinal0 : Nat := 0
  nFinal1 : Nat := 0
  nResolved : Nat := 0
  -- statistics
  outCases : Nat := 0
  inCases : Nat := 0
  mempoolCases : Nat := 0
  failChecks : Nat := 0
  settleChecks : Nat := 0
  memSettleChecks : Nat := 0
  memTimeoutIgnored : Nat := 0
  giveUpChecks : Nat := 0
  preimageUseChecks : Nat := 0
  lastBlockPreimage : Nat := 0
  dispositionChecks : Nat := 0
  transforms : Nat := 0
  deadEnds : Nat := 0

def mismatch (d : D) (detail : String) : IO D := do
  if d.mismatches < 25 then IO.println s!"MISMATCH case={d.caseId} {detail}"
  return { d with mismatches := d.mismatches + 1 }

def monitor (d : D) (clause detail : String) : IO D := do
  if d.monitorFails < 60 then IO.println s!"MONITOR case={d.caseId} clause={clause} line={d.lines} {detail}"
  return { d with monitorFails := d.monitorFails + 1 }

def parseNatList (s : String) : List Nat :=
  if s == "-" || s == "" then [] else (s.splitOn ",").filterMap String.toNat?

def parseReg : String → Reg
  | "settle" => .settle | "notfound" => .notfound | "cancel" => .cancel | _ => .none

def parseSpend (ws : List String) : Spend :=
  { lens := parseNatList ((kv? ws "wit").getD "-"),
    annex := (kv? ws "ann") == some "1",
    preOk := (kv? ws "p") == some "ok",
    scr := (kv? ws "scr") == some "1",
    lvl2 := (kv? ws "lvl2") == some "1" }

def parseEv (ws : List String) : Option Ev :=
  match ws with
  | "block" :: rest => (kvNat? rest "h").map .block
  | "conf" :: rest => some (.conf (parseSpend rest))
  | "mem" :: rest => some (.mem (parseSpend rest))
  | "conf2" :: _ => some .conf2
  | "pre" :: _ => some .pre
  | "wrongpre" :: _ => some .wrongpre
  | "hodl" :: rest => some (.hodl ((kv? rest "k") == some "settle"))
  | _ => none

/-- words before / after `=>` -/
def splitArrow (ws : List String) : List String × List String :=
  (ws.takeWhile (· != "=>"), (ws.dropWhile (· != "=>")).drop 1)

def cnt (toks : List String) (t : String) : Nat := (toks.filter (· == t)).length
def has (toks : List String) (t : String) : Bool := toks.contains t
def hasPrefix (toks : List String) (p : String) : Bool := toks.any (·.startsWith p)

/-- the monitor's own reading of `invalidFinalHtlc` -/
def monInvalidFinal (c : Cfg) (h : Nat) : Bool :=
  c.exit && (!c.amtOK || !c.cltvOK || (c.expiry > h && c.expiry - h > c.maxDelta))

/-- Property clauses on one operation's reports.  `evw` are the words of the event (or
    `["start"]`), `toks` the implementation's reports. -/
def monitorOp (d0 : D) (evw : List String) (toks : List String) : IO D := do
  let mut d := d0
  let c := d.cfg
  let isStart := evw.head? == some "start"
  let kind := (kv? evw "k").getD ""
  let evName := evw.head?.getD ""
  -- oracle history update (before judging: the event has been delivered)
  if evName == "block" then
    let h := (kvNat? evw "h").getD d.height
    d := { d with height := h, reachedExpiry := d.reachedExpiry || h ≥ c.expiry }
  let firstConf := evName == "conf" && d.confKind == ""
  if firstConf then d := { d with confKind := kind }
  if evName == "conf2" then d := { d with conf2Seen := true }
  if evName == "pre" then d := { d with preKnown := true }
  let wasTerminal := d.terminal
  let wasTransformed := d.transformed
  -- generic
  for t in toks do
    if t.startsWith "msg-" || t.startsWith "final-wrong" || t == "stuck" || t == "panic"
        || t == "settle:bad" || t == "addpre:bad" then
      d ← monitor d "res-malformed-report" s!"report {t} on {evw}"
  let nFail := d.nFail + cnt toks "fail"
  let nSettle := d.nSettle + cnt toks "settle:ok" + cnt toks "settle:bad"
  let nF0 := d.nFinal0 + cnt toks "final:0"
  let nF1 := d.nFinal1 + cnt toks "final:1"
  let nRes := d.nResolved + cnt toks "resolved"
  d := { d with dispositionChecks := d.dispositionChecks + 1 }
  if nFail + nSettle > 1 then
    d ← monitor d "res-disposition-twice" s!"offered HTLC idx reported upstream {nFail} fail(s) and {nSettle} settle(s)"
  if nF0 + nF1 > 1 then
    d ← monitor d "res-disposition-twice" s!"received HTLC got {nF0 + nF1} final outcomes"
  if nRes > 1 then
    d ← monitor d "res-disposition-twice" s!"contract marked resolved {nRes} times"
  if has toks "resolved" then
    if c.out && nFail + nSettle == 0 then
      d ← monitor d "res-resolved-without-disposition" "offered HTLC: contract resolved without an upstream fail or settle"
    if !c.out && nF0 + nF1 == 0 then
      d ← monitor d "res-resolved-without-disposition" "received HTLC: contract resolved without a final outcome"
  if !c.out && (nFail + nSettle > 0) then
    d ← monitor d "res-malformed-report" "upstream resolution message for a received HTLC"
  if c.out && (nF0 + nF1 > 0) then
    d ← monitor d "res-malformed-report" "final incoming outcome stored for an offered HTLC"
  let swapNow := has toks "swap:TO" || has toks "swap:SU"
  let sweepNow := hasPrefix toks "sweep:" || has toks "incubate" || has toks "publish"
  -- ---- offered HTLC -----------------------------------------------------------
  if c.out then
    -- (a) fail-back only after a CONFIRMED spend through the timeout path
    if has toks "fail" then
      d := { d with failChecks := d.failChecks + 1 }
      if d.confKind != "T" then
        let why := if d.confKind == "" then "its output on the confirmed commitment is still unspent on chain"
                   else s!"the confirmed spend of its output is of kind {d.confKind}"
        d ← monitor d "res-failback-with-output-unspent"
          s!"offered HTLC failed back upstream on {evw} although {why}"
    -- (a) a spend that reveals the preimage settles upstream
    if (firstConf || (isStart && d.confKind != "")) && d.confKind == "S" && !wasTerminal && (d.started || isStart) then
      d := { d with settleChecks := d.settleChecks + 1 }
      if !has toks "settle:ok" then
        d ← monitor d "res-preimage-spend-not-settled" s!"confirmed preimage spend seen on {evw}, no settle upstream: {toks}"
    if evName == "mem" && c.mempool && d.started && !wasTerminal && d.confKind == ""
        && (wasTransformed || !c.contest) then
      if kind == "S" then
        d := { d with memSettleChecks := d.memSettleChecks + 1 }
        if !has toks "settle:ok" then
          d ← monitor d "res-preimage-spend-not-settled" s!"mempool preimage spend seen on {evw}, no settle upstream: {toks}"
      else if kind == "T" && toks.isEmpty then
        d := { d with memTimeoutIgnored := d.memTimeoutIgnored + 1 }
    -- the timeout path is taken up no later than at expiry
    if c.contest && evName == "block" && d.started && !wasTerminal && !wasTransformed && d.height ≥ c.expiry
        && d.confKind == "" then
      if !has toks "swap:TO" then
        d ← monitor d "res-timeout-not-started" s!"height {d.height} >= expiry {c.expiry}: contest resolver did not hand over to the timeout resolver"
    if has toks "swap:TO" || (isStart && !c.contest) then
      if !(d.sweepSeen || sweepNow) then
        d ← monitor d "res-no-sweep-offered" "timeout resolver active, nothing offered to the sweeper / nursery"
  -- ---- received HTLC ----------------------------------------------------------
  else
    let inContest := c.contest && !wasTransformed
    let startLegit := c.onionErr || monInvalidFinal c d.h0 || (c.exit && c.regR == .cancel)
    if has toks "final:0" then
      d := { d with giveUpChecks := d.giveUpChecks + 1 }
      if inContest && !has toks "swap:SU" then
        -- (b) gives up only at height >= expiry (or when the invoice is cancelled / the HTLC is invalid)
        let legit := d.reachedExpiry || d.height ≥ c.expiry || (evName == "hodl" && kind == "cancel" && c.exit)
                      || (isStart && startLegit)
        if !legit then
          d ← monitor d "res-incoming-abandoned-before-expiry"
            s!"received HTLC given up on {evw} at height {d.height} < expiry {c.expiry}"
      else if !(d.confKind == "X" || d.confKind == "F") then
        d ← monitor d "res-success-abandoned" s!"success resolver recorded a failed outcome, confirmed spend kind='{d.confKind}'"
    if has toks "final:1" then
      let ok := match c.commit with
        | .remote => d.confKind == "S"
        | .zf => (d.confKind == "S" || d.confKind == "W") && d.conf2Seen
        | .legacy => d.conf2Seen
      if !ok then
        d ← monitor d "res-settled-without-claim" s!"final outcome settled without our claim confirmed (spend kind='{d.confKind}')"
    -- (b) a preimage learned before expiry is used
    let aliveExpected := c.contest && !wasTransformed && !d.reachedExpiry && d.h0 < c.expiry && !startLegit
                          && !d.cancelSeen
    let trigger :=
      (evName == "pre" && !c.exit && d.started) ||
      (evName == "hodl" && kind == "settle" && c.exit && d.started && c.regR != .settle) ||
      (isStart && !c.exit && d.preKnown) ||
      (isStart && c.exit && c.regR == .settle)
    if aliveExpected && trigger then
      d := { d with preimageUseChecks := d.preimageUseChecks + 1,
                    lastBlockPreimage := d.lastBlockPreimage + (if d.height + 1 == c.expiry then 1 else 0) }
      if !has toks "swap:SU" then
        d ← monitor d "res-preimage-not-used"
          s!"preimage learned on {evw} at height {d.height} < expiry {c.expiry} but no success resolver: {toks}"
    if evName == "hodl" && kind == "cancel" && c.exit && d.started then d := { d with cancelSeen := true }
    if has toks "swap:SU" || (isStart && !c.contest) then
      if !(d.sweepSeen || sweepNow) then
        d ← monitor d "res-no-sweep-offered" "success resolver active, nothing offered to the sweeper / published"
  let term := has toks "resolved" || hasPrefix toks "err:" || has toks "panic"
  return { d with nFail := nFail, nSettle := nSettle, nFinal0 := nF0, nFinal1 := nF1, nResolved := nRes,
                  transformed := d.transformed || swapNow, sweepSeen := d.sweepSeen || sweepNow,
                  terminal := d.terminal || term, started := d.started || isStart,
                  transforms := d.transforms + (if swapNow then 1 else 0),
                  deadEnds := d.deadEnds + (if hasPrefix toks "err:" then 1 else 0) }

def step (d0 : D) (line : String) : IO D := do
  let d := { d0 with lines := d0.lines + 1 }
  let ws := words line
  match ws with
  | "FACT" :: rest =>
    return { d with maxDelta := (kvNat? rest "maxfinalcltvdelta").getD d.maxDelta }
  | "CASE" :: id :: rest =>
    let b (k : String) : Bool := (kv? rest k) == some "1"
    let commit := match kv? rest "commit" with
      | some "zf" => Commit.zf | some "legacy" => Commit.legacy | _ => Commit.remote
    let cfg : Cfg := {
      out := (kv? rest "dir") == some "out", contest := (kv? rest "start") == some "contest",
      commit := commit, taproot := b "taproot", mempool := b "mempool",
      expiry := (kvNat? rest "expiry").getD 0, bh := (kvNat? rest "bh").getD 0,
      exit := b "exit", onionErr := b "onionerr", amtOK := b "amtok", cltvOK := b "cltvok",
      regL := parseReg ((kv? rest "regl").getD ""), regR := parseReg ((kv? rest "regr").getD ""),
      maxDelta := d.maxDelta }
    let h0 := (kvNat? rest "h0").getD 0
    let known := b "known"
    if d.samples < 1 then IO.println s!"SAMPLE {line}"
    return { d with cases := d.cases + 1, caseId := id, inCase := true, cfg := cfg,
                    st := { height := h0, known := known }, h0 := h0, height := h0,
                    started := false, reachedExpiry := h0 ≥ cfg.expiry, confKind := "", conf2Seen := false,
                    preKnown := known, cancelSeen := false, transformed := false, terminal := false,
                    sweepSeen := false, nFail := 0, nSettle := 0, nFinal0 := 0, nFinal1 := 0, nResolved := 0,
                    samples := d.samples + 1,
                    outCases := d.outCases + (if cfg.out then 1 else 0),
                    inCases := d.inCases + (if cfg.out then 0 else 1),
                    mempoolCases := d.mempoolCases + (if cfg.mempool && cfg.out then 1 else 0) }
  | ["END"] => return { d with inCase := false }
  | [] => return d
  | _ =>
    if !d.inCase then return d
    let (evw0, toks0) := splitArrow ws
    let toks := if toks0 == ["-"] then [] else toks0
    let isEarly := evw0.head? == some "early"
    let evw := if isEarly then evw0.drop 1 else evw0
    let mut d := { d with ops := d.ops + 1, nontrivial := d.nontrivial + (if toks.isEmpty then 0 else 1) }
    -- (X) model
    if evw == ["start"] then
      let (st', effs) := start d.cfg d.st
      d := { d with st := st' }
      if renderEffs effs != renderEffs [] || !toks.isEmpty then
        if " ".intercalate (effs.map effTag) != " ".intercalate toks then
          d ← mismatch d s!"start: impl={toks} model={renderEffs effs}"
    else
      match parseEv evw with
      | none => d ← mismatch d s!"unparsed line: {line.take 80}"
      | some ev =>
        let (st', effs) := if isEarly then (early d.st [ev], []) else LndModel.C12.Res.step d.cfg d.st ev
        d := { d with st := st' }
        if " ".intercalate (effs.map effTag) != " ".intercalate toks then
          d ← mismatch d s!"{evw}: impl={toks} model={renderEffs effs}"
    -- (S) monitor
    monitorOp d evw toks

def report (d : D) : IO Unit := do
  IO.println s!"STAT lines={d.lines}"
  IO.println s!"STAT cases={d.cases}"
  IO.println s!"STAT evaluations={d.ops}"
  IO.println s!"STAT nontrivial={d.nontrivial}"
  IO.println s!"STAT res_offered_cases={d.outCases}"
  IO.println s!"STAT res_received_cases={d.inCases}"
  IO.println s!"STAT res_mempool_cases={d.mempoolCases}"
  IO.println s!"STAT res_failback_checks={d.failChecks}"
  IO.println s!"STAT res_confirmed_preimage_spend_checks={d.settleChecks}"
  IO.println s!"STAT res_mempool_preimage_spend_checks={d.memSettleChecks}"
  IO.println s!"STAT res_mempool_timeout_spend_ignored={d.memTimeoutIgnored}"
  IO.println s!"STAT res_incoming_giveup_checks={d.giveUpChecks}"
  IO.println s!"STAT res_preimage_use_checks={d.preimageUseChecks}"
  IO.println s!"STAT res_preimage_in_last_block={d.lastBlockPreimage}"
  IO.println s!"STAT res_disposition_checks={d.dispositionChecks}"
  IO.println s!"STAT res_transformations={d.transforms}"
  IO.println s!"STAT res_error_exits={d.deadEnds}"
  IO.println s!"STAT mismatches={d.mismatches}"
  IO.println s!"STAT monitor_failures={d.monitorFails}"

def main : IO Unit := do
  let d ← LndModel.Lines.foldStdin step {}
  report d

end LndModel.C12.ResDriver
