/-
C12 — refinement of the regenerated `ChannelArbitrator.shouldGoOnChain` (LndModel.Gen.C12,
produced by tools/go2lean from contractcourt/channel_arbitrator.go) to the hand-written model
`LndModel.C12.shouldGoOnChain`, for ALL uint32 expiries, deltas and heights.

Bound in the spec (trusted): `c.cfg.IsForwardedHTLC(c.cfg.ShortChanID, htlc.HtlcIndex)` is the
boolean parameter `isForwardedHTLC` (model: `env.isForwarded h.index`) and the wall-clock test
`upTime > c.cfg.PaymentsExpirationGracePeriod` is the boolean parameter `pastGrace`.
-/
import LndModel.Gen.C12
import LndModel.C12.Model

namespace LndModel.C12.GenRefine
open LndModel.Gen LndModel.Gen.GoInt

/-- `shouldGoOnChain`: the uint32 cut-off `RefundTimeout - broadcastDelta` (wrapping) and the
    decision are the model's, for every uint32 input. -/
theorem shouldGoOnChain_refines (env : Env) (h : Htlc) (delta height : Nat)
    (ht : h.refundTimeout < 4294967296) (hd : delta < 4294967296) (_hh : height < 4294967296) :
    Gen.C12.ChannelArbitrator_shouldGoOnChain h.refundTimeout h.incoming delta height
        (env.isForwarded h.index) env.pastGrace
      = C12.shouldGoOnChain env h delta height := by
  have e : wrapU32 ((h.refundTimeout : Int) - delta) = ((C12.sub32 h.refundTimeout delta : Nat) : Int) := by
    simp only [wrapU32, C12.sub32, C12.U32]; omega
  simp only [Gen.C12.ChannelArbitrator_shouldGoOnChain, C12.shouldGoOnChain, e]
  by_cases hc : height < C12.sub32 h.refundTimeout delta
  · have hc' : (height : Int) < ((C12.sub32 h.refundTimeout delta : Nat) : Int) := by omega
    simp only [hc, hc', if_true]
  · have hc' : ¬ (height : Int) < ((C12.sub32 h.refundTimeout delta : Nat) : Int) := by omega
    simp only [hc, hc', if_false]
    cases h.incoming <;> cases env.isForwarded h.index <;> cases env.pastGrace <;> rfl

/-- Non-vacuity, including the wrap-around of the cut-off (delta > expiry). -/
example := shouldGoOnChain_refines ⟨fun _ => false, fun _ => false, true, 0, 0⟩
  ⟨7, false, 1000, 500000, 3, 0⟩ 10 499990 (by decide) (by decide) (by decide)
example : Gen.C12.ChannelArbitrator_shouldGoOnChain 500000 false 10 499990 false true = true := by decide
example : Gen.C12.ChannelArbitrator_shouldGoOnChain 500000 false 10 499989 true true = false := by decide
example : Gen.C12.ChannelArbitrator_shouldGoOnChain 5 true 10 4294967290 false false = false := by decide
example : Gen.C12.ChannelArbitrator_shouldGoOnChain 5 true 10 4294967291 false false = true := by decide

end LndModel.C12.GenRefine
