/-
C12 — helper lemmas for Props.lean (core Lean only).
-/
import LndModel.C12.Model

namespace LndModel.C12

/-! ### uint32 arithmetic -/

theorem sub32_eq (a b : Nat) (hb : b ≤ a) (ha : a < U32) : sub32 a b = a - b := by
  unfold sub32 U32 at *
  omega

theorem sub32_wrap (a b : Nat) (hb : a < b) (hb' : b < U32) : sub32 a b = a + U32 - b := by
  unfold sub32 U32 at *
  omega

/-- in the unwrapped domain `shouldGoOnChain` is: at or past `RefundTimeout - delta`, and
    (received, or forwarded, or past the start-up grace period). -/
theorem shouldGoOnChain_iff (env : Env) (h : Htlc) (delta height : Nat)
    (hnw : delta ≤ h.refundTimeout) (hlt : h.refundTimeout < U32) :
    shouldGoOnChain env h delta height = true ↔
      h.refundTimeout - delta ≤ height ∧
        (h.incoming = true ∨ env.isForwarded h.index = true ∨ env.pastGrace = true) := by
  unfold shouldGoOnChain
  simp only [sub32_eq _ _ hnw hlt]
  by_cases hh : height < h.refundTimeout - delta
  · simp [hh]; omega
  · simp only [hh, if_false]
    have : h.refundTimeout - delta ≤ height := by omega
    cases hi : h.incoming <;> simp [this]

/-! ### `dedupNat` -/

theorem mem_dedupNat (l : List Nat) (a : Nat) : a ∈ dedupNat l ↔ a ∈ l := by
  induction l with
  | nil => simp [dedupNat]
  | cons x xs ih =>
    rw [dedupNat]
    split
    · rename_i hx
      have hx' : x ∈ xs := by simpa using hx
      rw [ih, List.mem_cons]
      constructor
      · intro h; exact Or.inr h
      · rintro (h | h)
        · subst h; exact hx'
        · exact h
    · rw [List.mem_cons, List.mem_cons, ih]

theorem nodup_dedupNat (l : List Nat) : (dedupNat l).Nodup := by
  induction l with
  | nil => simp [dedupNat]
  | cons x xs ih =>
    rw [dedupNat]
    split
    · exact ih
    · rename_i hx
      have hx' : x ∉ xs := by simpa using hx
      rw [List.nodup_cons, mem_dedupNat]
      exact ⟨hx', ih⟩

theorem count_dedupNat (l : List Nat) (a : Nat) :
    (dedupNat l).count a = if a ∈ l then 1 else 0 := by
  rw [(nodup_dedupNat l).count]
  simp [mem_dedupNat]

theorem count_indexSet (l : List Htlc) (i : Nat) :
    (indexSet l).count i = if i ∈ l.map (·.index) then 1 else 0 := by
  unfold indexSet
  exact count_dedupNat _ _

/-! ### index maps -/

def NodupIdx (l : List Htlc) : Prop := (l.map (·.index)).Nodup

theorem NodupIdx.filter {l : List Htlc} (p : Htlc → Bool) (h : NodupIdx l) : NodupIdx (l.filter p) := by
  unfold NodupIdx at *
  exact List.Nodup.sublist (List.Sublist.map _ List.filter_sublist) h

theorem nodupIdx_insertByIndex {m : List Htlc} (h : Htlc) (hm : NodupIdx m) :
    NodupIdx (insertByIndex m h) := by
  unfold insertByIndex
  have hf := NodupIdx.filter (fun x => x.index != h.index) hm
  unfold NodupIdx at *
  rw [List.map_append, List.nodup_append]
  refine ⟨hf, by simp, ?_⟩
  intro a ha b hb
  simp only [List.map_cons, List.map_nil, List.mem_singleton] at hb
  subst hb
  simp only [List.mem_map, List.mem_filter] at ha
  obtain ⟨x, ⟨_, hx⟩, rfl⟩ := ha
  simpa using hx

theorem nodupIdx_foldl_insert (l acc : List Htlc) (hacc : NodupIdx acc) :
    NodupIdx (l.foldl insertByIndex acc) := by
  induction l generalizing acc with
  | nil => simpa using hacc
  | cons x xs ih => exact ih _ (nodupIdx_insertByIndex x hacc)

theorem mem_insertByIndex {m : List Htlc} {h x : Htlc} (hx : x ∈ insertByIndex m h) :
    x ∈ m ∨ x = h := by
  unfold insertByIndex at hx
  simp only [List.mem_append, List.mem_filter, List.mem_singleton] at hx
  rcases hx with ⟨hx, _⟩ | hx
  · exact Or.inl hx
  · exact Or.inr hx

theorem mem_foldl_insert {l acc : List Htlc} {x : Htlc} (hx : x ∈ l.foldl insertByIndex acc) :
    x ∈ acc ∨ x ∈ l := by
  induction l generalizing acc with
  | nil => exact Or.inl (by simpa using hx)
  | cons y ys ih =>
    rcases ih hx with h | h
    · rcases mem_insertByIndex h with h | h
      · exact Or.inl h
      · exact Or.inr (by simp [h])
    · exact Or.inr (by simp [h])

theorem mem_mergeRemote {sets : Sets} {pl : Bool} {x : Htlc} (hx : x ∈ mergeRemote sets pl) :
    x ∈ sets.rem.outgoing ∨ x ∈ sets.pend.outgoing := by
  unfold mergeRemote at hx
  split at hx
  · rcases mem_foldl_insert hx with h | h
    · simp at h
    · simpa using h
  · rcases mem_foldl_insert hx with h | h
    · simp at h
    · have := List.mem_append.mp h
      exact this.symm

theorem nodupIdx_mergeRemote (sets : Sets) (pl : Bool) : NodupIdx (mergeRemote sets pl) := by
  unfold mergeRemote
  split <;> exact nodupIdx_foldl_insert _ _ (by simp [NodupIdx])

/-- well-formed HTLC set: what `newHtlcSet` produces. -/
structure WFSet (s : HtlcSet) : Prop where
  outDir : ∀ h ∈ s.outgoing, h.incoming = false
  inDir : ∀ h ∈ s.incoming, h.incoming = true
  outNodup : NodupIdx s.outgoing
  inNodup : NodupIdx s.incoming

theorem mem_mapOfList {l : List Htlc} {x : Htlc} (hx : x ∈ mapOfList l) : x ∈ l := by
  unfold mapOfList at hx
  rcases mem_foldl_insert hx with h | h
  · simp at h
  · exact h

theorem newHtlcSet_wf (l : List Htlc) : WFSet (newHtlcSet l) := by
  refine ⟨?_, ?_, ?_, ?_⟩
  · intro h hh
    have := mem_mapOfList hh
    simpa using (List.mem_filter.mp this).2
  · intro h hh
    have := mem_mapOfList hh
    simpa using (List.mem_filter.mp this).2
  · exact nodupIdx_foldl_insert _ _ (by simp [NodupIdx])
  · exact nodupIdx_foldl_insert _ _ (by simp [NodupIdx])

theorem hasIndex_iff (l : List Htlc) (i : Nat) : hasIndex l i = true ↔ i ∈ l.map (·.index) := by
  unfold hasIndex
  simp only [List.any_eq_true, beq_iff_eq, List.mem_map]

/-- in an index-unique list, the entries with `h`'s index are exactly `[h]`. -/
theorem filter_index_eq {l : List Htlc} {h : Htlc} (hn : NodupIdx l) (hm : h ∈ l) :
    l.filter (fun x => x.index == h.index) = [h] := by
  induction l with
  | nil => cases hm
  | cons y ys ih =>
    unfold NodupIdx at hn
    simp only [List.map_cons, List.nodup_cons, List.mem_map, not_exists, not_and] at hn
    rcases List.mem_cons.mp hm with rfl | hm'
    · have : ys.filter (fun x => x.index == h.index) = [] := by
        rw [List.filter_eq_nil_iff]
        intro a ha
        have := hn.1 a ha
        simpa using this
      simp [List.filter_cons, this]
    · have hne : (y.index == h.index) = false := by
        have := hn.1 h hm'
        simp only [beq_eq_false_iff_ne, ne_eq]
        exact fun e => this e.symm
      simp only [List.filter_cons, hne]
      exact ih hn.2 hm'

theorem eq_of_index_eq {l : List Htlc} {a b : Htlc} (hn : NodupIdx l) (ha : a ∈ l) (hb : b ∈ l)
    (h : a.index = b.index) : a = b := by
  have h1 := filter_index_eq hn hb
  have : a ∈ l.filter (fun x => x.index == b.index) := by
    simp [List.mem_filter, ha, h]
  rw [h1] at this
  simpa using this

/-! ### classification -/

def Action.isResolver : Action → Bool
  | .timeout | .claim | .outWatch | .inWatch => true
  | _ => false

def Action.isFail : Action → Bool
  | .failDust | .failDangling => true
  | _ => false

theorem classifyDangling_isFail (h : Htlc) : (classifyDangling h).isFail = true := by
  unfold classifyDangling; split <;> rfl

theorem classifyOut_isResolver (env : Env) (height : Nat) (h : Htlc) :
    (classifyOut env height h).isResolver = !h.dust := by
  unfold classifyOut
  cases hd : h.dust
  · simp only [Bool.false_eq_true, if_false]; split <;> rfl
  · rfl

theorem classifyOut_isFail (env : Env) (height : Nat) (h : Htlc) :
    (classifyOut env height h).isFail = h.dust := by
  unfold classifyOut
  cases hd : h.dust
  · simp only [Bool.false_eq_true, if_false]; split <;> rfl
  · rfl

theorem classifyIn_isFail (h : Htlc) : (classifyIn h).isFail = false := by
  unfold classifyIn; split <;> rfl

theorem classifyIn_isResolver (h : Htlc) : (classifyIn h).isResolver = !h.dust := by
  unfold classifyIn
  cases hd : h.dust <;> rfl

theorem checkCommit_nonchain (env : Env) (height : Nat) (trigger : Trigger) (s : HtlcSet)
    (ht : trigger ≠ .chain) :
    checkCommit env height trigger s =
      s.outgoing.map (fun h => (classifyOut env height h, h)) ++
      s.incoming.map (fun h => (classifyIn h, h)) := by
  unfold checkCommit
  have : (trigger == Trigger.chain) = false := by
    cases trigger <;> first | rfl | exact absurd rfl ht
  simp [this]

/-- the part of `constructChainActions` that does not come from the confirmed commitment. -/
def extraOf (env : Env) (k : SetKey) (sets : Sets) (height : Nat) (pl : Bool) : ActionMap :=
  match k with
  | .loc => checkRemoteDangling env height sets true pl
  | .rem => checkRemoteDiff env sets false
  | .pend => checkRemoteDiff env sets true

theorem construct_eq (env : Env) (k : SetKey) (sets : Sets) (height : Nat) (trigger : Trigger)
    (pl : Bool) :
    construct env k sets height trigger pl =
      checkCommit env height trigger (sets.get k) ++ extraOf env k sets height pl := by
  cases k <;> rfl

theorem extraOf_isFail (env : Env) (k : SetKey) (sets : Sets) (height : Nat) (pl : Bool) :
    ∀ e ∈ extraOf env k sets height pl, e.1.isFail = true := by
  intro e he
  cases k <;>
  · simp only [extraOf, checkRemoteDangling, checkRemoteDiff, List.mem_map] at he
    obtain ⟨x, _, rfl⟩ := he
    exact classifyDangling_isFail x

theorem checkRemoteDiff_index_notin (env : Env) (sets : Sets) (b : Bool) :
    ∀ e ∈ checkRemoteDiff env sets b, e.2.index ∉ (confRemote sets b).outgoing.map (·.index) := by
  intro e he
  simp only [checkRemoteDiff, List.mem_map, List.mem_filter] at he
  obtain ⟨x, hx, rfl⟩ := he
  have h2 := hx.2
  simp only [Bool.and_eq_true, Bool.not_eq_true'] at h2
  intro hc
  have := (hasIndex_iff _ _).mpr hc
  rw [h2.1] at this
  cases this

theorem checkRemoteDangling_index_notin (env : Env) (height : Nat) (sets : Sets) (cc pl : Bool) :
    ∀ e ∈ checkRemoteDangling env height sets cc pl, e.2.index ∉ sets.loc.outgoing.map (·.index) := by
  intro e he
  simp only [checkRemoteDangling, List.mem_map, List.mem_filter] at he
  obtain ⟨x, hx, rfl⟩ := he
  have h2 := hx.1.2
  simp only [Bool.not_eq_true'] at h2
  intro hc
  have := (hasIndex_iff _ _).mpr hc
  rw [h2] at this
  cases this

/-- entries of the non-confirmed part never carry the index of an HTLC of the confirmed set. -/
theorem extraOf_index_notin (env : Env) (k : SetKey) (sets : Sets) (height : Nat) (pl : Bool) :
    ∀ e ∈ extraOf env k sets height pl, e.2.index ∉ (sets.get k).outgoing.map (·.index) := by
  cases k
  · exact checkRemoteDangling_index_notin env height sets true pl
  · exact checkRemoteDiff_index_notin env sets false
  · exact checkRemoteDiff_index_notin env sets true

theorem isFail_not_isResolver (a : Action) (h : a.isFail = true) : a.isResolver = false := by
  cases a <;> first | rfl | cases h

theorem filter_eq_singleton {l : List Htlc} {h : Htlc} (P : Htlc → Bool) (hn : NodupIdx l)
    (hm : h ∈ l) (hP : P h = true) (himp : ∀ x ∈ l, P x = true → x.index = h.index) :
    l.filter P = [h] := by
  have h1 : l.filter P = (l.filter (fun x => x.index == h.index)).filter P := by
    rw [List.filter_filter]
    apply List.filter_congr
    intro x hx
    cases hpx : P x
    · simp
    · simp [himp x hx hpx]
  rw [h1, filter_index_eq hn hm]
  simp [hP]

end LndModel.C12
