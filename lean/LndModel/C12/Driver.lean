/-
C12 driver: replays a harness trace on the model (correspondence, `MISMATCH`) and evaluates the
property monitor on the implementation's answers (`MONITOR`).

The monitor part (`namespace Mon`) deliberately does not use the model's classification
functions: it recomputes from the HTLC sets of the case which HTLCs must get a resolver, which
must be failed upstream, and whether a force close is due, and compares that with what the real
ChannelArbitrator did.
-/
import LndModel.Prelude.Lines
import LndModel.C12.Model
import LndModel.C12.ResDriver
import LndModel.C12.Persist

open LndModel LndModel.Lines LndModel.C12

namespace LndModel.C12.Driver

/-! ### rendering (same canonical form as the Go harness) -/

def actionTag : Action → String
  | .timeout => "T" | .claim => "C" | .failDust => "FD" | .outWatch => "OW"
  | .inWatch => "IW" | .inDustFinal => "IDF" | .failDangling => "FDG"

def actionOrder : List Action :=
  [.timeout, .claim, .failDust, .outWatch, .inWatch, .inDustFinal, .failDangling]

def htlcLe (a b : Htlc) : Bool :=
  if a.index != b.index then a.index < b.index
  else if a.outputIndex != b.outputIndex then a.outputIndex < b.outputIndex
  else a.refundTimeout ≤ b.refundTimeout

def renderActions (m : ActionMap) : String :=
  let parts := actionOrder.filterMap fun a =>
    let hs := (actionsOf m a).mergeSort htlcLe
    if hs.isEmpty then none
    else some (actionTag a ++ "=" ++ ",".intercalate (hs.map fun h => s!"{h.index}@{h.outputIndex}"))
  if parts.isEmpty then "-" else ";".intercalate parts

def natList (l : List Nat) : String :=
  if l.isEmpty then "-" else ",".intercalate (l.map toString)

def stateTag : AState → String
  | .default => "D" | .broadcastCommit => "BC" | .commitmentBroadcasted => "CB"
  | .contractClosed => "CC" | .waitingFullResolution => "WFR" | .fullyResolved => "FR"
  | .error => "ERR"

def rkindTag : RKind → String
  | .timeout => "TO" | .outContest => "OC" | .success => "SU" | .inContest => "IC"
  | .anchor => "AN" | .breach => "BR" | .commitSweep => "CS"

def renderOut (st : AState) (o : Out) : String :=
  let fails := if o.fails.isEmpty then "-"
    else "|".intercalate (o.fails.map fun b => natList (b.mergeSort (· ≤ ·)))
  let finals := natList (o.finals.mergeSort (· ≤ ·))
  let rs := (o.resolvers.map fun (k, i) => (rkindTag k, i)).mergeSort
    (fun a b => if a.1 != b.1 then a.1 < b.1 else a.2 ≤ b.2)
  let res := if rs.isEmpty then "-" else ",".intercalate (rs.map fun (k, i) => s!"{k}:{i}")
  s!"st={stateTag st} fc={o.forceClose} fails={fails} finals={finals} res={res}"

/-! ### parsing helpers -/

def parseNatList (s : String) : List Nat :=
  if s == "-" || s.isEmpty then [] else (s.splitOn ",").filterMap nat?

def parseIntList (s : String) : List Int :=
  if s == "-" || s.isEmpty then [] else (s.splitOn ",").filterMap int?

def parseTrigger : String → Option Trigger
  | "chain" => some .chain | "user" => some .user | "remote" => some .remoteClose
  | "local" => some .localClose | "coop" => some .coopClose | "breach" => some .breachClose
  | _ => none

def parseKey : String → Option SetKey
  | "L" => some .loc | "R" => some .rem | "P" => some .pend | _ => none

/-- everything after `=>`. -/
def resultWords (ws : List String) : List String :=
  match ws.dropWhile (· ≠ "=>") with
  | _ :: r => r
  | [] => []

/-- `T=3@2,4@1;FD=7@-1` → [(tag, [(idx, out)])] -/
def parseActionString (s : String) : List (String × List (Nat × Int)) :=
  if s == "-" then [] else
  (s.splitOn ";").filterMap fun part =>
    match part.splitOn "=" with
    | [tag, items] =>
      some (tag, (items.splitOn ",").filterMap fun it =>
        match it.splitOn "@" with
        | [i, o] => match nat? i, int? o with
          | some i, some o => some (i, o)
          | _, _ => none
        | _ => none)
    | _ => none

def tagIdx (m : List (String × List (Nat × Int))) (tags : List String) : List Nat :=
  (m.filter fun e => tags.contains e.1).flatMap fun e => e.2.map (·.1)

def count (l : List Nat) (i : Nat) : Nat := (l.filter (· == i)).length

/-! ### monitor: independent recomputation from the raw HTLC lists -/
namespace Mon

/-- last entry per index wins (what `newHtlcSet` does); written independently of the model. -/
def lastWins (l : List Htlc) : List Htlc :=
  l.reverse.foldl (fun acc h => if acc.any (·.index == h.index) then acc else h :: acc) []

def outs (l : List Htlc) : List Htlc := lastWins (l.filter fun h => !h.incoming)
def ins (l : List Htlc) : List Htlc := lastWins (l.filter (·.incoming))

def hasDupIdx (l : List Htlc) : Bool :=
  let f (xs : List Htlc) := (xs.map (·.index)).eraseDups.length != xs.length
  f (l.filter (·.incoming)) || f (l.filter fun h => !h.incoming)

def hasDupOut (l : List Htlc) : Bool :=
  let os := (l.filter fun h => h.outputIndex ≥ 0).map (·.outputIndex)
  os.eraseDups.length != os.length

/-- same (direction, index) ⇒ same hash and expiry on every commitment. -/
def consistent (all : List Htlc) : Bool :=
  all.all fun a => all.all fun b =>
    !(a.index == b.index && a.incoming == b.incoming) ||
      (a.hash == b.hash && a.refundTimeout == b.refundTimeout)

def wellFormed (l r p : List Htlc) : Bool :=
  !hasDupIdx l && !hasDupIdx r && !hasDupIdx p &&
  !hasDupOut l && !hasDupOut r && !hasDupOut p && consistent (l ++ r ++ p)

/-- the relation between the commitments the protocol guarantees for HTLCs we offered:
    an offered HTLC on our commitment is on the peer's current commitment as well. -/
def protocolShape (l r : List Htlc) : Bool :=
  (outs l).all fun h => (outs r).any (·.index == h.index)

end Mon

/-! ### driver state -/

structure St where
  caseId : String := "0"
  kind : String := ""
  dout : Nat := 0
  din : Nat := 0
  grace : Bool := false
  ppresent : Bool := false
  fcErr : FcErr := .none
  rawL : List Htlc := []
  rawR : List Htlc := []
  rawP : List Htlc := []
  /-- watcher cases: the three commitments as dumped from the channel state before the spend -/
  dumpL : List Htlc := []
  dumpR : List Htlc := []
  dumpP : List Htlc := []
  /-- watcher cases: the commitment the harness really spent -/
  spent : Option SetKey := none
  fwd : List Nat := []
  pre : List Nat := []
  /-- hashes whose preimage lookup answers with a hard registry error -/
  perr : List Nat := []
  arb : Arb := {}
  lastH : Nat := 0
  /-- implementation state before the current op -/
  implState : String := "D"
  /-- all upstream fail indices the implementation issued so far in this case -/
  pathFails : List Nat := []
  /-- a chain/user trigger left StateDefault earlier in this case -/
  broadcastStep : Bool := false
  /-- trigger ("user"/"chain") and height of that broadcast step -/
  bcastTrig : String := ""
  bcastHeight : Nat := 0
  -- counters
  lines : Nat := 0
  cases : Nat := 0
  unitCases : Nat := 0
  arbCases : Nat := 0
  ops : Nat := 0
  nontrivial : Nat := 0
  mismatches : Nat := 0
  monitorFails : Nat := 0
  samples : Nat := 0
  ambiguous : Nat := 0
  wrapProbes : Nat := 0
  sgocTrue : Nat := 0
  nonEmptyMaps : Nat := 0
  wellFormedCases : Nat := 0
  malformedCases : Nat := 0
  confirmations : Nat := 0
  confLocal : Nat := 0
  confRemote : Nat := 0
  confPending : Nat := 0
  confAfterBroadcast : Nat := 0
  breaches : Nat := 0
  coops : Nat := 0
  forceCloses : Nat := 0
  mustGoChecks : Nat := 0
  noGoChecks : Nat := 0
  wrapSkipped : Nat := 0
  resolverChecks : Nat := 0
  failbackChecks : Nat := 0
  danglingChecks : Nat := 0
  inDustChecks : Nat := 0
  f2Hits : Nat := 0
  orderDependentHits : Nat := 0
  preBroadcastFailWithOutput : Nat := 0
  regressionMissing : Nat := 0
  injectedMissingResolution : Nat := 0
  danglingMustGoChecks : Nat := 0
  breachDuplicateFails : Nat := 0
  unitMonitorChecks : Nat := 0
  lookupErrCases : Nat := 0
  chainActionErrors : Nat := 0
  watcherCases : Nat := 0
  watcherSpentLocal : Nat := 0
  watcherSpentRemote : Nat := 0
  watcherSpentPending : Nat := 0
  watcherDiffering : Nat := 0
  watcherResolutionChecks : Nat := 0
  boot : String := "link"
  restartCases : Nat := 0
  relinks : Nat := 0
  -- persistence level (round 7)
  /-- payment hash bytes per hash id (`RH` lines) -/
  rh : List (Nat × List Nat) := []
  /-- the raw bytes under `commitSetKey` (`CSB` line) -/
  csb : Option (List Nat) := none
  gKey : String := "none"
  gPend : Bool := false
  gL : List Htlc := []
  gR : List Htlc := []
  gP : List Htlc := []
  codecWant : String := ""
  /-- the arbitrator of this case is the second incarnation, of a channel already closed on chain -/
  rebooted : Bool := false
  reboots : Nat := 0
  rebootsAfterBroadcast : Nat := 0
  commitSetBytesChecked : Nat := 0
  codecCases : Nat := 0
  codecDecodes : Nat := 0
  codecDecodeErrors : Nat := 0
  codecExtraSkipped : Nat := 0

def St.env (s : St) : Env :=
  { preimageKnown := fun h => s.pre.contains h || s.perr.contains h, isForwarded := fun i => s.fwd.contains i,
    pastGrace := s.grace, deltaOut := s.dout, deltaIn := s.din }

def St.sets (s : St) : Sets :=
  { loc := newHtlcSet s.rawL, rem := newHtlcSet s.rawR, pend := newHtlcSet s.rawP }

/-- cases the monitor judges: well-formed HTLC sets and an environment in which every preimage
    lookup answers found / not found (`ErrInvoiceNotFound`, `ErrNoInvoicesCreated`); a hard
    registry error is an environment fault under which the property is not required. -/
def St.wf (s : St) : Bool := Mon.wellFormed s.rawL s.rawR s.rawP && s.perr.isEmpty

def St.err (s : St) : Nat → Bool := fun h => s.perr.contains h

/-- for watcher cases the monitor judges the outcome against the HTLC sets dumped from the channel
    state, not against what the watcher dispatched. -/
def St.truth (s : St) : St :=
  if s.kind == "watcher" then { s with rawL := s.dumpL, rawR := s.dumpR, rawP := s.dumpP } else s

/-- copy the counters of `t` (a run on `s.truth`) back, keeping `s`'s HTLC sets. -/
def St.untruth (s t : St) : St := { t with rawL := s.rawL, rawR := s.rawR, rawP := s.rawP }

def renderHtlcs (l : List Htlc) : String :=
  ",".intercalate ((l.mergeSort fun a b =>
      if a.incoming != b.incoming then !a.incoming
      else if a.index != b.index then a.index < b.index else a.outputIndex ≤ b.outputIndex).map fun h =>
    s!"{if h.incoming then "i" else "o"}{h.index}@{h.outputIndex}/{h.refundTimeout}/{h.hash}/{h.amt}")

def renderSet (h : HtlcSet) : String := renderHtlcs (h.outgoing ++ h.incoming)

def mismatch (s : St) (detail : String) : IO St := do
  IO.println s!"MISMATCH case={s.caseId} line={s.lines} {detail}"
  return { s with mismatches := s.mismatches + 1 }

def monitor (s : St) (clause detail : String) : IO St := do
  IO.println s!"MONITOR case={s.caseId} clause={clause} line={s.lines} {detail}"
  return { s with monitorFails := s.monitorFails + 1 }

/-- compare an implementation answer with the two admissible model answers. -/
def cmp2 (s : St) (what impl m0 m1 : String) : IO St := do
  let s := if m0 != m1 then { s with ambiguous := s.ambiguous + 1 } else s
  if impl == m0 || impl == m1 then return s
  else mismatch s s!"{what}: model={m0}{if m0 != m1 then " | " ++ m1 else ""} impl={impl}"

/-! ### unit-level monitor (statements on the implementation's action map) -/

def keyRaw (s : St) : SetKey → List Htlc
  | .loc => s.rawL | .rem => s.rawR | .pend => s.rawP

/-- the other commitments whose offered HTLCs must be failed when `k` confirms. For a confirmed
    remote commitment only the other remote commitment is considered (an offered HTLC that is
    only on our own commitment cannot occur, see `Mon.protocolShape`). -/
def otherRaw (s : St) : SetKey → List Htlc
  | .loc => s.rawR ++ s.rawP | .rem => s.rawP | .pend => s.rawR

def keyName : SetKey → String
  | .loc => "local" | .rem => "remote" | .pend => "pending"

def unitMonitorConstruct (s : St) (k : SetKey) (nonChain : Bool) (implStr : String) : IO St := do
  if !s.wf || !nonChain then return s
  let m := parseActionString implStr
  let kl := keyRaw s k
  let mut s := { s with unitMonitorChecks := s.unitMonitorChecks + 1 }
  let resOut := tagIdx m ["T", "OW"]
  let resIn := tagIdx m ["IW", "C"]
  let failed := tagIdx m ["FD", "FDG"]
  let finals := tagIdx m ["IDF"]
  for h in Mon.outs kl do
    if h.outputIndex ≥ 0 then
      if count resOut h.index != 1 then
        s ← monitor s "exactly-one-resolver" s!"unit key={keyName k} outgoing idx={h.index} with output is in {count resOut h.index} of Timeout/OutgoingWatch"
      if count failed h.index != 0 then
        s ← monitor s "failback-with-output" s!"unit key={keyName k} outgoing idx={h.index} has an output but is classified FailDust/FailDangling"
    else
      if count failed h.index != 1 then
        s ← monitor s "dust-failed-once" s!"unit key={keyName k} outgoing dust idx={h.index} is {count failed h.index} times in FailDust/FailDangling"
      if count resOut h.index != 0 then
        s ← monitor s "exactly-one-resolver" s!"unit key={keyName k} outgoing dust idx={h.index} got a resolver action"
  for h in Mon.ins kl do
    if h.outputIndex ≥ 0 then
      if count resIn h.index != 1 || count finals h.index != 0 then
        s ← monitor s "exactly-one-resolver" s!"unit key={keyName k} incoming idx={h.index} with output: IncomingWatch×{count resIn h.index} DustFinal×{count finals h.index}"
    else
      if count finals h.index != 1 || count resIn h.index != 0 then
        s ← monitor s "incoming-dust-final" s!"unit key={keyName k} incoming dust idx={h.index}: DustFinal×{count finals h.index} IncomingWatch×{count resIn h.index}"
  -- dangling: offered HTLCs on another commitment only
  if k == .loc || Mon.protocolShape s.rawL (keyRaw s k) then
    for h in Mon.outs (otherRaw s k) do
      if !(Mon.outs kl).any (·.index == h.index) then
        if s.pre.contains h.hash then
          if count failed h.index != 0 then
            s ← monitor s "dangling-preimage-failed" s!"unit key={keyName k} dangling idx={h.index} with known preimage classified for fail-back"
        else if count failed h.index != 1 then
          s ← monitor s "dangling-failed-once" s!"unit key={keyName k} dangling idx={h.index} is {count failed h.index} times in FailDust/FailDangling"
  return s

/-- all copies of offered HTLC `i` on the peer's two commitments. -/
def remoteCopies (s : St) (i : Nat) : List Htlc :=
  ((Mon.outs s.rawR) ++ (Mon.outs s.rawP)).filter (·.index == i)

/-- offered HTLCs that are on a commitment of the peer but not on ours (one entry per index). -/
def danglingIdx (s : St) : List Nat :=
  (((Mon.outs s.rawR) ++ (Mon.outs s.rawP)).map (·.index)).eraseDups.filter fun i =>
    !(Mon.outs s.rawL).any (·.index == i)

/-- offered HTLC `h` is due (unwrapped domain) and we are obliged to act on it. -/
def dueOut (s : St) (height : Nat) (h : Htlc) : Bool :=
  h.refundTimeout ≥ s.dout && height + s.dout ≥ h.refundTimeout &&
    (s.fwd.contains h.index || s.grace)

/-- is a force close due at `height`: because of an HTLC on our commitment (offered, or received
    with known preimage), or because of an offered HTLC that is only on the peer's commitment(s),
    whose preimage we do not know (every copy due, so the answer does not depend on which copy the
    implementation looks at).  HTLCs in the wrapped domain (`RefundTimeout < delta`) never
    oblige (see notes). -/
def mustGo (s : St) (height : Nat) : Bool :=
  (Mon.outs s.rawL).any (dueOut s height) ||
  (Mon.ins s.rawL).any (fun h => h.refundTimeout ≥ s.din && height + s.din ≥ h.refundTimeout &&
      s.pre.contains h.hash) ||
  (danglingIdx s).any (fun i => (remoteCopies s i).all fun h =>
      dueOut s height h && !s.pre.contains h.hash)

def mustGoDanglingOnly (s : St) (height : Nat) : Bool :=
  !((Mon.outs s.rawL).any (dueOut s height) ||
    (Mon.ins s.rawL).any (fun h => h.refundTimeout ≥ s.din && height + s.din ≥ h.refundTimeout &&
      s.pre.contains h.hash)) && mustGo s height

/-- the implementation's `shouldGoOnChain` re-stated (uint32 cut-off), used only to decide which
    HTLCs the broadcast step was bound to fail (attribution of finding F2). -/
def codeDue (s : St) (height : Nat) (h : Htlc) (delta : Nat) : Bool :=
  let cutoff := (h.refundTimeout + 4294967296 - delta % 4294967296) % 4294967296
  height ≥ cutoff && (h.incoming || s.fwd.contains h.index || s.grace)

/-- was offered HTLC `i` certainly in the `FailDust` set the `StateDefault` step acted on when we
    broadcast (trigger/height recorded in the state)?  Then a missing fail-back is NOT finding F2. -/
def expectedAtBroadcast (s : St) (i : Nat) : Bool :=
  if !s.broadcastStep then false else
  let h0 := s.bcastHeight
  match (Mon.outs s.rawL).find? (·.index == i) with
  | some l =>
    let localDue := (Mon.outs s.rawL).any (fun h => codeDue s h0 h s.dout) ||
      (Mon.ins s.rawL).any (fun h => s.pre.contains h.hash && codeDue s h0 h s.din)
    l.outputIndex < 0 && (s.bcastTrig == "user" || localDue)
  | none =>
    let cs := remoteCopies s i
    !cs.isEmpty && cs.all fun h => h.outputIndex < 0 && codeDue s h0 h s.dout && !s.pre.contains h.hash

/-- why a dust / dangling-dust HTLC was legitimately not failed when we broadcast. -/
def f2Kind (s : St) (i : Nat) : String :=
  match (Mon.outs s.rawL).find? (·.index == i) with
  | some l => if l.outputIndex < 0 then "chain-dangling-only" else "dust-on-theirs"
  | none => "dangling-dust"

/-- is there any HTLC that could justify going on chain at `height`?  (over-approximation) -/
def mayGo (s : St) (height : Nat) : Bool :=
  (s.rawL ++ s.rawR ++ s.rawP).any (fun h => !h.incoming && height + s.dout ≥ h.refundTimeout) ||
  s.rawL.any (fun h => h.incoming && s.pre.contains h.hash && height + s.din ≥ h.refundTimeout)

def wrapOnly (s : St) (height : Nat) : Bool :=
  (Mon.outs s.rawL).any (fun h => h.refundTimeout < s.dout && height ≥ h.refundTimeout) ||
  (Mon.ins s.rawL).any (fun h => h.refundTimeout < s.din && height ≥ h.refundTimeout)

/-! ### arbitrator-level monitor -/

def parseFails (str : String) : List Nat :=
  if str == "-" then [] else (str.splitOn "|").flatMap parseNatList

def parseRes (str : String) : List (String × Nat) :=
  if str == "-" then [] else (str.splitOn ",").filterMap fun it =>
    match it.splitOn ":" with
    | [k, i] => (nat? i).map fun i => (k, i)
    | _ => none

/-- the peer's current and pending commitments both carry offered HTLC `i`, one as dust, the
    other with an output. -/
def copiesDisagree (s : St) (i : Nat) : Bool :=
  (Mon.outs s.rawR).any fun a => a.index == i &&
    (Mon.outs s.rawP).any fun b => b.index == i && (decide (a.outputIndex < 0) != decide (b.outputIndex < 0))

def confMonitor (s : St) (k : SetKey) (preState : String) (opFails : List Nat)
    (finals : List Nat) (res : List (String × Nat)) (resIn resOut : List Int) : IO St := do
  let kl := keyRaw s k
  let mut s := s
  let allFails := s.pathFails ++ opFails
  let kname := match k with | .loc => "local" | .rem => "remote" | .pend => "pending"
  let afterBroadcast := preState == "CB" || preState == "BC"
  -- offered HTLCs of the confirmed commitment
  for h in Mon.outs kl do
    if h.outputIndex ≥ 0 then
      if count opFails h.index != 0 then
        s ← monitor s "failback-with-output" s!"conf={kname} pre={preState} outgoing idx={h.index} has output {h.outputIndex} on the confirmed commitment and was failed upstream at confirmation"
      if count s.pathFails h.index != 0 then
        -- clause 4, literal reading: the HTLC was failed upstream (before the confirmation)
        -- and has an output on the commitment that confirmed.
        s := { s with preBroadcastFailWithOutput := s.preBroadcastFailWithOutput + 1 }
        s ← monitor s "failback-before-confirmation-with-output" s!"conf={kname} pre={preState} idx={h.index} output={h.outputIndex} bcast={s.bcastTrig}@{s.bcastHeight}: failed upstream when we broadcast (dust on our commitment) but it has an output on the commitment that confirmed"
      let hasRes := resOut.contains h.outputIndex
      let n := (res.filter fun e => (e.1 == "TO" || e.1 == "OC") && e.2 == h.index).length
      s := { s with resolverChecks := s.resolverChecks + 1 }
      if hasRes && n != 1 then
        s ← monitor s "exactly-one-resolver" s!"conf={kname} pre={preState} outgoing idx={h.index} output={h.outputIndex} has {n} resolvers"
      if !hasRes && n != 0 then
        s ← monitor s "resolver-without-resolution" s!"conf={kname} outgoing idx={h.index} output={h.outputIndex} has {n} resolvers but no resolution"
      if !hasRes && n == 0 then
        if s.kind == "watcher" then
          s ← monitor s "resolution-missing-no-resolver" s!"conf={kname} outgoing idx={h.index} output={h.outputIndex}: the close summary has no resolution for the outpoint, prepContractResolutions skipped it silently: no resolver"
        else
          s := { s with injectedMissingResolution := s.injectedMissingResolution + 1 }
    else
      s := { s with failbackChecks := s.failbackChecks + 1 }
      let c := count allFails h.index
      if c == 0 then
        if afterBroadcast && !expectedAtBroadcast s h.index then
          s := { s with f2Hits := s.f2Hits + 1 }
          s ← monitor s "failback-missing-dust-after-broadcast" s!"conf={kname} pre={preState} kind={f2Kind s h.index} idx={h.index} bcast={s.bcastTrig}@{s.bcastHeight} on=confirmed: never failed upstream and no resolver"
        else
          if afterBroadcast then s := { s with regressionMissing := s.regressionMissing + 1 }
          s ← monitor s "failback-missing" s!"conf={kname} pre={preState} kind=dust-on-confirmed idx={h.index} bcast={s.bcastTrig}@{s.bcastHeight}: never failed upstream"
      else if c > 1 then
        s ← monitor s "failback-duplicate" s!"conf={kname} pre={preState} kind=dust-on-confirmed idx={h.index}: failed upstream {c} times"
      if (res.any fun e => (e.1 == "TO" || e.1 == "OC") && e.2 == h.index) then
        s ← monitor s "resolver-for-dust" s!"conf={kname} outgoing dust idx={h.index} got a resolver"
  -- received HTLCs of the confirmed commitment
  for h in Mon.ins kl do
    let n := (res.filter fun e => (e.1 == "IC" || e.1 == "SU") && e.2 == h.index).length
    if h.outputIndex ≥ 0 then
      let hasRes := resIn.contains h.outputIndex
      s := { s with resolverChecks := s.resolverChecks + 1 }
      if hasRes && n != 1 then
        s ← monitor s "exactly-one-resolver" s!"conf={kname} pre={preState} incoming idx={h.index} output={h.outputIndex} has {n} resolvers"
      if !hasRes && n != 0 then
        s ← monitor s "resolver-without-resolution" s!"conf={kname} incoming idx={h.index} has {n} resolvers but no resolution"
      if !hasRes && n == 0 then
        if s.kind == "watcher" then
          s ← monitor s "resolution-missing-no-resolver" s!"conf={kname} incoming idx={h.index} output={h.outputIndex}: the close summary has no resolution for the outpoint, prepContractResolutions skipped it silently: no resolver"
        else
          s := { s with injectedMissingResolution := s.injectedMissingResolution + 1 }
      if count finals h.index != 0 then
        s ← monitor s "incoming-dust-final" s!"conf={kname} incoming idx={h.index} has an output but was marked final-failed"
    else
      s := { s with inDustChecks := s.inDustChecks + 1 }
      if count finals h.index != 1 || n != 0 then
        s ← monitor s "incoming-dust-final" s!"conf={kname} pre={preState} incoming dust idx={h.index}: finalised {count finals h.index} times, {n} resolvers"
  -- resolvers for HTLCs that are not on the confirmed commitment at all
  for e in res do
    if e.1 == "TO" || e.1 == "OC" then
      if !(Mon.outs kl).any (·.index == e.2) then
        s ← monitor s "resolver-extra" s!"conf={kname} resolver {e.1}:{e.2} for an HTLC that is not on the confirmed commitment"
    if e.1 == "IC" || e.1 == "SU" then
      if !(Mon.ins kl).any (·.index == e.2) then
        s ← monitor s "resolver-extra" s!"conf={kname} resolver {e.1}:{e.2} for an HTLC that is not on the confirmed commitment"
  -- offered HTLCs that exist only on a non-confirmed commitment
  if k == .loc || Mon.protocolShape s.rawL kl then
    for h in Mon.outs (otherRaw s k) do
      if !(Mon.outs kl).any (·.index == h.index) then
        s := { s with danglingChecks := s.danglingChecks + 1 }
        let c := count allFails h.index
        if s.pre.contains h.hash then
          if c != 0 then
            s ← monitor s "dangling-preimage-failed" s!"conf={kname} dangling idx={h.index} with known preimage was failed upstream"
        else if ((c == 0 && preState == "D") || c > 1) && k == .loc && copiesDisagree s h.index then
          -- our own commitment confirmed and the peer's two commitments disagree on whether the
          -- HTLC is dust: the Go map iteration order of the two chain-action computations on
          -- the path decides between 0, 1 and 2 fail-backs.
          s := { s with orderDependentHits := s.orderDependentHits + 1 }
          s ← monitor s "failback-remote-copies-disagree" s!"conf={kname} pre={preState} kind={if c == 0 then "missing" else "duplicate"} idx={h.index}: failed upstream {c} times"
        else if c == 0 then
          let dustSomewhere := (otherRaw s k).any fun x => !x.incoming && x.index == h.index && x.outputIndex < 0
          if afterBroadcast && dustSomewhere && !expectedAtBroadcast s h.index then
            s := { s with f2Hits := s.f2Hits + 1 }
            s ← monitor s "failback-missing-dust-after-broadcast" s!"conf={kname} pre={preState} kind={f2Kind s h.index} idx={h.index} bcast={s.bcastTrig}@{s.bcastHeight} on=other: never failed upstream and no resolver"
          else
            if afterBroadcast then s := { s with regressionMissing := s.regressionMissing + 1 }
            s ← monitor s "failback-missing" s!"conf={kname} pre={preState} kind=dangling idx={h.index} bcast={s.bcastTrig}@{s.bcastHeight}: never failed upstream"
        else if c > 1 then
          s ← monitor s "failback-duplicate" s!"conf={kname} pre={preState} kind=dangling idx={h.index}: failed upstream {c} times"
  -- nothing else may be failed
  let known := (s.rawL ++ s.rawR ++ s.rawP).filter fun h => !h.incoming
  for i in allFails.eraseDups do
    if !known.any (·.index == i) then
      s ← monitor s "failback-unknown" s!"conf={kname} upstream fail for idx={i} which is not an offered HTLC on any commitment"
  return s

/-! ### persistence level: byte strings, expected encodings -/

open LndModel.C12.Persist in
def hexDigit (c : Char) : Nat :=
  if '0' ≤ c && c ≤ '9' then c.toNat - '0'.toNat
  else if 'a' ≤ c && c ≤ 'f' then c.toNat - 'a'.toNat + 10
  else if 'A' ≤ c && c ≤ 'F' then c.toNat - 'A'.toNat + 10 else 0

def hexPairs : List Char → List Nat
  | a :: b :: r => (hexDigit a * 16 + hexDigit b) :: hexPairs r
  | _ => []

/-- the harness' run-length hex: tokens separated by '.', a token is hex pairs or `NxHH` -/
def parseRle (str : String) : List Nat :=
  if str == "-" then [] else
  (str.splitOn ".").flatMap fun tok =>
    match tok.splitOn "x" with
    | [n, b] => List.replicate n.toNat! ((hexPairs b.toList).headD 0)
    | _ => hexPairs tok.toList

def byteSum (b : List Nat) : Nat :=
  (b.foldl (fun (acc : Nat × Nat) v => ((acc.1 + (acc.2 % 251 + 1) * v) % 1000003, acc.2 + 1)) (0, 0)).1

open LndModel.C12.Persist in
def canonPHtlc (h : PHtlc) : String :=
  s!"{h.htlcIndex}:{if h.incoming then 1 else 0}:{h.amt}:{h.timeout}:{h.outputIndex}:{h.logIndex}:{h.sig.length}:{byteSum h.sig}:{byteSum h.rhash}:{byteSum h.onion}:{h.extra.length}"

open LndModel.C12.Persist in
def keyBits (k : PKey) : String := s!"{if k.isRemote then 1 else 0}{if k.isPending then 1 else 0}"

open LndModel.C12.Persist in
def canonPCommitSet (c : PCommitSet) : String :=
  let keys : List PKey := [⟨false, false⟩, ⟨false, true⟩, ⟨true, false⟩, ⟨true, true⟩]
  let parts := (keys.filter fun k => c.sets.any (·.1 == k)).map fun k =>
    s!"{keyBits k}=[{",".intercalate ((lookupSet c.sets k).map canonPHtlc)}]"
  " ".intercalate (s!"key={keyBits c.conf}" :: parts)

open LndModel.C12.Persist in
def hasExtra (c : PCommitSet) : Bool := c.sets.any fun e => e.2.any fun h => !h.extra.isEmpty

open LndModel.C12.Persist in
/-- the on-disk form of an HTLC of an arb case (`c12H.toHTLC`: no signature, zero onion blob,
    `LogIndex = HtlcIndex`) -/
def expectPHtlc (rh : List (Nat × List Nat)) (h : Htlc) : PHtlc :=
  { sig := [], rhash := ((rh.find? (·.1 == h.hash)).map (·.2)).getD [], amt := h.amt, timeout := h.refundTimeout,
    outputIndex := h.outputIndex, incoming := h.incoming, onion := List.replicate onionSize 0, extra := [],
    htlcIndex := h.index, logIndex := h.index }

open LndModel.C12.Persist in
def pkeyOfName : String → Option PKey
  | "L" => some keyLoc | "R" => some keyRem | "P" => some keyPend | _ => none

/-! ### line processing -/

def parseHtlc (ws : List String) : Option (String × Htlc) := do
  let set ← kv? ws "s"
  let idx ← kvNat? ws "idx"
  let inc ← kvNat? ws "in"
  let amt ← kvNat? ws "amt"
  let exp ← kvNat? ws "exp"
  let out ← kvInt? ws "out"
  let hash ← kvNat? ws "hash"
  return (set, { index := idx, incoming := inc == 1, amt := amt, refundTimeout := exp,
                 outputIndex := out, hash := hash })

def mkResolutions (resIn resOut : List Int) (breach : Bool) (commit anchor : Bool := false) :
    Resolutions :=
  { inOuts := resIn.map fun o => (o % (U32 : Int)).toNat,
    outOuts := resOut.map fun o => (o % (U32 : Int)).toNat, breach := breach,
    commit := commit, anchor := anchor }

def closeEvOf (s : St) (ws : List String) : Option (CloseEv × Option SetKey) :=
  let evh := (kvNat? ws "evh").getD 0
  let resIn := parseIntList ((kv? ws "resin").getD "-")
  let resOut := parseIntList ((kv? ws "resout").getD "-")
  let cm := kvNat? ws "commit" == some 1
  let an := kvNat? ws "anchor" == some 1
  match kv? ws "ev" with
  | some "local" => some (.localForce ⟨.loc, s.sets⟩ (mkResolutions resIn resOut false cm an) evh, some .loc)
  | some "remote" => some (.remoteForce ⟨.rem, s.sets⟩ (mkResolutions resIn resOut false cm an) evh, some .rem)
  | some "pending" => some (.remoteForce ⟨.pend, s.sets⟩ (mkResolutions resIn resOut false cm an) evh, some .pend)
  | some "breach" => some (.breach ⟨.rem, s.sets⟩ (mkResolutions [] [] true) evh, none)
  | some "coop" => some (.coop evh, none)
  | _ => none

/-- run an arbitrator-level op on the model for both iteration orders, compare, pick the matching one. -/
def arbCompare (s : St) (what : String) (implStr : String) (f : (AState → Bool) → Arb × Out) :
    IO St := do
  let combos : List (Bool × Bool) := [(false, false), (true, true), (false, true), (true, false)]
  let outs := combos.map fun (d, c) =>
    let (a, o) := f (fun st => if st == .default then d else c)
    (a, renderOut a.state o)
  let strs := (outs.map (·.2)).eraseDups
  let s := if strs.length > 1 then { s with ambiguous := s.ambiguous + 1 } else s
  match outs.find? (·.2 == implStr) with
  | some (a, _) => return { s with arb := a }
  | none =>
    let s ← mismatch s s!"{what}: model={" | ".intercalate strs} impl={implStr}"
    return { s with arb := (outs.headD (s.arb, "")).1 }

def implCore (ws : List String) : String :=
  " ".intercalate ((resultWords ws).filter fun w => !w.startsWith "other=")

def step (s : St) (line : String) : IO St := do
  let s := { s with lines := s.lines + 1 }
  let ws := words line
  match ws with
  | "FACT" :: rest =>
    let chk (s : St) (key : String) (v : Nat) : IO St :=
      if kvNat? rest key == some v then pure s
      else mismatch s s!"fact {key}: model={v} impl={(kv? rest key).getD "?"}"
    let s ← chk s "timeout" 1
    let s ← chk s "claim" 2
    let s ← chk s "faildust" 3
    let s ← chk s "outwatch" 4
    let s ← chk s "inwatch" 5
    let s ← chk s "industfinal" 6
    chk s "faildangling" 7
  | "CASE" :: id :: rest =>
    let kind := (kv? rest "kind").getD ""
    if kind == "watcher-skip" then
      IO.println s!"MISMATCH case={id} line={s.lines} harness could not build the channel state for a watcher case"
      return { s with mismatches := s.mismatches + 1, caseId := id, kind := kind }
    let fc := match kv? rest "fcerr" with
      | some "dataloss" => FcErr.dataLoss | some "other" => .other | _ => .none
    let s := { s with caseId := id, kind := kind, dout := (kvNat? rest "dout").getD 0,
                      din := (kvNat? rest "din").getD 0, grace := kvNat? rest "grace" == some 1,
                      ppresent := kvNat? rest "ppresent" == some 1, fcErr := fc, boot := (kv? rest "boot").getD "link",
                      rawL := [], rawR := [], rawP := [], fwd := [], pre := [], perr := [],
                      dumpL := [], dumpR := [], dumpP := [], spent := none,
                      watcherCases := s.watcherCases + (if kind == "watcher" then 1 else 0),
                      rh := [], csb := none, gKey := "none", gPend := false, gL := [], gR := [], gP := [],
                      codecWant := "", rebooted := false, codecCases := s.codecCases + (if kind == "codec" then 1 else 0),
                      arb := { fcErr := fc }, lastH := 0, implState := "D", pathFails := [],
                      broadcastStep := false, bcastTrig := "", bcastHeight := 0, cases := s.cases + 1,
                      unitCases := s.unitCases + (if kind == "unit" then 1 else 0),
                      arbCases := s.arbCases + (if kind == "arb" || kind == "watcher" then 1 else 0) }
    return s
  | "H" :: rest =>
    match parseHtlc rest with
    | some ("L", h) => return { s with rawL := s.rawL ++ [h] }
    | some ("R", h) => return { s with rawR := s.rawR ++ [h] }
    | some ("P", h) => return { s with rawP := s.rawP ++ [h] }
    | _ => mismatch s s!"unparsed H line: {line.take 80}"
  | "UPD" :: rest =>
    match kv? rest "s" with
    | some "L" => return { s with rawL := [] }
    | some "R" => return { s with rawR := [] }
    | some "P" => return { s with rawP := [] }
    | _ => mismatch s s!"unparsed UPD line: {line.take 80}"
  | "U" :: rest =>
    match parseHtlc rest with
    | some ("L", h) => return { s with rawL := s.rawL ++ [h] }
    | some ("R", h) => return { s with rawR := s.rawR ++ [h] }
    | some ("P", h) => return { s with rawP := s.rawP ++ [h] }
    | _ => mismatch s s!"unparsed U line: {line.take 80}"
  | "RH" :: rest =>
    return { s with rh := s.rh ++ [((kvNat? rest "id").getD 0, hexPairs ((kv? rest "hex").getD "").toList)] }
  | "CSB" :: rest =>
    -- (X) the bytes the REAL InsertConfirmedCommitSet wrote: the model decoder must read the
    -- commit set of the close event out of them, the model encoder must reproduce them
    let bytes := parseRle ((kv? rest "bytes").getD "-")
    let s := { s with csb := some bytes, commitSetBytesChecked := s.commitSetBytesChecked + 1 }
    match Persist.decCommitSet bytes with
    | none => mismatch s "persist: the model cannot decode the bytes written by InsertConfirmedCommitSet"
    | some p =>
      let mut s := s
      if some p.conf != pkeyOfName ((kv? rest "key").getD "?") then
        s ← mismatch s s!"persist: confirmed key on disk {keyBits p.conf}, close event had {(kv? rest "key").getD "?"}"
      let want : List (Persist.PKey × List Htlc) :=
        [(Persist.keyLoc, s.rawL), (Persist.keyRem, s.rawR)] ++ (if s.ppresent then [(Persist.keyPend, s.rawP)] else [])
      if !((p.sets.map (·.1)).isPerm (want.map (·.1))) then
        s ← mismatch s s!"persist: sets on disk {p.sets.map (fun e => keyBits e.1)}, close event had {want.map (fun e => keyBits e.1)}"
      for (k, hs) in want do
        if Persist.lookupSet p.sets k != hs.map (expectPHtlc s.rh) then
          s ← mismatch s s!"persist: HTLCs of set {keyBits k} on disk differ from the close event's: {(Persist.lookupSet p.sets k).map canonPHtlc} vs {(hs.map (expectPHtlc s.rh)).map canonPHtlc}"
      if Persist.encCommitSet p != bytes then
        s ← mismatch s "persist: model encodeCommitSet of the decoded commit set differs from the bytes on disk"
      return s
  | "GK" :: rest =>
    return { s with gKey := (kv? rest "key").getD "?", gPend := kvNat? rest "p" == some 1 }
  | "G" :: rest =>
    match parseHtlc rest with
    | some ("L", h) => return { s with gL := s.gL ++ [h] }
    | some ("R", h) => return { s with gR := s.gR ++ [h] }
    | some ("P", h) => return { s with gP := s.gP ++ [h] }
    | _ => mismatch s s!"unparsed G line: {line.take 80}"
  | "want" :: rest => return { s with codecWant := " ".intercalate rest }
  | "enc" :: _ =>
    let s := { s with ops := s.ops + 1, nontrivial := s.nontrivial + 1 }
    match resultWords ws with
    | [r] =>
      if r == "err" then return ← mismatch s "codec: encodeCommitSet failed"
      let bytes := parseRle r
      match Persist.decCommitSet bytes with
      | none => mismatch s "codec: the model cannot decode encodeCommitSet's output"
      | some p =>
        let mut s := s
        if canonPCommitSet p != s.codecWant then
          s ← mismatch s s!"codec: encodeCommitSet wrote {canonPCommitSet p}, the commit set was {s.codecWant}"
        if Persist.encCommitSet p != bytes then
          s ← mismatch s "codec: model encodeCommitSet differs from the real bytes"
        return s
    | _ => mismatch s "codec: unparsed enc line"
  | "dec" :: rest =>
    let s := { s with ops := s.ops + 1, codecDecodes := s.codecDecodes + 1 }
    let bytes := parseRle ((kv? rest "bytes").getD "-")
    let impl := " ".intercalate (resultWords ws)
    let s := if impl == "err" then { s with codecDecodeErrors := s.codecDecodeErrors + 1 }
             else { s with nontrivial := s.nontrivial + 1 }
    match Persist.decCommitSet bytes with
    | none => if impl == "err" then return s else mismatch s s!"codec: decodeCommitSet model=err impl={impl.take 120}"
    | some p =>
      if hasExtra p then return { s with codecExtraSkipped := s.codecExtraSkipped + 1 }
      let m := "ok " ++ canonPCommitSet p
      if m == impl then return s else mismatch s s!"codec: decodeCommitSet model={m.take 200} impl={impl.take 200}"
  | "relink" :: _ =>
    -- a link update while running: nothing happens now, the sets to consider change
    let rw := resultWords ws
    let implSt := (kv? rw "st").getD "?"
    let a := linkUpdate (linkUpdate (linkUpdate s.arb .loc s.rawL) .rem s.rawR) .pend
                (if s.ppresent then s.rawP else [])
    let mut s := { s with ops := s.ops + 1, arb := a, relinks := s.relinks + 1 }
    if implSt != stateTag a.state || (kvNat? rw "fc").getD 0 != 0 || (kv? rw "fails").getD "-" != "-" then
      s ← mismatch s s!"relink: impl={implCore ws} model=st={stateTag a.state}, nothing else"
    return s
  | "D" :: rest =>
    match parseHtlc rest with
    | some ("L", h) => return { s with dumpL := s.dumpL ++ [h] }
    | some ("R", h) => return { s with dumpR := s.dumpR ++ [h] }
    | some ("P", h) => return { s with dumpP := s.dumpP ++ [h] }
    | _ => mismatch s s!"unparsed D line: {line.take 80}"
  | "WSPEND" :: rest =>
    let spent := (kv? rest "spent").bind parseKey
    let sub := (kv? rest "sub").getD "?"
    let key := (kv? rest "key").getD "?"
    let mut s := { s with spent := spent }
    match spent with
    | none => mismatch s "WSPEND without spent commitment"
    | some k =>
      s := { s with watcherSpentLocal := s.watcherSpentLocal + (if k == .loc then 1 else 0),
                    watcherSpentRemote := s.watcherSpentRemote + (if k == .rem then 1 else 0),
                    watcherSpentPending := s.watcherSpentPending + (if k == .pend then 1 else 0) }
      -- (X) the model's chain watcher
      let cc : ChanCommits := { loc := s.dumpL, rem := s.dumpR,
                                pend := if s.ppresent then some s.dumpP else none }
      let (msub, mkey) := match commitSetOfSpend cc k with
        | some (.localUnilateral, cs) => ("local", keyName cs.key)
        | some (.remoteUnilateral, cs) => ("remote", keyName cs.key)
        | none => ("none", "none")
      let ikey := match key with | "L" => "local" | "R" => "remote" | "P" => "pending" | o => o
      if msub != sub || mkey != ikey then
        s ← mismatch s s!"watcher: model dispatches sub={msub} key={mkey}, impl sub={sub} key={ikey}"
      -- (S) the subscription and the ConfCommitKey name the commitment that was really spent
      let wantSub := if k == .loc then "local" else "remote"
      if sub != wantSub then
        s ← monitor s "watcher-subscription" s!"spent={keyName k} commitment but the {sub} close event fired"
      if ikey != keyName k then
        s ← monitor s "watcher-confcommitkey" s!"spent={keyName k} commitment but CommitSet.ConfCommitKey={ikey}"
      return s
  | ["FWD", l] => return { s with fwd := parseNatList l }
  | ["PERR", l] => return { s with perr := parseNatList l, lookupErrCases := s.lookupErrCases + (if l == "-" then 0 else 1) }
  | ["PRE", l] =>
    let s := { s with pre := parseNatList l }
    let mut s := if s.wf then { s with wellFormedCases := s.wellFormedCases + 1 }
             else { s with malformedCases := s.malformedCases + 1 }
    if s.kind == "watcher" then
      -- the dispatched CommitSet carries exactly the HTLC sets of the channel state
      let cc : ChanCommits := { loc := s.dumpL, rem := s.dumpR,
                                pend := if s.ppresent then some s.dumpP else none }
      let msets := match commitSetOfSpend cc .loc with
        | some (_, cs) => cs.sets | none => {}
      let pairs := [("local", msets.loc, s.sets.loc, s.dumpL, s.rawL),
                    ("remote", msets.rem, s.sets.rem, s.dumpR, s.rawR),
                    ("pending", msets.pend, s.sets.pend, s.dumpP, s.rawP)]
      for (nm, m, i, d, r) in pairs do
        if renderSet m != renderSet i then
          s ← mismatch s s!"watcher: CommitSet.HtlcSets[{nm}] model={renderSet m} impl={renderSet i}"
        if renderHtlcs d != renderHtlcs r then
          s ← monitor s "watcher-commitset" s!"CommitSet.HtlcSets[{nm}]={renderHtlcs r} but the channel state had {renderHtlcs d}"
      if renderHtlcs (Mon.outs s.dumpL) != renderHtlcs (Mon.outs s.dumpR) ||
         (s.ppresent && renderHtlcs s.dumpR != renderHtlcs s.dumpP) then
        s := { s with watcherDiffering := s.watcherDiffering + 1 }
    return s
  | ["END"] =>
    if s.samples < 4 && s.kind == "arb" && s.pathFails.length > 0 then
      IO.println s!"SAMPLE case {s.caseId}: L={s.rawL.length} R={s.rawR.length} P={s.rawP.length} htlcs, upstream fails issued for {natList s.pathFails}, final state {s.implState}"
      return { s with samples := s.samples + 1 }
    return s
  | "sgoc" :: rest =>
    let s := { s with ops := s.ops + 1 }
    let h : Htlc := { index := (kvNat? rest "idx").getD 0, incoming := kvNat? rest "in" == some 1,
                      amt := 0, refundTimeout := (kvNat? rest "exp").getD 0, outputIndex := 0, hash := 0 }
    let delta := (kvNat? rest "delta").getD 0
    let height := (kvNat? rest "h").getD 0
    let impl := (resultWords ws).headD "?"
    let model := if shouldGoOnChain s.env h delta height then "1" else "0"
    let s := if h.refundTimeout < delta then { s with wrapProbes := s.wrapProbes + 1 } else s
    let s := if impl == "1" then { s with sgocTrue := s.sgocTrue + 1, nontrivial := s.nontrivial + 1 } else s
    let mut s ← if model == impl then pure s else mismatch s s!"sgoc: model={model} impl={impl}"
    -- monitor: in the unwrapped domain the answer is `false` strictly before the cutoff
    -- and, for received / forwarded / past-grace HTLCs, `true` from the cutoff on.
    if h.refundTimeout ≥ delta then
      let due := height + delta ≥ h.refundTimeout
      let obliged := h.incoming || s.fwd.contains h.index || s.grace
      if due && obliged && impl != "1" then
        s ← monitor s "onchain-late" s!"shouldGoOnChain(exp={h.refundTimeout},delta={delta},height={height}) = {impl}"
      if !due && impl != "0" then
        s ← monitor s "onchain-early" s!"shouldGoOnChain(exp={h.refundTimeout},delta={delta},height={height}) = {impl}"
    return s
  | "local" :: rest =>
    let s := { s with ops := s.ops + 1 }
    let some tr := (kv? rest "trig").bind parseTrigger | mismatch s "bad trigger"
    let height := (kvNat? rest "h").getD 0
    let conf := kvNat? rest "conf" == some 1
    let impl := (resultWords ws).headD "?"
    let fails := lookupFails s.err s.sets.loc
    let m0 := if fails then "err" else renderActions (checkLocal s.env height tr s.sets conf false)
    let m1 := if fails then "err" else renderActions (checkLocal s.env height tr s.sets conf true)
    let s := if impl == "err" then { s with chainActionErrors := s.chainActionErrors + 1 } else s
    let s := if impl != "-" then { s with nonEmptyMaps := s.nonEmptyMaps + 1, nontrivial := s.nontrivial + 1 } else s
    let mut s ← cmp2 s "local" impl m0 m1
    if impl == "err" && s.wf then
      s ← monitor s "chain-actions-error" s!"unit checkLocalChainActions(height={height}) failed although every preimage lookup answers found / not-found (ErrInvoiceNotFound, ErrNoInvoicesCreated)"
    if tr == .chain && !conf && s.wf then
      if mustGo s height then
        s := { s with mustGoChecks := s.mustGoChecks + 1 }
        if impl == "-" || impl == "err" then
          s ← monitor s "onchain-late" s!"unit checkLocalChainActions(height={height}, chainTrigger) is empty although an offered HTLC (ours or only on the peer's commitments, preimage unknown) or a claimable received HTLC is within its broadcast delta"
      else if wrapOnly s height then
        s := { s with wrapSkipped := s.wrapSkipped + 1 }
      if !mayGo s height then
        s := { s with noGoChecks := s.noGoChecks + 1 }
        if impl != "-" && impl != "err" then
          s ← monitor s "onchain-unclaimable" s!"unit checkLocalChainActions(height={height}, chainTrigger) = {impl} although no offered HTLC and no claimable received HTLC is near expiry"
    if conf && tr != .chain then
      s ← unitMonitorConstruct s .loc true impl
    return s
  | "remote" :: rest =>
    let s := { s with ops := s.ops + 1 }
    let some tr := (kv? rest "trig").bind parseTrigger | mismatch s "bad trigger"
    let height := (kvNat? rest "h").getD 0
    let pend := kvNat? rest "pend" == some 1
    let impl := (resultWords ws).headD "?"
    let m := if lookupFails s.err (confRemote s.sets pend) then "err"
             else renderActions (checkRemote s.env height tr s.sets pend)
    let s := if impl == "err" then { s with chainActionErrors := s.chainActionErrors + 1 } else s
    let s := if impl != "-" then { s with nonEmptyMaps := s.nonEmptyMaps + 1, nontrivial := s.nontrivial + 1 } else s
    let mut s ← cmp2 s "remote" impl m m
    if impl == "err" && s.wf then
      s ← monitor s "chain-actions-error" s!"unit checkRemoteChainActions(height={height}) failed although every preimage lookup answers found / not-found"
    if tr != .chain then unitMonitorConstruct s (if pend then .pend else .rem) true impl else return s
  | "construct" :: rest =>
    let s := { s with ops := s.ops + 1 }
    let some tr := (kv? rest "trig").bind parseTrigger | mismatch s "bad trigger"
    let some key := (kv? rest "key").bind parseKey | mismatch s "bad key"
    let height := (kvNat? rest "h").getD 0
    let impl := (resultWords ws).headD "?"
    let fails := lookupFails s.err (s.sets.get key)
    let m0 := if fails then "err" else renderActions (construct s.env key s.sets height tr false)
    let m1 := if fails then "err" else renderActions (construct s.env key s.sets height tr true)
    let s := if impl == "err" then { s with chainActionErrors := s.chainActionErrors + 1 } else s
    let s := if impl != "-" then { s with nonEmptyMaps := s.nonEmptyMaps + 1, nontrivial := s.nontrivial + 1 } else s
    let s ← cmp2 s "construct" impl m0 m1
    if s.kind == "watcher" then
      match s.spent with
      | some k => return s.untruth (← unitMonitorConstruct s.truth k (tr != .chain) impl)
      | none => return s
    else unitMonitorConstruct s key (tr != .chain) impl
  | "start" :: rest | "block" :: rest | "user" :: rest | "reboot" :: rest =>
    let s := { s with ops := s.ops + 1 }
    let opName := ws.headD ""
    let rw := resultWords ws
    if rw == ["err"] || rw == ["inserterr"] then return ← mismatch s "harness op failed"
    -- restart of a pending-close channel: what the new incarnation reads from the log
    let closeType : Persist.CloseType := match kv? rest "ev" with
      | some "local" => .localForce | some "remote" | some "pending" => .remoteForce
      | some "breach" => .breach | some "coop" => .coop | _ => .other
    let hashId : List Nat → Nat := fun b => ((s.rh.find? (·.2 == b)).map (·.1)).getD 999999999
    let evRes : Option Resolutions := match closeEvOf s rest with
      | some (.localForce _ r _, _) | some (.remoteForce _ r _, _) | some (.breach _ r _, _) => some r
      | _ => none
    let disk : Persist.Disk := { state := s.arb.state, resolutions := evRes, commitSet := s.csb, fcErr := s.arb.fcErr }
    let evhR := (kvNat? rest "evh").getD 0
    if opName == "reboot" then
      let readable := (Persist.restartPendingCloseE s.env s.err hashId disk closeType evhR (fun _ => false)).isSome
      if rw == ["starterr"] then
        let mut s := { s with reboots := s.reboots + 1 }
        if readable then s ← mismatch s "reboot: Start failed, the model starts"
        -- (S) the channel is closed on chain but its arbitrator does not come up again
        if s.wf && (closeEvOf s rest).isSome then
          s ← monitor s "close-not-processed" s!"the channel was marked closed (ev={(kv? rest "ev").getD "?"}) and the node restarted in state {s.implState}, but ChannelArbitrator.Start fails on what InsertConfirmedCommitSet wrote: no HTLC of the confirmed commitment gets a resolver, nothing is failed back"
        return s
      if !readable then return ← mismatch s "reboot: Start succeeded, the model cannot read the commit set"
    let implStr := implCore ws
    let implSt := (kv? rw "st").getD "?"
    let fc := (kvNat? rw "fc").getD 0
    let opFails := parseFails ((kv? rw "fails").getD "-")
    let finals := parseNatList ((kv? rw "finals").getD "-")
    let res := parseRes ((kv? rw "res").getD "-")
    if (kvNat? rw "other").getD 0 != 0 then
      return ← mismatch s "a resolver was active although the harness keeps resolvers inert"
    let preState := s.implState
    let height := if opName == "user" then s.lastH else (kvNat? rest "h").getD 0
    let ev := if opName == "block" || opName == "reboot" then closeEvOf s rest else none
    let env := s.env
    -- (X) correspondence
    let mut s := s
    if opName == "reboot" then
      s := { s with reboots := s.reboots + 1, rebooted := true,
                    rebootsAfterBroadcast := s.rebootsAfterBroadcast + (if s.implState != "D" then 1 else 0) }
      -- the REAL FetchConfirmedCommitSet returns what the close event carried
      let wantKey := match kv? rest "ev" with
        | some "local" => "L" | some "remote" | some "breach" => "R" | some "pending" => "P" | _ => "none"
      if s.gKey != wantKey then
        s ← mismatch s s!"persist: FetchConfirmedCommitSet has ConfCommitKey={s.gKey}, the close event had {wantKey}"
      if wantKey != "none" then
        if s.gL != s.rawL || s.gR != s.rawR || s.gP != (if s.ppresent then s.rawP else []) || s.gPend != s.ppresent then
          s ← mismatch s s!"persist: FetchConfirmedCommitSet returns L={renderHtlcs s.gL} R={renderHtlcs s.gR} P={renderHtlcs s.gP} (pending key {s.gPend}), the close event carried L={renderHtlcs s.rawL} R={renderHtlcs s.rawR} P={renderHtlcs s.rawP} (pending key {s.ppresent})"
      let a0 := s.arb
      let errf := s.err
      s ← arbCompare s "reboot" implStr fun pl =>
        (Persist.restartPendingCloseE env errf hashId disk closeType evhR pl).getD (a0, {})
    else if opName == "start" then
      -- whichever way the sets reached the arbitrator (NewChannelArbitrator at a restart, link
      -- updates, or both), this is what it has to consider from now on
      s := { s with arb := startUp s.rawL s.rawR (if s.ppresent then some s.rawP else none) s.fcErr,
                    restartCases := s.restartCases + (if s.boot != "link" then 1 else 0) }
      let a := s.arb
      s ← arbCompare s "start" implStr fun pl => advanceE env s.err a height .chain none pl advanceFuel
    else if opName == "block" then
      let a := s.arb
      s ← arbCompare s "block" implStr fun pl => handleBlockE env s.err a height (ev.map (·.1)) pl
    else
      let a := s.arb
      let already := rest.contains "already=1"
      if already != (a.state != .default) then
        s ← mismatch s s!"user: errAlreadyForceClosed={already} but model state is {stateTag a.state}"
      s ← arbCompare s "user" implStr fun pl => handleUserE env s.err a height pl
    -- (S) monitor on the implementation's answers
    if implSt != preState || fc != 0 || !opFails.isEmpty || !res.isEmpty || !finals.isEmpty then
      s := { s with nontrivial := s.nontrivial + 1 }
    s := { s with forceCloses := s.forceCloses + fc }
    let wf := s.wf
    -- (after a restart as pending-close channel there is nothing left to force close)
    if preState == "D" && ev.isNone && wf && !s.rebooted then
      if opName == "user" then
        if fc != 1 then
          s ← monitor s "user-force-close" s!"user request in StateDefault: ForceCloseChan called {fc} times"
      else
        if mustGo s.truth height then
          s := { s with mustGoChecks := s.mustGoChecks + 1,
                        danglingMustGoChecks := s.danglingMustGoChecks +
                          (if mustGoDanglingOnly s.truth height then 1 else 0) }
          if fc == 0 then
            s ← monitor s "onchain-late" s!"height={height}: an offered HTLC (ours or only on the peer's commitments, preimage unknown) or a claimable received HTLC is within its broadcast delta but ForceCloseChan was not called"
        else if wrapOnly s.truth height then
          s := { s with wrapSkipped := s.wrapSkipped + 1 }
        if !mayGo s.truth height then
          s := { s with noGoChecks := s.noGoChecks + 1 }
          if fc != 0 then
            s ← monitor s "onchain-unclaimable" s!"height={height}: ForceCloseChan called although no offered HTLC and no claimable received HTLC is near expiry"
    if preState != "D" && fc != 0 then
      s ← monitor s "force-close-twice" s!"ForceCloseChan called in state {preState}"
    match ev with
    | some (_, some k) =>
      if !(implSt == "WFR" || implSt == "FR") && wf && (preState == "D" || preState == "BC" || preState == "CB") then
        s ← monitor s "close-not-processed" s!"a unilateral close was delivered in state {preState} but the arbitrator is in state {implSt} afterwards: the HTLCs of the confirmed commitment get no resolver and nothing is failed back"
      if (implSt == "WFR" || implSt == "FR") && wf then
        s := { s with confirmations := s.confirmations + 1,
                      confLocal := s.confLocal + (if k == .loc then 1 else 0),
                      confRemote := s.confRemote + (if k == .rem then 1 else 0),
                      confPending := s.confPending + (if k == .pend then 1 else 0),
                      confAfterBroadcast := s.confAfterBroadcast + (if preState == "CB" || preState == "BC" then 1 else 0) }
        let resIn := parseIntList ((kv? rest "resin").getD "-")
        let resOut := parseIntList ((kv? rest "resout").getD "-")
        if s.kind == "watcher" then
          -- judged w.r.t. the commitment that really confirmed and its real HTLC set
          let k' := s.spent.getD k
          -- (X) lnwallet's close summary: one resolution per output of the spent commitment
          let mres := closeSummaryResolutions (s.truth.sets.get k') false false
          let toNats (l : List Int) : List Nat := l.map (fun i => (i % (U32 : Int)).toNat)
          s := { s with watcherResolutionChecks := s.watcherResolutionChecks + 1 }
          if !(mres.inOuts.isPerm (toNats resIn)) || !(mres.outOuts.isPerm (toNats resOut)) then
            s ← mismatch s s!"watcher: close summary resolutions model in={mres.inOuts} out={mres.outOuts} impl in={resIn} out={resOut}"
          s := s.untruth (← confMonitor s.truth k' preState opFails finals res resIn resOut)
        else
          s ← confMonitor s k preState opFails finals res resIn resOut
    | some (.breach .., none) =>
      s := { s with breaches := s.breaches + 1 }
      if implSt == "WFR" && wf then
        let all := s.pathFails ++ opFails
        for h in Mon.outs s.rawR ++ Mon.outs s.rawP do
          if count all h.index == 0 then
            s ← monitor s "breach-failback-missing" s!"breach: offered idx={h.index} on a remote commitment was not failed upstream"
          else if count all h.index > 1 then
            s := { s with breachDuplicateFails := s.breachDuplicateFails + 1 }
    | some (.coop .., none) => s := { s with coops := s.coops + 1 }
    | _ => pure ()
    let nowB := !s.broadcastStep && preState == "D" && ev.isNone && (implSt == "BC" || implSt == "CB")
    let bs := s.broadcastStep || nowB
    if nowB then
      s := { s with bcastTrig := (if opName == "user" then "user" else "chain"), bcastHeight := height }
    return { s with implState := implSt, pathFails := s.pathFails ++ opFails, broadcastStep := bs,
                    lastH := if opName == "user" then s.lastH else height }
  | [] => return s
  | _ => mismatch s s!"unparsed line: {line.take 60}"

end LndModel.C12.Driver

open LndModel.C12.Driver in
def main (args : List String) : IO Unit := do
  -- the resolver-level stream has its own model and monitor
  if args.contains "resolvers" then
    LndModel.C12.ResDriver.main
    return
  let s ← LndModel.Lines.foldStdin step {}
  IO.println s!"STAT lines={s.lines}"
  IO.println s!"STAT cases={s.cases}"
  IO.println s!"STAT unit_cases={s.unitCases}"
  IO.println s!"STAT arb_cases={s.arbCases}"
  IO.println s!"STAT evaluations={s.ops}"
  IO.println s!"STAT nontrivial={s.nontrivial}"
  IO.println s!"STAT wellformed_cases={s.wellFormedCases}"
  IO.println s!"STAT malformed_cases={s.malformedCases}"
  IO.println s!"STAT order_dependent_answers={s.ambiguous}"
  IO.println s!"STAT sgoc_true={s.sgocTrue}"
  IO.println s!"STAT sgoc_wrapped_cutoff={s.wrapProbes}"
  IO.println s!"STAT nonempty_action_maps={s.nonEmptyMaps}"
  IO.println s!"STAT unit_monitor_checks={s.unitMonitorChecks}"
  IO.println s!"STAT force_closes={s.forceCloses}"
  IO.println s!"STAT must_go_checks={s.mustGoChecks}"
  IO.println s!"STAT no_go_checks={s.noGoChecks}"
  IO.println s!"STAT wrapped_domain_skipped={s.wrapSkipped}"
  IO.println s!"STAT confirmations={s.confirmations}"
  IO.println s!"STAT conf_local={s.confLocal}"
  IO.println s!"STAT conf_remote={s.confRemote}"
  IO.println s!"STAT conf_pending={s.confPending}"
  IO.println s!"STAT conf_after_broadcast={s.confAfterBroadcast}"
  IO.println s!"STAT breaches={s.breaches}"
  IO.println s!"STAT coop_closes={s.coops}"
  IO.println s!"STAT resolver_checks={s.resolverChecks}"
  IO.println s!"STAT dust_failback_checks={s.failbackChecks}"
  IO.println s!"STAT dangling_checks={s.danglingChecks}"
  IO.println s!"STAT incoming_dust_checks={s.inDustChecks}"
  IO.println s!"STAT f2_signature_hits={s.f2Hits}"
  IO.println s!"STAT remote_copies_disagree_hits={s.orderDependentHits}"
  IO.println s!"STAT prebroadcast_dust_fail_with_output_on_confirmed={s.preBroadcastFailWithOutput}"
  IO.println s!"STAT breach_duplicate_fails={s.breachDuplicateFails}"
  IO.println s!"STAT missing_but_expected_at_broadcast={s.regressionMissing}"
  IO.println s!"STAT injected_missing_resolution_no_resolver={s.injectedMissingResolution}"
  IO.println s!"STAT must_go_dangling_only_checks={s.danglingMustGoChecks}"
  IO.println s!"STAT pending_close_restarts={s.reboots}"
  IO.println s!"STAT pending_close_restarts_after_broadcast={s.rebootsAfterBroadcast}"
  IO.println s!"STAT commit_set_bytes_checked={s.commitSetBytesChecked}"
  IO.println s!"STAT codec_cases={s.codecCases}"
  IO.println s!"STAT codec_decodes={s.codecDecodes}"
  IO.println s!"STAT codec_decode_errors={s.codecDecodeErrors}"
  IO.println s!"STAT codec_extra_data_skipped={s.codecExtraSkipped}"
  IO.println s!"STAT hard_lookup_error_cases={s.lookupErrCases}"
  IO.println s!"STAT chain_action_errors={s.chainActionErrors}"
  IO.println s!"STAT arb_restart_cases={s.restartCases}"
  IO.println s!"STAT arb_link_updates_while_running={s.relinks}"
  IO.println s!"STAT watcher_cases={s.watcherCases}"
  IO.println s!"STAT watcher_spent_local={s.watcherSpentLocal}"
  IO.println s!"STAT watcher_spent_remote={s.watcherSpentRemote}"
  IO.println s!"STAT watcher_spent_pending={s.watcherSpentPending}"
  IO.println s!"STAT watcher_commitments_differ={s.watcherDiffering}"
  IO.println s!"STAT watcher_close_summary_resolution_checks={s.watcherResolutionChecks}"
  IO.println s!"STAT mismatches={s.mismatches}"
  IO.println s!"STAT monitor_failures={s.monitorFails}"
