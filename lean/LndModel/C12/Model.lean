/-
C12 — executable model of the on-chain decision logic of
`contractcourt/channel_arbitrator.go`:

  shouldGoOnChain, checkCommitChainActions, checkRemoteDanglingActions,
  checkLocalChainActions, checkRemoteDiffActions, checkRemoteChainActions,
  constructChainActions, prepContractResolutions (which resolver for which
  action), abandonForwards / failIncomingDust (what is sent upstream), and
  `stateStep` / `advanceState` for StateDefault, StateBroadcastCommit,
  StateCommitmentBroadcasted, StateContractClosed, StateWaitingFullResolution.

The model says what the code does, not what it should do.  Go maps with random
iteration order are modelled as lists; the only place where the order changes
the *content* of the result (`checkRemoteDanglingActions` merging the remote
and the remote-pending copies of an HTLC into one map) is an explicit Boolean
parameter `pendingLast`, and theorems quantify over it.

Core Lean only (no Mathlib).
-/
namespace LndModel.C12

/-- 2^32: `RefundTimeout`, heights and broadcast deltas are `uint32` in Go. -/
def U32 : Nat := 4294967296

/-- Go `a - b` on `uint32` (for `a, b < 2^32`). -/
def sub32 (a b : Nat) : Nat := (a + U32 - b % U32) % U32

structure Htlc where
  index : Nat
  incoming : Bool
  amt : Nat
  refundTimeout : Nat
  outputIndex : Int
  hash : Nat
deriving Repr, DecidableEq, Inhabited

/-- `htlc.OutputIndex < 0`. -/
def Htlc.dust (h : Htlc) : Bool := h.outputIndex < 0

/-- Everything outside the HTLC sets the decision depends on. -/
structure Env where
  preimageKnown : Nat → Bool
  isForwarded : Nat → Bool
  /-- `upTime > PaymentsExpirationGracePeriod` -/
  pastGrace : Bool
  deltaOut : Nat
  deltaIn : Nat

/-- `shouldGoOnChain` with exact `uint32` arithmetic. -/
def shouldGoOnChain (env : Env) (h : Htlc) (delta height : Nat) : Bool :=
  let cutoff := sub32 h.refundTimeout delta
  if height < cutoff then false
  else if h.incoming then true
  else env.isForwarded h.index || env.pastGrace

/-- `htlcSet`: two maps keyed by `HtlcIndex`, as association lists. -/
structure HtlcSet where
  incoming : List Htlc := []
  outgoing : List Htlc := []
deriving Repr, Inhabited

/-- insertion into a Go map keyed by `HtlcIndex`: a later entry replaces an earlier one. -/
def insertByIndex (m : List Htlc) (h : Htlc) : List Htlc :=
  m.filter (fun x => x.index != h.index) ++ [h]

def mapOfList (l : List Htlc) : List Htlc := l.foldl insertByIndex []

/-- `newHtlcSet`. -/
def newHtlcSet (l : List Htlc) : HtlcSet :=
  { incoming := mapOfList (l.filter (·.incoming)),
    outgoing := mapOfList (l.filter (fun h => !h.incoming)) }

/-- the three commitments; an absent set is the empty set. -/
structure Sets where
  loc : HtlcSet := {}
  rem : HtlcSet := {}
  pend : HtlcSet := {}
deriving Repr, Inhabited

inductive Trigger | chain | user | remoteClose | localClose | coopClose | breachClose
deriving Repr, DecidableEq, Inhabited

inductive Action
  | timeout | claim | failDust | outWatch | inWatch | inDustFinal | failDangling
deriving Repr, DecidableEq, Inhabited

/-- `ChainActionMap` as a list of (action, htlc) entries (order irrelevant). -/
abbrev ActionMap := List (Action × Htlc)

def hasIndex (l : List Htlc) (i : Nat) : Bool := l.any (fun h => h.index == i)

/-- first pass of `checkCommitChainActions`. -/
def haveChainActions (env : Env) (height : Nat) (s : HtlcSet) : Bool :=
  s.outgoing.any (fun h => shouldGoOnChain env h env.deltaOut height) ||
  s.incoming.any (fun h => env.preimageKnown h.hash && shouldGoOnChain env h env.deltaIn height)

def classifyOut (env : Env) (height : Nat) (h : Htlc) : Action :=
  if h.dust then .failDust
  else if !shouldGoOnChain env h env.deltaOut height then .outWatch
  else .timeout

def classifyIn (h : Htlc) : Action :=
  if h.dust then .inDustFinal else .inWatch

/-- `checkCommitChainActions`. -/
def checkCommit (env : Env) (height : Nat) (trigger : Trigger) (s : HtlcSet) : ActionMap :=
  if !haveChainActions env height s && trigger == .chain then []
  else s.outgoing.map (fun h => (classifyOut env height h, h)) ++
       s.incoming.map (fun h => (classifyIn h, h))

/-- how a dangling (not on the confirmed/local commitment) outgoing HTLC is failed. -/
def classifyDangling (h : Htlc) : Action :=
  if h.dust then .failDust else .failDangling

/-- the `remoteHTLCs` map of `checkRemoteDanglingActions`: both remote sets merged by index;
    `pendingLast` says that the pending set is iterated last (its copy wins). -/
def mergeRemote (sets : Sets) (pendingLast : Bool) : List Htlc :=
  if pendingLast then (sets.rem.outgoing ++ sets.pend.outgoing).foldl insertByIndex []
  else (sets.pend.outgoing ++ sets.rem.outgoing).foldl insertByIndex []

/-- `checkRemoteDanglingActions`. -/
def checkRemoteDangling (env : Env) (height : Nat) (sets : Sets) (commitsConfirmed : Bool)
    (pendingLast : Bool) : ActionMap :=
  let pending := (mergeRemote sets pendingLast).filter (fun h => !hasIndex sets.loc.outgoing h.index)
  (pending.filter (fun h =>
      (shouldGoOnChain env h env.deltaOut height || commitsConfirmed) &&
      !env.preimageKnown h.hash)).map (fun h => (classifyDangling h, h))

/-- `checkLocalChainActions`. -/
def checkLocal (env : Env) (height : Nat) (trigger : Trigger) (sets : Sets)
    (commitsConfirmed pendingLast : Bool) : ActionMap :=
  checkCommit env height trigger sets.loc ++
  checkRemoteDangling env height sets commitsConfirmed pendingLast

def confRemote (sets : Sets) (pendingConf : Bool) : HtlcSet :=
  if pendingConf then sets.pend else sets.rem

def otherRemote (sets : Sets) (pendingConf : Bool) : HtlcSet :=
  if pendingConf then sets.rem else sets.pend

/-- `checkRemoteDiffActions`. -/
def checkRemoteDiff (env : Env) (sets : Sets) (pendingConf : Bool) : ActionMap :=
  ((otherRemote sets pendingConf).outgoing.filter (fun h =>
      !hasIndex (confRemote sets pendingConf).outgoing h.index &&
      !env.preimageKnown h.hash)).map (fun h => (classifyDangling h, h))

/-- `checkRemoteChainActions`. -/
def checkRemote (env : Env) (height : Nat) (trigger : Trigger) (sets : Sets)
    (pendingConf : Bool) : ActionMap :=
  checkCommit env height trigger (confRemote sets pendingConf) ++
  checkRemoteDiff env sets pendingConf

inductive SetKey | loc | rem | pend
deriving Repr, DecidableEq, Inhabited

def Sets.get (s : Sets) : SetKey → HtlcSet
  | .loc => s.loc | .rem => s.rem | .pend => s.pend

/-- `constructChainActions` for a commit set with `ConfCommitKey = some key`. -/
def construct (env : Env) (key : SetKey) (sets : Sets) (height : Nat) (trigger : Trigger)
    (pendingLast : Bool) : ActionMap :=
  match key with
  | .loc => checkLocal env height trigger sets true pendingLast
  | .rem => checkRemote env height trigger sets false
  | .pend => checkRemote env height trigger sets true

def actionsOf (m : ActionMap) (a : Action) : List Htlc :=
  (m.filter (fun e => e.1 == a)).map (·.2)

/-- remove repetitions (a Go `fn.Set[uint64]`; order is irrelevant). -/
def dedupNat : List Nat → List Nat
  | [] => []
  | x :: xs => if xs.contains x then dedupNat xs else x :: dedupNat xs

/-- `fn.NewSet(indices…)` then one message per element: indices without repetition. -/
def indexSet (l : List Htlc) : List Nat := dedupNat (l.map (·.index))

/-! ### resolvers -/

inductive RKind | timeout | outContest | success | inContest | anchor | breach | commitSweep
deriving Repr, DecidableEq, Inhabited

/-- the part of `ContractResolutions` the model needs: which output indices have an
    incoming / outgoing HTLC resolution (as `uint32`), and the presence flags. -/
structure Resolutions where
  inOuts : List Nat := []
  outOuts : List Nat := []
  anchor : Bool := false
  breach : Bool := false
  commit : Bool := false
deriving Repr, Inhabited

def Resolutions.isEmpty (r : Resolutions) : Bool :=
  !r.commit && r.inOuts.isEmpty && r.outOuts.isEmpty && !r.anchor && !r.breach

/-- `uint32(htlc.OutputIndex)`. -/
def outU32 (h : Htlc) : Nat := (h.outputIndex % (U32 : Int)).toNat

def resolverFor (r : Resolutions) (e : Action × Htlc) : List (RKind × Nat) :=
  match e.1 with
  | .claim => if r.inOuts.contains (outU32 e.2) then [(.success, e.2.index)] else []
  | .timeout => if r.outOuts.contains (outU32 e.2) then [(.timeout, e.2.index)] else []
  | .inWatch => if r.inOuts.contains (outU32 e.2) then [(.inContest, e.2.index)] else []
  | .outWatch => if r.outOuts.contains (outU32 e.2) then [(.outContest, e.2.index)] else []
  | _ => []

/-- `prepContractResolutions`. -/
def prepResolvers (r : Resolutions) (m : ActionMap) : List (RKind × Nat) :=
  (if r.anchor then [(RKind.anchor, 0)] else []) ++
  (if r.breach then [(RKind.breach, 0)]
   else m.flatMap (resolverFor r) ++ (if r.commit then [(RKind.commitSweep, 0)] else []))

/-! ### the arbitrator state machine -/

inductive AState
  | default | broadcastCommit | commitmentBroadcasted | contractClosed
  | waitingFullResolution | fullyResolved | error
deriving Repr, DecidableEq, Inhabited

inductive FcErr | none | dataLoss | other
deriving Repr, DecidableEq, Inhabited

/-- a confirmed commit set as handed over by the chain watcher. -/
structure CommitSet where
  key : SetKey
  sets : Sets
deriving Repr, Inhabited

def HtlcSet.isEmpty (s : HtlcSet) : Bool := s.incoming.isEmpty && s.outgoing.isEmpty

def Sets.isEmpty (s : Sets) : Bool := s.loc.isEmpty && s.rem.isEmpty && s.pend.isEmpty

/-- what one `stateStep` does that is visible outside. -/
structure Out where
  forceClose : Nat := 0
  /-- one entry per `abandonForwards` call that sent something -/
  fails : List (List Nat) := []
  /-- `failIncomingDust`: htlc indices marked final-failed -/
  finals : List Nat := []
  resolvers : List (RKind × Nat) := []
deriving Repr, Inhabited

def Out.append (a b : Out) : Out :=
  { forceClose := a.forceClose + b.forceClose, fails := a.fails ++ b.fails,
    finals := a.finals ++ b.finals, resolvers := a.resolvers ++ b.resolvers }

def failBatch (l : List Nat) : List (List Nat) := if l.isEmpty then [] else [l]

structure Arb where
  state : AState := .default
  /-- `unmergedSet`, merged into `activeHTLCs` at every `StateDefault` step -/
  active : Sets := {}
  /-- resolutions logged by the close handler (`none` = `errNoResolutions`) -/
  resolutions : Option Resolutions := none
  fcErr : FcErr := .none
  /-- resolvers inserted so far -/
  inserted : Nat := 0
deriving Inhabited

/-- `checkLegacyBreach`. -/
def legacyBreach (a : Arb) : AState :=
  if a.resolutions.isSome then .contractClosed else .fullyResolved

/-- `stateStep`; `none` = the step returned an error (state unchanged). -/
def stateStep (env : Env) (a : Arb) (height : Nat) (trigger : Trigger) (conf : Option CommitSet)
    (pendingLast : Bool) : Option (AState × Out × Nat) :=
  match a.state with
  | .default =>
    let actions := match conf with
      | none => checkLocal env height trigger a.active false pendingLast
      | some cs => construct env cs.key cs.sets height trigger pendingLast
    if actions.isEmpty && trigger == .chain then some (.default, {}, 0)
    else
      let out : Out := { fails := failBatch (indexSet (actionsOf actions .failDust)) }
      let next := match trigger with
        | .chain | .user => AState.broadcastCommit
        | .coopClose => .fullyResolved
        | .localClose | .remoteClose => .contractClosed
        | .breachClose => legacyBreach a
      some (next, out, 0)
  | .broadcastCommit =>
    match trigger with
    | .localClose | .remoteClose => some (.contractClosed, {}, 0)
    | .breachClose => some (legacyBreach a, {}, 0)
    | .coopClose => some (.fullyResolved, {}, 0)
    | .chain | .user =>
      match a.fcErr with
      | .none => some (.commitmentBroadcasted, { forceClose := 1 }, 0)
      | .dataLoss => some (.broadcastCommit, { forceClose := 1 }, 0)
      | .other => none
  | .commitmentBroadcasted =>
    match trigger with
    | .chain | .user => some (.commitmentBroadcasted, {}, 0)
    | .localClose | .remoteClose => some (.contractClosed, {}, 0)
    | .coopClose => some (.fullyResolved, {}, 0)
    | .breachClose => some (legacyBreach a, {}, 0)
  | .contractClosed =>
    match a.resolutions, conf with
    | some res, some cs =>
      if res.isEmpty && cs.sets.isEmpty then some (.fullyResolved, {}, 0)
      else
        let actions := construct env cs.key cs.sets height trigger pendingLast
        let out : Out :=
          if res.breach then
            { fails := failBatch (indexSet (cs.sets.rem.outgoing ++ cs.sets.pend.outgoing)) }
          else
            { finals := (actionsOf actions .inDustFinal).map (·.index),
              fails := failBatch (indexSet (actionsOf actions .failDangling)) }
        let rs := prepResolvers res actions
        some (.waitingFullResolution, { out with resolvers := rs }, rs.length)
    | _, _ => none
  | .waitingFullResolution =>
    if a.inserted == 0 then some (.fullyResolved, {}, 0) else some (.waitingFullResolution, {}, 0)
  | .fullyResolved => some (.fullyResolved, {}, 0)
  | .error => none

/-- `advanceState`: iterate `stateStep` until the state repeats (fuel bounds the loop; the
    longest chain is default → … → fullyResolved, 6 steps). An erroring step with a
    `ForceCloseChan` call still counts the call.  Every `stateStep` that computes chain actions
    iterates the Go map afresh, so the iteration-order choice is per state (`choice`). -/
def advance (env : Env) (a : Arb) (height : Nat) (trigger : Trigger) (conf : Option CommitSet)
    (choice : AState → Bool) : Nat → Arb × Out
  | 0 => (a, {})
  | fuel + 1 =>
    match stateStep env a height trigger conf (choice a.state) with
    | none =>
      let fc := if a.state == .broadcastCommit && (trigger == .chain || trigger == .user) then 1 else 0
      (a, { forceClose := fc })
    | some (next, out, ins) =>
      if next == a.state then ({ a with inserted := a.inserted + ins }, out)
      else
        let (a', out') := advance env { a with state := next, inserted := a.inserted + ins }
                            height trigger conf choice fuel
        (a', out.append out')

def advanceFuel : Nat := 8

/-! ### the event loop (`channelAttendant` / `handleBlockbeat` / close handlers) -/

inductive CloseEv
  | localForce (cs : CommitSet) (res : Resolutions) (height : Nat)
  | remoteForce (cs : CommitSet) (res : Resolutions) (height : Nat)
  | breach (cs : CommitSet) (res : Resolutions) (height : Nat)
  | coop (height : Nat)

def handleClose (env : Env) (a : Arb) (ev : CloseEv) (pendingLast : AState → Bool) : Arb × Out :=
  match ev with
  | .localForce cs res h =>
    advance env { a with resolutions := some res } h .localClose (some cs) pendingLast advanceFuel
  | .remoteForce cs res h =>
    advance env { a with resolutions := some res } h .remoteClose (some cs) pendingLast advanceFuel
  | .breach cs res h =>
    advance env { a with resolutions := some res } h .breachClose (some cs) pendingLast advanceFuel
  | .coop h => advance env a h .coopClose none pendingLast advanceFuel

def AState.isContractClosed : AState → Bool
  | .contractClosed | .waitingFullResolution | .fullyResolved => true
  | _ => false

/-- `handleBlockbeat` with at most one queued close event. -/
def handleBlock (env : Env) (a : Arb) (height : Nat) (ev : Option CloseEv)
    (pendingLast : AState → Bool) :
    Arb × Out :=
  if a.state.isContractClosed then (a, {})
  else
    let (a1, o1) := match ev with
      | none => (a, ({} : Out))
      | some e => handleClose env a e pendingLast
    if a1.state == .default then
      let (a2, o2) := advance env a1 height .chain none pendingLast advanceFuel
      (a2, o1.append o2)
    else (a1, o1)

/-- a user force-close request. -/
def handleUser (env : Env) (a : Arb) (bestHeight : Nat) (pendingLast : AState → Bool) :
    Arb × Out :=
  if a.state != .default then (a, {})
  else advance env a bestHeight .user none pendingLast advanceFuel

/-! ### preimage lookups that fail with a hard error

`isPreimageAvailable` maps `ErrInvoiceNotFound` and `ErrNoInvoicesCreated` to "not known"
(`Env.preimageKnown = false`); any other registry error is returned to the caller:
`checkCommitChainActions` aborts (first pass over the received HTLCs of the examined commitment),
so the `stateStep` that computes chain actions fails and the state is not advanced, while
`checkRemoteDanglingActions` / `checkRemoteDiffActions` just skip the HTLC (callers encode that by
making `preimageKnown` true for such hashes). The functions below add this layer on top of the
error-free `stateStep`/`advance` the theorems are about; with `err = fun _ => false` they coincide
(`advanceE_no_error`). -/

def lookupFails (err : Nat → Bool) (s : HtlcSet) : Bool := s.incoming.any (fun h => err h.hash)

/-- does the chain-action computation of this step abort on a lookup error? -/
def stepFails (err : Nat → Bool) (a : Arb) (conf : Option CommitSet) : Bool :=
  match a.state, conf with
  | .default, none => lookupFails err a.active.loc
  | .default, some cs => lookupFails err (cs.sets.get cs.key)
  | .contractClosed, some cs =>
    match a.resolutions with
    | some res => !(res.isEmpty && cs.sets.isEmpty) && lookupFails err (cs.sets.get cs.key)
    | none => false
  | _, _ => false

def advanceE (env : Env) (err : Nat → Bool) (a : Arb) (height : Nat) (trigger : Trigger)
    (conf : Option CommitSet) (choice : AState → Bool) : Nat → Arb × Out
  | 0 => (a, {})
  | fuel + 1 =>
    match (if stepFails err a conf then none
           else stateStep env a height trigger conf (choice a.state)) with
    | none =>
      let fc := if a.state == .broadcastCommit && (trigger == .chain || trigger == .user) then 1 else 0
      (a, { forceClose := fc })
    | some (next, out, ins) =>
      if next == a.state then ({ a with inserted := a.inserted + ins }, out)
      else
        let (a', out') := advanceE env err { a with state := next, inserted := a.inserted + ins }
                            height trigger conf choice fuel
        (a', out.append out')

def handleCloseE (env : Env) (err : Nat → Bool) (a : Arb) (ev : CloseEv)
    (choice : AState → Bool) : Arb × Out :=
  match ev with
  | .localForce cs res h =>
    advanceE env err { a with resolutions := some res } h .localClose (some cs) choice advanceFuel
  | .remoteForce cs res h =>
    advanceE env err { a with resolutions := some res } h .remoteClose (some cs) choice advanceFuel
  | .breach cs res h =>
    advanceE env err { a with resolutions := some res } h .breachClose (some cs) choice advanceFuel
  | .coop h => advanceE env err a h .coopClose none choice advanceFuel

def handleBlockE (env : Env) (err : Nat → Bool) (a : Arb) (height : Nat) (ev : Option CloseEv)
    (choice : AState → Bool) : Arb × Out :=
  if a.state.isContractClosed then (a, {})
  else
    let (a1, o1) := match ev with
      | none => (a, ({} : Out))
      | some e => handleCloseE env err a e choice
    if a1.state == .default then
      let (a2, o2) := advanceE env err a1 height .chain none choice advanceFuel
      (a2, o1.append o2)
    else (a1, o1)

def handleUserE (env : Env) (err : Nat → Bool) (a : Arb) (bestHeight : Nat)
    (choice : AState → Bool) : Arb × Out :=
  if a.state != .default then (a, {})
  else advanceE env err a bestHeight .user none choice advanceFuel

/-! ### the chain watcher (`newChainSet`, `handleKnownLocalState`, `handleKnownRemoteState`) -/

/-- the unrevoked commitments in the channel state when the funding output is spent: ours, the
    peer's current one and, if we signed a new one that is not yet revoked, the peer's pending one. -/
structure ChanCommits where
  loc : List Htlc := []
  rem : List Htlc := []
  pend : Option (List Htlc) := none
deriving Repr, Inhabited

inductive CloseSub | localUnilateral | remoteUnilateral
deriving Repr, DecidableEq, Inhabited

/-- which subscription fires and which `CommitSet` is dispatched when commitment `spent` hits the
    chain (`none`: no such commitment). -/
def commitSetOfSpend (c : ChanCommits) (spent : SetKey) : Option (CloseSub × CommitSet) :=
  let sets : Sets := { loc := newHtlcSet c.loc, rem := newHtlcSet c.rem,
                       pend := match c.pend with | some p => newHtlcSet p | none => {} }
  match spent with
  | .loc => some (.localUnilateral, ⟨.loc, sets⟩)
  | .rem => some (.remoteUnilateral, ⟨.rem, sets⟩)
  | .pend => if c.pend.isSome then some (.remoteUnilateral, ⟨.pend, sets⟩) else none

/-! ### start-up / restart and link updates

`ChainArbitrator` builds `htlcSets` from the channel's local, remote and (if one of our
CommitSigs is unrevoked) remote-pending commitment and hands them to `NewChannelArbitrator`,
which seeds both `activeHTLCs` and `unmergedSet`; `updateActiveHTLCs` (every `StateDefault`
step) copies `unmergedSet` over `activeHTLCs`.  What the deadline check considers after a
restart is therefore this explicit function of the three start-up sets, until the link
replaces one of them (`notifyContractUpdate`). -/

def startSets (loc rem : List Htlc) (pend : Option (List Htlc)) : Sets :=
  { loc := newHtlcSet loc, rem := newHtlcSet rem,
    pend := match pend with | some p => newHtlcSet p | none => {} }

/-- the arbitrator right after `NewChannelArbitrator(cfg, htlcSets, log)` -/
def startUp (loc rem : List Htlc) (pend : Option (List Htlc)) (fcErr : FcErr := .none) : Arb :=
  { state := .default, active := startSets loc rem pend, fcErr := fcErr }

/-- `notifyContractUpdate`: the link reports the HTLCs of one commitment anew -/
def linkUpdate (a : Arb) (k : SetKey) (htlcs : List Htlc) : Arb :=
  { a with active := match k with
      | .loc => { a.active with loc := newHtlcSet htlcs }
      | .rem => { a.active with rem := newHtlcSet htlcs }
      | .pend => { a.active with pend := newHtlcSet htlcs } }

/-- lnwallet `extractHtlcResolutions` (called by `NewLocalForceCloseSummary` /
    `NewUnilateralCloseSummary`) as far as the arbitrator depends on it: one incoming / outgoing
    HTLC resolution per HTLC of the spent commitment that has an output there, identified by the
    output index of its outpoint.  `commit` / `anchor`: whether the summary carries a commit
    resolution / anchor resolutions (inputs of the model). -/
def closeSummaryResolutions (s : HtlcSet) (commit anchor : Bool) : Resolutions :=
  { inOuts := (s.incoming.filter (fun h => !h.dust)).map outU32,
    outOuts := (s.outgoing.filter (fun h => !h.dust)).map outU32,
    commit := commit, anchor := anchor, breach := false }

end LndModel.C12
