/-
C12 — executable model of the decision loops of the four HTLC resolvers

  contractcourt/htlc_outgoing_contest_resolver.go   (Launch, Resolve)
  contractcourt/htlc_timeout_resolver.go            (Launch, Resolve, watchHtlcSpend,
        waitForMempoolOrBlockSpend / consumeSpendEvents, isPreimageSpend, claimCleanUp,
        resolveRemoteCommitOutput, resolveTimeoutTx, sweepTimeoutTxOutput,
        checkpointStageOne, resolveTimeoutTxOutput)
  contractcourt/htlc_incoming_contest_resolver.go   (Launch / findAndapplyPreimage, Resolve)
  contractcourt/htlc_success_resolver.go            (Launch, Resolve, resolveRemoteCommitOutput,
        resolveSuccessTx, resolveLegacySuccessTx, isPreimageSpend, checkpointClaim,
        checkpointForeignSpend)

together with the ChannelArbitrator's `resolveContract` loop (Resolve → SwapContract →
Launch of the next resolver → … → ResolveContract), as ONE step function over the events
of a scripted chain oracle: block epochs, confirmed spends of the HTLC outpoint and of the
second-level output, unconfirmed (mempool) spends, preimages through the witness beacon,
settle / cancel through the invoice registry's hodl channel.

The model says what the code does.  Core Lean only.
-/
namespace LndModel.C12.Res

def U32 : Nat := 4294967296

/-- Go `expiry - 1` on `uint32`. -/
def pred32 (e : Nat) : Nat := (e + U32 - 1) % U32

inductive Commit | remote | zf | legacy
deriving DecidableEq, Repr, Inhabited

/-- What the invoice registry answers to `NotifyExitHopHtlc`. -/
inductive Reg | none | settle | notfound | cancel
deriving DecidableEq, Repr, Inhabited

structure Cfg where
  /-- offered (outgoing) HTLC; otherwise a received one -/
  out : Bool
  /-- the arbitrator created a contest resolver (otherwise timeout / success resolver) -/
  contest : Bool
  commit : Commit
  taproot : Bool
  /-- `ChainArbitratorConfig.Mempool != nil` -/
  mempool : Bool
  expiry : Nat
  /-- `broadcastHeight` -/
  bh : Nat
  exit : Bool
  onionErr : Bool
  amtOK : Bool
  cltvOK : Bool
  regL : Reg
  regR : Reg
  /-- `invoices.MaxFinalCltvDelta` -/
  maxDelta : Nat
deriving Repr, Inhabited

def Cfg.isLocal (c : Cfg) : Bool := c.commit != .remote

/-- What the oracle tells about a transaction spending the HTLC outpoint. -/
structure Spend where
  /-- lengths of the witness elements of the spending input -/
  lens : List Nat
  /-- the last element is a BIP-341 annex -/
  annex : Bool
  /-- the 32-byte element (if any) is the preimage of the HTLC's hash -/
  preOk : Bool
  /-- the revealed script (and leaf version) is the one of our sweep descriptor -/
  scr : Bool
  /-- the spending tx carries our second-level output at the input's index -/
  lvl2 : Bool
deriving DecidableEq, Repr, Inhabited

inductive Ev
  | block (h : Nat)
  | conf (s : Spend)
  | mem (s : Spend)
  | conf2
  | pre
  | wrongpre
  | hodl (settle : Bool)
deriving Repr, Inhabited

inductive Eff
  | sweepDirectTimeout | sweepTimeoutTx | sweepTimeout2nd
  | sweepDirectSuccess | sweepSuccessTx | sweepSuccess2nd
  | incubate | publish | addpre
  | fail | settle
  | final (settled : Bool)
  | ckptClaimed | ckptTimeout | ckptFirstStage | ckptAbandoned | ckptNone | ckptClaimedFirst
  | repAbandoned
  | swapTO | swapSU
  | resolved
  | errMismatch | errInvalidSuccess | errOther | panic
deriving DecidableEq, Repr, Inhabited

inductive Phase
  | init
  /-- outgoing contest resolver waiting in its select loop -/
  | ocWait
  /-- timeout resolver watching the HTLC outpoint -/
  | toWait
  /-- timeout resolver waiting for the second-level output to be spent -/
  | toStage2
  /-- incoming contest resolver waiting (`hodl`: subscribed to the registry, else to the beacon) -/
  | icWait (hodl : Bool)
  /-- success resolver waiting for the HTLC outpoint to be spent -/
  | suWait
  /-- success resolver waiting for the second-level output to be spent -/
  | suStage2
  /-- `ResolveContract` was called -/
  | done
  /-- `Resolve` returned an error (or panicked): `resolveContract` gave up -/
  | dead
deriving DecidableEq, Repr, Inhabited

structure St where
  phase : Phase := .init
  /-- best height known to the notifier -/
  height : Nat := 0
  /-- the confirmed spend of the HTLC outpoint, once there is one -/
  conf : Option Spend := none
  /-- the second-level output has been spent (confirmed) -/
  conf2 : Bool := false
  /-- the witness beacon knows the preimage -/
  known : Bool := false
  /-- the inner (timeout / success) resolver has been launched -/
  launched : Bool := false
deriving Repr, Inhabited

/-! ### htlc_timeout_resolver.go: classification of a spend -/

def stripAnnex (taproot : Bool) (s : Spend) : List Nat :=
  if taproot && s.annex && s.lens.length ≥ 2 then s.lens.dropLast else s.lens

def checkSizeAndIndex (w : List Nat) (size idx : Nat) : Bool :=
  w.length == size && w[idx]? == some 32

/-- `isPreimageSpend(isTaproot, spend, localCommit)` -/
def isPreimageSpend (taproot localCommit : Bool) (s : Spend) : Bool :=
  let w := stripAnnex taproot s
  match taproot, localCommit with
  | true, false => checkSizeAndIndex w 5 2
  | true, true => checkSizeAndIndex w 4 1
  | false, false => checkSizeAndIndex w 5 3
  | false, true => checkSizeAndIndex w 3 1

inductive Claim | settled | mismatch | other | panic
deriving DecidableEq, Repr

/-- `claimCleanUp`: which witness element is taken for the preimage and what happens. -/
def claimOutcome (c : Cfg) (s : Spend) : Claim :=
  let pick (i : Nat) : Claim :=
    match s.lens[i]? with
    | none => .panic
    | some n => if n != 32 then .other else if s.preOk then .settled else .mismatch
  if c.taproot && !c.isLocal then pick 2
  else if !c.taproot && !c.isLocal then pick 3
  else if c.taproot && (stripAnnex true s).length == 1 then .other
  else pick 1

/-- effects and next phase of `claimCleanUp` followed by `resolveContract`'s bookkeeping -/
def claimCleanUp (c : Cfg) (st : St) (s : Spend) : St × List Eff :=
  match claimOutcome c s with
  | .settled => ({ st with phase := .done }, [.addpre, .settle, .ckptClaimed, .resolved])
  | .mismatch => ({ st with phase := .dead }, [.errMismatch])
  | .other => ({ st with phase := .dead }, [.errOther])
  | .panic => ({ st with phase := .dead }, [.panic])

/-! ### timeout resolver -/

/-- `htlcTimeoutResolver.Launch` (no-op when already launched) -/
def launchTO (c : Cfg) (st : St) : St × List Eff :=
  if st.launched then (st, []) else
  ({ st with launched := true },
    match c.commit with
    | .remote => [.sweepDirectTimeout]
    | .zf => [.sweepTimeoutTx]
    | .legacy => [])

/-- `resolveTimeoutTxOutput`: wait for the spend of the second-level output -/
def toSecondStage (st : St) : St × List Eff :=
  if st.conf2 then ({ st with phase := .done }, [.ckptTimeout, .resolved])
  else ({ st with phase := .toStage2 }, [])

/-- what the timeout resolver does with the spend `watchHtlcSpend` handed to it -/
def toSpend (c : Cfg) (st : St) (s : Spend) : St × List Eff :=
  if isPreimageSpend c.taproot c.isLocal s then claimCleanUp c st s
  else match c.commit with
    | .remote => ({ st with phase := .done }, [.fail, .ckptTimeout, .resolved])
    | .zf =>
      let (st', e) := toSecondStage st
      (st', [.sweepTimeout2nd, .fail, .ckptFirstStage] ++ e)
    | .legacy =>
      let (st', e) := toSecondStage st
      (st', [.fail, .ckptFirstStage] ++ e)

/-- `htlcTimeoutResolver.Resolve` up to the point where it blocks -/
def toResolve (c : Cfg) (st : St) : St × List Eff :=
  let pre : List Eff := if c.commit == .legacy then [.incubate] else []
  match st.conf with
  | some s => let (st', e) := toSpend c st s; (st', pre ++ e)
  | none => ({ st with phase := .toWait }, pre)

/-- contest resolver hands over: SwapContract, Launch of the timeout resolver, its Resolve -/
def becomeTO (c : Cfg) (st : St) : St × List Eff :=
  let (st1, e1) := launchTO c st
  let (st2, e2) := toResolve c st1
  (st2, [.swapTO] ++ e1 ++ e2)

/-! ### success resolver -/

def launchSU (c : Cfg) (st : St) : St × List Eff :=
  if st.launched then (st, []) else
  ({ st with launched := true },
    match c.commit with
    | .remote => [.sweepDirectSuccess]
    | .zf => [.sweepSuccessTx]
    | .legacy => [])

def suSecondStage (st : St) : St × List Eff :=
  if st.conf2 then ({ st with phase := .done }, [.final true, .ckptClaimedFirst, .resolved])
  else ({ st with phase := .suStage2 }, [])

/-- `htlcSuccessResolver.isPreimageSpend` -/
def suIsPreimageSpend (c : Cfg) (s : Spend) : Bool :=
  if c.taproot then checkSizeAndIndex (stripAnnex true s) 4 1 && s.scr
  else checkSizeAndIndex s.lens 3 1 && s.scr

def foreign (st : St) : St × List Eff :=
  ({ st with phase := .done }, [.final false, .ckptTimeout, .resolved])

/-- the success resolver sees the confirmed spend of the HTLC outpoint -/
def suSpend (c : Cfg) (st : St) (s : Spend) : St × List Eff :=
  match c.commit with
  | .remote =>
    if !suIsPreimageSpend c s then foreign st
    else if !s.preOk then ({ st with phase := .dead }, [.errInvalidSuccess])
    else ({ st with phase := .done }, [.final true, .ckptClaimed, .resolved])
  | .zf =>
    if !s.lvl2 then foreign st
    else
      let (st', e) := suSecondStage st
      (st', [.ckptNone, .sweepSuccess2nd] ++ e)
  | .legacy => (st, [])

def suResolve (c : Cfg) (st : St) : St × List Eff :=
  match c.commit with
  | .legacy =>
    let (st', e) := suSecondStage st
    (st', [.publish, .incubate, .ckptNone] ++ e)
  | _ =>
    match st.conf with
    | some s => suSpend c st s
    | none => ({ st with phase := .suWait }, [])

def becomeSU (c : Cfg) (st : St) : St × List Eff :=
  let (st1, e1) := launchSU c st
  let (st2, e2) := suResolve c st1
  (st2, [.swapSU] ++ e1 ++ e2)

/-! ### incoming contest resolver -/

/-- `invalidFinalHtlc(payload, height)` (no custom HTLC checker) -/
def invalidFinal (c : Cfg) (height : Nat) : Bool :=
  c.exit && (!c.amtOK || !c.cltvOK || (c.expiry > height && c.expiry - height > c.maxDelta))

/-- `findAndapplyPreimage`: is the preimage applied during `Launch`? -/
def appliedAtLaunch (c : Cfg) (st : St) : Bool :=
  if st.known then !(!c.onionErr && invalidFinal c c.bh)
  else if c.onionErr then false
  else if !c.exit then false
  else if invalidFinal c c.bh then false
  else c.regL == .settle

def giveUp (st : St) (e : Eff) : St × List Eff :=
  ({ st with phase := .done }, [.final false, e, .resolved])

/-- `htlcIncomingContestResolver.Resolve` up to the point where it blocks -/
def icResolve (c : Cfg) (st : St) : St × List Eff :=
  if c.onionErr then giveUp st .repAbandoned
  else if invalidFinal c st.height then giveUp st .ckptAbandoned
  else if st.height % U32 ≥ c.expiry then giveUp st .ckptTimeout
  else if c.exit then
    match c.regR with
    | .cancel => giveUp st .ckptAbandoned
    | .settle => becomeSU c st
    | _ => ({ st with phase := .icWait true }, [])
  else if st.known then becomeSU c st
  else ({ st with phase := .icWait false }, [])

/-! ### start: launchResolvers + the first Resolve -/

/-- `htlcOutgoingContestResolver.Launch` -/
def ocLaunch (c : Cfg) (st : St) : St × List Eff :=
  if st.height % U32 < c.expiry then (st, []) else launchTO c st

/-- `htlcOutgoingContestResolver.Resolve` up to the point where it blocks: spent already?
    otherwise the first epoch carries the current height -/
def ocResolve (c : Cfg) (st : St) : St × List Eff :=
  match st.conf with
  | some s => claimCleanUp c st s
  | none =>
    if st.height % U32 ≥ pred32 c.expiry then becomeTO c st
    else ({ st with phase := .ocWait }, [])

/-- `htlcIncomingContestResolver.Launch` -/
def icLaunch (c : Cfg) (st : St) : St × List Eff :=
  if appliedAtLaunch c st then launchSU c st else (st, [])

def start (c : Cfg) (st : St) : St × List Eff :=
  match c.out, c.contest with
  | true, true =>
    let (st1, e1) := ocLaunch c st
    let (st2, e2) := ocResolve c st1
    (st2, e1 ++ e2)
  | true, false =>
    let (st1, e1) := launchTO c st
    let (st2, e2) := toResolve c st1
    (st2, e1 ++ e2)
  | false, true =>
    let (st1, e1) := icLaunch c st
    let (st2, e2) := icResolve c st1
    (st2, e1 ++ e2)
  | false, false =>
    let (st1, e1) := launchSU c st
    let (st2, e2) := suResolve c st1
    (st2, e1 ++ e2)

/-! ### one event -/

/-- what the environment remembers regardless of the resolver -/
def record (st : St) : Ev → St
  | .block h => { st with height := h }
  | .conf s => if st.conf.isNone then { st with conf := some s } else st
  | .conf2 => { st with conf2 := true }
  | .pre => { st with known := true }
  | _ => st

/-- a second confirmed spend of the same outpoint cannot happen: the oracle drops it -/
def dropped (st : St) : Ev → Bool
  | .conf _ => st.conf.isSome
  | .conf2 => st.conf2
  | _ => false

/-- the reaction of the resolver that is in phase `ph` to one delivered event -/
def react (c : Cfg) (st : St) : Phase → Ev → St × List Eff
  -- outgoing contest resolver
  | .ocWait, .block h => if h % U32 ≥ pred32 c.expiry then becomeTO c st else (st, [])
  | .ocWait, .conf s => claimCleanUp c st s
  -- timeout resolver, first stage
  | .toWait, .conf s => toSpend c st s
  | .toWait, .mem s =>
    if c.mempool && isPreimageSpend c.taproot c.isLocal s then claimCleanUp c st s else (st, [])
  -- timeout resolver, second stage
  | .toStage2, .conf2 => ({ st with phase := .done }, [.ckptTimeout, .resolved])
  -- incoming contest resolver
  | .icWait _, .block h => if h % U32 ≥ c.expiry then giveUp st .ckptTimeout else (st, [])
  | .icWait false, .pre => becomeSU c st
  | .icWait true, .hodl true => becomeSU c st
  | .icWait true, .hodl false => giveUp st .ckptAbandoned
  -- success resolver
  | .suWait, .conf s => suSpend c st s
  | .suStage2, .conf2 => ({ st with phase := .done }, [.final true, .ckptClaimedFirst, .resolved])
  | _, _ => (st, [])

def step (c : Cfg) (st0 : St) (ev : Ev) : St × List Eff :=
  if dropped st0 ev then (st0, []) else
  react c (record st0 ev) (record st0 ev).phase ev

/-- events before the resolver exists only change the environment -/
def early (st : St) (evs : List Ev) : St :=
  evs.foldl (fun s e => if dropped s e then s else record s e) st

def runFrom (c : Cfg) : St → List Ev → St × List Eff
  | st, [] => (st, [])
  | st, e :: es =>
    let (st1, f1) := step c st e
    let (st2, f2) := runFrom c st1 es
    (st2, f1 ++ f2)

/-- a whole life: environment history before the close, start, then the events -/
def run (c : Cfg) (h0 : Nat) (pre evs : List Ev) : St × List Eff :=
  let (st1, f1) := start c (early { height := h0 } pre)
  let (st2, f2) := runFrom c st1 evs
  (st2, f1 ++ f2)

end LndModel.C12.Res
