/-
C15 — model of lnd's invoice settlement logic:
  invoices/update.go          (resolveReplayedHtlc, updateInvoice, updateMpp, updateLegacy, isValidKeySend)
  invoices/update_invoice.go  (UpdateInvoice appliers: addHTLCs incl. AmtPaid recomputation,
                               cancelHTLCs, settleHodlInvoice, cancelInvoice,
                               getUpdatedInvoiceState, getUpdatedHtlcState, canCancelSingleHtlc)
  invoices/invoiceregistry.go (NotifyExitHopHtlc incl. processKeySend, SettleHodlInvoice,
                               CancelInvoice, cancelSingleHtlc = htlc set timeout, hodl subscriptions)
  channeldb/invoices.go, invoices/sql_store.go (fetchInvoiceNumByRef / getInvoiceByRef only)

Hand-written; tied to the code on every run by the behavioural correspondence
check (harness/overlay/invoices/zz_c15_verif_test.go → drv_c15) which replays
every harness operation on these definitions (with `H` = real SHA-256) and
compares the returned resolution, the hodl-channel messages and the canonical
`LookupInvoice` dump of every invoice after every event, for the kv store and
for the native SQL store.

Hashes, preimages and payment addresses are 32-byte strings read as big-endian
naturals; the blank payment address is `0`.  `H : Nat → Nat` is the hash
function (a parameter: theorems hold for every `H`).  Amounts are unbounded
naturals (lnd: uint64 msat; sums of htlc amounts stay far below 2^64).  The
expiry guards are modelled with their exact int32 → uint32 conversion.

Outside the model (documented in checks/C15.notes.md): AMP invoices (an AMP
*payload* towards a non-AMP invoice is modelled), the external
htlc interceptor, invoice expiry (time / height based cancellation = `cancel`).
-/
namespace LndModel.C15

inductive CState | open | accepted | settled | canceled
  deriving DecidableEq, Repr, Inhabited

inductive HState | accepted | canceled | settled
  deriving DecidableEq, Repr, Inhabited

/-- `FailResolutionResult` values that occur for non-AMP invoices. -/
inductive FailReason
  | replayToCanceled | invoiceAlreadyCanceled | invoiceAlreadySettled | amountTooLow
  | expiryTooSoon | canceled | invoiceNotOpen | mppTimeout | addressMismatch
  | setTotalMismatch | setTotalTooLow | invoiceNotFound | keySendError | mppInProgress
  | typeMismatch | ampError
  deriving DecidableEq, Repr

inductive SettleKind | settled | replayToSettled | duplicateToSettled
  deriving DecidableEq, Repr

inductive AcceptKind | replayToAccepted | duplicateToAccepted | accepted | partialAccepted
  deriving DecidableEq, Repr

/-- `HtlcResolution` (+ `err` = NotifyExitHopHtlc returned an error). The height carried by a
    settle resolution is the current height of the call; a fail resolution carries the accept
    height. -/
inductive Res
  | fail (r : FailReason) (acceptHeight : Int)
  | settle (k : SettleKind) (p : Nat) (height : Int)
  | accept (k : AcceptKind)
  | err
  deriving DecidableEq, Repr

/-- `InvoiceHTLC`.  `authOk` is a ghost field (not stored by lnd): the value of the
    payment-address test evaluated when the htlc was accepted. -/
structure Htlc where
  key : Nat
  amt : Nat
  mppTotal : Nat
  state : HState
  expiry : Nat
  acceptHeight : Int
  acceptTime : Nat
  authOk : Bool
  deriving DecidableEq, Repr

/-- `Invoice` (non-AMP). -/
structure Invoice where
  hash : Nat
  state : CState
  value : Nat
  payAddr : Nat
  preimage : Option Nat
  finalCltv : Int
  /-- feature bits: tlv, payment-addr optional / required, mpp optional, amp required -/
  tlv : Bool
  payAddrOpt : Bool
  payAddrReq : Bool
  mppOpt : Bool
  ampReq : Bool
  /-- Bolt11BlindedPathsRequired (not consulted by the settlement logic) -/
  blinded : Bool
  hodl : Bool
  htlcs : List Htlc
  amtPaid : Nat
  deriving DecidableEq, Repr

/-- `invoiceUpdateCtx`.  `mpp`: the MPP record (total, payment address).  `ks`: the keysend custom record (`none` absent, `some none` not 32
    bytes, `some (some p)` a 32-byte preimage).  `amp`: an AMP record is present. -/
structure Ctx where
  hash : Nat
  key : Nat
  amt : Nat
  expiry : Nat
  height : Int
  rejectDelta : Int
  mpp : Option (Nat × Nat)
  /-- blinded-path payload: `payload.PathID()` and `payload.TotalAmtMsat()` -/
  pathID : Option Nat
  total : Nat
  amp : Bool
  ks : Option (Option Nat)
  now : Nat
  deriving Repr

/-- `uint32(int32(height) + int32(delta))`: int32 addition wraps, the conversion to uint32
    reinterprets the bits; both together are reduction modulo 2^32. -/
def u32OfSum (height delta : Int) : Nat := ((height + delta) % 4294967296).toNat

/-- `ctx.expiry < uint32(ctx.currentHeight + delta)`. -/
def expiryTooSoon (expiry : Nat) (height delta : Int) : Bool :=
  decide (expiry < u32OfSum height delta)

/-- `isValidKeySend`. -/
def validKeysend (H : Nat → Nat) (ctx : Ctx) : Bool :=
  match ctx.ks with
  | some (some p) => decide (H p = ctx.hash)
  | _ => false

def findHtlc (inv : Invoice) (k : Nat) : Option Htlc := inv.htlcs.find? (fun h => h.key == k)

/-- `inv.HTLCSet(nil, HtlcStateAccepted)` on a non-AMP invoice. -/
def acceptedHtlcs (inv : Invoice) : List Htlc := inv.htlcs.filter (fun h => h.state == .accepted)

def sumAmt (l : List Htlc) : Nat := (l.map (·.amt)).sum

/-- `resolveReplayedHtlc`. -/
def replay (H : Nat → Nat) (ctx : Ctx) (inv : Invoice) : Option Res :=
  match findHtlc inv ctx.key with
  | none => none
  | some h =>
    match h.state with
    | .canceled => some (.fail .replayToCanceled ctx.height)
    | .accepted => some (.accept .replayToAccepted)
    | .settled =>
      match inv.preimage with
      | none => some .err
      | some p => if H p = ctx.hash then some (.settle .replayToSettled p ctx.height) else some .err

/-- `InvoiceUpdateDesc` as produced for a non-AMP invoice by updateMpp / updateLegacy:
    nothing, or `AddHTLCsUpdate` with one htlc and an optional new invoice state. -/
inductive Upd
  | none
  | add (h : Htlc) (newState : Option CState)
  deriving Repr

def mkHtlc (ctx : Ctx) (total : Nat) (auth : Bool) : Htlc :=
  { key := ctx.key, amt := ctx.amt, mppTotal := total, state := .accepted, expiry := ctx.expiry,
    acceptHeight := ctx.height, acceptTime := ctx.now, authOk := auth }

/-- `updateMpp` (payment address `addr` and set total `total` taken from the MPP record). -/
def updateMpp (ctx : Ctx) (total addr : Nat) (inv : Invoice) : Upd × Res :=
  if inv.ampReq && !ctx.amp then (.none, .fail .typeMismatch ctx.height)
  else if !inv.ampReq && ctx.amp then (.none, .fail .typeMismatch ctx.height)
  else if inv.state ≠ .open then (.none, .fail .invoiceNotOpen ctx.height)
  else if addr ≠ inv.payAddr then (.none, .fail .addressMismatch ctx.height)
  else if total = 0 then (.none, .fail .setTotalTooLow ctx.height)
  else if total < inv.value then (.none, .fail .setTotalTooLow ctx.height)
  else if (acceptedHtlcs inv).any (fun h => decide (h.mppTotal ≠ total)) then
    (.none, .fail .setTotalMismatch ctx.height)
  else if expiryTooSoon ctx.expiry ctx.height ctx.rejectDelta then
    (.none, .fail .expiryTooSoon ctx.height)
  else if expiryTooSoon ctx.expiry ctx.height inv.finalCltv then
    (.none, .fail .expiryTooSoon ctx.height)
  else
    let h := mkHtlc ctx total (decide (addr = inv.payAddr))
    if sumAmt (acceptedHtlcs inv) + ctx.amt < total then (.add h none, .accept .partialAccepted)
    else if inv.hodl then (.add h (some .accepted), .accept .accepted)
    else
      match inv.preimage with
      | none => (.none, .err)   -- nil dereference; excluded by ValidateInvoice
      | some p => (.add h (some .settled), .settle .settled p ctx.height)

/-- `updateLegacy`. -/
def updateLegacy (H : Nat → Nat) (ctx : Ctx) (inv : Invoice) : Upd × Res :=
  if inv.ampReq then (.none, .fail .typeMismatch ctx.height)
  else if inv.state = .canceled then (.none, .fail .invoiceAlreadyCanceled ctx.height)
  else if ctx.amt < inv.value then (.none, .fail .amountTooLow ctx.height)
  else if !validKeysend H ctx && inv.payAddrReq then (.none, .fail .addressMismatch ctx.height)
  else if (acceptedHtlcs inv).any (fun h => decide (h.mppTotal > 0)) then
    (.none, .fail .mppInProgress ctx.height)
  else if expiryTooSoon ctx.expiry ctx.height ctx.rejectDelta then
    (.none, .fail .expiryTooSoon ctx.height)
  else if expiryTooSoon ctx.expiry ctx.height inv.finalCltv then
    (.none, .fail .expiryTooSoon ctx.height)
  else
    let h := mkHtlc ctx 0 (validKeysend H ctx || !inv.payAddrReq)
    match inv.state with
    | .accepted => (.add h none, .accept .duplicateToAccepted)
    | .settled =>
      match inv.preimage with
      | none => (.none, .fail .typeMismatch ctx.height)
      | some p => (.add h none, .settle .duplicateToSettled p ctx.height)
    | _ =>
      if inv.hodl then (.add h (some .accepted), .accept .accepted)
      else
        match inv.preimage with
        | none => (.none, .fail .typeMismatch ctx.height)
        | some p => (.add h (some .settled), .settle .settled p ctx.height)

/-- set total and payment address that `updateMpp` works with: those of the MPP record if there
    is one, otherwise (blinded path) `totalAmtMsat` and the path ID; `none` = legacy path. -/
def effMpp (ctx : Ctx) : Option (Nat × Nat) :=
  match ctx.mpp with
  | some m => some m
  | none =>
    match ctx.pathID with
    | some a => some (ctx.total, a)
    | none => none

/-- `updateInvoice` dispatch. -/
def updateInvoice (H : Nat → Nat) (ctx : Ctx) (inv : Invoice) : Upd × Res :=
  if ctx.amp && ctx.mpp.isNone then (.none, .fail .ampError ctx.height)
  else
    match effMpp ctx with
    | none => updateLegacy H ctx inv
    | some (total, addr) => updateMpp ctx total addr inv

/-- `getUpdatedInvoiceState` for a non-AMP update (`SetID = nil`), new state ≠ open.
    `pre` is `update.Preimage`. `none` = error. -/
def updatedInvoiceState (H : Nat → Nat) (inv : Invoice) (ns : CState) (pre : Option Nat) :
    Option CState :=
  if ns = .open then none
  else
    match inv.state with
    | .settled => none
    | .canceled => none
    | st =>
      if st = .accepted ∧ ns = .accepted then none
      else if ns = .canceled then some .canceled
      else if (acceptedHtlcs inv).isEmpty then none
      else
        match pre with
        | some p => if H p = inv.hash then some ns else none
        | none =>
          if ns = .accepted then some ns
          else if inv.preimage.isNone then none else some ns

/-- the per-htlc loop of addHTLCs / settleHodlInvoice for invoice state settled
    (`getUpdatedHtlcState(htlc, ContractSettled, nil)`). -/
def settleAccepted (l : List Htlc) : List Htlc :=
  l.map (fun h => if h.state = .accepted then { h with state := .settled } else h)

/-- `getUpdatedHtlcState(htlc, ContractCanceled, _)` over all htlcs. -/
def cancelAll (l : List Htlc) : List Htlc :=
  l.map (fun h => if h.state = .canceled then h else { h with state := .canceled })

def liveHtlcs (l : List Htlc) : List Htlc :=
  l.filter (fun h => h.state == .accepted || h.state == .settled)

def hasSettled (l : List Htlc) : Bool := l.any (fun h => h.state == .settled)

/-- second half of `addHTLCs`: align htlc states with the invoice state and recompute
    `AmtPaid` from scratch.  `none` = `ErrHTLCAlreadySettled`. -/
def alignHtlcs (inv : Invoice) : Option Invoice :=
  match inv.state with
  | .settled =>
    let hs := settleAccepted inv.htlcs
    some { inv with htlcs := hs, amtPaid := sumAmt (liveHtlcs hs) }
  | .canceled =>
    if hasSettled inv.htlcs then none
    else some { inv with htlcs := cancelAll inv.htlcs, amtPaid := 0 }
  | .accepted =>
    if hasSettled inv.htlcs then none
    else some { inv with amtPaid := sumAmt (liveHtlcs inv.htlcs) }
  | .open =>
    if hasSettled inv.htlcs then none else some { inv with amtPaid := 0 }

/-- `addHTLCs` for a non-AMP invoice. `none` = error (transaction rolled back). -/
def applyAdd (H : Nat → Nat) (inv : Invoice) (h : Htlc) (ns : Option CState) : Option Invoice :=
  if (findHtlc inv h.key).isSome then none
  else
    let inv1 := { inv with htlcs := inv.htlcs ++ [h] }
    match ns with
    | none => alignHtlcs inv1
    | some s =>
      match updatedInvoiceState H inv1 s inv.preimage with
      | none => none
      | some s' => alignHtlcs { inv1 with state := s' }

/-- the database part of `notifyExitHopHtlcLocked` on the invoice found:
    replay check, update callback, apply. -/
def inotify (H : Nat → Nat) (ctx : Ctx) (inv : Invoice) : Invoice × Res :=
  match replay H ctx inv with
  | some r => (inv, r)
  | none =>
    match updateInvoice H ctx inv with
    | (.none, r) => (inv, r)
    | (.add h ns, r) =>
      match applyAdd H inv h ns with
      | none => (inv, .err)
      | some inv' => (inv', r)

def FailReason.isSetFailure : FailReason → Bool
  | .setTotalTooLow | .setTotalMismatch => true
  | _ => false

/-- a fail resolution reports the recorded accept height when the htlc is on the invoice. -/
def fixHeight (inv : Invoice) (key : Nat) : Res → Res
  | .fail r ah =>
    match findHtlc inv key with
    | some h => .fail r h.acceptHeight
    | none => .fail r ah
  | r => r

/-- resolutions handed to `notifyHodlSubscribers` after a notify. -/
def notifyMsgs (inv : Invoice) : Res → List (Nat × Res)
  | .fail r _ =>
    if r.isSetFailure then
      (inv.htlcs.filter (fun h => h.state == .canceled)).map
        (fun h => (h.key, Res.fail r h.acceptHeight))
    else []
  | .settle k p _ =>
    (inv.htlcs.filter (fun h => h.state == .settled)).map
      (fun h => (h.key, Res.settle k p h.acceptHeight))
  | _ => []

/-- results of SettleHodlInvoice / CancelInvoice. -/
inductive OpRes | ok | stillOpen | alreadyCanceled | alreadySettled | notFound | err
  deriving DecidableEq, Repr

/-- `SettleHodlInvoice(p)` on the invoice found by `H p`. -/
def isettle (H : Nat → Nat) (p : Nat) (inv : Invoice) : Invoice × OpRes × List (Nat × Res) :=
  match inv.state with
  | .open => (inv, .stillOpen, [])
  | .canceled => (inv, .alreadyCanceled, [])
  | .settled => (inv, .alreadySettled, [])
  | .accepted =>
    if !inv.hodl then (inv, .err, [])
    else
      match updatedInvoiceState H inv .settled (some p) with
      | some .settled =>
        let hs := settleAccepted inv.htlcs
        let inv' := { inv with state := .settled, preimage := some p, htlcs := hs,
                               amtPaid := sumAmt (acceptedHtlcs inv) }
        (inv', .ok,
          (hs.filter (fun h => h.state == .settled)).map
            (fun h => (h.key, Res.settle .settled p h.acceptHeight)))
      | _ => (inv, .err, [])

/-- `CancelInvoice` (`cancelInvoiceImpl(.., cancelAccepted = true)`). -/
def icancel (inv : Invoice) : Invoice × OpRes × List (Nat × Res) :=
  match inv.state with
  | .settled => (inv, .alreadySettled, [])
  | .canceled => (inv, .ok, [])
  | _ =>
    if hasSettled inv.htlcs then (inv, .err, [])
    else
      let hs := cancelAll inv.htlcs
      ({ inv with state := .canceled, htlcs := hs }, .ok,
        hs.map (fun h => (h.key, Res.fail .canceled h.acceptHeight)))

/-- htlc is due for auto-release (`cancelSingleHtlc` from the hold timer). -/
def due (hold now : Nat) (h : Htlc) : Bool :=
  h.state == .accepted && decide (h.acceptTime + hold ≤ now)

/-- all hold timers that are due at `now` fire: `cancelSingleHtlc(ref, key, ResultMppTimeout)`
    cancels an accepted htlc of an open invoice, nothing else. -/
def itimeout (hold now : Nat) (inv : Invoice) : Invoice × List (Nat × Res) :=
  if inv.state ≠ .open then (inv, [])
  else
    ({ inv with htlcs := (inv.htlcs.map
          (fun h => if due hold now h then { h with state := .canceled } else h)) },
     (inv.htlcs.filter (due hold now)).map (fun h => (h.key, Res.fail .mppTimeout h.acceptHeight)))

/-! ### registry -/

structure Cfg where
  rejectDelta : Int
  acceptKeysend : Bool
  ksHold : Bool
  hold : Nat
  /-- native SQL store (`getInvoiceByRef`) instead of the kv store (`fetchInvoiceNumByRef`) -/
  sql : Bool
  deriving Repr

structure Reg where
  invs : List Invoice
  /-- circuit keys with a hodl subscription -/
  subs : List Nat
  now : Nat
  deriving Repr

def findHash (invs : List Invoice) (h : Nat) : Option Invoice := invs.find? (fun i => i.hash == h)

def findAddr (invs : List Invoice) (a : Nat) : Option Invoice :=
  if a = 0 then none else invs.find? (fun i => i.payAddr == a)

/-- invoice lookup by `ctx.invoiceRef()`: by hash (legacy, or AMP record without MPP record), by
    payment address only (AMP + MPP records), or by hash and payment address (MPP). -/
def lookup (cfg : Cfg) (invs : List Invoice) (hash : Nat) (mpp : Option (Nat × Nat)) (amp : Bool) :
    Option Invoice :=
  match mpp with
  | none => findHash invs hash
  | some (_, a) =>
    if amp then findAddr invs a
    else if cfg.sql then
      match findHash invs hash with
      | none => none
      | some i => if a ≠ 0 ∧ i.payAddr ≠ a then none else some i
    else
      match findAddr invs a, findHash invs hash with
      | some x, some y => if x.hash = y.hash then some x else none
      | some _, none => none
      | none, y => y

/-- the address part of `ctx.invoiceRef()`: the path ID has priority over the MPP record. -/
def refAddr (ctx : Ctx) : Option (Nat × Nat) :=
  match ctx.pathID with
  | some a => some (0, a)
  | none => ctx.mpp

def setInv (invs : List Invoice) (inv : Invoice) : List Invoice :=
  invs.map (fun i => if i.hash = inv.hash then inv else i)

/-- `notifyHodlSubscribers` for a list of resolutions: delivered iff subscribed; delivery
    removes the subscription. -/
def deliver (subs : List Nat) (msgs : List (Nat × Res)) : List Nat × List (Nat × Res) :=
  (subs.filter (fun k => !(msgs.any (fun m => m.1 == k))), msgs.filter (fun m => subs.contains m.1))

structure InvSpec where
  hash : Nat
  value : Nat
  payAddr : Nat
  preimage : Option Nat
  finalCltv : Int
  tlv : Bool
  payAddrOpt : Bool
  payAddrReq : Bool
  mppOpt : Bool
  ampReq : Bool
  blinded : Bool
  hodl : Bool
  deriving Repr

def InvSpec.toInvoice (s : InvSpec) : Invoice :=
  { hash := s.hash, state := .open, value := s.value, payAddr := s.payAddr, preimage := s.preimage,
    finalCltv := s.finalCltv, tlv := s.tlv, payAddrOpt := s.payAddrOpt, payAddrReq := s.payAddrReq,
    mppOpt := s.mppOpt, ampReq := s.ampReq, blinded := s.blinded, hodl := s.hodl, htlcs := [],
    amtPaid := 0 }

/-- `AddInvoice`: duplicate payment hash / duplicate (non-blank) payment address are refused. -/
def addInvoice (reg : Reg) (s : InvSpec) : Option Reg :=
  if (findHash reg.invs s.hash).isSome then none
  else if (findAddr reg.invs s.payAddr).isSome then none
  else some { reg with invs := reg.invs ++ [s.toInvoice] }

/-- `processKeySend`: `none` = error (→ ResultKeySendError). -/
def processKeySend (H : Nat → Nat) (cfg : Cfg) (reg : Reg) (ctx : Ctx) : Option Reg :=
  match ctx.ks with
  | none => some reg
  | some none => none
  | some (some p) =>
    if H p ≠ ctx.hash then none
    else if ctx.mpp.isSome then none
    else if expiryTooSoon ctx.expiry ctx.height cfg.rejectDelta then none
    else
      match addInvoice reg
        { hash := ctx.hash, value := ctx.amt, payAddr := 0, preimage := some p,
          finalCltv := cfg.rejectDelta, tlv := true, payAddrOpt := false, payAddrReq := false,
          mppOpt := false, ampReq := false, blinded := false, hodl := cfg.ksHold } with
      | some reg' => some reg'
      | none => some reg     -- ErrDuplicateInvoice is ignored

inductive Reply
  | res (r : Res)
  | op (o : OpRes)
  | unit
  deriving DecidableEq, Repr

structure Out where
  reply : Reply
  msgs : List (Nat × Res)
  deriving Repr

/-- `NotifyExitHopHtlc` (AcceptAMP off or no AMP record ⇒ the keysend branch is considered). -/
def notify (H : Nat → Nat) (cfg : Cfg) (reg : Reg) (ctx : Ctx) : Reg × Out :=
  let pre : Option Reg :=
    if cfg.acceptKeysend && !ctx.amp then processKeySend H cfg reg ctx else some reg
  match pre with
  | none => (reg, ⟨.res (.fail .keySendError ctx.height), []⟩)
  | some reg =>
    match lookup cfg reg.invs ctx.hash (refAddr ctx) (ctx.amp && ctx.pathID.isNone) with
    | none => (reg, ⟨.res (.fail .invoiceNotFound ctx.height), []⟩)
    | some inv =>
      let (inv', r) := inotify H ctx inv
      let r := fixHeight inv' ctx.key r
      let (subs, delivered) := deliver reg.subs (notifyMsgs inv' r)
      let subs :=
        match r with
        | .accept _ => if subs.contains ctx.key then subs else subs ++ [ctx.key]
        | _ => subs
      ({ reg with invs := setInv reg.invs inv', subs := subs }, ⟨.res r, delivered⟩)

def settleHodl (H : Nat → Nat) (reg : Reg) (p : Nat) : Reg × Out :=
  match findHash reg.invs (H p) with
  | none => (reg, ⟨.op .notFound, []⟩)
  | some inv =>
    let (inv', o, msgs) := isettle H p inv
    let (subs, delivered) := deliver reg.subs msgs
    ({ reg with invs := setInv reg.invs inv', subs := subs }, ⟨.op o, delivered⟩)

def cancel (reg : Reg) (hash : Nat) : Reg × Out :=
  match findHash reg.invs hash with
  | none => (reg, ⟨.op .notFound, []⟩)
  | some inv =>
    let (inv', o, msgs) := icancel inv
    let (subs, delivered) := deliver reg.subs msgs
    ({ reg with invs := setInv reg.invs inv', subs := subs }, ⟨.op o, delivered⟩)

/-- the clock advances by `dt` seconds; every due hold timer fires. -/
def tick (cfg : Cfg) (reg : Reg) (dt : Nat) : Reg × Out :=
  let now := reg.now + dt
  let rs := reg.invs.map (itimeout cfg.hold now)
  let msgs := (rs.map (·.2)).flatten
  let (subs, delivered) := deliver reg.subs msgs
  ({ invs := rs.map (·.1), subs := subs, now := now }, ⟨.unit, delivered⟩)

inductive Event
  | addInvoice (s : InvSpec)
  | notify (ctx : Ctx)
  | settle (p : Nat)
  | cancel (hash : Nat)
  | tick (dt : Nat)
  deriving Repr

/-- the harness supplies `now` and `rejectDelta` of the ctx from the registry. -/
def step (H : Nat → Nat) (cfg : Cfg) (reg : Reg) : Event → Reg × Out
  | .addInvoice s =>
    match addInvoice reg s with
    | some reg' => (reg', ⟨.op .ok, []⟩)
    | none => (reg, ⟨.op .err, []⟩)
  | .notify ctx => notify H cfg reg { ctx with now := reg.now, rejectDelta := cfg.rejectDelta }
  | .settle p => settleHodl H reg p
  | .cancel h => cancel reg h
  | .tick dt => tick cfg reg dt

def run (H : Nat → Nat) (cfg : Cfg) (reg : Reg) : List Event → Reg
  | [] => reg
  | e :: es => run H cfg (step H cfg reg e).1 es

def Reg.empty : Reg := { invs := [], subs := [], now := 0 }

end LndModel.C15
