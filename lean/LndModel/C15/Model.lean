/-
C15 — model of lnd's invoice settlement logic:
  invoices/update.go          (resolveReplayedHtlc, updateInvoice, updateMpp incl. AMP /
                               reconstructAMPPreimages, updateLegacy, isValidKeySend)
  invoices/update_invoice.go  (UpdateInvoice appliers: addHTLCs incl. AmtPaid recomputation,
                               cancelHTLCs, settleHodlInvoice, cancelInvoice,
                               getUpdatedInvoiceState, getUpdatedHtlcState, canCancelSingleHtlc)
  invoices/invoiceregistry.go (NotifyExitHopHtlc incl. processKeySend / processAMP, SettleHodlInvoice,
                               CancelInvoice, cancelSingleHtlc = htlc set timeout, hodl subscriptions)
  channeldb/invoices.go, invoices/sql_store.go (fetchInvoiceNumByRef / getInvoiceByRef only)

Hand-written; tied to the code on every run by the behavioural correspondence
check (harness/overlay/invoices/zz_c15_verif_test.go → drv_c15) which replays
every harness operation on these definitions (with `H` = real SHA-256) and
compares the returned resolution, the hodl-channel messages and the canonical
`LookupInvoice` dump of every invoice after every event, for the kv store and
for the native SQL store.

Hashes, preimages and payment addresses are 32-byte strings read as big-endian
naturals; the blank payment address is `0`.  `H : Nat → Nat` is the hash
function (a parameter: theorems hold for every `H`).  Amounts are unbounded
naturals (lnd: uint64 msat; sums of htlc amounts stay far below 2^64).  The
expiry guards are modelled with their exact int32 → uint32 conversion.

Outside the model (documented in checks/C15.notes.md): hold AMP invoices, a circuit key reused
under two set ids, the external htlc interceptor, invoice expiry (time / height based cancellation = `cancel`).
-/
namespace LndModel.C15

inductive CState | open | accepted | settled | canceled
  deriving DecidableEq, Repr, Inhabited

inductive HState | accepted | canceled | settled
  deriving DecidableEq, Repr, Inhabited

/-- `FailResolutionResult` values that occur (the external-interceptor ones are not modelled). -/
inductive FailReason
  | replayToCanceled | invoiceAlreadyCanceled | invoiceAlreadySettled | amountTooLow
  | expiryTooSoon | canceled | invoiceNotOpen | mppTimeout | addressMismatch
  | setTotalMismatch | setTotalTooLow | invoiceNotFound | keySendError | mppInProgress
  | typeMismatch | ampError | ampReconstruction
  deriving DecidableEq, Repr

inductive SettleKind | settled | replayToSettled | duplicateToSettled
  deriving DecidableEq, Repr

inductive AcceptKind | replayToAccepted | duplicateToAccepted | accepted | partialAccepted
  deriving DecidableEq, Repr

/-- `HtlcResolution` (+ `err` = NotifyExitHopHtlc returned an error). The height carried by a
    settle resolution is the current height of the call; a fail resolution carries the accept
    height. -/
inductive Res
  | fail (r : FailReason) (acceptHeight : Int)
  | settle (k : SettleKind) (p : Nat) (height : Int)
  | accept (k : AcceptKind)
  | err
  deriving DecidableEq, Repr

/-- `models.CircuitKey{ChanID, HtlcID}` as one natural: the short channel id in the high part,
    the uint64 htlc id (a per-channel counter) in the low 64 bits.  Every `key : Nat` of this
    model is such an encoding of the FULL circuit key (the driver builds it from both components
    of the trace); the encoding is injective for htlc ids `< 2^64` (`ckey_inj`, Props.lean), so
    two htlcs that share only the htlc id (different channels) or only the channel are different
    keys, as in `Invoice.Htlcs map[CircuitKey]*InvoiceHTLC`. -/
def ckey (chan htlc : Nat) : Nat := chan * 18446744073709551616 + htlc

def ckeyChan (k : Nat) : Nat := k / 18446744073709551616

def ckeyHtlc (k : Nat) : Nat := k % 18446744073709551616

/-- the answers of the AMP notify path that go with a new htlc record (`AddHTLCsUpdate`). -/
def Res.addsHtlc : Res → Bool
  | .accept .partialAccepted => true
  | .settle .settled _ _ => true
  | _ => false

/-- `InvoiceHTLC`.  `authOk` is a ghost field (not stored by lnd): the value of the
    payment-address test evaluated when the htlc was accepted. -/
structure Htlc where
  key : Nat
  amt : Nat
  mppTotal : Nat
  state : HState
  expiry : Nat
  acceptHeight : Int
  acceptTime : Nat
  authOk : Bool
  deriving DecidableEq, Repr

/-- `Invoice` (non-AMP). -/
structure Invoice where
  hash : Nat
  state : CState
  value : Nat
  payAddr : Nat
  preimage : Option Nat
  finalCltv : Int
  /-- feature bits: tlv, payment-addr optional / required, mpp optional, amp required -/
  tlv : Bool
  payAddrOpt : Bool
  payAddrReq : Bool
  mppOpt : Bool
  ampReq : Bool
  /-- Bolt11BlindedPathsRequired (not consulted by the settlement logic) -/
  blinded : Bool
  hodl : Bool
  htlcs : List Htlc
  amtPaid : Nat
  deriving DecidableEq, Repr

/-- `invoiceUpdateCtx`.  `mpp`: the MPP record (total, payment address).  `ks`: the keysend custom record (`none` absent, `some none` not 32
    bytes, `some (some p)` a 32-byte preimage).  `amp`: an AMP record is present. -/
structure Ctx where
  hash : Nat
  key : Nat
  amt : Nat
  expiry : Nat
  height : Int
  rejectDelta : Int
  mpp : Option (Nat × Nat)
  /-- blinded-path payload: `payload.PathID()` and `payload.TotalAmtMsat()` -/
  pathID : Option Nat
  total : Nat
  amp : Bool
  /-- the AMP record (meaningful iff `amp`): set id, root share, child index -/
  setID : Nat
  share : Nat
  index : Nat
  ks : Option (Option Nat)
  now : Nat
  deriving Repr

/-- `uint32(int32(height) + int32(delta))`: int32 addition wraps, the conversion to uint32
    reinterprets the bits; both together are reduction modulo 2^32. -/
def u32OfSum (height delta : Int) : Nat := ((height + delta) % 4294967296).toNat

/-- `ctx.expiry < uint32(ctx.currentHeight + delta)`. -/
def expiryTooSoon (expiry : Nat) (height delta : Int) : Bool :=
  decide (expiry < u32OfSum height delta)

/-- `isValidKeySend`. -/
def validKeysend (H : Nat → Nat) (ctx : Ctx) : Bool :=
  match ctx.ks with
  | some (some p) => decide (H p = ctx.hash)
  | _ => false

def findHtlc (inv : Invoice) (k : Nat) : Option Htlc := inv.htlcs.find? (fun h => h.key == k)

/-- `inv.HTLCSet(nil, HtlcStateAccepted)` on a non-AMP invoice. -/
def acceptedHtlcs (inv : Invoice) : List Htlc := inv.htlcs.filter (fun h => h.state == .accepted)

def sumAmt (l : List Htlc) : Nat := (l.map (·.amt)).sum

/-- `resolveReplayedHtlc`. -/
def replay (H : Nat → Nat) (ctx : Ctx) (inv : Invoice) : Option Res :=
  match findHtlc inv ctx.key with
  | none => none
  | some h =>
    match h.state with
    | .canceled => some (.fail .replayToCanceled ctx.height)
    | .accepted => some (.accept .replayToAccepted)
    | .settled =>
      match inv.preimage with
      | none => some .err
      | some p => if H p = ctx.hash then some (.settle .replayToSettled p ctx.height) else some .err

/-- `InvoiceUpdateDesc` as produced for a non-AMP invoice by updateMpp / updateLegacy:
    nothing, or `AddHTLCsUpdate` with one htlc and an optional new invoice state. -/
inductive Upd
  | none
  | add (h : Htlc) (newState : Option CState)
  deriving Repr

def mkHtlc (ctx : Ctx) (total : Nat) (auth : Bool) : Htlc :=
  { key := ctx.key, amt := ctx.amt, mppTotal := total, state := .accepted, expiry := ctx.expiry,
    acceptHeight := ctx.height, acceptTime := ctx.now, authOk := auth }

/-- `updateMpp` (payment address `addr` and set total `total` taken from the MPP record). -/
def updateMpp (ctx : Ctx) (total addr : Nat) (inv : Invoice) : Upd × Res :=
  if inv.ampReq && !ctx.amp then (.none, .fail .typeMismatch ctx.height)
  else if !inv.ampReq && ctx.amp then (.none, .fail .typeMismatch ctx.height)
  else if inv.state ≠ .open then (.none, .fail .invoiceNotOpen ctx.height)
  else if addr ≠ inv.payAddr then (.none, .fail .addressMismatch ctx.height)
  else if total = 0 then (.none, .fail .setTotalTooLow ctx.height)
  else if total < inv.value then (.none, .fail .setTotalTooLow ctx.height)
  else if (acceptedHtlcs inv).any (fun h => decide (h.mppTotal ≠ total)) then
    (.none, .fail .setTotalMismatch ctx.height)
  else if expiryTooSoon ctx.expiry ctx.height ctx.rejectDelta then
    (.none, .fail .expiryTooSoon ctx.height)
  else if expiryTooSoon ctx.expiry ctx.height inv.finalCltv then
    (.none, .fail .expiryTooSoon ctx.height)
  else
    let h := mkHtlc ctx total (decide (addr = inv.payAddr))
    if sumAmt (acceptedHtlcs inv) + ctx.amt < total then (.add h none, .accept .partialAccepted)
    else if inv.hodl then (.add h (some .accepted), .accept .accepted)
    else
      match inv.preimage with
      | none => (.none, .err)   -- nil dereference; excluded by ValidateInvoice
      | some p => (.add h (some .settled), .settle .settled p ctx.height)

/-- `updateLegacy`. -/
def updateLegacy (H : Nat → Nat) (ctx : Ctx) (inv : Invoice) : Upd × Res :=
  if inv.ampReq then (.none, .fail .typeMismatch ctx.height)
  else if inv.state = .canceled then (.none, .fail .invoiceAlreadyCanceled ctx.height)
  else if ctx.amt < inv.value then (.none, .fail .amountTooLow ctx.height)
  else if !validKeysend H ctx && inv.payAddrReq then (.none, .fail .addressMismatch ctx.height)
  else if (acceptedHtlcs inv).any (fun h => decide (h.mppTotal > 0)) then
    (.none, .fail .mppInProgress ctx.height)
  else if expiryTooSoon ctx.expiry ctx.height ctx.rejectDelta then
    (.none, .fail .expiryTooSoon ctx.height)
  else if expiryTooSoon ctx.expiry ctx.height inv.finalCltv then
    (.none, .fail .expiryTooSoon ctx.height)
  else
    let h := mkHtlc ctx 0 (validKeysend H ctx || !inv.payAddrReq)
    match inv.state with
    | .accepted => (.add h none, .accept .duplicateToAccepted)
    | .settled =>
      match inv.preimage with
      | none => (.none, .fail .typeMismatch ctx.height)
      | some p => (.add h none, .settle .duplicateToSettled p ctx.height)
    | _ =>
      if inv.hodl then (.add h (some .accepted), .accept .accepted)
      else
        match inv.preimage with
        | none => (.none, .fail .typeMismatch ctx.height)
        | some p => (.add h (some .settled), .settle .settled p ctx.height)

/-- set total and payment address that `updateMpp` works with: those of the MPP record if there
    is one, otherwise (blinded path) `totalAmtMsat` and the path ID; `none` = legacy path. -/
def effMpp (ctx : Ctx) : Option (Nat × Nat) :=
  match ctx.mpp with
  | some m => some m
  | none =>
    match ctx.pathID with
    | some a => some (ctx.total, a)
    | none => none

/-- `updateInvoice` dispatch. -/
def updateInvoice (H : Nat → Nat) (ctx : Ctx) (inv : Invoice) : Upd × Res :=
  if ctx.amp && ctx.mpp.isNone then (.none, .fail .ampError ctx.height)
  else
    match effMpp ctx with
    | none => updateLegacy H ctx inv
    | some (total, addr) => updateMpp ctx total addr inv

/-- `getUpdatedInvoiceState` for a non-AMP update (`SetID = nil`), new state ≠ open.
    `pre` is `update.Preimage`. `none` = error. -/
def updatedInvoiceState (H : Nat → Nat) (inv : Invoice) (ns : CState) (pre : Option Nat) :
    Option CState :=
  if ns = .open then none
  else
    match inv.state with
    | .settled => none
    | .canceled => none
    | st =>
      if st = .accepted ∧ ns = .accepted then none
      else if ns = .canceled then some .canceled
      else if (acceptedHtlcs inv).isEmpty then none
      else
        match pre with
        | some p => if H p = inv.hash then some ns else none
        | none =>
          if ns = .accepted then some ns
          else if inv.preimage.isNone then none else some ns

/-- the per-htlc loop of addHTLCs / settleHodlInvoice for invoice state settled
    (`getUpdatedHtlcState(htlc, ContractSettled, nil)`). -/
def settleAccepted (l : List Htlc) : List Htlc :=
  l.map (fun h => if h.state = .accepted then { h with state := .settled } else h)

/-- `getUpdatedHtlcState(htlc, ContractCanceled, _)` over all htlcs. -/
def cancelAll (l : List Htlc) : List Htlc :=
  l.map (fun h => if h.state = .canceled then h else { h with state := .canceled })

def liveHtlcs (l : List Htlc) : List Htlc :=
  l.filter (fun h => h.state == .accepted || h.state == .settled)

def hasSettled (l : List Htlc) : Bool := l.any (fun h => h.state == .settled)

/-- second half of `addHTLCs`: align htlc states with the invoice state and recompute
    `AmtPaid` from scratch.  `none` = `ErrHTLCAlreadySettled`. -/
def alignHtlcs (inv : Invoice) : Option Invoice :=
  match inv.state with
  | .settled =>
    let hs := settleAccepted inv.htlcs
    some { inv with htlcs := hs, amtPaid := sumAmt (liveHtlcs hs) }
  | .canceled =>
    if hasSettled inv.htlcs then none
    else some { inv with htlcs := cancelAll inv.htlcs, amtPaid := 0 }
  | .accepted =>
    if hasSettled inv.htlcs then none
    else some { inv with amtPaid := sumAmt (liveHtlcs inv.htlcs) }
  | .open =>
    if hasSettled inv.htlcs then none else some { inv with amtPaid := 0 }

/-- `addHTLCs` for a non-AMP invoice. `none` = error (transaction rolled back). -/
def applyAdd (H : Nat → Nat) (inv : Invoice) (h : Htlc) (ns : Option CState) : Option Invoice :=
  if (findHtlc inv h.key).isSome then none
  else
    let inv1 := { inv with htlcs := inv.htlcs ++ [h] }
    match ns with
    | none => alignHtlcs inv1
    | some s =>
      match updatedInvoiceState H inv1 s inv.preimage with
      | none => none
      | some s' => alignHtlcs { inv1 with state := s' }

/-- the database part of `notifyExitHopHtlcLocked` on the invoice found:
    replay check, update callback, apply. -/
def inotify (H : Nat → Nat) (ctx : Ctx) (inv : Invoice) : Invoice × Res :=
  match replay H ctx inv with
  | some r => (inv, r)
  | none =>
    match updateInvoice H ctx inv with
    | (.none, r) => (inv, r)
    | (.add h ns, r) =>
      match applyAdd H inv h ns with
      | none => (inv, .err)
      | some inv' => (inv', r)

def FailReason.isSetFailure : FailReason → Bool
  | .setTotalTooLow | .setTotalMismatch | .ampReconstruction => true
  | _ => false

/-- a fail resolution reports the recorded accept height when the htlc is on the invoice. -/
def fixHeight (inv : Invoice) (key : Nat) : Res → Res
  | .fail r ah =>
    match findHtlc inv key with
    | some h => .fail r h.acceptHeight
    | none => .fail r ah
  | r => r

/-- resolutions handed to `notifyHodlSubscribers` after a notify. -/
def notifyMsgs (inv : Invoice) : Res → List (Nat × Res)
  | .fail r _ =>
    if r.isSetFailure then
      (inv.htlcs.filter (fun h => h.state == .canceled)).map
        (fun h => (h.key, Res.fail r h.acceptHeight))
    else []
  | .settle k p _ =>
    (inv.htlcs.filter (fun h => h.state == .settled)).map
      (fun h => (h.key, Res.settle k p h.acceptHeight))
  | _ => []

/-- results of SettleHodlInvoice / CancelInvoice. -/
inductive OpRes | ok | stillOpen | alreadyCanceled | alreadySettled | notFound | err
  deriving DecidableEq, Repr

/-- `SettleHodlInvoice(p)` on the invoice found by `H p`. -/
def isettle (H : Nat → Nat) (p : Nat) (inv : Invoice) : Invoice × OpRes × List (Nat × Res) :=
  match inv.state with
  | .open => (inv, .stillOpen, [])
  | .canceled => (inv, .alreadyCanceled, [])
  | .settled => (inv, .alreadySettled, [])
  | .accepted =>
    if !inv.hodl then (inv, .err, [])
    else
      match updatedInvoiceState H inv .settled (some p) with
      | some .settled =>
        let hs := settleAccepted inv.htlcs
        let inv' := { inv with state := .settled, preimage := some p, htlcs := hs,
                               amtPaid := sumAmt (acceptedHtlcs inv) }
        (inv', .ok,
          (hs.filter (fun h => h.state == .settled)).map
            (fun h => (h.key, Res.settle .settled p h.acceptHeight)))
      | _ => (inv, .err, [])

/-- `CancelInvoice` (`cancelInvoiceImpl(.., cancelAccepted = true)`). -/
def icancel (inv : Invoice) : Invoice × OpRes × List (Nat × Res) :=
  match inv.state with
  | .settled => (inv, .alreadySettled, [])
  | .canceled => (inv, .ok, [])
  | _ =>
    if hasSettled inv.htlcs then (inv, .err, [])
    else
      let hs := cancelAll inv.htlcs
      ({ inv with state := .canceled, htlcs := hs }, .ok,
        hs.map (fun h => (h.key, Res.fail .canceled h.acceptHeight)))

/-- htlc is due for auto-release (`cancelSingleHtlc` from the hold timer). -/
def due (hold now : Nat) (h : Htlc) : Bool :=
  h.state == .accepted && decide (h.acceptTime + hold ≤ now)

/-- all hold timers that are due at `now` fire: `cancelSingleHtlc(ref, key, ResultMppTimeout)`
    cancels an accepted htlc of an open invoice, nothing else. -/
def itimeout (hold now : Nat) (inv : Invoice) : Invoice × List (Nat × Res) :=
  if inv.state ≠ .open then (inv, [])
  else
    ({ inv with htlcs := (inv.htlcs.map
          (fun h => if due hold now h then { h with state := .canceled } else h)) },
     (inv.htlcs.filter (due hold now)).map (fun h => (h.key, Res.fail .mppTimeout h.acceptHeight)))

/-! ### AMP invoices

An AMP invoice stays `open` (or becomes `canceled`); its htlcs are grouped into sets by set id,
every update for an AMP htlc sees only the htlcs of that set (`UpdateInvoice(ref, setID)` fetches
the sub-invoice).  `P descs share index` is the child preimage derived from the root seed that the
shares of `descs` reconstruct (`amp.ReconstructChildren`: root = xor of all shares, preimage =
SHA256(root ‖ share ‖ index)); it is a parameter like `H`, the child hash is `H` of it.
Hold AMP invoices are not modelled (lnd: "not supported"). -/

/-- `InvoiceHTLC` with `InvoiceHtlcAMPData`. -/
structure AHtlc where
  base : Htlc
  setID : Nat
  hash : Nat
  share : Nat
  index : Nat
  pre : Option Nat
  deriving DecidableEq, Repr

/-- `InvoiceStateAMP` (state and amount of one set id). -/
structure AmpSet where
  id : Nat
  state : HState
  amtPaid : Nat
  deriving DecidableEq, Repr

structure AmpInv where
  hash : Nat
  state : CState
  value : Nat
  payAddr : Nat
  finalCltv : Int
  tlv : Bool
  payAddrOpt : Bool
  payAddrReq : Bool
  mppOpt : Bool
  blinded : Bool
  htlcs : List AHtlc
  sets : List AmpSet
  amtPaid : Nat
  deriving DecidableEq, Repr

/-- `getUpdatedInvoiceAmpState(.., HtlcStateAccepted, amt)`: the entry is created in state
    accepted if missing; an existing entry keeps its state. -/
def setAccept (sets : List AmpSet) (id amt : Nat) : List AmpSet :=
  if sets.any (fun s => s.id == id) then
    sets.map (fun s => if s.id = id then { s with amtPaid := s.amtPaid + amt } else s)
  else sets ++ [⟨id, .accepted, amt⟩]

/-- `getUpdatedInvoiceAmpState(.., HtlcStateCanceled, amt)`. -/
def setCancel (sets : List AmpSet) (id amt : Nat) : List AmpSet :=
  sets.map (fun s => if s.id = id then { s with state := .canceled, amtPaid := s.amtPaid - amt } else s)

/-- `getUpdatedInvoiceAmpState(.., HtlcStateSettled, 0)`. -/
def setSettle (sets : List AmpSet) (id : Nat) : List AmpSet :=
  sets.map (fun s => if s.id = id then { s with state := .settled } else s)

def AHtlc.withState (h : AHtlc) (st : HState) : AHtlc := { h with base := { h.base with state := st } }

/-- `cancelHtlcsAmp` bookkeeping for a list of htlcs that are being canceled. -/
def cancelBook (sets : List AmpSet) (paid : Nat) (hs : List AHtlc) : List AmpSet × Nat :=
  hs.foldl (fun (acc : List AmpSet × Nat) h =>
    (setCancel acc.1 h.setID h.base.amt, if acc.2 ≠ 0 then acc.2 - h.base.amt else acc.2)) (sets, paid)

/-- cancel every accepted htlc that satisfies `pred` (htlc state, set state/amount, AmtPaid). -/
def cancelWhere (inv : AmpInv) (pred : AHtlc → Bool) : AmpInv :=
  let tgt := inv.htlcs.filter (fun h => h.base.state == .accepted && pred h)
  let b := cancelBook inv.sets inv.amtPaid tgt
  let hs := inv.htlcs.map (fun h =>
    if h.base.state == .accepted && pred h then h.withState .canceled else h)
  { inv with htlcs := hs, sets := b.1, amtPaid := b.2 }

/-- the htlcs an update with this ctx sees: those of the set id if there is an AMP record. -/
def aview (ctx : Ctx) (inv : AmpInv) : List AHtlc :=
  if ctx.amp then inv.htlcs.filter (fun h => h.setID == ctx.setID) else inv.htlcs

/-- `resolveReplayedHtlc` on an AMP invoice. -/
def areplay (H : Nat → Nat) (ctx : Ctx) (view : List AHtlc) : Option Res :=
  match view.find? (fun h => h.base.key == ctx.key) with
  | none => none
  | some h =>
    match h.base.state with
    | .canceled => some (.fail .replayToCanceled h.base.acceptHeight)
    | .accepted => some (.accept .replayToAccepted)
    | .settled =>
      match h.pre with
      | none => some .err
      | some p =>
        if h.hash ≠ ctx.hash ∨ H p ≠ h.hash then some .err
        else some (.settle .replayToSettled p ctx.height)

/-- resolutions for the canceled htlcs of the view after a set failure. -/
def afailMsgs (view : List AHtlc) (r : FailReason) : List (Nat × Res) :=
  (view.filter (fun h => h.base.state == .canceled)).map
    (fun h => (h.base.key, Res.fail r h.base.acceptHeight))

/-- resolutions for the settled htlcs of the view after a settle: each with its own preimage. -/
def asettleMsgs (view : List AHtlc) (k : SettleKind) (p : Nat) : List (Nat × Res) :=
  (view.filter (fun h => h.base.state == .settled)).map
    (fun h => (h.base.key, Res.settle k (h.pre.getD p) h.base.acceptHeight))

def mkAHtlc (ctx : Ctx) (total : Nat) (auth : Bool) : AHtlc :=
  { base := mkHtlc ctx total auth, setID := ctx.setID, hash := ctx.hash, share := ctx.share,
    index := ctx.index, pre := none }

/-- `reconstructAMPPreimages`: the child descriptors of the new htlc and of the accepted set. -/
def adescs (ctx : Ctx) (acc : List AHtlc) : List (Nat × Nat) :=
  (ctx.share, ctx.index) :: acc.map (fun h => (h.share, h.index))

/-- the htlc records of an AMP invoice that are still stored after an `AddHTLCsUpdate` for the set
    id of `ctx`.  Native SQL store (`drop = false`): all of them.  kv store (`drop = true`): the
    htlcs of a set id live in one blob per set id, and `kvInvoiceUpdater.UpdateAmpState` starts the
    rewritten blob according to the set's recorded state — accepted (or new): the set's accepted
    htlcs; canceled: its accepted and canceled htlcs; settled: nothing — and then adds the htlcs the
    update touches (the new one and those it settles).  So when a set id whose set is recorded as
    settled is paid again, the earlier settled (and canceled) htlcs of that set id are no longer
    stored (finding F-c15-kv-amp-setid-reuse; the model reproduces it). -/
def akeep (drop : Bool) (ctx : Ctx) (inv : AmpInv) : List AHtlc :=
  if drop then
    let st := (inv.sets.find? (fun s => s.id == ctx.setID)).map (·.state)
    inv.htlcs.filter (fun h => !(h.setID == ctx.setID) || h.base.state == .accepted ||
      (st == some .canceled && h.base.state == .canceled))
  else inv.htlcs

/-- the database part of NotifyExitHopHtlc on an AMP invoice (replay check, updateMpp with AMP
    record incl. reconstruction, addHTLCs / cancelInvoice), with the resolutions to fan out.
    `drop`: kv store, see `akeep`. -/
def anotify (H : Nat → Nat) (P : List (Nat × Nat) → Nat → Nat → Nat) (drop : Bool) (ctx : Ctx)
    (inv : AmpInv) : AmpInv × Res × List (Nat × Res) :=
  let view := aview ctx inv
  match areplay H ctx view with
  | some r =>
    match r with
    | .settle k p _ => (inv, r, if ctx.amp then asettleMsgs view k p else [])
    | _ => (inv, r, [])
  | none =>
    if ctx.amp && ctx.mpp.isNone then (inv, .fail .ampError ctx.height, [])
    else
      match effMpp ctx with
      | none => (inv, .fail .typeMismatch ctx.height, [])
      | some (total, addr) =>
        if !ctx.amp then (inv, .fail .typeMismatch ctx.height, [])
        else if inv.state ≠ .open then (inv, .fail .invoiceNotOpen ctx.height, [])
        else if addr ≠ inv.payAddr then (inv, .fail .addressMismatch ctx.height, [])
        else if total = 0 ∨ total < inv.value then
          (inv, .fail .setTotalTooLow ctx.height, afailMsgs view .setTotalTooLow)
        else
          let acc := view.filter (fun h => h.base.state == .accepted)
          if acc.any (fun h => decide (h.base.mppTotal ≠ total)) then
            (inv, .fail .setTotalMismatch ctx.height, afailMsgs view .setTotalMismatch)
          else if expiryTooSoon ctx.expiry ctx.height ctx.rejectDelta then
            (inv, .fail .expiryTooSoon ctx.height, [])
          else if expiryTooSoon ctx.expiry ctx.height inv.finalCltv then
            (inv, .fail .expiryTooSoon ctx.height, [])
          else if ctx.setID = 0 then (inv, .fail .ampError ctx.height, [])
          else if inv.htlcs.any (fun h => h.base.key == ctx.key) then
            -- the circuit key is recorded under another set id: not modelled (never generated)
            (inv, .err, [])
          else
            let h := mkAHtlc ctx total (decide (addr = inv.payAddr))
            if sumAmt (acc.map (·.base)) + ctx.amt < total then
              -- addHTLCs without state change aligns every htlc of the fetched set with the open
              -- invoice: a settled one is `ErrHTLCAlreadySettled` (transaction rolled back)
              if view.any (fun g => g.base.state == .settled) then (inv, .err, [])
              else
              ({ inv with htlcs := akeep drop ctx inv ++ [h],
                          sets := setAccept inv.sets ctx.setID ctx.amt,
                          amtPaid := inv.amtPaid + ctx.amt }, .accept .partialAccepted, [])
            else
              let descs := adescs ctx acc
              let ok := decide (H (P descs ctx.share ctx.index) = ctx.hash) &&
                acc.all (fun g => decide (H (P descs g.share g.index) = g.hash))
              if !ok then
                -- CancelInvoiceUpdate with the set id: the invoice and the htlcs of the view
                if view.any (fun g => g.base.state == .settled) then (inv, .err, [])
                else
                  let inv' := cancelWhere inv (fun g => g.setID == ctx.setID)
                  let inv' := { inv' with state := .canceled }
                  (inv', .fail .ampReconstruction ctx.height,
                    afailMsgs (aview ctx inv') .ampReconstruction)
              else
                let settleOne := fun (g : AHtlc) =>
                  if g.setID == ctx.setID && g.base.state == .accepted then
                    { g.withState .settled with pre := some (P descs g.share g.index) }
                  else g
                let inv' : AmpInv :=
                  { inv with htlcs := ((akeep drop ctx inv ++ [h]).map settleOne),
                             sets := setSettle (setAccept inv.sets ctx.setID ctx.amt) ctx.setID,
                             amtPaid := inv.amtPaid + ctx.amt }
                let p := P descs ctx.share ctx.index
                (inv', .settle .settled p ctx.height, asettleMsgs (aview ctx inv') .settled p)

/-- `CancelInvoice` on an AMP invoice (all sets are fetched). -/
def acancel (inv : AmpInv) : AmpInv × OpRes × List (Nat × Res) :=
  match inv.state with
  | .canceled => (inv, .ok, [])
  | .open =>
    if inv.htlcs.any (fun h => h.base.state == .settled) then (inv, .err, [])
    else
      let inv' := { cancelWhere inv (fun _ => true) with state := .canceled }
      (inv', .ok, inv'.htlcs.map (fun h => (h.base.key, Res.fail .canceled h.base.acceptHeight)))
  | _ => (inv, .err, [])

/-- hold timers of an AMP invoice (`cancelSingleHtlc` with the set-id ref). -/
def atimeout (hold now : Nat) (inv : AmpInv) : AmpInv × List (Nat × Res) :=
  if inv.state ≠ .open then (inv, [])
  else
    (cancelWhere inv (fun h => due hold now h.base),
     (inv.htlcs.filter (fun h => due hold now h.base)).map
       (fun h => (h.base.key, Res.fail .mppTimeout h.base.acceptHeight)))

/-! ### registry -/

structure Cfg where
  rejectDelta : Int
  acceptKeysend : Bool
  acceptAMP : Bool
  ksHold : Bool
  hold : Nat
  /-- native SQL store (`getInvoiceByRef`) instead of the kv store (`fetchInvoiceNumByRef`) -/
  sql : Bool
  deriving Repr

structure Reg where
  invs : List Invoice
  amps : List AmpInv
  /-- circuit keys with a hodl subscription -/
  subs : List Nat
  now : Nat
  deriving Repr

def findHash (invs : List Invoice) (h : Nat) : Option Invoice := invs.find? (fun i => i.hash == h)

def findAmp (amps : List AmpInv) (h : Nat) : Option AmpInv := amps.find? (fun i => i.hash == h)

/-- (payment hash, payment address) of every invoice: the hash index and the address index. -/
def Reg.keys (reg : Reg) : List (Nat × Nat) :=
  reg.invs.map (fun i => (i.hash, i.payAddr)) ++ reg.amps.map (fun i => (i.hash, i.payAddr))

def kHash (ks : List (Nat × Nat)) (h : Nat) : Option (Nat × Nat) := ks.find? (fun k => k.1 == h)

/-- the blank payment address is not indexed. -/
def kAddr (ks : List (Nat × Nat)) (a : Nat) : Option (Nat × Nat) :=
  if a = 0 then none else ks.find? (fun k => k.2 == a)

/-- invoice lookup by `ctx.invoiceRef()`: by hash (legacy, or AMP record without MPP record), by
    payment address only (AMP + MPP records), or by hash and payment address (MPP / blinded).
    Returns the payment hash of the invoice found. -/
def lookup (cfg : Cfg) (ks : List (Nat × Nat)) (hash : Nat) (mpp : Option (Nat × Nat)) (amp : Bool) :
    Option Nat :=
  match mpp with
  | none => (kHash ks hash).map (·.1)
  | some (_, a) =>
    if amp then (kAddr ks a).map (·.1)
    else if cfg.sql then
      match kHash ks hash with
      | none => none
      | some i => if a ≠ 0 ∧ i.2 ≠ a then none else some i.1
    else
      match kAddr ks a, kHash ks hash with
      | some x, some y => if x.1 = y.1 then some x.1 else none
      | some _, none => none
      | none, y => y.map (·.1)

/-- the address part of `ctx.invoiceRef()`: the path ID has priority over the MPP record. -/
def refAddr (ctx : Ctx) : Option (Nat × Nat) :=
  match ctx.pathID with
  | some a => some (0, a)
  | none => ctx.mpp

def setInv (invs : List Invoice) (inv : Invoice) : List Invoice :=
  invs.map (fun i => if i.hash = inv.hash then inv else i)

def setAmp (amps : List AmpInv) (inv : AmpInv) : List AmpInv :=
  amps.map (fun i => if i.hash = inv.hash then inv else i)

/-- `notifyHodlSubscribers` for a list of resolutions: delivered iff subscribed; delivery
    removes the subscription. -/
def deliver (subs : List Nat) (msgs : List (Nat × Res)) : List Nat × List (Nat × Res) :=
  (subs.filter (fun k => !(msgs.any (fun m => m.1 == k))), msgs.filter (fun m => subs.contains m.1))

structure InvSpec where
  hash : Nat
  value : Nat
  payAddr : Nat
  preimage : Option Nat
  finalCltv : Int
  tlv : Bool
  payAddrOpt : Bool
  payAddrReq : Bool
  mppOpt : Bool
  ampReq : Bool
  blinded : Bool
  hodl : Bool
  deriving Repr

def InvSpec.toInvoice (s : InvSpec) : Invoice :=
  { hash := s.hash, state := .open, value := s.value, payAddr := s.payAddr, preimage := s.preimage,
    finalCltv := s.finalCltv, tlv := s.tlv, payAddrOpt := s.payAddrOpt, payAddrReq := s.payAddrReq,
    mppOpt := s.mppOpt, ampReq := s.ampReq, blinded := s.blinded, hodl := s.hodl, htlcs := [],
    amtPaid := 0 }

/-- an AMP invoice (`ampReq`); preimage and hold flag are not represented (see above). -/
def InvSpec.toAmp (s : InvSpec) : AmpInv :=
  { hash := s.hash, state := .open, value := s.value, payAddr := s.payAddr,
    finalCltv := s.finalCltv, tlv := s.tlv, payAddrOpt := s.payAddrOpt, payAddrReq := s.payAddrReq,
    mppOpt := s.mppOpt, blinded := s.blinded, htlcs := [], sets := [], amtPaid := 0 }

/-- `AddInvoice`: duplicate payment hash / duplicate (non-blank) payment address are refused. -/
def addInvoice (reg : Reg) (s : InvSpec) : Option Reg :=
  if (kHash reg.keys s.hash).isSome then none
  else if (kAddr reg.keys s.payAddr).isSome then none
  else if s.ampReq then some { reg with amps := reg.amps ++ [s.toAmp] }
  else some { reg with invs := reg.invs ++ [s.toInvoice] }

/-- `processKeySend`: `none` = error (→ ResultKeySendError). -/
def processKeySend (H : Nat → Nat) (cfg : Cfg) (reg : Reg) (ctx : Ctx) : Option Reg :=
  match ctx.ks with
  | none => some reg
  | some none => none
  | some (some p) =>
    if H p ≠ ctx.hash then none
    else if ctx.mpp.isSome then none
    else if expiryTooSoon ctx.expiry ctx.height cfg.rejectDelta then none
    else
      match addInvoice reg
        { hash := ctx.hash, value := ctx.amt, payAddr := 0, preimage := some p,
          finalCltv := cfg.rejectDelta, tlv := true, payAddrOpt := false, payAddrReq := false,
          mppOpt := false, ampReq := false, blinded := false, hodl := cfg.ksHold } with
      | some reg' => some reg'
      | none => some reg     -- ErrDuplicateInvoice is ignored

/-- `processAMP`: just-in-time AMP invoice for the payment address of the MPP record;
    `none` = error (→ ResultAmpError). -/
def processAMP (cfg : Cfg) (reg : Reg) (ctx : Ctx) : Option Reg :=
  match ctx.mpp with
  | none => none
  | some (total, addr) =>
    if expiryTooSoon ctx.expiry ctx.height cfg.rejectDelta then none
    else
      match addInvoice reg
        { hash := ctx.hash, value := total, payAddr := addr, preimage := none,
          finalCltv := cfg.rejectDelta, tlv := true, payAddrOpt := true, payAddrReq := false,
          mppOpt := false, ampReq := true, blinded := false, hodl := false } with
      | some reg' => some reg'
      | none => some reg     -- ErrDuplicateInvoice / ErrDuplicatePayAddr are ignored

inductive Reply
  | res (r : Res)
  | op (o : OpRes)
  | unit
  deriving DecidableEq, Repr

structure Out where
  reply : Reply
  msgs : List (Nat × Res)
  deriving Repr

/-- spontaneous-payment pre-processing of `NotifyExitHopHtlc` (runs before the registry lock);
    the error is the fail reason. -/
def preprocess (H : Nat → Nat) (cfg : Cfg) (reg : Reg) (ctx : Ctx) : Except FailReason Reg :=
  if cfg.acceptAMP && ctx.amp then
    match processAMP cfg reg ctx with
    | some r => .ok r
    | none => .error .ampError
  else if cfg.acceptKeysend && !ctx.amp then
    match processKeySend H cfg reg ctx with
    | some r => .ok r
    | none => .error .keySendError
  else .ok reg

def subscribe (subs : List Nat) (key : Nat) (r : Res) : List Nat :=
  match r with
  | .accept _ => if subs.contains key then subs else subs ++ [key]
  | _ => subs

/-- `NotifyExitHopHtlc`. -/
def notify (H : Nat → Nat) (P : List (Nat × Nat) → Nat → Nat → Nat) (cfg : Cfg) (reg : Reg)
    (ctx : Ctx) : Reg × Out :=
  match preprocess H cfg reg ctx with
  | .error e => (reg, ⟨.res (.fail e ctx.height), []⟩)
  | .ok reg =>
    match lookup cfg reg.keys ctx.hash (refAddr ctx) (ctx.amp && ctx.pathID.isNone) with
    | none => (reg, ⟨.res (.fail .invoiceNotFound ctx.height), []⟩)
    | some h =>
      match findHash reg.invs h with
      | some inv =>
        let (inv', r) := inotify H ctx inv
        let r := fixHeight inv' ctx.key r
        let (subs, delivered) := deliver reg.subs (notifyMsgs inv' r)
        ({ reg with invs := setInv reg.invs inv', subs := subscribe subs ctx.key r },
          ⟨.res r, delivered⟩)
      | none =>
        match findAmp reg.amps h with
        | none => (reg, ⟨.res (.fail .invoiceNotFound ctx.height), []⟩)
        | some a =>
          let (a', r, msgs) := anotify H P false ctx a
          -- the set-id index is global: adding an htlc under a set id that another invoice
          -- already uses fails with ErrDuplicateSetID (→ ResultInvoiceNotFound, rolled back)
          if r.addsHtlc ∧
              reg.amps.any (fun b => b.hash != a.hash && b.sets.any (fun x => x.id == ctx.setID)) then
            (reg, ⟨.res (.fail .invoiceNotFound ctx.height), []⟩)
          else
          let (subs, delivered) := deliver reg.subs msgs
          ({ reg with amps := setAmp reg.amps a', subs := subscribe subs ctx.key r },
            ⟨.res r, delivered⟩)

def settleHodl (H : Nat → Nat) (reg : Reg) (p : Nat) : Reg × Out :=
  match findHash reg.invs (H p) with
  | some inv =>
    let (inv', o, msgs) := isettle H p inv
    let (subs, delivered) := deliver reg.subs msgs
    ({ reg with invs := setInv reg.invs inv', subs := subs }, ⟨.op o, delivered⟩)
  | none =>
    match findAmp reg.amps (H p) with
    | none => (reg, ⟨.op .notFound, []⟩)
    | some a =>
      -- an AMP invoice is never in state accepted
      (reg, ⟨.op (if a.state = .canceled then .alreadyCanceled else .stillOpen), []⟩)

def cancel (reg : Reg) (hash : Nat) : Reg × Out :=
  match findHash reg.invs hash with
  | some inv =>
    let (inv', o, msgs) := icancel inv
    let (subs, delivered) := deliver reg.subs msgs
    ({ reg with invs := setInv reg.invs inv', subs := subs }, ⟨.op o, delivered⟩)
  | none =>
    match findAmp reg.amps hash with
    | none => (reg, ⟨.op .notFound, []⟩)
    | some a =>
      let (a', o, msgs) := acancel a
      let (subs, delivered) := deliver reg.subs msgs
      ({ reg with amps := setAmp reg.amps a', subs := subs }, ⟨.op o, delivered⟩)

/-- the clock advances by `dt` seconds; every due hold timer fires. -/
def tick (cfg : Cfg) (reg : Reg) (dt : Nat) : Reg × Out :=
  let now := reg.now + dt
  let rs := reg.invs.map (itimeout cfg.hold now)
  let as := reg.amps.map (atimeout cfg.hold now)
  let msgs := (rs.map (·.2)).flatten ++ (as.map (·.2)).flatten
  let (subs, delivered) := deliver reg.subs msgs
  ({ invs := rs.map (·.1), amps := as.map (·.1), subs := subs, now := now }, ⟨.unit, delivered⟩)

inductive Event
  | addInvoice (s : InvSpec)
  | notify (ctx : Ctx)
  | settle (p : Nat)
  | cancel (hash : Nat)
  | tick (dt : Nat)
  deriving Repr

/-- the harness supplies `now` and `rejectDelta` of the ctx from the registry. -/
def step (H : Nat → Nat) (P : List (Nat × Nat) → Nat → Nat → Nat) (cfg : Cfg) (reg : Reg) :
    Event → Reg × Out
  | .addInvoice s =>
    match addInvoice reg s with
    | some reg' => (reg', ⟨.op .ok, []⟩)
    | none => (reg, ⟨.op .err, []⟩)
  | .notify ctx => notify H P cfg reg { ctx with now := reg.now, rejectDelta := cfg.rejectDelta }
  | .settle p => settleHodl H reg p
  | .cancel h => cancel reg h
  | .tick dt => tick cfg reg dt

def run (H : Nat → Nat) (P : List (Nat × Nat) → Nat → Nat → Nat) (cfg : Cfg) (reg : Reg) :
    List Event → Reg
  | [] => reg
  | e :: es => run H P cfg (step H P cfg reg e).1 es

def Reg.empty : Reg := { invs := [], amps := [], subs := [], now := 0 }

end LndModel.C15
