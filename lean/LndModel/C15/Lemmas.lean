/-
C15 — helper lemmas: the inductive invariant `Good` of a (non-AMP) invoice and its
preservation by every invoice-level operation of the model.
-/
import LndModel.C15.Model

set_option linter.unusedSimpArgs false

namespace LndModel.C15

/-! ### sums written as sums of mapped lists -/

/-- amount of `h` if it is a non-canceled htlc of an MPP set (declared total > 0), else 0. -/
def mppPart (h : Htlc) : Nat := if h.state ≠ .canceled ∧ 0 < h.mppTotal then h.amt else 0

/-- total paid by the non-canceled MPP htlcs. -/
def mppSum (l : List Htlc) : Nat := (l.map mppPart).sum

def settledPart (h : Htlc) : Nat := if h.state = .settled then h.amt else 0
def settledSum (l : List Htlc) : Nat := (l.map settledPart).sum

theorem sumAmt_filter (P : Htlc → Bool) (l : List Htlc) :
    sumAmt (l.filter P) = (l.map (fun h => if P h then h.amt else 0)).sum := by
  induction l with
  | nil => simp [sumAmt]
  | cons a t ih =>
    simp only [sumAmt] at ih
    by_cases hp : P a = true
    · simp [hp, sumAmt, ih]
    · simp [hp, sumAmt, ih]

theorem sum_map_congr {α : Type} (l : List α) (f g : α → Nat) (h : ∀ x ∈ l, f x = g x) :
    (l.map f).sum = (l.map g).sum := by
  induction l with
  | nil => rfl
  | cons a t ih =>
    simp only [List.map_cons, List.sum_cons]
    rw [h a (by simp), ih (fun x hx => h x (by simp [hx]))]

theorem sum_map_le {α : Type} (l : List α) (f g : α → Nat) (h : ∀ x ∈ l, f x ≤ g x) :
    (l.map f).sum ≤ (l.map g).sum := by
  induction l with
  | nil => simp
  | cons a t ih =>
    simp only [List.map_cons, List.sum_cons]
    have := h a (by simp)
    have := ih (fun x hx => h x (by simp [hx]))
    omega

/-! ### what an `AddHTLCsUpdate` produced by updateMpp / updateLegacy implies -/

theorem updateMpp_add {ctx : Ctx} {total addr : Nat} {inv : Invoice} {h : Htlc} {ns : Option CState} {r : Res}
    (hu : updateMpp ctx total addr inv = (.add h ns, r)) :
    ctx.amp = inv.ampReq ∧ inv.state = .open ∧ addr = inv.payAddr ∧ 0 < total ∧ inv.value ≤ total ∧
    (∀ g ∈ acceptedHtlcs inv, g.mppTotal = total) ∧
    expiryTooSoon ctx.expiry ctx.height ctx.rejectDelta = false ∧
    expiryTooSoon ctx.expiry ctx.height inv.finalCltv = false ∧
    h = mkHtlc ctx total (decide (addr = inv.payAddr)) ∧
    ((ns = none ∧ r = .accept .partialAccepted ∧ sumAmt (acceptedHtlcs inv) + ctx.amt < total) ∨
     (ns = some .accepted ∧ r = .accept .accepted ∧ total ≤ sumAmt (acceptedHtlcs inv) + ctx.amt) ∨
     (∃ p, ns = some .settled ∧ r = .settle .settled p ctx.height ∧ inv.preimage = some p ∧
        total ≤ sumAmt (acceptedHtlcs inv) + ctx.amt)) := by
  by_cases c1 : (inv.ampReq && !ctx.amp) = true
  · simp [updateMpp, c1] at hu
  by_cases c2 : (!inv.ampReq && ctx.amp) = true
  · simp [updateMpp, c1, c2] at hu
  by_cases c3 : inv.state ≠ .open
  · simp [updateMpp, c1, c2, c3] at hu
  by_cases c4 : addr ≠ inv.payAddr
  · simp [updateMpp, c1, c2, c3, c4] at hu
  by_cases c5 : total = 0
  · simp [updateMpp, c1, c2, c3, c4, c5] at hu
  by_cases c6 : total < inv.value
  · simp [updateMpp, c1, c2, c3, c4, c5, c6] at hu
  by_cases c7 : ∃ x, x ∈ acceptedHtlcs inv ∧ ¬x.mppTotal = total
  · simp [updateMpp, c1, c2, c3, c4, c5, c6, c7] at hu
  by_cases c8 : expiryTooSoon ctx.expiry ctx.height ctx.rejectDelta = true
  · simp [updateMpp, c1, c2, c3, c4, c5, c6, c7, c8] at hu
  by_cases c9 : expiryTooSoon ctx.expiry ctx.height inv.finalCltv = true
  · simp [updateMpp, c1, c2, c3, c4, c5, c6, c7, c8, c9] at hu
  simp [updateMpp, c1, c2, c3, c4, c5, c6, c7, c8, c9] at hu
  have hamp : ctx.amp = inv.ampReq := by
    cases ha : inv.ampReq <;> cases hb : ctx.amp <;> simp_all
  have h3 : inv.state = .open := by simpa using c3
  have h4 : addr = inv.payAddr := by simpa using c4
  have h7 : ∀ g ∈ acceptedHtlcs inv, g.mppTotal = total := by
    intro g hg; exact Classical.byContradiction (fun hne => c7 ⟨g, hg, hne⟩)
  refine ⟨hamp, h3, h4, by omega, by omega, h7, by simpa using c8, by simpa using c9, ?_⟩
  by_cases d1 : sumAmt (acceptedHtlcs inv) + ctx.amt < total
  · simp [d1] at hu
    obtain ⟨⟨e1, e2⟩, e3⟩ := hu
    exact ⟨e1.symm, Or.inl ⟨e2.symm, e3.symm, d1⟩⟩
  · simp [d1] at hu
    by_cases d2 : inv.hodl = true
    · simp [d2] at hu
      obtain ⟨⟨e1, e2⟩, e3⟩ := hu
      exact ⟨e1.symm, Or.inr (Or.inl ⟨e2.symm, e3.symm, by omega⟩)⟩
    · simp [d2] at hu
      cases hp : inv.preimage with
      | none => simp [hp] at hu
      | some p =>
        simp [hp] at hu
        obtain ⟨⟨e1, e2⟩, e3⟩ := hu
        exact ⟨e1.symm, Or.inr (Or.inr ⟨p, e2.symm, e3.symm, rfl, by omega⟩)⟩

theorem updateLegacy_add {H : Nat → Nat} {ctx : Ctx} {inv : Invoice} {h : Htlc} {ns : Option CState} {r : Res}
    (hu : updateLegacy H ctx inv = (.add h ns, r)) :
    inv.ampReq = false ∧ inv.state ≠ .canceled ∧ inv.value ≤ ctx.amt ∧
    (validKeysend H ctx = true ∨ inv.payAddrReq = false) ∧
    (∀ g ∈ acceptedHtlcs inv, g.mppTotal = 0) ∧
    expiryTooSoon ctx.expiry ctx.height ctx.rejectDelta = false ∧
    expiryTooSoon ctx.expiry ctx.height inv.finalCltv = false ∧
    h = mkHtlc ctx 0 (validKeysend H ctx || !inv.payAddrReq) ∧
    ((inv.state = .accepted ∧ ns = none ∧ r = .accept .duplicateToAccepted) ∨
     (∃ p, inv.state = .settled ∧ ns = none ∧ r = .settle .duplicateToSettled p ctx.height ∧ inv.preimage = some p) ∨
     (inv.state = .open ∧ ns = some .accepted ∧ r = .accept .accepted) ∨
     (∃ p, inv.state = .open ∧ ns = some .settled ∧ r = .settle .settled p ctx.height ∧ inv.preimage = some p)) := by
  by_cases c1 : inv.ampReq = true
  · simp [updateLegacy, c1] at hu
  by_cases c2 : inv.state = .canceled
  · simp [updateLegacy, c1, c2] at hu
  by_cases c3 : ctx.amt < inv.value
  · simp [updateLegacy, c1, c2, c3] at hu
  by_cases c4 : (!validKeysend H ctx && inv.payAddrReq) = true
  · simp [updateLegacy, c1, c2, c3, c4] at hu
  by_cases c5 : ∃ x, x ∈ acceptedHtlcs inv ∧ 0 < x.mppTotal
  · simp [updateLegacy, c1, c2, c3, c4, c5] at hu
  by_cases c8 : expiryTooSoon ctx.expiry ctx.height ctx.rejectDelta = true
  · simp [updateLegacy, c1, c2, c3, c4, c5, c8] at hu
  by_cases c9 : expiryTooSoon ctx.expiry ctx.height inv.finalCltv = true
  · simp [updateLegacy, c1, c2, c3, c4, c5, c8, c9] at hu
  simp [updateLegacy, c1, c2, c3, c4, c5, c8, c9] at hu
  have h4 : validKeysend H ctx = true ∨ inv.payAddrReq = false := by
    cases ha : validKeysend H ctx <;> cases hb : inv.payAddrReq <;> simp_all
  have h5 : ∀ g ∈ acceptedHtlcs inv, g.mppTotal = 0 := by
    intro g hg; exact Classical.byContradiction (fun hne => c5 ⟨g, hg, by omega⟩)
  refine ⟨by simpa using c1, c2, by omega, h4, h5, by simpa using c8, by simpa using c9, ?_⟩
  cases hs : inv.state with
  | canceled => exact absurd hs c2
  | accepted =>
    simp [hs] at hu
    obtain ⟨⟨e1, e2⟩, e3⟩ := hu
    exact ⟨e1.symm, Or.inl ⟨rfl, e2.symm, e3.symm⟩⟩
  | settled =>
    simp [hs] at hu
    cases hp : inv.preimage with
    | none => simp [hp] at hu
    | some p =>
      simp [hp] at hu
      obtain ⟨⟨e1, e2⟩, e3⟩ := hu
      exact ⟨e1.symm, Or.inr (Or.inl ⟨p, rfl, e2.symm, e3.symm, rfl⟩)⟩
  | «open» =>
    simp [hs] at hu
    by_cases d2 : inv.hodl = true
    · simp [d2] at hu
      obtain ⟨⟨e1, e2⟩, e3⟩ := hu
      exact ⟨e1.symm, Or.inr (Or.inr (Or.inl ⟨rfl, e2.symm, e3.symm⟩))⟩
    · simp [d2] at hu
      cases hp : inv.preimage with
      | none => simp [hp] at hu
      | some p =>
        simp [hp] at hu
        obtain ⟨⟨e1, e2⟩, e3⟩ := hu
        exact ⟨e1.symm, Or.inr (Or.inr (Or.inr ⟨p, rfl, e2.symm, e3.symm, rfl⟩))⟩

/-! ### the invariant -/

/-- facts about recorded (immutable) htlc terms: each htlc passed its accept-time checks. -/
structure StaticL (R : Int) (value : Nat) (cltv : Int) (l : List Htlc) : Prop where
  nodup : (l.map (·.key)).Nodup
  legacyAmt : ∀ h ∈ l, h.mppTotal = 0 → value ≤ h.amt
  totalGe : ∀ h ∈ l, 0 < h.mppTotal → value ≤ h.mppTotal
  auth : ∀ h ∈ l, h.authOk = true
  margin : ∀ h ∈ l, expiryTooSoon h.expiry h.acceptHeight R = false ∧
      expiryTooSoon h.expiry h.acceptHeight cltv = false

/-- `f` changes nothing but the state of an htlc. -/
def StateOnly (f : Htlc → Htlc) : Prop := ∀ h, f h = { h with state := (f h).state }

theorem StateOnly.key {f} (hf : StateOnly f) (h : Htlc) : (f h).key = h.key := by rw [hf h]
theorem StateOnly.amt {f} (hf : StateOnly f) (h : Htlc) : (f h).amt = h.amt := by rw [hf h]
theorem StateOnly.mppTotal {f} (hf : StateOnly f) (h : Htlc) : (f h).mppTotal = h.mppTotal := by rw [hf h]
theorem StateOnly.expiry {f} (hf : StateOnly f) (h : Htlc) : (f h).expiry = h.expiry := by rw [hf h]
theorem StateOnly.acceptHeight {f} (hf : StateOnly f) (h : Htlc) : (f h).acceptHeight = h.acceptHeight := by rw [hf h]
theorem StateOnly.authOk {f} (hf : StateOnly f) (h : Htlc) : (f h).authOk = h.authOk := by rw [hf h]

theorem StaticL.map {R value cltv l} (hs : StaticL R value cltv l) {f : Htlc → Htlc} (hf : StateOnly f) :
    StaticL R value cltv (l.map f) := by
  refine ⟨?_, ?_, ?_, ?_, ?_⟩
  · have : (l.map f).map (·.key) = l.map (·.key) := by
      rw [List.map_map]; apply List.map_congr_left; intro a _; exact hf.key a
    rw [this]; exact hs.nodup
  · intro h hh; obtain ⟨g, hg, rfl⟩ := List.mem_map.mp hh
    rw [hf.mppTotal, hf.amt]; exact hs.legacyAmt g hg
  · intro h hh; obtain ⟨g, hg, rfl⟩ := List.mem_map.mp hh
    rw [hf.mppTotal]; exact hs.totalGe g hg
  · intro h hh; obtain ⟨g, hg, rfl⟩ := List.mem_map.mp hh
    rw [hf.authOk]; exact hs.auth g hg
  · intro h hh; obtain ⟨g, hg, rfl⟩ := List.mem_map.mp hh
    rw [hf.expiry, hf.acceptHeight]; exact hs.margin g hg

theorem StaticL.append {R value cltv l} (hs : StaticL R value cltv l) (h : Htlc)
    (hk : ∀ g ∈ l, g.key ≠ h.key)
    (h1 : h.mppTotal = 0 → value ≤ h.amt) (h2 : 0 < h.mppTotal → value ≤ h.mppTotal)
    (h3 : h.authOk = true)
    (h4 : expiryTooSoon h.expiry h.acceptHeight R = false ∧ expiryTooSoon h.expiry h.acceptHeight cltv = false) :
    StaticL R value cltv (l ++ [h]) := by
  refine ⟨?_, ?_, ?_, ?_, ?_⟩
  · rw [List.map_append, List.nodup_append]
    refine ⟨hs.nodup, by simp, ?_⟩
    intro a ha b hb
    obtain ⟨g, hg, rfl⟩ := List.mem_map.mp ha
    simp at hb; subst hb; exact hk g hg
  all_goals
    intro g hg
    rcases List.mem_append.mp hg with hg | hg
    · first | exact hs.legacyAmt g hg | exact hs.totalGe g hg | exact hs.auth g hg | exact hs.margin g hg
    · simp at hg; subst hg; assumption

theorem stateOnly_settle : StateOnly (fun h => if h.state = .accepted then { h with state := .settled } else h) := by
  intro h; by_cases c : h.state = .accepted <;> simp [c]

theorem stateOnly_cancel : StateOnly (fun h => if h.state = .canceled then h else { h with state := .canceled }) := by
  intro h; by_cases c : h.state = .canceled
  · simp only [c, if_true]; cases h; simp_all
  · simp [c]

theorem stateOnly_due (hold now : Nat) :
    StateOnly (fun h => if due hold now h then { h with state := .canceled } else h) := by
  intro h; by_cases c : due hold now h = true <;> simp [c]

/-- the non-canceled MPP htlcs pay at least the total they declare. -/
def Complete (l : List Htlc) : Prop :=
  ∀ h ∈ l, h.state ≠ .canceled → 0 < h.mppTotal → h.mppTotal ≤ mppSum l

def SameTotal (l : List Htlc) : Prop :=
  ∀ h ∈ l, ∀ g ∈ l, h.state ≠ .canceled → g.state ≠ .canceled → 0 < h.mppTotal → 0 < g.mppTotal →
    h.mppTotal = g.mppTotal

/-- inductive invariant of a non-AMP invoice. -/
structure Good (H : Nat → Nat) (R : Int) (inv : Invoice) : Prop where
  noAmp : inv.ampReq = false
  static : StaticL R inv.value inv.finalCltv inv.htlcs
  sameTotal : SameTotal inv.htlcs
  openS : inv.state = .open → (∀ h ∈ inv.htlcs, h.state ≠ .settled) ∧
    (∀ h ∈ inv.htlcs, h.state = .accepted → 0 < h.mppTotal) ∧ inv.amtPaid = 0
  acceptedS : inv.state = .accepted → (∀ h ∈ inv.htlcs, h.state ≠ .settled) ∧ Complete inv.htlcs
  settledS : inv.state = .settled → (∃ p, inv.preimage = some p ∧ H p = inv.hash) ∧
    (∀ h ∈ inv.htlcs, h.state ≠ .accepted) ∧ inv.amtPaid = settledSum inv.htlcs ∧ Complete inv.htlcs
  canceledS : inv.state = .canceled → ∀ h ∈ inv.htlcs, h.state = .canceled

/-- `f` may cancel htlcs, nothing else. -/
def Shrink (f : Htlc → Htlc) : Prop :=
  StateOnly f ∧ ∀ h, (f h).state ≠ .canceled → (f h).state = h.state

theorem SameTotal.map_shrink {l} (hs : SameTotal l) {f} (hf : Shrink f) : SameTotal (l.map f) := by
  intro h hh g hg h1 g1 h2 g2
  obtain ⟨a, ha, rfl⟩ := List.mem_map.mp hh
  obtain ⟨b, hb, rfl⟩ := List.mem_map.mp hg
  rw [hf.1.mppTotal] at h2 g2 ⊢
  rw [hf.1.mppTotal]
  have ea := hf.2 a h1
  have eb := hf.2 b g1
  exact hs a ha b hb (by rw [← ea]; exact h1) (by rw [← eb]; exact g1) h2 g2

/-- `f` keeps canceled / non-canceled. -/
def LivePres (f : Htlc → Htlc) : Prop :=
  StateOnly f ∧ ∀ h, ((f h).state = .canceled ↔ h.state = .canceled)

theorem mppPart_livePres {f} (hf : LivePres f) (h : Htlc) : mppPart (f h) = mppPart h := by
  unfold mppPart
  rw [hf.1.mppTotal, hf.1.amt]
  have := hf.2 h
  by_cases c : h.state = .canceled
  · simp [c, this.mpr c]
  · have c' : (f h).state ≠ .canceled := fun x => c (this.mp x)
    simp [c, c']

theorem mppSum_livePres {f} (hf : LivePres f) (l : List Htlc) : mppSum (l.map f) = mppSum l := by
  unfold mppSum
  rw [List.map_map]
  apply sum_map_congr
  intro x _
  exact mppPart_livePres hf x

theorem SameTotal.map_live {l} (hs : SameTotal l) {f} (hf : LivePres f) : SameTotal (l.map f) := by
  intro h hh g hg h1 g1 h2 g2
  obtain ⟨a, ha, rfl⟩ := List.mem_map.mp hh
  obtain ⟨b, hb, rfl⟩ := List.mem_map.mp hg
  rw [hf.1.mppTotal] at h2 g2 ⊢
  rw [hf.1.mppTotal]
  exact hs a ha b hb (fun x => h1 ((hf.2 a).mpr x)) (fun x => g1 ((hf.2 b).mpr x)) h2 g2

theorem Complete.map_live {l} (hs : Complete l) {f} (hf : LivePres f) : Complete (l.map f) := by
  intro h hh h1 h2
  obtain ⟨a, ha, rfl⟩ := List.mem_map.mp hh
  rw [hf.1.mppTotal] at h2 ⊢
  rw [mppSum_livePres hf]
  exact hs a ha (fun x => h1 ((hf.2 a).mpr x)) h2

theorem livePres_settle :
    LivePres (fun h => if h.state = .accepted then { h with state := .settled } else h) := by
  refine ⟨stateOnly_settle, ?_⟩
  intro h; by_cases c : h.state = .accepted <;> simp [c]

theorem shrink_cancel :
    Shrink (fun h => if h.state = .canceled then h else { h with state := .canceled }) := by
  refine ⟨stateOnly_cancel, ?_⟩
  intro h; by_cases c : h.state = .canceled <;> simp [c]

theorem shrink_due (hold now : Nat) :
    Shrink (fun h => if due hold now h then { h with state := .canceled } else h) := by
  refine ⟨stateOnly_due hold now, ?_⟩
  intro h; by_cases c : due hold now h = true <;> simp [c]

theorem mppSum_append (l : List Htlc) (h : Htlc) : mppSum (l ++ [h]) = mppSum l + mppPart h := by
  simp [mppSum, List.map_append, List.sum_append]

theorem settledSum_append (l : List Htlc) (h : Htlc) :
    settledSum (l ++ [h]) = settledSum l + settledPart h := by
  simp [settledSum, List.map_append, List.sum_append]

/-! #### timeout -/

theorem itimeout_good {H R} {inv : Invoice} (hold now : Nat) (hg : Good H R inv) :
    Good H R (itimeout hold now inv).1 := by
  unfold itimeout
  by_cases c : inv.state ≠ .open
  · simp [c]; exact hg
  · have ho : inv.state = .open := by simpa using c
    simp only [c, if_false]
    obtain ⟨o1, o2, o3⟩ := hg.openS ho
    have hf := shrink_due hold now
    refine ⟨hg.noAmp, hg.static.map hf.1, hg.sameTotal.map_shrink hf, ?_, ?_, ?_, ?_⟩
    · intro _
      refine ⟨?_, ?_, o3⟩
      · intro h hh; obtain ⟨a, ha, rfl⟩ := List.mem_map.mp hh
        intro hs
        have := hf.2 a (by rw [hs]; simp)
        exact o1 a ha (by rw [← this]; exact hs)
      · intro h hh hacc; obtain ⟨a, ha, rfl⟩ := List.mem_map.mp hh
        have := hf.2 a (by rw [hacc]; simp)
        rw [hf.1.mppTotal]
        exact o2 a ha (by rw [← this]; exact hacc)
    · intro hs; simp [ho] at hs
    · intro hs; simp [ho] at hs
    · intro hs; simp [ho] at hs

/-! #### cancel -/

theorem icancel_good {H R} {inv : Invoice} (hg : Good H R inv) : Good H R (icancel inv).1 := by
  unfold icancel
  cases hs : inv.state with
  | settled => simpa using hg
  | canceled => simpa using hg
  | «open» =>
    by_cases c : hasSettled inv.htlcs = true
    · simpa [c] using hg
    · simp only [c]
      have hf := shrink_cancel
      refine ⟨hg.noAmp, hg.static.map hf.1, hg.sameTotal.map_shrink hf, ?_, ?_, ?_, ?_⟩
      · intro h; simp at h
      · intro h; simp at h
      · intro h; simp at h
      · intro _ h hh
        obtain ⟨a, ha, rfl⟩ := List.mem_map.mp hh
        by_cases ca : a.state = .canceled <;> simp [ca]
  | accepted =>
    by_cases c : hasSettled inv.htlcs = true
    · simpa [c] using hg
    · simp only [c]
      have hf := shrink_cancel
      refine ⟨hg.noAmp, hg.static.map hf.1, hg.sameTotal.map_shrink hf, ?_, ?_, ?_, ?_⟩
      · intro h; simp at h
      · intro h; simp at h
      · intro h; simp at h
      · intro _ h hh
        obtain ⟨a, ha, rfl⟩ := List.mem_map.mp hh
        by_cases ca : a.state = .canceled <;> simp [ca]

/-! #### settle of a hold invoice -/

theorem settledSum_settleAccepted (l : List Htlc) (hns : ∀ h ∈ l, h.state ≠ .settled) :
    settledSum (settleAccepted l) = sumAmt (l.filter (fun h => h.state == .accepted)) := by
  rw [sumAmt_filter]
  unfold settledSum settleAccepted
  rw [List.map_map]
  apply sum_map_congr
  intro x hx
  have := hns x hx
  by_cases c : x.state = .accepted
  · simp [settledPart, c]
  · simp [settledPart, c, this]

theorem isettle_good {H R} {inv : Invoice} (p : Nat) (hg : Good H R inv) :
    Good H R (isettle H p inv).1 := by
  unfold isettle
  cases hs : inv.state with
  | settled => simpa using hg
  | canceled => simpa using hg
  | «open» => simpa using hg
  | accepted =>
    simp only
    by_cases ch : (!inv.hodl) = true
    · simpa [ch] using hg
    · simp only [ch]
      cases hu : updatedInvoiceState H inv .settled (some p) with
      | none => simpa using hg
      | some st =>
        cases st with
        | «open» => simpa using hg
        | accepted => simpa using hg
        | canceled => simpa using hg
        | settled =>
          simp only
          have hp : H p = inv.hash := by
            unfold updatedInvoiceState at hu
            simp [hs] at hu
            exact hu.2
          obtain ⟨a1, a2⟩ := hg.acceptedS hs
          have hf := livePres_settle
          refine ⟨hg.noAmp, hg.static.map hf.1, hg.sameTotal.map_live hf, ?_, ?_, ?_, ?_⟩
          · intro h; simp at h
          · intro h; simp at h
          · intro _
            refine ⟨⟨p, rfl, hp⟩, ?_, ?_, a2.map_live hf⟩
            · intro h hh
              obtain ⟨a, ha, rfl⟩ := List.mem_map.mp hh
              by_cases ca : a.state = .accepted <;> simp [ca]
            · show sumAmt (acceptedHtlcs inv) = settledSum (settleAccepted inv.htlcs)
              rw [settledSum_settleAccepted _ a1]; rfl
          · intro h; simp at h

/-! #### notify -/

/-- what `addHTLCs` needs before aligning htlc states with the invoice state. -/
structure PreGood (H : Nat → Nat) (R : Int) (inv : Invoice) : Prop where
  noAmp : inv.ampReq = false
  static : StaticL R inv.value inv.finalCltv inv.htlcs
  sameTotal : SameTotal inv.htlcs
  notCanceled : inv.state ≠ .canceled
  openS : inv.state = .open → ∀ h ∈ inv.htlcs, h.state = .accepted → 0 < h.mppTotal
  acceptedS : inv.state = .accepted → Complete inv.htlcs
  settledS : inv.state = .settled → (∃ p, inv.preimage = some p ∧ H p = inv.hash) ∧ Complete inv.htlcs

theorem hasSettled_false {l : List Htlc} (h : hasSettled l = false) : ∀ g ∈ l, g.state ≠ .settled := by
  intro g hg hs
  have : hasSettled l = true := by
    unfold hasSettled
    rw [List.any_eq_true]
    exact ⟨g, hg, by simp [hs]⟩
  rw [h] at this; cases this

theorem sumAmt_live_settleAccepted (l : List Htlc) :
    sumAmt (liveHtlcs (settleAccepted l)) = settledSum (settleAccepted l) := by
  unfold liveHtlcs
  rw [sumAmt_filter]
  unfold settledSum
  apply sum_map_congr
  intro x hx
  unfold settleAccepted at hx
  obtain ⟨a, _, rfl⟩ := List.mem_map.mp hx
  by_cases ca : a.state = .accepted
  · simp [ca, settledPart]
  · cases hs : a.state <;> simp_all [settledPart]

theorem alignHtlcs_good {H R} {inv inv' : Invoice} (hp : PreGood H R inv)
    (ha : alignHtlcs inv = some inv') : Good H R inv' := by
  unfold alignHtlcs at ha
  cases hs : inv.state with
  | canceled => exact absurd hs hp.notCanceled
  | settled =>
    simp [hs] at ha
    subst ha
    obtain ⟨s1, s2⟩ := hp.settledS hs
    have hf := livePres_settle
    refine ⟨hp.noAmp, hp.static.map hf.1, hp.sameTotal.map_live hf, ?_, ?_, ?_, ?_⟩
    · intro h; simp [hs] at h
    · intro h; simp [hs] at h
    · intro _
      refine ⟨s1, ?_, sumAmt_live_settleAccepted _, s2.map_live hf⟩
      intro h hh
      obtain ⟨a, ha, rfl⟩ := List.mem_map.mp hh
      by_cases ca : a.state = .accepted <;> simp [ca]
    · intro h; simp [hs] at h
  | accepted =>
    simp [hs] at ha
    obtain ⟨hns, rfl⟩ := ha
    refine ⟨hp.noAmp, hp.static, hp.sameTotal, ?_, ?_, ?_, ?_⟩
    · intro h; simp [hs] at h
    · intro _; exact ⟨hasSettled_false hns, hp.acceptedS hs⟩
    · intro h; simp [hs] at h
    · intro h; simp [hs] at h
  | «open» =>
    simp [hs] at ha
    obtain ⟨hns, rfl⟩ := ha
    refine ⟨hp.noAmp, hp.static, hp.sameTotal, ?_, ?_, ?_, ?_⟩
    · intro _; exact ⟨hasSettled_false hns, hp.openS hs, rfl⟩
    · intro h; simp [hs] at h
    · intro h; simp [hs] at h
    · intro h; simp [hs] at h

theorem updatedInvoiceState_some {H : Nat → Nat} {inv : Invoice} {ns s' : CState} {pre : Option Nat}
    (hu : updatedInvoiceState H inv ns pre = some s') :
    s' = ns ∧ (inv.state = .open ∨ inv.state = .accepted) ∧
    (∀ p, pre = some p → ns ≠ .canceled → H p = inv.hash) := by
  unfold updatedInvoiceState at hu
  by_cases c0 : ns = .open
  · simp [c0] at hu
  simp only [c0, if_false] at hu
  cases hs : inv.state with
  | settled => simp [hs] at hu
  | canceled => simp [hs] at hu
  | «open» =>
    simp [hs] at hu
    by_cases c1 : ns = .canceled
    · simp [c1] at hu; subst hu; exact ⟨c1.symm, by simp, by intro p _ h; exact absurd c1 h⟩
    · simp [c1] at hu
      obtain ⟨_, hu⟩ := hu
      cases pre with
      | none =>
        simp at hu
        by_cases c2 : ns = .accepted
        · simp [c2] at hu; exact ⟨by rw [← hu, c2], by simp, by intro p h; cases h⟩
        · simp [c2] at hu; exact ⟨hu.2.symm, by simp, by intro p h; cases h⟩
      | some p =>
        simp at hu
        exact ⟨hu.2.symm, by simp, by intro q hq _; cases hq; exact hu.1⟩
  | accepted =>
    simp [hs] at hu
    obtain ⟨_, hu⟩ := hu
    by_cases c1 : ns = .canceled
    · simp [c1] at hu; subst hu; exact ⟨c1.symm, by simp, by intro p _ h; exact absurd c1 h⟩
    · simp [c1] at hu
      obtain ⟨_, hu⟩ := hu
      cases pre with
      | none =>
        simp at hu
        by_cases c2 : ns = .accepted
        · simp [c2] at hu; exact ⟨by rw [← hu, c2], by simp, by intro p h; cases h⟩
        · simp [c2] at hu; exact ⟨hu.2.symm, by simp, by intro p h; cases h⟩
      | some p =>
        simp at hu
        exact ⟨hu.2.symm, by simp, by intro q hq _; cases hq; exact hu.1⟩

theorem findHtlc_none {inv : Invoice} {k : Nat} (h : findHtlc inv k = none) :
    ∀ g ∈ inv.htlcs, g.key ≠ k := by
  intro g hg hk
  unfold findHtlc at h
  rw [List.find?_eq_none] at h
  have := h g hg
  simp [hk] at this

theorem mem_acceptedHtlcs {inv : Invoice} {g : Htlc} :
    g ∈ acceptedHtlcs inv ↔ g ∈ inv.htlcs ∧ g.state = .accepted := by
  unfold acceptedHtlcs; simp [List.mem_filter]

theorem mppSum_open {H R} {inv : Invoice} (hg : Good H R inv) (ho : inv.state = .open) :
    mppSum inv.htlcs = sumAmt (acceptedHtlcs inv) := by
  obtain ⟨o1, o2, _⟩ := hg.openS ho
  unfold acceptedHtlcs
  rw [sumAmt_filter]
  unfold mppSum
  apply sum_map_congr
  intro x hx
  have h1 := o1 x hx
  have h2 := o2 x hx
  cases hs : x.state with
  | settled => exact absurd hs h1
  | canceled => simp [mppPart, hs]
  | accepted => have := h2 hs; simp [mppPart, hs, this]

theorem Complete.append_legacy {l : List Htlc} (hc : Complete l) {h : Htlc} (h0 : h.mppTotal = 0) :
    Complete (l ++ [h]) := by
  intro g hg g1 g2
  rw [mppSum_append]
  rcases List.mem_append.mp hg with hg | hg
  · have := hc g hg g1 g2; omega
  · simp at hg; subst hg; omega

theorem preGood_add_mpp {H R} {inv : Invoice} {ctx : Ctx} {total : Nat} {auth : Bool} {st' : CState}
    (hg : Good H R inv) (ho : inv.state = .open) (hfresh : findHtlc inv ctx.key = none)
    (h1 : 0 < total) (h2 : inv.value ≤ total) (h3 : auth = true)
    (h4 : expiryTooSoon ctx.expiry ctx.height R = false)
    (h5 : expiryTooSoon ctx.expiry ctx.height inv.finalCltv = false)
    (h6 : ∀ g ∈ acceptedHtlcs inv, g.mppTotal = total)
    (hst : st' ≠ .canceled)
    (h7 : st' ≠ .open → total ≤ sumAmt (acceptedHtlcs inv) + ctx.amt)
    (h8 : st' = .settled → ∃ p, inv.preimage = some p ∧ H p = inv.hash) :
    PreGood H R { inv with htlcs := inv.htlcs ++ [mkHtlc ctx total auth], state := st' } := by
  obtain ⟨o1, o2, _⟩ := hg.openS ho
  have hlive : ∀ g ∈ inv.htlcs, g.state ≠ .canceled → g.mppTotal = total := by
    intro g hg' hc
    cases hs : g.state with
    | settled => exact absurd hs (o1 g hg')
    | canceled => exact absurd hs hc
    | accepted => exact h6 g (mem_acceptedHtlcs.mpr ⟨hg', hs⟩)
  have hcomp : st' ≠ .open → Complete (inv.htlcs ++ [mkHtlc ctx total auth]) := by
    intro hne g hg' g1 g2
    rw [mppSum_append, mppSum_open hg ho]
    have hpart : mppPart (mkHtlc ctx total auth) = ctx.amt := by simp [mppPart, mkHtlc, h1]
    rw [hpart]
    have := h7 hne
    rcases List.mem_append.mp hg' with hg' | hg'
    · rw [hlive g hg' g1]; exact this
    · simp at hg'; subst hg'; simpa [mkHtlc] using this
  refine ⟨hg.noAmp, ?_, ?_, hst, ?_, ?_, ?_⟩
  · exact hg.static.append _ (findHtlc_none hfresh) (by simp [mkHtlc]; omega) (by simp [mkHtlc]; omega)
      (by simp [mkHtlc, h3]) (by simp [mkHtlc, h4, h5])
  · intro a ha b hb a1 b1 a2 b2
    have ea : a.mppTotal = total := by
      rcases List.mem_append.mp ha with ha | ha
      · exact hlive a ha a1
      · simp at ha; subst ha; simp [mkHtlc]
    have eb : b.mppTotal = total := by
      rcases List.mem_append.mp hb with hb | hb
      · exact hlive b hb b1
      · simp at hb; subst hb; simp [mkHtlc]
    rw [ea, eb]
  · intro _ g hg' hacc
    rcases List.mem_append.mp hg' with hg' | hg'
    · exact o2 g hg' hacc
    · simp at hg'; subst hg'; simpa [mkHtlc] using h1
  · intro hs; exact hcomp (by simp at hs; rw [hs]; simp)
  · intro hs; simp at hs
    exact ⟨h8 hs, hcomp (by rw [hs]; simp)⟩

theorem preGood_add_legacy {H R} {inv : Invoice} {ctx : Ctx} {auth : Bool} {st' : CState}
    (hg : Good H R inv) (hfresh : findHtlc inv ctx.key = none)
    (h2 : inv.value ≤ ctx.amt) (h3 : auth = true)
    (h4 : expiryTooSoon ctx.expiry ctx.height R = false)
    (h5 : expiryTooSoon ctx.expiry ctx.height inv.finalCltv = false)
    (h6 : ∀ g ∈ acceptedHtlcs inv, g.mppTotal = 0)
    (hst : st' ≠ .canceled) (hno : st' ≠ .open)
    (hfrom : st' = inv.state ∨ inv.state = .open)
    (h8 : inv.state = .open → st' = .settled → ∃ p, inv.preimage = some p ∧ H p = inv.hash) :
    PreGood H R { inv with htlcs := inv.htlcs ++ [mkHtlc ctx 0 auth], state := st' } := by
  have hcomp0 : inv.state = .open → Complete inv.htlcs := by
    intro ho g hg' g1 g2
    obtain ⟨o1, o2, _⟩ := hg.openS ho
    cases hs : g.state with
    | settled => exact absurd hs (o1 g hg')
    | canceled => exact absurd hs g1
    | accepted =>
      have := h6 g (mem_acceptedHtlcs.mpr ⟨hg', hs⟩)
      omega
  refine ⟨hg.noAmp, ?_, ?_, hst, ?_, ?_, ?_⟩
  · exact hg.static.append _ (findHtlc_none hfresh) (by simp [mkHtlc]; omega) (by simp [mkHtlc])
      (by simp [mkHtlc, h3]) (by simp [mkHtlc, h4, h5])
  · intro a ha b hb a1 b1 a2 b2
    rcases List.mem_append.mp ha with ha | ha
    · rcases List.mem_append.mp hb with hb | hb
      · exact hg.sameTotal a ha b hb a1 b1 a2 b2
      · simp at hb; subst hb; simp [mkHtlc] at b2
    · simp at ha; subst ha; simp [mkHtlc] at a2
  · intro hs; simp at hs; exact absurd hs hno
  · intro hs; simp at hs
    rcases hfrom with hf | hf
    · exact (hg.acceptedS (by rw [← hf]; exact hs)).2.append_legacy (by simp [mkHtlc])
    · exact (hcomp0 hf).append_legacy (by simp [mkHtlc])
  · intro hs; simp at hs
    rcases hfrom with hf | hf
    · obtain ⟨s1, _, _, s4⟩ := hg.settledS (by rw [← hf]; exact hs)
      exact ⟨s1, s4.append_legacy (by simp [mkHtlc])⟩
    · exact ⟨h8 hf hs, (hcomp0 hf).append_legacy (by simp [mkHtlc])⟩

theorem replay_none {H : Nat → Nat} {ctx : Ctx} {inv : Invoice} (h : replay H ctx inv = none) :
    findHtlc inv ctx.key = none := by
  unfold replay at h
  cases hf : findHtlc inv ctx.key with
  | none => rfl
  | some g =>
    simp [hf] at h
    cases hs : g.state <;> simp [hs] at h
    cases hp : inv.preimage <;> simp [hp] at h
    split at h <;> cases h

theorem applyAdd_mpp_good {H R} {inv inv' : Invoice} {ctx : Ctx} {total addr : Nat} {h : Htlc}
    {ns : Option CState} {r : Res}
    (hg : Good H R inv) (hR : ctx.rejectDelta = R) (hfresh : findHtlc inv ctx.key = none)
    (hu : updateMpp ctx total addr inv = (.add h ns, r))
    (ha : applyAdd H inv h ns = some inv') : Good H R inv' := by
  obtain ⟨_, ho, haddr, h1, h2, h6, h4, h5, hh, hcase⟩ := updateMpp_add hu
  rw [hR] at h4
  subst hh
  unfold applyAdd at ha
  have hk : (mkHtlc ctx total (decide (addr = inv.payAddr))).key = ctx.key := rfl
  rw [hk, hfresh] at ha
  simp only [Option.isSome_none, Bool.false_eq_true, if_false] at ha
  have hauth : decide (addr = inv.payAddr) = true := by simp [haddr]
  rcases hcase with ⟨rfl, _, _⟩ | ⟨rfl, _, hsum⟩ | ⟨p, rfl, _, hpre, hsum⟩
  · simp only at ha
    have hp := preGood_add_mpp (st' := .open) hg ho hfresh h1 h2 hauth h4 h5 h6 (by simp)
      (by intro h; exact absurd rfl h) (by intro h; cases h)
    have e : ({ inv with htlcs := inv.htlcs ++ [mkHtlc ctx total (decide (addr = inv.payAddr))] } : Invoice)
        = { inv with htlcs := inv.htlcs ++ [mkHtlc ctx total (decide (addr = inv.payAddr))], state := .open } := by
      rw [← ho]
    rw [e] at ha
    exact alignHtlcs_good hp ha
  · simp only at ha
    cases hus : updatedInvoiceState H
        { inv with htlcs := inv.htlcs ++ [mkHtlc ctx total (decide (addr = inv.payAddr))] } .accepted inv.preimage with
    | none => simp [hus] at ha
    | some s' =>
      simp only [hus] at ha
      obtain ⟨rfl, _, _⟩ := updatedInvoiceState_some hus
      have hp := preGood_add_mpp (st' := .accepted) hg ho hfresh h1 h2 hauth h4 h5 h6 (by simp)
        (fun _ => hsum) (by intro h; cases h)
      exact alignHtlcs_good hp ha
  · simp only at ha
    cases hus : updatedInvoiceState H
        { inv with htlcs := inv.htlcs ++ [mkHtlc ctx total (decide (addr = inv.payAddr))] } .settled inv.preimage with
    | none => simp [hus] at ha
    | some s' =>
      simp only [hus] at ha
      obtain ⟨rfl, _, hH⟩ := updatedInvoiceState_some hus
      have hp := preGood_add_mpp (st' := .settled) hg ho hfresh h1 h2 hauth h4 h5 h6 (by simp)
        (fun _ => hsum) (fun _ => ⟨p, hpre, hH p hpre (by simp)⟩)
      exact alignHtlcs_good hp ha

theorem applyAdd_legacy_good {H R} {inv inv' : Invoice} {ctx : Ctx} {h : Htlc}
    {ns : Option CState} {r : Res}
    (hg : Good H R inv) (hR : ctx.rejectDelta = R) (hfresh : findHtlc inv ctx.key = none)
    (hu : updateLegacy H ctx inv = (.add h ns, r))
    (ha : applyAdd H inv h ns = some inv') : Good H R inv' := by
  obtain ⟨_, hnc, h2, hauth', h6, h4, h5, hh, hcase⟩ := updateLegacy_add hu
  rw [hR] at h4
  subst hh
  unfold applyAdd at ha
  have hk : (mkHtlc ctx 0 (validKeysend H ctx || !inv.payAddrReq)).key = ctx.key := rfl
  rw [hk, hfresh] at ha
  simp only [Option.isSome_none, Bool.false_eq_true, if_false] at ha
  have hauth : (validKeysend H ctx || !inv.payAddrReq) = true := by
    rcases hauth' with h | h <;> simp [h]
  rcases hcase with ⟨hs, rfl, _⟩ | ⟨p, hs, rfl, _, hpre⟩ | ⟨hs, rfl, _⟩ | ⟨p, hs, rfl, _, hpre⟩
  · simp only at ha
    have hp := preGood_add_legacy (st' := .accepted) hg hfresh h2 hauth h4 h5 h6 (by simp) (by simp)
      (Or.inl hs.symm) (by intro ho; rw [hs] at ho; cases ho)
    have e : ({ inv with htlcs := inv.htlcs ++ [mkHtlc ctx 0 (validKeysend H ctx || !inv.payAddrReq)] } : Invoice)
        = { inv with htlcs := inv.htlcs ++ [mkHtlc ctx 0 (validKeysend H ctx || !inv.payAddrReq)], state := .accepted } := by
      rw [← hs]
    rw [e] at ha
    exact alignHtlcs_good hp ha
  · simp only at ha
    have hp := preGood_add_legacy (st' := .settled) hg hfresh h2 hauth h4 h5 h6 (by simp) (by simp)
      (Or.inl hs.symm) (by intro ho; rw [hs] at ho; cases ho)
    have e : ({ inv with htlcs := inv.htlcs ++ [mkHtlc ctx 0 (validKeysend H ctx || !inv.payAddrReq)] } : Invoice)
        = { inv with htlcs := inv.htlcs ++ [mkHtlc ctx 0 (validKeysend H ctx || !inv.payAddrReq)], state := .settled } := by
      rw [← hs]
    rw [e] at ha
    exact alignHtlcs_good hp ha
  · simp only at ha
    cases hus : updatedInvoiceState H
        { inv with htlcs := inv.htlcs ++ [mkHtlc ctx 0 (validKeysend H ctx || !inv.payAddrReq)] } .accepted inv.preimage with
    | none => simp [hus] at ha
    | some s' =>
      simp only [hus] at ha
      obtain ⟨rfl, _, _⟩ := updatedInvoiceState_some hus
      have hp := preGood_add_legacy (st' := .accepted) hg hfresh h2 hauth h4 h5 h6 (by simp) (by simp)
        (Or.inr hs) (by intro _ h; cases h)
      exact alignHtlcs_good hp ha
  · simp only at ha
    cases hus : updatedInvoiceState H
        { inv with htlcs := inv.htlcs ++ [mkHtlc ctx 0 (validKeysend H ctx || !inv.payAddrReq)] } .settled inv.preimage with
    | none => simp [hus] at ha
    | some s' =>
      simp only [hus] at ha
      obtain ⟨rfl, _, hH⟩ := updatedInvoiceState_some hus
      have hp := preGood_add_legacy (st' := .settled) hg hfresh h2 hauth h4 h5 h6 (by simp) (by simp)
        (Or.inr hs) (fun _ _ => ⟨p, hpre, hH p hpre (by simp)⟩)
      exact alignHtlcs_good hp ha

theorem inotify_good {H R} {inv : Invoice} {ctx : Ctx} (hg : Good H R inv) (hR : ctx.rejectDelta = R) :
    Good H R (inotify H ctx inv).1 := by
  unfold inotify
  cases hr : replay H ctx inv with
  | some r => simpa using hg
  | none =>
    simp only
    have hfresh := replay_none hr
    cases hu : updateInvoice H ctx inv with
    | mk u r =>
      cases u with
      | none => simpa using hg
      | add h ns =>
        simp only
        cases ha : applyAdd H inv h ns with
        | none => simpa using hg
        | some inv' =>
          simp only
          unfold updateInvoice at hu
          by_cases c : (ctx.amp && ctx.mpp.isNone) = true
          · simp [c] at hu
          · simp only [c, Bool.false_eq_true, if_false] at hu
            cases hm : effMpp ctx with
            | none => rw [hm] at hu; exact applyAdd_legacy_good hg hR hfresh hu ha
            | some ta =>
              obtain ⟨t, a⟩ := ta
              rw [hm] at hu
              exact applyAdd_mpp_good hg hR hfresh hu ha

/-! ### what a settle resolution implies about the invoice afterwards -/

theorem good_settled_state {H R} {inv : Invoice} (hg : Good H R inv) {h : Htlc} (hh : h ∈ inv.htlcs)
    (hs : h.state = .settled) : inv.state = .settled := by
  cases hst : inv.state with
  | settled => rfl
  | «open» => exact absurd hs ((hg.openS hst).1 h hh)
  | accepted => exact absurd hs ((hg.acceptedS hst).1 h hh)
  | canceled => have := hg.canceledS hst h hh; rw [hs] at this; cases this

theorem findHtlc_some {inv : Invoice} {k : Nat} {g : Htlc} (h : findHtlc inv k = some g) :
    g ∈ inv.htlcs ∧ g.key = k := by
  unfold findHtlc at h
  refine ⟨List.mem_of_find?_eq_some h, ?_⟩
  have := List.find?_some h
  simpa using this

/-- invoice fields that no operation changes. -/
def SameTerms (a b : Invoice) : Prop :=
  a.hash = b.hash ∧ a.value = b.value ∧ a.payAddr = b.payAddr ∧ a.finalCltv = b.finalCltv ∧
  a.ampReq = b.ampReq ∧ a.payAddrReq = b.payAddrReq ∧ a.hodl = b.hodl

theorem SameTerms.refl (a : Invoice) : SameTerms a a := ⟨rfl, rfl, rfl, rfl, rfl, rfl, rfl⟩

theorem alignHtlcs_terms {inv inv' : Invoice} (ha : alignHtlcs inv = some inv') :
    SameTerms inv inv' ∧ inv'.state = inv.state ∧ inv'.preimage = inv.preimage := by
  unfold alignHtlcs at ha
  cases hs : inv.state <;> simp [hs] at ha
  · obtain ⟨_, rfl⟩ := ha; exact ⟨SameTerms.refl _, hs.symm ▸ rfl, rfl⟩
  · obtain ⟨_, rfl⟩ := ha; exact ⟨SameTerms.refl _, hs.symm ▸ rfl, rfl⟩
  · subst ha; exact ⟨SameTerms.refl _, hs.symm ▸ rfl, rfl⟩
  · obtain ⟨_, rfl⟩ := ha; exact ⟨SameTerms.refl _, hs.symm ▸ rfl, rfl⟩

theorem alignHtlcs_settled {inv inv' : Invoice} (hs : inv.state = .settled)
    (ha : alignHtlcs inv = some inv') : inv'.htlcs = settleAccepted inv.htlcs := by
  unfold alignHtlcs at ha
  simp [hs] at ha
  subst ha; rfl

theorem applyAdd_terms {H : Nat → Nat} {inv inv' : Invoice} {h : Htlc} {ns : Option CState}
    (ha : applyAdd H inv h ns = some inv') :
    SameTerms inv inv' ∧ inv'.preimage = inv.preimage ∧
    (ns = none → inv'.state = inv.state) ∧ (∀ s, ns = some s → inv'.state = s) ∧
    (inv'.state = .settled → ∃ h' ∈ inv'.htlcs, h'.key = h.key ∧
        (h.state = .accepted → h'.state = .settled)) := by
  unfold applyAdd at ha
  by_cases c : (findHtlc inv h.key).isSome = true
  · simp [c] at ha
  rw [if_neg c] at ha
  have key : ∀ (inv1 : Invoice), inv1.htlcs = inv.htlcs ++ [h] → alignHtlcs inv1 = some inv' →
      inv'.state = .settled → ∃ h' ∈ inv'.htlcs, h'.key = h.key ∧ (h.state = .accepted → h'.state = .settled) := by
    intro inv1 e1 ha1 hs
    obtain ⟨_, hst, _⟩ := alignHtlcs_terms ha1
    have := alignHtlcs_settled (by rw [← hst]; exact hs) ha1
    rw [this, e1]
    refine ⟨if h.state = .accepted then { h with state := .settled } else h, ?_, ?_, ?_⟩
    · unfold settleAccepted
      exact List.mem_map.mpr ⟨h, by simp, rfl⟩
    · by_cases ch : h.state = .accepted <;> simp [ch]
    · intro ch; simp [ch]
  cases ns with
  | none =>
    simp only at ha
    obtain ⟨t, hst, hp⟩ := alignHtlcs_terms ha
    exact ⟨t, hp, fun _ => hst, fun s hs => (by cases hs), key _ rfl ha⟩
  | some s =>
    simp only at ha
    cases hus : updatedInvoiceState H { inv with htlcs := inv.htlcs ++ [h] } s inv.preimage with
    | none => simp [hus] at ha
    | some s' =>
      simp only [hus] at ha
      obtain ⟨rfl, _, _⟩ := updatedInvoiceState_some hus
      obtain ⟨t, hst, hp⟩ := alignHtlcs_terms ha
      exact ⟨t, hp, fun hn => (by cases hn), fun s hs => (by cases hs; exact hst), key _ rfl ha⟩

theorem inotify_terms {H : Nat → Nat} {ctx : Ctx} {inv : Invoice} :
    SameTerms inv (inotify H ctx inv).1 := by
  unfold inotify
  cases hr : replay H ctx inv with
  | some r => exact SameTerms.refl _
  | none =>
    simp only
    cases hu : updateInvoice H ctx inv with
    | mk u r =>
      cases u with
      | none => exact SameTerms.refl _
      | add h ns =>
        simp only
        cases ha : applyAdd H inv h ns with
        | none => exact SameTerms.refl _
        | some inv' => exact (applyAdd_terms ha).1

theorem updateMpp_settle {ctx : Ctx} {total addr : Nat} {inv : Invoice} {u : Upd} {k : SettleKind}
    {p : Nat} {ht : Int} (hu : updateMpp ctx total addr inv = (u, .settle k p ht)) :
    ∃ h ns, u = .add h ns := by
  by_cases c1 : (inv.ampReq && !ctx.amp) = true
  · simp [updateMpp, c1] at hu
  by_cases c2 : (!inv.ampReq && ctx.amp) = true
  · simp [updateMpp, c1, c2] at hu
  by_cases c3 : inv.state ≠ .open
  · simp [updateMpp, c1, c2, c3] at hu
  by_cases c4 : addr ≠ inv.payAddr
  · simp [updateMpp, c1, c2, c3, c4] at hu
  by_cases c5 : total = 0
  · simp [updateMpp, c1, c2, c3, c4, c5] at hu
  by_cases c6 : total < inv.value
  · simp [updateMpp, c1, c2, c3, c4, c5, c6] at hu
  by_cases c7 : ∃ x, x ∈ acceptedHtlcs inv ∧ ¬x.mppTotal = total
  · simp [updateMpp, c1, c2, c3, c4, c5, c6, c7] at hu
  by_cases c8 : expiryTooSoon ctx.expiry ctx.height ctx.rejectDelta = true
  · simp [updateMpp, c1, c2, c3, c4, c5, c6, c7, c8] at hu
  by_cases c9 : expiryTooSoon ctx.expiry ctx.height inv.finalCltv = true
  · simp [updateMpp, c1, c2, c3, c4, c5, c6, c7, c8, c9] at hu
  simp [updateMpp, c1, c2, c3, c4, c5, c6, c7, c8, c9] at hu
  by_cases d1 : sumAmt (acceptedHtlcs inv) + ctx.amt < total
  · simp [d1] at hu
  · simp [d1] at hu
    by_cases d2 : inv.hodl = true
    · simp [d2] at hu
    · simp [d2] at hu
      cases hp : inv.preimage with
      | none => simp [hp] at hu
      | some q => simp [hp] at hu; exact ⟨_, _, hu.1.symm⟩

theorem updateLegacy_settle {H : Nat → Nat} {ctx : Ctx} {inv : Invoice} {u : Upd} {k : SettleKind}
    {p : Nat} {ht : Int} (hu : updateLegacy H ctx inv = (u, .settle k p ht)) :
    ∃ h ns, u = .add h ns := by
  by_cases c1 : inv.ampReq = true
  · simp [updateLegacy, c1] at hu
  by_cases c2 : inv.state = .canceled
  · simp [updateLegacy, c1, c2] at hu
  by_cases c3 : ctx.amt < inv.value
  · simp [updateLegacy, c1, c2, c3] at hu
  by_cases c4 : (!validKeysend H ctx && inv.payAddrReq) = true
  · simp [updateLegacy, c1, c2, c3, c4] at hu
  by_cases c5 : ∃ x, x ∈ acceptedHtlcs inv ∧ 0 < x.mppTotal
  · simp [updateLegacy, c1, c2, c3, c4, c5] at hu
  by_cases c8 : expiryTooSoon ctx.expiry ctx.height ctx.rejectDelta = true
  · simp [updateLegacy, c1, c2, c3, c4, c5, c8] at hu
  by_cases c9 : expiryTooSoon ctx.expiry ctx.height inv.finalCltv = true
  · simp [updateLegacy, c1, c2, c3, c4, c5, c8, c9] at hu
  simp [updateLegacy, c1, c2, c3, c4, c5, c8, c9] at hu
  cases hs : inv.state with
  | canceled => exact absurd hs c2
  | accepted => simp [hs] at hu
  | settled =>
    simp [hs] at hu
    cases hp : inv.preimage with
    | none => simp [hp] at hu
    | some q => simp [hp] at hu; exact ⟨_, _, hu.1.symm⟩
  | «open» =>
    simp [hs] at hu
    by_cases d2 : inv.hodl = true
    · simp [d2] at hu
    · simp [d2] at hu
      cases hp : inv.preimage with
      | none => simp [hp] at hu
      | some q => simp [hp] at hu; exact ⟨_, _, hu.1.symm⟩

theorem updateInvoice_settle {H : Nat → Nat} {ctx : Ctx} {inv : Invoice} {u : Upd} {k : SettleKind}
    {p : Nat} {ht : Int} (hu : updateInvoice H ctx inv = (u, .settle k p ht)) :
    ctx.amp = inv.ampReq ∧ ∃ h ns, u = .add h ns ∧ h.key = ctx.key ∧ h.state = .accepted := by
  unfold updateInvoice at hu
  by_cases c : (ctx.amp && ctx.mpp.isNone) = true
  · simp [c] at hu
  · rw [if_neg c] at hu
    cases hm : effMpp ctx with
    | none =>
      rw [hm] at hu; simp only at hu
      obtain ⟨h, ns, rfl⟩ := updateLegacy_settle hu
      obtain ⟨ha, _, _, _, _, _, _, hh, _⟩ := updateLegacy_add hu
      have : ctx.amp = false := by
        cases hb : ctx.amp
        · rfl
        · have hmn : ctx.mpp = none := by
            unfold effMpp at hm
            cases hq : ctx.mpp with
            | none => rfl
            | some m => simp [hq] at hm
          simp [hb, hmn] at c
      exact ⟨by rw [this, ha], h, ns, rfl, by rw [hh]; rfl, by rw [hh]; rfl⟩
    | some ta =>
      obtain ⟨t, a⟩ := ta
      rw [hm] at hu; simp only at hu
      obtain ⟨h, ns, rfl⟩ := updateMpp_settle hu
      obtain ⟨ha, _, _, _, _, _, _, _, hh, _⟩ := updateMpp_add hu
      exact ⟨ha, h, ns, rfl, by rw [hh]; rfl, by rw [hh]; rfl⟩

/-- a settle resolution returned by the notify path: the invoice is settled with that preimage
    afterwards, the preimage hashes to the hash of the call, and the htlc is recorded settled. -/
theorem inotify_settle {H R} {inv inv' : Invoice} {ctx : Ctx} {k : SettleKind} {p : Nat} {ht : Int}
    (hg : Good H R inv) (hR : ctx.rejectDelta = R) (hhash : ctx.amp = false → ctx.hash = inv.hash)
    (hn : inotify H ctx inv = (inv', .settle k p ht)) :
    inv'.state = .settled ∧ inv'.preimage = some p ∧ H p = ctx.hash ∧
    ∃ h ∈ inv'.htlcs, h.key = ctx.key ∧ h.state = .settled := by
  have hg' : Good H R inv' := by
    have := inotify_good (ctx := ctx) hg hR
    rw [hn] at this; exact this
  unfold inotify at hn
  cases hr : replay H ctx inv with
  | some r =>
    simp [hr] at hn
    obtain ⟨rfl, rfl⟩ := hn
    unfold replay at hr
    cases hf : findHtlc inv ctx.key with
    | none => simp [hf] at hr
    | some g =>
      simp [hf] at hr
      obtain ⟨gm, gk⟩ := findHtlc_some hf
      cases hs : g.state <;> simp [hs] at hr
      cases hp : inv.preimage with
      | none => simp [hp] at hr
      | some q =>
        simp [hp] at hr
        by_cases hq : H q = ctx.hash
        · simp [hq] at hr
          obtain ⟨_, rfl, _⟩ := hr
          exact ⟨good_settled_state hg gm hs, rfl, hq, g, gm, gk, hs⟩
        · simp [hq] at hr
  | none =>
    simp only [hr] at hn
    cases hu : updateInvoice H ctx inv with
    | mk u r =>
      rw [hu] at hn
      cases u with
      | none =>
        simp only at hn
        obtain ⟨rfl, rfl⟩ := Prod.mk.inj hn
        obtain ⟨_, h, ns, hc, _⟩ := updateInvoice_settle hu
        cases hc
      | add h ns =>
        simp only at hn
        cases ha : applyAdd H inv h ns with
        | none => rw [ha] at hn; simp at hn
        | some inv2 =>
          rw [ha] at hn; simp only at hn
          obtain ⟨rfl, rfl⟩ := Prod.mk.inj hn
          obtain ⟨hamp, h', ns', hc, hk, hacc⟩ := updateInvoice_settle hu
          cases hc
          obtain ⟨hterms, hpre, hst1, hst2, hmem⟩ := applyAdd_terms ha
          have hsettled : inv2.state = .settled := by
            -- the update either keeps a settled invoice settled or moves it to settled
            unfold updateInvoice at hu
            by_cases c : (ctx.amp && ctx.mpp.isNone) = true
            · simp [c] at hu
            · rw [if_neg c] at hu
              cases hm : effMpp ctx with
              | none =>
                rw [hm] at hu; simp only at hu
                obtain ⟨_, _, _, _, _, _, _, _, hcase⟩ := updateLegacy_add hu
                rcases hcase with ⟨_, _, hx⟩ | ⟨q, hs, rfl, _, _⟩ | ⟨_, _, hx⟩ | ⟨q, _, rfl, _, _⟩
                · cases hx
                · rw [hst1 rfl]; exact hs
                · cases hx
                · exact hst2 _ rfl
              | some ta =>
                obtain ⟨t, a⟩ := ta
                rw [hm] at hu; simp only at hu
                obtain ⟨_, _, _, _, _, _, _, _, _, hcase⟩ := updateMpp_add hu
                rcases hcase with ⟨_, hx, _⟩ | ⟨_, hx, _⟩ | ⟨q, rfl, _, _, _⟩
                · cases hx
                · cases hx
                · exact hst2 _ rfl
          obtain ⟨⟨q, hq, hHq⟩, _, _, _⟩ := hg'.settledS hsettled
          -- the preimage returned is the invoice's preimage
          have hpq : inv.preimage = some p := by
            unfold updateInvoice at hu
            by_cases c : (ctx.amp && ctx.mpp.isNone) = true
            · simp [c] at hu
            · rw [if_neg c] at hu
              cases hm : effMpp ctx with
              | none =>
                rw [hm] at hu; simp only at hu
                obtain ⟨_, _, _, _, _, _, _, _, hcase⟩ := updateLegacy_add hu
                rcases hcase with ⟨_, _, hx⟩ | ⟨q, _, _, hx, hp⟩ | ⟨_, _, hx⟩ | ⟨q, _, _, hx, hp⟩
                · cases hx
                · cases hx; exact hp
                · cases hx
                · cases hx; exact hp
              | some ta =>
                obtain ⟨t, a⟩ := ta
                rw [hm] at hu; simp only at hu
                obtain ⟨_, _, _, _, _, _, _, _, _, hcase⟩ := updateMpp_add hu
                rcases hcase with ⟨_, hx, _⟩ | ⟨_, hx, _⟩ | ⟨q, _, hx, hp, _⟩
                · cases hx
                · cases hx
                · cases hx; exact hp
          have hp2 : inv2.preimage = some p := by rw [hpre]; exact hpq
          have hqp : q = p := by rw [hp2] at hq; cases hq; rfl
          subst hqp
          have hampf : ctx.amp = false := by rw [hamp]; exact hg.noAmp
          obtain ⟨h2, h2m, h2k, h2s⟩ := hmem hsettled
          refine ⟨hsettled, hp2, ?_, h2, h2m, by rw [h2k, hk], h2s hacc⟩
          rw [hHq, ← hterms.1, hhash hampf]

theorem notifyMsgs_settle {inv : Invoice} {r : Res} {k : Nat} {kind : SettleKind} {p : Nat} {ht : Int}
    (hm : (k, Res.settle kind p ht) ∈ notifyMsgs inv r) :
    (∃ ht0, r = .settle kind p ht0) ∧ ∃ h ∈ inv.htlcs, h.key = k ∧ h.state = .settled := by
  cases r with
  | fail fr ah =>
    simp only [notifyMsgs] at hm
    by_cases c : fr.isSetFailure = true
    · simp [c] at hm
    · simp [c] at hm
  | settle k0 p0 h0 =>
    simp only [notifyMsgs, List.mem_map, List.mem_filter] at hm
    obtain ⟨h, ⟨hm1, hs⟩, he⟩ := hm
    simp at he
    obtain ⟨rfl, rfl, rfl, _⟩ := he
    exact ⟨⟨h0, rfl⟩, h, hm1, rfl, by simpa using hs⟩
  | accept a => simp [notifyMsgs] at hm
  | err => simp [notifyMsgs] at hm

theorem isettle_terms {H : Nat → Nat} {p : Nat} {inv : Invoice} : SameTerms inv (isettle H p inv).1 := by
  unfold isettle
  cases hs : inv.state <;> simp only <;> try exact SameTerms.refl _
  by_cases ch : (!inv.hodl) = true
  · simp only [ch, if_true]; exact SameTerms.refl _
  · rw [if_neg ch]
    cases hu : updatedInvoiceState H inv .settled (some p) with
    | none => exact SameTerms.refl _
    | some st => cases st <;> exact SameTerms.refl _

theorem isettle_msgs {H : Nat → Nat} {p : Nat} {inv : Invoice} {k : Nat} {r : Res}
    (hm : (k, r) ∈ (isettle H p inv).2.2) :
    (∃ ah, r = .settle .settled p ah) ∧ (isettle H p inv).1.state = .settled ∧
    (isettle H p inv).1.preimage = some p ∧
    ∃ h ∈ (isettle H p inv).1.htlcs, h.key = k ∧ h.state = .settled := by
  unfold isettle at hm ⊢
  cases hs : inv.state with
  | «open» => simp [hs] at hm
  | canceled => simp [hs] at hm
  | settled => simp [hs] at hm
  | accepted =>
    simp only [hs] at hm ⊢
    by_cases ch : (!inv.hodl) = true
    · simp [ch] at hm
    · rw [if_neg ch] at hm ⊢
      cases hu : updatedInvoiceState H inv .settled (some p) with
      | none => simp [hu] at hm
      | some st =>
        cases st with
        | «open» => simp [hu] at hm
        | accepted => simp [hu] at hm
        | canceled => simp [hu] at hm
        | settled =>
          simp only [hu] at hm ⊢
          simp only [List.mem_map, List.mem_filter] at hm
          obtain ⟨h, ⟨hm1, hst⟩, he⟩ := hm
          simp at he
          obtain ⟨rfl, rfl⟩ := he
          exact ⟨⟨_, rfl⟩, trivial, trivial, h, hm1, rfl, by simpa using hst⟩

theorem icancel_terms {inv : Invoice} : SameTerms inv (icancel inv).1 := by
  unfold icancel
  cases hs : inv.state <;> simp only <;> try exact SameTerms.refl _
  all_goals
    by_cases c : hasSettled inv.htlcs = true
    · simp only [c, if_true]; exact SameTerms.refl _
    · rw [if_neg c]; exact SameTerms.refl _

theorem icancel_msgs {inv : Invoice} {k : Nat} {r : Res} (hm : (k, r) ∈ (icancel inv).2.2) :
    ∃ ah, r = .fail .canceled ah := by
  unfold icancel at hm
  cases hs : inv.state with
  | settled => simp [hs] at hm
  | canceled => simp [hs] at hm
  | «open» =>
    simp only [hs] at hm
    by_cases c : hasSettled inv.htlcs = true
    · simp [c] at hm
    · rw [if_neg c] at hm
      simp only [List.mem_map] at hm
      obtain ⟨h, _, he⟩ := hm
      simp at he; exact ⟨_, he.2.symm⟩
  | accepted =>
    simp only [hs] at hm
    by_cases c : hasSettled inv.htlcs = true
    · simp [c] at hm
    · rw [if_neg c] at hm
      simp only [List.mem_map] at hm
      obtain ⟨h, _, he⟩ := hm
      simp at he; exact ⟨_, he.2.symm⟩

theorem itimeout_terms {hold now : Nat} {inv : Invoice} : SameTerms inv (itimeout hold now inv).1 := by
  unfold itimeout
  by_cases c : inv.state ≠ .open
  · rw [if_pos c]; exact SameTerms.refl _
  · rw [if_neg c]; exact SameTerms.refl _

theorem itimeout_msgs {hold now : Nat} {inv : Invoice} {k : Nat} {r : Res}
    (hm : (k, r) ∈ (itimeout hold now inv).2) : ∃ ah, r = .fail .mppTimeout ah := by
  unfold itimeout at hm
  by_cases c : inv.state ≠ .open
  · rw [if_pos c] at hm; cases hm
  · rw [if_neg c] at hm
    simp only [List.mem_map] at hm
    obtain ⟨h, _, he⟩ := hm
    simp at he; exact ⟨_, he.2.symm⟩

/-! ### monotone states -/

/-- allowed invoice state transitions: open → accepted → settled | canceled (any number of steps). -/
def CState.le : CState → CState → Prop
  | .open, _ => True
  | .accepted, s => s ≠ .open
  | .settled, s => s = .settled
  | .canceled, s => s = .canceled

/-- allowed htlc state transitions: accepted → settled | canceled. -/
def HState.le : HState → HState → Prop
  | .accepted, _ => True
  | .settled, s => s = .settled
  | .canceled, s => s = .canceled

theorem CState.le_refl (a : CState) : a.le a := by cases a <;> simp [CState.le]
theorem HState.le_refl (a : HState) : a.le a := by cases a <;> simp [HState.le]
theorem CState.le_trans {a b c : CState} (h1 : a.le b) (h2 : b.le c) : a.le c := by
  cases a <;> cases b <;> cases c <;> simp_all [CState.le]
theorem HState.le_trans {a b c : HState} (h1 : a.le b) (h2 : b.le c) : a.le c := by
  cases a <;> cases b <;> cases c <;> simp_all [HState.le]

/-- `b` is a later version of invoice `a`: same terms, state moved forward, every htlc of `a` is
    still there with the same recorded terms and a state that moved forward. -/
def Mono (a b : Invoice) : Prop :=
  SameTerms a b ∧ a.state.le b.state ∧
  ∀ h ∈ a.htlcs, ∃ h' ∈ b.htlcs, h' = { h with state := h'.state } ∧ h.state.le h'.state

theorem SameTerms.trans {a b c : Invoice} (h1 : SameTerms a b) (h2 : SameTerms b c) : SameTerms a c := by
  obtain ⟨a1, a2, a3, a4, a5, a6, a7⟩ := h1
  obtain ⟨b1, b2, b3, b4, b5, b6, b7⟩ := h2
  exact ⟨a1.trans b1, a2.trans b2, a3.trans b3, a4.trans b4, a5.trans b5, a6.trans b6, a7.trans b7⟩

theorem Mono.refl (a : Invoice) : Mono a a :=
  ⟨SameTerms.refl a, CState.le_refl _, fun h hh => ⟨h, hh, rfl, HState.le_refl _⟩⟩

theorem Mono.trans {a b c : Invoice} (h1 : Mono a b) (h2 : Mono b c) : Mono a c := by
  refine ⟨h1.1.trans h2.1, CState.le_trans h1.2.1 h2.2.1, ?_⟩
  intro h hh
  obtain ⟨h', hh', e1, l1⟩ := h1.2.2 h hh
  obtain ⟨h'', hh'', e2, l2⟩ := h2.2.2 h' hh'
  refine ⟨h'', hh'', ?_, HState.le_trans l1 l2⟩
  rw [e2, e1]

/-- the htlc list after an operation: the old list (plus possibly one new htlc) with states moved
    forward. -/
theorem mono_of_map {a b : Invoice} (ht : SameTerms a b) (hs : a.state.le b.state)
    (extra : List Htlc) (f : Htlc → Htlc) (hf : StateOnly f)
    (hl : b.htlcs = (a.htlcs ++ extra).map f) (hfw : ∀ h ∈ a.htlcs, h.state.le (f h).state) :
    Mono a b := by
  refine ⟨ht, hs, ?_⟩
  intro h hh
  refine ⟨f h, ?_, hf h, hfw h hh⟩
  rw [hl]; exact List.mem_map.mpr ⟨h, by simp [hh], rfl⟩

theorem stateOnly_id : StateOnly (fun h => h) := fun _ => rfl

theorem alignHtlcs_map {inv inv' : Invoice} (ha : alignHtlcs inv = some inv') :
    ∃ f, StateOnly f ∧ inv'.htlcs = inv.htlcs.map f ∧ ∀ h ∈ inv.htlcs, h.state.le (f h).state := by
  unfold alignHtlcs at ha
  cases hs : inv.state with
  | settled =>
    simp [hs] at ha; subst ha
    refine ⟨_, stateOnly_settle, rfl, ?_⟩
    intro h _
    by_cases c : h.state = .accepted
    · simp [c, HState.le]
    · simp [c]; exact HState.le_refl _
  | canceled =>
    simp [hs] at ha
    obtain ⟨hns, rfl⟩ := ha
    refine ⟨_, stateOnly_cancel, rfl, ?_⟩
    intro h hh
    have := hasSettled_false hns h hh
    cases c : h.state <;> simp_all [HState.le]
  | accepted =>
    simp [hs] at ha
    obtain ⟨_, rfl⟩ := ha
    exact ⟨_, stateOnly_id, by simp, fun h _ => HState.le_refl _⟩
  | «open» =>
    simp [hs] at ha
    obtain ⟨_, rfl⟩ := ha
    exact ⟨_, stateOnly_id, by simp, fun h _ => HState.le_refl _⟩

theorem updatedInvoiceState_ne_open {H : Nat → Nat} {inv : Invoice} {ns s' : CState} {pre : Option Nat}
    (hu : updatedInvoiceState H inv ns pre = some s') : ns ≠ .open := by
  intro h
  unfold updatedInvoiceState at hu
  simp [h] at hu

theorem applyAdd_mono {H : Nat → Nat} {inv inv' : Invoice} {h : Htlc} {ns : Option CState}
    (ha : applyAdd H inv h ns = some inv') : Mono inv inv' := by
  obtain ⟨hterms, _, hst1, hst2, _⟩ := applyAdd_terms ha
  unfold applyAdd at ha
  by_cases c : (findHtlc inv h.key).isSome = true
  · simp [c] at ha
  rw [if_neg c] at ha
  cases ns with
  | none =>
    simp only at ha
    obtain ⟨f, hf, hl, hfw⟩ := alignHtlcs_map ha
    refine mono_of_map hterms (by rw [hst1 rfl]; exact CState.le_refl _) [h] f hf hl ?_
    intro g hg; exact hfw g (by simp [hg])
  | some s =>
    simp only at ha
    cases hus : updatedInvoiceState H { inv with htlcs := inv.htlcs ++ [h] } s inv.preimage with
    | none => simp [hus] at ha
    | some s' =>
      simp only [hus] at ha
      obtain ⟨rfl, hfrom, _⟩ := updatedInvoiceState_some hus
      have hne := updatedInvoiceState_ne_open hus
      obtain ⟨f, hf, hl, hfw⟩ := alignHtlcs_map ha
      refine mono_of_map hterms ?_ [h] f hf hl ?_
      · rw [hst2 _ rfl]
        simp only at hfrom
        rcases hfrom with ho | ho <;> rw [ho] <;> simp [CState.le, hne]
      · intro g hg; exact hfw g (by simp [hg])

theorem inotify_mono {H : Nat → Nat} {ctx : Ctx} {inv : Invoice} : Mono inv (inotify H ctx inv).1 := by
  unfold inotify
  cases hr : replay H ctx inv with
  | some r => exact Mono.refl _
  | none =>
    simp only
    cases hu : updateInvoice H ctx inv with
    | mk u r =>
      cases u with
      | none => exact Mono.refl _
      | add h ns =>
        simp only
        cases ha : applyAdd H inv h ns with
        | none => exact Mono.refl _
        | some inv' => exact applyAdd_mono ha

theorem isettle_mono {H : Nat → Nat} {p : Nat} {inv : Invoice} : Mono inv (isettle H p inv).1 := by
  unfold isettle
  cases hs : inv.state <;> simp only <;> try exact Mono.refl _
  by_cases ch : (!inv.hodl) = true
  · rw [if_pos ch]; exact Mono.refl _
  · rw [if_neg ch]
    cases hu : updatedInvoiceState H inv .settled (some p) with
    | none => exact Mono.refl _
    | some st =>
      cases st <;> try exact Mono.refl _
      refine mono_of_map (SameTerms.refl _) (by rw [hs]; simp [CState.le]) [] _ stateOnly_settle
        (by simp [settleAccepted]) ?_
      intro h _
      by_cases c : h.state = .accepted
      · simp [c, HState.le]
      · simp [c]; exact HState.le_refl _

theorem icancel_mono {inv : Invoice} : Mono inv (icancel inv).1 := by
  unfold icancel
  cases hs : inv.state <;> simp only <;> try exact Mono.refl _
  all_goals
    by_cases c : hasSettled inv.htlcs = true
    · rw [if_pos c]; exact Mono.refl _
    · rw [if_neg c]
      refine mono_of_map (SameTerms.refl _) (by rw [hs]; simp [CState.le]) [] _ stateOnly_cancel
        (by simp [cancelAll]) ?_
      intro h hh
      have := hasSettled_false (by simpa using c) h hh
      cases c' : h.state <;> simp_all [HState.le]

theorem itimeout_mono {hold now : Nat} {inv : Invoice} : Mono inv (itimeout hold now inv).1 := by
  unfold itimeout
  by_cases c : inv.state ≠ .open
  · rw [if_pos c]; exact Mono.refl _
  · rw [if_neg c]
    refine mono_of_map (SameTerms.refl _) (CState.le_refl _) [] _ (stateOnly_due hold now)
      (by simp) ?_
    intro h _
    by_cases d : due hold now h = true
    · have : h.state = .accepted := by
        unfold due at d; simp at d; exact d.1
      simp [d, this, HState.le]
    · simp [d]; exact HState.le_refl _

theorem replay_verdict {H R} {inv : Invoice} {ctx : Ctx} {g : Htlc} (hg : Good H R inv)
    (hf : findHtlc inv ctx.key = some g) (hh : ctx.hash = inv.hash) :
    (inotify H ctx inv).1 = inv ∧
    (g.state = .accepted → (inotify H ctx inv).2 = .accept .replayToAccepted) ∧
    (g.state = .canceled → (inotify H ctx inv).2 = .fail .replayToCanceled ctx.height) ∧
    (g.state = .settled → ∃ p, inv.preimage = some p ∧ H p = inv.hash ∧
        (inotify H ctx inv).2 = .settle .replayToSettled p ctx.height) := by
  obtain ⟨gm, _⟩ := findHtlc_some hf
  unfold inotify replay
  simp only [hf]
  cases hs : g.state with
  | accepted => simp
  | canceled => simp
  | settled =>
    have hst := good_settled_state hg gm hs
    obtain ⟨⟨p, hp, hHp⟩, _⟩ := hg.settledS hst
    simp [hp, hh, hHp]

theorem applyAdd_htlcs {H : Nat → Nat} {inv inv' : Invoice} {h : Htlc} {ns : Option CState}
    (ha : applyAdd H inv h ns = some inv') :
    ∃ f, StateOnly f ∧ inv'.htlcs = (inv.htlcs ++ [h]).map f := by
  unfold applyAdd at ha
  by_cases c : (findHtlc inv h.key).isSome = true
  · simp [c] at ha
  rw [if_neg c] at ha
  cases ns with
  | none =>
    simp only at ha
    obtain ⟨f, hf, hl, _⟩ := alignHtlcs_map ha
    exact ⟨f, hf, hl⟩
  | some s =>
    simp only at ha
    cases hus : updatedInvoiceState H { inv with htlcs := inv.htlcs ++ [h] } s inv.preimage with
    | none => simp [hus] at ha
    | some s' =>
      simp only [hus] at ha
      obtain ⟨f, hf, hl, _⟩ := alignHtlcs_map ha
      exact ⟨f, hf, hl⟩

end LndModel.C15
