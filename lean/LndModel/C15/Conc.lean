/-
C15 — interleaving model of the invoice registry at the granularity of store transactions.

`Model.lean` treats every NotifyExitHopHtlc / SettleHodlInvoice / CancelInvoice / clock tick as one
atomic step.  In lnd only the database transaction (`InvoiceDB.UpdateInvoice`, `AddInvoice`) is
atomic:

* `processKeySend` / `processAMP` commit their just-in-time `AddInvoice` BEFORE the registry lock
  is taken (invoiceregistry.go, NotifyExitHopHtlc);
* `cancelSingleHtlc` (one hold timer of the event loop = MPP set timeout) never takes the registry
  lock: its `UpdateInvoice` transaction and its `notifyHodlSubscribers` call interleave with
  everything else, one htlc at a time;
* the invoice expiry watcher calls `cancelInvoiceImpl(hash, force)` from its own goroutine;
* every `notifyHodlSubscribers` / `hodlSubscribe` call takes only `hodlSubscriptionsMux`, so the
  fan-out of one transaction's resolutions is not atomic with that transaction.

This module splits every event of the atomic model into its transaction (`txOf`: new database
state, reply, the RAW list of resolutions handed to `notifyHodlSubscribers`, the subscription to
make) and the later per-resolution delivery steps, adds the actors that the atomic model lacks
(single hold timers `timersTx`, clock advance without timers, `expireTx` = cancelInvoiceImpl with
its `cancelAccepted` flag as called by the InvoiceExpiryWatcher, HodlUnsubscribeAll), and defines
the small-step system `cstep` over ARBITRARY interleavings of commits and deliveries.  It
over-approximates lnd (the registry mutex excludes some of these interleavings); the theorems of
ConcProps.lean hold for every schedule.  `step_eq_finish`: the atomic model is the schedule that
finishes each transaction's fan-out at once.

Tie to the code: the driver replays the harness' concurrent cases (2-3 goroutines + timers) by
searching a schedule of this system that reproduces every answer, every hodl message and the final
dumps (Driver.lean, `pend`); the sequential expiry / unsubscribe operations are replayed with
`expireTx` / `CAct.unsub`.
-/
import LndModel.C15.Model

namespace LndModel.C15

/-- one committed transaction: database afterwards (`reg.subs` untouched), the caller's reply, the
    resolutions still to be handed to `notifyHodlSubscribers` (in order) and the circuit key still
    to be passed to `hodlSubscribe`. -/
structure Tx where
  reg : Reg
  reply : Reply
  msgs : List (Nat × Res)
  sub : Option Nat
  deriving Repr

/-- `hodlSubscribe` happens for accept resolutions only. -/
def subOf (key : Nat) : Res → Option Nat
  | .accept _ => some key
  | _ => none

def addSub (subs : List Nat) : Option Nat → List Nat
  | some k => if subs.contains k then subs else subs ++ [k]
  | none => subs

/-- transaction part of `notify` (Model.lean) — same code, the fan-out left undone. -/
def notifyTx (H : Nat → Nat) (P : List (Nat × Nat) → Nat → Nat → Nat) (cfg : Cfg) (reg : Reg)
    (ctx : Ctx) : Tx :=
  match preprocess H cfg reg ctx with
  | .error e => ⟨reg, .res (.fail e ctx.height), [], none⟩
  | .ok reg =>
    match lookup cfg reg.keys ctx.hash (refAddr ctx) (ctx.amp && ctx.pathID.isNone) with
    | none => ⟨reg, .res (.fail .invoiceNotFound ctx.height), [], none⟩
    | some h =>
      match findHash reg.invs h with
      | some inv =>
        let (inv', r) := inotify H ctx inv
        let r := fixHeight inv' ctx.key r
        ⟨{ reg with invs := setInv reg.invs inv' }, .res r, notifyMsgs inv' r, subOf ctx.key r⟩
      | none =>
        match findAmp reg.amps h with
        | none => ⟨reg, .res (.fail .invoiceNotFound ctx.height), [], none⟩
        | some a =>
          let (a', r, msgs) := anotify H P false ctx a
          if r.addsHtlc ∧
              reg.amps.any (fun b => b.hash != a.hash && b.sets.any (fun x => x.id == ctx.setID)) then
            ⟨reg, .res (.fail .invoiceNotFound ctx.height), [], none⟩
          else
            ⟨{ reg with amps := setAmp reg.amps a' }, .res r, msgs, subOf ctx.key r⟩

def settleTx (H : Nat → Nat) (reg : Reg) (p : Nat) : Tx :=
  match findHash reg.invs (H p) with
  | some inv =>
    let (inv', o, msgs) := isettle H p inv
    ⟨{ reg with invs := setInv reg.invs inv' }, .op o, msgs, none⟩
  | none =>
    match findAmp reg.amps (H p) with
    | none => ⟨reg, .op .notFound, [], none⟩
    | some a => ⟨reg, .op (if a.state = .canceled then .alreadyCanceled else .stillOpen), [], none⟩

def cancelTx (reg : Reg) (hash : Nat) : Tx :=
  match findHash reg.invs hash with
  | some inv =>
    let (inv', o, msgs) := icancel inv
    ⟨{ reg with invs := setInv reg.invs inv' }, .op o, msgs, none⟩
  | none =>
    match findAmp reg.amps hash with
    | none => ⟨reg, .op .notFound, [], none⟩
    | some a =>
      let (a', o, msgs) := acancel a
      ⟨{ reg with amps := setAmp reg.amps a' }, .op o, msgs, none⟩

def tickTx (cfg : Cfg) (reg : Reg) (dt : Nat) : Tx :=
  let now := reg.now + dt
  let rs := reg.invs.map (itimeout cfg.hold now)
  let as := reg.amps.map (atimeout cfg.hold now)
  ⟨{ invs := rs.map (·.1), amps := as.map (·.1), subs := reg.subs, now := now }, .unit,
    (rs.map (·.2)).flatten ++ (as.map (·.2)).flatten, none⟩

/-- the transaction of an atomic event. -/
def txOf (H : Nat → Nat) (P : List (Nat × Nat) → Nat → Nat → Nat) (cfg : Cfg) (reg : Reg) :
    Event → Tx
  | .addInvoice s =>
    match addInvoice reg s with
    | some reg' => ⟨reg', .op .ok, [], none⟩
    | none => ⟨reg, .op .err, [], none⟩
  | .notify ctx => notifyTx H P cfg reg { ctx with now := reg.now, rejectDelta := cfg.rejectDelta }
  | .settle p => settleTx H reg p
  | .cancel h => cancelTx reg h
  | .tick dt => tickTx cfg reg dt

/-- the whole fan-out of a transaction done at once (what the atomic model does). -/
def finish (t : Tx) : Reg × Out :=
  let (subs, delivered) := deliver t.reg.subs t.msgs
  ({ t.reg with subs := addSub subs t.sub }, ⟨t.reply, delivered⟩)

/-! ### actors that the atomic model does not have -/

/-- a hold timer may fire for an accepted htlc selected by `sel`. -/
def duep (sel : Htlc → Bool) (h : Htlc) : Bool := h.state == .accepted && sel h

/-- `cancelSingleHtlc` for the selected htlcs of a plain invoice (`itimeout` with an arbitrary
    selection instead of "hold time passed"). -/
def itimeoutP (sel : Htlc → Bool) (inv : Invoice) : Invoice × List (Nat × Res) :=
  if inv.state ≠ .open then (inv, [])
  else
    ({ inv with htlcs := (inv.htlcs.map
          (fun h => if duep sel h then { h with state := .canceled } else h)) },
     (inv.htlcs.filter (duep sel)).map (fun h => (h.key, Res.fail .mppTimeout h.acceptHeight)))

def atimeoutP (sel : Htlc → Bool) (inv : AmpInv) : AmpInv × List (Nat × Res) :=
  if inv.state ≠ .open then (inv, [])
  else
    (cancelWhere inv (fun h => duep sel h.base),
     (inv.htlcs.filter (fun h => duep sel h.base)).map
       (fun h => (h.base.key, Res.fail .mppTimeout h.base.acceptHeight)))

/-- some hold timers fire: `sel hash htlc` selects the (invoice, htlc) pairs whose
    `cancelSingleHtlc` transaction commits now — a single pair for one timer of lnd's event loop,
    "hold time passed" for the atomic model's `tick`.  The clock is not touched. -/
def timersTx (sel : Nat → Htlc → Bool) (reg : Reg) : Tx :=
  let rs := reg.invs.map (fun i => itimeoutP (sel i.hash) i)
  let as := reg.amps.map (fun a => atimeoutP (sel a.hash) a)
  ⟨{ invs := rs.map (·.1), amps := as.map (·.1), subs := reg.subs, now := reg.now }, .unit,
    (rs.map (·.2)).flatten ++ (as.map (·.2)).flatten, none⟩

/-- the selection of one hold timer: htlc `key` of the invoice with payment hash `hash`. -/
def oneTimer (hash key : Nat) : Nat → Htlc → Bool := fun x h => x == hash && h.key == key

/-- `cancelInvoiceImpl(hash, cancelAccepted = force)`: `shouldCancel` leaves an accepted invoice
    alone unless forced (InvoiceExpiryWatcher: time-based expiry of a non-keysend invoice is not
    forced, keysend and height-based expiry are); everything else is `CancelInvoice`. -/
def expireTx (reg : Reg) (hash : Nat) (force : Bool) : Tx :=
  match findHash reg.invs hash with
  | some inv =>
    if inv.state = .accepted ∧ force = false then ⟨reg, .op .ok, [], none⟩ else cancelTx reg hash
  | none => cancelTx reg hash

/-- the pure part of the spontaneous-payment pre-processing: the fail reason, or the invoice that
    `processKeySend` / `processAMP` try to add. -/
def preSpec (H : Nat → Nat) (cfg : Cfg) (ctx : Ctx) : Except FailReason (Option InvSpec) :=
  if cfg.acceptAMP && ctx.amp then
    match ctx.mpp with
    | none => .error .ampError
    | some (total, addr) =>
      if expiryTooSoon ctx.expiry ctx.height cfg.rejectDelta then .error .ampError
      else .ok (some
        { hash := ctx.hash, value := total, payAddr := addr, preimage := none,
          finalCltv := cfg.rejectDelta, tlv := true, payAddrOpt := true, payAddrReq := false,
          mppOpt := false, ampReq := true, blinded := false, hodl := false })
  else if cfg.acceptKeysend && !ctx.amp then
    match ctx.ks with
    | none => .ok none
    | some none => .error .keySendError
    | some (some p) =>
      if H p ≠ ctx.hash then .error .keySendError
      else if ctx.mpp.isSome then .error .keySendError
      else if expiryTooSoon ctx.expiry ctx.height cfg.rejectDelta then .error .keySendError
      else .ok (some
        { hash := ctx.hash, value := ctx.amt, payAddr := 0, preimage := some p,
          finalCltv := cfg.rejectDelta, tlv := true, payAddrOpt := false, payAddrReq := false,
          mppOpt := false, ampReq := false, blinded := false, hodl := cfg.ksHold })
  else .ok none

/-- the registry configuration seen by the locked part of NotifyExitHopHtlc: no pre-processing. -/
def Cfg.locked (cfg : Cfg) : Cfg := { cfg with acceptKeysend := false, acceptAMP := false }

/-- the locked part of NotifyExitHopHtlc alone (`notifyExitHopHtlcLocked`): the pre-processing
    checks are re-evaluated (they are pure), the just-in-time invoice is NOT added here — its
    `AddInvoice` is a separate, earlier transaction (`CAct.ev (.addInvoice _)`). -/
def coreTx (H : Nat → Nat) (P : List (Nat × Nat) → Nat → Nat → Nat) (cfg : Cfg) (reg : Reg)
    (ctx : Ctx) : Tx :=
  let ctx := { ctx with now := reg.now, rejectDelta := cfg.rejectDelta }
  match preSpec H cfg ctx with
  | .error e => ⟨reg, .res (.fail e ctx.height), [], none⟩
  | .ok _ => notifyTx H P cfg.locked reg ctx

/-! ### the interleaving system -/

/-- what is left to do of a committed transaction. -/
structure Thread where
  msgs : List (Nat × Res)
  sub : Option Nat
  deriving Repr

structure CSt where
  reg : Reg
  threads : List Thread
  deriving Repr

inductive CAct
  /-- the transaction of an atomic event (for `notify`: JIT AddInvoice and locked part together) -/
  | ev (e : Event)
  /-- the locked part of NotifyExitHopHtlc alone -/
  | core (ctx : Ctx)
  /-- hold timers (`cancelSingleHtlc`) for the selected htlcs -/
  | timers (sel : Nat → Htlc → Bool)
  /-- the clock advances, no timer fires yet -/
  | advance (dt : Nat)
  /-- `cancelInvoiceImpl(hash, force)` of the invoice expiry watcher -/
  | expire (hash : Nat) (force : Bool)
  /-- thread `i` performs its next `notifyHodlSubscribers` (one resolution) / its `hodlSubscribe` -/
  | run (i : Nat)
  /-- `HodlUnsubscribeAll` (the harness has one subscriber channel) -/
  | unsub

/-- what becomes visible outside the registry in one step: the resolution returned to the caller
    of NotifyExitHopHtlc (with the call's circuit key) and the resolutions delivered on the
    subscriber channel. -/
structure COut where
  reply : Option Reply := none
  ret : Option (Nat × Res) := none
  del : List (Nat × Res) := []
  deriving Repr

def retOf (key : Nat) : Reply → Option (Nat × Res)
  | .res r => some (key, r)
  | _ => none

def commit (s : CSt) (t : Tx) (key : Option Nat) : CSt × COut :=
  ({ reg := t.reg, threads := s.threads ++ [⟨t.msgs, t.sub⟩] },
   { reply := some t.reply, ret := key.bind (fun k => retOf k t.reply) })

/-- next action of one thread on the subscription table. -/
def runThread (subs : List Nat) (t : Thread) : List Nat × Thread × List (Nat × Res) :=
  match t.msgs with
  | m :: rest =>
    (subs.filter (fun k => !(k == m.1)), { t with msgs := rest },
      if subs.contains m.1 then [m] else [])
  | [] =>
    match t.sub with
    | some k => (addSub subs (some k), { t with sub := none }, [])
    | none => (subs, t, [])

def cstep (H : Nat → Nat) (P : List (Nat × Nat) → Nat → Nat → Nat) (cfg : Cfg) (s : CSt) :
    CAct → CSt × COut
  | .ev e =>
    commit s (txOf H P cfg s.reg e) (match e with | .notify ctx => some ctx.key | _ => none)
  | .core ctx => commit s (coreTx H P cfg s.reg ctx) (some ctx.key)
  | .timers sel => commit s (timersTx sel s.reg) none
  | .advance dt => ({ s with reg := { s.reg with now := s.reg.now + dt } }, {})
  | .expire h f => commit s (expireTx s.reg h f) none
  | .run i =>
    match s.threads[i]? with
    | none => (s, {})
    | some t =>
      let (subs, t', del) := runThread s.reg.subs t
      ({ reg := { s.reg with subs := subs }, threads := s.threads.set i t' }, { del := del })
  | .unsub => ({ s with reg := { s.reg with subs := [] } }, {})

/-- all outputs of a schedule, oldest first, each with the state right after its step. -/
def ctrace (H : Nat → Nat) (P : List (Nat × Nat) → Nat → Nat → Nat) (cfg : Cfg) (s : CSt) :
    List CAct → List (CSt × COut)
  | [] => []
  | a :: as => (cstep H P cfg s a) :: ctrace H P cfg (cstep H P cfg s a).1 as

def crun (H : Nat → Nat) (P : List (Nat × Nat) → Nat → Nat → Nat) (cfg : Cfg) (s : CSt) :
    List CAct → CSt
  | [] => s
  | a :: as => crun H P cfg (cstep H P cfg s a).1 as

def CSt.empty : CSt := { reg := Reg.empty, threads := [] }

end LndModel.C15
