/-
C15 — property theorems (DESIGN.md §2 C15): "a preimage is released only for a fully and
correctly paid invoice".  Helper lemmas and the inductive invariant `Good` live in Lemmas.lean.

All theorems quantify over every hash function `H`, every registry configuration `cfg`
(reject delta, keysend on/off, hold time, kv or SQL lookup rule) and every list of events
(`addInvoice`, `notify` = NotifyExitHopHtlc, `settle` = SettleHodlInvoice, `cancel` =
CancelInvoice, `tick` = clock advance firing the hold timers) starting from the empty registry.
The only hypothesis is `Event.noAmp`: no AMP invoice is added (AMP invoices are outside the
model; AMP *payloads* are inside).
-/
import LndModel.C15.Lemmas

set_option linter.unusedSimpArgs false

namespace LndModel.C15

/-! ### statement vocabulary -/

/-- the settled htlcs of an invoice that belong to an MPP set (declared total > 0). -/
def settledMpp (inv : Invoice) : List Htlc :=
  inv.htlcs.filter (fun g => g.state == .settled && decide (0 < g.mppTotal))

/-- `h` left the required final CLTV margin when it was accepted (exact guard of the code:
    `expiry ≥ uint32(int32 acceptHeight + int32 delta)` for both deltas). -/
def MarginOk (R : Int) (inv : Invoice) (h : Htlc) : Prop :=
  expiryTooSoon h.expiry h.acceptHeight R = false ∧
  expiryTooSoon h.expiry h.acceptHeight inv.finalCltv = false

/-- the payment conditions of the property for a settled htlc `h` of invoice `inv`.
    `authOk` records the payment-address test made when the htlc was accepted, see
    `accepted_htlc_terms`. -/
structure PaidFor (R : Int) (inv : Invoice) (h : Htlc) : Prop where
  auth : h.authOk = true
  margin : MarginOk R inv h
  /-- legacy (single htlc) payment: the htlc alone pays the invoice value -/
  legacy : h.mppTotal = 0 → inv.value ≤ h.amt
  /-- MPP set: one common total ≥ invoice value, the settled set sums to at least that total,
      every member passed the address test and left the margin -/
  mpp : 0 < h.mppTotal →
    inv.value ≤ h.mppTotal ∧ h.mppTotal ≤ sumAmt (settledMpp inv) ∧
    ∀ g ∈ settledMpp inv, g.mppTotal = h.mppTotal ∧ g.authOk = true ∧ MarginOk R inv g

/-- circuit key `k` is recorded settled on a settled invoice with preimage `p`, `H p` is the
    invoice's payment hash and the payment conditions hold. -/
def Paid (H : Nat → Nat) (R : Int) (reg : Reg) (k p : Nat) : Prop :=
  ∃ inv ∈ reg.invs, inv.state = .settled ∧ inv.preimage = some p ∧ H p = inv.hash ∧
    ∃ h ∈ inv.htlcs, h.key = k ∧ h.state = .settled ∧ PaidFor R inv h

theorem good_paid {H R} {inv : Invoice} {h : Htlc} (hg : Good H R inv) (hs : inv.state = .settled)
    (hh : h ∈ inv.htlcs) (hst : h.state = .settled) : PaidFor R inv h := by
  obtain ⟨_, hna, _, hcomp⟩ := hg.settledS hs
  have hsum : mppSum inv.htlcs = sumAmt (settledMpp inv) := by
    unfold settledMpp
    rw [sumAmt_filter]
    unfold mppSum
    apply sum_map_congr
    intro x hx
    have := hna x hx
    cases hxs : x.state <;> simp_all [mppPart]
  have hmem : ∀ g ∈ settledMpp inv, g ∈ inv.htlcs ∧ g.state = .settled ∧ 0 < g.mppTotal := by
    intro g hg'
    unfold settledMpp at hg'
    obtain ⟨m, c⟩ := List.mem_filter.mp hg'
    simp at c
    exact ⟨m, c.1, c.2⟩
  refine ⟨hg.static.auth h hh, hg.static.margin h hh, hg.static.legacyAmt h hh, ?_⟩
  intro hpos
  refine ⟨hg.static.totalGe h hh hpos, ?_, ?_⟩
  · rw [← hsum]; exact hcomp h hh (by rw [hst]; simp) hpos
  · intro g hg'
    obtain ⟨gm, gs, gp⟩ := hmem g hg'
    exact ⟨hg.sameTotal g gm h hh (by rw [gs]; simp) (by rw [hst]; simp) gp hpos,
      hg.static.auth g gm, hg.static.margin g gm⟩

theorem paid_of_settledIn {H R} {reg : Reg} {k p : Nat} (hg : RegGood H R reg)
    (hs : SettledIn reg k p) : Paid H R reg k p := by
  obtain ⟨inv, hm, s1, s2, h, hh, hk, hst⟩ := hs
  have hgi := hg.2 inv hm
  obtain ⟨⟨q, hq, hHq⟩, _⟩ := hgi.settledS s1
  rw [s2] at hq; cases hq
  exact ⟨inv, hm, s1, s2, hHq, h, hh, hk, hst, good_paid hgi s1 hh hst⟩

/-! ### must: settle_only_if_paid -/

/-- **settle_only_if_paid.** After any event list, whenever the next event produces a settle
    resolution with preimage `p` for circuit key `k` — returned by NotifyExitHopHtlc (new htlc,
    replay, or `DuplicateToSettled`), or delivered to a hodl subscriber by NotifyExitHopHtlc /
    SettleHodlInvoice — then in the registry after the event: `k` is a settled htlc of a settled
    invoice whose preimage is `p`, `H p` is that invoice's payment hash (and the hash of the
    notify call), the htlc passed the payment-address test, left the required CLTV margin at its
    accept height, and either pays the invoice value alone (legacy) or belongs to a settled set
    with one common total ≥ value whose amounts sum to at least that total. CancelInvoice and
    hold-timer expiry never produce a settle resolution. -/
theorem settle_only_if_paid (H : Nat → Nat) (cfg : Cfg) (evs : List Event) (e : Event)
    (hna : ∀ x ∈ evs, x.noAmp) (hne : e.noAmp) :
    let reg := run H cfg Reg.empty evs
    let reg' := (step H cfg reg e).1
    let out := (step H cfg reg e).2
    (∀ ctx kind p ht, e = .notify ctx → out.reply = .res (.settle kind p ht) →
        H p = ctx.hash ∧ Paid H cfg.rejectDelta reg' ctx.key p) ∧
    (∀ k kind p ht, (k, Res.settle kind p ht) ∈ out.msgs → Paid H cfg.rejectDelta reg' k p) := by
  intro reg reg' out
  have hg : RegGood H cfg.rejectDelta reg := run_good rfl evs _ (regGood_empty H _) hna
  have hg' : RegGood H cfg.rejectDelta reg' := step_good hg rfl hne
  refine ⟨?_, ?_⟩
  · intro ctx kind p ht he hrep
    subst he
    have := (notify_settles (cfg := cfg)
      (ctx := { ctx with now := reg.now, rejectDelta := cfg.rejectDelta }) hg rfl).1 kind p ht hrep
    exact ⟨this.2, paid_of_settledIn hg' this.1⟩
  · intro k kind p ht hmsg
    cases e with
    | addInvoice s =>
      simp only [out, step] at hmsg
      cases ha : addInvoice reg s <;> simp [ha] at hmsg
    | notify ctx =>
      exact paid_of_settledIn hg' ((notify_settles (cfg := cfg)
        (ctx := { ctx with now := reg.now, rejectDelta := cfg.rejectDelta }) hg rfl).2 k kind p ht hmsg)
    | settle q => exact paid_of_settledIn hg' (settleHodl_settles k kind p ht hmsg).1
    | cancel h => exact absurd hmsg (cancel_no_settle k kind p ht)
    | tick dt => exact absurd hmsg (tick_no_settle k kind p ht)

/-- the guard in plain arithmetic when no int32/uint32 wrap-around occurs. -/
theorem margin_plain {expiry : Nat} {height delta : Int}
    (h : expiryTooSoon expiry height delta = false) (h0 : 0 ≤ height + delta)
    (h1 : height + delta < 4294967296) : height + delta ≤ (expiry : Int) := by
  unfold expiryTooSoon u32OfSum at h
  simp at h
  have e : (height + delta) % 4294967296 = height + delta := Int.emod_eq_of_lt h0 h1
  rw [e] at h
  omega

/-! ### must: states_monotone -/

/-- **states_monotone** (one event). Every invoice of a reachable registry is still present
    after the next event with the same terms, its state moved along
    open → accepted → settled | canceled, and each of its htlcs is still recorded with the same
    terms and a state moved along accepted → settled | canceled. -/
theorem states_monotone (H : Nat → Nat) (cfg : Cfg) (evs : List Event) (e : Event)
    (hna : ∀ x ∈ evs, x.noAmp) :
    let reg := run H cfg Reg.empty evs
    ∀ i ∈ reg.invs, ∃ i' ∈ (step H cfg reg e).1.invs, Mono i i' := by
  intro reg
  exact step_mono (run_good rfl evs _ (regGood_empty H cfg.rejectDelta) hna)

/-- **states_monotone** (any number of further events). -/
theorem states_monotone_run (H : Nat → Nat) (cfg : Cfg) (evs more : List Event)
    (hna : ∀ x ∈ evs, x.noAmp) (hnb : ∀ x ∈ more, x.noAmp) :
    let reg := run H cfg Reg.empty evs
    ∀ i ∈ reg.invs, ∃ i' ∈ (run H cfg reg more).invs, Mono i i' := by
  intro reg
  have hg : RegGood H cfg.rejectDelta reg := run_good rfl evs _ (regGood_empty H _) hna
  clear_value reg
  induction more generalizing reg with
  | nil => intro i hi; exact ⟨i, hi, Mono.refl i⟩
  | cons e es ih =>
    intro i hi
    obtain ⟨i1, h1, m1⟩ := step_mono (cfg := cfg) (e := e) hg i hi
    have hg1 := step_good (e := e) hg rfl (hnb e (by simp))
    obtain ⟨i2, h2, m2⟩ := ih (fun x hx => hnb x (by simp [hx])) _ hg1 i1 h1
    exact ⟨i2, h2, m1.trans m2⟩

/-- no htlc is both settled and canceled: a settled htlc stays settled, a canceled one stays
    canceled, in every later version of the invoice. -/
theorem settled_xor_canceled {a b : Invoice} (hm : Mono a b) {h : Htlc} (hh : h ∈ a.htlcs) :
    ∃ h' ∈ b.htlcs, h'.key = h.key ∧ (h.state = .settled → h'.state = .settled) ∧
      (h.state = .canceled → h'.state = .canceled) := by
  obtain ⟨h', hh', e, l⟩ := hm.2.2 h hh
  refine ⟨h', hh', by rw [e], ?_, ?_⟩
  · intro hs; rw [hs] at l; exact l
  · intro hs; rw [hs] at l; exact l

/-! ### must: amt_paid_exact -/

/-- **amt_paid_exact.** A settled (non-AMP) invoice records as amount paid exactly the sum of
    its settled htlcs. -/
theorem amt_paid_exact (H : Nat → Nat) (cfg : Cfg) (evs : List Event) (hna : ∀ x ∈ evs, x.noAmp) :
    ∀ inv ∈ (run H cfg Reg.empty evs).invs, inv.state = .settled →
      inv.amtPaid = sumAmt (inv.htlcs.filter (fun h => h.state == .settled)) := by
  intro inv hm hs
  have hg : RegGood H cfg.rejectDelta _ := run_good rfl evs _ (regGood_empty H _) hna
  obtain ⟨_, _, hp, _⟩ := (hg.2 inv hm).settledS hs
  rw [hp, sumAmt_filter]
  unfold settledSum
  apply sum_map_congr
  intro x _
  cases hx : x.state <;> simp [settledPart, hx]

/-! ### must: replay_same_verdict -/

/-- **replay_same_verdict.** For an invoice of any reachable registry: notifying a circuit key
    that is already recorded on it changes nothing and yields the verdict that belongs to the
    recorded htlc state (accepted → accept, canceled → fail, settled → settle with the invoice's
    preimage, which hashes to the payment hash) — whatever amount, expiry, height, MPP/AMP/keysend
    records the replayed call carries.  (Registry level: this is the database part of
    NotifyExitHopHtlc; the keysend/AMP pre-check that runs before it is the documented finding.) -/
theorem replay_same_verdict (H : Nat → Nat) (cfg : Cfg) (evs : List Event)
    (hna : ∀ x ∈ evs, x.noAmp) :
    ∀ inv ∈ (run H cfg Reg.empty evs).invs, ∀ (ctx : Ctx) (g : Htlc),
      findHtlc inv ctx.key = some g → ctx.hash = inv.hash →
      (inotify H ctx inv).1 = inv ∧
      (g.state = .accepted → (inotify H ctx inv).2 = .accept .replayToAccepted) ∧
      (g.state = .canceled → (inotify H ctx inv).2 = .fail .replayToCanceled ctx.height) ∧
      (g.state = .settled → ∃ p, inv.preimage = some p ∧ H p = inv.hash ∧
          (inotify H ctx inv).2 = .settle .replayToSettled p ctx.height) := by
  intro inv hm ctx g hf hh
  have hg : RegGood H cfg.rejectDelta _ := run_good rfl evs _ (regGood_empty H _) hna
  exact replay_verdict (hg.2 inv hm) hf hh

/-! ### meaning of the recorded terms -/

/-- the payment-address test of the code for a new htlc: MPP record → its address equals the
    invoice's; blinded path without MPP record → the path ID equals the invoice's address;
    neither → the invoice does not require an address or the call is a valid
    keysend (the sender knows the preimage). -/
def authCheck (H : Nat → Nat) (ctx : Ctx) (inv : Invoice) : Bool :=
  match effMpp ctx with
  | some (_, a) => decide (a = inv.payAddr)
  | none => validKeysend H ctx || !inv.payAddrReq

/-- **meaning of the recorded htlc terms** (ties the ghost field `authOk` and the stored fields
    to the call that created the htlc): when NotifyExitHopHtlc records a new circuit key, the
    record carries the amount, expiry and height of that call, the total of its MPP record (0 if
    none) and `authOk` is the value of the payment-address test on that call. -/
theorem accepted_htlc_terms {H : Nat → Nat} {ctx : Ctx} {inv : Invoice} {g : Htlc}
    (hfresh : findHtlc inv ctx.key = none)
    (hrec : findHtlc (inotify H ctx inv).1 ctx.key = some g) :
    g.amt = ctx.amt ∧ g.expiry = ctx.expiry ∧ g.acceptHeight = ctx.height ∧
    g.acceptTime = ctx.now ∧
    g.mppTotal = (match effMpp ctx with | some (t, _) => t | none => 0) ∧
    g.authOk = authCheck H ctx inv := by
  have hr : replay H ctx inv = none := by unfold replay; simp [hfresh]
  unfold inotify at hrec
  simp only [hr] at hrec
  cases hu : updateInvoice H ctx inv with
  | mk u r =>
    rw [hu] at hrec
    cases u with
    | none => simp only at hrec; rw [hfresh] at hrec; cases hrec
    | add h ns =>
      simp only at hrec
      cases ha : applyAdd H inv h ns with
      | none => rw [ha] at hrec; simp only at hrec; rw [hfresh] at hrec; cases hrec
      | some inv' =>
        rw [ha] at hrec; simp only at hrec
        obtain ⟨f, hf, hl⟩ := applyAdd_htlcs ha
        obtain ⟨gm, gk⟩ := findHtlc_some hrec
        rw [hl] at gm
        obtain ⟨x, hx, rfl⟩ := List.mem_map.mp gm
        rw [hf.key] at gk
        have hxh : x = h := by
          rcases List.mem_append.mp hx with hx | hx
          · exact absurd gk (findHtlc_none hfresh x hx)
          · simpa using hx
        subst hxh
        rw [hf.amt, hf.expiry, hf.acceptHeight, hf.mppTotal, hf.authOk]
        have hat : (f x).acceptTime = x.acceptTime := by rw [hf x]
        rw [hat]
        unfold updateInvoice at hu
        by_cases c : (ctx.amp && ctx.mpp.isNone) = true
        · simp [c] at hu
        · rw [if_neg c] at hu
          cases hm : effMpp ctx with
          | none =>
            rw [hm] at hu; simp only at hu
            obtain ⟨_, _, _, _, _, _, _, hh, _⟩ := updateLegacy_add hu
            subst hh
            simp [mkHtlc, authCheck, hm]
          | some ta =>
            obtain ⟨t, a⟩ := ta
            rw [hm] at hu; simp only at hu
            obtain ⟨_, _, _, _, _, _, _, _, hh, _⟩ := updateMpp_add hu
            subst hh
            simp [mkHtlc, authCheck, hm]

/-! ### non-vacuity: concrete runs (hash function `p ↦ p + 1000`) -/

def exH : Nat → Nat := fun p => p + 1000
def exCfg : Cfg := { rejectDelta := 4, acceptKeysend := false, ksHold := false, hold := 30, sql := false }
def exInv : InvSpec :=
  { hash := 1007, value := 100, payAddr := 55, preimage := some 7, finalCltv := 9, tlv := true,
    payAddrOpt := false, payAddrReq := true, mppOpt := true, ampReq := false, blinded := false,
    hodl := false }
def exShard (key amt : Nat) : Ctx :=
  { hash := 1007, key := key, amt := amt, expiry := 120, height := 100, rejectDelta := 0,
    mpp := some (100, 55), pathID := none, total := 0, amp := false, ks := none, now := 0 }

/-- two shards of 60 + 40 towards a 100 msat invoice: the second call settles with preimage 7,
    the first shard is settled through its hodl subscription. -/
example :
    (step exH exCfg (run exH exCfg Reg.empty [.addInvoice exInv, .notify (exShard 1 60)])
      (.notify (exShard 2 40))).2.reply = .res (.settle .settled 7 100) ∧
    (step exH exCfg (run exH exCfg Reg.empty [.addInvoice exInv, .notify (exShard 1 60)])
      (.notify (exShard 2 40))).2.msgs = [(1, .settle .settled 7 100)] := by
  decide

/-- one msat short: no settle, the invoice stays open; a replay of shard 1 is answered `accept`. -/
example :
    (step exH exCfg (run exH exCfg Reg.empty [.addInvoice exInv, .notify (exShard 1 60)])
      (.notify (exShard 2 39))).2.reply = .res (.accept .partialAccepted) ∧
    (step exH exCfg (run exH exCfg Reg.empty [.addInvoice exInv, .notify (exShard 1 60),
      .notify (exShard 2 39)]) (.notify (exShard 1 60))).2.reply = .res (.accept .replayToAccepted) := by
  decide

/-- the hold timer: after 30 s the first shard is canceled, its replay is answered `fail`. -/
example :
    (step exH exCfg (run exH exCfg Reg.empty [.addInvoice exInv, .notify (exShard 1 60), .tick 30])
      (.notify (exShard 1 60))).2.reply = .res (.fail .replayToCanceled 100) := by
  decide

def exBlinded (path : Nat) : Ctx :=
  { hash := 1007, key := 5, amt := 100, expiry := 120, height := 100, rejectDelta := 0,
    mpp := none, pathID := some path, total := 100, amp := false, ks := none, now := 0 }

/-- blinded-path htlc (no MPP record): the path ID is the address that is compared. The right
    path ID settles; a foreign one is refused (kv store: the lookup falls back to the hash index,
    `updateMpp` is the guard). -/
example :
    (step exH exCfg (run exH exCfg Reg.empty [.addInvoice exInv]) (.notify (exBlinded 55))).2.reply
      = .res (.settle .settled 7 100) ∧
    (step exH exCfg (run exH exCfg Reg.empty [.addInvoice exInv]) (.notify (exBlinded 56))).2.reply
      = .res (.fail .addressMismatch 100) := by
  decide

/-- the hypotheses of the theorems are satisfiable: the events above add no AMP invoice. -/
example : ∀ x ∈ [Event.addInvoice exInv, .notify (exShard 1 60), .tick 30], x.noAmp := by
  intro x hx
  simp at hx
  rcases hx with rfl | rfl | rfl <;> simp [Event.noAmp, exInv]

end LndModel.C15
