/-
C15 — property theorems (DESIGN.md §2 C15): "a preimage is released only for a fully and
correctly paid invoice".  Helper lemmas and the inductive invariant `Good` live in Lemmas.lean.

All theorems quantify over every hash function `H`, every AMP child derivation `P`, every
registry configuration `cfg` (reject delta, AcceptKeySend / AcceptAMP on or off, hold time, kv or
SQL lookup rule) and every list of events (`addInvoice`, `notify` = NotifyExitHopHtlc, `settle` =
SettleHodlInvoice, `cancel` = CancelInvoice, `tick` = clock advance firing the hold timers)
starting from the empty registry; there is no further hypothesis.  Restrictions of the *model*
(not hypotheses of the theorems): an AMP invoice is represented without hold flag and preimage
(lnd: hold AMP invoices are "not supported"), events are atomic (no interleaving inside one
NotifyExitHopHtlc), blinded paths are the `pathID` / `total` fields of `Ctx`.
-/
import LndModel.C15.ReplayLemmas
import LndModel.C15.FailLemmas

set_option linter.unusedSimpArgs false

namespace LndModel.C15

variable {P : List (Nat × Nat) → Nat → Nat → Nat} {drop : Bool}

/-! ### statement vocabulary -/

/-- the settled htlcs of an invoice that belong to an MPP set (declared total > 0). -/
def settledMpp (inv : Invoice) : List Htlc :=
  inv.htlcs.filter (fun g => g.state == .settled && decide (0 < g.mppTotal))

/-- `h` left the required final CLTV margin when it was accepted (exact guard of the code:
    `expiry ≥ uint32(int32 acceptHeight + int32 delta)` for both deltas). -/
def MarginOk (R : Int) (inv : Invoice) (h : Htlc) : Prop :=
  expiryTooSoon h.expiry h.acceptHeight R = false ∧
  expiryTooSoon h.expiry h.acceptHeight inv.finalCltv = false

/-- the payment conditions of the property for a settled htlc `h` of invoice `inv`.
    `authOk` records the payment-address test made when the htlc was accepted, see
    `accepted_htlc_terms`. -/
structure PaidFor (R : Int) (inv : Invoice) (h : Htlc) : Prop where
  auth : h.authOk = true
  margin : MarginOk R inv h
  /-- legacy (single htlc) payment: the htlc alone pays the invoice value -/
  legacy : h.mppTotal = 0 → inv.value ≤ h.amt
  /-- MPP set: one common total ≥ invoice value, the settled set sums to at least that total,
      every member passed the address test and left the margin -/
  mpp : 0 < h.mppTotal →
    inv.value ≤ h.mppTotal ∧ h.mppTotal ≤ sumAmt (settledMpp inv) ∧
    ∀ g ∈ settledMpp inv, g.mppTotal = h.mppTotal ∧ g.authOk = true ∧ MarginOk R inv g

/-- circuit key `k` is recorded settled on a settled invoice with preimage `p`, `H p` is the
    invoice's payment hash and the payment conditions hold. -/
def Paid (H : Nat → Nat) (R : Int) (reg : Reg) (k p : Nat) : Prop :=
  ∃ inv ∈ reg.invs, inv.state = .settled ∧ inv.preimage = some p ∧ H p = inv.hash ∧
    ∃ h ∈ inv.htlcs, h.key = k ∧ h.state = .settled ∧ PaidFor R inv h

theorem good_paid {H R} {inv : Invoice} {h : Htlc} (hg : Good H R inv) (hs : inv.state = .settled)
    (hh : h ∈ inv.htlcs) (hst : h.state = .settled) : PaidFor R inv h := by
  obtain ⟨_, hna, _, hcomp⟩ := hg.settledS hs
  have hsum : mppSum inv.htlcs = sumAmt (settledMpp inv) := by
    unfold settledMpp
    rw [sumAmt_filter]
    unfold mppSum
    apply sum_map_congr
    intro x hx
    have := hna x hx
    cases hxs : x.state <;> simp_all [mppPart]
  have hmem : ∀ g ∈ settledMpp inv, g ∈ inv.htlcs ∧ g.state = .settled ∧ 0 < g.mppTotal := by
    intro g hg'
    unfold settledMpp at hg'
    obtain ⟨m, c⟩ := List.mem_filter.mp hg'
    simp at c
    exact ⟨m, c.1, c.2⟩
  refine ⟨hg.static.auth h hh, hg.static.margin h hh, hg.static.legacyAmt h hh, ?_⟩
  intro hpos
  refine ⟨hg.static.totalGe h hh hpos, ?_, ?_⟩
  · rw [← hsum]; exact hcomp h hh (by rw [hst]; simp) hpos
  · intro g hg'
    obtain ⟨gm, gs, gp⟩ := hmem g hg'
    exact ⟨hg.sameTotal g gm h hh (by rw [gs]; simp) (by rw [hst]; simp) gp hpos,
      hg.static.auth g gm, hg.static.margin g gm⟩

theorem paid_of_settledIn {H R} {reg : Reg} {k p : Nat} (hg : RegGood H R reg)
    (hs : SettledIn reg k p) : Paid H R reg k p := by
  obtain ⟨inv, hm, s1, s2, h, hh, hk, hst⟩ := hs
  have hgi := hg.good inv hm
  obtain ⟨⟨q, hq, hHq⟩, _⟩ := hgi.settledS s1
  rw [s2] at hq; cases hq
  exact ⟨inv, hm, s1, s2, hHq, h, hh, hk, hst, good_paid hgi s1 hh hst⟩

/-! ### must: settle_only_if_paid -/

/-- the payment conditions for a settled AMP htlc `h` of AMP invoice `a`: its recorded preimage is
    `p` and hashes to the htlc's own payment hash, it carried the invoice's payment address
    (`authOk`), left both CLTV margins at its accept height, and the total its set declared is
    positive and ≥ the invoice value.  (That the members settled together declare one common total
    and sum to at least it is `settle_only_if_paid_amp_set`.) -/
def PaidAmp (H : Nat → Nat) (R : Int) (reg : Reg) (k p : Nat) : Prop :=
  ∃ a ∈ reg.amps, ∃ h ∈ a.htlcs, h.base.key = k ∧ h.base.state = .settled ∧ h.pre = some p ∧
    H p = h.hash ∧ h.base.authOk = true ∧
    expiryTooSoon h.base.expiry h.base.acceptHeight R = false ∧
    expiryTooSoon h.base.expiry h.base.acceptHeight a.finalCltv = false ∧
    a.value ≤ h.base.mppTotal ∧ 0 < h.base.mppTotal

theorem paidAmp_of_settledIn {H R} {reg : Reg} {k p : Nat} (hg : RegGood H R reg)
    (hs : ASettledIn H reg k p) : PaidAmp H R reg k p := by
  obtain ⟨a, ham, h, hh, hk, hst, hp, hH⟩ := hs
  have ok := (hg.agood a ham).each h hh
  exact ⟨a, ham, h, hh, hk, hst, hp, hH, ok.auth, ok.m1, ok.m2, ok.totalGe, ok.totalPos⟩

/-- **settle_only_if_paid.** After any event list, whenever the next event produces a settle
    resolution with preimage `p` for circuit key `k` — returned by NotifyExitHopHtlc (new htlc,
    replay, or `DuplicateToSettled`), or delivered to a hodl subscriber by NotifyExitHopHtlc /
    SettleHodlInvoice — then in the registry after the event either (`Paid`) `k` is a settled
    htlc of a settled non-AMP invoice whose preimage is `p`, `H p` is that invoice's payment hash,
    the htlc passed the payment-address test, left the required CLTV margin at its accept height,
    and either pays the invoice value alone (legacy) or belongs to a settled set with one common
    total ≥ value whose amounts sum to at least that total; or (`PaidAmp`) `k` is a settled AMP
    htlc whose recorded preimage is `p` with `H p` = that htlc's own payment hash, address test,
    margins and declared total ≥ value.  For the returned resolution `H p` is the hash of the
    call.  CancelInvoice and hold-timer expiry never produce a settle resolution. -/
theorem settle_only_if_paid (H : Nat → Nat) (P : List (Nat × Nat) → Nat → Nat → Nat) (cfg : Cfg)
    (evs : List Event) (e : Event) :
    let reg := run H P cfg Reg.empty evs
    let reg' := (step H P cfg reg e).1
    let out := (step H P cfg reg e).2
    (∀ ctx kind p ht, e = .notify ctx → out.reply = .res (.settle kind p ht) →
        H p = ctx.hash ∧ (Paid H cfg.rejectDelta reg' ctx.key p ∨ PaidAmp H cfg.rejectDelta reg' ctx.key p)) ∧
    (∀ k kind p ht, (k, Res.settle kind p ht) ∈ out.msgs →
        Paid H cfg.rejectDelta reg' k p ∨ PaidAmp H cfg.rejectDelta reg' k p) := by
  intro reg reg' out
  have hg : RegGood H cfg.rejectDelta reg := reachable_good H P cfg evs
  have hg' : RegGood H cfg.rejectDelta reg' := step_good hg rfl
  have lift : ∀ k p, (SettledIn reg' k p ∨ ASettledIn H reg' k p) →
      Paid H cfg.rejectDelta reg' k p ∨ PaidAmp H cfg.rejectDelta reg' k p := by
    intro k p h
    rcases h with h | h
    · exact Or.inl (paid_of_settledIn hg' h)
    · exact Or.inr (paidAmp_of_settledIn hg' h)
  refine ⟨?_, ?_⟩
  · intro ctx kind p ht he hrep
    subst he
    have := (notify_settles (P := P) (cfg := cfg)
      (ctx := { ctx with now := reg.now, rejectDelta := cfg.rejectDelta }) hg rfl).1 kind p ht hrep
    exact ⟨this.1, lift _ _ this.2⟩
  · intro k kind p ht hmsg
    cases e with
    | addInvoice s =>
      simp only [out, step] at hmsg
      cases ha : addInvoice reg s <;> simp [ha] at hmsg
    | notify ctx =>
      exact lift _ _ ((notify_settles (P := P) (cfg := cfg)
        (ctx := { ctx with now := reg.now, rejectDelta := cfg.rejectDelta }) hg rfl).2 k kind p ht hmsg)
    | settle q => exact Or.inl (paid_of_settledIn hg' (settleHodl_settles k kind p ht hmsg).1)
    | cancel h => exact absurd hmsg (cancel_no_settle k kind p ht)
    | tick dt => exact absurd hmsg (tick_no_settle k kind p ht)

/-- **settle_only_if_paid_amp** (per htlc, every reachable registry): every AMP htlc that is
    recorded settled has a recorded preimage that hashes to that htlc's payment hash, carried the
    invoice's payment address, left both margins, and declared a set total ≥ the invoice value. -/
theorem settle_only_if_paid_amp (H : Nat → Nat) (P : List (Nat × Nat) → Nat → Nat → Nat) (cfg : Cfg)
    (evs : List Event) :
    ∀ a ∈ (run H P cfg Reg.empty evs).amps, ∀ h ∈ a.htlcs, h.base.state = .settled →
      (∃ p, h.pre = some p ∧ H p = h.hash) ∧ h.base.authOk = true ∧
      expiryTooSoon h.base.expiry h.base.acceptHeight cfg.rejectDelta = false ∧
      expiryTooSoon h.base.expiry h.base.acceptHeight a.finalCltv = false ∧
      a.value ≤ h.base.mppTotal := by
  intro a ha h hh hs
  have ok := ((reachable_good H P cfg evs).agood a ha).each h hh
  exact ⟨ok.settled hs, ok.auth, ok.m1, ok.m2, ok.totalGe⟩

/-- **settle_only_if_paid_amp_set** (the settling event, invoice level, any AMP invoice): a fresh
    `Settled` answer of the AMP notify path is given only when the accepted htlcs of the set id
    (`aacc`) together with the new htlc declare one common total `≥` invoice value, the MPP record
    carries the invoice's payment address, and their amounts sum to at least that total; exactly
    these htlcs move to settled (`settleOne`), each with the child preimage whose hash was
    compared with the htlc's payment hash.  (`akeep`: the records that stay stored — all on the
    SQL store; on the kv store all accepted ones and every other set id's, see `akeep`.) -/
theorem settle_only_if_paid_amp_set {H : Nat → Nat} {ctx : Ctx} {a : AmpInv} {p : Nat} {ht : Int}
    (hr : (anotify H P drop ctx a).2.1 = .settle .settled p ht) :
    ∃ total addr, effMpp ctx = some (total, addr) ∧ addr = a.payAddr ∧ a.value ≤ total ∧
      (∀ g ∈ aacc ctx a, g.base.mppTotal = total) ∧
      total ≤ sumAmt ((aacc ctx a).map (·.base)) + ctx.amt ∧
      (anotify H P drop ctx a).1.htlcs =
        (akeep drop ctx a ++ [mkAHtlc ctx total (decide (addr = a.payAddr))]).map
          (settleOne P ctx (adescs ctx (aacc ctx a))) :=
  anotify_settle_set hr

/-- the guard in plain arithmetic when no int32/uint32 wrap-around occurs. -/
theorem margin_plain {expiry : Nat} {height delta : Int}
    (h : expiryTooSoon expiry height delta = false) (h0 : 0 ≤ height + delta)
    (h1 : height + delta < 4294967296) : height + delta ≤ (expiry : Int) := by
  unfold expiryTooSoon u32OfSum at h
  simp at h
  have e : (height + delta) % 4294967296 = height + delta := Int.emod_eq_of_lt h0 h1
  rw [e] at h
  omega

/-! ### must: states_monotone -/

/-- **states_monotone** (one event, both stores). Every invoice of a reachable registry — plain
    (`Mono`) or AMP (`AMono`) — is still present after the next event with the same terms, its
    state moved along open → accepted → settled | canceled (AMP: open → canceled), and each of its
    htlcs is still recorded with the same terms and a state moved along
    accepted → settled | canceled; a settled AMP htlc keeps its preimage.  (Before lnd 4ae3b4a the
    kv store forgot the settled / canceled htlcs of a set id when a settled set id was paid again,
    finding F-c15-kv-amp-setid-reuse, and the AMP half held on the native SQL store only.) -/
theorem states_monotone (H : Nat → Nat) (P : List (Nat × Nat) → Nat → Nat → Nat) (cfg : Cfg)
    (evs : List Event) (e : Event) :
    let reg := run H P cfg Reg.empty evs
    (∀ i ∈ reg.invs, ∃ i' ∈ (step H P cfg reg e).1.invs, Mono i i') ∧
    (∀ a ∈ reg.amps, ∃ a' ∈ (step H P cfg reg e).1.amps, AMono a a') := by
  intro reg
  exact step_mono (reachable_good H P cfg evs)

/-- **states_monotone** for AMP invoices alone (kept under its old name; no store hypothesis any
    more). -/
theorem states_monotone_sql (H : Nat → Nat) (P : List (Nat × Nat) → Nat → Nat → Nat) (cfg : Cfg)
    (evs : List Event) (e : Event) :
    let reg := run H P cfg Reg.empty evs
    (∀ a ∈ reg.amps, ∃ a' ∈ (step H P cfg reg e).1.amps, AMono a a') := by
  intro reg
  exact (step_mono (reachable_good H P cfg evs)).2

/-- **states_monotone** (any number of further events, plain and AMP invoices, both stores). -/
theorem states_monotone_run (H : Nat → Nat) (P : List (Nat × Nat) → Nat → Nat → Nat) (cfg : Cfg)
    (evs more : List Event) :
    let reg := run H P cfg Reg.empty evs
    (∀ i ∈ reg.invs, ∃ i' ∈ (run H P cfg reg more).invs, Mono i i') ∧
    (∀ a ∈ reg.amps, ∃ a' ∈ (run H P cfg reg more).amps, AMono a a') := by
  intro reg
  have hg : RegGood H cfg.rejectDelta reg := reachable_good H P cfg evs
  clear_value reg
  induction more generalizing reg with
  | nil => exact ⟨fun i hi => ⟨i, hi, Mono.refl i⟩, fun a ha => ⟨a, ha, AMono.refl a⟩⟩
  | cons e es ih =>
    obtain ⟨s1, s2⟩ := step_mono (P := P) (cfg := cfg) (e := e) hg
    have hg1 := step_good (P := P) (e := e) hg rfl
    obtain ⟨t1, t2⟩ := ih _ hg1
    refine ⟨?_, ?_⟩
    · intro i hi
      obtain ⟨i1, h1, m1⟩ := s1 i hi
      obtain ⟨i2, h2, m2⟩ := t1 i1 h1
      exact ⟨i2, h2, m1.trans m2⟩
    · intro a ha
      obtain ⟨a1, h1, m1⟩ := s2 a ha
      obtain ⟨a2, h2, m2⟩ := t2 a1 h1
      exact ⟨a2, h2, m1.trans m2⟩

/-- no htlc is both settled and canceled: a settled htlc stays settled, a canceled one stays
    canceled, in every later version of the invoice. -/
theorem settled_xor_canceled {a b : Invoice} (hm : Mono a b) {h : Htlc} (hh : h ∈ a.htlcs) :
    ∃ h' ∈ b.htlcs, h'.key = h.key ∧ (h.state = .settled → h'.state = .settled) ∧
      (h.state = .canceled → h'.state = .canceled) := by
  obtain ⟨h', hh', e, l⟩ := hm.2.2 h hh
  refine ⟨h', hh', by rw [e], ?_, ?_⟩
  · intro hs; rw [hs] at l; exact l
  · intro hs; rw [hs] at l; exact l

/-! ### must: amt_paid_exact -/

/-- **amt_paid_exact.** A settled (non-AMP) invoice records as amount paid exactly the sum of
    its settled htlcs. -/
theorem amt_paid_exact (H : Nat → Nat) (P : List (Nat × Nat) → Nat → Nat → Nat) (cfg : Cfg)
    (evs : List Event) :
    ∀ inv ∈ (run H P cfg Reg.empty evs).invs, inv.state = .settled →
      inv.amtPaid = sumAmt (inv.htlcs.filter (fun h => h.state == .settled)) := by
  intro inv hm hs
  have hg : RegGood H cfg.rejectDelta _ := reachable_good H P cfg evs
  obtain ⟨_, _, hp, _⟩ := (hg.good inv hm).settledS hs
  rw [hp, sumAmt_filter]
  unfold settledSum
  apply sum_map_congr
  intro x _
  cases hx : x.state <;> simp [settledPart, hx]

/-! ### must: replay_same_verdict -/

/-- **replay_same_verdict.** For an invoice of any reachable registry: notifying a circuit key
    that is already recorded on it changes nothing and yields the verdict that belongs to the
    recorded htlc state (accepted → accept, canceled → fail, settled → settle with the invoice's
    preimage, which hashes to the payment hash) — whatever amount, expiry, height, MPP/AMP/keysend
    records the replayed call carries.  (Registry level: this is the database part of
    NotifyExitHopHtlc; the keysend/AMP pre-check that runs before it is the documented finding.) -/
theorem replay_same_verdict (H : Nat → Nat) (P : List (Nat × Nat) → Nat → Nat → Nat) (cfg : Cfg)
    (evs : List Event) :
    ∀ inv ∈ (run H P cfg Reg.empty evs).invs, ∀ (ctx : Ctx) (g : Htlc),
      findHtlc inv ctx.key = some g → ctx.hash = inv.hash →
      (inotify H ctx inv).1 = inv ∧
      (g.state = .accepted → (inotify H ctx inv).2 = .accept .replayToAccepted) ∧
      (g.state = .canceled → (inotify H ctx inv).2 = .fail .replayToCanceled ctx.height) ∧
      (g.state = .settled → ∃ p, inv.preimage = some p ∧ H p = inv.hash ∧
          (inotify H ctx inv).2 = .settle .replayToSettled p ctx.height) := by
  intro inv hm ctx g hf hh
  have hg : RegGood H cfg.rejectDelta _ := reachable_good H P cfg evs
  exact replay_verdict (hg.good inv hm) hf hh

theorem key_inj {l : List Htlc} (hn : (l.map (·.key)).Nodup) {y h : Htlc} (hy : y ∈ l) (hh : h ∈ l)
    (he : y.key = h.key) : y = h := by
  induction l with
  | nil => cases hh
  | cons x t ih =>
    simp only [List.map_cons, List.nodup_cons] at hn
    obtain ⟨hx, ht⟩ := hn
    rcases List.mem_cons.mp hy with rfl | hy'
    · rcases List.mem_cons.mp hh with rfl | hh'
      · rfl
      · exact absurd (List.mem_map.mpr ⟨h, hh', he.symm⟩) hx
    · rcases List.mem_cons.mp hh with rfl | hh'
      · exact absurd (List.mem_map.mpr ⟨y, hy', he⟩) hx
      · exact ih ht hy' hh'

/-- an htlc with a given key is the one `findHtlc` returns (keys are unique on an invoice). -/
theorem findHtlc_of_mem {H R} {inv : Invoice} (hg : Good H R inv) {h : Htlc} (hh : h ∈ inv.htlcs) :
    findHtlc inv h.key = some h := by
  unfold findHtlc
  cases hf : inv.htlcs.find? (fun g => g.key == h.key) with
  | none =>
    rw [List.find?_eq_none] at hf
    have := hf h hh
    simp at this
  | some y =>
    have hy := List.mem_of_find?_eq_some hf
    have he : y.key = h.key := by simpa using List.find?_some hf
    rw [key_inj hg.static.nodup hy hh he]

/-- **same verdict as originally.** If NotifyExitHopHtlc's database part answered `accept`
    (resp. `settle` with preimage `p`) for a call on an invoice of a reachable registry, then any
    later call with the same circuit key and the invoice's hash — whatever its other parameters —
    made directly afterwards is answered `accept` (resp. `settle` with the same `p`) and changes
    nothing.  (`replay_same_verdict` extends this to every later moment: the answer is always the
    one of the then recorded state, and by `states_monotone` that state only moves forward.) -/
theorem replay_after_notify (H : Nat → Nat) (P : List (Nat × Nat) → Nat → Nat → Nat) (cfg : Cfg)
    (evs : List Event) :
    ∀ inv ∈ (run H P cfg Reg.empty evs).invs, ∀ (ctx ctx' : Ctx),
      ctx.rejectDelta = cfg.rejectDelta → (ctx.amp = false → ctx.hash = inv.hash) →
      ctx'.key = ctx.key → ctx'.hash = inv.hash →
      (∀ k, (inotify H ctx inv).2 = .accept k →
        inotify H ctx' (inotify H ctx inv).1 = ((inotify H ctx inv).1, .accept .replayToAccepted)) ∧
      (∀ k p ht, (inotify H ctx inv).2 = .settle k p ht →
        inotify H ctx' (inotify H ctx inv).1 =
          ((inotify H ctx inv).1, .settle .replayToSettled p ctx'.height)) := by
  intro inv hm ctx ctx' hR hhash hk hh'
  have hg := (reachable_good H P cfg evs).good inv hm
  have hg' : Good H cfg.rejectDelta (inotify H ctx inv).1 := inotify_good hg hR
  have hterms := inotify_terms (H := H) (ctx := ctx) (inv := inv)
  have hh2 : ctx'.hash = (inotify H ctx inv).1.hash := by rw [← hterms.1]; exact hh'
  refine ⟨?_, ?_⟩
  · intro k hr
    obtain ⟨h, hmem, hkey, hst⟩ := inotify_accept (inv' := (inotify H ctx inv).1) hg
      (by rw [← hr])
    have hf : findHtlc (inotify H ctx inv).1 ctx'.key = some h := by
      rw [hk, ← hkey]; exact findHtlc_of_mem hg' hmem
    obtain ⟨e1, e2, _, _⟩ := replay_verdict hg' hf hh2
    exact Prod.ext e1 (e2 hst)
  · intro k p ht hr
    obtain ⟨s1, s2, _, h, hmem, hkey, hst⟩ := inotify_settle (inv' := (inotify H ctx inv).1) hg hR hhash
      (by rw [← hr])
    have hf : findHtlc (inotify H ctx inv).1 ctx'.key = some h := by
      rw [hk, ← hkey]; exact findHtlc_of_mem hg' hmem
    obtain ⟨e1, _, _, e4⟩ := replay_verdict hg' hf hh2
    obtain ⟨q, hq, _, hr'⟩ := e4 hst
    rw [s2] at hq; cases hq
    exact Prod.ext e1 hr'

/-- **replay_same_verdict, registry level.**  In every reachable registry: if an invoice records
    the circuit key of a NotifyExitHopHtlc call, the spontaneous-payment pre-processing passes
    without adding an invoice and the invoice-ref lookup finds that invoice, the call changes no
    invoice and is answered from the recorded state only (accepted → accept, canceled → fail
    ReplayToCanceled with the recorded accept height, settled → settle ReplayToSettled with the
    invoice preimage).  When the lookup does find it is `replay_lookup`: on both stores for a call
    that carries the invoice's own address or none; with a foreign address only on the kv store
    (the SQL store answers invoice-not-found before the replay check). -/
theorem replay_same_verdict_registry (H : Nat → Nat) (P : List (Nat × Nat) → Nat → Nat → Nat)
    (cfg : Cfg) (evs : List Event) (ctx : Ctx) (inv : Invoice) (g : Htlc) :
    let reg := run H P cfg Reg.empty evs
    ctx.rejectDelta = cfg.rejectDelta →
    preprocess H cfg reg ctx = .ok reg →
    lookup cfg reg.keys ctx.hash (refAddr ctx) (ctx.amp && ctx.pathID.isNone) = some inv.hash →
    inv ∈ reg.invs → findHtlc inv ctx.key = some g → ctx.hash = inv.hash →
    (notify H P cfg reg ctx).1.invs = reg.invs ∧ (notify H P cfg reg ctx).1.amps = reg.amps ∧
    (g.state = .accepted → (notify H P cfg reg ctx).2.reply = .res (.accept .replayToAccepted)) ∧
    (g.state = .canceled →
      (notify H P cfg reg ctx).2.reply = .res (.fail .replayToCanceled g.acceptHeight)) ∧
    (g.state = .settled → ∃ p, inv.preimage = some p ∧ H p = inv.hash ∧
      (notify H P cfg reg ctx).2.reply = .res (.settle .replayToSettled p ctx.height)) := by
  intro reg _ hpre hl hm hf hh
  exact notify_replay (reachable_good H P cfg evs) hpre hl hm hf hh

/-- **the lookup of a replayed call**, in every reachable registry, for an invoice `inv` and a
    non-AMP ref: (1) if the ref carries no address or the invoice's own address, both stores find
    `inv`; (2) if it carries a foreign non-blank address that no invoice has, the kv store still
    finds `inv` by hash (and `updateMpp` / the replay check decide), the SQL store finds
    nothing. -/
theorem replay_lookup (H : Nat → Nat) (P : List (Nat × Nat) → Nat → Nat → Nat) (cfg : Cfg)
    (evs : List Event) :
    let reg := run H P cfg Reg.empty evs
    ∀ inv ∈ reg.invs,
      (∀ ref : Option (Nat × Nat), (∀ t a, ref = some (t, a) → a = inv.payAddr) →
        lookup cfg reg.keys inv.hash ref false = some inv.hash) ∧
      (∀ t a, a ≠ 0 → a ≠ inv.payAddr → (∀ k ∈ reg.keys, k.2 ≠ a) →
        lookup cfg reg.keys inv.hash (some (t, a)) false = (if cfg.sql then none else some inv.hash)) := by
  intro reg inv hm
  have hk := reachable_keysOk H P cfg evs
  exact ⟨fun ref hr => lookup_same_route hk hm ref hr,
    fun t a h0 hne hno => lookup_foreign_addr hk hm t a h0 hne hno⟩

/-! ### meaning of the recorded terms -/

/-- the payment-address test of the code for a new htlc: MPP record → its address equals the
    invoice's; blinded path without MPP record → the path ID equals the invoice's address;
    neither → the invoice does not require an address or the call is a valid
    keysend (the sender knows the preimage). -/
def authCheck (H : Nat → Nat) (ctx : Ctx) (inv : Invoice) : Bool :=
  match effMpp ctx with
  | some (_, a) => decide (a = inv.payAddr)
  | none => validKeysend H ctx || !inv.payAddrReq

/-- **meaning of the recorded htlc terms** (ties the ghost field `authOk` and the stored fields
    to the call that created the htlc): when NotifyExitHopHtlc records a new circuit key, the
    record carries the amount, expiry and height of that call, the total of its MPP record (0 if
    none) and `authOk` is the value of the payment-address test on that call. -/
theorem accepted_htlc_terms {H : Nat → Nat} {ctx : Ctx} {inv : Invoice} {g : Htlc}
    (hfresh : findHtlc inv ctx.key = none)
    (hrec : findHtlc (inotify H ctx inv).1 ctx.key = some g) :
    g.amt = ctx.amt ∧ g.expiry = ctx.expiry ∧ g.acceptHeight = ctx.height ∧
    g.acceptTime = ctx.now ∧
    g.mppTotal = (match effMpp ctx with | some (t, _) => t | none => 0) ∧
    g.authOk = authCheck H ctx inv := by
  have hr : replay H ctx inv = none := by unfold replay; simp [hfresh]
  unfold inotify at hrec
  simp only [hr] at hrec
  cases hu : updateInvoice H ctx inv with
  | mk u r =>
    rw [hu] at hrec
    cases u with
    | none => simp only at hrec; rw [hfresh] at hrec; cases hrec
    | add h ns =>
      simp only at hrec
      cases ha : applyAdd H inv h ns with
      | none => rw [ha] at hrec; simp only at hrec; rw [hfresh] at hrec; cases hrec
      | some inv' =>
        rw [ha] at hrec; simp only at hrec
        obtain ⟨f, hf, hl⟩ := applyAdd_htlcs ha
        obtain ⟨gm, gk⟩ := findHtlc_some hrec
        rw [hl] at gm
        obtain ⟨x, hx, rfl⟩ := List.mem_map.mp gm
        rw [hf.key] at gk
        have hxh : x = h := by
          rcases List.mem_append.mp hx with hx | hx
          · exact absurd gk (findHtlc_none hfresh x hx)
          · simpa using hx
        subst hxh
        rw [hf.amt, hf.expiry, hf.acceptHeight, hf.mppTotal, hf.authOk]
        have hat : (f x).acceptTime = x.acceptTime := by rw [hf x]
        rw [hat]
        unfold updateInvoice at hu
        by_cases c : (ctx.amp && ctx.mpp.isNone) = true
        · simp [c] at hu
        · rw [if_neg c] at hu
          cases hm : effMpp ctx with
          | none =>
            rw [hm] at hu; simp only at hu
            obtain ⟨_, _, _, _, _, _, _, hh, _⟩ := updateLegacy_add hu
            subst hh
            simp [mkHtlc, authCheck, hm]
          | some ta =>
            obtain ⟨t, a⟩ := ta
            rw [hm] at hu; simp only at hu
            obtain ⟨_, _, _, _, _, _, _, _, hh, _⟩ := updateMpp_add hu
            subst hh
            simp [mkHtlc, authCheck, hm]

/-! ### non-vacuity: concrete runs (hash function `p ↦ p + 1000`) -/

def exH : Nat → Nat := fun p => p + 1000
def exCfg : Cfg :=
  { rejectDelta := 4, acceptKeysend := false, acceptAMP := false, ksHold := false, hold := 30, sql := false }
/-- a toy child derivation: preimage = share + index, so the child hash is share + index + 1000. -/
def exP : List (Nat × Nat) → Nat → Nat → Nat := fun _ share index => share + index
def exInv : InvSpec :=
  { hash := 1007, value := 100, payAddr := 55, preimage := some 7, finalCltv := 9, tlv := true,
    payAddrOpt := false, payAddrReq := true, mppOpt := true, ampReq := false, blinded := false,
    hodl := false }
def exShard (key amt : Nat) : Ctx :=
  { hash := 1007, key := key, amt := amt, expiry := 120, height := 100, rejectDelta := 0,
    mpp := some (100, 55), pathID := none, total := 0, amp := false, setID := 0, share := 0, index := 0, ks := none, now := 0 }

/-- two shards of 60 + 40 towards a 100 msat invoice: the second call settles with preimage 7,
    the first shard is settled through its hodl subscription. -/
example :
    (step exH exP exCfg (run exH exP exCfg Reg.empty [.addInvoice exInv, .notify (exShard 1 60)])
      (.notify (exShard 2 40))).2.reply = .res (.settle .settled 7 100) ∧
    (step exH exP exCfg (run exH exP exCfg Reg.empty [.addInvoice exInv, .notify (exShard 1 60)])
      (.notify (exShard 2 40))).2.msgs = [(1, .settle .settled 7 100)] := by
  decide

/-- one msat short: no settle, the invoice stays open; a replay of shard 1 is answered `accept`. -/
example :
    (step exH exP exCfg (run exH exP exCfg Reg.empty [.addInvoice exInv, .notify (exShard 1 60)])
      (.notify (exShard 2 39))).2.reply = .res (.accept .partialAccepted) ∧
    (step exH exP exCfg (run exH exP exCfg Reg.empty [.addInvoice exInv, .notify (exShard 1 60),
      .notify (exShard 2 39)]) (.notify (exShard 1 60))).2.reply = .res (.accept .replayToAccepted) := by
  decide

/-- the hold timer: after 30 s the first shard is canceled, its replay is answered `fail`. -/
example :
    (step exH exP exCfg (run exH exP exCfg Reg.empty [.addInvoice exInv, .notify (exShard 1 60), .tick 30])
      (.notify (exShard 1 60))).2.reply = .res (.fail .replayToCanceled 100) := by
  decide

def exBlinded (path : Nat) : Ctx :=
  { hash := 1007, key := 5, amt := 100, expiry := 120, height := 100, rejectDelta := 0,
    mpp := none, pathID := some path, total := 100, amp := false, setID := 0, share := 0, index := 0,
    ks := none, now := 0 }

/-- blinded-path htlc (no MPP record): the path ID is the address that is compared. The right
    path ID settles; a foreign one is refused (kv store: the lookup falls back to the hash index,
    `updateMpp` is the guard). -/
example :
    (step exH exP exCfg (run exH exP exCfg Reg.empty [.addInvoice exInv]) (.notify (exBlinded 55))).2.reply
      = .res (.settle .settled 7 100) ∧
    (step exH exP exCfg (run exH exP exCfg Reg.empty [.addInvoice exInv]) (.notify (exBlinded 56))).2.reply
      = .res (.fail .addressMismatch 100) := by
  decide

def exAmpInv : InvSpec :=
  { hash := 2000, value := 100, payAddr := 77, preimage := none, finalCltv := 9, tlv := true,
    payAddrOpt := true, payAddrReq := false, mppOpt := false, ampReq := true, blinded := false,
    hodl := false }
/-- AMP shard with share `s`, child index `i`: child preimage `s+i`, child hash `s+i+1000`. -/
def exAmpShard (key amt s i hash : Nat) : Ctx :=
  { hash := hash, key := key, amt := amt, expiry := 120, height := 100, rejectDelta := 0,
    mpp := some (100, 77), pathID := none, total := 0, amp := true, setID := 9, share := s, index := i,
    ks := none, now := 0 }

/-- an AMP set of 60 + 40: the second shard settles with its own child preimage (7), the first
    shard is settled through its hodl subscription with *its* child preimage (5); a shard whose
    payment hash is not the child hash cancels the invoice instead (`AmpReconstruction`). -/
example :
    (step exH exP exCfg (run exH exP exCfg Reg.empty [.addInvoice exAmpInv, .notify (exAmpShard 1 60 5 0 1005)])
      (.notify (exAmpShard 2 40 6 1 1007))).2.reply = .res (.settle .settled 7 100) ∧
    (step exH exP exCfg (run exH exP exCfg Reg.empty [.addInvoice exAmpInv, .notify (exAmpShard 1 60 5 0 1005)])
      (.notify (exAmpShard 2 40 6 1 1007))).2.msgs = [(1, .settle .settled 5 100)] ∧
    (step exH exP exCfg (run exH exP exCfg Reg.empty [.addInvoice exAmpInv, .notify (exAmpShard 1 60 5 0 1234)])
      (.notify (exAmpShard 2 40 6 1 1007))).2.reply = .res (.fail .ampReconstruction 100) := by
  decide

/-! ### round 5: full circuit keys, AMP set level, address rule, settle / cancel races -/

/-- **the circuit-key encoding is injective**: two htlcs agree on the model's key iff they agree
    on BOTH the channel id and the (uint64) htlc id.  HTLC ids are per-channel counters, so two
    htlcs of one invoice may share the htlc id (different channels) or the channel; they are
    different keys of every map, list and lookup of this model. -/
theorem ckey_inj {c1 h1 c2 h2 : Nat} (b1 : h1 < 18446744073709551616)
    (b2 : h2 < 18446744073709551616) (e : ckey c1 h1 = ckey c2 h2) : c1 = c2 ∧ h1 = h2 := by
  unfold ckey at e
  omega

theorem ckey_chan_htlc {c h : Nat} (b : h < 18446744073709551616) :
    ckeyChan (ckey c h) = c ∧ ckeyHtlc (ckey c h) = h := by
  unfold ckeyChan ckeyHtlc ckey
  omega

/-- same htlc id on two channels, and two htlc ids on one channel, are different keys. -/
example : ckey 7 0 ≠ ckey 8 0 ∧ ckey 7 0 ≠ ckey 7 1 ∧ ckeyChan (ckey 7 3) = 7 ∧ ckeyHtlc (ckey 7 3) = 3 := by
  decide

/-- **amp_set_paid** (state invariant, every reachable registry, both stores): for every AMP
    htlc that is recorded settled, the htlcs recorded settled under its set id that declare the
    same total sum to at least that total (`setPaid`).  Together with `settle_only_if_paid_amp`
    (each of them: preimage hashing to its own payment hash, invoice's payment address, margins,
    total ≥ invoice value) this is the AMP form of "the htlcs of its set declare one common total
    not below the invoice amount and sum to at least that total" as a property of the database,
    also when a set id is paid more than once or with several totals (lnd allows both). -/
theorem amp_set_paid (H : Nat → Nat) (P : List (Nat × Nat) → Nat → Nat → Nat) (cfg : Cfg)
    (evs : List Event) :
    ∀ a ∈ (run H P cfg Reg.empty evs).amps, ∀ h ∈ a.htlcs, h.base.state = .settled →
      a.value ≤ h.base.mppTotal ∧ h.base.mppTotal ≤ setPaid a.htlcs h.setID h.base.mppTotal := by
  intro a ha h hh hs
  exact ⟨(((reachable_good H P cfg evs).agood a ha).each h hh).totalGe,
    reachable_setPaid H P cfg evs a ha h hh hs⟩

/-- `setPaid` counts exactly the settled htlcs of that set id with that declared total. -/
example :
    setPaid [⟨⟨1, 60, 100, .settled, 0, 0, 0, true⟩, 9, 0, 0, 0, none⟩,
             ⟨⟨2, 40, 100, .settled, 0, 0, 0, true⟩, 9, 0, 0, 1, none⟩,
             ⟨⟨3, 70, 100, .accepted, 0, 0, 0, true⟩, 9, 0, 0, 2, none⟩,
             ⟨⟨4, 50, 100, .settled, 0, 0, 0, true⟩, 8, 0, 0, 0, none⟩] 9 100 = 100 := by
  decide

/-- **the payment-address rule for every recorded htlc** (not only settled ones; MPP record,
    blinded path and legacy / keysend form), for every invoice of every reachable registry: when
    NotifyExitHopHtlc records a new circuit key then (1) an MPP record carries the invoice's
    payment address — whether or not the invoice requires one; (2) without MPP record a blinded
    path ID is the invoice's payment address; (3) with neither, the invoice does not require an
    address or the call is a valid keysend. -/
theorem recorded_htlc_address (H : Nat → Nat) (P : List (Nat × Nat) → Nat → Nat → Nat) (cfg : Cfg)
    (evs : List Event) :
    ∀ inv ∈ (run H P cfg Reg.empty evs).invs, ∀ (ctx : Ctx) (g : Htlc),
      ctx.rejectDelta = cfg.rejectDelta → findHtlc inv ctx.key = none →
      findHtlc (inotify H ctx inv).1 ctx.key = some g →
      (∀ t a, ctx.mpp = some (t, a) → a = inv.payAddr) ∧
      (ctx.mpp = none → ∀ a, ctx.pathID = some a → a = inv.payAddr) ∧
      (ctx.mpp = none → ctx.pathID = none → validKeysend H ctx = true ∨ inv.payAddrReq = false) := by
  intro inv hm ctx g hR hfresh hrec
  have hg := (reachable_good H P cfg evs).good inv hm
  have hg' : Good H cfg.rejectDelta (inotify H ctx inv).1 := inotify_good hg hR
  have hauth := hg'.static.auth g (findHtlc_some hrec).1
  rw [(accepted_htlc_terms hfresh hrec).2.2.2.2.2] at hauth
  unfold authCheck effMpp at hauth
  refine ⟨?_, ?_, ?_⟩
  · intro t a hmpp
    simpa [hmpp] using hauth
  · intro hmpp a hp
    simpa [hmpp, hp] using hauth
  · intro hmpp hp
    simp only [hmpp, hp] at hauth
    cases hv : validKeysend H ctx with
    | true => exact Or.inl rfl
    | false => right; simpa [hv] using hauth

/-- the blinded-path instance is non-vacuous: the path ID equal to the address is recorded. -/
example : (findHtlc (inotify exH { exBlinded 55 with rejectDelta := 4 } exInv.toInvoice).1 5).isSome = true := by
  decide

/-- **the terms of a recorded AMP htlc**: whenever the AMP notify path records a new htlc (answer
    `accept` for a partial set or a fresh `Settled`), the call carried an AMP and an MPP record,
    the MPP record's address is the invoice's payment address, the declared total is positive and
    at least the invoice value, the set's accepted htlcs declare that same total, both CLTV
    margins hold at the call's height, and the circuit key was not recorded on the invoice. -/
theorem recorded_amp_htlc_terms {H : Nat → Nat} {ctx : Ctx} {a : AmpInv}
    (hr : (anotify H P drop ctx a).2.1.addsHtlc = true) :
    ∃ total addr, AddFacts ctx a total addr := by
  have sh := anotify_shape (H := H) (P := P) (drop := drop) ctx a
  generalize (anotify H P drop ctx a).1 = a' at sh
  generalize (anotify H P drop ctx a).2.1 = r at sh hr
  generalize (anotify H P drop ctx a).2.2 = msgs at sh
  cases sh with
  | same _ _ _ _ hadd => rw [hadd] at hr; cases hr
  | replaySettled => cases hr
  | partialAdd total addr f => exact ⟨total, addr, f⟩
  | reconFail => cases hr
  | settled total addr f => exact ⟨total, addr, f⟩

theorem run_append (H : Nat → Nat) (P : List (Nat × Nat) → Nat → Nat → Nat) (cfg : Cfg) (reg : Reg)
    (l1 l2 : List Event) : run H P cfg reg (l1 ++ l2) = run H P cfg (run H P cfg reg l1) l2 := by
  induction l1 generalizing reg with
  | nil => rfl
  | cons e es ih => simp only [List.cons_append, run]; exact ih _

/-- **a canceled htlc is never settled** (resolution level; covers the hold-invoice races
    cancel-then-settle and set-timeout-then-settle written as event sequences).  Let htlc `h` be
    recorded canceled on a plain invoice of a reachable registry (by CancelInvoice, by the hold
    timer = set timeout, or by a set failure).  After any further events `more`, no event `e`
    produces a settle resolution for `h.key` — neither as the answer of a NotifyExitHopHtlc call
    for that key nor on a hodl subscription (SettleHodlInvoice, a completing shard, a replay) —
    provided that afterwards no other invoice records the same circuit key (circuit keys are
    assigned by the node's own links: one htlc, one payment hash). -/
theorem canceled_never_settles (H : Nat → Nat) (P : List (Nat × Nat) → Nat → Nat → Nat) (cfg : Cfg)
    (evs more : List Event) (e : Event) :
    let reg := run H P cfg Reg.empty evs
    let reg2 := run H P cfg reg more
    let reg3 := (step H P cfg reg2 e).1
    let out := (step H P cfg reg2 e).2
    ∀ inv ∈ reg.invs, ∀ h ∈ inv.htlcs, h.state = .canceled →
      (∀ i ∈ reg3.invs, i.hash ≠ inv.hash → ∀ g ∈ i.htlcs, g.key ≠ h.key) →
      (∀ a ∈ reg3.amps, ∀ g ∈ a.htlcs, g.base.key ≠ h.key) →
      (∀ kind p ht, (h.key, Res.settle kind p ht) ∉ out.msgs) ∧
      (∀ ctx kind p ht, e = .notify ctx → ctx.key = h.key →
        out.reply ≠ .res (.settle kind p ht)) := by
  intro reg reg2 reg3 out inv hinv h hh hcan huniq huniqA
  have hreg2 : reg2 = run H P cfg Reg.empty (evs ++ more) := by
    simp only [reg2, reg]; rw [run_append]
  have hreg3 : reg3 = run H P cfg Reg.empty (evs ++ (more ++ [e])) := by
    simp only [reg3, reg2, reg]
    rw [run_append, run_append]; rfl
  have hg3 : RegGood H cfg.rejectDelta reg3 := by rw [hreg3]; exact reachable_good H P cfg _
  -- the successor of `inv` in reg3 still records `h.key` as canceled
  obtain ⟨i3, hi3, hmono⟩ : ∃ i' ∈ reg3.invs, Mono inv i' := by
    have := (states_monotone_run H P cfg evs (more ++ [e])).1 inv hinv
    rw [hreg3, run_append]; exact this
  obtain ⟨h3, hh3, hk3, _, hc3⟩ := settled_xor_canceled hmono hh
  have hc3' : h3.state = .canceled := hc3 hcan
  -- a settle resolution for the key puts it on record as settled somewhere in reg3
  have key : ∀ p, ¬ (Paid H cfg.rejectDelta reg3 h.key p ∨ PaidAmp H cfg.rejectDelta reg3 h.key p) := by
    intro p hp
    rcases hp with ⟨i, hi, _, _, _, g, hg, hgk, hgs, _⟩ | ⟨a, ha, g, hg, hgk, _⟩
    · by_cases c : i.hash = inv.hash
      · have : i = i3 := hash_inj hg3.nodup hi hi3 (c.trans hmono.1.1)
        subst this
        have : g = h3 := key_inj (hg3.good i hi).static.nodup hg hh3 (hgk.trans hk3.symm)
        subst this
        rw [hgs] at hc3'; cases hc3'
      · exact huniq i hi c g hg hgk
    · exact huniqA a ha g hg hgk
  have sp := settle_only_if_paid H P cfg (evs ++ more) e
  simp only at sp
  rw [← hreg2] at sp
  refine ⟨?_, ?_⟩
  · intro kind p ht hmsg
    exact key p (sp.2 h.key kind p ht hmsg)
  · intro ctx kind p ht he hk hrep
    have := (sp.1 ctx kind p ht he hrep).2
    rw [hk] at this
    exact key p this

/-- non-vacuity of `canceled_never_settles`: a hold invoice, one shard accepted, the hold timer
    cancels it (`tick 30`); the premises hold and a later SettleHodlInvoice answers `stillOpen`
    with no resolution at all. -/
example :
    let reg := run exH exP exCfg Reg.empty
      [.addInvoice { exInv with hodl := true, preimage := none }, .notify (exShard 1 60), .tick 30]
    (∃ inv ∈ reg.invs, ∃ h ∈ inv.htlcs, h.key = 1 ∧ h.state = .canceled) ∧
    (step exH exP exCfg reg (.settle 7)).2.reply = .op .stillOpen ∧
    (step exH exP exCfg reg (.settle 7)).2.msgs = [] := by
  decide

/-- **fail_only_if_canceled** (dual of `settle_only_if_paid`): after any event list, every fail
    resolution that the next event delivers on a hodl subscription — CancelInvoice, the hold timer
    (set timeout), a set failure of NotifyExitHopHtlc (total mismatch / too low, failed AMP
    reconstruction) — is for an htlc that is recorded canceled in the registry after the event. -/
theorem fail_only_if_canceled (H : Nat → Nat) (P : List (Nat × Nat) → Nat → Nat → Nat) (cfg : Cfg)
    (evs : List Event) (e : Event) :
    let reg := run H P cfg Reg.empty evs
    ∀ k r ah, (k, Res.fail r ah) ∈ (step H P cfg reg e).2.msgs →
      CanceledIn (step H P cfg reg e).1 k := by
  intro reg k r ah hm
  exact step_fail_canceled hm

/-- **a settled htlc is never canceled** (resolution level; the settle-then-cancel and
    settle-then-timeout races as event sequences).  Let htlc `h` be recorded settled on a plain
    invoice of a reachable registry.  After any further events `more`, no event `e` delivers a
    fail resolution for `h.key` on a hodl subscription, provided that afterwards no other invoice
    records the same circuit key. -/
theorem settled_never_canceled (H : Nat → Nat) (P : List (Nat × Nat) → Nat → Nat → Nat) (cfg : Cfg)
    (evs more : List Event) (e : Event) :
    let reg := run H P cfg Reg.empty evs
    let reg2 := run H P cfg reg more
    let reg3 := (step H P cfg reg2 e).1
    let out := (step H P cfg reg2 e).2
    ∀ inv ∈ reg.invs, ∀ h ∈ inv.htlcs, h.state = .settled →
      (∀ i ∈ reg3.invs, i.hash ≠ inv.hash → ∀ g ∈ i.htlcs, g.key ≠ h.key) →
      (∀ a ∈ reg3.amps, ∀ g ∈ a.htlcs, g.base.key ≠ h.key) →
      ∀ r ah, (h.key, Res.fail r ah) ∉ out.msgs := by
  intro reg reg2 reg3 out inv hinv h hh hset huniq huniqA r ah hmsg
  have hreg3 : reg3 = run H P cfg Reg.empty (evs ++ (more ++ [e])) := by
    simp only [reg3, reg2, reg]
    rw [run_append, run_append]; rfl
  have hg3 : RegGood H cfg.rejectDelta reg3 := by rw [hreg3]; exact reachable_good H P cfg _
  obtain ⟨i3, hi3, hmono⟩ : ∃ i' ∈ reg3.invs, Mono inv i' := by
    have := (states_monotone_run H P cfg evs (more ++ [e])).1 inv hinv
    rw [hreg3, run_append]; exact this
  obtain ⟨h3, hh3, hk3, hs3, _⟩ := settled_xor_canceled hmono hh
  have hs3' : h3.state = .settled := hs3 hset
  rcases step_fail_canceled hmsg with ⟨i, hi, g, hg, hgk, hgc⟩ | ⟨a, ha, g, hg, hgk, _⟩
  · by_cases c : i.hash = inv.hash
    · have : i = i3 := hash_inj hg3.nodup hi hi3 (c.trans hmono.1.1)
      subst this
      have : g = h3 := key_inj (hg3.good i hi).static.nodup hg hh3 (hgk.trans hk3.symm)
      subst this
      rw [hgc] at hs3'; cases hs3'
    · exact huniq i hi c g hg hgk
  · exact huniqA a ha g hg hgk

/-- non-vacuity of `settled_never_canceled` / `fail_only_if_canceled`: a settled MPP invoice; a
    later CancelInvoice answers `alreadySettled` without any resolution, while on an open invoice
    the hold timer delivers `MppTimeout` for the accepted shard, which is then recorded canceled. -/
example :
    let reg := run exH exP exCfg Reg.empty [.addInvoice exInv, .notify (exShard 1 60), .notify (exShard 2 40)]
    (∃ inv ∈ reg.invs, ∃ h ∈ inv.htlcs, h.key = 1 ∧ h.state = .settled) ∧
    (step exH exP exCfg reg (.cancel 1007)).2.reply = .op .alreadySettled ∧
    (step exH exP exCfg reg (.cancel 1007)).2.msgs = [] ∧
    (step exH exP exCfg (run exH exP exCfg Reg.empty [.addInvoice exInv, .notify (exShard 1 60)])
      (.tick 30)).2.msgs = [(1, .fail .mppTimeout 100)] := by
  decide

/-! ### the same two statements for AMP htlcs (both stores since lnd 4ae3b4a) -/

theorem akey_inj {l : List AHtlc} (hn : (l.map (·.base.key)).Nodup) {y h : AHtlc} (hy : y ∈ l)
    (hh : h ∈ l) (he : y.base.key = h.base.key) : y = h := by
  induction l with
  | nil => cases hh
  | cons x t ih =>
    simp only [List.map_cons, List.nodup_cons] at hn
    obtain ⟨hx, ht⟩ := hn
    rcases List.mem_cons.mp hy with rfl | hy'
    · rcases List.mem_cons.mp hh with rfl | hh'
      · rfl
      · exact absurd (List.mem_map.mpr ⟨h, hh', he.symm⟩) hx
    · rcases List.mem_cons.mp hh with rfl | hh'
      · exact absurd (List.mem_map.mpr ⟨y, hy', he⟩) hx
      · exact ih ht hy' hh'

/-- an AMP htlc that is recorded settled stays settled, a canceled one stays canceled, in every
    later version of the AMP invoice. -/
theorem amp_settled_xor_canceled {a b : AmpInv} (hm : AMono a b) {h : AHtlc} (hh : h ∈ a.htlcs) :
    ∃ h' ∈ b.htlcs, h'.base.key = h.base.key ∧ (h.base.state = .settled → h'.base.state = .settled) ∧
      (h.base.state = .canceled → h'.base.state = .canceled) := by
  obtain ⟨h', hh', e, _, _, _, _, l, _⟩ := hm.2.2.2.2.2 h hh
  refine ⟨h', hh', by rw [e], ?_, ?_⟩
  · intro hs; rw [hs] at l; exact l
  · intro hs; rw [hs] at l; exact l

/-- **a canceled AMP htlc is never settled** (resolution level, both stores).  Let AMP htlc `h` be
    recorded canceled on an AMP invoice of a reachable registry (CancelInvoice, the hold timer =
    set timeout, a failed reconstruction / set failure).  After any further events — including
    payments that reuse its set id, the situation of the former finding
    F-c15-kv-amp-setid-reuse — no event produces a settle resolution for `h`'s circuit key,
    neither as the answer of NotifyExitHopHtlc for that key nor on a hodl subscription, provided
    that afterwards no other invoice records the same circuit key. -/
theorem amp_canceled_never_settles (H : Nat → Nat) (P : List (Nat × Nat) → Nat → Nat → Nat)
    (cfg : Cfg) (evs more : List Event) (e : Event) :
    let reg := run H P cfg Reg.empty evs
    let reg2 := run H P cfg reg more
    let reg3 := (step H P cfg reg2 e).1
    let out := (step H P cfg reg2 e).2
    ∀ a ∈ reg.amps, ∀ h ∈ a.htlcs, h.base.state = .canceled →
      (∀ i ∈ reg3.invs, ∀ g ∈ i.htlcs, g.key ≠ h.base.key) →
      (∀ b ∈ reg3.amps, b.hash ≠ a.hash → ∀ g ∈ b.htlcs, g.base.key ≠ h.base.key) →
      (∀ kind p ht, (h.base.key, Res.settle kind p ht) ∉ out.msgs) ∧
      (∀ ctx kind p ht, e = .notify ctx → ctx.key = h.base.key →
        out.reply ≠ .res (.settle kind p ht)) := by
  intro reg reg2 reg3 out a ha h hh hcan huniq huniqA
  have hreg2 : reg2 = run H P cfg Reg.empty (evs ++ more) := by
    simp only [reg2, reg]; rw [run_append]
  have hreg3 : reg3 = run H P cfg Reg.empty (evs ++ (more ++ [e])) := by
    simp only [reg3, reg2, reg]
    rw [run_append, run_append]; rfl
  have hg3 : RegGood H cfg.rejectDelta reg3 := by rw [hreg3]; exact reachable_good H P cfg _
  obtain ⟨a3, ha3, hmono⟩ : ∃ a' ∈ reg3.amps, AMono a a' := by
    have := (states_monotone_run H P cfg evs (more ++ [e])).2 a ha
    rw [hreg3, run_append]; exact this
  obtain ⟨h3, hh3, hk3, _, hc3⟩ := amp_settled_xor_canceled hmono hh
  have hc3' : h3.base.state = .canceled := hc3 hcan
  have key : ∀ p, ¬ (Paid H cfg.rejectDelta reg3 h.base.key p ∨
      PaidAmp H cfg.rejectDelta reg3 h.base.key p) := by
    intro p hp
    rcases hp with ⟨i, hi, _, _, _, g, hg, hgk, _⟩ | ⟨b, hb, g, hg, hgk, hgs, _⟩
    · exact huniq i hi g hg hgk
    · by_cases c : b.hash = a.hash
      · have : b = a3 := ahash_inj hg3.anodup hb ha3 (c.trans hmono.1)
        subst this
        have : g = h3 := akey_inj (hg3.agood b hb).nodup hg hh3 (hgk.trans hk3.symm)
        subst this
        rw [hgs] at hc3'; cases hc3'
      · exact huniqA b hb c g hg hgk
  have sp := settle_only_if_paid H P cfg (evs ++ more) e
  simp only at sp
  rw [← hreg2] at sp
  refine ⟨?_, ?_⟩
  · intro kind p ht hmsg
    exact key p (sp.2 h.base.key kind p ht hmsg)
  · intro ctx kind p ht he hk hrep
    have := (sp.1 ctx kind p ht he hrep).2
    rw [hk] at this
    exact key p this

/-- **a settled AMP htlc is never canceled** (resolution level, both stores): no later event
    delivers a fail resolution for its circuit key on a hodl subscription, provided that
    afterwards no other invoice records the same circuit key. -/
theorem amp_settled_never_canceled (H : Nat → Nat) (P : List (Nat × Nat) → Nat → Nat → Nat)
    (cfg : Cfg) (evs more : List Event) (e : Event) :
    let reg := run H P cfg Reg.empty evs
    let reg2 := run H P cfg reg more
    let reg3 := (step H P cfg reg2 e).1
    let out := (step H P cfg reg2 e).2
    ∀ a ∈ reg.amps, ∀ h ∈ a.htlcs, h.base.state = .settled →
      (∀ i ∈ reg3.invs, ∀ g ∈ i.htlcs, g.key ≠ h.base.key) →
      (∀ b ∈ reg3.amps, b.hash ≠ a.hash → ∀ g ∈ b.htlcs, g.base.key ≠ h.base.key) →
      ∀ r ah, (h.base.key, Res.fail r ah) ∉ out.msgs := by
  intro reg reg2 reg3 out a ha h hh hset huniq huniqA r ah hmsg
  have hreg3 : reg3 = run H P cfg Reg.empty (evs ++ (more ++ [e])) := by
    simp only [reg3, reg2, reg]
    rw [run_append, run_append]; rfl
  have hg3 : RegGood H cfg.rejectDelta reg3 := by rw [hreg3]; exact reachable_good H P cfg _
  obtain ⟨a3, ha3, hmono⟩ : ∃ a' ∈ reg3.amps, AMono a a' := by
    have := (states_monotone_run H P cfg evs (more ++ [e])).2 a ha
    rw [hreg3, run_append]; exact this
  obtain ⟨h3, hh3, hk3, hs3, _⟩ := amp_settled_xor_canceled hmono hh
  have hs3' : h3.base.state = .settled := hs3 hset
  rcases step_fail_canceled hmsg with ⟨i, hi, g, hg, hgk, _⟩ | ⟨b, hb, g, hg, hgk, hgc⟩
  · exact huniq i hi g hg hgk
  · by_cases c : b.hash = a.hash
    · have : b = a3 := ahash_inj hg3.anodup hb ha3 (c.trans hmono.1)
      subst this
      have : g = h3 := akey_inj (hg3.agood b hb).nodup hg hh3 (hgk.trans hk3.symm)
      subst this
      rw [hgc] at hs3'; cases hs3'
    · exact huniqA b hb c g hg hgk


/-- non-vacuity of the AMP statements, on the kv store (`exCfg.sql = false`), with the input of the
    former finding F-c15-kv-amp-setid-reuse: a set of 60 + 40 settles, then the same set id is
    paid again in full (key 3).  The two earlier htlcs are still recorded settled, a replay of
    key 2 is answered `ReplayToSettled` with its own child preimage, and a later CancelInvoice
    delivers no fail resolution. -/
example :
    let reg := run exH exP exCfg Reg.empty
      [.addInvoice exAmpInv, .notify (exAmpShard 1 60 5 0 1005), .notify (exAmpShard 2 40 6 1 1007),
       .notify (exAmpShard 3 100 8 2 1010)]
    (∃ a ∈ reg.amps, (a.htlcs.map (fun h => (h.base.key, h.base.state))) =
        [(1, .settled), (2, .settled), (3, .settled)]) ∧
    (step exH exP exCfg reg (.notify (exAmpShard 2 40 6 1 1007))).2.reply =
      .res (.settle .replayToSettled 7 100) ∧
    (step exH exP exCfg reg (.cancel 2000)).2.msgs = [] := by
  decide

end LndModel.C15
