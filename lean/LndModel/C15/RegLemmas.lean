/-
C15 — registry level: the invariant of all invoices (plain and AMP) is preserved by every event;
what a settle resolution implies; monotone states.
-/
import LndModel.C15.AmpLemmas

set_option linter.unusedSimpArgs false

namespace LndModel.C15

variable {H : Nat → Nat} {P : List (Nat × Nat) → Nat → Nat → Nat}

/-- all invoices of the registry satisfy their invariant; payment hashes are distinct. -/
structure RegGood (H : Nat → Nat) (R : Int) (reg : Reg) : Prop where
  nodup : (reg.invs.map (·.hash)).Nodup
  good : ∀ inv ∈ reg.invs, Good H R inv
  anodup : (reg.amps.map (·.hash)).Nodup
  agood : ∀ a ∈ reg.amps, AGood H R a

theorem findHash_some {invs : List Invoice} {h : Nat} {i : Invoice} (hf : findHash invs h = some i) :
    i ∈ invs ∧ i.hash = h := by
  unfold findHash at hf
  refine ⟨List.mem_of_find?_eq_some hf, ?_⟩
  have := List.find?_some hf
  simpa using this

theorem findAmp_some {amps : List AmpInv} {h : Nat} {i : AmpInv} (hf : findAmp amps h = some i) :
    i ∈ amps ∧ i.hash = h := by
  unfold findAmp at hf
  refine ⟨List.mem_of_find?_eq_some hf, ?_⟩
  have := List.find?_some hf
  simpa using this

theorem kHash_some {ks : List (Nat × Nat)} {h : Nat} {k : Nat × Nat} (hf : kHash ks h = some k) :
    k.1 = h := by
  unfold kHash at hf
  have := List.find?_some hf
  simpa using this

theorem kHash_none {ks : List (Nat × Nat)} {h : Nat} (hf : kHash ks h = none) :
    ∀ k ∈ ks, k.1 ≠ h := by
  intro k hk he
  unfold kHash at hf
  rw [List.find?_eq_none] at hf
  have := hf k hk
  simp [he] at this

/-- a lookup that is not by payment address only returns an invoice with the hash of the call. -/
theorem lookup_some {cfg : Cfg} {ks : List (Nat × Nat)} {hash : Nat} {mpp : Option (Nat × Nat)}
    {amp : Bool} {h : Nat} (hl : lookup cfg ks hash mpp amp = some h) (ha : amp = false) :
    h = hash := by
  unfold lookup at hl
  cases mpp with
  | none =>
    simp only at hl
    cases hk : kHash ks hash with
    | none => simp [hk] at hl
    | some k => simp [hk] at hl; rw [← hl]; exact kHash_some hk
  | some ta =>
    obtain ⟨t, a⟩ := ta
    simp only [ha, Bool.false_eq_true, if_false] at hl
    by_cases cs : cfg.sql = true
    · rw [if_pos cs] at hl
      cases hk : kHash ks hash with
      | none => simp [hk] at hl
      | some k =>
        simp only [hk] at hl
        by_cases c2 : a ≠ 0 ∧ k.2 ≠ a
        · rw [if_pos c2] at hl; cases hl
        · rw [if_neg c2] at hl; cases hl; exact kHash_some hk
    · rw [if_neg cs] at hl
      cases hx : kAddr ks a with
      | none =>
        simp only [hx] at hl
        cases hk : kHash ks hash with
        | none => simp [hk] at hl
        | some k => simp [hk] at hl; rw [← hl]; exact kHash_some hk
      | some x =>
        cases hy : kHash ks hash with
        | none => simp [hx, hy] at hl
        | some y =>
          simp only [hx, hy] at hl
          by_cases c3 : x.1 = y.1
          · rw [if_pos c3] at hl; cases hl; rw [c3]; exact kHash_some hy
          · rw [if_neg c3] at hl; cases hl

theorem mem_setInv {invs : List Invoice} {inv' i : Invoice} (h : i ∈ setInv invs inv') :
    i = inv' ∨ i ∈ invs := by
  unfold setInv at h
  obtain ⟨j, hj, rfl⟩ := List.mem_map.mp h
  by_cases c : j.hash = inv'.hash
  · simp [c]
  · simp [c, hj]

theorem setInv_self {invs : List Invoice} {inv inv' : Invoice} (hm : inv ∈ invs)
    (hh : inv.hash = inv'.hash) : inv' ∈ setInv invs inv' := by
  unfold setInv
  exact List.mem_map.mpr ⟨inv, hm, by simp [hh]⟩

theorem setInv_hashes (invs : List Invoice) (inv' : Invoice) :
    (setInv invs inv').map (·.hash) = invs.map (·.hash) := by
  unfold setInv
  rw [List.map_map]
  apply List.map_congr_left
  intro i _
  by_cases c : i.hash = inv'.hash <;> simp [c]

theorem mem_setAmp {amps : List AmpInv} {a' i : AmpInv} (h : i ∈ setAmp amps a') :
    i = a' ∨ i ∈ amps := by
  unfold setAmp at h
  obtain ⟨j, hj, rfl⟩ := List.mem_map.mp h
  by_cases c : j.hash = a'.hash
  · simp [c]
  · simp [c, hj]

theorem setAmp_self {amps : List AmpInv} {a a' : AmpInv} (hm : a ∈ amps)
    (hh : a.hash = a'.hash) : a' ∈ setAmp amps a' := by
  unfold setAmp
  exact List.mem_map.mpr ⟨a, hm, by simp [hh]⟩

theorem setAmp_hashes (amps : List AmpInv) (a' : AmpInv) :
    (setAmp amps a').map (·.hash) = amps.map (·.hash) := by
  unfold setAmp
  rw [List.map_map]
  apply List.map_congr_left
  intro i _
  by_cases c : i.hash = a'.hash <;> simp [c]

theorem RegGood.setInv {R} {reg : Reg} (hg : RegGood H R reg) {inv' : Invoice} (h' : Good H R inv')
    (subs : List Nat) : RegGood H R { reg with invs := setInv reg.invs inv', subs := subs } := by
  refine ⟨by simp only [setInv_hashes]; exact hg.nodup, ?_, hg.anodup, hg.agood⟩
  intro i hi
  rcases mem_setInv hi with rfl | hi
  · exact h'
  · exact hg.good i hi

theorem RegGood.setAmp {R} {reg : Reg} (hg : RegGood H R reg) {a' : AmpInv} (h' : AGood H R a')
    (subs : List Nat) : RegGood H R { reg with amps := setAmp reg.amps a', subs := subs } := by
  refine ⟨hg.nodup, hg.good, by simp only [setAmp_hashes]; exact hg.anodup, ?_⟩
  intro i hi
  rcases mem_setAmp hi with rfl | hi
  · exact h'
  · exact hg.agood i hi

theorem good_fresh (H : Nat → Nat) (R : Int) (s : InvSpec) (hs : s.ampReq = false) :
    Good H R s.toInvoice := by
  refine ⟨hs, ⟨by simp [InvSpec.toInvoice], ?_, ?_, ?_, ?_⟩, ?_, ?_, ?_, ?_, ?_⟩
  all_goals simp [InvSpec.toInvoice, SameTotal, Complete]

theorem agood_fresh (H : Nat → Nat) (R : Int) (s : InvSpec) : AGood H R s.toAmp := by
  refine ⟨by simp [InvSpec.toAmp], ?_⟩
  intro h hh; simp [InvSpec.toAmp] at hh

theorem addInvoice_sub {reg reg' : Reg} {s : InvSpec} (ha : addInvoice reg s = some reg') :
    (∀ i ∈ reg.invs, i ∈ reg'.invs) ∧ (∀ i ∈ reg.amps, i ∈ reg'.amps) := by
  unfold addInvoice at ha
  by_cases c1 : (kHash reg.keys s.hash).isSome = true
  · simp [c1] at ha
  rw [if_neg c1] at ha
  by_cases c2 : (kAddr reg.keys s.payAddr).isSome = true
  · simp [c2] at ha
  rw [if_neg c2] at ha
  by_cases c3 : s.ampReq = true
  · rw [if_pos c3] at ha; cases ha
    exact ⟨fun _ h => h, fun i hi => by simp [hi]⟩
  · rw [if_neg c3] at ha; cases ha
    exact ⟨fun i hi => by simp [hi], fun _ h => h⟩

theorem addInvoice_good {R} {reg reg' : Reg} {s : InvSpec} (hg : RegGood H R reg)
    (ha : addInvoice reg s = some reg') : RegGood H R reg' := by
  unfold addInvoice at ha
  by_cases c1 : (kHash reg.keys s.hash).isSome = true
  · simp [c1] at ha
  rw [if_neg c1] at ha
  by_cases c2 : (kAddr reg.keys s.payAddr).isSome = true
  · simp [c2] at ha
  rw [if_neg c2] at ha
  have hn : kHash reg.keys s.hash = none := by
    cases hf : kHash reg.keys s.hash with
    | none => rfl
    | some _ => simp [hf] at c1
  have hfresh := kHash_none hn
  by_cases c3 : s.ampReq = true
  · rw [if_pos c3] at ha; cases ha
    refine ⟨hg.nodup, hg.good, ?_, ?_⟩
    · simp only [List.map_append, List.map_cons, List.map_nil]
      rw [List.nodup_append]
      refine ⟨hg.anodup, by simp, ?_⟩
      intro x hx y hy
      obtain ⟨i, hi, rfl⟩ := List.mem_map.mp hx
      simp at hy; subst hy
      exact hfresh (i.hash, i.payAddr) (by unfold Reg.keys; simp; right; exact ⟨i, hi, rfl, rfl⟩)
    · intro i hi
      rcases List.mem_append.mp hi with hi | hi
      · exact hg.agood i hi
      · simp at hi; subst hi; exact agood_fresh H R s
  · rw [if_neg c3] at ha; cases ha
    refine ⟨?_, ?_, hg.anodup, hg.agood⟩
    · simp only [List.map_append, List.map_cons, List.map_nil]
      rw [List.nodup_append]
      refine ⟨hg.nodup, by simp, ?_⟩
      intro x hx y hy
      obtain ⟨i, hi, rfl⟩ := List.mem_map.mp hx
      simp at hy; subst hy
      exact hfresh (i.hash, i.payAddr) (by unfold Reg.keys; simp; left; exact ⟨i, hi, rfl, rfl⟩)
    · intro i hi
      rcases List.mem_append.mp hi with hi | hi
      · exact hg.good i hi
      · simp at hi; subst hi; exact good_fresh H R s (by simpa using c3)

theorem processKeySend_spec {cfg : Cfg} {reg reg' : Reg} {ctx : Ctx}
    (hp : processKeySend H cfg reg ctx = some reg') :
    reg' = reg ∨ ∃ s, addInvoice reg s = some reg' := by
  unfold processKeySend at hp
  cases hk : ctx.ks with
  | none => simp [hk] at hp; left; exact hp.symm
  | some o =>
    cases o with
    | none => simp [hk] at hp
    | some p =>
      simp only [hk] at hp
      by_cases c1 : H p ≠ ctx.hash
      · simp [c1] at hp
      rw [if_neg c1] at hp
      by_cases c2 : ctx.mpp.isSome = true
      · simp [c2] at hp
      rw [if_neg c2] at hp
      by_cases c3 : expiryTooSoon ctx.expiry ctx.height cfg.rejectDelta = true
      · simp [c3] at hp
      rw [if_neg c3] at hp
      split at hp
      · rename_i r' ha; cases hp; right; exact ⟨_, ha⟩
      · cases hp; left; rfl

theorem processAMP_spec {cfg : Cfg} {reg reg' : Reg} {ctx : Ctx}
    (hp : processAMP cfg reg ctx = some reg') :
    reg' = reg ∨ ∃ s, addInvoice reg s = some reg' := by
  unfold processAMP at hp
  cases hm : ctx.mpp with
  | none => simp [hm] at hp
  | some ta =>
    obtain ⟨t, a⟩ := ta
    simp only [hm] at hp
    by_cases c3 : expiryTooSoon ctx.expiry ctx.height cfg.rejectDelta = true
    · simp [c3] at hp
    rw [if_neg c3] at hp
    split at hp
    · rename_i r' ha; cases hp; right; exact ⟨_, ha⟩
    · cases hp; left; rfl

theorem preprocess_spec {cfg : Cfg} {reg reg' : Reg} {ctx : Ctx}
    (hp : preprocess H cfg reg ctx = .ok reg') :
    reg' = reg ∨ ∃ s, addInvoice reg s = some reg' := by
  unfold preprocess at hp
  by_cases c1 : (cfg.acceptAMP && ctx.amp) = true
  · rw [if_pos c1] at hp
    cases h : processAMP cfg reg ctx with
    | none => simp [h] at hp
    | some r => simp [h] at hp; subst hp; exact processAMP_spec h
  · rw [if_neg c1] at hp
    by_cases c2 : (cfg.acceptKeysend && !ctx.amp) = true
    · rw [if_pos c2] at hp
      cases h : processKeySend H cfg reg ctx with
      | none => simp [h] at hp
      | some r => simp [h] at hp; subst hp; exact processKeySend_spec h
    · rw [if_neg c2] at hp; cases hp; left; rfl

theorem preprocess_good {R} {cfg : Cfg} {reg reg' : Reg} {ctx : Ctx} (hg : RegGood H R reg)
    (hp : preprocess H cfg reg ctx = .ok reg') : RegGood H R reg' := by
  rcases preprocess_spec hp with rfl | ⟨s, ha⟩
  · exact hg
  · exact addInvoice_good hg ha

theorem preprocess_sub {cfg : Cfg} {reg reg' : Reg} {ctx : Ctx}
    (hp : preprocess H cfg reg ctx = .ok reg') :
    (∀ i ∈ reg.invs, i ∈ reg'.invs) ∧ (∀ i ∈ reg.amps, i ∈ reg'.amps) := by
  rcases preprocess_spec hp with rfl | ⟨s, ha⟩
  · exact ⟨fun _ h => h, fun _ h => h⟩
  · exact addInvoice_sub ha

theorem notify_good {R} {cfg : Cfg} {reg : Reg} {ctx : Ctx} (hg : RegGood H R reg)
    (hR : ctx.rejectDelta = R) : RegGood H R (notify H P cfg reg ctx).1 := by
  unfold notify
  cases hpre : preprocess H cfg reg ctx with
  | error e => exact hg
  | ok reg1 =>
    have hg1 : RegGood H R reg1 := preprocess_good hg hpre
    simp only
    cases hl : lookup cfg reg1.keys ctx.hash (refAddr ctx) (ctx.amp && ctx.pathID.isNone) with
    | none => exact hg1
    | some h =>
      simp only
      cases hf : findHash reg1.invs h with
      | some inv =>
        simp only
        exact hg1.setInv (inotify_good (hg1.good inv (findHash_some hf).1) hR) _
      | none =>
        simp only
        cases hfa : findAmp reg1.amps h with
        | none => exact hg1
        | some a =>
          simp only
          split
          · exact hg1
          · exact hg1.setAmp (anotify_good (hg1.agood a (findAmp_some hfa).1) hR) _

theorem settleHodl_good {R} {reg : Reg} {p : Nat} (hg : RegGood H R reg) :
    RegGood H R (settleHodl H reg p).1 := by
  unfold settleHodl
  cases hf : findHash reg.invs (H p) with
  | some inv => exact hg.setInv (isettle_good p (hg.good inv (findHash_some hf).1)) _
  | none =>
    simp only
    cases hfa : findAmp reg.amps (H p) <;> exact hg

theorem cancel_good {R} {reg : Reg} {h : Nat} (hg : RegGood H R reg) :
    RegGood H R (cancel reg h).1 := by
  unfold cancel
  cases hf : findHash reg.invs h with
  | some inv => exact hg.setInv (icancel_good (hg.good inv (findHash_some hf).1)) _
  | none =>
    simp only
    cases hfa : findAmp reg.amps h with
    | none => exact hg
    | some a => exact hg.setAmp (acancel_good (hg.agood a (findAmp_some hfa).1)) _

theorem tick_good {R} {cfg : Cfg} {reg : Reg} {dt : Nat} (hg : RegGood H R reg) :
    RegGood H R (tick cfg reg dt).1 := by
  unfold tick
  simp only
  refine ⟨?_, ?_, ?_, ?_⟩
  · rw [List.map_map, List.map_map]
    have : ∀ i ∈ reg.invs, (((fun x : Invoice => x.hash) ∘ fun x : Invoice × List (Nat × Res) => x.1) ∘
        itimeout cfg.hold (reg.now + dt)) i = (fun x : Invoice => x.hash) i := by
      intro i _
      exact (itimeout_terms (hold := cfg.hold) (now := reg.now + dt) (inv := i)).1.symm
    rw [List.map_congr_left this]; exact hg.nodup
  · intro i hi
    rw [List.map_map] at hi
    obtain ⟨j, hj, rfl⟩ := List.mem_map.mp hi
    exact itimeout_good _ _ (hg.good j hj)
  · rw [List.map_map, List.map_map]
    have : ∀ i ∈ reg.amps, (((fun x : AmpInv => x.hash) ∘ fun x : AmpInv × List (Nat × Res) => x.1) ∘
        atimeout cfg.hold (reg.now + dt)) i = (fun x : AmpInv => x.hash) i := by
      intro i _
      exact (atimeout_mono (hold := cfg.hold) (now := reg.now + dt) (a := i)).1.symm
    rw [List.map_congr_left this]; exact hg.anodup
  · intro i hi
    obtain ⟨j, hj, rfl⟩ := List.mem_map.mp hi
    obtain ⟨k, hk, rfl⟩ := List.mem_map.mp hj
    exact atimeout_good (hg.agood k hk)

theorem step_good {R} {cfg : Cfg} {reg : Reg} {e : Event} (hg : RegGood H R reg)
    (hR : cfg.rejectDelta = R) : RegGood H R (step H P cfg reg e).1 := by
  cases e with
  | addInvoice s =>
    simp only [step]
    cases ha : addInvoice reg s with
    | none => exact hg
    | some reg' => exact addInvoice_good hg ha
  | notify ctx => exact notify_good hg hR
  | settle p => exact settleHodl_good hg
  | cancel h => exact cancel_good hg
  | tick dt => exact tick_good hg

theorem run_good {R} {cfg : Cfg} (hR : cfg.rejectDelta = R) (evs : List Event) :
    ∀ (reg : Reg), RegGood H R reg → RegGood H R (run H P cfg reg evs) := by
  induction evs with
  | nil => intro reg hg; exact hg
  | cons e es ih =>
    intro reg hg
    simp only [run]
    exact ih _ (step_good hg hR)

theorem regGood_empty (H : Nat → Nat) (R : Int) : RegGood H R Reg.empty := by
  refine ⟨by simp [Reg.empty], ?_, by simp [Reg.empty], ?_⟩
  · intro i hi; simp [Reg.empty] at hi
  · intro i hi; simp [Reg.empty] at hi

/-- every registry reachable from the empty one satisfies the invariant. -/
theorem reachable_good (H : Nat → Nat) (P : List (Nat × Nat) → Nat → Nat → Nat) (cfg : Cfg)
    (evs : List Event) : RegGood H cfg.rejectDelta (run H P cfg Reg.empty evs) :=
  run_good rfl evs _ (regGood_empty H _)

/-! ### what a settle resolution implies -/

/-- htlc `k` is recorded settled on a settled (non-AMP) invoice whose preimage is `p`. -/
def SettledIn (reg : Reg) (k p : Nat) : Prop :=
  ∃ inv ∈ reg.invs, inv.state = .settled ∧ inv.preimage = some p ∧
    ∃ h ∈ inv.htlcs, h.key = k ∧ h.state = .settled

/-- AMP htlc `k` is recorded settled with preimage `p` hashing to its payment hash. -/
def ASettledIn (H : Nat → Nat) (reg : Reg) (k p : Nat) : Prop :=
  ∃ a ∈ reg.amps, ASettled H a k p

theorem deliver_sub {subs : List Nat} {msgs : List (Nat × Res)} {m : Nat × Res}
    (h : m ∈ (deliver subs msgs).2) : m ∈ msgs := by
  unfold deliver at h
  exact (List.mem_filter.mp h).1

theorem fixHeight_settle {inv : Invoice} {key : Nat} {r : Res} {k : SettleKind} {p : Nat} {ht : Int}
    (h : fixHeight inv key r = .settle k p ht) : r = .settle k p ht := by
  cases r with
  | fail fr ah =>
    simp only [fixHeight] at h
    cases hf : findHtlc inv key <;> simp [hf] at h
  | settle => simpa [fixHeight] using h
  | accept => simp [fixHeight] at h
  | err => simp [fixHeight] at h

theorem notify_settles {R} {cfg : Cfg} {reg : Reg} {ctx : Ctx} (hg : RegGood H R reg)
    (hR : ctx.rejectDelta = R) :
    (∀ kind p ht, (notify H P cfg reg ctx).2.reply = .res (.settle kind p ht) →
        H p = ctx.hash ∧ (SettledIn (notify H P cfg reg ctx).1 ctx.key p ∨
          ASettledIn H (notify H P cfg reg ctx).1 ctx.key p)) ∧
    (∀ k kind p ht, (k, Res.settle kind p ht) ∈ (notify H P cfg reg ctx).2.msgs →
        SettledIn (notify H P cfg reg ctx).1 k p ∨ ASettledIn H (notify H P cfg reg ctx).1 k p) := by
  unfold notify
  cases hpre : preprocess H cfg reg ctx with
  | error e => simp
  | ok reg1 =>
    have hg1 : RegGood H R reg1 := preprocess_good hg hpre
    simp only
    cases hl : lookup cfg reg1.keys ctx.hash (refAddr ctx) (ctx.amp && ctx.pathID.isNone) with
    | none => simp
    | some h =>
      simp only
      cases hf : findHash reg1.invs h with
      | some inv =>
        simp only
        obtain ⟨hm, hih⟩ := findHash_some hf
        have hhash : ctx.amp = false → ctx.hash = inv.hash := by
          intro ha
          rw [hih]; exact (lookup_some hl (by simp [ha])).symm
        have hgi := hg1.good inv hm
        cases hn : inotify H ctx inv with
        | mk inv' r0 =>
          simp only
          have hterms : SameTerms inv inv' := by
            have := inotify_terms (H := H) (ctx := ctx) (inv := inv); rw [hn] at this; exact this
          have hmem : inv' ∈ setInv reg1.invs inv' := setInv_self hm hterms.1
          have main : ∀ kind p ht, fixHeight inv' ctx.key r0 = .settle kind p ht →
              inv'.state = .settled ∧ inv'.preimage = some p ∧ H p = ctx.hash ∧
              ∃ h ∈ inv'.htlcs, h.key = ctx.key ∧ h.state = .settled := by
            intro kind p ht hf
            have := fixHeight_settle hf
            subst this
            exact inotify_settle hgi hR hhash hn
          refine ⟨?_, ?_⟩
          · intro kind p ht hrep
            simp at hrep
            obtain ⟨s1, s2, s3, s4⟩ := main kind p ht hrep
            exact ⟨s3, Or.inl ⟨inv', hmem, s1, s2, s4⟩⟩
          · intro k kind p ht hmsg
            have hin := deliver_sub hmsg
            obtain ⟨⟨ht0, hr⟩, h, hh1, hh2, hh3⟩ := notifyMsgs_settle hin
            obtain ⟨s1, s2, _, _⟩ := main kind p ht0 hr
            exact Or.inl ⟨inv', hmem, s1, s2, h, hh1, hh2, hh3⟩
      | none =>
        simp only
        cases hfa : findAmp reg1.amps h with
        | none => simp
        | some a =>
          simp only
          obtain ⟨hm, _⟩ := findAmp_some hfa
          have hga := hg1.agood a hm
          split
          · simp
          · have hmem : (anotify H P false ctx a).1 ∈ setAmp reg1.amps (anotify H P false ctx a).1 :=
              setAmp_self hm (anotify_hash (H := H) (P := P) (drop := false)).symm
            refine ⟨?_, ?_⟩
            · intro kind p ht hrep
              simp at hrep
              obtain ⟨s1, s2⟩ := anotify_settle hga hrep
              exact ⟨s2, Or.inr ⟨_, hmem, s1⟩⟩
            · intro k kind p ht hmsg
              exact Or.inr ⟨_, hmem, anotify_msgs_settle hga hR (deliver_sub hmsg)⟩

theorem settleHodl_settles {reg : Reg} {q : Nat} :
    ∀ k kind p ht, (k, Res.settle kind p ht) ∈ (settleHodl H reg q).2.msgs →
        SettledIn (settleHodl H reg q).1 k p ∧ p = q := by
  intro k kind p ht hmsg
  unfold settleHodl at hmsg ⊢
  cases hf : findHash reg.invs (H q) with
  | none =>
    simp only [hf] at hmsg
    cases hfa : findAmp reg.amps (H q) <;> simp [hfa] at hmsg
  | some inv =>
    simp only [hf] at hmsg ⊢
    have hin := deliver_sub hmsg
    obtain ⟨⟨ah, hr⟩, s1, s2, h, hh1, hh2, hh3⟩ := isettle_msgs hin
    cases hr
    have hmem : (isettle H q inv).1 ∈ setInv reg.invs (isettle H q inv).1 :=
      setInv_self (findHash_some hf).1 (isettle_terms).1
    exact ⟨⟨_, hmem, s1, s2, h, hh1, hh2, hh3⟩, rfl⟩

theorem cancel_no_settle {reg : Reg} {hash : Nat} :
    ∀ k kind p ht, (k, Res.settle kind p ht) ∉ (cancel reg hash).2.msgs := by
  intro k kind p ht hmsg
  unfold cancel at hmsg
  cases hf : findHash reg.invs hash with
  | some inv =>
    simp only [hf] at hmsg
    obtain ⟨ah, hr⟩ := icancel_msgs (deliver_sub hmsg)
    cases hr
  | none =>
    simp only [hf] at hmsg
    cases hfa : findAmp reg.amps hash with
    | none => simp [hfa] at hmsg
    | some a =>
      simp only [hfa] at hmsg
      obtain ⟨ah, hr⟩ := acancel_msgs (deliver_sub hmsg)
      cases hr

theorem tick_no_settle {cfg : Cfg} {reg : Reg} {dt : Nat} :
    ∀ k kind p ht, (k, Res.settle kind p ht) ∉ (tick cfg reg dt).2.msgs := by
  intro k kind p ht hmsg
  unfold tick at hmsg
  simp only at hmsg
  have hin := deliver_sub hmsg
  rcases List.mem_append.mp hin with hin | hin
  · rw [List.mem_flatten] at hin
    obtain ⟨l, hl, hml⟩ := hin
    obtain ⟨x, hx, rfl⟩ := List.mem_map.mp hl
    obtain ⟨i, _, rfl⟩ := List.mem_map.mp hx
    obtain ⟨ah, hr⟩ := itimeout_msgs hml
    cases hr
  · rw [List.mem_flatten] at hin
    obtain ⟨l, hl, hml⟩ := hin
    obtain ⟨x, hx, rfl⟩ := List.mem_map.mp hl
    obtain ⟨i, _, rfl⟩ := List.mem_map.mp hx
    obtain ⟨ah, hr⟩ := atimeout_msgs hml
    cases hr

/-! ### monotone states -/

theorem hash_inj {l : List Invoice} (hn : (l.map (·.hash)).Nodup) {a b : Invoice}
    (ha : a ∈ l) (hb : b ∈ l) (h : a.hash = b.hash) : a = b := by
  induction l with
  | nil => cases ha
  | cons x t ih =>
    simp only [List.map_cons, List.nodup_cons] at hn
    obtain ⟨hx, ht⟩ := hn
    rcases List.mem_cons.mp ha with rfl | ha'
    · rcases List.mem_cons.mp hb with rfl | hb'
      · rfl
      · exact absurd (List.mem_map.mpr ⟨b, hb', h.symm⟩) hx
    · rcases List.mem_cons.mp hb with rfl | hb'
      · exact absurd (List.mem_map.mpr ⟨a, ha', h⟩) hx
      · exact ih ht ha' hb'

theorem ahash_inj {l : List AmpInv} (hn : (l.map (·.hash)).Nodup) {a b : AmpInv}
    (ha : a ∈ l) (hb : b ∈ l) (h : a.hash = b.hash) : a = b := by
  induction l with
  | nil => cases ha
  | cons x t ih =>
    simp only [List.map_cons, List.nodup_cons] at hn
    obtain ⟨hx, ht⟩ := hn
    rcases List.mem_cons.mp ha with rfl | ha'
    · rcases List.mem_cons.mp hb with rfl | hb'
      · rfl
      · exact absurd (List.mem_map.mpr ⟨b, hb', h.symm⟩) hx
    · rcases List.mem_cons.mp hb with rfl | hb'
      · exact absurd (List.mem_map.mpr ⟨a, ha', h⟩) hx
      · exact ih ht ha' hb'

theorem setInv_mono {invs : List Invoice} (hn : (invs.map (·.hash)).Nodup) {inv inv' : Invoice}
    (hm : inv ∈ invs) (hmono : Mono inv inv') :
    ∀ i ∈ invs, ∃ i' ∈ setInv invs inv', Mono i i' := by
  intro i hi
  by_cases c : i.hash = inv'.hash
  · have : i = inv := hash_inj hn hi hm (c.trans hmono.1.1.symm)
    subst this
    exact ⟨inv', setInv_self hm hmono.1.1, hmono⟩
  · refine ⟨i, ?_, Mono.refl i⟩
    unfold setInv
    exact List.mem_map.mpr ⟨i, hi, by simp [c]⟩

theorem setAmp_mono {d : Bool} {amps : List AmpInv} (hn : (amps.map (·.hash)).Nodup) {a a' : AmpInv}
    (hm : a ∈ amps) (hmono : AMonoD d a a') :
    ∀ i ∈ amps, ∃ i' ∈ setAmp amps a', AMonoD d i i' := by
  intro i hi
  by_cases c : i.hash = a'.hash
  · have : i = a := ahash_inj hn hi hm (c.trans hmono.1.symm)
    subst this
    exact ⟨a', setAmp_self hm hmono.1, hmono⟩
  · refine ⟨i, ?_, (AMono.refl i).toD d⟩
    unfold setAmp
    exact List.mem_map.mpr ⟨i, hi, by simp [c]⟩

/-- one event: every invoice (plain or AMP) of the registry is still there, moved forward; on the
    kv store (`cfg.sql = false`) an AMP htlc that is no longer accepted may be forgotten
    (`AMonoD`, `akeep`). -/
theorem step_monoD {R} {cfg : Cfg} {reg : Reg} {e : Event} (hg : RegGood H R reg) :
    (∀ i ∈ reg.invs, ∃ i' ∈ (step H P cfg reg e).1.invs, Mono i i') ∧
    (∀ a ∈ reg.amps, ∃ a' ∈ (step H P cfg reg e).1.amps, AMonoD false a a') := by
  have idI : ∀ (r : Reg), (∀ i ∈ reg.invs, i ∈ r.invs) → ∀ i ∈ reg.invs, ∃ i' ∈ r.invs, Mono i i' :=
    fun r hs i hi => ⟨i, hs i hi, Mono.refl i⟩
  have idA : ∀ (r : Reg), (∀ i ∈ reg.amps, i ∈ r.amps) →
      ∀ a ∈ reg.amps, ∃ a' ∈ r.amps, AMonoD false a a' :=
    fun r hs i hi => ⟨i, hs i hi, (AMono.refl i).toD _⟩
  cases e with
  | addInvoice s =>
    simp only [step]
    cases ha : addInvoice reg s with
    | none => exact ⟨idI reg (fun _ h => h), idA reg (fun _ h => h)⟩
    | some reg' => exact ⟨idI reg' (addInvoice_sub ha).1, idA reg' (addInvoice_sub ha).2⟩
  | notify ctx0 =>
    simp only [step]
    generalize ({ ctx0 with now := reg.now, rejectDelta := cfg.rejectDelta } : Ctx) = ctx
    unfold notify
    cases hpre : preprocess H cfg reg ctx with
    | error e => exact ⟨idI reg (fun _ h => h), idA reg (fun _ h => h)⟩
    | ok reg1 =>
      have hsub := preprocess_sub hpre
      have hg1 : RegGood H R reg1 := preprocess_good hg hpre
      simp only
      cases hl : lookup cfg reg1.keys ctx.hash (refAddr ctx) (ctx.amp && ctx.pathID.isNone) with
      | none => exact ⟨idI reg1 hsub.1, idA reg1 hsub.2⟩
      | some h =>
        simp only
        cases hf : findHash reg1.invs h with
        | some inv =>
          simp only
          refine ⟨?_, fun a ha => ⟨a, hsub.2 a ha, (AMono.refl a).toD _⟩⟩
          intro i hi
          exact setInv_mono hg1.nodup (findHash_some hf).1 (inotify_mono (H := H) (ctx := ctx)) i (hsub.1 i hi)
        | none =>
          simp only
          cases hfa : findAmp reg1.amps h with
          | none => exact ⟨idI reg1 hsub.1, idA reg1 hsub.2⟩
          | some a =>
            simp only
            split
            · exact ⟨idI reg1 hsub.1, idA reg1 hsub.2⟩
            · refine ⟨fun i hi => ⟨i, hsub.1 i hi, Mono.refl i⟩, ?_⟩
              intro b hb
              exact setAmp_mono hg1.anodup (findAmp_some hfa).1
                (anotify_monoD (H := H) (P := P) (drop := false) (ctx := ctx)) b (hsub.2 b hb)
  | settle p =>
    simp only [step]
    unfold settleHodl
    cases hf : findHash reg.invs (H p) with
    | some inv =>
      refine ⟨?_, fun a ha => ⟨a, ha, (AMono.refl a).toD _⟩⟩
      intro i hi
      exact setInv_mono hg.nodup (findHash_some hf).1 (isettle_mono (H := H) (p := p)) i hi
    | none =>
      simp only
      cases hfa : findAmp reg.amps (H p) <;>
        exact ⟨idI reg (fun _ h => h), idA reg (fun _ h => h)⟩
  | cancel h =>
    simp only [step]
    unfold cancel
    cases hf : findHash reg.invs h with
    | some inv =>
      refine ⟨?_, fun a ha => ⟨a, ha, (AMono.refl a).toD _⟩⟩
      intro i hi
      exact setInv_mono hg.nodup (findHash_some hf).1 icancel_mono i hi
    | none =>
      simp only
      cases hfa : findAmp reg.amps h with
      | none => exact ⟨idI reg (fun _ h => h), idA reg (fun _ h => h)⟩
      | some a =>
        refine ⟨fun i hi => ⟨i, hi, Mono.refl i⟩, ?_⟩
        intro b hb
        exact setAmp_mono hg.anodup (findAmp_some hfa).1 (acancel_mono.toD _) b hb
  | tick dt =>
    simp only [step]
    unfold tick
    simp only
    refine ⟨?_, ?_⟩
    · intro i hi
      refine ⟨(itimeout cfg.hold (reg.now + dt) i).1, ?_, itimeout_mono⟩
      rw [List.map_map]
      exact List.mem_map.mpr ⟨i, hi, rfl⟩
    · intro a ha
      refine ⟨(atimeout cfg.hold (reg.now + dt) a).1, ?_, atimeout_mono.toD _⟩
      rw [List.map_map]
      exact List.mem_map.mpr ⟨a, ha, rfl⟩

/-- one event, either store: nothing is forgotten (since lnd 4ae3b4a the kv store keeps the recorded
    htlcs of a settled AMP set as well). -/
theorem step_mono {R} {cfg : Cfg} {reg : Reg} {e : Event} (hg : RegGood H R reg) :
    (∀ i ∈ reg.invs, ∃ i' ∈ (step H P cfg reg e).1.invs, Mono i i') ∧
    (∀ a ∈ reg.amps, ∃ a' ∈ (step H P cfg reg e).1.amps, AMono a a') := by
  obtain ⟨h1, h2⟩ := step_monoD (P := P) (cfg := cfg) (e := e) hg
  refine ⟨h1, ?_⟩
  intro a ha
  obtain ⟨a', hm, hd⟩ := h2 a ha
  exact ⟨a', hm, hd.mono⟩

end LndModel.C15
