/-
C15 — property theorems for ALL interleavings at the granularity of store transactions
(model: Conc.lean; helper lemmas: ConcLemmas.lean).

A schedule is any list of `CAct`: transactions of the atomic events, the locked part of
NotifyExitHopHtlc alone (its just-in-time AddInvoice committed earlier), single hold timers
(`cancelSingleHtlc` for any selection of accepted htlcs, at any time), clock advances, the expiry
watcher's `cancelInvoiceImpl(hash, force)`, HodlUnsubscribeAll, and — separately, in any order
and arbitrarily late — the per-resolution `notifyHodlSubscribers` / `hodlSubscribe` steps of every
committed transaction.  This over-approximates lnd (the registry mutex forbids some of these
schedules), so every theorem below holds for the real interleavings, in particular for the ones the
atomic theorems of Props.lean do not cover: a hold timer firing while the completing shard or
SettleHodlInvoice is in progress, keysend htlcs for one hash from several links, a fan-out that is
overtaken by a later transaction.
-/
import LndModel.C15.ConcLemmas
import LndModel.C15.Props

set_option linter.unusedSimpArgs false
set_option linter.unusedVariables false

namespace LndModel.C15

variable {H : Nat → Nat} {P : List (Nat × Nat) → Nat → Nat → Nat}

/-! ### the inductive invariant of the interleaving system -/

/-- the database is `RegGood` and every resolution that is still waiting for its
    `notifyHodlSubscribers` call is justified by the CURRENT database: a settle resolution is for an
    htlc recorded settled (with a matching hash), a fail resolution for an htlc recorded canceled. -/
structure CInv (H : Nat → Nat) (R : Int) (s : CSt) : Prop where
  good : RegGood H R s.reg
  settle : ∀ t ∈ s.threads, ∀ k kind p ht, (k, Res.settle kind p ht) ∈ t.msgs →
    RecSettled H s.reg k p
  fail : ∀ t ∈ s.threads, ∀ k r ah, (k, Res.fail r ah) ∈ t.msgs → CanceledIn s.reg k

theorem cinv_empty (H : Nat → Nat) (R : Int) : CInv H R CSt.empty :=
  ⟨regGood_empty H R, (by intro t ht; cases ht), (by intro t ht; cases ht)⟩

theorem commit_inv {R} {s : CSt} {t : Tx} (key : Option Nat) (hi : CInv H R s)
    (ok : TxOk H R s.reg t) : CInv H R (commit s t key).1 := by
  refine ⟨ok.good, ?_, ?_⟩
  · intro th hth k kind p ht hm
    rcases List.mem_append.mp hth with h | h
    · exact (hi.settle th h k kind p ht hm).mono ok.mono
    · simp only [List.mem_singleton] at h; subst h
      exact ok.settle k kind p ht hm
  · intro th hth k r ah hm
    rcases List.mem_append.mp hth with h | h
    · exact (hi.fail th h k r ah hm).mono ok.mono
    · simp only [List.mem_singleton] at h; subst h
      exact ok.fail k r ah hm

theorem runThread_msgs {subs : List Nat} {t : Thread} {m : Nat × Res}
    (h : m ∈ (runThread subs t).2.1.msgs) : m ∈ t.msgs := by
  unfold runThread at h
  cases hm : t.msgs with
  | cons x rest => simp only [hm] at h; exact List.mem_cons_of_mem _ h
  | nil =>
    simp only [hm] at h
    cases hs : t.sub <;> simp [hs, hm] at h

theorem runThread_del {subs : List Nat} {t : Thread} {m : Nat × Res}
    (h : m ∈ (runThread subs t).2.2) : m ∈ t.msgs ∧ m.1 ∈ subs ∧ m.1 ∉ (runThread subs t).1 := by
  unfold runThread at h ⊢
  cases hm : t.msgs with
  | cons x rest =>
    simp only [hm] at h ⊢
    by_cases c : subs.contains x.1 = true
    · rw [if_pos c] at h
      simp only [List.mem_singleton] at h; subst h
      refine ⟨List.mem_cons_self, by simpa using c, ?_⟩
      simp [List.mem_filter]
    · rw [if_neg c] at h; cases h
  | nil =>
    simp only [hm] at h
    cases hs : t.sub <;> simp [hs] at h

/-- one step of any kind keeps the invariant and only moves the database forward. -/
theorem cstep_inv {R} {cfg : Cfg} {s : CSt} (a : CAct) (hR : cfg.rejectDelta = R)
    (hi : CInv H R s) :
    CInv H R (cstep H P cfg s a).1 ∧ RegMono s.reg (cstep H P cfg s a).1.reg := by
  cases a with
  | ev e =>
    have ok := txOf_ok (P := P) (cfg := cfg) e hi.good hR
    exact ⟨commit_inv _ hi ok, ok.mono⟩
  | core ctx =>
    have ok := coreTx_ok (P := P) (cfg := cfg) ctx hi.good hR
    exact ⟨commit_inv _ hi ok, ok.mono⟩
  | timers sel =>
    have ok := timersTx_ok (H := H) sel hi.good
    exact ⟨commit_inv _ hi ok, ok.mono⟩
  | expire h f =>
    have ok := expireTx_ok (H := H) cfg h f hi.good hR
    exact ⟨commit_inv _ hi ok, ok.mono⟩
  | advance dt =>
    simp only [cstep]
    exact ⟨⟨RegGood.of_db (a := s.reg) rfl rfl hi.good,
      fun t ht k kind p x hm => (hi.settle t ht k kind p x hm).of_db rfl rfl,
      fun t ht k r ah hm => (hi.fail t ht k r ah hm).of_db rfl rfl⟩, RegMono.refl _⟩
  | unsub =>
    simp only [cstep]
    exact ⟨⟨RegGood.of_db (a := s.reg) rfl rfl hi.good,
      fun t ht k kind p x hm => (hi.settle t ht k kind p x hm).of_db rfl rfl,
      fun t ht k r ah hm => (hi.fail t ht k r ah hm).of_db rfl rfl⟩, RegMono.refl _⟩
  | run i =>
    simp only [cstep]
    cases hth : s.threads[i]? with
    | none => exact ⟨hi, RegMono.refl _⟩
    | some t =>
      simp only
      have hmem : t ∈ s.threads := List.mem_of_getElem? hth
      refine ⟨⟨RegGood.of_db (a := s.reg) rfl rfl hi.good, ?_, ?_⟩, RegMono.refl _⟩
      · intro th hth' k kind p x hm
        rcases List.mem_or_eq_of_mem_set hth' with h | h
        · exact (hi.settle th h k kind p x hm).of_db rfl rfl
        · subst h
          exact (hi.settle t hmem k kind p x (runThread_msgs hm)).of_db rfl rfl
      · intro th hth' k r ah hm
        rcases List.mem_or_eq_of_mem_set hth' with h | h
        · exact (hi.fail th h k r ah hm).of_db rfl rfl
        · subst h
          exact (hi.fail t hmem k r ah (runThread_msgs hm)).of_db rfl rfl

theorem crun_inv {R} {cfg : Cfg} (hR : cfg.rejectDelta = R) (acts : List CAct) (s : CSt)
    (hi : CInv H R s) :
    CInv H R (crun H P cfg s acts) ∧ RegMono s.reg (crun H P cfg s acts).reg := by
  induction acts generalizing s with
  | nil => exact ⟨hi, RegMono.refl _⟩
  | cons a as ih =>
    obtain ⟨h1, m1⟩ := cstep_inv (P := P) a hR hi
    obtain ⟨h2, m2⟩ := ih _ h1
    exact ⟨h2, m1.trans m2⟩

/-- what one step makes visible is justified by the database right after the step. -/
theorem cstep_out {R} {cfg : Cfg} {s : CSt} (a : CAct) (hR : cfg.rejectDelta = R)
    (hi : CInv H R s) :
    (∀ k kind p ht, (cstep H P cfg s a).2.ret = some (k, Res.settle kind p ht) →
      RecSettled H (cstep H P cfg s a).1.reg k p) ∧
    (∀ k kind p ht, (k, Res.settle kind p ht) ∈ (cstep H P cfg s a).2.del →
      RecSettled H (cstep H P cfg s a).1.reg k p) ∧
    (∀ k r ah, (k, Res.fail r ah) ∈ (cstep H P cfg s a).2.del →
      CanceledIn (cstep H P cfg s a).1.reg k) := by
  have noDel : ∀ (t : Tx) (key : Option Nat) (m : Nat × Res), m ∉ (commit s t key).2.del := by
    intro t key m h; simp [commit] at h
  have noRet : ∀ (t : Tx) (x : Nat × Res), (commit s t none).2.ret ≠ some x := by
    intro t x h; simp [commit] at h
  have retSome : ∀ (t : Tx) (key k : Nat) (r : Res),
      (commit s t (some key)).2.ret = some (k, r) → k = key ∧ t.reply = .res r := by
    intro t key k r h
    simp only [commit, Option.bind] at h
    cases hr : t.reply with
    | res r' => simp [hr, retOf] at h; exact ⟨h.1.symm, by rw [h.2]⟩
    | op o => simp [hr, retOf] at h
    | unit => simp [hr, retOf] at h
  cases a with
  | ev e =>
    refine ⟨?_, fun k kind p ht h => absurd h (noDel _ _ _), fun k r ah h => absurd h (noDel _ _ _)⟩
    intro k kind p ht h
    cases e with
    | notify ctx =>
      obtain ⟨hk, hrep⟩ := retSome _ _ _ _ h
      subst hk
      exact (txOf_reply_ok (P := P) (cfg := cfg) hi.good hR hrep).2
    | addInvoice x => exact absurd h (noRet _ _)
    | settle x => exact absurd h (noRet _ _)
    | cancel x => exact absurd h (noRet _ _)
    | tick x => exact absurd h (noRet _ _)
  | core ctx =>
    refine ⟨?_, fun k kind p ht h => absurd h (noDel _ _ _), fun k r ah h => absurd h (noDel _ _ _)⟩
    intro k kind p ht h
    obtain ⟨hk, hrep⟩ := retSome _ _ _ _ h
    subst hk
    exact (coreTx_reply_ok (P := P) (cfg := cfg) hi.good hR hrep).2
  | timers sel =>
    exact ⟨fun k kind p ht h => absurd h (noRet _ _),
      fun k kind p ht h => absurd h (noDel _ _ _), fun k r ah h => absurd h (noDel _ _ _)⟩
  | expire hh f =>
    exact ⟨fun k kind p ht h => absurd h (noRet _ _),
      fun k kind p ht h => absurd h (noDel _ _ _), fun k r ah h => absurd h (noDel _ _ _)⟩
  | advance dt => simp [cstep]
  | unsub => simp [cstep]
  | run i =>
    simp only [cstep]
    cases hth : s.threads[i]? with
    | none => simp
    | some t =>
      simp only
      have hmem : t ∈ s.threads := List.mem_of_getElem? hth
      refine ⟨(by intro k kind p ht h; cases h), ?_, ?_⟩
      · intro k kind p ht h
        exact (hi.settle t hmem k kind p ht (runThread_del h).1).of_db rfl rfl
      · intro k r ah h
        exact (hi.fail t hmem k r ah (runThread_del h).1).of_db rfl rfl

/-! ### statement vocabulary -/

/-- `Paid` of Props.lean without the clause "the stored invoice preimage is `p`": `k` is recorded
    settled on a settled plain invoice whose payment hash is `H p` and the payment conditions
    (`PaidFor`: address test, both CLTV margins, value paid alone or by a settled set with one
    common total ≥ value summing to at least it) hold. -/
def PaidH (H : Nat → Nat) (R : Int) (reg : Reg) (k p : Nat) : Prop :=
  ∃ inv ∈ reg.invs, inv.state = .settled ∧ H p = inv.hash ∧
    ∃ h ∈ inv.htlcs, h.key = k ∧ h.state = .settled ∧ PaidFor R inv h

theorem paid_of_recSettled {R} {reg : Reg} {k p : Nat} (hg : RegGood H R reg)
    (h : RecSettled H reg k p) : PaidH H R reg k p ∨ PaidAmp H R reg k p := by
  rcases h with ⟨inv, hm, s1, s2, h, hh, hk, hst⟩ | h
  · exact Or.inl ⟨inv, hm, s1, s2, h, hh, hk, hst, good_paid (hg.good inv hm) s1 hh hst⟩
  · exact Or.inr (paidAmp_of_settledIn hg h)

/-- circuit key `k` is recorded on one invoice only (circuit keys are assigned by the node's own
    links: one htlc, one payment hash). -/
def KeyOnce (reg : Reg) (k : Nat) : Prop :=
  (∀ i ∈ reg.invs, ∀ j ∈ reg.invs, (∃ g ∈ i.htlcs, g.key = k) → (∃ g ∈ j.htlcs, g.key = k) →
    i.hash = j.hash) ∧
  (∀ a ∈ reg.amps, ∀ b ∈ reg.amps, (∃ g ∈ a.htlcs, g.base.key = k) →
    (∃ g ∈ b.htlcs, g.base.key = k) → a.hash = b.hash) ∧
  (∀ i ∈ reg.invs, ∀ a ∈ reg.amps, (∃ g ∈ i.htlcs, g.key = k) → ¬ ∃ g ∈ a.htlcs, g.base.key = k)

/-- no circuit key is recorded settled and recorded canceled in one good database. -/
theorem not_settled_and_canceled {R} {reg : Reg} {k p : Nat} (hg : RegGood H R reg)
    (hu : KeyOnce reg k) (hs : RecSettled H reg k p) (hc : CanceledIn reg k) : False := by
  rcases hs with ⟨i, hi, _, _, g, hgm, hgk, hgs⟩ | ⟨a, ha, g, hgm, hgk, hgs, _⟩
  · rcases hc with ⟨j, hj, g', hg', hk', hc'⟩ | ⟨b, hb, g', hg', hk', _⟩
    · have e := hu.1 i hi j hj ⟨g, hgm, hgk⟩ ⟨g', hg', hk'⟩
      have : i = j := hash_inj hg.nodup hi hj e
      subst this
      have : g = g' := key_inj (hg.good i hi).static.nodup hgm hg' (hgk.trans hk'.symm)
      subst this
      rw [hgs] at hc'; cases hc'
    · exact hu.2.2 i hi b hb ⟨g, hgm, hgk⟩ ⟨g', hg', hk'⟩
  · rcases hc with ⟨j, hj, g', hg', hk', _⟩ | ⟨b, hb, g', hg', hk', hc'⟩
    · exact hu.2.2 j hj a ha ⟨g', hg', hk'⟩ ⟨g, hgm, hgk⟩
    · have e := hu.2.1 a ha b hb ⟨g, hgm, hgk⟩ ⟨g', hg', hk'⟩
      have : a = b := ahash_inj hg.anodup ha hb e
      subst this
      have : g = g' := akey_inj (hg.agood a ha).nodup hgm hg' (hgk.trans hk'.symm)
      subst this
      rw [hgs] at hc'; cases hc'

/-! ### the theorems -/

/-- **conc_invariant.** Every state reachable by ANY schedule satisfies `CInv`; in particular the
    database invariant `RegGood` of the atomic model (and with it `amt_paid_exact`,
    `settle_only_if_paid_amp`, `amp_set_paid`, … as state invariants) holds under every
    interleaving. -/
theorem conc_invariant (H : Nat → Nat) (P : List (Nat × Nat) → Nat → Nat → Nat) (cfg : Cfg)
    (acts : List CAct) : CInv H cfg.rejectDelta (crun H P cfg CSt.empty acts) :=
  (crun_inv rfl acts _ (cinv_empty H _)).1

/-- **conc_states_monotone.** Along any schedule invoices and htlcs persist with the same terms
    and only move forward (plain `Mono`, AMP `AMono`), whatever interleaves. -/
theorem conc_states_monotone (H : Nat → Nat) (P : List (Nat × Nat) → Nat → Nat → Nat) (cfg : Cfg)
    (acts more : List CAct) :
    let s := crun H P cfg CSt.empty acts
    RegMono s.reg (crun H P cfg s more).reg :=
  (crun_inv rfl more _ (conc_invariant H P cfg acts)).2

/-- **conc_settle_only_if_paid.** In any schedule, whenever a step makes a settle resolution with
    preimage `p` for circuit key `k` visible — returned by a NotifyExitHopHtlc transaction or
    delivered on the subscriber channel by a (possibly much later) `notifyHodlSubscribers` step —
    then right after that step AND after any further steps `more`, `k` is recorded settled and the
    payment conditions hold (`PaidH` for plain invoices, `PaidAmp` for AMP htlcs). -/
theorem conc_settle_only_if_paid (H : Nat → Nat) (P : List (Nat × Nat) → Nat → Nat → Nat)
    (cfg : Cfg) (acts : List CAct) (a : CAct) (more : List CAct) :
    let s := crun H P cfg CSt.empty acts
    let s' := (cstep H P cfg s a).1
    let out := (cstep H P cfg s a).2
    let fin := crun H P cfg s' more
    ∀ k kind p ht, (out.ret = some (k, Res.settle kind p ht) ∨ (k, Res.settle kind p ht) ∈ out.del) →
      PaidH H cfg.rejectDelta fin.reg k p ∨ PaidAmp H cfg.rejectDelta fin.reg k p := by
  intro s s' out fin k kind p ht h
  have hi : CInv H cfg.rejectDelta s := conc_invariant H P cfg acts
  have hi' := (cstep_inv (P := P) a rfl hi).1
  obtain ⟨hf, hm⟩ := crun_inv (P := P) rfl more s' hi'
  have o := cstep_out (P := P) a rfl hi
  have rs : RecSettled H s'.reg k p := by
    rcases h with h | h
    · exact o.1 k kind p ht h
    · exact o.2.1 k kind p ht h
  exact paid_of_recSettled hf.good (rs.mono hm)

/-- the preimage returned by a NotifyExitHopHtlc transaction hashes to the payment hash of the
    call, under any interleaving. -/
theorem conc_returned_preimage (H : Nat → Nat) (P : List (Nat × Nat) → Nat → Nat → Nat)
    (cfg : Cfg) (acts : List CAct) (ctx : Ctx) (kind : SettleKind) (p : Nat) (ht : Int) :
    let s := crun H P cfg CSt.empty acts
    ((cstep H P cfg s (.ev (.notify ctx))).2.reply = some (.res (.settle kind p ht)) → H p = ctx.hash) ∧
    ((cstep H P cfg s (.core ctx)).2.reply = some (.res (.settle kind p ht)) → H p = ctx.hash) := by
  intro s
  have hi : CInv H cfg.rejectDelta s := conc_invariant H P cfg acts
  refine ⟨?_, ?_⟩
  · intro h
    simp only [cstep, commit, Option.some.injEq] at h
    exact (txOf_reply_ok (P := P) (cfg := cfg) hi.good rfl h).1
  · intro h
    simp only [cstep, commit, Option.some.injEq] at h
    exact (coreTx_reply_ok (P := P) (cfg := cfg) hi.good rfl h).1

/-- **conc_fail_only_if_canceled.** In any schedule, a fail resolution delivered on the subscriber
    channel is for an htlc that is recorded canceled right after the delivery step and after any
    further steps. -/
theorem conc_fail_only_if_canceled (H : Nat → Nat) (P : List (Nat × Nat) → Nat → Nat → Nat)
    (cfg : Cfg) (acts : List CAct) (a : CAct) (more : List CAct) :
    let s := crun H P cfg CSt.empty acts
    let s' := (cstep H P cfg s a).1
    let out := (cstep H P cfg s a).2
    ∀ k r ah, (k, Res.fail r ah) ∈ out.del → CanceledIn (crun H P cfg s' more).reg k := by
  intro s s' out k r ah h
  have hi : CInv H cfg.rejectDelta s := conc_invariant H P cfg acts
  have hi' := (cstep_inv (P := P) a rfl hi).1
  obtain ⟨_, hm⟩ := crun_inv (P := P) rfl more s' hi'
  exact ((cstep_out (P := P) a rfl hi).2.2 k r ah h).mono hm

/-- **conc_never_both.** No schedule makes a settle resolution (returned or delivered) AND a
    delivered fail resolution visible for one circuit key, in either order, provided the key is
    recorded on one invoice only in the state after the later of the two steps: the hold-timer /
    expiry / cancel versus settle races at transaction granularity. -/
theorem conc_never_both (H : Nat → Nat) (P : List (Nat × Nat) → Nat → Nat → Nat)
    (cfg : Cfg) (acts : List CAct) (a : CAct) (more : List CAct) (b : CAct) :
    let s := crun H P cfg CSt.empty acts
    let s1 := (cstep H P cfg s a).1
    let o1 := (cstep H P cfg s a).2
    let s2 := crun H P cfg s1 more
    let s3 := (cstep H P cfg s2 b).1
    let o2 := (cstep H P cfg s2 b).2
    ∀ k, KeyOnce s3.reg k →
      (∀ kind p ht r ah,
        (o1.ret = some (k, Res.settle kind p ht) ∨ (k, Res.settle kind p ht) ∈ o1.del) →
        (k, Res.fail r ah) ∉ o2.del) ∧
      (∀ kind p ht r ah, (k, Res.fail r ah) ∈ o1.del →
        ¬ (o2.ret = some (k, Res.settle kind p ht) ∨ (k, Res.settle kind p ht) ∈ o2.del)) := by
  intro s s1 o1 s2 s3 o2 k hu
  have hi : CInv H cfg.rejectDelta s := conc_invariant H P cfg acts
  have hi1 := (cstep_inv (P := P) a rfl hi).1
  obtain ⟨hi2, m12⟩ := crun_inv (P := P) rfl more s1 hi1
  obtain ⟨hi3, m23⟩ := cstep_inv (P := P) b rfl hi2
  have oa := cstep_out (P := P) a rfl hi
  have ob := cstep_out (P := P) b rfl hi2
  refine ⟨?_, ?_⟩
  · intro kind p ht r ah h1 h2
    have rs : RecSettled H s1.reg k p := by
      rcases h1 with h | h
      · exact oa.1 k kind p ht h
      · exact oa.2.1 k kind p ht h
    exact not_settled_and_canceled hi3.good hu ((rs.mono m12).mono m23) (ob.2.2 k r ah h2)
  · intro kind p ht r ah h1 h2
    have rc : CanceledIn s1.reg k := oa.2.2 k r ah h1
    have rs : RecSettled H s3.reg k p := by
      rcases h2 with h | h
      · exact ob.1 k kind p ht h
      · exact ob.2.1 k kind p ht h
    exact not_settled_and_canceled hi3.good hu rs ((rc.mono m12).mono m23)

/-! ### non-vacuity: concrete schedules (fixtures of Props.lean: invoice 100 msat, shards 60 + 40) -/

/-- all that becomes visible along a schedule: (returned resolution, delivered resolutions) per step. -/
def visible (H : Nat → Nat) (P : List (Nat × Nat) → Nat → Nat → Nat) (cfg : Cfg) (acts : List CAct) :
    List (Option (Nat × Res) × List (Nat × Res)) :=
  (ctrace H P cfg CSt.empty acts).map (fun x => (x.2.ret, x.2.del))

/-- the hold timer of shard 1 fires BEFORE the completing shard's transaction: shard 1 is failed
    with `MppTimeout` on its subscription, shard 2 is only partially accepted, nothing settles. -/
example :
    visible exH exP exCfg
      [.ev (.addInvoice exInv), .run 0, .ev (.notify (exShard 1 60)), .run 1,
       .timers (oneTimer 1007 1), .ev (.notify (exShard 2 40)), .run 2, .run 3] =
    [(none, []), (none, []), (some (1, .accept .partialAccepted), []), (none, []),
     (none, []), (some (2, .accept .partialAccepted), []), (none, [(1, .fail .mppTimeout 100)]),
     (none, [])] := by
  decide

/-- the other order: the completing shard's transaction commits first and settles both shards; the
    timer transaction that commits afterwards is a no-op, and shard 1's settle resolution is
    delivered although its fan-out step runs after the timer. -/
example :
    visible exH exP exCfg
      [.ev (.addInvoice exInv), .ev (.notify (exShard 1 60)), .run 1,
       .ev (.notify (exShard 2 40)), .timers (oneTimer 1007 1), .run 3, .run 2] =
    [(none, []), (some (1, .accept .partialAccepted), []), (none, []),
     (some (2, .settle .settled 7 100), []), (none, []), (none, []),
     (none, [(1, .settle .settled 7 100)])] := by
  decide

/-- the expiry watcher: a non-forced expiry leaves an accepted hold invoice alone, the forced
    (height-based / keysend) one cancels it and fails the held htlc; a later SettleHodlInvoice
    is refused and delivers nothing. -/
example :
    visible exH exP exCfg
      [.ev (.addInvoice { exInv with hodl := true, preimage := none }),
       .ev (.notify (exShard 1 100)), .run 1, .expire 1007 false, .run 2,
       .expire 1007 true, .run 3, .ev (.settle 7), .run 4] =
    [(none, []), (some (1, .accept .accepted), []), (none, []), (none, []), (none, []),
     (none, []), (none, [(1, .fail .canceled 100)]), (none, []), (none, [])] := by
  decide

/-- keysend from two links for one hash with the just-in-time AddInvoice transactions committed
    first (both `processKeySend` calls ran before either locked part): the second AddInvoice is
    refused, both locked parts find the one invoice; the first settles it, the second is a
    duplicate payment to a settled invoice. -/
example :
    let cfg := { exCfg with acceptKeysend := true }
    let ks (key : Nat) : Ctx :=
      { hash := 1007, key := key, amt := 100, expiry := 120, height := 100, rejectDelta := 0,
        mpp := none, pathID := none, total := 0, amp := false, setID := 0, share := 0, index := 0,
        ks := some (some 7), now := 0 }
    let jit : InvSpec :=
      { hash := 1007, value := 100, payAddr := 0, preimage := some 7, finalCltv := 4, tlv := true,
        payAddrOpt := false, payAddrReq := false, mppOpt := false, ampReq := false, blinded := false,
        hodl := false }
    (visible exH exP cfg
      [.ev (.addInvoice jit), .ev (.addInvoice jit), .core (ks 1), .core (ks 2)]).map (·.1) =
    [none, none, some (1, .settle .settled 7 100), some (2, .settle .duplicateToSettled 7 100)] := by
  decide


/-! ### each subscription is served at most once -/

/-- number of resolutions for circuit key `k` delivered along a trace. -/
def delCount (k : Nat) (tr : List (CSt × COut)) : Nat :=
  (tr.map (fun x => (x.2.del.filter (fun m => m.1 == k)).length)).sum

/-- `hodlSubscribe` steps for `k` in a schedule started in `s`: `run i` steps in which thread `i`
    has delivered all its resolutions and still has to subscribe `k`. -/
def subSteps (H : Nat → Nat) (P : List (Nat × Nat) → Nat → Nat → Nat) (cfg : Cfg) (k : Nat) :
    CSt → List CAct → Nat
  | _, [] => 0
  | s, a :: as =>
    (match a with
     | .run i =>
       match s.threads[i]? with
       | some t => if t.msgs.isEmpty && t.sub == some k then 1 else 0
       | none => 0
     | _ => 0) + subSteps H P cfg k (cstep H P cfg s a).1 as

theorem count_filter_ne {l : List Nat} {k x : Nat} (h : k ≠ x) :
    (l.filter (fun y => !(y == x))).count k = l.count k := by
  induction l with
  | nil => rfl
  | cons y t ih =>
    by_cases c : y = x
    · subst c
      have : k ≠ y := h
      simp [List.filter_cons, List.count_cons, ih, this, Ne.symm this]
    · simp [List.filter_cons, c, List.count_cons, ih]

theorem count_filter_self {l : List Nat} {k : Nat} :
    (l.filter (fun y => !(y == k))).count k = 0 := by
  apply List.count_eq_zero.mpr
  intro h
  have := (List.mem_filter.mp h).2
  simp at this

theorem commit_subs {s : CSt} {t : Tx} {key : Option Nat} (h : t.reg.subs = s.reg.subs) :
    (commit s t key).1.reg.subs = s.reg.subs ∧ (commit s t key).2.del = [] := by
  simp [commit, h]

theorem coreTx_subs (cfg : Cfg) (reg : Reg) (ctx : Ctx) :
    (coreTx H P cfg reg ctx).reg.subs = reg.subs := by
  rw [coreTx_eq]
  split
  · rfl
  · exact txOf_subs _ _ _

theorem expireTx_subs (reg : Reg) (h : Nat) (f : Bool) : (expireTx reg h f).reg.subs = reg.subs := by
  have hc : (cancelTx reg h).reg.subs = reg.subs :=
    txOf_subs (H := fun x => x) (P := fun _ _ _ => 0) ⟨0, false, false, false, 0, false⟩ reg (.cancel h)
  unfold expireTx
  cases findHash reg.invs h with
  | none => exact hc
  | some inv =>
    simp only
    split
    · rfl
    · exact hc

/-- one step: deliveries for `k` plus remaining subscriptions of `k` do not exceed the
    subscriptions before plus the `hodlSubscribe` step made. -/
theorem cstep_count (cfg : Cfg) (k : Nat) (s : CSt) (a : CAct) :
    ((cstep H P cfg s a).2.del.filter (fun m => m.1 == k)).length +
        (cstep H P cfg s a).1.reg.subs.count k ≤
      s.reg.subs.count k + subSteps H P cfg k s [a] := by
  have hc : ∀ (t : Tx) (key : Option Nat), t.reg.subs = s.reg.subs →
      ((commit s t key).2.del.filter (fun m => m.1 == k)).length +
        (commit s t key).1.reg.subs.count k ≤ s.reg.subs.count k + 0 := by
    intro t key h
    obtain ⟨h1, h2⟩ := commit_subs (s := s) (key := key) h
    rw [h1, h2]; simp
  cases a with
  | ev e => simpa [cstep, subSteps] using hc _ _ (txOf_subs cfg s.reg e)
  | core ctx => simpa [cstep, subSteps] using hc _ _ (coreTx_subs cfg s.reg ctx)
  | timers sel => simpa [cstep, subSteps] using hc (timersTx sel s.reg) none rfl
  | expire h f => simpa [cstep, subSteps] using hc _ none (expireTx_subs s.reg h f)
  | advance dt => simp [cstep, subSteps]
  | unsub => simp [cstep, subSteps]
  | run i =>
    simp only [cstep, subSteps]
    cases hth : s.threads[i]? with
    | none => simp
    | some t =>
      simp only
      unfold runThread
      cases hm : t.msgs with
      | cons m rest =>
        simp only [List.isEmpty_cons, Bool.false_and, if_false, Nat.add_zero]
        by_cases c : m.1 = k
        · subst c
          rw [count_filter_self]
          by_cases d : s.reg.subs.contains m.1 = true
          · rw [if_pos d]
            have : 0 < s.reg.subs.count m.1 := List.count_pos_iff.mpr (by simpa using d)
            simp only [List.filter_cons, beq_self_eq_true, if_true, List.filter_nil, List.length_cons,
              List.length_nil]
            omega
          · rw [if_neg d]; simp
        · rw [count_filter_ne (Ne.symm c)]
          by_cases d : s.reg.subs.contains m.1 = true
          · rw [if_pos d]; simp [c]
          · rw [if_neg d]; simp
      | nil =>
        simp only [List.isEmpty_nil, Bool.true_and]
        cases hs : t.sub with
        | none => simp
        | some x =>
          simp only [addSub]
          by_cases d : s.reg.subs.contains x = true
          · have d' : x ∈ s.reg.subs := by simpa using d
            simp [d']
          · simp only [d]
            by_cases e : x = k
            · subst e; simp [List.count_append]
            · have : ¬ (some x == some k) = true := by simpa using e
              simp [List.count_append, e, this]

/-- **conc_delivered_at_most_once.** Along any schedule from the empty registry, the number of
    resolutions delivered for circuit key `k` is at most the number of `hodlSubscribe` steps made
    for `k` (NotifyExitHopHtlc subscribes once per accept answer): every subscription is served at
    most once, no resolution is delivered twice to one subscription — whatever interleaves. -/
theorem conc_delivered_at_most_once (H : Nat → Nat) (P : List (Nat × Nat) → Nat → Nat → Nat)
    (cfg : Cfg) (k : Nat) (acts : List CAct) :
    delCount k (ctrace H P cfg CSt.empty acts) ≤ subSteps H P cfg k CSt.empty acts := by
  have gen : ∀ (acts : List CAct) (s : CSt),
      delCount k (ctrace H P cfg s acts) + (crun H P cfg s acts).reg.subs.count k ≤
        s.reg.subs.count k + subSteps H P cfg k s acts := by
    intro acts
    induction acts with
    | nil => intro s; simp [delCount, ctrace, crun, subSteps]
    | cons a as ih =>
      intro s
      have h1 := cstep_count (H := H) (P := P) cfg k s a
      have h2 := ih (cstep H P cfg s a).1
      simp only [subSteps, Nat.add_zero] at h1
      simp only [delCount, ctrace, crun, subSteps, List.map_cons, List.sum_cons] at h2 ⊢
      omega
  have := gen acts CSt.empty
  simp only [CSt.empty, Reg.empty, List.count_nil] at this
  simp only [CSt.empty, Reg.empty]
  omega


/-- non-vacuity of `conc_delivered_at_most_once`: in the first schedule above key 1 is subscribed once
    and served once. -/
example :
    let acts : List CAct := [.ev (.addInvoice exInv), .run 0, .ev (.notify (exShard 1 60)), .run 1,
       .timers (oneTimer 1007 1), .ev (.notify (exShard 2 40)), .run 2, .run 3]
    delCount 1 (ctrace exH exP exCfg CSt.empty acts) = 1 ∧ subSteps exH exP exCfg 1 CSt.empty acts = 1 := by
  decide

end LndModel.C15
