/-
C15 — what a fail resolution on a hodl subscription implies: the htlc is recorded canceled in the
registry after the event (plain or AMP invoice).  Dual of `notify_settles` / `settleHodl_settles`.
-/
import LndModel.C15.AmpSetLemmas

set_option linter.unusedSimpArgs false

namespace LndModel.C15

variable {H : Nat → Nat} {P : List (Nat × Nat) → Nat → Nat → Nat} {drop : Bool}

/-- circuit key `k` is recorded canceled on some invoice (plain or AMP) of the registry. -/
def CanceledIn (reg : Reg) (k : Nat) : Prop :=
  (∃ inv ∈ reg.invs, ∃ h ∈ inv.htlcs, h.key = k ∧ h.state = .canceled) ∨
  (∃ a ∈ reg.amps, ∃ h ∈ a.htlcs, h.base.key = k ∧ h.base.state = .canceled)

theorem notifyMsgs_fail {inv : Invoice} {r0 : Res} {k : Nat} {r : FailReason} {ah : Int}
    (hm : (k, Res.fail r ah) ∈ notifyMsgs inv r0) :
    ∃ h ∈ inv.htlcs, h.key = k ∧ h.state = .canceled := by
  cases r0 with
  | fail fr a0 =>
    simp only [notifyMsgs] at hm
    by_cases c : fr.isSetFailure = true
    · rw [if_pos c] at hm
      obtain ⟨h, hh, he⟩ := List.mem_map.mp hm
      obtain ⟨hmem, hs⟩ := List.mem_filter.mp hh
      simp at he
      exact ⟨h, hmem, he.1, by simpa using hs⟩
    · rw [if_neg c] at hm; cases hm
  | settle kd p ht =>
    simp only [notifyMsgs] at hm
    obtain ⟨h, _, he⟩ := List.mem_map.mp hm
    simp at he
  | accept kd => simp [notifyMsgs] at hm
  | err => simp [notifyMsgs] at hm

theorem cancelAll_canceled {l : List Htlc} {h : Htlc} (hm : h ∈ cancelAll l) : h.state = .canceled := by
  unfold cancelAll at hm
  obtain ⟨g, _, rfl⟩ := List.mem_map.mp hm
  by_cases c : g.state = .canceled
  · simp [c]
  · simp [c]

theorem icancel_msgs_canceled {inv : Invoice} {k : Nat} {r : Res} (hm : (k, r) ∈ (icancel inv).2.2) :
    ∃ h ∈ (icancel inv).1.htlcs, h.key = k ∧ h.state = .canceled := by
  unfold icancel at hm ⊢
  cases hs : inv.state with
  | settled => simp [hs] at hm
  | canceled => simp [hs] at hm
  | «open» =>
    simp only [hs] at hm ⊢
    by_cases c : hasSettled inv.htlcs = true
    · rw [if_pos c] at hm; cases hm
    · rw [if_neg c] at hm ⊢
      obtain ⟨h, hh, he⟩ := List.mem_map.mp hm
      simp at he
      exact ⟨h, hh, he.1, cancelAll_canceled hh⟩
  | accepted =>
    simp only [hs] at hm ⊢
    by_cases c : hasSettled inv.htlcs = true
    · rw [if_pos c] at hm; cases hm
    · rw [if_neg c] at hm ⊢
      obtain ⟨h, hh, he⟩ := List.mem_map.mp hm
      simp at he
      exact ⟨h, hh, he.1, cancelAll_canceled hh⟩

theorem itimeout_msgs_canceled {hold now : Nat} {inv : Invoice} {k : Nat} {r : Res}
    (hm : (k, r) ∈ (itimeout hold now inv).2) :
    ∃ h ∈ (itimeout hold now inv).1.htlcs, h.key = k ∧ h.state = .canceled := by
  unfold itimeout at hm ⊢
  by_cases c : inv.state ≠ .open
  · rw [if_pos c] at hm; cases hm
  · rw [if_neg c] at hm ⊢
    obtain ⟨h, hh, he⟩ := List.mem_map.mp hm
    obtain ⟨hmem, hd⟩ := List.mem_filter.mp hh
    simp at he
    refine ⟨{ h with state := .canceled }, ?_, he.1, rfl⟩
    simp only
    exact List.mem_map.mpr ⟨h, hmem, by simp [hd]⟩

theorem isettle_msgs_settle {p : Nat} {inv : Invoice} {k : Nat} {r : Res}
    (hm : (k, r) ∈ (isettle H p inv).2.2) : ∃ ht, r = .settle .settled p ht :=
  (isettle_msgs hm).1

theorem afailMsgs_mem {view : List AHtlc} {fr : FailReason} {k : Nat} {r : Res}
    (hm : (k, r) ∈ afailMsgs view fr) :
    ∃ h ∈ view, h.base.key = k ∧ h.base.state = .canceled := by
  unfold afailMsgs at hm
  obtain ⟨h, hh, he⟩ := List.mem_map.mp hm
  obtain ⟨hmem, hs⟩ := List.mem_filter.mp hh
  simp at he
  exact ⟨h, hmem, he.1, by simpa using hs⟩

theorem asettleMsgs_mem {view : List AHtlc} {kd : SettleKind} {p : Nat} {k : Nat} {r : Res}
    (hm : (k, r) ∈ asettleMsgs view kd p) : ∃ q ht, r = .settle kd q ht := by
  unfold asettleMsgs at hm
  obtain ⟨h, _, he⟩ := List.mem_map.mp hm
  simp at he
  exact ⟨_, _, he.2.symm⟩

theorem anotify_msgs_fail {ctx : Ctx} {a : AmpInv} {k : Nat} {r : FailReason} {ah : Int}
    (hm : (k, Res.fail r ah) ∈ (anotify H P drop ctx a).2.2) :
    ∃ h ∈ (anotify H P drop ctx a).1.htlcs, h.base.key = k ∧ h.base.state = .canceled := by
  have sh := anotify_shape (H := H) (P := P) (drop := drop) ctx a
  generalize (anotify H P drop ctx a).1 = a' at sh ⊢
  generalize (anotify H P drop ctx a).2.1 = r0 at sh
  generalize (anotify H P drop ctx a).2.2 = msgs at sh hm
  cases sh with
  | same _ _ _ _ _ hmsgs =>
    rcases hmsgs with rfl | ⟨fr, rfl⟩
    · cases hm
    · obtain ⟨h, hh, e1, e2⟩ := afailMsgs_mem hm
      exact ⟨h, aview_sub hh, e1, e2⟩
  | replaySettled h p _ _ _ _ _ _ =>
    by_cases c : ctx.amp = true
    · rw [if_pos c] at hm
      obtain ⟨_, _, e⟩ := asettleMsgs_mem hm; cases e
    · rw [if_neg c] at hm; cases hm
  | partialAdd => cases hm
  | reconFail total addr f hns =>
    obtain ⟨h, hh, e1, e2⟩ := afailMsgs_mem hm
    exact ⟨h, aview_sub hh, e1, e2⟩
  | settled total addr f hge h0 hall =>
    obtain ⟨_, _, e⟩ := asettleMsgs_mem hm; cases e

theorem cancelWhere_all_canceled {a : AmpInv}
    (hns : ¬ (a.htlcs.any (fun h => h.base.state == .settled) = true)) :
    ∀ h ∈ (cancelWhere a (fun _ => true)).htlcs, h.base.state = .canceled := by
  intro h hh
  have : (cancelWhere a (fun _ => true)).htlcs = a.htlcs.map
      (fun h => if h.base.state == .accepted && (fun _ => true) h then h.withState .canceled else h) := rfl
  rw [this] at hh
  obtain ⟨g, hg, rfl⟩ := List.mem_map.mp hh
  cases hs : g.base.state with
  | accepted => simp [hs, AHtlc.withState]
  | canceled => simp [hs]
  | settled =>
    exfalso; apply hns
    rw [List.any_eq_true]
    exact ⟨g, hg, by simp [hs]⟩

theorem acancel_msgs_canceled {a : AmpInv} {k : Nat} {r : Res} (hm : (k, r) ∈ (acancel a).2.2) :
    ∃ h ∈ (acancel a).1.htlcs, h.base.key = k ∧ h.base.state = .canceled := by
  unfold acancel at hm ⊢
  cases hs : a.state with
  | canceled => simp [hs] at hm
  | accepted => simp [hs] at hm
  | settled => simp [hs] at hm
  | «open» =>
    simp only [hs] at hm ⊢
    by_cases c : a.htlcs.any (fun h => h.base.state == .settled) = true
    · rw [if_pos c] at hm; cases hm
    · rw [if_neg c] at hm ⊢
      obtain ⟨h, hh, he⟩ := List.mem_map.mp hm
      simp at he
      exact ⟨h, hh, he.1, cancelWhere_all_canceled c h hh⟩

theorem atimeout_msgs_canceled {hold now : Nat} {a : AmpInv} {k : Nat} {r : Res}
    (hm : (k, r) ∈ (atimeout hold now a).2) :
    ∃ h ∈ (atimeout hold now a).1.htlcs, h.base.key = k ∧ h.base.state = .canceled := by
  unfold atimeout at hm ⊢
  by_cases c : a.state ≠ .open
  · rw [if_pos c] at hm; cases hm
  · rw [if_neg c] at hm ⊢
    obtain ⟨h, hh, he⟩ := List.mem_map.mp hm
    obtain ⟨hmem, hd⟩ := List.mem_filter.mp hh
    simp at he
    have hacc : h.base.state = .accepted := by
      unfold due at hd
      simp only [Bool.and_eq_true, beq_iff_eq] at hd; exact hd.1
    refine ⟨h.withState .canceled, ?_, he.1, rfl⟩
    have : (cancelWhere a (fun h => due hold now h.base)).htlcs = a.htlcs.map
        (fun h => if h.base.state == .accepted && (fun h => due hold now h.base) h
          then h.withState .canceled else h) := rfl
    simp only
    rw [this]
    exact List.mem_map.mpr ⟨h, hmem, by simp [hacc, hd]⟩

/-- **every fail resolution delivered on a hodl subscription is for an htlc that is recorded
    canceled** in the registry after the event (any event, any registry). -/
theorem step_fail_canceled {cfg : Cfg} {reg : Reg} {e : Event} {k : Nat} {r : FailReason} {ah : Int}
    (hm : (k, Res.fail r ah) ∈ (step H P cfg reg e).2.msgs) :
    CanceledIn (step H P cfg reg e).1 k := by
  cases e with
  | addInvoice s =>
    simp only [step] at hm
    cases ha : addInvoice reg s <;> simp [ha] at hm
  | notify ctx0 =>
    simp only [step] at hm ⊢
    generalize ({ ctx0 with now := reg.now, rejectDelta := cfg.rejectDelta } : Ctx) = ctx at hm ⊢
    unfold notify at hm ⊢
    cases hpre : preprocess H cfg reg ctx with
    | error e => simp [hpre] at hm
    | ok reg1 =>
      simp only [hpre] at hm ⊢
      cases hl : lookup cfg reg1.keys ctx.hash (refAddr ctx) (ctx.amp && ctx.pathID.isNone) with
      | none => simp [hl] at hm
      | some h =>
        simp only [hl] at hm ⊢
        cases hf : findHash reg1.invs h with
        | some inv =>
          simp only [hf] at hm ⊢
          obtain ⟨g, hg, e1, e2⟩ := notifyMsgs_fail (deliver_sub hm)
          left
          exact ⟨_, setInv_self (findHash_some hf).1 (inotify_terms (H := H) (ctx := ctx)).1, g, hg, e1, e2⟩
        | none =>
          simp only [hf] at hm ⊢
          cases hfa : findAmp reg1.amps h with
          | none => simp [hfa] at hm
          | some a =>
            simp only [hfa] at hm ⊢
            split at hm
            · cases hm
            · rename_i hc
              rw [if_neg hc]
              obtain ⟨g, hg, e1, e2⟩ := anotify_msgs_fail (deliver_sub hm)
              right
              exact ⟨_, setAmp_self (findAmp_some hfa).1 (anotify_hash (H := H) (P := P)).symm,
                g, hg, e1, e2⟩
  | settle p =>
    simp only [step] at hm
    unfold settleHodl at hm
    cases hf : findHash reg.invs (H p) with
    | some inv =>
      simp only [hf] at hm
      obtain ⟨_, e⟩ := isettle_msgs_settle (deliver_sub hm); cases e
    | none =>
      simp only [hf] at hm
      cases hfa : findAmp reg.amps (H p) <;> simp [hfa] at hm
  | cancel h =>
    simp only [step] at hm ⊢
    unfold cancel at hm ⊢
    cases hf : findHash reg.invs h with
    | some inv =>
      simp only [hf] at hm ⊢
      obtain ⟨g, hg, e1, e2⟩ := icancel_msgs_canceled (deliver_sub hm)
      left
      exact ⟨_, setInv_self (findHash_some hf).1 icancel_terms.1, g, hg, e1, e2⟩
    | none =>
      simp only [hf] at hm ⊢
      cases hfa : findAmp reg.amps h with
      | none => simp [hfa] at hm
      | some a =>
        simp only [hfa] at hm ⊢
        obtain ⟨g, hg, e1, e2⟩ := acancel_msgs_canceled (deliver_sub hm)
        right
        exact ⟨_, setAmp_self (findAmp_some hfa).1 acancel_mono.1, g, hg, e1, e2⟩
  | tick dt =>
    simp only [step] at hm ⊢
    unfold tick at hm ⊢
    simp only at hm ⊢
    have hin := deliver_sub hm
    rcases List.mem_append.mp hin with hin | hin
    · rw [List.mem_flatten] at hin
      obtain ⟨l, hl, hml⟩ := hin
      obtain ⟨x, hx, rfl⟩ := List.mem_map.mp hl
      obtain ⟨i, hi, rfl⟩ := List.mem_map.mp hx
      obtain ⟨g, hg, e1, e2⟩ := itimeout_msgs_canceled hml
      left
      refine ⟨(itimeout cfg.hold (reg.now + dt) i).1, ?_, g, hg, e1, e2⟩
      exact List.mem_map.mpr ⟨itimeout cfg.hold (reg.now + dt) i, List.mem_map.mpr ⟨i, hi, rfl⟩, rfl⟩
    · rw [List.mem_flatten] at hin
      obtain ⟨l, hl, hml⟩ := hin
      obtain ⟨x, hx, rfl⟩ := List.mem_map.mp hl
      obtain ⟨i, hi, rfl⟩ := List.mem_map.mp hx
      obtain ⟨g, hg, e1, e2⟩ := atimeout_msgs_canceled hml
      right
      refine ⟨(atimeout cfg.hold (reg.now + dt) i).1, ?_, g, hg, e1, e2⟩
      exact List.mem_map.mpr ⟨atimeout cfg.hold (reg.now + dt) i, List.mem_map.mpr ⟨i, hi, rfl⟩, rfl⟩

end LndModel.C15
