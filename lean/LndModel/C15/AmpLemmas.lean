/-
C15 — AMP invoices: shape of `anotify`, the invariant `AGood` and its preservation, monotone
states.  (Invoice level; the registry level is in RegLemmas.lean.)
-/
import LndModel.C15.Lemmas

set_option linter.unusedSimpArgs false

namespace LndModel.C15

variable {H : Nat → Nat} {P : List (Nat × Nat) → Nat → Nat → Nat} {drop : Bool}

/-- the accepted htlcs of the set of `ctx` (what `inv.HTLCSet(setID, HtlcStateAccepted)` returns). -/
def aacc (ctx : Ctx) (a : AmpInv) : List AHtlc :=
  (aview ctx a).filter (fun h => h.base.state == .accepted)

/-- `getUpdatedHtlcState(.., ContractSettled, setID)` + `AddAmpHtlcPreimage` for one htlc. -/
def settleOne (P : List (Nat × Nat) → Nat → Nat → Nat) (ctx : Ctx) (descs : List (Nat × Nat))
    (g : AHtlc) : AHtlc :=
  if g.setID == ctx.setID && g.base.state == .accepted then
    { g.withState .settled with pre := some (P descs g.share g.index) }
  else g

/-- facts established by `updateMpp` before an AMP htlc is recorded. -/
structure AddFacts (ctx : Ctx) (a : AmpInv) (total addr : Nat) : Prop where
  amp : ctx.amp = true
  eff : effMpp ctx = some (total, addr)
  isOpen : a.state = .open
  addr : addr = a.payAddr
  pos : 0 < total
  ge : a.value ≤ total
  same : ∀ g ∈ aacc ctx a, g.base.mppTotal = total
  m1 : expiryTooSoon ctx.expiry ctx.height ctx.rejectDelta = false
  m2 : expiryTooSoon ctx.expiry ctx.height a.finalCltv = false
  fresh : ∀ g ∈ a.htlcs, g.base.key ≠ ctx.key

/-- the possible outcomes of `anotify`. -/
inductive AShape (H : Nat → Nat) (P : List (Nat × Nat) → Nat → Nat → Nat) (drop : Bool) (ctx : Ctx)
    (a : AmpInv) :
    AmpInv → Res → List (Nat × Res) → Prop
  | same (r : Res) (msgs : List (Nat × Res)) (hr : ∀ k p ht, r ≠ .settle k p ht)
      (hm : ∀ k kind p ht, (k, Res.settle kind p ht) ∉ msgs) (hadd : r.addsHtlc = false)
      (hmsgs : msgs = [] ∨ ∃ fr, msgs = afailMsgs (aview ctx a) fr) :
      AShape H P drop ctx a a r msgs
  | replaySettled (h : AHtlc) (p : Nat) (hm : h ∈ aview ctx a) (hk : h.base.key = ctx.key)
      (hs : h.base.state = .settled) (hp : h.pre = some p) (hh : h.hash = ctx.hash)
      (hH : H p = h.hash) :
      AShape H P drop ctx a a (.settle .replayToSettled p ctx.height)
        (if ctx.amp then asettleMsgs (aview ctx a) .replayToSettled p else [])
  | partialAdd (total addr : Nat) (f : AddFacts ctx a total addr)
      (hns : ∀ g ∈ aview ctx a, g.base.state ≠ .settled)
      (hlt : sumAmt ((aacc ctx a).map (·.base)) + ctx.amt < total) :
      AShape H P drop ctx a
        { a with htlcs := akeep drop ctx a ++ [mkAHtlc ctx total (decide (addr = a.payAddr))],
                 sets := setAccept a.sets ctx.setID ctx.amt, amtPaid := a.amtPaid + ctx.amt }
        (.accept .partialAccepted) []
  | reconFail (total addr : Nat) (f : AddFacts ctx a total addr)
      (hns : ∀ g ∈ aview ctx a, g.base.state ≠ .settled) :
      AShape H P drop ctx a
        { cancelWhere a (fun g => g.setID == ctx.setID) with state := .canceled }
        (.fail .ampReconstruction ctx.height)
        (afailMsgs (aview ctx { cancelWhere a (fun g => g.setID == ctx.setID) with state := .canceled })
          .ampReconstruction)
  | settled (total addr : Nat) (f : AddFacts ctx a total addr)
      (hge : total ≤ sumAmt ((aacc ctx a).map (·.base)) + ctx.amt)
      (h0 : H (P (adescs ctx (aacc ctx a)) ctx.share ctx.index) = ctx.hash)
      (hall : ∀ g ∈ aacc ctx a, H (P (adescs ctx (aacc ctx a)) g.share g.index) = g.hash) :
      AShape H P drop ctx a
        { a with htlcs := (akeep drop ctx a ++ [mkAHtlc ctx total (decide (addr = a.payAddr))]).map
                   (settleOne P ctx (adescs ctx (aacc ctx a))),
                 sets := setSettle (setAccept a.sets ctx.setID ctx.amt) ctx.setID,
                 amtPaid := a.amtPaid + ctx.amt }
        (.settle .settled (P (adescs ctx (aacc ctx a)) ctx.share ctx.index) ctx.height)
        (asettleMsgs (aview ctx
          { a with htlcs := (akeep drop ctx a ++ [mkAHtlc ctx total (decide (addr = a.payAddr))]).map
                     (settleOne P ctx (adescs ctx (aacc ctx a))),
                   sets := setSettle (setAccept a.sets ctx.setID ctx.amt) ctx.setID,
                   amtPaid := a.amtPaid + ctx.amt }) .settled
          (P (adescs ctx (aacc ctx a)) ctx.share ctx.index))

theorem afailMsgs_no_settle (view : List AHtlc) (r : FailReason) :
    ∀ k kind p ht, (k, Res.settle kind p ht) ∉ afailMsgs view r := by
  intro k kind p ht hm
  unfold afailMsgs at hm
  obtain ⟨h, _, he⟩ := List.mem_map.mp hm
  simp at he

theorem areplay_cases (ctx : Ctx) (view : List AHtlc) {r : Res} (hr : areplay H ctx view = some r) :
    (∀ k p ht, r ≠ .settle k p ht) ∨
    ∃ h p, h ∈ view ∧ h.base.key = ctx.key ∧ h.base.state = .settled ∧ h.pre = some p ∧
      h.hash = ctx.hash ∧ H p = h.hash ∧ r = .settle .replayToSettled p ctx.height := by
  unfold areplay at hr
  cases hf : view.find? (fun h => h.base.key == ctx.key) with
  | none => simp [hf] at hr
  | some h =>
    simp only [hf] at hr
    have hm := List.mem_of_find?_eq_some hf
    have hk : h.base.key = ctx.key := by simpa using List.find?_some hf
    cases hs : h.base.state with
    | canceled => simp [hs] at hr; subst hr; left; intro k p ht h; cases h
    | accepted => simp [hs] at hr; subst hr; left; intro k p ht h; cases h
    | settled =>
      simp only [hs] at hr
      cases hp : h.pre with
      | none => simp [hp] at hr; subst hr; left; intro k p ht h; cases h
      | some p =>
        simp only [hp] at hr
        by_cases c : h.hash ≠ ctx.hash ∨ H p ≠ h.hash
        · rw [if_pos c] at hr; cases hr; left; intro k p ht h; cases h
        · rw [if_neg c] at hr; cases hr
          right
          have c' : h.hash = ctx.hash ∧ H p = h.hash := by
            constructor
            · exact Classical.byContradiction (fun x => c (Or.inl x))
            · exact Classical.byContradiction (fun x => c (Or.inr x))
          exact ⟨h, p, hm, hk, hs, hp, c'.1, c'.2, rfl⟩

theorem areplay_not_adds (ctx : Ctx) (view : List AHtlc) {r : Res} (hr : areplay H ctx view = some r) :
    r.addsHtlc = false := by
  unfold areplay at hr
  cases hf : view.find? (fun h => h.base.key == ctx.key) with
  | none => simp [hf] at hr
  | some h =>
    simp only [hf] at hr
    cases hs : h.base.state with
    | canceled => simp [hs] at hr; subst hr; rfl
    | accepted => simp [hs] at hr; subst hr; rfl
    | settled =>
      simp only [hs] at hr
      cases hp : h.pre with
      | none => simp [hp] at hr; subst hr; rfl
      | some p =>
        simp only [hp] at hr
        by_cases c : h.hash ≠ ctx.hash ∨ H p ≠ h.hash
        · rw [if_pos c] at hr; cases hr; rfl
        · rw [if_neg c] at hr; cases hr; rfl

theorem anotify_shape (ctx : Ctx) (a : AmpInv) :
    AShape H P drop ctx a (anotify H P drop ctx a).1 (anotify H P drop ctx a).2.1 (anotify H P drop ctx a).2.2 := by
  have nofail : ∀ (fr : FailReason) (ht : Int) (msgs : List (Nat × Res)),
      (∀ k kind p h, (k, Res.settle kind p h) ∉ msgs) →
      (msgs = [] ∨ ∃ fr', msgs = afailMsgs (aview ctx a) fr') →
      AShape H P drop ctx a a (.fail fr ht) msgs :=
    fun fr ht msgs hm hs => AShape.same _ _ (by intro k p h e; cases e) hm rfl hs
  have nom : ∀ k kind p h, (k, Res.settle kind p h) ∉ ([] : List (Nat × Res)) := by
    intro k kind p h hm; cases hm
  unfold anotify
  simp only
  cases hr : areplay H ctx (aview ctx a) with
  | some r =>
    simp only
    have hna := areplay_not_adds ctx _ hr
    rcases areplay_cases ctx _ hr with hns | ⟨h, p, hm, hk, hs, hp, hh, hH, rfl⟩
    · cases r with
      | settle k p ht => exact absurd rfl (hns k p ht)
      | fail fr ah => exact AShape.same _ _ hns nom hna (Or.inl rfl)
      | accept k => exact AShape.same _ _ hns nom hna (Or.inl rfl)
      | err => exact AShape.same _ _ hns nom hna (Or.inl rfl)
    · exact AShape.replaySettled h p hm hk hs hp hh hH
  | none =>
    simp only
    by_cases c0 : (ctx.amp && ctx.mpp.isNone) = true
    · rw [if_pos c0]; exact nofail _ _ _ nom (Or.inl rfl)
    rw [if_neg c0]
    cases he : effMpp ctx with
    | none => exact nofail _ _ _ nom (Or.inl rfl)
    | some ta =>
      obtain ⟨total, addr⟩ := ta
      simp only
      by_cases c1 : (!ctx.amp) = true
      · rw [if_pos c1]; exact nofail _ _ _ nom (Or.inl rfl)
      rw [if_neg c1]
      by_cases c2 : a.state ≠ .open
      · rw [if_pos c2]; exact nofail _ _ _ nom (Or.inl rfl)
      rw [if_neg c2]
      by_cases c3 : addr ≠ a.payAddr
      · rw [if_pos c3]; exact nofail _ _ _ nom (Or.inl rfl)
      rw [if_neg c3]
      by_cases c4 : total = 0 ∨ total < a.value
      · rw [if_pos c4]; exact nofail _ _ _ (afailMsgs_no_settle _ _) (Or.inr ⟨_, rfl⟩)
      rw [if_neg c4]
      by_cases c5 : ((aview ctx a).filter (fun h => h.base.state == .accepted)).any
          (fun h => decide (h.base.mppTotal ≠ total)) = true
      · rw [if_pos c5]; exact nofail _ _ _ (afailMsgs_no_settle _ _) (Or.inr ⟨_, rfl⟩)
      rw [if_neg c5]
      by_cases c6 : expiryTooSoon ctx.expiry ctx.height ctx.rejectDelta = true
      · rw [if_pos c6]; exact nofail _ _ _ nom (Or.inl rfl)
      rw [if_neg c6]
      by_cases c7 : expiryTooSoon ctx.expiry ctx.height a.finalCltv = true
      · rw [if_pos c7]; exact nofail _ _ _ nom (Or.inl rfl)
      rw [if_neg c7]
      by_cases c8 : ctx.setID = 0
      · rw [if_pos c8]; exact nofail _ _ _ nom (Or.inl rfl)
      rw [if_neg c8]
      by_cases c9 : a.htlcs.any (fun h => h.base.key == ctx.key) = true
      · rw [if_pos c9]; exact AShape.same _ _ (by intro k p h e; cases e) nom rfl (Or.inl rfl)
      rw [if_neg c9]
      have facts : AddFacts ctx a total addr := by
        refine ⟨by simpa using c1, he, by simpa using c2, by simpa using c3, by omega, by omega, ?_,
          by simpa using c6, by simpa using c7, ?_⟩
        · intro g hg
          simp only [List.any_eq_true, not_exists, not_and] at c5
          have := c5 g hg
          simpa using this
        · intro g hg hk
          apply c9
          rw [List.any_eq_true]
          exact ⟨g, hg, by simp [hk]⟩
      by_cases d1 : sumAmt (((aview ctx a).filter (fun h => h.base.state == .accepted)).map (·.base)) + ctx.amt < total
      · rw [if_pos d1]
        by_cases d0 : ((aview ctx a).any fun g => g.base.state == .settled) = true
        · rw [if_pos d0]; exact AShape.same _ _ (by intro k p h e; cases e) nom rfl (Or.inl rfl)
        · rw [if_neg d0]
          refine AShape.partialAdd total addr facts ?_ d1
          intro g hg hs
          apply d0
          rw [List.any_eq_true]
          exact ⟨g, hg, by simp [hs]⟩
      rw [if_neg d1]
      have hacc : (aview ctx a).filter (fun h => h.base.state == .accepted) = aacc ctx a := rfl
      by_cases d2 : (!(decide (H (P (adescs ctx (aacc ctx a)) ctx.share ctx.index) = ctx.hash) &&
          (aacc ctx a).all (fun g => decide (H (P (adescs ctx (aacc ctx a)) g.share g.index) = g.hash)))) = true
      · rw [hacc, if_pos d2]
        by_cases d3 : ((aview ctx a).any fun g => g.base.state == .settled) = true
        · rw [if_pos d3]; exact AShape.same _ _ (by intro k p h e; cases e) nom rfl (Or.inl rfl)
        · rw [if_neg d3]
          refine AShape.reconFail total addr facts ?_
          intro g hg hs
          apply d3
          rw [List.any_eq_true]
          exact ⟨g, hg, by simp [hs]⟩
      · rw [hacc, if_neg d2]
        have d2' : H (P (adescs ctx (aacc ctx a)) ctx.share ctx.index) = ctx.hash ∧
            ∀ g ∈ aacc ctx a, H (P (adescs ctx (aacc ctx a)) g.share g.index) = g.hash := by
          simp only [Bool.not_eq_true', Bool.not_eq_false', Bool.and_eq_true, decide_eq_true_eq,
            List.all_eq_true] at d2
          simpa using d2
        exact AShape.settled total addr facts (by rw [← hacc]; omega) d2'.1 d2'.2

theorem akeep_sub {ctx : Ctx} {a : AmpInv} {g : AHtlc} (h : g ∈ akeep drop ctx a) : g ∈ a.htlcs := by
  unfold akeep at h
  cases drop with
  | false => simpa using h
  | true => simp only [if_true] at h; exact (List.mem_filter.mp h).1

theorem akeep_sublist (ctx : Ctx) (a : AmpInv) : (akeep drop ctx a).Sublist a.htlcs := by
  unfold akeep
  cases drop with
  | false => simp
  | true => simp only [if_true]; exact List.filter_sublist

/-- what the kv store's blob rewrite keeps: every htlc of another set id and every accepted htlc. -/
theorem akeep_mem {ctx : Ctx} {a : AmpInv} {g : AHtlc} (hm : g ∈ a.htlcs)
    (hk : g.setID ≠ ctx.setID ∨ g.base.state = .accepted) : g ∈ akeep drop ctx a := by
  unfold akeep
  cases drop with
  | false => simpa using hm
  | true =>
    simp only [if_true]
    refine List.mem_filter.mpr ⟨hm, ?_⟩
    rcases hk with hk | hk
    · simp [hk]
    · simp [hk]

theorem akeep_false (ctx : Ctx) (a : AmpInv) : akeep false ctx a = a.htlcs := by
  unfold akeep; simp

/-- what is recorded about an AMP htlc: it passed the accept-time checks, and if it is settled
    its recorded preimage hashes to its payment hash. -/
structure AOk (H : Nat → Nat) (R : Int) (value : Nat) (cltv : Int) (h : AHtlc) : Prop where
  auth : h.base.authOk = true
  m1 : expiryTooSoon h.base.expiry h.base.acceptHeight R = false
  m2 : expiryTooSoon h.base.expiry h.base.acceptHeight cltv = false
  totalGe : value ≤ h.base.mppTotal
  totalPos : 0 < h.base.mppTotal
  settled : h.base.state = .settled → ∃ p, h.pre = some p ∧ H p = h.hash

/-- inductive invariant of an AMP invoice. -/
structure AGood (H : Nat → Nat) (R : Int) (a : AmpInv) : Prop where
  nodup : (a.htlcs.map (·.base.key)).Nodup
  each : ∀ h ∈ a.htlcs, AOk H R a.value a.finalCltv h

theorem mem_aacc {ctx : Ctx} {a : AmpInv} (hamp : ctx.amp = true) {g : AHtlc} :
    g ∈ aacc ctx a ↔ g ∈ a.htlcs ∧ g.setID = ctx.setID ∧ g.base.state = .accepted := by
  unfold aacc aview
  simp [hamp, List.mem_filter, and_assoc]
  intro _; exact And.comm

theorem AOk.cancel {R value cltv} {h : AHtlc} (hk : AOk H R value cltv h) :
    AOk H R value cltv (h.withState .canceled) :=
  ⟨hk.auth, hk.m1, hk.m2, hk.totalGe, hk.totalPos, by intro hs; simp [AHtlc.withState] at hs⟩

theorem agood_map {R} {a : AmpInv} (hg : AGood H R a) (f : AHtlc → AHtlc)
    (hf : ∀ h ∈ a.htlcs, (f h).base.key = h.base.key ∧ AOk H R a.value a.finalCltv (f h))
    (b : AmpInv) (hb : b.htlcs = a.htlcs.map f) (hv : b.value = a.value) (hc : b.finalCltv = a.finalCltv) :
    AGood H R b := by
  refine ⟨?_, ?_⟩
  · rw [hb, List.map_map]
    have : a.htlcs.map ((fun x : AHtlc => x.base.key) ∘ f) = a.htlcs.map (fun x => x.base.key) :=
      List.map_congr_left (fun x hx => (hf x hx).1)
    rw [this]; exact hg.nodup
  · intro h hh
    rw [hb] at hh
    obtain ⟨g, hg', rfl⟩ := List.mem_map.mp hh
    rw [hv, hc]; exact (hf g hg').2

theorem cancelWhere_good {R} {a : AmpInv} (hg : AGood H R a) (pred : AHtlc → Bool) (st : CState) :
    AGood H R { cancelWhere a pred with state := st } := by
  refine agood_map hg (fun h => if h.base.state == .accepted && pred h then h.withState .canceled else h)
    ?_ _ rfl rfl rfl
  intro h hh
  by_cases c : (h.base.state == .accepted && pred h) = true
  · simp only [c, if_true]; exact ⟨rfl, (hg.each h hh).cancel⟩
  · simp only [c]; exact ⟨rfl, hg.each h hh⟩

theorem newHtlc_ok {R} {ctx : Ctx} {a : AmpInv} {total addr : Nat} (f : AddFacts ctx a total addr)
    (hR : ctx.rejectDelta = R) :
    AOk H R a.value a.finalCltv (mkAHtlc ctx total (decide (addr = a.payAddr))) := by
  refine ⟨by simp [mkAHtlc, mkHtlc, f.addr], ?_, ?_, f.ge, f.pos, by intro hs; simp [mkAHtlc, mkHtlc] at hs⟩
  · rw [← hR]; exact f.m1
  · exact f.m2

theorem anotify_good {R} {ctx : Ctx} {a : AmpInv} (hg : AGood H R a) (hR : ctx.rejectDelta = R) :
    AGood H R (anotify H P drop ctx a).1 := by
  have sh := anotify_shape (H := H) (P := P) (drop := drop) ctx a
  generalize (anotify H P drop ctx a).1 = a' at sh
  generalize (anotify H P drop ctx a).2.1 = r at sh
  generalize (anotify H P drop ctx a).2.2 = msgs at sh
  cases sh with
  | same => exact hg
  | replaySettled => exact hg
  | partialAdd total addr f hns hlt =>
    refine ⟨?_, ?_⟩
    · simp only [List.map_append, List.map_cons, List.map_nil]
      rw [List.nodup_append]
      refine ⟨hg.nodup.sublist ((akeep_sublist ctx a).map _), by simp, ?_⟩
      intro x hx y hy
      obtain ⟨g, hg', rfl⟩ := List.mem_map.mp hx
      simp at hy; subst hy
      exact f.fresh g (akeep_sub hg')
    · intro h hh
      rcases List.mem_append.mp hh with hh | hh
      · exact hg.each h (akeep_sub hh)
      · simp at hh; subst hh; exact newHtlc_ok (a := a) f hR
  | reconFail total addr f hns => exact cancelWhere_good hg _ _
  | settled total addr f hge h0 hall =>
    -- first the list with the new htlc, then the settle map
    have hg1 : AGood H R { a with htlcs := akeep drop ctx a ++ [mkAHtlc ctx total (decide (addr = a.payAddr))] } := by
      refine ⟨?_, ?_⟩
      · simp only [List.map_append, List.map_cons, List.map_nil]
        rw [List.nodup_append]
        refine ⟨hg.nodup.sublist ((akeep_sublist ctx a).map _), by simp, ?_⟩
        intro x hx y hy
        obtain ⟨g, hg', rfl⟩ := List.mem_map.mp hx
        simp at hy; subst hy
        exact f.fresh g (akeep_sub hg')
      · intro h hh
        rcases List.mem_append.mp hh with hh | hh
        · exact hg.each h (akeep_sub hh)
        · simp at hh; subst hh; exact newHtlc_ok (a := a) f hR
    refine agood_map hg1 (settleOne P ctx (adescs ctx (aacc ctx a))) ?_ _ rfl rfl rfl
    intro g hgm
    have hok := hg1.each g hgm
    unfold settleOne
    by_cases c : (g.setID == ctx.setID && g.base.state == .accepted) = true
    · simp only [c, if_true]
      refine ⟨rfl, hok.auth, hok.m1, hok.m2, hok.totalGe, hok.totalPos, ?_⟩
      intro _
      refine ⟨_, rfl, ?_⟩
      simp only [Bool.and_eq_true, beq_iff_eq] at c
      rcases List.mem_append.mp hgm with hgm | hgm
      · exact hall g ((mem_aacc f.amp).mpr ⟨akeep_sub hgm, c.1, c.2⟩)
      · simp at hgm; subst hgm; exact h0
    · simp only [c]; exact ⟨rfl, hok⟩

theorem acancel_good {R} {a : AmpInv} (hg : AGood H R a) : AGood H R (acancel a).1 := by
  unfold acancel
  cases hs : a.state with
  | canceled => exact hg
  | «open» =>
    simp only
    by_cases c : a.htlcs.any (fun h => h.base.state == .settled) = true
    · rw [if_pos c]; exact hg
    · rw [if_neg c]; exact cancelWhere_good hg _ _
  | accepted => exact hg
  | settled => exact hg

theorem atimeout_good {R} {hold now : Nat} {a : AmpInv} (hg : AGood H R a) :
    AGood H R (atimeout hold now a).1 := by
  unfold atimeout
  by_cases c : a.state ≠ .open
  · rw [if_pos c]; exact hg
  · rw [if_neg c]
    have := cancelWhere_good hg (fun h => due hold now h.base) a.state
    have e : ({ cancelWhere a (fun h => due hold now h.base) with state := a.state } : AmpInv) =
        cancelWhere a (fun h => due hold now h.base) := rfl
    rw [e] at this; exact this

/-- AMP htlc `k` is recorded settled with preimage `p`, and `H p` is that htlc's payment hash. -/
def ASettled (H : Nat → Nat) (a : AmpInv) (k p : Nat) : Prop :=
  ∃ h ∈ a.htlcs, h.base.key = k ∧ h.base.state = .settled ∧ h.pre = some p ∧ H p = h.hash

theorem aview_sub {ctx : Ctx} {a : AmpInv} {g : AHtlc} (h : g ∈ aview ctx a) : g ∈ a.htlcs := by
  unfold aview at h
  by_cases c : ctx.amp = true
  · rw [if_pos c] at h; exact (List.mem_filter.mp h).1
  · rw [if_neg c] at h; exact h

theorem asettleMsgs_settled {R} {ctx : Ctx} {a : AmpInv} (hg : AGood H R a) {k : Nat} {kind kind0 : SettleKind}
    {p p0 : Nat} {ht : Int} (hm : (k, Res.settle kind p ht) ∈ asettleMsgs (aview ctx a) kind0 p0) :
    ASettled H a k p := by
  unfold asettleMsgs at hm
  obtain ⟨g, hgm, he⟩ := List.mem_map.mp hm
  obtain ⟨gv, gs⟩ := List.mem_filter.mp hgm
  have gs' : g.base.state = .settled := by simpa using gs
  have gm := aview_sub gv
  obtain ⟨q, hq, hHq⟩ := (hg.each g gm).settled gs'
  simp [hq] at he
  obtain ⟨rfl, _, rfl, _⟩ := he
  exact ⟨g, gm, rfl, gs', hq, hHq⟩

/-- a settle answer of the AMP notify path: the htlc of the call is recorded settled with exactly
    the released preimage, which hashes to the htlc's payment hash = the hash of the call. -/
theorem anotify_settle {R} {ctx : Ctx} {a : AmpInv} (hg : AGood H R a)
    {k : SettleKind} {p : Nat} {ht : Int} (hr : (anotify H P drop ctx a).2.1 = .settle k p ht) :
    ASettled H (anotify H P drop ctx a).1 ctx.key p ∧ H p = ctx.hash := by
  have sh := anotify_shape (H := H) (P := P) (drop := drop) ctx a
  generalize (anotify H P drop ctx a).1 = a' at sh hr ⊢
  generalize (anotify H P drop ctx a).2.1 = r at sh hr
  generalize (anotify H P drop ctx a).2.2 = msgs at sh
  cases sh with
  | same _ _ hns => exact absurd hr (hns k p ht)
  | replaySettled h q hm hk hs hp hh hH =>
    cases hr
    exact ⟨⟨h, aview_sub hm, hk, hs, hp, hH⟩, by rw [hH, hh]⟩
  | partialAdd => cases hr
  | reconFail => cases hr
  | settled total addr f hge h0 hall =>
    cases hr
    refine ⟨⟨settleOne P ctx (adescs ctx (aacc ctx a)) (mkAHtlc ctx total (decide (addr = a.payAddr))),
      List.mem_map.mpr ⟨_, by simp, rfl⟩, ?_, ?_, ?_, ?_⟩, h0⟩
    all_goals simp [settleOne, mkAHtlc, mkHtlc, AHtlc.withState, h0]

theorem anotify_msgs_settle {R} {ctx : Ctx} {a : AmpInv} (hg : AGood H R a) (hR : ctx.rejectDelta = R)
    {k : Nat} {kind : SettleKind} {p : Nat} {ht : Int}
    (hm : (k, Res.settle kind p ht) ∈ (anotify H P drop ctx a).2.2) :
    ASettled H (anotify H P drop ctx a).1 k p := by
  have hg' : AGood H R (anotify H P drop ctx a).1 := anotify_good hg hR
  have sh := anotify_shape (H := H) (P := P) (drop := drop) ctx a
  generalize (anotify H P drop ctx a).1 = a' at sh hm hg' ⊢
  generalize (anotify H P drop ctx a).2.1 = r at sh
  generalize (anotify H P drop ctx a).2.2 = msgs at sh hm
  cases sh with
  | same _ _ _ hnm => exact absurd hm (hnm k kind p ht)
  | replaySettled h q _ _ _ _ _ _ =>
    by_cases c : ctx.amp = true
    · rw [if_pos c] at hm; exact asettleMsgs_settled hg hm
    · rw [if_neg c] at hm; cases hm
  | partialAdd => cases hm
  | reconFail => exact absurd hm (afailMsgs_no_settle _ _ k kind p ht)
  | settled total addr f hge h0 hall => exact asettleMsgs_settled hg' hm

/-- **the set that an AMP settle pays**: a fresh `Settled` answer happens only when the accepted
    htlcs of the set id plus the new htlc declare one common total ≥ invoice value, carry the
    invoice's payment address, and their amounts sum to at least that total; exactly these htlcs
    become settled, each with the child preimage whose hash was compared with its payment hash. -/
theorem anotify_settle_set {ctx : Ctx} {a : AmpInv} {p : Nat} {ht : Int}
    (hr : (anotify H P drop ctx a).2.1 = .settle .settled p ht) :
    ∃ total addr, effMpp ctx = some (total, addr) ∧ addr = a.payAddr ∧ a.value ≤ total ∧
      (∀ g ∈ aacc ctx a, g.base.mppTotal = total) ∧
      total ≤ sumAmt ((aacc ctx a).map (·.base)) + ctx.amt ∧
      (anotify H P drop ctx a).1.htlcs =
        (akeep drop ctx a ++ [mkAHtlc ctx total (decide (addr = a.payAddr))]).map
          (settleOne P ctx (adescs ctx (aacc ctx a))) := by
  have sh := anotify_shape (H := H) (P := P) (drop := drop) ctx a
  generalize (anotify H P drop ctx a).1 = a' at sh hr ⊢
  generalize (anotify H P drop ctx a).2.1 = r at sh hr
  generalize (anotify H P drop ctx a).2.2 = msgs at sh
  cases sh with
  | same _ _ hns => exact absurd hr (hns _ p ht)
  | replaySettled => cases hr
  | partialAdd => cases hr
  | reconFail => cases hr
  | settled total addr f hge h0 hall => exact ⟨total, addr, f.eff, f.addr, f.ge, f.same, hge, rfl⟩

/-! #### monotone states -/

/-- `b` is a later version of AMP invoice `a`. -/
def AMono (a b : AmpInv) : Prop :=
  a.hash = b.hash ∧ a.value = b.value ∧ a.payAddr = b.payAddr ∧ a.finalCltv = b.finalCltv ∧
  a.state.le b.state ∧
  ∀ h ∈ a.htlcs, ∃ h' ∈ b.htlcs, h'.base = { h.base with state := h'.base.state } ∧
    h'.setID = h.setID ∧ h'.hash = h.hash ∧ h'.share = h.share ∧ h'.index = h.index ∧
    h.base.state.le h'.base.state ∧ (∀ p, h.base.state = .settled → h.pre = some p → h'.pre = some p)

theorem AMono.refl (a : AmpInv) : AMono a a :=
  ⟨rfl, rfl, rfl, rfl, CState.le_refl _, fun h hh => ⟨h, hh, rfl, rfl, rfl, rfl, rfl, HState.le_refl _, fun _ _ x => x⟩⟩

theorem AMono.trans {a b c : AmpInv} (h1 : AMono a b) (h2 : AMono b c) : AMono a c := by
  obtain ⟨a1, a2, a3, a4, a5, a6⟩ := h1
  obtain ⟨b1, b2, b3, b4, b5, b6⟩ := h2
  refine ⟨a1.trans b1, a2.trans b2, a3.trans b3, a4.trans b4, CState.le_trans a5 b5, ?_⟩
  intro h hh
  obtain ⟨h', hh', e1, e2, e3, e4, e5, l1, p1⟩ := a6 h hh
  obtain ⟨h'', hh'', f1, f2, f3, f4, f5, l2, p2⟩ := b6 h' hh'
  refine ⟨h'', hh'', ?_, f2.trans e2, f3.trans e3, f4.trans e4, f5.trans e5, HState.le_trans l1 l2,
    ?_⟩
  · rw [f1, e1]
  · intro p hs hp
    have hs' : h'.base.state = .settled := by rw [hs] at l1; exact l1
    exact p2 p hs' (p1 p hs hp)

/-- an update that maps the old htlc list (plus new htlcs) with a forward-moving function. -/
theorem amono_of_map {a b : AmpInv} (h1 : a.hash = b.hash) (h2 : a.value = b.value)
    (h3 : a.payAddr = b.payAddr) (h4 : a.finalCltv = b.finalCltv) (hs : a.state.le b.state)
    (extra : List AHtlc) (f : AHtlc → AHtlc) (hl : b.htlcs = (a.htlcs ++ extra).map f)
    (hf : ∀ h ∈ a.htlcs, (f h).base = { h.base with state := (f h).base.state } ∧
      (f h).setID = h.setID ∧ (f h).hash = h.hash ∧ (f h).share = h.share ∧ (f h).index = h.index ∧
      h.base.state.le (f h).base.state ∧ (∀ p, h.base.state = .settled → h.pre = some p → (f h).pre = some p)) :
    AMono a b := by
  refine ⟨h1, h2, h3, h4, hs, ?_⟩
  intro h hh
  exact ⟨f h, by rw [hl]; exact List.mem_map.mpr ⟨h, by simp [hh], rfl⟩, hf h hh⟩

theorem cancelWhere_mono (a : AmpInv) (pred : AHtlc → Bool) (st : CState) (hs : a.state.le st) :
    AMono a { cancelWhere a pred with state := st } := by
  refine amono_of_map rfl rfl rfl rfl hs []
    (fun h => if h.base.state == .accepted && pred h then h.withState .canceled else h)
    (by rw [List.append_nil]; rfl) ?_
  intro h _
  by_cases c : (h.base.state == .accepted && pred h) = true
  · have hacc : h.base.state = .accepted := by
      simp only [Bool.and_eq_true, beq_iff_eq] at c; exact c.1
    simp only [c, if_true]
    exact ⟨rfl, rfl, rfl, rfl, rfl, by rw [hacc]; simp [HState.le], fun _ _ x => x⟩
  · simp only [c]
    exact ⟨rfl, rfl, rfl, rfl, rfl, HState.le_refl _, fun _ _ x => x⟩

/-- one step of an AMP invoice on a store that may forget resolved htlcs (`drop`, the kv store,
    see `akeep`): as `AMono`, except that with `drop` an htlc that is no longer accepted need not
    be found again.  `AMonoD false` is `AMono`. -/
def AMonoD (drop : Bool) (a b : AmpInv) : Prop :=
  a.hash = b.hash ∧ a.value = b.value ∧ a.payAddr = b.payAddr ∧ a.finalCltv = b.finalCltv ∧
  a.state.le b.state ∧
  ∀ h ∈ a.htlcs, (drop = true ∧ h.base.state ≠ .accepted) ∨
    ∃ h' ∈ b.htlcs, h'.base = { h.base with state := h'.base.state } ∧
    h'.setID = h.setID ∧ h'.hash = h.hash ∧ h'.share = h.share ∧ h'.index = h.index ∧
    h.base.state.le h'.base.state ∧ (∀ p, h.base.state = .settled → h.pre = some p → h'.pre = some p)

theorem AMono.toD {a b : AmpInv} (h : AMono a b) (drop : Bool) : AMonoD drop a b :=
  ⟨h.1, h.2.1, h.2.2.1, h.2.2.2.1, h.2.2.2.2.1, fun g hg => Or.inr (h.2.2.2.2.2 g hg)⟩

theorem AMonoD.mono {a b : AmpInv} (h : AMonoD false a b) : AMono a b := by
  refine ⟨h.1, h.2.1, h.2.2.1, h.2.2.2.1, h.2.2.2.2.1, ?_⟩
  intro g hg
  rcases h.2.2.2.2.2 g hg with ⟨c, _⟩ | x
  · cases c
  · exact x

theorem amonoD_of_map {a b : AmpInv} (h1 : a.hash = b.hash) (h2 : a.value = b.value)
    (h3 : a.payAddr = b.payAddr) (h4 : a.finalCltv = b.finalCltv) (hs : a.state.le b.state)
    (keep extra : List AHtlc) (f : AHtlc → AHtlc) (hl : b.htlcs = (keep ++ extra).map f)
    (hk : ∀ h ∈ a.htlcs, h ∈ keep ∨ (drop = true ∧ h.base.state ≠ .accepted))
    (hf : ∀ h ∈ a.htlcs, (f h).base = { h.base with state := (f h).base.state } ∧
      (f h).setID = h.setID ∧ (f h).hash = h.hash ∧ (f h).share = h.share ∧ (f h).index = h.index ∧
      h.base.state.le (f h).base.state ∧ (∀ p, h.base.state = .settled → h.pre = some p → (f h).pre = some p)) :
    AMonoD drop a b := by
  refine ⟨h1, h2, h3, h4, hs, ?_⟩
  intro h hh
  rcases hk h hh with hkeep | hdrop
  · exact Or.inr ⟨f h, by rw [hl]; exact List.mem_map.mpr ⟨h, by simp [hkeep], rfl⟩, hf h hh⟩
  · exact Or.inl hdrop

/-- every htlc is kept by the blob rewrite or (kv store only) is no longer accepted. -/
theorem akeep_or (ctx : Ctx) (a : AmpInv) :
    ∀ h ∈ a.htlcs, h ∈ akeep drop ctx a ∨ (drop = true ∧ h.base.state ≠ .accepted) := by
  intro h hh
  cases drop with
  | false => left; rw [akeep_false]; exact hh
  | true =>
    by_cases c : h.base.state = .accepted
    · left; exact akeep_mem hh (Or.inr c)
    · right; exact ⟨rfl, c⟩

theorem anotify_monoD {ctx : Ctx} {a : AmpInv} :
    AMonoD drop a (anotify H P drop ctx a).1 := by
  have sh := anotify_shape (H := H) (P := P) (drop := drop) ctx a
  generalize (anotify H P drop ctx a).1 = a' at sh ⊢
  generalize (anotify H P drop ctx a).2.1 = r at sh
  generalize (anotify H P drop ctx a).2.2 = msgs at sh
  cases sh with
  | same => exact (AMono.refl a).toD drop
  | replaySettled => exact (AMono.refl a).toD drop
  | partialAdd total addr f hns hlt =>
    refine amonoD_of_map rfl rfl rfl rfl (CState.le_refl _) (akeep drop ctx a)
      [mkAHtlc ctx total (decide (addr = a.payAddr))] (fun h => h) (by simp) (akeep_or ctx a) ?_
    intro h _
    exact ⟨rfl, rfl, rfl, rfl, rfl, HState.le_refl _, fun _ _ x => x⟩
  | reconFail total addr f hns =>
    exact (cancelWhere_mono a _ _ (by rw [f.isOpen]; simp [CState.le])).toD drop
  | settled total addr f hge h0 hall =>
    refine amonoD_of_map rfl rfl rfl rfl (CState.le_refl _) (akeep drop ctx a)
      [mkAHtlc ctx total (decide (addr = a.payAddr))]
      (settleOne P ctx (adescs ctx (aacc ctx a))) rfl (akeep_or ctx a) ?_
    intro h hh
    unfold settleOne
    by_cases c : (h.setID == ctx.setID && h.base.state == .accepted) = true
    · have hacc : h.base.state = .accepted := by
        simp only [Bool.and_eq_true, beq_iff_eq] at c; exact c.2
      simp only [c, if_true]
      refine ⟨rfl, rfl, rfl, rfl, rfl, by rw [hacc]; simp [HState.le], ?_⟩
      intro p hs; rw [hacc] at hs; cases hs
    · simp only [c]
      exact ⟨rfl, rfl, rfl, rfl, rfl, HState.le_refl _, fun _ _ x => x⟩

/-- on the native SQL store nothing is forgotten. -/
theorem anotify_mono {ctx : Ctx} {a : AmpInv} :
    AMono a (anotify H P false ctx a).1 :=
  (anotify_monoD (H := H) (P := P) (drop := false) (ctx := ctx) (a := a)).mono


theorem acancel_mono {a : AmpInv} : AMono a (acancel a).1 := by
  unfold acancel
  cases hs : a.state with
  | canceled => exact AMono.refl a
  | «open» =>
    simp only
    by_cases c : a.htlcs.any (fun h => h.base.state == .settled) = true
    · rw [if_pos c]; exact AMono.refl a
    · rw [if_neg c]; exact cancelWhere_mono a _ _ (by rw [hs]; simp [CState.le])
  | accepted => exact AMono.refl a
  | settled => exact AMono.refl a

theorem atimeout_mono {hold now : Nat} {a : AmpInv} : AMono a (atimeout hold now a).1 := by
  unfold atimeout
  by_cases c : a.state ≠ .open
  · rw [if_pos c]; exact AMono.refl a
  · rw [if_neg c]
    exact cancelWhere_mono a (fun h => due hold now h.base) a.state (CState.le_refl _)

theorem acancel_msgs {a : AmpInv} {k : Nat} {r : Res} (hm : (k, r) ∈ (acancel a).2.2) :
    ∃ ah, r = .fail .canceled ah := by
  unfold acancel at hm
  cases hs : a.state with
  | canceled => simp [hs] at hm
  | accepted => simp [hs] at hm
  | settled => simp [hs] at hm
  | «open» =>
    simp only [hs] at hm
    by_cases c : a.htlcs.any (fun h => h.base.state == .settled) = true
    · rw [if_pos c] at hm; cases hm
    · rw [if_neg c] at hm
      obtain ⟨h, _, he⟩ := List.mem_map.mp hm
      simp at he; exact ⟨_, he.2.symm⟩

theorem atimeout_msgs {hold now : Nat} {a : AmpInv} {k : Nat} {r : Res}
    (hm : (k, r) ∈ (atimeout hold now a).2) : ∃ ah, r = .fail .mppTimeout ah := by
  unfold atimeout at hm
  by_cases c : a.state ≠ .open
  · rw [if_pos c] at hm; cases hm
  · rw [if_neg c] at hm
    obtain ⟨h, _, he⟩ := List.mem_map.mp hm
    simp at he; exact ⟨_, he.2.symm⟩

theorem anotify_hash {ctx : Ctx} {a : AmpInv} : (anotify H P drop ctx a).1.hash = a.hash :=
  (anotify_monoD (H := H) (P := P) (drop := drop) (ctx := ctx) (a := a)).1.symm

end LndModel.C15
