/-
C15 — lemmas about the interleaving model (Conc.lean): the atomic model is the "finish at once"
schedule, transactions do not read the subscription table, the raw resolutions of a transaction
are the ones the atomic step delivers when every key is subscribed, and the generic hold-timer
transaction preserves the invariants.
-/
import LndModel.C15.Conc
import LndModel.C15.ReplayLemmas
import LndModel.C15.FailLemmas

set_option linter.unusedSimpArgs false
set_option linter.unusedVariables false

namespace LndModel.C15

variable {H : Nat → Nat} {P : List (Nat × Nat) → Nat → Nat → Nat}

theorem subscribe_eq (subs : List Nat) (key : Nat) (r : Res) :
    subscribe subs key r = addSub subs (subOf key r) := by
  cases r <;> simp [subscribe, addSub, subOf]

theorem deliver_nil (subs : List Nat) : deliver subs [] = (subs, []) := by
  simp [deliver]

theorem notify_eq_finish (cfg : Cfg) (reg : Reg) (ctx : Ctx) :
    notify H P cfg reg ctx = finish (notifyTx H P cfg reg ctx) := by
  unfold notify notifyTx
  cases preprocess H cfg reg ctx with
  | error e => simp [finish, deliver_nil, addSub]
  | ok reg1 =>
    simp only
    cases lookup cfg reg1.keys ctx.hash (refAddr ctx) (ctx.amp && ctx.pathID.isNone) with
    | none => simp [finish, deliver_nil, addSub]
    | some h =>
      simp only
      cases findHash reg1.invs h with
      | some inv => simp [finish, subscribe_eq]
      | none =>
        simp only
        cases findAmp reg1.amps h with
        | none => simp [finish, deliver_nil, addSub]
        | some a =>
          simp only
          split <;> simp [finish, deliver_nil, addSub, subscribe_eq]

/-- **the atomic model is one schedule of the interleaving model**: an atomic step is the event's
    transaction followed at once by its whole fan-out and its subscription. -/
theorem step_eq_finish (cfg : Cfg) (reg : Reg) (e : Event) :
    step H P cfg reg e = finish (txOf H P cfg reg e) := by
  cases e with
  | addInvoice s =>
    simp only [step, txOf]
    cases addInvoice reg s <;> simp [finish, deliver_nil, addSub]
  | notify ctx => simp only [step, txOf]; exact notify_eq_finish cfg reg _
  | settle p =>
    simp only [step, txOf, settleHodl, settleTx]
    cases findHash reg.invs (H p) with
    | some inv => simp [finish, addSub]
    | none =>
      simp only
      cases findAmp reg.amps (H p) <;> simp [finish, deliver_nil, addSub]
  | cancel h =>
    simp only [step, txOf, cancel, cancelTx]
    cases findHash reg.invs h with
    | some inv => simp [finish, addSub]
    | none =>
      simp only
      cases findAmp reg.amps h <;> simp [finish, deliver_nil, addSub]
  | tick dt => simp [step, txOf, tick, tickTx, finish, addSub]

/-! ### transactions do not read the subscription table -/

def Reg.withSubs (reg : Reg) (s : List Nat) : Reg := { reg with subs := s }
def Tx.withSubs (t : Tx) (s : List Nat) : Tx := { t with reg := t.reg.withSubs s }

@[simp] theorem withSubs_invs (reg : Reg) (s) : (reg.withSubs s).invs = reg.invs := rfl
@[simp] theorem withSubs_amps (reg : Reg) (s) : (reg.withSubs s).amps = reg.amps := rfl
@[simp] theorem withSubs_now (reg : Reg) (s) : (reg.withSubs s).now = reg.now := rfl
@[simp] theorem withSubs_subs (reg : Reg) (s) : (reg.withSubs s).subs = s := rfl
@[simp] theorem withSubs_keys (reg : Reg) (s) : (reg.withSubs s).keys = reg.keys := rfl

theorem addInvoice_withSubs (reg : Reg) (s : List Nat) (spec : InvSpec) :
    addInvoice (reg.withSubs s) spec = (addInvoice reg spec).map (·.withSubs s) := by
  unfold addInvoice
  simp only [withSubs_keys]
  by_cases c1 : (kHash reg.keys spec.hash).isSome = true
  · simp [c1]
  by_cases c2 : (kAddr reg.keys spec.payAddr).isSome = true
  · simp [c1, c2]
  by_cases c3 : spec.ampReq = true <;> simp [c1, c2, c3, Reg.withSubs]

/-- the pre-processing is its pure part plus one `AddInvoice` whose refusal is ignored. -/
theorem preprocess_eq (cfg : Cfg) (reg : Reg) (ctx : Ctx) :
    preprocess H cfg reg ctx =
      match preSpec H cfg ctx with
      | .error e => .error e
      | .ok none => .ok reg
      | .ok (some spec) => .ok ((addInvoice reg spec).getD reg) := by
  unfold preprocess preSpec processAMP processKeySend
  by_cases a : (cfg.acceptAMP && ctx.amp) = true
  · simp only [a, if_true]
    cases ctx.mpp with
    | none => rfl
    | some m =>
      obtain ⟨total, addr⟩ := m
      simp only
      by_cases x : expiryTooSoon ctx.expiry ctx.height cfg.rejectDelta = true
      · simp [x]
      · simp only [x]
        cases h : addInvoice reg _ <;> simp [h]
  · simp only [a]
    by_cases k : (cfg.acceptKeysend && !ctx.amp) = true
    · simp only [k, if_true]
      cases ctx.ks with
      | none => rfl
      | some o =>
        cases o with
        | none => rfl
        | some p =>
          simp only
          by_cases c1 : H p ≠ ctx.hash
          · simp [c1]
          by_cases c2 : ctx.mpp.isSome = true
          · simp [c1, c2]
          by_cases c3 : expiryTooSoon ctx.expiry ctx.height cfg.rejectDelta = true
          · simp [c1, c2, c3]
          simp only [c1, c2, c3]
          cases h : addInvoice reg _ <;> simp [h]
    · simp [k]


/-- the part of `notifyTx` after the pre-processing. -/
def lockedTx (H : Nat → Nat) (P : List (Nat × Nat) → Nat → Nat → Nat) (cfg : Cfg) (reg : Reg)
    (ctx : Ctx) : Tx :=
  match lookup cfg reg.keys ctx.hash (refAddr ctx) (ctx.amp && ctx.pathID.isNone) with
  | none => ⟨reg, .res (.fail .invoiceNotFound ctx.height), [], none⟩
  | some h =>
    match findHash reg.invs h with
    | some inv =>
      let (inv', r) := inotify H ctx inv
      let r := fixHeight inv' ctx.key r
      ⟨{ reg with invs := setInv reg.invs inv' }, .res r, notifyMsgs inv' r, subOf ctx.key r⟩
    | none =>
      match findAmp reg.amps h with
      | none => ⟨reg, .res (.fail .invoiceNotFound ctx.height), [], none⟩
      | some a =>
        let (a', r, msgs) := anotify H P false ctx a
        if r.addsHtlc ∧
            reg.amps.any (fun b => b.hash != a.hash && b.sets.any (fun x => x.id == ctx.setID)) then
          ⟨reg, .res (.fail .invoiceNotFound ctx.height), [], none⟩
        else
          ⟨{ reg with amps := setAmp reg.amps a' }, .res r, msgs, subOf ctx.key r⟩

theorem notifyTx_eq (cfg : Cfg) (reg : Reg) (ctx : Ctx) :
    notifyTx H P cfg reg ctx =
      match preprocess H cfg reg ctx with
      | .error e => ⟨reg, .res (.fail e ctx.height), [], none⟩
      | .ok r => lockedTx H P cfg r ctx := by
  unfold notifyTx lockedTx; rfl

theorem lockedTx_withSubs (cfg : Cfg) (reg : Reg) (s : List Nat) (ctx : Ctx) :
    lockedTx H P cfg (reg.withSubs s) ctx = (lockedTx H P cfg reg ctx).withSubs s := by
  obtain ⟨invs, amps, subs, now⟩ := reg
  unfold lockedTx
  dsimp +instances only [Reg.withSubs, Reg.keys]
  split
  · rfl
  · split
    · rfl
    · split
      · rfl
      · split
        · rfl
        · rfl

theorem notifyTx_withSubs (cfg : Cfg) (reg : Reg) (s : List Nat) (ctx : Ctx) :
    notifyTx H P cfg (reg.withSubs s) ctx = (notifyTx H P cfg reg ctx).withSubs s := by
  rw [notifyTx_eq, notifyTx_eq, preprocess_eq, preprocess_eq]
  cases preSpec H cfg ctx with
  | error e => rfl
  | ok o =>
    cases o with
    | none => exact lockedTx_withSubs cfg reg s ctx
    | some spec =>
      simp only [addInvoice_withSubs]
      cases addInvoice reg spec with
      | none => exact lockedTx_withSubs cfg reg s ctx
      | some r => exact lockedTx_withSubs cfg r s ctx

/-- **transactions do not read the subscription table.** -/
theorem txOf_withSubs (cfg : Cfg) (reg : Reg) (s : List Nat) (e : Event) :
    txOf H P cfg (reg.withSubs s) e = (txOf H P cfg reg e).withSubs s := by
  cases e with
  | addInvoice spec =>
    simp only [txOf, addInvoice_withSubs]
    cases addInvoice reg spec <;> rfl
  | notify ctx => simp only [txOf, withSubs_now]; exact notifyTx_withSubs cfg reg s _
  | settle p =>
    simp only [txOf, settleTx, withSubs_invs, withSubs_amps]
    cases findHash reg.invs (H p) with
    | some inv => rfl
    | none =>
      simp only
      cases findAmp reg.amps (H p) <;> rfl
  | cancel h =>
    simp only [txOf, cancelTx, withSubs_invs, withSubs_amps]
    cases findHash reg.invs h with
    | some inv => rfl
    | none =>
      simp only
      cases findAmp reg.amps h <;> rfl
  | tick dt => rfl

theorem deliver_all (msgs : List (Nat × Res)) : (deliver (msgs.map (·.1)) msgs).2 = msgs := by
  unfold deliver
  simp only
  apply List.filter_eq_self.mpr
  intro m hm
  simp only [List.contains_eq_mem, List.mem_map, decide_eq_true_eq]
  exact ⟨m, hm, rfl⟩

/-- the raw resolutions of a transaction are what the atomic step delivers when all their keys are
    subscribed, and the database after the transaction is the one after that atomic step. -/
theorem txOf_as_step (cfg : Cfg) (reg : Reg) (e : Event) :
    let t := txOf H P cfg reg e
    let st := step H P cfg (reg.withSubs (t.msgs.map (·.1))) e
    st.2.msgs = t.msgs ∧ st.2.reply = t.reply ∧ st.1.invs = t.reg.invs ∧ st.1.amps = t.reg.amps ∧
      st.1.now = t.reg.now := by
  intro t st
  have e1 : st = finish (t.withSubs (t.msgs.map (·.1))) := by
    simp only [st, step_eq_finish, txOf_withSubs]; rfl
  rw [e1]
  refine ⟨?_, rfl, rfl, rfl, rfl⟩
  simp only [finish, Tx.withSubs, withSubs_subs]
  exact deliver_all t.msgs


/-! ### the generic hold-timer transaction -/

theorem duep_accepted {sel : Htlc → Bool} {h : Htlc} (d : duep sel h = true) : h.state = .accepted := by
  unfold duep at d; simp at d; exact d.1

theorem stateOnly_duep (sel : Htlc → Bool) :
    StateOnly (fun h => if duep sel h then { h with state := .canceled } else h) := by
  intro h; by_cases c : duep sel h = true <;> simp [c]

theorem shrink_duep (sel : Htlc → Bool) :
    Shrink (fun h => if duep sel h then { h with state := .canceled } else h) := by
  refine ⟨stateOnly_duep sel, ?_⟩
  intro h; by_cases c : duep sel h = true <;> simp [c]

theorem itimeoutP_good {R} {inv : Invoice} (sel : Htlc → Bool) (hg : Good H R inv) :
    Good H R (itimeoutP sel inv).1 := by
  unfold itimeoutP
  by_cases c : inv.state ≠ .open
  · simp [c]; exact hg
  · have ho : inv.state = .open := by simpa using c
    simp only [c, if_false]
    obtain ⟨o1, o2, o3⟩ := hg.openS ho
    have hf := shrink_duep sel
    refine ⟨hg.noAmp, hg.static.map hf.1, hg.sameTotal.map_shrink hf, ?_, ?_, ?_, ?_⟩
    · intro _
      refine ⟨?_, ?_, o3⟩
      · intro h hh; obtain ⟨a, ha, rfl⟩ := List.mem_map.mp hh
        intro hs
        have := hf.2 a (by rw [hs]; simp)
        exact o1 a ha (by rw [← this]; exact hs)
      · intro h hh hacc; obtain ⟨a, ha, rfl⟩ := List.mem_map.mp hh
        have := hf.2 a (by rw [hacc]; simp)
        rw [hf.1.mppTotal]
        exact o2 a ha (by rw [← this]; exact hacc)
    · intro hs; simp [ho] at hs
    · intro hs; simp [ho] at hs
    · intro hs; simp [ho] at hs

theorem itimeoutP_terms {sel : Htlc → Bool} {inv : Invoice} : SameTerms inv (itimeoutP sel inv).1 := by
  unfold itimeoutP
  by_cases c : inv.state ≠ .open
  · rw [if_pos c]; exact SameTerms.refl _
  · rw [if_neg c]; exact SameTerms.refl _

theorem itimeoutP_mono {sel : Htlc → Bool} {inv : Invoice} : Mono inv (itimeoutP sel inv).1 := by
  unfold itimeoutP
  by_cases c : inv.state ≠ .open
  · rw [if_pos c]; exact Mono.refl _
  · rw [if_neg c]
    refine mono_of_map (SameTerms.refl _) (CState.le_refl _) [] _ (stateOnly_duep sel)
      (by simp) ?_
    intro h _
    by_cases d : duep sel h = true
    · have := duep_accepted d
      simp [d, this, HState.le]
    · simp [d]; exact HState.le_refl _

theorem itimeoutP_msgs {sel : Htlc → Bool} {inv : Invoice} {k : Nat} {r : Res}
    (hm : (k, r) ∈ (itimeoutP sel inv).2) :
    (∃ ah, r = .fail .mppTimeout ah) ∧
    ∃ h ∈ (itimeoutP sel inv).1.htlcs, h.key = k ∧ h.state = .canceled := by
  unfold itimeoutP at hm ⊢
  by_cases c : inv.state ≠ .open
  · rw [if_pos c] at hm; cases hm
  · rw [if_neg c] at hm ⊢
    obtain ⟨h, hh, he⟩ := List.mem_map.mp hm
    obtain ⟨hmem, hd⟩ := List.mem_filter.mp hh
    simp at he
    refine ⟨⟨_, he.2.symm⟩, { h with state := .canceled }, ?_, he.1, rfl⟩
    simp only
    exact List.mem_map.mpr ⟨h, hmem, by simp [hd]⟩

theorem atimeoutP_good {R} {sel : Htlc → Bool} {a : AmpInv} (hg : AGood H R a) :
    AGood H R (atimeoutP sel a).1 := by
  unfold atimeoutP
  by_cases c : a.state ≠ .open
  · rw [if_pos c]; exact hg
  · rw [if_neg c]
    have := cancelWhere_good hg (fun h => duep sel h.base) a.state
    have e : ({ cancelWhere a (fun h => duep sel h.base) with state := a.state } : AmpInv) =
        cancelWhere a (fun h => duep sel h.base) := rfl
    rw [e] at this; exact this

theorem atimeoutP_mono {sel : Htlc → Bool} {a : AmpInv} : AMono a (atimeoutP sel a).1 := by
  unfold atimeoutP
  by_cases c : a.state ≠ .open
  · rw [if_pos c]; exact AMono.refl a
  · rw [if_neg c]
    exact cancelWhere_mono a (fun h => duep sel h.base) a.state (CState.le_refl _)

theorem atimeoutP_msgs {sel : Htlc → Bool} {a : AmpInv} {k : Nat} {r : Res}
    (hm : (k, r) ∈ (atimeoutP sel a).2) :
    (∃ ah, r = .fail .mppTimeout ah) ∧
    ∃ h ∈ (atimeoutP sel a).1.htlcs, h.base.key = k ∧ h.base.state = .canceled := by
  unfold atimeoutP at hm ⊢
  by_cases c : a.state ≠ .open
  · rw [if_pos c] at hm; cases hm
  · rw [if_neg c] at hm ⊢
    obtain ⟨h, hh, he⟩ := List.mem_map.mp hm
    obtain ⟨hmem, hd⟩ := List.mem_filter.mp hh
    simp at he
    have hacc : h.base.state = .accepted := duep_accepted hd
    refine ⟨⟨_, he.2.symm⟩, h.withState .canceled, ?_, he.1, rfl⟩
    have : (cancelWhere a (fun h => duep sel h.base)).htlcs = a.htlcs.map
        (fun h => if h.base.state == .accepted && (fun h => duep sel h.base) h
          then h.withState .canceled else h) := rfl
    simp only
    rw [this]
    exact List.mem_map.mpr ⟨h, hmem, by simp [hacc, hd]⟩

theorem timersTx_good {R} {sel : Nat → Htlc → Bool} {reg : Reg} (hg : RegGood H R reg) :
    RegGood H R (timersTx sel reg).reg := by
  unfold timersTx
  simp only
  refine ⟨?_, ?_, ?_, ?_⟩
  · rw [List.map_map, List.map_map]
    have : ∀ i ∈ reg.invs, (((fun x : Invoice => x.hash) ∘ fun x : Invoice × List (Nat × Res) => x.1) ∘
        fun i => itimeoutP (sel i.hash) i) i = (fun x : Invoice => x.hash) i := by
      intro i _
      exact (itimeoutP_terms (sel := sel i.hash) (inv := i)).1.symm
    rw [List.map_congr_left this]; exact hg.nodup
  · intro i hi
    rw [List.map_map] at hi
    obtain ⟨j, hj, rfl⟩ := List.mem_map.mp hi
    exact itimeoutP_good _ (hg.good j hj)
  · rw [List.map_map, List.map_map]
    have : ∀ i ∈ reg.amps, (((fun x : AmpInv => x.hash) ∘ fun x : AmpInv × List (Nat × Res) => x.1) ∘
        fun a => atimeoutP (sel a.hash) a) i = (fun x : AmpInv => x.hash) i := by
      intro i _
      exact (atimeoutP_mono (sel := sel i.hash) (a := i)).1.symm
    rw [List.map_congr_left this]; exact hg.anodup
  · intro i hi
    obtain ⟨j, hj, rfl⟩ := List.mem_map.mp hi
    obtain ⟨k, hk, rfl⟩ := List.mem_map.mp hj
    exact atimeoutP_good (hg.agood k hk)

/-- every invoice is still there, moved forward only. -/
def RegMono (r r' : Reg) : Prop :=
  (∀ i ∈ r.invs, ∃ i' ∈ r'.invs, Mono i i') ∧ (∀ a ∈ r.amps, ∃ a' ∈ r'.amps, AMono a a')

theorem RegMono.refl (r : Reg) : RegMono r r :=
  ⟨fun i hi => ⟨i, hi, Mono.refl i⟩, fun a ha => ⟨a, ha, AMono.refl a⟩⟩

theorem RegMono.trans {a b c : Reg} (h1 : RegMono a b) (h2 : RegMono b c) : RegMono a c := by
  refine ⟨?_, ?_⟩
  · intro i hi
    obtain ⟨i1, m1, x1⟩ := h1.1 i hi
    obtain ⟨i2, m2, x2⟩ := h2.1 i1 m1
    exact ⟨i2, m2, x1.trans x2⟩
  · intro i hi
    obtain ⟨i1, m1, x1⟩ := h1.2 i hi
    obtain ⟨i2, m2, x2⟩ := h2.2 i1 m1
    exact ⟨i2, m2, x1.trans x2⟩

theorem timersTx_mono {sel : Nat → Htlc → Bool} {reg : Reg} : RegMono reg (timersTx sel reg).reg := by
  unfold timersTx
  simp only
  refine ⟨?_, ?_⟩
  · intro i hi
    refine ⟨(itimeoutP (sel i.hash) i).1, ?_, itimeoutP_mono⟩
    rw [List.map_map]
    exact List.mem_map.mpr ⟨i, hi, rfl⟩
  · intro a ha
    refine ⟨(atimeoutP (sel a.hash) a).1, ?_, atimeoutP_mono⟩
    exact List.mem_map.mpr ⟨atimeoutP (sel a.hash) a, List.mem_map.mpr ⟨a, ha, rfl⟩, rfl⟩

theorem timersTx_msgs {sel : Nat → Htlc → Bool} {reg : Reg} {k : Nat} {r : Res}
    (hm : (k, r) ∈ (timersTx sel reg).msgs) :
    (∃ ah, r = .fail .mppTimeout ah) ∧ CanceledIn (timersTx sel reg).reg k := by
  unfold timersTx at hm ⊢
  simp only at hm ⊢
  rcases List.mem_append.mp hm with hin | hin
  · rw [List.mem_flatten] at hin
    obtain ⟨l, hl, hml⟩ := hin
    obtain ⟨x, hx, rfl⟩ := List.mem_map.mp hl
    obtain ⟨i, hi, rfl⟩ := List.mem_map.mp hx
    obtain ⟨hr, g, hg, e1, e2⟩ := itimeoutP_msgs hml
    refine ⟨hr, Or.inl ⟨(itimeoutP (sel i.hash) i).1, ?_, g, hg, e1, e2⟩⟩
    rw [List.map_map]
    exact List.mem_map.mpr ⟨i, hi, rfl⟩
  · rw [List.mem_flatten] at hin
    obtain ⟨l, hl, hml⟩ := hin
    obtain ⟨x, hx, rfl⟩ := List.mem_map.mp hl
    obtain ⟨i, hi, rfl⟩ := List.mem_map.mp hx
    obtain ⟨hr, g, hg, e1, e2⟩ := atimeoutP_msgs hml
    refine ⟨hr, Or.inr ⟨(atimeoutP (sel i.hash) i).1, ?_, g, hg, e1, e2⟩⟩
    exact List.mem_map.mpr ⟨atimeoutP (sel i.hash) i, List.mem_map.mpr ⟨i, hi, rfl⟩, rfl⟩

/-- the atomic model's tick is the clock advance plus the timers whose hold time has passed. -/
theorem tickTx_eq_timers (cfg : Cfg) (reg : Reg) (dt : Nat) :
    tickTx cfg reg dt =
      timersTx (fun _ h => decide (h.acceptTime + cfg.hold ≤ reg.now + dt))
        { reg with now := reg.now + dt } := by
  unfold tickTx timersTx itimeoutP atimeoutP itimeout atimeout duep due
  rfl


/-! ### what a committed transaction guarantees -/

/-- circuit key `k` is recorded settled — on a settled plain invoice whose payment hash is `H p`,
    or as an AMP htlc with recorded preimage `p` hashing to its own payment hash.  Unlike
    `SettledIn` this does not mention the stored invoice preimage, so it is stable (`RecSettled.mono`). -/
def RecSettled (H : Nat → Nat) (reg : Reg) (k p : Nat) : Prop :=
  (∃ inv ∈ reg.invs, inv.state = .settled ∧ H p = inv.hash ∧
    ∃ h ∈ inv.htlcs, h.key = k ∧ h.state = .settled) ∨ ASettledIn H reg k p

theorem recSettled_of {R} {reg : Reg} {k p : Nat} (hg : RegGood H R reg)
    (h : SettledIn reg k p ∨ ASettledIn H reg k p) : RecSettled H reg k p := by
  rcases h with ⟨inv, hm, s1, s2, h, hh, hk, hst⟩ | h
  · obtain ⟨⟨q, hq, hHq⟩, _⟩ := (hg.good inv hm).settledS s1
    rw [s2] at hq; cases hq
    exact Or.inl ⟨inv, hm, s1, hHq, h, hh, hk, hst⟩
  · exact Or.inr h

theorem RecSettled.mono {a b : Reg} {k p : Nat} (hm : RegMono a b) (h : RecSettled H a k p) :
    RecSettled H b k p := by
  rcases h with ⟨inv, hi, s1, s2, h, hh, hk, hst⟩ | ⟨x, hx, h, hh, hk, hst, hp, hH⟩
  · obtain ⟨inv', hi', ht, hs, hhs⟩ := hm.1 inv hi
    obtain ⟨h', hh', e, l⟩ := hhs h hh
    refine Or.inl ⟨inv', hi', ?_, ?_, h', hh', ?_, ?_⟩
    · rw [s1] at hs; exact hs
    · rw [← ht.1]; exact s2
    · rw [e]; exact hk
    · rw [hst] at l; exact l
  · obtain ⟨x', hx', _, _, _, _, _, hhs⟩ := hm.2 x hx
    obtain ⟨h', hh', e, _, e2, _, _, l, lp⟩ := hhs h hh
    refine Or.inr ⟨x', hx', h', hh', ?_, ?_, lp p hst hp, ?_⟩
    · rw [e]; exact hk
    · rw [hst] at l; exact l
    · rw [e2]; exact hH

theorem CanceledIn.mono {a b : Reg} {k : Nat} (hm : RegMono a b) (h : CanceledIn a k) :
    CanceledIn b k := by
  rcases h with ⟨inv, hi, h, hh, hk, hst⟩ | ⟨x, hx, h, hh, hk, hst⟩
  · obtain ⟨inv', hi', _, _, hhs⟩ := hm.1 inv hi
    obtain ⟨h', hh', e, l⟩ := hhs h hh
    refine Or.inl ⟨inv', hi', h', hh', ?_, ?_⟩
    · rw [e]; exact hk
    · rw [hst] at l; exact l
  · obtain ⟨x', hx', _, _, _, _, _, hhs⟩ := hm.2 x hx
    obtain ⟨h', hh', e, _, _, _, _, l, _⟩ := hhs h hh
    refine Or.inr ⟨x', hx', h', hh', ?_, ?_⟩
    · rw [e]; exact hk
    · rw [hst] at l; exact l

theorem RegGood.of_db {R} {a b : Reg} (hi : a.invs = b.invs) (ha : a.amps = b.amps)
    (hg : RegGood H R a) : RegGood H R b :=
  ⟨hi ▸ hg.nodup, hi ▸ hg.good, ha ▸ hg.anodup, ha ▸ hg.agood⟩

theorem RegMono.of_db {a a' b b' : Reg} (h1 : a.invs = a'.invs) (h2 : a.amps = a'.amps)
    (h3 : b.invs = b'.invs) (h4 : b.amps = b'.amps) (hm : RegMono a b) : RegMono a' b' := by
  unfold RegMono at hm ⊢
  rw [← h1, ← h2, ← h3, ← h4]; exact hm

theorem RecSettled.of_db {a b : Reg} {k p : Nat} (hi : a.invs = b.invs) (ha : a.amps = b.amps)
    (h : RecSettled H a k p) : RecSettled H b k p := by
  unfold RecSettled ASettledIn at h ⊢
  rw [← hi, ← ha]; exact h

theorem CanceledIn.of_db {a b : Reg} {k : Nat} (hi : a.invs = b.invs) (ha : a.amps = b.amps)
    (h : CanceledIn a k) : CanceledIn b k := by
  unfold CanceledIn at h ⊢
  rw [← hi, ← ha]; exact h

/-- every settle resolution an atomic step delivers is for an htlc recorded settled. -/
theorem step_msgs_settled {R} {cfg : Cfg} {reg : Reg} {e : Event} (hg : RegGood H R reg)
    (hR : cfg.rejectDelta = R) {k : Nat} {kind : SettleKind} {p : Nat} {ht : Int}
    (hm : (k, Res.settle kind p ht) ∈ (step H P cfg reg e).2.msgs) :
    RecSettled H (step H P cfg reg e).1 k p := by
  have hg' : RegGood H R (step H P cfg reg e).1 := step_good hg hR
  apply recSettled_of hg'
  cases e with
  | addInvoice s =>
    simp only [step] at hm
    cases ha : addInvoice reg s <;> simp [ha] at hm
  | notify ctx =>
    exact (notify_settles (P := P) (cfg := cfg)
      (ctx := { ctx with now := reg.now, rejectDelta := cfg.rejectDelta }) hg hR).2 k kind p ht hm
  | settle q => exact Or.inl (settleHodl_settles k kind p ht hm).1
  | cancel h => exact absurd hm (cancel_no_settle k kind p ht)
  | tick dt => exact absurd hm (tick_no_settle k kind p ht)

/-- a settle resolution returned by NotifyExitHopHtlc. -/
theorem step_reply_settled {R} {cfg : Cfg} {reg : Reg} {ctx : Ctx} (hg : RegGood H R reg)
    (hR : cfg.rejectDelta = R) {kind : SettleKind} {p : Nat} {ht : Int}
    (hm : (step H P cfg reg (.notify ctx)).2.reply = .res (.settle kind p ht)) :
    H p = ctx.hash ∧ RecSettled H (step H P cfg reg (.notify ctx)).1 ctx.key p := by
  have hg' : RegGood H R (step H P cfg reg (.notify ctx)).1 := step_good hg hR
  have := (notify_settles (P := P) (cfg := cfg)
      (ctx := { ctx with now := reg.now, rejectDelta := cfg.rejectDelta }) hg hR).1 kind p ht hm
  exact ⟨this.1, recSettled_of hg' this.2⟩

structure TxOk (H : Nat → Nat) (R : Int) (reg : Reg) (t : Tx) : Prop where
  good : RegGood H R t.reg
  mono : RegMono reg t.reg
  subs : t.reg.subs = reg.subs
  settle : ∀ k kind p ht, (k, Res.settle kind p ht) ∈ t.msgs → RecSettled H t.reg k p
  fail : ∀ k r ah, (k, Res.fail r ah) ∈ t.msgs → CanceledIn t.reg k

theorem txOk_id {R} {reg : Reg} (hg : RegGood H R reg) (r : Reply) :
    TxOk H R reg ⟨reg, r, [], none⟩ :=
  ⟨hg, RegMono.refl _, rfl, (by intro _ _ _ _ h; cases h), (by intro _ _ _ h; cases h)⟩

theorem txOf_subs (cfg : Cfg) (reg : Reg) (e : Event) : (txOf H P cfg reg e).reg.subs = reg.subs := by
  have := txOf_withSubs (H := H) (P := P) cfg reg reg.subs e
  have e0 : reg.withSubs reg.subs = reg := rfl
  rw [e0] at this
  rw [this]; rfl

theorem txOf_ok {R} {cfg : Cfg} {reg : Reg} (e : Event) (hg : RegGood H R reg)
    (hR : cfg.rejectDelta = R) : TxOk H R reg (txOf H P cfg reg e) := by
  obtain ⟨e1, _, e3, e4, _⟩ := txOf_as_step (H := H) (P := P) cfg reg e
  generalize hks : (txOf H P cfg reg e).msgs.map (·.1) = ks at e1 e3 e4
  have hg0 : RegGood H R (reg.withSubs ks) := RegGood.of_db (a := reg) rfl rfl hg
  refine ⟨(step_good hg0 hR).of_db e3 e4, ?_, txOf_subs cfg reg e, ?_, ?_⟩
  · have := step_mono (P := P) (cfg := cfg) (e := e) hg0
    exact RegMono.of_db rfl rfl e3 e4 this
  · intro k kind p ht hm
    rw [← e1] at hm
    exact (step_msgs_settled hg0 hR hm).of_db e3 e4
  · intro k r ah hm
    rw [← e1] at hm
    exact (step_fail_canceled hm).of_db e3 e4

theorem txOf_reply_ok {R} {cfg : Cfg} {reg : Reg} {ctx : Ctx} (hg : RegGood H R reg)
    (hR : cfg.rejectDelta = R) {kind : SettleKind} {p : Nat} {ht : Int}
    (hm : (txOf H P cfg reg (.notify ctx)).reply = .res (.settle kind p ht)) :
    H p = ctx.hash ∧ RecSettled H (txOf H P cfg reg (.notify ctx)).reg ctx.key p := by
  obtain ⟨_, e2, e3, e4, _⟩ := txOf_as_step (H := H) (P := P) cfg reg (.notify ctx)
  generalize hks : (txOf H P cfg reg (.notify ctx)).msgs.map (·.1) = ks at e2 e3 e4
  have hg0 : RegGood H R (reg.withSubs ks) := RegGood.of_db (a := reg) rfl rfl hg
  rw [← e2] at hm
  have := step_reply_settled hg0 hR hm
  exact ⟨this.1, this.2.of_db e3 e4⟩

theorem timersTx_ok {R} {reg : Reg} (sel : Nat → Htlc → Bool) (hg : RegGood H R reg) :
    TxOk H R reg (timersTx sel reg) := by
  refine ⟨timersTx_good hg, timersTx_mono, rfl, ?_, ?_⟩
  · intro k kind p ht hm
    obtain ⟨⟨ah, hr⟩, _⟩ := timersTx_msgs hm
    cases hr
  · intro k r ah hm
    exact (timersTx_msgs hm).2

theorem expireTx_ok {R} {reg : Reg} (cfg : Cfg) (hash : Nat) (force : Bool) (hg : RegGood H R reg)
    (hR : cfg.rejectDelta = R) : TxOk H R reg (expireTx reg hash force) := by
  have hc : TxOk H R reg (cancelTx reg hash) :=
    txOf_ok (P := fun _ _ _ => 0) (cfg := cfg) (.cancel hash) hg hR
  unfold expireTx
  cases findHash reg.invs hash with
  | none => exact hc
  | some inv =>
    simp only
    split
    · exact txOk_id hg _
    · exact hc

theorem coreTx_eq (cfg : Cfg) (reg : Reg) (ctx : Ctx) :
    coreTx H P cfg reg ctx =
      match preSpec H cfg { ctx with now := reg.now, rejectDelta := cfg.rejectDelta } with
      | .error e => ⟨reg, .res (.fail e ctx.height), [], none⟩
      | .ok _ => txOf H P cfg.locked reg (.notify ctx) := by
  unfold coreTx; rfl

theorem coreTx_ok {R} {cfg : Cfg} {reg : Reg} (ctx : Ctx) (hg : RegGood H R reg)
    (hR : cfg.rejectDelta = R) : TxOk H R reg (coreTx H P cfg reg ctx) := by
  rw [coreTx_eq]
  split
  · exact txOk_id hg _
  · exact txOf_ok (cfg := cfg.locked) _ hg hR

theorem coreTx_reply_ok {R} {cfg : Cfg} {reg : Reg} {ctx : Ctx} (hg : RegGood H R reg)
    (hR : cfg.rejectDelta = R) {kind : SettleKind} {p : Nat} {ht : Int}
    (hm : (coreTx H P cfg reg ctx).reply = .res (.settle kind p ht)) :
    H p = ctx.hash ∧ RecSettled H (coreTx H P cfg reg ctx).reg ctx.key p := by
  rw [coreTx_eq] at hm ⊢
  cases hs : preSpec H cfg { ctx with now := reg.now, rejectDelta := cfg.rejectDelta } with
  | error e => simp only [hs] at hm; cases hm
  | ok o =>
    simp only [hs] at hm ⊢
    exact txOf_reply_ok (cfg := cfg.locked) hg hR hm

end LndModel.C15
