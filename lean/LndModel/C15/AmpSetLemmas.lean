/-
C15 — AMP invoices, set level: what is recorded as settled under one set id with one declared
total always sums to at least that total (`ASetPaid`), as an inductive invariant of every event, on
both stores (SQL: nothing is forgotten; kv: `akeep`).  Plus an induction principle for invariants of
the AMP invoices of a registry (`step_amps_ind`, `run_amps_ind`).
-/
import LndModel.C15.RegLemmas

set_option linter.unusedSimpArgs false

namespace LndModel.C15

variable {H : Nat → Nat} {P : List (Nat × Nat) → Nat → Nat → Nat} {drop : Bool}

/-- what `g` contributes to the amount recorded as settled under set id `sid` with declared total
    `T`. -/
def paidPart (sid T : Nat) (g : AHtlc) : Nat :=
  if g.base.state = .settled ∧ g.setID = sid ∧ g.base.mppTotal = T then g.base.amt else 0

/-- the amount recorded as settled under set id `sid` with declared total `T`. -/
def setPaid (l : List AHtlc) (sid T : Nat) : Nat := (l.map (paidPart sid T)).sum

/-- every settled htlc's declared total is covered by the settled htlcs of its set id that declare
    the same total. -/
def ASetPaid (l : List AHtlc) : Prop :=
  ∀ h ∈ l, h.base.state = .settled → h.base.mppTotal ≤ setPaid l h.setID h.base.mppTotal

theorem setPaid_append (l1 l2 : List AHtlc) (sid T : Nat) :
    setPaid (l1 ++ l2) sid T = setPaid l1 sid T + setPaid l2 sid T := by
  unfold setPaid; simp [List.map_append, List.sum_append]

theorem setPaid_map_le (f : AHtlc → AHtlc) (sid T : Nat) (l : List AHtlc)
    (hf : ∀ g ∈ l, paidPart sid T g ≤ paidPart sid T (f g)) :
    setPaid l sid T ≤ setPaid (l.map f) sid T := by
  unfold setPaid
  induction l with
  | nil => simp
  | cons x t ih =>
    simp only [List.map_cons, List.sum_cons]
    have h1 := hf x (by simp)
    have h2 := ih (fun g hg => hf g (by simp [hg]))
    omega

theorem setPaid_map_eq (f : AHtlc → AHtlc) (sid T : Nat) (l : List AHtlc)
    (hf : ∀ g ∈ l, paidPart sid T (f g) = paidPart sid T g) :
    setPaid (l.map f) sid T = setPaid l sid T := by
  unfold setPaid
  rw [List.map_map]
  exact congrArg List.sum (List.map_congr_left (fun g hg => hf g hg))

theorem setPaid_filter_eq (q : AHtlc → Bool) (sid T : Nat) (l : List AHtlc)
    (hq : ∀ g ∈ l, q g = false → paidPart sid T g = 0) :
    setPaid (l.filter q) sid T = setPaid l sid T := by
  unfold setPaid
  induction l with
  | nil => simp
  | cons x t ih =>
    have ih' := ih (fun g hg => hq g (by simp [hg]))
    by_cases c : q x = true
    · simp only [List.filter_cons, c, if_true, List.map_cons, List.sum_cons, ih']
    · have c' : q x = false := by simpa using c
      have := hq x (by simp) c'
      simp only [List.filter_cons, c', Bool.false_eq_true, if_false, List.map_cons, List.sum_cons,
        ih', this]
      omega

/-- the htlcs that `r` selects and `f` turns into settled members of the class `(sid, T)` with
    their amount are counted. -/
theorem setPaid_ge_filter (r : AHtlc → Bool) (f : AHtlc → AHtlc) (sid T : Nat) (l : List AHtlc)
    (hr : ∀ g ∈ l, r g = true → paidPart sid T (f g) = g.base.amt) :
    sumAmt ((l.filter r).map (·.base)) ≤ setPaid (l.map f) sid T := by
  unfold setPaid sumAmt
  induction l with
  | nil => simp
  | cons x t ih =>
    have ih' := ih (fun g hg => hr g (by simp [hg]))
    by_cases c : r x = true
    · have := hr x (by simp) c
      simp only [List.filter_cons, c, if_true, List.map_cons, List.sum_cons, this]
      simp only [List.map_map] at ih' ⊢
      omega
    · have c' : r x = false := by simpa using c
      simp only [List.filter_cons, c', Bool.false_eq_true, if_false, List.map_cons, List.sum_cons]
      simp only [List.map_map] at ih' ⊢
      omega

/-- an update of the htlc states that neither creates nor removes settled htlcs. -/
theorem asetPaid_map_same (f : AHtlc → AHtlc) (l : List AHtlc)
    (hf : ∀ g ∈ l, ((f g).base.state = .settled ↔ g.base.state = .settled) ∧ (f g).setID = g.setID ∧
      (f g).base.mppTotal = g.base.mppTotal ∧ (f g).base.amt = g.base.amt)
    (hp : ASetPaid l) : ASetPaid (l.map f) := by
  intro h' hh' hs'
  obtain ⟨g, hg, rfl⟩ := List.mem_map.mp hh'
  obtain ⟨e1, e2, e3, _⟩ := hf g hg
  have hs : g.base.state = .settled := e1.mp hs'
  have := hp g hg hs
  rw [e2, e3, setPaid_map_eq]
  · exact this
  · intro x hx
    obtain ⟨x1, x2, x3, x4⟩ := hf x hx
    unfold paidPart
    rw [x2, x3, x4]
    by_cases c : x.base.state = .settled
    · have : (f x).base.state = .settled := x1.mpr c
      simp [c, this]
    · have : (f x).base.state ≠ .settled := fun y => c (x1.mp y)
      simp [c, this]

theorem cancelWhere_setPaid (a : AmpInv) (pred : AHtlc → Bool) (hp : ASetPaid a.htlcs) :
    ASetPaid (cancelWhere a pred).htlcs := by
  have : (cancelWhere a pred).htlcs = a.htlcs.map
      (fun h => if h.base.state == .accepted && pred h then h.withState .canceled else h) := rfl
  rw [this]
  refine asetPaid_map_same _ _ ?_ hp
  intro g _
  by_cases c : (g.base.state == .accepted && pred g) = true
  · have hacc : g.base.state = .accepted := by
      simp only [Bool.and_eq_true, beq_iff_eq] at c; exact c.1
    simp only [c, if_true, AHtlc.withState]
    refine ⟨?_, trivial, trivial, trivial⟩
    constructor
    · intro h; cases h
    · intro h; rw [hacc] at h; cases h
  · simp only [c]
    exact ⟨Iff.rfl, rfl, rfl, rfl⟩

theorem akeep_true_mem {ctx : Ctx} {a : AmpInv} {g : AHtlc} (h : g ∈ akeep true ctx a) :
    g ∈ a.htlcs ∧ (g.setID ≠ ctx.setID ∨ g.base.state ≠ .settled) := by
  unfold akeep at h
  simp only [if_true] at h
  obtain ⟨hm, hc⟩ := List.mem_filter.mp h
  refine ⟨hm, ?_⟩
  by_cases c : g.setID = ctx.setID
  · right
    intro hs
    simp [c, hs] at hc
  · left; exact c

/-- the blob rewrite does not touch what is recorded under another set id. -/
theorem setPaid_akeep (ctx : Ctx) (a : AmpInv) {sid : Nat} (T : Nat) (hne : sid ≠ ctx.setID) :
    setPaid (akeep drop ctx a) sid T = setPaid a.htlcs sid T := by
  cases drop with
  | false => rw [akeep_false]
  | true =>
    unfold akeep
    simp only [if_true]
    apply setPaid_filter_eq
    intro g _ hq
    unfold paidPart
    have : g.setID = ctx.setID := by
      by_cases c : g.setID = ctx.setID
      · exact c
      · simp [c] at hq
    rw [if_neg]
    intro ⟨_, h2, _⟩
    exact hne (h2.symm.trans this)

theorem akeep_filter_acc (ctx : Ctx) (a : AmpInv) :
    (akeep drop ctx a).filter (fun g => g.setID == ctx.setID && g.base.state == .accepted) =
      a.htlcs.filter (fun g => g.setID == ctx.setID && g.base.state == .accepted) := by
  cases drop with
  | false => rw [akeep_false]
  | true =>
    unfold akeep
    simp only [if_true]
    rw [List.filter_filter]
    apply List.filter_congr
    intro g _
    by_cases c1 : g.setID = ctx.setID <;> by_cases c2 : g.base.state = .accepted <;> simp [c1, c2]

theorem aacc_eq_filter {ctx : Ctx} (a : AmpInv) (hamp : ctx.amp = true) :
    aacc ctx a = a.htlcs.filter (fun g => g.setID == ctx.setID && g.base.state == .accepted) := by
  unfold aacc aview
  rw [if_pos hamp, List.filter_filter]
  apply List.filter_congr
  intro g _
  exact Bool.and_comm _ _

theorem paidPart_settleOne_le (ctx : Ctx) (descs : List (Nat × Nat)) (sid T : Nat) (g : AHtlc) :
    paidPart sid T g ≤ paidPart sid T (settleOne P ctx descs g) := by
  unfold settleOne
  by_cases c : (g.setID == ctx.setID && g.base.state == .accepted) = true
  · have hacc : g.base.state = .accepted := by
      simp only [Bool.and_eq_true, beq_iff_eq] at c; exact c.2
    have : paidPart sid T g = 0 := by unfold paidPart; simp [hacc]
    omega
  · simp only [c]; exact Nat.le_refl _

theorem paidPart_settleOne_other (ctx : Ctx) (descs : List (Nat × Nat)) {sid : Nat} (T : Nat)
    (hne : sid ≠ ctx.setID) (g : AHtlc) :
    paidPart sid T (settleOne P ctx descs g) = paidPart sid T g := by
  unfold settleOne
  by_cases c : (g.setID == ctx.setID && g.base.state == .accepted) = true
  · have hs : g.setID = ctx.setID := by
      simp only [Bool.and_eq_true, beq_iff_eq] at c; exact c.1
    simp only [c, if_true]
    unfold paidPart
    have n1 : ¬ (g.setID = sid) := fun x => hne (x.symm.trans hs)
    simp [AHtlc.withState, n1]
  · simp [c]

/-- **the AMP notify path keeps `ASetPaid`** (both stores). -/
theorem anotify_setPaid {ctx : Ctx} {a : AmpInv} (hp : ASetPaid a.htlcs) :
    ASetPaid (anotify H P drop ctx a).1.htlcs := by
  have sh := anotify_shape (H := H) (P := P) (drop := drop) ctx a
  generalize (anotify H P drop ctx a).1 = a' at sh ⊢
  generalize (anotify H P drop ctx a).2.1 = r at sh
  generalize (anotify H P drop ctx a).2.2 = msgs at sh
  cases sh with
  | same => exact hp
  | replaySettled => exact hp
  | reconFail total addr f hns => exact cancelWhere_setPaid a _ hp
  | partialAdd total addr f hns hlt =>
    intro h' hh' hs'
    simp only at hh'
    rcases List.mem_append.mp hh' with hk | hn
    · have hm := akeep_sub hk
      have hne : h'.setID ≠ ctx.setID := by
        intro e
        apply hns h' _ hs'
        unfold aview
        rw [if_pos f.amp]
        exact List.mem_filter.mpr ⟨hm, by simp [e]⟩
      simp only
      rw [setPaid_append, setPaid_akeep ctx a _ hne]
      have := hp h' hm hs'
      omega
    · simp at hn; subst hn
      simp [mkAHtlc, mkHtlc] at hs'
  | settled total addr f hge h0 hall =>
    intro h' hh' hs'
    simp only at hh' ⊢
    obtain ⟨g, hg, rfl⟩ := List.mem_map.mp hh'
    -- the class (ctx.setID, total) after the update covers the accepted set and the new htlc
    have hclass : total ≤ setPaid ((akeep drop ctx a ++ [mkAHtlc ctx total (decide (addr = a.payAddr))]).map
        (settleOne P ctx (adescs ctx (aacc ctx a)))) ctx.setID total := by
      rw [List.map_append, setPaid_append]
      have h1 : sumAmt ((aacc ctx a).map (·.base)) ≤
          setPaid ((akeep drop ctx a).map (settleOne P ctx (adescs ctx (aacc ctx a)))) ctx.setID total := by
        rw [aacc_eq_filter a f.amp, ← akeep_filter_acc (drop := drop) ctx a]
        apply setPaid_ge_filter
        intro x hx hr
        have hxa : x ∈ aacc ctx a := by
          rw [aacc_eq_filter a f.amp]
          exact List.mem_filter.mpr ⟨akeep_sub hx, hr⟩
        have ht := f.same x hxa
        simp only [Bool.and_eq_true, beq_iff_eq] at hr
        unfold settleOne paidPart
        simp [hr.1, hr.2, AHtlc.withState, ht]
      have h2 : setPaid ([mkAHtlc ctx total (decide (addr = a.payAddr))].map
          (settleOne P ctx (adescs ctx (aacc ctx a)))) ctx.setID total = ctx.amt := by
        unfold setPaid settleOne paidPart
        simp [mkAHtlc, mkHtlc, AHtlc.withState]
      omega
    by_cases c : (g.setID == ctx.setID && g.base.state == .accepted) = true
    · -- settled by this update: its class is (ctx.setID, total)
      have cs : g.setID = ctx.setID ∧ g.base.state = .accepted := by
        simpa only [Bool.and_eq_true, beq_iff_eq] using c
      have ht : g.base.mppTotal = total := by
        rcases List.mem_append.mp hg with hk | hn
        · exact f.same g ((mem_aacc f.amp).mpr ⟨akeep_sub hk, cs.1, cs.2⟩)
        · simp at hn; subst hn; simp [mkAHtlc, mkHtlc]
      have e1 : (settleOne P ctx (adescs ctx (aacc ctx a)) g).setID = ctx.setID := by
        unfold settleOne; simp only [c, if_true, AHtlc.withState]; exact cs.1
      have e2 : (settleOne P ctx (adescs ctx (aacc ctx a)) g).base.mppTotal = total := by
        unfold settleOne; simp only [c, if_true, AHtlc.withState]; exact ht
      rw [e1, e2]; exact hclass
    · -- untouched by the update: it was settled before
      have eg : settleOne P ctx (adescs ctx (aacc ctx a)) g = g := by
        unfold settleOne; simp only [c]; rfl
      rw [eg] at hs' ⊢
      have hk : g ∈ akeep drop ctx a := by
        rcases List.mem_append.mp hg with hk | hn
        · exact hk
        · simp at hn; subst hn; simp [mkAHtlc, mkHtlc] at hs'
      have hm := akeep_sub hk
      have hold := hp g hm hs'
      by_cases cne : g.setID = ctx.setID
      · -- same set id: only possible when nothing is forgotten
        cases drop with
        | true =>
          rcases (akeep_true_mem hk).2 with x | x
          · exact absurd cne x
          · exact absurd hs' x
        | false =>
          rw [akeep_false, List.map_append, setPaid_append]
          have := setPaid_map_le (settleOne P ctx (adescs ctx (aacc ctx a))) g.setID g.base.mppTotal
            a.htlcs (fun x _ => paidPart_settleOne_le ctx _ _ _ x)
          omega
      · rw [List.map_append, setPaid_append]
        have e := setPaid_map_eq (settleOne P ctx (adescs ctx (aacc ctx a))) g.setID g.base.mppTotal
          (akeep drop ctx a) (fun x _ => paidPart_settleOne_other ctx _ _ cne x)
        rw [e, setPaid_akeep ctx a _ cne]
        omega

theorem acancel_setPaid {a : AmpInv} (hp : ASetPaid a.htlcs) : ASetPaid (acancel a).1.htlcs := by
  unfold acancel
  cases hs : a.state with
  | canceled => exact hp
  | «open» =>
    simp only
    by_cases c : a.htlcs.any (fun h => h.base.state == .settled) = true
    · rw [if_pos c]; exact hp
    · rw [if_neg c]; exact cancelWhere_setPaid a _ hp
  | accepted => exact hp
  | settled => exact hp

theorem atimeout_setPaid {hold now : Nat} {a : AmpInv} (hp : ASetPaid a.htlcs) :
    ASetPaid (atimeout hold now a).1.htlcs := by
  unfold atimeout
  by_cases c : a.state ≠ .open
  · rw [if_pos c]; exact hp
  · rw [if_neg c]; exact cancelWhere_setPaid a _ hp

/-! ### invariants of the AMP invoices of a registry -/

theorem addInvoice_amps {reg reg' : Reg} {s : InvSpec} (ha : addInvoice reg s = some reg') :
    ∀ a ∈ reg'.amps, a ∈ reg.amps ∨ a.htlcs = [] := by
  unfold addInvoice at ha
  by_cases c1 : (kHash reg.keys s.hash).isSome = true
  · simp [c1] at ha
  rw [if_neg c1] at ha
  by_cases c2 : (kAddr reg.keys s.payAddr).isSome = true
  · simp [c2] at ha
  rw [if_neg c2] at ha
  by_cases c3 : s.ampReq = true
  · rw [if_pos c3] at ha; cases ha
    intro a hm
    rcases List.mem_append.mp hm with hm | hm
    · exact Or.inl hm
    · simp at hm; subst hm; right; rfl
  · rw [if_neg c3] at ha; cases ha
    intro a hm; exact Or.inl hm

/-- **induction principle for the AMP invoices of a registry**: a predicate that holds for an AMP
    invoice without htlcs and is kept by the AMP notify path, CancelInvoice and the hold timers
    is kept by every event. -/
theorem step_amps_ind (Q : AmpInv → Prop) (h0 : ∀ a, a.htlcs = [] → Q a)
    (hn : ∀ d ctx a, Q a → Q (anotify H P d ctx a).1) (hc : ∀ a, Q a → Q (acancel a).1)
    (ht : ∀ hold now a, Q a → Q (atimeout hold now a).1)
    {cfg : Cfg} {reg : Reg} {e : Event} (hq : ∀ a ∈ reg.amps, Q a) :
    ∀ a ∈ (step H P cfg reg e).1.amps, Q a := by
  cases e with
  | addInvoice s =>
    simp only [step]
    cases ha : addInvoice reg s with
    | none => exact hq
    | some reg' =>
      intro a hm
      rcases addInvoice_amps ha a hm with h | h
      · exact hq a h
      · exact h0 a h
  | notify ctx0 =>
    simp only [step]
    generalize ({ ctx0 with now := reg.now, rejectDelta := cfg.rejectDelta } : Ctx) = ctx
    unfold notify
    cases hpre : preprocess H cfg reg ctx with
    | error e => exact hq
    | ok reg1 =>
      have hq1 : ∀ a ∈ reg1.amps, Q a := by
        rcases preprocess_spec hpre with rfl | ⟨s, ha⟩
        · exact hq
        · intro a hm
          rcases addInvoice_amps ha a hm with h | h
          · exact hq a h
          · exact h0 a h
      simp only
      cases hl : lookup cfg reg1.keys ctx.hash (refAddr ctx) (ctx.amp && ctx.pathID.isNone) with
      | none => exact hq1
      | some h =>
        simp only
        cases hf : findHash reg1.invs h with
        | some inv => exact hq1
        | none =>
          simp only
          cases hfa : findAmp reg1.amps h with
          | none => exact hq1
          | some a =>
            simp only
            split
            · exact hq1
            · intro b hb
              rcases mem_setAmp hb with rfl | hb
              · exact hn _ _ _ (hq1 a (findAmp_some hfa).1)
              · exact hq1 b hb
  | settle p =>
    simp only [step]
    unfold settleHodl
    cases hf : findHash reg.invs (H p) with
    | some inv => exact hq
    | none =>
      simp only
      cases hfa : findAmp reg.amps (H p) <;> exact hq
  | cancel h =>
    simp only [step]
    unfold cancel
    cases hf : findHash reg.invs h with
    | some inv => exact hq
    | none =>
      simp only
      cases hfa : findAmp reg.amps h with
      | none => exact hq
      | some a =>
        intro b hb
        rcases mem_setAmp hb with rfl | hb
        · exact hc _ (hq a (findAmp_some hfa).1)
        · exact hq b hb
  | tick dt =>
    simp only [step]
    unfold tick
    simp only
    intro b hb
    rw [List.map_map] at hb
    obtain ⟨a, ha, rfl⟩ := List.mem_map.mp hb
    exact ht _ _ _ (hq a ha)

theorem run_amps_ind (Q : AmpInv → Prop) (h0 : ∀ a, a.htlcs = [] → Q a)
    (hn : ∀ d ctx a, Q a → Q (anotify H P d ctx a).1) (hc : ∀ a, Q a → Q (acancel a).1)
    (ht : ∀ hold now a, Q a → Q (atimeout hold now a).1)
    (cfg : Cfg) (evs : List Event) (reg : Reg) (hq : ∀ a ∈ reg.amps, Q a) :
    ∀ a ∈ (run H P cfg reg evs).amps, Q a := by
  induction evs generalizing reg with
  | nil => exact hq
  | cons e es ih =>
    exact ih _ (step_amps_ind (H := H) (P := P) Q h0 hn hc ht hq)

/-- in every reachable registry every AMP invoice satisfies `ASetPaid`. -/
theorem reachable_setPaid (H : Nat → Nat) (P : List (Nat × Nat) → Nat → Nat → Nat) (cfg : Cfg)
    (evs : List Event) : ∀ a ∈ (run H P cfg Reg.empty evs).amps, ASetPaid a.htlcs := by
  apply run_amps_ind (H := H) (P := P) (fun a => ASetPaid a.htlcs)
  · intro a h; rw [h]; intro g hg; cases hg
  · intro d ctx a hp; exact anotify_setPaid hp
  · intro a hp; exact acancel_setPaid hp
  · intro hold now a hp; exact atimeout_setPaid hp
  · intro a ha; simp [Reg.empty] at ha

end LndModel.C15
