/-
C15 — replay: "an accept answer means the htlc is recorded accepted", the registry-level replay
verdict, and the invoice-ref lookup of a replayed call (kv and SQL rule).
-/
import LndModel.C15.RegLemmas

set_option linter.unusedSimpArgs false

namespace LndModel.C15

variable {H : Nat → Nat} {P : List (Nat × Nat) → Nat → Nat → Nat}

theorem updateMpp_accept {ctx : Ctx} {total addr : Nat} {inv : Invoice} {u : Upd} {k : AcceptKind}
    (hu : updateMpp ctx total addr inv = (u, .accept k)) :
    ∃ h ns, u = .add h ns ∧ ns ≠ some .settled := by
  by_cases c1 : (inv.ampReq && !ctx.amp) = true
  · simp [updateMpp, c1] at hu
  by_cases c2 : (!inv.ampReq && ctx.amp) = true
  · simp [updateMpp, c1, c2] at hu
  by_cases c3 : inv.state ≠ .open
  · simp [updateMpp, c1, c2, c3] at hu
  by_cases c4 : addr ≠ inv.payAddr
  · simp [updateMpp, c1, c2, c3, c4] at hu
  by_cases c5 : total = 0
  · simp [updateMpp, c1, c2, c3, c4, c5] at hu
  by_cases c6 : total < inv.value
  · simp [updateMpp, c1, c2, c3, c4, c5, c6] at hu
  by_cases c7 : ∃ x, x ∈ acceptedHtlcs inv ∧ ¬x.mppTotal = total
  · simp [updateMpp, c1, c2, c3, c4, c5, c6, c7] at hu
  by_cases c8 : expiryTooSoon ctx.expiry ctx.height ctx.rejectDelta = true
  · simp [updateMpp, c1, c2, c3, c4, c5, c6, c7, c8] at hu
  by_cases c9 : expiryTooSoon ctx.expiry ctx.height inv.finalCltv = true
  · simp [updateMpp, c1, c2, c3, c4, c5, c6, c7, c8, c9] at hu
  simp [updateMpp, c1, c2, c3, c4, c5, c6, c7, c8, c9] at hu
  by_cases d1 : sumAmt (acceptedHtlcs inv) + ctx.amt < total
  · simp [d1] at hu; exact ⟨_, _, hu.1.symm, by simp⟩
  · simp [d1] at hu
    by_cases d2 : inv.hodl = true
    · simp [d2] at hu; exact ⟨_, _, hu.1.symm, by simp⟩
    · simp [d2] at hu
      cases hp : inv.preimage <;> simp [hp] at hu

theorem updateLegacy_accept {ctx : Ctx} {inv : Invoice} {u : Upd} {k : AcceptKind}
    (hu : updateLegacy H ctx inv = (u, .accept k)) :
    ∃ h ns, u = .add h ns ∧ ns ≠ some .settled ∧ (ns = none → inv.state = .accepted) := by
  by_cases c1 : inv.ampReq = true
  · simp [updateLegacy, c1] at hu
  by_cases c2 : inv.state = .canceled
  · simp [updateLegacy, c1, c2] at hu
  by_cases c3 : ctx.amt < inv.value
  · simp [updateLegacy, c1, c2, c3] at hu
  by_cases c4 : (!validKeysend H ctx && inv.payAddrReq) = true
  · simp [updateLegacy, c1, c2, c3, c4] at hu
  by_cases c5 : ∃ x, x ∈ acceptedHtlcs inv ∧ 0 < x.mppTotal
  · simp [updateLegacy, c1, c2, c3, c4, c5] at hu
  by_cases c8 : expiryTooSoon ctx.expiry ctx.height ctx.rejectDelta = true
  · simp [updateLegacy, c1, c2, c3, c4, c5, c8] at hu
  by_cases c9 : expiryTooSoon ctx.expiry ctx.height inv.finalCltv = true
  · simp [updateLegacy, c1, c2, c3, c4, c5, c8, c9] at hu
  simp [updateLegacy, c1, c2, c3, c4, c5, c8, c9] at hu
  cases hs : inv.state with
  | canceled => exact absurd hs c2
  | accepted => simp [hs] at hu; exact ⟨_, _, hu.1.symm, by simp, fun _ => rfl⟩
  | settled =>
    simp [hs] at hu
    cases hp : inv.preimage <;> simp [hp] at hu
  | «open» =>
    simp [hs] at hu
    by_cases d2 : inv.hodl = true
    · simp [d2] at hu; exact ⟨_, _, hu.1.symm, by simp, by simp⟩
    · simp [d2] at hu
      cases hp : inv.preimage <;> simp [hp] at hu

theorem alignHtlcs_keep {inv inv' : Invoice} (hs : inv.state = .open ∨ inv.state = .accepted)
    (ha : alignHtlcs inv = some inv') : inv'.htlcs = inv.htlcs := by
  unfold alignHtlcs at ha
  rcases hs with hs | hs
  · simp [hs] at ha; obtain ⟨_, rfl⟩ := ha; rfl
  · simp [hs] at ha; obtain ⟨_, rfl⟩ := ha; rfl

/-- **accept answer ⇒ recorded accepted**: when the notify path answers `accept` (held htlc: partial
    set, hold invoice, duplicate to an accepted invoice, or replay of an accepted htlc), the
    circuit key of the call is on the invoice in state accepted afterwards. -/
theorem inotify_accept {R} {inv inv' : Invoice} {ctx : Ctx} {k : AcceptKind}
    (hg : Good H R inv) (hn : inotify H ctx inv = (inv', .accept k)) :
    ∃ h ∈ inv'.htlcs, h.key = ctx.key ∧ h.state = .accepted := by
  unfold inotify at hn
  cases hr : replay H ctx inv with
  | some r =>
    simp [hr] at hn
    obtain ⟨rfl, rfl⟩ := hn
    unfold replay at hr
    cases hf : findHtlc inv ctx.key with
    | none => simp [hf] at hr
    | some g =>
      simp [hf] at hr
      obtain ⟨gm, gk⟩ := findHtlc_some hf
      cases hs : g.state with
      | accepted => exact ⟨g, gm, gk, hs⟩
      | canceled => simp [hs] at hr
      | settled =>
        simp [hs] at hr
        cases hp : inv.preimage with
        | none => simp [hp] at hr
        | some q => simp [hp] at hr; split at hr <;> cases hr
  | none =>
    simp only [hr] at hn
    have hfresh := replay_none hr
    cases hu : updateInvoice H ctx inv with
    | mk u r =>
      rw [hu] at hn
      -- the update descriptor of an accept answer
      have hadd : r = .accept k → ∃ h ns, u = .add h ns ∧ h = { h with key := ctx.key, state := .accepted } ∧
          (ns = none → inv.state = .open ∨ inv.state = .accepted) ∧ ns ≠ some .settled := by
        intro hrk
        subst hrk
        unfold updateInvoice at hu
        by_cases c : (ctx.amp && ctx.mpp.isNone) = true
        · simp [c] at hu
        · rw [if_neg c] at hu
          cases hm : effMpp ctx with
          | none =>
            rw [hm] at hu; simp only at hu
            obtain ⟨h, ns, rfl, hns, hst⟩ := updateLegacy_accept hu
            obtain ⟨_, _, _, _, _, _, _, hh, _⟩ := updateLegacy_add hu
            exact ⟨h, ns, rfl, by rw [hh]; rfl, fun x => Or.inr (hst x), hns⟩
          | some ta =>
            obtain ⟨t, a⟩ := ta
            rw [hm] at hu; simp only at hu
            obtain ⟨h, ns, rfl, hns⟩ := updateMpp_accept hu
            obtain ⟨_, ho, _, _, _, _, _, _, hh, _⟩ := updateMpp_add hu
            exact ⟨h, ns, rfl, by rw [hh]; rfl, fun _ => Or.inl ho, hns⟩
      cases u with
      | none =>
        simp only at hn
        obtain ⟨rfl, rfl⟩ := Prod.mk.inj hn
        obtain ⟨h, ns, hc, _⟩ := hadd rfl
        cases hc
      | add h ns =>
        simp only at hn
        cases ha : applyAdd H inv h ns with
        | none => rw [ha] at hn; simp at hn
        | some inv2 =>
          rw [ha] at hn; simp only at hn
          obtain ⟨rfl, rfl⟩ := Prod.mk.inj hn
          obtain ⟨h', ns', hc, hh, hst, hns⟩ := hadd rfl
          cases hc
          -- the new list is the old list plus the new htlc, untouched
          have hk : h.key = ctx.key := by rw [hh]
          have hacc : h.state = .accepted := by rw [hh]
          unfold applyAdd at ha
          rw [hk, hfresh] at ha
          simp only [Option.isSome_none, Bool.false_eq_true, if_false] at ha
          cases ns with
          | none =>
            simp only at ha
            have := alignHtlcs_keep (inv := { inv with htlcs := inv.htlcs ++ [h] }) (hst rfl) ha
            exact ⟨h, by rw [this]; simp, hk, hacc⟩
          | some s =>
            simp only at ha
            cases hus : updatedInvoiceState H { inv with htlcs := inv.htlcs ++ [h] } s inv.preimage with
            | none => simp [hus] at ha
            | some s' =>
              simp only [hus] at ha
              obtain ⟨rfl, _, _⟩ := updatedInvoiceState_some hus
              have hne := updatedInvoiceState_ne_open hus
              have hs' : s' = .accepted ∨ s' = .canceled := by
                cases s' with
                | «open» => exact absurd rfl hne
                | accepted => exact Or.inl rfl
                | canceled => exact Or.inr rfl
                | settled => exact absurd rfl hns
              rcases hs' with rfl | rfl
              · have := alignHtlcs_keep (Or.inr rfl) ha
                exact ⟨h, by rw [this]; simp, hk, hacc⟩
              · -- a notify never asks for state canceled together with an accept answer
                exfalso
                have hg' : Good H R inv := hg
                unfold updateInvoice at hu
                by_cases c : (ctx.amp && ctx.mpp.isNone) = true
                · simp [c] at hu
                · rw [if_neg c] at hu
                  cases hm : effMpp ctx with
                  | none =>
                    rw [hm] at hu; simp only at hu
                    obtain ⟨_, _, _, _, _, _, _, _, hcase⟩ := updateLegacy_add hu
                    rcases hcase with ⟨_, hx, _⟩ | ⟨_, _, hx, _⟩ | ⟨_, hx, _⟩ | ⟨_, _, hx, _⟩ <;> cases hx
                  | some ta =>
                    obtain ⟨t, a⟩ := ta
                    rw [hm] at hu; simp only at hu
                    obtain ⟨_, _, _, _, _, _, _, _, _, hcase⟩ := updateMpp_add hu
                    rcases hcase with ⟨hx, _⟩ | ⟨hx, _⟩ | ⟨_, hx, _⟩ <;> cases hx

/-! ### the indices: hashes and (non-blank) payment addresses identify invoices -/

def ikey (i : Invoice) : Nat × Nat := (i.hash, i.payAddr)
def akey (a : AmpInv) : Nat × Nat := (a.hash, a.payAddr)

theorem mem_keys {reg : Reg} {x : Nat × Nat} :
    x ∈ reg.keys ↔ (∃ i ∈ reg.invs, x = ikey i) ∨ (∃ a ∈ reg.amps, x = akey a) := by
  unfold Reg.keys ikey akey
  simp only [List.mem_append, List.mem_map]
  constructor
  · rintro (⟨i, hi, rfl⟩ | ⟨a, ha, rfl⟩)
    · exact Or.inl ⟨i, hi, rfl⟩
    · exact Or.inr ⟨a, ha, rfl⟩
  · rintro (⟨i, hi, rfl⟩ | ⟨a, ha, rfl⟩)
    · exact Or.inl ⟨i, hi, rfl⟩
    · exact Or.inr ⟨a, ha, rfl⟩

/-- the hash index and the payment-address index are injective. -/
structure KeysOk (reg : Reg) : Prop where
  hashes : ∀ x ∈ reg.keys, ∀ y ∈ reg.keys, x.1 = y.1 → x = y
  addrs : ∀ x ∈ reg.keys, ∀ y ∈ reg.keys, x.2 = y.2 → x.2 ≠ 0 → x = y

theorem KeysOk.of_same {reg reg' : Reg} (hk : KeysOk reg) (h : ∀ x, x ∈ reg'.keys ↔ x ∈ reg.keys) :
    KeysOk reg' :=
  ⟨fun x hx y hy => hk.hashes x ((h x).mp hx) y ((h y).mp hy),
   fun x hx y hy => hk.addrs x ((h x).mp hx) y ((h y).mp hy)⟩

theorem kAddr_none {ks : List (Nat × Nat)} {a : Nat} (hf : kAddr ks a = none) (ha : a ≠ 0) :
    ∀ k ∈ ks, k.2 ≠ a := by
  intro k hk he
  unfold kAddr at hf
  rw [if_neg ha, List.find?_eq_none] at hf
  have := hf k hk
  simp [he] at this

theorem addInvoice_keys {reg reg' : Reg} {s : InvSpec} (ha : addInvoice reg s = some reg') :
    kHash reg.keys s.hash = none ∧ kAddr reg.keys s.payAddr = none ∧
    ∀ x, x ∈ reg'.keys ↔ x ∈ reg.keys ∨ x = (s.hash, s.payAddr) := by
  unfold addInvoice at ha
  by_cases c1 : (kHash reg.keys s.hash).isSome = true
  · simp [c1] at ha
  rw [if_neg c1] at ha
  by_cases c2 : (kAddr reg.keys s.payAddr).isSome = true
  · simp [c2] at ha
  rw [if_neg c2] at ha
  have h1 : kHash reg.keys s.hash = none := by
    cases hf : kHash reg.keys s.hash with
    | none => rfl
    | some _ => simp [hf] at c1
  have h2 : kAddr reg.keys s.payAddr = none := by
    cases hf : kAddr reg.keys s.payAddr with
    | none => rfl
    | some _ => simp [hf] at c2
  refine ⟨h1, h2, ?_⟩
  by_cases c3 : s.ampReq = true
  · rw [if_pos c3] at ha; cases ha
    intro x
    unfold Reg.keys
    simp [InvSpec.toAmp, or_assoc]
  · rw [if_neg c3] at ha; cases ha
    intro x
    rw [mem_keys, mem_keys]
    constructor
    · rintro (⟨i, hi, rfl⟩ | h)
      · rcases List.mem_append.mp hi with hi | hi
        · exact Or.inl (Or.inl ⟨i, hi, rfl⟩)
        · simp at hi; subst hi; exact Or.inr rfl
      · exact Or.inl (Or.inr h)
    · rintro ((⟨i, hi, rfl⟩ | h) | rfl)
      · exact Or.inl ⟨i, List.mem_append.mpr (Or.inl hi), rfl⟩
      · exact Or.inr h
      · exact Or.inl ⟨s.toInvoice, by simp, rfl⟩

theorem addInvoice_keysOk {reg reg' : Reg} {s : InvSpec} (hk : KeysOk reg)
    (ha : addInvoice reg s = some reg') : KeysOk reg' := by
  obtain ⟨h1, h2, hm⟩ := addInvoice_keys ha
  have f1 := kHash_none h1
  refine ⟨?_, ?_⟩
  · intro x hx y hy he
    rcases (hm x).mp hx with hx | rfl <;> rcases (hm y).mp hy with hy | rfl
    · exact hk.hashes x hx y hy he
    · exact absurd he (f1 x hx)
    · exact absurd he.symm (f1 y hy)
    · rfl
  · intro x hx y hy he hne
    rcases (hm x).mp hx with hx | rfl <;> rcases (hm y).mp hy with hy | rfl
    · exact hk.addrs x hx y hy he hne
    · have hs : s.payAddr ≠ 0 := by simp at he; rw [← he]; exact hne
      exact absurd he (kAddr_none h2 hs x hx)
    · have hs : s.payAddr ≠ 0 := by simpa using hne
      exact absurd he.symm (kAddr_none h2 hs y hy)
    · rfl

theorem setInv_keys {R} {reg : Reg} (hg : RegGood H R reg) {inv inv' : Invoice} (hm : inv ∈ reg.invs)
    (hh : inv.hash = inv'.hash) (ha : inv.payAddr = inv'.payAddr) (subs : List Nat) :
    ∀ x, x ∈ ({ reg with invs := setInv reg.invs inv', subs := subs } : Reg).keys ↔ x ∈ reg.keys := by
  intro x
  rw [mem_keys, mem_keys]
  have hk : ikey inv' = ikey inv := by unfold ikey; rw [hh, ha]
  constructor
  · rintro (⟨i, hi, rfl⟩ | h)
    · rcases mem_setInv hi with rfl | hi
      · exact Or.inl ⟨inv, hm, hk⟩
      · exact Or.inl ⟨i, hi, rfl⟩
    · exact Or.inr h
  · rintro (⟨i, hi, rfl⟩ | h)
    · by_cases c : i.hash = inv'.hash
      · have : i = inv := hash_inj hg.nodup hi hm (c.trans hh.symm)
        subst this
        exact Or.inl ⟨inv', setInv_self hm hh, hk.symm⟩
      · refine Or.inl ⟨i, ?_, rfl⟩
        unfold setInv
        exact List.mem_map.mpr ⟨i, hi, by simp [c]⟩
    · exact Or.inr h

theorem setAmp_keys {R} {reg : Reg} (hg : RegGood H R reg) {a a' : AmpInv} (hm : a ∈ reg.amps)
    (hh : a.hash = a'.hash) (ha : a.payAddr = a'.payAddr) (subs : List Nat) :
    ∀ x, x ∈ ({ reg with amps := setAmp reg.amps a', subs := subs } : Reg).keys ↔ x ∈ reg.keys := by
  intro x
  rw [mem_keys, mem_keys]
  have hk : akey a' = akey a := by unfold akey; rw [hh, ha]
  constructor
  · rintro (h | ⟨i, hi, rfl⟩)
    · exact Or.inl h
    · rcases mem_setAmp hi with rfl | hi
      · exact Or.inr ⟨a, hm, hk⟩
      · exact Or.inr ⟨i, hi, rfl⟩
  · rintro (h | ⟨i, hi, rfl⟩)
    · exact Or.inl h
    · by_cases c : i.hash = a'.hash
      · have : i = a := ahash_inj hg.anodup hi hm (c.trans hh.symm)
        subst this
        exact Or.inr ⟨a', setAmp_self hm hh, hk.symm⟩
      · refine Or.inr ⟨i, ?_, rfl⟩
        unfold setAmp
        exact List.mem_map.mpr ⟨i, hi, by simp [c]⟩

theorem preprocess_keysOk {cfg : Cfg} {reg reg' : Reg} {ctx : Ctx} (hk : KeysOk reg)
    (hp : preprocess H cfg reg ctx = .ok reg') : KeysOk reg' := by
  rcases preprocess_spec hp with rfl | ⟨s, ha⟩
  · exact hk
  · exact addInvoice_keysOk hk ha

/-- every event keeps the two indices injective. -/
theorem step_keysOk {R} {cfg : Cfg} {reg : Reg} {e : Event} (hg : RegGood H R reg) (hk : KeysOk reg) :
    KeysOk (step H P cfg reg e).1 := by
  cases e with
  | addInvoice s =>
    simp only [step]
    cases ha : addInvoice reg s with
    | none => exact hk
    | some reg' => exact addInvoice_keysOk hk ha
  | notify ctx0 =>
    simp only [step]
    generalize ({ ctx0 with now := reg.now, rejectDelta := cfg.rejectDelta } : Ctx) = ctx
    unfold notify
    cases hpre : preprocess H cfg reg ctx with
    | error e => exact hk
    | ok reg1 =>
      have hg1 : RegGood H R reg1 := preprocess_good hg hpre
      have hk1 := preprocess_keysOk hk hpre
      simp only
      cases hl : lookup cfg reg1.keys ctx.hash (refAddr ctx) (ctx.amp && ctx.pathID.isNone) with
      | none => exact hk1
      | some h =>
        simp only
        cases hf : findHash reg1.invs h with
        | some inv =>
          simp only
          have ht := inotify_terms (H := H) (ctx := ctx) (inv := inv)
          exact hk1.of_same (setInv_keys hg1 (findHash_some hf).1 ht.1 ht.2.2.1 _)
        | none =>
          simp only
          cases hfa : findAmp reg1.amps h with
          | none => exact hk1
          | some a =>
            simp only
            split
            · exact hk1
            · have hm := anotify_monoD (H := H) (P := P) (drop := false) (ctx := ctx) (a := a)
              exact hk1.of_same (setAmp_keys hg1 (findAmp_some hfa).1 hm.1 hm.2.2.1 _)
  | settle p =>
    simp only [step]
    unfold settleHodl
    cases hf : findHash reg.invs (H p) with
    | some inv =>
      have ht := isettle_terms (H := H) (p := p) (inv := inv)
      exact hk.of_same (setInv_keys hg (findHash_some hf).1 ht.1 ht.2.2.1 _)
    | none =>
      simp only
      cases hfa : findAmp reg.amps (H p) <;> exact hk
  | cancel h =>
    simp only [step]
    unfold cancel
    cases hf : findHash reg.invs h with
    | some inv =>
      have ht := icancel_terms (inv := inv)
      exact hk.of_same (setInv_keys hg (findHash_some hf).1 ht.1 ht.2.2.1 _)
    | none =>
      simp only
      cases hfa : findAmp reg.amps h with
      | none => exact hk
      | some a =>
        have hm := acancel_mono (a := a)
        exact hk.of_same (setAmp_keys hg (findAmp_some hfa).1 hm.1 hm.2.2.1 _)
  | tick dt =>
    simp only [step]
    unfold tick
    simp only
    refine hk.of_same ?_
    intro x
    rw [mem_keys, mem_keys]
    constructor
    · rintro (⟨i, hi, rfl⟩ | ⟨a, ha, rfl⟩)
      · obtain ⟨j, hj, rfl⟩ := List.mem_map.mp hi
        obtain ⟨k, hkm, rfl⟩ := List.mem_map.mp hj
        have ht := itimeout_terms (hold := cfg.hold) (now := reg.now + dt) (inv := k)
        exact Or.inl ⟨k, hkm, by unfold ikey; rw [ht.1, ht.2.2.1]⟩
      · obtain ⟨j, hj, rfl⟩ := List.mem_map.mp ha
        obtain ⟨k, hkm, rfl⟩ := List.mem_map.mp hj
        have hm := atimeout_mono (hold := cfg.hold) (now := reg.now + dt) (a := k)
        exact Or.inr ⟨k, hkm, by unfold akey; rw [hm.1, hm.2.2.1]⟩
    · rintro (⟨i, hi, rfl⟩ | ⟨a, ha, rfl⟩)
      · have ht := itimeout_terms (hold := cfg.hold) (now := reg.now + dt) (inv := i)
        exact Or.inl ⟨_, List.mem_map.mpr ⟨_, List.mem_map.mpr ⟨i, hi, rfl⟩, rfl⟩,
          by unfold ikey; rw [ht.1, ht.2.2.1]⟩
      · have hm := atimeout_mono (hold := cfg.hold) (now := reg.now + dt) (a := a)
        exact Or.inr ⟨_, List.mem_map.mpr ⟨_, List.mem_map.mpr ⟨a, ha, rfl⟩, rfl⟩,
          by unfold akey; rw [hm.1, hm.2.2.1]⟩

theorem run_keysOk {R} {cfg : Cfg} (hR : cfg.rejectDelta = R) (evs : List Event) :
    ∀ (reg : Reg), RegGood H R reg → KeysOk reg → KeysOk (run H P cfg reg evs) := by
  induction evs with
  | nil => intro reg _ hk; exact hk
  | cons e es ih =>
    intro reg hg hk
    simp only [run]
    exact ih _ (step_good hg hR) (step_keysOk hg hk)

theorem reachable_keysOk (H : Nat → Nat) (P : List (Nat × Nat) → Nat → Nat → Nat) (cfg : Cfg)
    (evs : List Event) : KeysOk (run H P cfg Reg.empty evs) := by
  refine run_keysOk rfl evs _ (regGood_empty H cfg.rejectDelta) ⟨?_, ?_⟩
  · intro x hx; simp [Reg.keys, Reg.empty] at hx
  · intro x hx; simp [Reg.keys, Reg.empty] at hx

/-! ### the invoice-ref lookup of a (replayed) call -/

theorem kHash_of_mem {reg : Reg} (hk : KeysOk reg) {x : Nat × Nat} (hx : x ∈ reg.keys) :
    kHash reg.keys x.1 = some x := by
  unfold kHash
  cases hf : reg.keys.find? (fun k => k.1 == x.1) with
  | none =>
    rw [List.find?_eq_none] at hf
    have := hf x hx
    simp at this
  | some y =>
    have hy := List.mem_of_find?_eq_some hf
    have he : y.1 = x.1 := by simpa using List.find?_some hf
    rw [hk.hashes y hy x hx he]

theorem kAddr_of_mem {reg : Reg} (hk : KeysOk reg) {x : Nat × Nat} (hx : x ∈ reg.keys) (hne : x.2 ≠ 0) :
    kAddr reg.keys x.2 = some x := by
  unfold kAddr
  rw [if_neg hne]
  cases hf : reg.keys.find? (fun k => k.2 == x.2) with
  | none =>
    rw [List.find?_eq_none] at hf
    have := hf x hx
    simp at this
  | some y =>
    have hy := List.mem_of_find?_eq_some hf
    have he : y.2 = x.2 := by simpa using List.find?_some hf
    rw [hk.addrs y hy x hx he (by rw [he]; exact hne)]

/-- **lookup of a call that carries the invoice's own address (or none)**: on both stores the
    invoice with the hash of the call is found. -/
theorem lookup_same_route {cfg : Cfg} {reg : Reg} (hk : KeysOk reg) {inv : Invoice} (hm : inv ∈ reg.invs)
    (ref : Option (Nat × Nat)) (hroute : ∀ t a, ref = some (t, a) → a = inv.payAddr) :
    lookup cfg reg.keys inv.hash ref false = some inv.hash := by
  have hx : ikey inv ∈ reg.keys := mem_keys.mpr (Or.inl ⟨inv, hm, rfl⟩)
  have h1 : kHash reg.keys inv.hash = some (ikey inv) := kHash_of_mem hk hx
  unfold lookup
  cases ref with
  | none => simp [h1, ikey]
  | some ta =>
    obtain ⟨t, a⟩ := ta
    have ha := hroute t a rfl
    subst ha
    simp only [Bool.false_eq_true, if_false]
    by_cases cs : cfg.sql = true
    · rw [if_pos cs, h1]
      simp [ikey]
    · rw [if_neg cs, h1]
      by_cases c0 : inv.payAddr = 0
      · have : kAddr reg.keys inv.payAddr = none := by unfold kAddr; simp [c0]
        rw [this]; simp [ikey]
      · have : kAddr reg.keys inv.payAddr = some (ikey inv) := kAddr_of_mem hk hx c0
        rw [this]; simp [ikey]

/-- **lookup of a call that carries a foreign address** (non-blank, not the invoice's, no
    invoice's): the kv store falls back to the hash index and finds the invoice — `updateMpp`'s
    address comparison is then the only guard —, the SQL store reports an equivocating ref
    (→ ResultInvoiceNotFound). This is the documented difference between the two stores. -/
theorem lookup_foreign_addr {cfg : Cfg} {reg : Reg} (hk : KeysOk reg) {inv : Invoice} (hm : inv ∈ reg.invs)
    (t a : Nat) (ha0 : a ≠ 0) (hne : a ≠ inv.payAddr) (hno : ∀ k ∈ reg.keys, k.2 ≠ a) :
    lookup cfg reg.keys inv.hash (some (t, a)) false =
      (if cfg.sql then none else some inv.hash) := by
  have hx : ikey inv ∈ reg.keys := mem_keys.mpr (Or.inl ⟨inv, hm, rfl⟩)
  have h1 : kHash reg.keys inv.hash = some (ikey inv) := kHash_of_mem hk hx
  have h2 : kAddr reg.keys a = none := by
    unfold kAddr
    rw [if_neg ha0, List.find?_eq_none]
    intro k hkm
    have := hno k hkm
    simpa using this
  unfold lookup
  simp only [Bool.false_eq_true, if_false]
  by_cases cs : cfg.sql = true
  · rw [if_pos cs, h1, if_pos cs]
    simp [ikey, ha0, Ne.symm hne]
  · rw [if_neg cs, h1, h2, if_neg cs]
    simp [ikey]

theorem findHash_of_mem {invs : List Invoice} (hn : (invs.map (·.hash)).Nodup) {inv : Invoice}
    (hm : inv ∈ invs) : findHash invs inv.hash = some inv := by
  unfold findHash
  cases hf : invs.find? (fun i => i.hash == inv.hash) with
  | none =>
    rw [List.find?_eq_none] at hf
    have := hf inv hm
    simp at this
  | some y =>
    have hy := List.mem_of_find?_eq_some hf
    have he : y.hash = inv.hash := by simpa using List.find?_some hf
    rw [hash_inj hn hy hm he]

theorem setInv_same {invs : List Invoice} (hn : (invs.map (·.hash)).Nodup) {inv : Invoice}
    (hm : inv ∈ invs) : setInv invs inv = invs := by
  unfold setInv
  have : ∀ i ∈ invs, (fun i : Invoice => if i.hash = inv.hash then inv else i) i = id i := by
    intro i hi
    by_cases c : i.hash = inv.hash
    · simp [c, hash_inj hn hi hm c]
    · simp [c]
  rw [List.map_congr_left this, List.map_id]

/-- **replay_same_verdict at registry level.**  Let `inv` be an invoice of the registry that
    records circuit key `ctx.key`, let the spontaneous-payment pre-processing pass without adding
    an invoice, and let the invoice-ref lookup of the call find `inv` (see `lookup_same_route` /
    `lookup_foreign_addr` for when it does, per store).  Then NotifyExitHopHtlc leaves all
    invoices unchanged and answers from the recorded htlc state only: accepted → accept,
    canceled → fail ReplayToCanceled at the recorded accept height, settled → settle
    ReplayToSettled with the invoice's preimage (which hashes to the payment hash). -/
theorem notify_replay {R} {cfg : Cfg} {reg : Reg} {ctx : Ctx} {inv : Invoice} {g : Htlc}
    (hg : RegGood H R reg) (hpre : preprocess H cfg reg ctx = .ok reg)
    (hl : lookup cfg reg.keys ctx.hash (refAddr ctx) (ctx.amp && ctx.pathID.isNone) = some inv.hash)
    (hm : inv ∈ reg.invs) (hf : findHtlc inv ctx.key = some g) (hh : ctx.hash = inv.hash) :
    (notify H P cfg reg ctx).1.invs = reg.invs ∧ (notify H P cfg reg ctx).1.amps = reg.amps ∧
    (g.state = .accepted → (notify H P cfg reg ctx).2.reply = .res (.accept .replayToAccepted)) ∧
    (g.state = .canceled →
      (notify H P cfg reg ctx).2.reply = .res (.fail .replayToCanceled g.acceptHeight)) ∧
    (g.state = .settled → ∃ p, inv.preimage = some p ∧ H p = inv.hash ∧
      (notify H P cfg reg ctx).2.reply = .res (.settle .replayToSettled p ctx.height)) := by
  obtain ⟨e1, e2, e3, e4⟩ := replay_verdict (hg.good inv hm) hf hh
  unfold notify
  rw [hpre]
  simp only
  rw [hl]
  simp only
  rw [findHash_of_mem hg.nodup hm]
  simp only
  cases hn : inotify H ctx inv with
  | mk inv' r0 =>
    rw [hn] at e1 e2 e3 e4
    simp only at e1 e2 e3 e4
    subst e1
    simp only
    refine ⟨setInv_same hg.nodup hm, trivial, ?_, ?_, ?_⟩
    · intro hs; rw [e2 hs]; rfl
    · intro hs; rw [e3 hs]; simp [fixHeight, hf]
    · intro hs
      obtain ⟨p, hp, hH, hr⟩ := e4 hs
      exact ⟨p, hp, hH, by rw [hr]; rfl⟩

/-- the pre-processing is the identity when the spontaneous-payment features do not apply. -/
theorem preprocess_off {cfg : Cfg} {reg : Reg} {ctx : Ctx}
    (h1 : cfg.acceptAMP = false ∨ ctx.amp = false)
    (h2 : cfg.acceptKeysend = false ∨ ctx.amp = true ∨ ctx.ks = none) :
    preprocess H cfg reg ctx = .ok reg := by
  unfold preprocess
  have c1 : (cfg.acceptAMP && ctx.amp) = false := by
    rcases h1 with h | h <;> simp [h]
  rw [c1]
  simp only [Bool.false_eq_true, if_false]
  by_cases c2 : (cfg.acceptKeysend && !ctx.amp) = true
  · rw [if_pos c2]
    rcases h2 with h | h | h
    · simp [h] at c2
    · simp [h] at c2
    · unfold processKeySend; simp [h]
  · rw [if_neg c2]

end LndModel.C15
