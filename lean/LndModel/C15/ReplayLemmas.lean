/-
C15 — replay: "an accept answer means the htlc is recorded accepted", the registry-level replay
verdict, and the invoice-ref lookup of a replayed call (kv and SQL rule).
-/
import LndModel.C15.RegLemmas

set_option linter.unusedSimpArgs false

namespace LndModel.C15

variable {H : Nat → Nat} {P : List (Nat × Nat) → Nat → Nat → Nat}

theorem updateMpp_accept {ctx : Ctx} {total addr : Nat} {inv : Invoice} {u : Upd} {k : AcceptKind}
    (hu : updateMpp ctx total addr inv = (u, .accept k)) :
    ∃ h ns, u = .add h ns ∧ ns ≠ some .settled := by
  by_cases c1 : (inv.ampReq && !ctx.amp) = true
  · simp [updateMpp, c1] at hu
  by_cases c2 : (!inv.ampReq && ctx.amp) = true
  · simp [updateMpp, c1, c2] at hu
  by_cases c3 : inv.state ≠ .open
  · simp [updateMpp, c1, c2, c3] at hu
  by_cases c4 : addr ≠ inv.payAddr
  · simp [updateMpp, c1, c2, c3, c4] at hu
  by_cases c5 : total = 0
  · simp [updateMpp, c1, c2, c3, c4, c5] at hu
  by_cases c6 : total < inv.value
  · simp [updateMpp, c1, c2, c3, c4, c5, c6] at hu
  by_cases c7 : ∃ x, x ∈ acceptedHtlcs inv ∧ ¬x.mppTotal = total
  · simp [updateMpp, c1, c2, c3, c4, c5, c6, c7] at hu
  by_cases c8 : expiryTooSoon ctx.expiry ctx.height ctx.rejectDelta = true
  · simp [updateMpp, c1, c2, c3, c4, c5, c6, c7, c8] at hu
  by_cases c9 : expiryTooSoon ctx.expiry ctx.height inv.finalCltv = true
  · simp [updateMpp, c1, c2, c3, c4, c5, c6, c7, c8, c9] at hu
  simp [updateMpp, c1, c2, c3, c4, c5, c6, c7, c8, c9] at hu
  by_cases d1 : sumAmt (acceptedHtlcs inv) + ctx.amt < total
  · simp [d1] at hu; exact ⟨_, _, hu.1.symm, by simp⟩
  · simp [d1] at hu
    by_cases d2 : inv.hodl = true
    · simp [d2] at hu; exact ⟨_, _, hu.1.symm, by simp⟩
    · simp [d2] at hu
      cases hp : inv.preimage <;> simp [hp] at hu

theorem updateLegacy_accept {ctx : Ctx} {inv : Invoice} {u : Upd} {k : AcceptKind}
    (hu : updateLegacy H ctx inv = (u, .accept k)) :
    ∃ h ns, u = .add h ns ∧ ns ≠ some .settled ∧ (ns = none → inv.state = .accepted) := by
  by_cases c1 : inv.ampReq = true
  · simp [updateLegacy, c1] at hu
  by_cases c2 : inv.state = .canceled
  · simp [updateLegacy, c1, c2] at hu
  by_cases c3 : ctx.amt < inv.value
  · simp [updateLegacy, c1, c2, c3] at hu
  by_cases c4 : (!validKeysend H ctx && inv.payAddrReq) = true
  · simp [updateLegacy, c1, c2, c3, c4] at hu
  by_cases c5 : ∃ x, x ∈ acceptedHtlcs inv ∧ 0 < x.mppTotal
  · simp [updateLegacy, c1, c2, c3, c4, c5] at hu
  by_cases c8 : expiryTooSoon ctx.expiry ctx.height ctx.rejectDelta = true
  · simp [updateLegacy, c1, c2, c3, c4, c5, c8] at hu
  by_cases c9 : expiryTooSoon ctx.expiry ctx.height inv.finalCltv = true
  · simp [updateLegacy, c1, c2, c3, c4, c5, c8, c9] at hu
  simp [updateLegacy, c1, c2, c3, c4, c5, c8, c9] at hu
  cases hs : inv.state with
  | canceled => exact absurd hs c2
  | accepted => simp [hs] at hu; exact ⟨_, _, hu.1.symm, by simp, fun _ => rfl⟩
  | settled =>
    simp [hs] at hu
    cases hp : inv.preimage <;> simp [hp] at hu
  | «open» =>
    simp [hs] at hu
    by_cases d2 : inv.hodl = true
    · simp [d2] at hu; exact ⟨_, _, hu.1.symm, by simp, by simp⟩
    · simp [d2] at hu
      cases hp : inv.preimage <;> simp [hp] at hu

theorem alignHtlcs_keep {inv inv' : Invoice} (hs : inv.state = .open ∨ inv.state = .accepted)
    (ha : alignHtlcs inv = some inv') : inv'.htlcs = inv.htlcs := by
  unfold alignHtlcs at ha
  rcases hs with hs | hs
  · simp [hs] at ha; obtain ⟨_, rfl⟩ := ha; rfl
  · simp [hs] at ha; obtain ⟨_, rfl⟩ := ha; rfl

/-- **accept answer ⇒ recorded accepted**: when the notify path answers `accept` (held htlc: partial
    set, hold invoice, duplicate to an accepted invoice, or replay of an accepted htlc), the
    circuit key of the call is on the invoice in state accepted afterwards. -/
theorem inotify_accept {R} {inv inv' : Invoice} {ctx : Ctx} {k : AcceptKind}
    (hg : Good H R inv) (hn : inotify H ctx inv = (inv', .accept k)) :
    ∃ h ∈ inv'.htlcs, h.key = ctx.key ∧ h.state = .accepted := by
  unfold inotify at hn
  cases hr : replay H ctx inv with
  | some r =>
    simp [hr] at hn
    obtain ⟨rfl, rfl⟩ := hn
    unfold replay at hr
    cases hf : findHtlc inv ctx.key with
    | none => simp [hf] at hr
    | some g =>
      simp [hf] at hr
      obtain ⟨gm, gk⟩ := findHtlc_some hf
      cases hs : g.state with
      | accepted => exact ⟨g, gm, gk, hs⟩
      | canceled => simp [hs] at hr
      | settled =>
        simp [hs] at hr
        cases hp : inv.preimage with
        | none => simp [hp] at hr
        | some q => simp [hp] at hr; split at hr <;> cases hr
  | none =>
    simp only [hr] at hn
    have hfresh := replay_none hr
    cases hu : updateInvoice H ctx inv with
    | mk u r =>
      rw [hu] at hn
      -- the update descriptor of an accept answer
      have hadd : r = .accept k → ∃ h ns, u = .add h ns ∧ h = { h with key := ctx.key, state := .accepted } ∧
          (ns = none → inv.state = .open ∨ inv.state = .accepted) ∧ ns ≠ some .settled := by
        intro hrk
        subst hrk
        unfold updateInvoice at hu
        by_cases c : (ctx.amp && ctx.mpp.isNone) = true
        · simp [c] at hu
        · rw [if_neg c] at hu
          cases hm : effMpp ctx with
          | none =>
            rw [hm] at hu; simp only at hu
            obtain ⟨h, ns, rfl, hns, hst⟩ := updateLegacy_accept hu
            obtain ⟨_, _, _, _, _, _, _, hh, _⟩ := updateLegacy_add hu
            exact ⟨h, ns, rfl, by rw [hh]; rfl, fun x => Or.inr (hst x), hns⟩
          | some ta =>
            obtain ⟨t, a⟩ := ta
            rw [hm] at hu; simp only at hu
            obtain ⟨h, ns, rfl, hns⟩ := updateMpp_accept hu
            obtain ⟨_, ho, _, _, _, _, _, _, hh, _⟩ := updateMpp_add hu
            exact ⟨h, ns, rfl, by rw [hh]; rfl, fun _ => Or.inl ho, hns⟩
      cases u with
      | none =>
        simp only at hn
        obtain ⟨rfl, rfl⟩ := Prod.mk.inj hn
        obtain ⟨h, ns, hc, _⟩ := hadd rfl
        cases hc
      | add h ns =>
        simp only at hn
        cases ha : applyAdd H inv h ns with
        | none => rw [ha] at hn; simp at hn
        | some inv2 =>
          rw [ha] at hn; simp only at hn
          obtain ⟨rfl, rfl⟩ := Prod.mk.inj hn
          obtain ⟨h', ns', hc, hh, hst, hns⟩ := hadd rfl
          cases hc
          -- the new list is the old list plus the new htlc, untouched
          have hk : h.key = ctx.key := by rw [hh]
          have hacc : h.state = .accepted := by rw [hh]
          unfold applyAdd at ha
          rw [hk, hfresh] at ha
          simp only [Option.isSome_none, Bool.false_eq_true, if_false] at ha
          cases ns with
          | none =>
            simp only at ha
            have := alignHtlcs_keep (inv := { inv with htlcs := inv.htlcs ++ [h] }) (hst rfl) ha
            exact ⟨h, by rw [this]; simp, hk, hacc⟩
          | some s =>
            simp only at ha
            cases hus : updatedInvoiceState H { inv with htlcs := inv.htlcs ++ [h] } s inv.preimage with
            | none => simp [hus] at ha
            | some s' =>
              simp only [hus] at ha
              obtain ⟨rfl, _, _⟩ := updatedInvoiceState_some hus
              have hne := updatedInvoiceState_ne_open hus
              have hs' : s' = .accepted ∨ s' = .canceled := by
                cases s' with
                | «open» => exact absurd rfl hne
                | accepted => exact Or.inl rfl
                | canceled => exact Or.inr rfl
                | settled => exact absurd rfl hns
              rcases hs' with rfl | rfl
              · have := alignHtlcs_keep (Or.inr rfl) ha
                exact ⟨h, by rw [this]; simp, hk, hacc⟩
              · -- a notify never asks for state canceled together with an accept answer
                exfalso
                have hg' : Good H R inv := hg
                unfold updateInvoice at hu
                by_cases c : (ctx.amp && ctx.mpp.isNone) = true
                · simp [c] at hu
                · rw [if_neg c] at hu
                  cases hm : effMpp ctx with
                  | none =>
                    rw [hm] at hu; simp only at hu
                    obtain ⟨_, _, _, _, _, _, _, _, hcase⟩ := updateLegacy_add hu
                    rcases hcase with ⟨_, hx, _⟩ | ⟨_, _, hx, _⟩ | ⟨_, hx, _⟩ | ⟨_, _, hx, _⟩ <;> cases hx
                  | some ta =>
                    obtain ⟨t, a⟩ := ta
                    rw [hm] at hu; simp only at hu
                    obtain ⟨_, _, _, _, _, _, _, _, _, hcase⟩ := updateMpp_add hu
                    rcases hcase with ⟨hx, _⟩ | ⟨hx, _⟩ | ⟨_, hx, _⟩ <;> cases hx

end LndModel.C15
