/-
C15 driver: replays a harness trace on the model (correspondence, `MISMATCH`) and evaluates the
property monitor on the implementation's own answers (`MONITOR`).

The monitor (S) uses only the trace: operation parameters, the resolutions returned / delivered on
the hodl channel, the `LookupInvoice` dumps before and after each event, and real SHA-256. It does
not consult the model.
-/
import LndModel.Prelude.Lines
import LndModel.Prelude.Sha256
import LndModel.C15.Model
import LndModel.C15.Conc

open LndModel LndModel.Lines LndModel.C15

namespace LndModel.C15.Driver

/-! ### helpers -/

def bytes32 (n : Nat) : List Nat :=
  (List.range 32).map (fun i => (n / 256 ^ (31 - i)) % 256)

def natOfBytes (bs : List Nat) : Nat := bs.foldl (fun a b => a * 256 + b) 0

/-- real SHA-256 on 32-byte strings read as naturals. -/
def shaNat (p : Nat) : Nat := natOfBytes (Sha256.sha256 (bytes32 p))

def hex64 (n : Nat) : String := bytesHex (bytes32 n)

def sha256Hex (hx : String) : Option String :=
  (hexBytes? hx).map (fun bs => bytesHex (Sha256.sha256 bs))

def resOf (line : String) : String :=
  match line.splitOn " => " with
  | [_, r] => r
  | _ => "?"

/-- circuit keys travel as `<short channel id>.<htlc id>`; the model's key is the injective
    encoding `ckey chan htlc` (Model.lean, `ckey_inj`). -/
def key? (s : String) : Option Nat :=
  match s.splitOn "." with
  | [c, i] =>
    match nat? c, nat? i with
    | some c, some i => if i < 18446744073709551616 then some (ckey c i) else none
    | _, _ => none
  | _ => none

def kvKey? (ws : List String) (key : String) : Option Nat := (kv? ws key).bind key?

def keyStr (k : Nat) : String := s!"{ckeyChan k}.{ckeyHtlc k}"

def failName : FailReason → String
  | .replayToCanceled => "ReplayToCanceled"
  | .invoiceAlreadyCanceled => "InvoiceAlreadyCanceled"
  | .invoiceAlreadySettled => "InvoiceAlreadySettled"
  | .amountTooLow => "AmountTooLow"
  | .expiryTooSoon => "ExpiryTooSoon"
  | .canceled => "Canceled"
  | .invoiceNotOpen => "InvoiceNotOpen"
  | .mppTimeout => "MppTimeout"
  | .addressMismatch => "AddressMismatch"
  | .setTotalMismatch => "SetTotalMismatch"
  | .setTotalTooLow => "SetTotalTooLow"
  | .invoiceNotFound => "InvoiceNotFound"
  | .keySendError => "KeySendError"
  | .mppInProgress => "MppInProgress"
  | .typeMismatch => "TypeMismatch"
  | .ampError => "AmpError"
  | .ampReconstruction => "AmpReconstruction"

def settleName : SettleKind → String
  | .settled => "Settled"
  | .replayToSettled => "ReplayToSettled"
  | .duplicateToSettled => "DuplicateToSettled"

def resStr : Res → String
  | .fail r ah => s!"fail:{failName r}:{ah}"
  | .settle k p h => s!"settle:{settleName k}:{hex64 p}:{h}"
  | .accept _ => "accept"
  | .err => "err"

def opResStr : OpRes → String
  | .ok => "ok"
  | .stillOpen => "stillopen"
  | .alreadyCanceled => "alreadycanceled"
  | .alreadySettled => "alreadysettled"
  | .notFound => "notfound"
  | .err => "err"

def replyStr : Reply → String
  | .res r => resStr r
  | .op o => opResStr o
  | .unit => "ok"

def cstateStr : CState → String
  | .open => "open" | .accepted => "accepted" | .settled => "settled" | .canceled => "canceled"

def hstateStr : HState → String
  | .accepted => "A" | .canceled => "C" | .settled => "S"

def featOf (tlv payAddrOpt payAddrReq mppOpt ampReq blinded : Bool) : String :=
  let s := (if tlv then "t" else "") ++ (if payAddrOpt then "p" else "") ++
    (if payAddrReq then "P" else "") ++ (if mppOpt then "m" else "") ++
    (if ampReq then "a" else "") ++ (if blinded then "b" else "")
  if s.isEmpty then "-" else s

def featStr (i : Invoice) : String :=
  featOf i.tlv i.payAddrOpt i.payAddrReq i.mppOpt i.ampReq i.blinded

/-- child preimage of `amp.ReconstructChildren`: root = xor of all shares,
    preimage = SHA256(root ‖ share ‖ be32 index). -/
def childPre (descs : List (Nat × Nat)) (share index : Nat) : Nat :=
  let root := descs.foldl (fun a d => Nat.xor a d.1) 0
  let idx := [(index / 16777216) % 256, (index / 65536) % 256, (index / 256) % 256, index % 256]
  natOfBytes (Sha256.sha256 (bytes32 root ++ bytes32 share ++ idx))

/-- the harness' canonical dump of an AMP invoice. -/
def ampDump (i : AmpInv) : String :=
  let hs := i.htlcs.toArray.qsort (fun a b => a.base.key < b.base.key) |>.toList
  let htl := if hs.isEmpty then "-" else
    ",".intercalate (hs.map fun h =>
      let b := h.base
      let p := match h.pre with | some p => hex64 p | none => "none"
      s!"{keyStr b.key}:{b.amt}:{b.mppTotal}:{hstateStr b.state}:{b.expiry}:{b.acceptHeight}:{b.acceptTime}:{(hex64 h.setID).take 8}:{hex64 h.hash}:{p}")
  let ss := i.sets.toArray.qsort (fun a b => (hex64 a.id).take 8 < (hex64 b.id).take 8) |>.toList
  let sets := if ss.isEmpty then "-" else
    ",".intercalate (ss.map fun x => s!"{(hex64 x.id).take 8}:{hstateStr x.state}:{x.amtPaid}")
  s!"st={cstateStr i.state} paid={i.amtPaid} pre=none val={i.value} cltv={i.finalCltv} hodl=0 feat={featOf i.tlv i.payAddrOpt i.payAddrReq i.mppOpt true i.blinded} addr={hex64 i.payAddr} htlcs={htl} sets={sets}"

/-- the harness' canonical dump, produced from the model invoice. -/
def modelDump (i : Invoice) : String :=
  let hs := i.htlcs.toArray.qsort (fun a b => a.key < b.key) |>.toList
  let htl := if hs.isEmpty then "-" else
    ",".intercalate (hs.map fun h =>
      s!"{keyStr h.key}:{h.amt}:{h.mppTotal}:{hstateStr h.state}:{h.expiry}:{h.acceptHeight}:{h.acceptTime}")
  let pre := match i.preimage with | some p => hex64 p | none => "none"
  s!"st={cstateStr i.state} paid={i.amtPaid} pre={pre} val={i.value} cltv={i.finalCltv} hodl={if i.hodl then 1 else 0} feat={featStr i} addr={hex64 i.payAddr} htlcs={htl} sets=-"

/-! ### parsed implementation dump (monitor side) -/

structure HtlcD where
  key : Nat
  amt : Nat
  total : Nat
  st : String
  exp : Nat
  ah : Int
  at_ : Nat
  /-- AMP: (set id prefix, payment hash, preimage | none) -/
  amp : Option (String × String × String)
  deriving Repr, BEq

structure InvD where
  hash : String
  st : String
  paid : Nat
  pre : String
  val : Nat
  cltv : Int
  feat : String
  addr : String
  htlcs : List HtlcD
  raw : String
  /-- AMP per-set state: (set id prefix, A | S | C) -/
  sets : List (String × String) := []
  deriving Repr

def parseHtlc (s : String) : Option HtlcD :=
  match s.splitOn ":" with
  | k :: a :: t :: st :: e :: ah :: at_ :: rest =>
    match key? k, nat? a, nat? t, nat? e, int? ah, nat? at_ with
    | some k, some a, some t, some e, some ah, some at_ =>
      let amp := match rest with
        | [sid, hh, pp] => some (sid, hh, pp)
        | _ => none
      some ⟨k, a, t, st, e, ah, at_, amp⟩
    | _, _, _, _, _, _ => none
  | _ => none

def parseInv (hash : String) (raw : String) : Option InvD :=
  let ws := words raw
  match kv? ws "st", kvNat? ws "paid", kv? ws "pre", kvNat? ws "val", kvInt? ws "cltv",
        kv? ws "feat", kv? ws "addr", kv? ws "htlcs" with
  | some st, some paid, some pre, some val, some cltv, some feat, some addr, some htl =>
    let hs := if htl == "-" then some [] else (htl.splitOn ",").mapM parseHtlc
    let sets := match kv? ws "sets" with
      | some "-" => []
      | some x => (x.splitOn ",").filterMap fun e =>
          match e.splitOn ":" with
          | [id, st, _] => some (id, st)
          | _ => none
      | none => []
    hs.map fun hs => ⟨hash, st, paid, pre, val, cltv, feat, addr, hs, raw, sets⟩
  | _, _, _, _, _, _, _, _ => none

/-- a notify operation as issued by the harness. -/
structure NotifyRec where
  hash : String
  key : Nat
  amt : Nat
  exp : Nat
  ht : Int
  mpp : Option (Nat × String)
  amp : Option String      -- set id (hex)
  ks : String              -- "none" | hex | "-"
  ampShare : String := ""
  ampIndex : Nat := 0
  path : Option String := none   -- blinded path id (hex)
  tot : Nat := 0                 -- blinded total_amt_msat
  deriving Repr, Inhabited

structure St where
  caseId : String := "0"
  -- config of the case
  cfg : Cfg := ⟨0, false, false, false, 30, false⟩
  ampOn : Bool := false
  -- model side
  reg : Reg := Reg.empty
  modelOn : Bool := true
  expMsgs : List (Nat × Res) := []
  -- monitor side
  rejectDelta : Int := 0
  prev : List InvD := []
  cur : List InvD := []
  curNone : List String := []
  prevNone : List String := []
  opLine : String := ""
  opKind : String := ""
  opNotify : Option NotifyRec := none
  opRes : String := ""
  opHodl : List (Nat × String) := []
  /-- calls of a concurrent group (monitor-only stream): evaluated together at `pend` -/
  parOps : List (NotifyRec × String) := []
  /-- concurrent group read completely up to `pend`; its hodl messages / dumps are being read -/
  parPending : Bool := false
  /-- SettleHodlInvoice call of the group: (preimage, answer) -/
  parSettle : Option (Nat × String) := none
  /-- clock advance that happened concurrently with the group -/
  parDt : Nat := 0
  concCases : Nat := 0
  concExplained : Nat := 0
  concSchedules : Nat := 0
  intro : List (Nat × NotifyRec) := []
  settledKeys : List Nat := []
  canceledKeys : List Nat := []
  /-- AMP: circuit key ↦ the circuit keys (same invoice, same set id) that moved to settled in
      the same operation, read off the dumps before / after it -/
  groups : List (Nat × List Nat) := []
  -- counters
  lines : Nat := 0
  cases : Nat := 0
  ampCases : Nat := 0
  ops : Nat := 0
  modelOps : Nat := 0
  nontrivial : Nat := 0
  mismatches : Nat := 0
  monitorFails : Nat := 0
  settlesChecked : Nat := 0
  setsChecked : Nat := 0
  replaysChecked : Nat := 0
  transitionsChecked : Nat := 0
  paidChecked : Nat := 0
  acceptsChecked : Nat := 0
  /-- recorded htlcs that share the htlc id with an htlc of the same invoice on another channel /
      share the channel with another htlc of the same invoice -/
  sameIdOtherChan : Nat := 0
  sameChanOtherId : Nat := 0
  hist : List (String × Nat) := []
  clauseHits : List (String × Nat) := []
  samples : Nat := 0

def bump (h : List (String × Nat)) (k : String) : List (String × Nat) :=
  if h.any (·.1 == k) then h.map (fun (a, n) => if a == k then (a, n + 1) else (a, n))
  else h ++ [(k, 1)]

def mismatch (s : St) (detail : String) : IO St := do
  if s.mismatches < 40 then
    IO.println s!"MISMATCH case={s.caseId} line={s.lines} {detail}"
  return { s with mismatches := s.mismatches + 1 }

def monitor (s : St) (clause detail : String) : IO St := do
  -- at most 8 lines per clause, so that a frequent (known) clause cannot hide another one
  let n := ((s.clauseHits.find? (·.1 == clause)).map (·.2)).getD 0
  if n < 8 then
    IO.println s!"MONITOR case={s.caseId} clause={clause} line={s.lines} {detail}"
  return { s with monitorFails := s.monitorFails + 1, clauseHits := bump s.clauseHits clause }

/-! ### monitor -/

def findHtlcD (ds : List InvD) (k : Nat) : Option (InvD × HtlcD) :=
  ds.findSome? fun d => (d.htlcs.find? (·.key == k)).map (fun h => (d, h))

def u32sum (a b : Int) : Int := (a + b) % 4294967296

def invStateOk (a b : String) : Bool :=
  match a, b with
  | "open", _ => b == "open" || b == "accepted" || b == "settled" || b == "canceled"
  | "accepted", _ => b == "accepted" || b == "settled" || b == "canceled"
  | "settled", _ => b == "settled"
  | "canceled", _ => b == "canceled"
  | _, _ => false

def htlcStateOk (a b : String) : Bool :=
  match a with
  | "A" => b == "A" || b == "S" || b == "C"
  | "S" => b == "S"
  | "C" => b == "C"
  | _ => false

/-- class of a resolution string: accept | fail | settle | err | … -/
def resClass (r : String) : String := (r.splitOn ":").headD "?"

def resField (r : String) (i : Nat) : String := ((r.splitOn ":")[i]?).getD ""

/-- payment-address rule for the notify `n` that created an htlc on an invoice with address
    `addr`.  `(clause, reason)`:
    * `payment_address_mpp` — the call carried an address (MPP record, else blinded path ID) and
      it is not the invoice's: checked for every invoice, also without the payment-addr-required
      bit, because `updateMpp` compares unconditionally (a payment secret that is present must
      match);
    * `payment_address` — the invoice requires an address (`P`) and the call carried none: only
      admissible as a valid keysend (the sender knows the preimage). -/
def addrViolation (n : NotifyRec) (addr : String) (required : Bool) : Option (String × String) :=
  match n.mpp, n.path with
  | some (_, a), _ =>
    if a != addr then some (if required then "payment_address" else "payment_address_mpp",
      s!"mpp record carries {a}") else none
  | none, some p =>
    if p != addr then some (if required then "payment_address" else "payment_address_mpp",
      s!"path id is {p}") else none
  | none, none =>
    if required && (sha256Hex n.ks != some n.hash || n.ks.length != 64) then
      some ("payment_address", "no payment address carried")
    else none

/-- checks for one settle resolution `r` for circuit key `k`. -/
def checkSettle (s : St) (k : Nat) (r : String) : IO St := do
  let mut s := { s with settlesChecked := s.settlesChecked + 1 }
  let p := resField r 2
  if s.canceledKeys.contains k then
    s ← monitor s "settled_and_canceled" s!"htlc {keyStr k} gets a settle resolution after it was canceled"
  s := { s with settledKeys := if s.settledKeys.contains k then s.settledKeys else k :: s.settledKeys }
  let some (d, h) := findHtlcD s.cur k
    | monitor s "settle_htlc_recorded" s!"settle resolution for htlc {keyStr k} which is on no invoice"
  if h.st != "S" then
    s ← monitor s "settle_htlc_recorded" s!"settle resolution for htlc {keyStr k} in state {h.st}"
  -- (1) preimage hashes to the htlc's payment hash (hash of the notify that created it)
  let some nr := (s.intro.find? (·.1 == k)).map (·.2)
    | monitor s "settle_preimage" s!"settle for htlc {keyStr k} that was never notified"
  if sha256Hex p != some nr.hash then
    s ← monitor s "settle_preimage" s!"htlc {keyStr k}: sha256(preimage {p}) is not its payment hash {nr.hash}"
  -- (2) the set the htlc belongs to
  let isAmp := h.amp.isSome
  -- AMP: the htlcs of the set id that were settled by the same operation (lnd lets a settled set
  -- id be paid again, also with another total: "its set" is what was accepted at that moment)
  let set : List HtlcD :=
    if isAmp then
      match (s.groups.find? (·.1 == k)).map (·.2) with
      | some ks => d.htlcs.filter (fun g => ks.contains g.key)
      | none => [h]
    else if h.total > 0 then d.htlcs.filter (fun g => g.st == "S" && g.total > 0 && g.amp.isNone)
    else [h]
  s := { s with setsChecked := s.setsChecked + 1 }
  if h.total > 0 || isAmp then
    if set.any (fun g => g.total != h.total) then
      s ← monitor s "common_total" s!"htlc {keyStr k}: settled set on invoice {d.hash} declares different totals"
    if h.total < d.val then
      s ← monitor s "total_ge_value" s!"htlc {keyStr k}: set total {h.total} below invoice value {d.val}"
    let sum := (set.map (·.amt)).foldl (· + ·) 0
    if sum < h.total then
      s ← monitor s "sum_ge_total" s!"htlc {keyStr k}: settled set pays {sum} < declared total {h.total} (invoice {d.hash})"
  else
    if h.amt < d.val then
      s ← monitor s "legacy_amount" s!"htlc {keyStr k}: amount {h.amt} below invoice value {d.val}"
  for g in set do
    -- expiry margin at accept height, exact uint32(int32 sum) arithmetic
    if (g.exp : Int) < u32sum g.ah s.rejectDelta || (g.exp : Int) < u32sum g.ah d.cltv then
      s ← monitor s "expiry_margin" s!"htlc {keyStr g.key}: expiry {g.exp} accepted at height {g.ah} with reject delta {s.rejectDelta}, final cltv delta {d.cltv}"
    -- payment address rule, from the notify that created the htlc
    match (s.intro.find? (·.1 == g.key)).map (·.2) with
    | none =>
      if d.feat.contains 'P' then
        s ← monitor s "payment_address" s!"htlc {keyStr g.key} was never notified"
    | some n =>
      if let some (cl, why) := addrViolation n d.addr (d.feat.contains 'P') then
        s ← monitor s cl s!"htlc {keyStr g.key} settled on invoice {d.hash} with payment address {d.addr} (feat {d.feat}): {why}"
  -- AMP: per-htlc preimage recorded and valid
  if isAmp then
    for g in set do
      match g.amp with
      | some (_, hh, pp) =>
        if sha256Hex pp != some hh then
          s ← monitor s "settle_preimage" s!"AMP htlc {keyStr g.key}: recorded preimage does not hash to {hh}"
      | none => pure ()
  return s

def isCancelFail (r : String) : Bool :=
  let o := resField r 1
  o == "Canceled" || o == "MppTimeout" || o == "ReplayToCanceled"

/-- evaluates the monitor for the operation whose answers have now been read completely. -/
def finishOp (s : St) : IO St := do
  if s.opKind == "" then return s
  let mut s := s
  -- bookkeeping: AMP htlcs that moved to settled in this operation, grouped by invoice and set id
  for d in s.cur do
    let wasS := fun (g : HtlcD) =>
      match s.prev.find? (·.hash == d.hash) with
      | some d0 => d0.htlcs.any (fun g0 => g0.key == g.key && g0.st == "S")
      | none => false
    let fresh := d.htlcs.filter (fun g => g.st == "S" && g.amp.isSome && !wasS g)
    for g in fresh do
      if !(s.groups.any (·.1 == g.key)) then
        let grp := (fresh.filter (fun x => (x.amp.map (·.1)) == (g.amp.map (·.1)))).map (·.key)
        s := { s with groups := (g.key, grp) :: s.groups }
  -- bookkeeping: which notify created which htlc
  if let some n := s.opNotify then
    if (findHtlcD s.prev n.key).isNone && (findHtlcD s.cur n.key).isSome then
      if !(s.intro.any (·.1 == n.key)) then
        s := { s with intro := (n.key, n) :: s.intro }
        -- the htlc was accepted (held or settled) into an invoice: address rule at accept time
        if let some (d, _) := findHtlcD s.cur n.key then
          let x1 : Nat := if d.htlcs.any (fun g => g.key != n.key && ckeyHtlc g.key == ckeyHtlc n.key) then 1 else 0
          let x2 : Nat := if d.htlcs.any (fun g => g.key != n.key && ckeyChan g.key == ckeyChan n.key) then 1 else 0
          s := { s with acceptsChecked := s.acceptsChecked + 1,
                        sameIdOtherChan := s.sameIdOtherChan + x1,
                        sameChanOtherId := s.sameChanOtherId + x2 }
          if let some (cl, why) := addrViolation n d.addr (d.feat.contains 'P') then
            s ← monitor s cl s!"htlc {keyStr n.key} accepted ({s.opRes.take 40}) into invoice {d.hash} with payment address {d.addr} (feat {d.feat}): {why}"
  -- concurrent group: every call of the group is treated like the notify of this operation
  for (n, res) in s.parOps do
    if (findHtlcD s.prev n.key).isNone && (findHtlcD s.cur n.key).isSome then
      if !(s.intro.any (·.1 == n.key)) then
        s := { s with intro := (n.key, n) :: s.intro }
        if let some (d, _) := findHtlcD s.cur n.key then
          s := { s with acceptsChecked := s.acceptsChecked + 1 }
          if let some (cl, why) := addrViolation n d.addr (d.feat.contains 'P') then
            s ← monitor s cl s!"htlc {keyStr n.key} accepted ({res.take 40}) into invoice {d.hash} with payment address {d.addr} (feat {d.feat}): {why}"
    if resClass res == "settle" then
      if sha256Hex (resField res 2) != some n.hash then
        s ← monitor s "settle_preimage" s!"notify for hash {n.hash} answered with a preimage that does not hash to it"
      s ← checkSettle s n.key res
    -- a call that was answered accept / settle must be on record (in that or a later state)
    if resClass res == "accept" || resClass res == "settle" then
      match findHtlcD s.cur n.key with
      | none => s ← monitor s "settle_htlc_recorded" s!"concurrent call for htlc {keyStr n.key} answered {res.take 30} but the htlc is on no invoice"
      | some _ => pure ()
  -- (D) replay_same_verdict
  if let some n := s.opNotify then
    if let some (d, h) := findHtlcD s.prev n.key then
      if let some orig := (s.intro.find? (·.1 == n.key)).map (·.2) then
        let sameRoute := orig.hash == n.hash && (orig.mpp.map (·.2)) == (n.mpp.map (·.2)) &&
          orig.amp == n.amp && orig.ks == n.ks && orig.path == n.path
        if sameRoute then
          s := { s with replaysChecked := s.replaysChecked + 1 }
          let want := if h.st == "A" then "accept" else if h.st == "S" then "settle" else "fail"
          let got := resClass s.opRes
          if got != want then
            let o := resField s.opRes 1
            -- known finding F-c15-replay-precheck, attributed only when the expiry pre-check of
            -- processKeySend / processAMP is what fails: the feature is on, the replayed call
            -- carries the keysend / AMP record, and expiry < uint32(height + reject delta).
            let tooSoon := (n.exp : Int) < u32sum n.ht s.rejectDelta
            let pre := tooSoon &&
              ((o == "KeySendError" && s.cfg.acceptKeysend && n.ks != "none" && n.amp.isNone) ||
               (o == "AmpError" && s.ampOn && n.amp.isSome))
            if got == "fail" && pre then
              s ← monitor s "replay_precheck" s!"replayed htlc {keyStr n.key} recorded as {h.st} on invoice {d.hash} is answered {s.opRes} (spontaneous-payment pre-check runs before the replay check)"
            else
              s ← monitor s "replay_verdict" s!"replayed htlc {keyStr n.key} recorded as {h.st} on invoice {d.hash} is answered {s.opRes}"
          match s.cur.find? (·.hash == d.hash) with
          | some d' =>
            if d'.raw != d.raw then
              s ← monitor s "replay_verdict" s!"replay of htlc {keyStr n.key} changed invoice {d.hash}"
          | none => s ← monitor s "replay_verdict" s!"replay of htlc {keyStr n.key}: invoice {d.hash} vanished"
  -- (A) settle_only_if_paid on every settle resolution of this operation
  if let some n := s.opNotify then
    if resClass s.opRes == "settle" then
      if sha256Hex (resField s.opRes 2) != some n.hash then
        s ← monitor s "settle_preimage" s!"notify for hash {n.hash} answered with a preimage that does not hash to it"
      s ← checkSettle s n.key s.opRes
    if resClass s.opRes == "fail" && resField s.opRes 1 == "ReplayToCanceled" then
      if s.settledKeys.contains n.key then
        s ← monitor s "settled_and_canceled" s!"htlc {keyStr n.key} was settled and is now reported canceled"
      s := { s with canceledKeys := if s.canceledKeys.contains n.key then s.canceledKeys else n.key :: s.canceledKeys }
  for (k, r) in s.opHodl do
    if resClass r == "settle" then
      s ← checkSettle s k r
    else if resClass r == "fail" then
      if s.settledKeys.contains k then
        s ← monitor s "settled_and_canceled" s!"htlc {keyStr k} was settled and now gets {r}"
      if isCancelFail r then
        s := { s with canceledKeys := if s.canceledKeys.contains k then s.canceledKeys else k :: s.canceledKeys }
  -- (B) states_monotone
  for d in s.prev do
    match s.cur.find? (·.hash == d.hash) with
    | none => s ← monitor s "states_monotone" s!"invoice {d.hash} vanished"
    | some d' =>
      s := { s with transitionsChecked := s.transitionsChecked + 1 }
      if !invStateOk d.st d'.st then
        s ← monitor s "states_monotone" s!"invoice {d.hash}: {d.st} -> {d'.st}"
      for h in d.htlcs do
        match d'.htlcs.find? (·.key == h.key) with
        | none =>
          -- plain violation on either store.  (Finding F-c15-kv-amp-setid-reuse, fixed in lnd
          -- 4ae3b4a: the kv store dropped the resolved htlcs of a settled AMP set id when that
          -- set id was paid again; a regression is recognisable by the hint in the text.)
          let reuse := (h.st == "S" || h.st == "C") &&
            (match h.amp, s.opNotify with
             | some (sid, _, _), some n =>
               (n.amp.map (·.take 8)) == some sid &&
               (d.sets.find? (·.1 == sid)).map (·.2) == some "S" &&
               (d'.htlcs.any (·.key == n.key)) && !(d.htlcs.any (·.key == n.key))
             | _, _ => false)
          let hint := if reuse then " when its settled set id was paid again" else ""
          s ← monitor s "states_monotone" s!"{h.st} htlc {keyStr h.key} vanished from invoice {d.hash}{hint}"
        | some h' =>
          if !htlcStateOk h.st h'.st then
            s ← monitor s "states_monotone" s!"htlc {keyStr h.key} on {d.hash}: {h.st} -> {h'.st}"
          if h.amt != h'.amt || h.total != h'.total || h.exp != h'.exp || h.ah != h'.ah then
            s ← monitor s "states_monotone" s!"htlc {keyStr h.key} on {d.hash}: recorded terms changed"
  -- (C) amt_paid_exact
  for d in s.cur do
    if d.st == "settled" && !d.feat.contains 'a' then
      s := { s with paidChecked := s.paidChecked + 1 }
      let sum := ((d.htlcs.filter (·.st == "S")).map (·.amt)).foldl (· + ·) 0
      if d.paid != sum then
        s ← monitor s "amt_paid_exact" s!"invoice {d.hash} settled: amt_paid={d.paid}, settled htlcs sum to {sum}"
  return s

/-! ### model side -/

def hexNatD (s : String) : Nat := (hexNat? s).getD 0

def parseMpp (s : String) : Option (Nat × String) :=
  if s == "none" then none else
  match s.splitOn "/" with
  | [t, a] => (nat? t).map (fun t => (t, a))
  | _ => none

def mkCtx (n : NotifyRec) : Ctx :=
  { hash := hexNatD n.hash, key := n.key, amt := n.amt, expiry := n.exp, height := n.ht,
    rejectDelta := 0, now := 0,
    mpp := n.mpp.map (fun (t, a) => (t, hexNatD a)),
    pathID := n.path.map hexNatD, total := n.tot,
    amp := n.amp.isSome,
    setID := (n.amp.map hexNatD).getD 0, share := hexNatD n.ampShare, index := n.ampIndex,
    ks := if n.ks == "none" then none
          else if n.ks.length == 64 then some (some (hexNatD n.ks)) else some none }

def parseNotify (rest : List String) : NotifyRec :=
  { hash := (kv? rest "h").getD "", key := (kvKey? rest "k").getD 0, amt := (kvNat? rest "amt").getD 0,
    exp := (kvNat? rest "exp").getD 0, ht := (kvInt? rest "ht").getD 0,
    mpp := parseMpp ((kv? rest "mpp").getD "none"),
    amp := match kv? rest "amp" with
      | some "none" => none
      | some a => some ((a.splitOn "/").headD "")
      | none => none,
    ks := (kv? rest "ks").getD "none",
    path := match kv? rest "path" with
      | some "none" => none
      | some a => some a
      | none => none,
    tot := (kvNat? rest "tot").getD 0 }

/-! ### concurrent groups: search for a schedule of the interleaving model (Conc.lean) -/

/-- (invoice hash, circuit key) of every accepted htlc of an open invoice whose hold time has
    passed: the hold timers that lnd's event loop is about to fire. -/
def dueTimers (hold : Nat) (reg : Reg) : List (Nat × Nat) :=
  (reg.invs.filter (fun i => i.state == .open)).flatMap (fun i =>
    (i.htlcs.filter (due hold reg.now)).map (fun h => (i.hash, h.key))) ++
  (reg.amps.filter (fun a => a.state == .open)).flatMap (fun a =>
    (a.htlcs.filter (fun h => due hold reg.now h.base)).map (fun h => (a.hash, h.base.key)))

/-- commit one transaction of the interleaving model and finish its fan-out at once. -/
def commitNow (cfg : Cfg) (reg : Reg) (a : CAct) : Reg × Reply × List (Nat × Res) :=
  let t : Tx := match a with
    | .ev e => txOf shaNat childPre cfg reg e
    | .core ctx => coreTx shaNat childPre cfg reg ctx
    | .timers sel => timersTx sel reg
    | .expire h f => expireTx reg h f
    | _ => ⟨reg, .unit, [], none⟩
  let (reg', out) := finish t
  (reg', out.reply, out.msgs)

/-- the transactions of one NotifyExitHopHtlc call: the just-in-time AddInvoice of
    processKeySend / processAMP (if any; its refusal is ignored), then the locked part. -/
def notifyProg (cfg : Cfg) (n : NotifyRec) (res : String) : List (CAct × Option String) :=
  let ctx := mkCtx n
  match preSpec shaNat cfg { ctx with rejectDelta := cfg.rejectDelta } with
  | .ok (some spec) => [(.ev (.addInvoice spec), none), (.core ctx, some res)]
  | _ => [(.core ctx, some res)]

structure ParObs where
  hodl : List (Nat × String)
  dumps : List (String × String)   -- (hash hex, raw dump | "none")

def dumpOf (reg : Reg) (h : String) : String :=
  match findHash reg.invs (hexNatD h) with
  | some i => modelDump i
  | none =>
    match findAmp reg.amps (hexNatD h) with
    | some a => ampDump a
    | none => "none"

def sortMsgs (l : List (Nat × String)) : List (Nat × String) :=
  (l.toArray.qsort (fun a b => a.1 < b.1 || (a.1 == b.1 && a.2 < b.2))).toList

def parAccept (obs : ParObs) (reg : Reg) (delivered : List (Nat × Res)) : Bool :=
  sortMsgs (delivered.map (fun m => (m.1, resStr m.2))) == sortMsgs obs.hodl &&
  obs.dumps.all (fun (h, raw) => dumpOf reg h == raw)

/-- depth-first search over the interleavings of the group's transactions, the clock advance and
    the hold timers that become due; returns the final registry of the first schedule that
    reproduces every answer, the delivered hodl messages and the dumps, and the number of
    complete schedules tried. -/
def searchPar (cfg : Cfg) (obs : ParObs) : Nat → Reg → List (List (CAct × Option String)) →
    Option Nat → List (Nat × Res) → Option Reg × Nat
  | 0, _, _, _, _ => (none, 0)
  | fuel + 1, reg, progs, adv, delivered =>
    let timers := dueTimers cfg.hold reg
    if progs.all (·.isEmpty) && adv.isNone && timers.isEmpty then
      (if parAccept obs reg delivered then some reg else none, 1)
    else
      -- options: next transaction of any program, the clock advance, any due timer
      let progOpts : List (Unit → Option Reg × Nat) :=
        (List.range progs.length).filterMap (fun i =>
          match progs[i]? with
          | some ((a, exp) :: rest) => some (fun _ =>
              let (reg', rep, msgs) := commitNow cfg reg a
              if exp.isSome && exp != some (replyStr rep) then (none, 0)
              else searchPar cfg obs fuel reg' (progs.set i rest) adv (delivered ++ msgs))
          | _ => none)
      let advOpts : List (Unit → Option Reg × Nat) :=
        match adv with
        | some dt => [fun _ => searchPar cfg obs fuel { reg with now := reg.now + dt } progs none delivered]
        | none => []
      let timerOpts : List (Unit → Option Reg × Nat) :=
        timers.map (fun (h, k) => fun _ =>
          let (reg', _, msgs) := commitNow cfg reg (.timers (oneTimer h k))
          searchPar cfg obs fuel reg' progs adv (delivered ++ msgs))
      (progOpts ++ advOpts ++ timerOpts).foldl (fun (acc : Option Reg × Nat) f =>
        match acc.1 with
        | some _ => acc
        | none => let r := f (); (r.1, acc.2 + r.2)) (none, 0)

/-- compare the model's reply with the implementation's, start expecting the model's messages. -/
def modelOp (s : St) (reg' : Reg) (out : Out) (impl : String) : IO St := do
  let s := { s with reg := reg', expMsgs := out.msgs, modelOps := s.modelOps + 1 }
  let m := replyStr out.reply
  if m != impl then mismatch s s!"{s.opKind}: model={m} impl={impl}" else pure s

def leftoverMsgs (s : St) : IO St := do
  if s.modelOn && !s.expMsgs.isEmpty then
    let s' ← mismatch s s!"hodl: model expected {s.expMsgs.length} more message(s), first k={keyStr (s.expMsgs.headD (0, .err)).1}"
    return { s' with expMsgs := [] }
  return s

/-- the concurrent group has been read completely (answers, hodl messages, dumps): find a schedule
    of the interleaving model that explains it and continue from its final registry. -/
def resolvePar (s : St) : IO St := do
  if !s.parPending then return s
  let s := { s with parPending := false }
  if !s.modelOn then return s
  let progs := s.parOps.map (fun (n, res) => notifyProg s.cfg n res) ++
    (match s.parSettle with
     | some (p, res) => [[(CAct.ev (.settle p), some res)]]
     | none => [])
  let obs : ParObs := { hodl := s.opHodl,
                        dumps := s.cur.map (fun d => (d.hash, d.raw)) ++ s.curNone.map (fun h => (h, "none")) }
  let (r, n) := searchPar s.cfg obs 64 s.reg progs (if s.parDt == 0 then none else some s.parDt) []
  let s := { s with concSchedules := s.concSchedules + n, modelOps := s.modelOps + s.parOps.length }
  match r with
  | some reg' => return { s with reg := reg', concExplained := s.concExplained + 1 }
  | none =>
    let s ← mismatch s s!"concurrent group: no interleaving of the model's transactions ({n} complete schedules tried) reproduces the answers {s.parOps.map (·.2)}, the {s.opHodl.length} hodl message(s) and the dumps"
    return { s with modelOn := false }

def startOp (s : St) (kind line : String) : IO St := do
  let s ← resolvePar s
  let s ← leftoverMsgs s
  let s ← finishOp s
  return { s with opKind := kind, opLine := line, opNotify := none, opRes := resOf line, opHodl := [], parOps := [],
                  prev := s.cur,
                  prevNone := s.curNone, cur := [], curNone := [], ops := s.ops + 1,
                  hist := bump s.hist (kind ++ "_" ++ resClass (resOf line) ++
                    (if resClass (resOf line) == "fail" || resClass (resOf line) == "settle"
                     then "_" ++ resField (resOf line) 1 else "")) }

def step (s : St) (line : String) : IO St := do
  let s := { s with lines := s.lines + 1 }
  let ws := words line
  match ws with
  | "FACT" :: rest =>
    let s ← if kvNat? rest "hold" == some 30 then pure s else mismatch s "fact hold"
    -- self-test of the SHA-256 used by the monitor
    if (kv? rest "sha256empty") == some (bytesHex (Sha256.sha256 [])) then pure s
    else mismatch s "fact sha256empty"
  | "CASE" :: id :: rest =>
    let r := (kvInt? rest "R").getD 0
    let cfg : Cfg := { rejectDelta := r, acceptKeysend := kvNat? rest "ks" == some 1,
                       acceptAMP := kvNat? rest "amp" == some 1,
                       ksHold := kvNat? rest "kshold" == some 1, hold := (kvNat? rest "hold").getD 30,
                       sql := kv? rest "store" == some "sql" }
    let s := { s with caseId := id, cfg := cfg, ampOn := kvNat? rest "amp" == some 1,
                       reg := Reg.empty, modelOn := true,
                       parPending := false, parSettle := none, parDt := 0,
                       concCases := s.concCases + (if kvNat? rest "conc" == some 1 then 1 else 0),
                       parOps := [], expMsgs := [], rejectDelta := r,
                       prev := [], cur := [], curNone := [], prevNone := [], opKind := "",
                       opNotify := none, opHodl := [], intro := [], settledKeys := [],
                       canceledKeys := [], groups := [], cases := s.cases + 1 }
    if s.samples < 2 then
      IO.println s!"SAMPLE {line}"
    return s
  | ["END"] =>
    let s ← resolvePar s
    let s ← leftoverMsgs s
    let s ← finishOp s
    return { s with opKind := "", ampCases := if s.modelOn then s.ampCases else s.ampCases + 1 }
  | "addinv" :: rest =>
    let s ← startOp s "addinv" line
    let feat := (kv? rest "feat").getD "-"
    let spec : InvSpec :=
      { hash := hexNatD ((kv? rest "h").getD ""), value := (kvNat? rest "val").getD 0,
        payAddr := hexNatD ((kv? rest "addr").getD ""),
        preimage := match kv? rest "pre" with | some "none" => none | some p => some (hexNatD p) | none => none,
        finalCltv := (kvInt? rest "cltv").getD 0, tlv := feat.contains 't',
        payAddrOpt := feat.contains 'p', payAddrReq := feat.contains 'P', mppOpt := feat.contains 'm',
        ampReq := feat.contains 'a', blinded := feat.contains 'b',
        hodl := kvNat? rest "hodl" == some 1 }
    if s.samples < 2 then IO.println s!"SAMPLE {line.take 300}"
    if spec.ampReq && spec.hodl then
      -- hold AMP invoices are outside the model: monitor only for the rest of this case
      return { s with modelOn := false }
    if !s.modelOn then return s
    let (reg', out) := C15.step shaNat childPre s.cfg s.reg (.addInvoice spec)
    modelOp s reg' out s.opRes
  | "pnotify" :: rest =>
    -- one call of a concurrent group: remembered, evaluated at `pend`
    let n := parseNotify rest
    let s := { s with parOps := s.parOps ++ [(n, resOf line)], ops := s.ops + 1,
                       hist := bump s.hist ("pnotify_" ++ resClass (resOf line)) }
    return if resClass (resOf line) == "settle" || resClass (resOf line) == "accept" then
      { s with nontrivial := s.nontrivial + 1 } else s
  | "psettle" :: rest =>
    -- the SettleHodlInvoice call of a concurrent group
    return { s with parSettle := some (hexNatD ((kv? rest "pre").getD ""), resOf line), ops := s.ops + 1,
                     nontrivial := if resOf line == "ok" then s.nontrivial + 1 else s.nontrivial }
  | "pend" :: rest =>
    let ops := s.parOps
    let ps := s.parSettle
    let s ← startOp { s with parOps := [], parSettle := none } "par" (line ++ " => ok")
    return { s with parOps := ops, parSettle := ps, parDt := (kvNat? rest "dt").getD 0, parPending := true }
  | "note" :: _ => return s
  | "expire" :: rest =>
    -- cancelInvoiceImpl(hash, cancelAccepted = force) as called by the invoice expiry watcher
    let s ← startOp s "expire" line
    let s := if s.opRes == "ok" then { s with nontrivial := s.nontrivial + 1 } else s
    if !s.modelOn then return s
    let (reg', rep, msgs) := commitNow s.cfg s.reg
      (.expire (hexNatD ((kv? rest "h").getD "")) (kvNat? rest "force" == some 1))
    modelOp s reg' ⟨rep, msgs⟩ s.opRes
  | "unsub" :: _ =>
    -- HodlUnsubscribeAll of the (single) subscriber channel
    let s ← startOp s "unsub" line
    if !s.modelOn then return s
    modelOp s (cstep shaNat childPre s.cfg ⟨s.reg, []⟩ .unsub).1.reg ⟨.unit, []⟩ "ok"
  | "notify" :: rest =>
    let s ← startOp s "notify" line
    let n : NotifyRec :=
      { hash := (kv? rest "h").getD "", key := (kvKey? rest "k").getD 0, amt := (kvNat? rest "amt").getD 0,
        exp := (kvNat? rest "exp").getD 0, ht := (kvInt? rest "ht").getD 0,
        mpp := parseMpp ((kv? rest "mpp").getD "none"),
        amp := match kv? rest "amp" with
          | some "none" => none
          | some a => some ((a.splitOn "/").headD "")
          | none => none,
        ks := (kv? rest "ks").getD "none",
        ampShare := match kv? rest "amp" with
          | some a => ((a.splitOn "/")[1]?).getD ""
          | none => "",
        ampIndex := match kv? rest "amp" with
          | some a => (((a.splitOn "/")[2]?).bind nat?).getD 0
          | none => 0,
        path := match kv? rest "path" with
          | some "none" => none
          | some a => some a
          | none => none,
        tot := (kvNat? rest "tot").getD 0 }
    let s := { s with opNotify := some n, samples := s.samples + 1 }
    if s.samples ≤ 4 then IO.println s!"SAMPLE {line.take 300}"
    let s := if resClass s.opRes == "settle" || resClass s.opRes == "accept" then
      { s with nontrivial := s.nontrivial + 1 } else s
    if !s.modelOn then return s
    let (reg', out) := C15.step shaNat childPre s.cfg s.reg (.notify (mkCtx n))
    modelOp s reg' out s.opRes
  | "settle" :: rest =>
    let s ← startOp s "settle" line
    let s := if s.opRes == "ok" then { s with nontrivial := s.nontrivial + 1 } else s
    if !s.modelOn then return s
    let (reg', out) := C15.step shaNat childPre s.cfg s.reg (.settle (hexNatD ((kv? rest "pre").getD "")))
    modelOp s reg' out s.opRes
  | "cancel" :: rest =>
    let s ← startOp s "cancel" line
    let s := if s.opRes == "ok" then { s with nontrivial := s.nontrivial + 1 } else s
    if !s.modelOn then return s
    let (reg', out) := C15.step shaNat childPre s.cfg s.reg (.cancel (hexNatD ((kv? rest "h").getD "")))
    modelOp s reg' out s.opRes
  | "tick" :: rest =>
    let s ← startOp s "tick" line
    let s ← if s.opRes == "ok" then pure s else mismatch s s!"tick: impl={s.opRes} (hold timers did not fire)"
    if !s.modelOn then return s
    let (reg', out) := C15.step shaNat childPre s.cfg s.reg (.tick ((kvNat? rest "dt").getD 0))
    modelOp s reg' out "ok"
  | "hodl" :: rest =>
    let k := (kvKey? rest "k").getD 0
    let r := resOf line
    let s := { s with opHodl := s.opHodl ++ [(k, r)], nontrivial := s.nontrivial + 1,
                       hist := bump s.hist ("hodl_" ++ resClass r ++ "_" ++ resField r 1) }
    if !s.modelOn || s.parPending then return s
    match s.expMsgs.find? (·.1 == k) with
    | none => mismatch s s!"hodl k={keyStr k}: impl={r}, model expects no message for this key"
    | some (_, m) =>
      let s := { s with expMsgs := s.expMsgs.filter (·.1 != k) }
      if resStr m == r then pure s else mismatch s s!"hodl k={keyStr k}: model={resStr m} impl={r}"
  | "inv" :: rest =>
    let h := (kv? rest "h").getD ""
    let r := resOf line
    let mut s := s
    if r == "none" then
      s := { s with curNone := h :: s.curNone }
      if s.prev.any (·.hash == h) then
        s ← monitor s "states_monotone" s!"invoice {h} vanished"
    else
      match parseInv h r with
      | some d => s := { s with cur := s.cur ++ [d] }
      | none => s ← mismatch s s!"unparsed dump: {r.take 80}"
    if !s.modelOn || s.parPending then return s
    let m := match findHash s.reg.invs (hexNatD h) with
      | some i => modelDump i
      | none =>
        match findAmp s.reg.amps (hexNatD h) with
        | some a => ampDump a
        | none => "none"
    if m == r then return s
    else mismatch s s!"inv {h.take 8}: model={m} impl={r}"
  | [] => return s
  | _ => mismatch s s!"unparsed line: {line.take 60}"

end LndModel.C15.Driver

open LndModel.C15.Driver in
def main (args : List String) : IO Unit := do
  let s ← LndModel.Lines.foldStdin step {}
  IO.println s!"STAT stream_{args.headD "?"}=1"
  IO.println s!"STAT lines={s.lines}"
  IO.println s!"STAT cases={s.cases}"
  IO.println s!"STAT cases_monitor_only={s.ampCases}"
  IO.println s!"STAT cases_concurrent={s.concCases}"
  IO.println s!"STAT concurrent_groups_explained_by_a_schedule={s.concExplained}"
  IO.println s!"STAT concurrent_schedules_tried={s.concSchedules}"
  IO.println s!"STAT evaluations={s.ops}"
  IO.println s!"STAT model_compared_ops={s.modelOps}"
  IO.println s!"STAT nontrivial={s.nontrivial}"
  IO.println s!"STAT settle_resolutions_checked={s.settlesChecked}"
  IO.println s!"STAT accepts_address_checked={s.acceptsChecked}"
  IO.println s!"STAT htlcs_same_id_other_channel={s.sameIdOtherChan}"
  IO.println s!"STAT htlcs_same_channel_other_id={s.sameChanOtherId}"
  IO.println s!"STAT replays_checked={s.replaysChecked}"
  IO.println s!"STAT invoice_transitions_checked={s.transitionsChecked}"
  IO.println s!"STAT settled_dumps_checked={s.paidChecked}"
  for (k, n) in s.hist do
    IO.println s!"STAT {k}={n}"
  for (k, n) in s.clauseHits do
    IO.println s!"STAT monitor_{k}={n}"
  IO.println s!"STAT mismatches={s.mismatches}"
  IO.println s!"STAT monitor_failures={s.monitorFails}"
