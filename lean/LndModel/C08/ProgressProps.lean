/-
C08 — GENERAL PROGRESS theorem of the pair model (see `Progress.lean` for the definitions).
-/
import LndModel.C08.ProgressSteps
import LndModel.C08.Props

set_option linter.unusedSimpArgs false
set_option linter.unusedVariables false
set_option linter.unusedSectionVars false

namespace LndModel.C08
variable {P Hsh : Type} [DecidableEq P] [DecidableEq Hsh] (H : P → Hsh) (hash : Hsh)

theorem Reachable.inv2 {s : Pair P} (h : Reachable H hash s) : Inv2 s := by
  induction h with
  | init => exact Inv2.init
  | step e hs hstep ih => exact Inv2.step H hash hs.inv ih hstep

theorem Life.rank_le (l : Life P) : l.rank ≤ 10 := by
  rcases l with _ | st | _ | ⟨r, st⟩ | r
  · simp [Life.rank]
  · cases st <;> simp [Life.rank]
  · simp [Life.rank]
  · cases st <;> simp [Life.rank]
  · simp [Life.rank]

theorem Pair.rank_le (s : Pair P) : s.rank ≤ 35 := by
  rcases s with ⟨up, down, decided, fwdFilter, addAcked, circ, keystone, circRef, upDur, delPending, downDur,
    resp, respAcked, mbAdd, mbResp, mbRef, respRef, known, sentUp, downAdds, envBad⟩
  have hu : up.rank ≤ 10 := Life.rank_le up
  have hd : down.rank ≤ 10 := Life.rank_le down
  have hc : circ.rank ≤ 3 := by cases circ <;> simp [Circ.rank]
  simp only [Pair.rank]
  repeat' split
  all_goals omega

/-- the schedule never uses a crash-restart. -/
theorem schedDown_ne_restart {s : Pair P} {pol : Policy P} : schedDown pol s ≠ some .restart := by
  intro h
  simp only [schedDown] at h
  split at h
  all_goals (try split at h)
  all_goals (try split at h)
  all_goals (try split at h)
  all_goals first | cases h | skip

theorem schedUp_ne_restart {s : Pair P} {pol : Policy P} : schedUp pol s ≠ some .restart := by
  intro h
  simp only [schedUp] at h
  split at h
  all_goals (try split at h)
  all_goals (try split at h)
  all_goals (try split at h)
  all_goals (try split at h)
  all_goals (try split at h)
  all_goals first | cases h | skip

theorem sched_ne_restart {s : Pair P} {pol : Policy P} : sched H hash pol s ≠ some .restart := by
  intro h
  simp only [sched] at h
  split at h
  · cases h
  · split at h
    · split at h <;> cases h
    · split at h
      · cases h
      · split at h
        · next e hd => cases h; exact schedDown_ne_restart hd
        · split at h
          · next e hu => cases h; exact schedUp_ne_restart hu
          · split at h <;> cases h

/-- the cooperative schedule, run from a state satisfying the invariants with an honest peer, stays
enabled step by step, stops in a QUIESCENT state after at most `rank s` steps and never restarts. -/
theorem drive_quiescent {pol : Policy P} (hV : pol.Valid H hash) :
    ∀ (n : Nat) {s : Pair P}, Inv H hash s → Inv2 s → Honest H hash s → s.rank ≤ n →
      run H hash s (drive H hash pol n s).2 = some (drive H hash pol n s).1 ∧
      Quiescent (drive H hash pol n s).1 ∧ Honest H hash (drive H hash pol n s).1 ∧
      (drive H hash pol n s).2.length ≤ s.rank ∧ Ev.restart ∉ (drive H hash pol n s).2 := by
  intro n
  induction n with
  | zero =>
    intro s hI hK hH hn
    -- rank 0 is impossible unless nothing is scheduled
    cases hs : sched H hash pol s with
    | none => exact ⟨by simp [drive, run], by simpa [drive] using sched_none H hash hI hK hs, by simpa [drive] using hH,
        by simp [drive], by simp [drive]⟩
    | some e =>
      have := sched_step H hash hI hK hH hV hs
      unfold StepOk at this
      split at this
      · omega
      · exact this.elim
  | succ n ih =>
    intro s hI hK hH hn
    cases hs : sched H hash pol s with
    | none =>
      exact ⟨by simp [drive, hs, run], by simpa [drive, hs] using sched_none H hash hI hK hs,
        by simpa [drive, hs] using hH, by simp [drive, hs], by simp [drive, hs]⟩
    | some e =>
      have hok := sched_step H hash hI hK hH hV hs
      unfold StepOk at hok
      cases hst : step H hash s e with
      | none => simp [hst] at hok
      | some s1 =>
        simp only [hst] at hok
        obtain ⟨hlt, hH1⟩ := hok
        have hI1 := hI.step H hash hst
        have hK1 := hK.step H hash hI hst
        obtain ⟨h1, h2, h3, h4, h5⟩ := ih hI1 hK1 hH1 (by omega)
        have hd : drive H hash pol (n + 1) s = ((drive H hash pol n s1).1, e :: (drive H hash pol n s1).2) := by
          simp [drive, hs, hst]
        rw [hd]
        refine ⟨by simpa [run, hst] using h1, h2, h3, by simp; omega, ?_⟩
        simp only [List.mem_cons, not_or]
        refine ⟨?_, h5⟩
        intro he
        subst he
        exact sched_ne_restart H hash hs

/-- **GENERAL PROGRESS** (the statement the earlier rounds left open). From EVERY reachable state of
the forwarder model — reached by any interleaving of peer messages, Bob's internal steps,
retransmissions and crash-restarts — in which the downstream peer has no fulfill with a wrong
preimage on the wire, and for every forwarding decision and every (valid) answer of the downstream
peer, there is a continuation of at most 35 steps, containing NO crash-restart, all of them chosen by
the fair cooperative schedule `sched`, that ends in a `Quiescent` state: no htlc on either channel,
mailboxes empty, circuit deleted, add and response acked in their forwarding packages. Hence no
reachable state is a dead end: every committed incoming htlc is eventually settled or failed. -/
theorem progress {s : Pair P} (hr : Reachable H hash s) (hH : Honest H hash s) (pol : Policy P)
    (hV : pol.Valid H hash) :
    ∃ es s', run H hash s es = some s' ∧ Quiescent s' ∧ es.length ≤ 35 ∧ Ev.restart ∉ es ∧
      es = (drive H hash pol s.rank s).2 := by
  obtain ⟨h1, h2, _, h4, h5⟩ := drive_quiescent H hash hV s.rank hr.inv (hr.inv2 H hash) hH (Nat.le_refl _)
  exact ⟨_, _, h1, h2, Nat.le_trans h4 (Pair.rank_le s), h5, rfl⟩

theorem run_append_of {s0 s s' : Pair P} {a b : List (Ev P)} (ha : run H hash s0 a = some s)
    (hb : run H hash s b = some s') : run H hash s0 (a ++ b) = some s' := by
  induction a generalizing s0 with
  | nil => simp [run] at ha; subst ha; simpa using hb
  | cons e a ih =>
    simp only [run, List.cons_append] at ha ⊢
    split at ha
    · next s1 hs1 => exact ih ha
    · cases ha

/-- progress + `hops_settle_together`-style conclusion in one statement: after ANY history `es0`
that leaves the peer honest, the schedule ends in a reachable quiescent state. -/
theorem progress_after_any_history {es0 : List (Ev P)} {s : Pair P} (h0 : run H hash {} es0 = some s)
    (hH : Honest H hash s) (pol : Policy P) (hV : pol.Valid H hash) :
    ∃ es s', run H hash {} (es0 ++ es) = some s' ∧ Reachable H hash s' ∧ Quiescent s' ∧ Ev.restart ∉ es := by
  have hr : Reachable H hash s := run_reachable H hash Reachable.init h0
  obtain ⟨es, s', h1, h2, _, h4, _⟩ := progress H hash hr hH pol hV
  exact ⟨es, s', run_append_of H hash h0 h1, run_reachable H hash hr h1, h2, h4⟩

theorem Life.sigO_absent {l : Life P} : l.sigO = .absent ↔ l = .absent := by
  rcases l with _ | st | _ | ⟨r, st⟩ | r <;> try (simp [Life.sigO])
  all_goals cases st <;> simp [Life.sigO]
theorem Life.sigR_absent {l : Life P} : l.sigR = .absent ↔ l = .absent := by
  rcases l with _ | st | _ | ⟨r, st⟩ | r <;> try (simp [Life.sigR])
  all_goals cases st <;> simp [Life.sigR]
theorem Life.revO_absent {l : Life P} : l.revO = .absent ↔ l = .absent := by
  rcases l with _ | st | _ | ⟨r, st⟩ | r <;> try (simp [Life.revO])
  all_goals cases st <;> simp [Life.revO]
theorem Life.revR_absent {l : Life P} : l.revR = .absent ↔ l = .absent := by
  rcases l with _ | st | _ | ⟨r, st⟩ | r <;> try (simp [Life.revR])
  all_goals cases st <;> simp [Life.revR]

/-- without a crash-restart an offered incoming htlc never disappears from the wire state. -/
theorem step_up_absent {s s' : Pair P} {e : Ev P} (h : step H hash s e = some s') (he : e ≠ .restart)
    (ha : s'.up = .absent) : s.up = .absent := by
  rcases s with ⟨up, down, decided, fwdFilter, addAcked, circ, keystone, circRef, upDur, delPending, downDur,
    resp, respAcked, mbAdd, mbResp, mbRef, respRef, known, sentUp, downAdds, envBad⟩
  cases e <;>
    simp only [LndModel.C08.step, stepDownSettle, stepDownRevPeer, stepUpSigBob, stepDownSigBob,
      stepUpSignPersist, stepDropSpurious] at h
  all_goals first
    | exact absurd rfl he
    | grind [Life.sigO_absent, Life.sigR_absent, Life.revO_absent, Life.revR_absent]

theorem run_up_absent {s s' : Pair P} {es : List (Ev P)} (h : run H hash s es = some s')
    (he : Ev.restart ∉ es) (ha : s'.up = .absent) : s.up = .absent := by
  induction es generalizing s with
  | nil => simp [run] at h; subst h; exact ha
  | cons e es ih =>
    simp only [run] at h
    simp only [List.mem_cons, not_or] at he
    split at h
    · next s1 hs1 => exact step_up_absent H hash hs1 (fun h => he.1 h.symm) (ih h he.2)
    · cases h

/-- **every committed incoming htlc is eventually settled or failed** (given fair link steps and a
cooperative peer): from every reachable honest state in which the incoming htlc exists (offered, locked
in or being removed), the cooperative schedule — no crash-restart, at most 35 steps — ends in a
quiescent state in which that htlc is irrevocably REMOVED with some resolution `r`, and (if the peer
never failed an htlc it had fulfilled) the incoming htlc is settled iff the outgoing one is. -/
theorem progress_resolves {s : Pair P} (hr : Reachable H hash s) (hH : Honest H hash s)
    (hup : s.up ≠ .absent) (pol : Policy P) (hV : pol.Valid H hash) :
    ∃ es s' r, run H hash s es = some s' ∧ es.length ≤ 35 ∧ Ev.restart ∉ es ∧ Quiescent s' ∧
      s'.up = .removed r ∧ (s'.envBad = false → s'.up.settled = s'.down.settled) := by
  obtain ⟨es, s', h1, h2, h3, h4, _⟩ := progress H hash hr hH pol hV
  have hne : s'.up ≠ .absent := fun ha => hup (run_up_absent H hash h1 h4 ha)
  have hg := h2.1
  have hr' := run_reachable H hash hr h1
  rcases hu : s'.up with _ | st | _ | ⟨r, st⟩ | r <;> simp [hu, Life.gone] at hg hne
  refine ⟨es, s', r, h1, h3, h4, h2, hu, fun henv => ?_⟩
  have := hops_settle_together H hash hr' ⟨h2.1, h2.2.1⟩ henv
  simpa [hu] using this

/-! ### non-vacuity: the schedule on concrete states -/

section Examples

deriving instance DecidableEq for Ev

private def Hq (p : Nat) : Nat := p + 100
private def lockIn' : List (Ev Nat) := [.upAdd, .upSigPeer, .upRevBob, .upSigBob, .upRevPeer]
private def polSettle : Policy Nat := ⟨true, (2, 0), .settle 7⟩
private def polFail : Policy Nat := ⟨true, (2, 0), .fail⟩

example : polSettle.Valid Hq 107 := by intro p hp; cases hp; rfl
example : polFail.Valid Hq 107 := by intro p hp; cases hp

/-- from a freshly offered htlc the schedule forwards, the peer settles, everything completes in 26
steps (35 is the bound). -/
example : let d := drive Hq 107 polSettle 35 { up := .adding .sent }
    Quiescent d.1 ∧ d.1.up = .removed (.settle 7) ∧ d.1.down = .removed (.settle 7) ∧ d.2.length = 26 ∧
    run Hq 107 { up := .adding .sent } d.2 = some d.1 := by decide

/-- after a crash between OpenCircuits and the signature (half-open circuit on disk, keystone trimmed) the
schedule fails the incoming htlc back and cleans up; with a failing peer the fail is relayed. -/
private def halfOpen : Pair Nat :=
  (run Hq 107 {} (lockIn' ++ [.decide true, .commitCircuit (2, 0), .sendDownAdd, .openKeystone, .restart])).getD {}

example : halfOpen.circ = .pending ∧ halfOpen.keystone = false ∧ halfOpen.down = .absent := by decide
example : let d := drive Hq 107 polSettle 35 halfOpen
    Quiescent d.1 ∧ d.1.up = .removed .fail ∧ d.1.down = .absent ∧
    d.2.take 4 = [.refwdFail (2, 0), .relayUp .fail, .upSignPersist, .deleteCircuit] := by decide

/-- crash after the persisted signature of the upstream settle, before DeleteCircuits, while the outgoing
htlc is still being removed: the schedule deletes the circuit first, retransmits, finishes both dances
and acks the downstream response last. -/
private def midCrash : Pair Nat :=
  (run Hq 107 {} (lockIn' ++ [.decide true, .commitCircuit (2, 0), .sendDownAdd, .openKeystone, .downSignPersist,
    .downSigBob, .downRevPeer, .downSigPeer, .downRevBob, .downSettle 7, .relayUp (.settle 7), .upSignPersist,
    .restart])).getD {}

example : midCrash.delPending = true ∧ midCrash.up = .locked ∧ midCrash.down = .locked := by decide
example : let d := drive Hq 107 polFail 35 midCrash
    Quiescent d.1 ∧ d.1.up = .removed (.settle 7) ∧ d.1.down = .removed .fail ∧ d.1.envBad = true := by decide
example : let d := drive Hq 107 polSettle 35 midCrash
    Quiescent d.1 ∧ d.1.up = .removed (.settle 7) ∧ d.1.down = .removed (.settle 7) ∧ d.1.envBad = false ∧
    d.2.getLast? = some .ackDup := by decide

/-- `Honest` is needed: with a wrong preimage signed by the peer the scheduled revocation is disabled (the
link has failed the channel) and the schedule stops in a non-quiescent state. -/
private def badSt : Pair Nat :=
  (run Hq 107 {} (lockIn' ++ [.decide true, .commitCircuit (2, 0), .sendDownAdd, .openKeystone, .downSignPersist,
    .downSigBob, .downRevPeer, .downSigPeer, .downRevBob, .downSettle 8, .downSigPeer])).getD {}

example : sched Hq 107 polSettle badSt = some .downRevBob ∧ (step Hq 107 badSt .downRevBob).isNone = true ∧
    ¬ Quiescent badSt := by decide

end Examples

end LndModel.C08
