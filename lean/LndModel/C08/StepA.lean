/-
C08 — invariant preservation, part StepA.
-/
import LndModel.C08.Lemmas

set_option linter.unusedSimpArgs false
set_option linter.unusedVariables false
set_option linter.unusedSectionVars false

namespace LndModel.C08
variable {P Hsh : Type} [DecidableEq P] [DecidableEq Hsh] (H : P → Hsh) (hash : Hsh)

theorem inv_upAdd {s s' : Pair P} (hI : Inv H hash s) (h : step H hash s (.upAdd) = some s') :
    Inv H hash s' := by
  obtain ⟨a1, a2, a3, a4, a5, a6, a7, a8, a9, a10, a11, a12, a13, a14, a15, a16, a17, a18, a19, a20, a21, a22, a23, a24, a25, a26, a27, a28, a29, a30, a31, a32, a33, a34, a35⟩ := hI
  simp only [LndModel.C08.step] at h; split at h <;> cases h; constructor <;> life_grind

theorem inv_downSettle {s s' : Pair P} (p : P) (hI : Inv H hash s) (h : step H hash s (.downSettle p) = some s') :
    Inv H hash s' := by
  obtain ⟨a1, a2, a3, a4, a5, a6, a7, a8, a9, a10, a11, a12, a13, a14, a15, a16, a17, a18, a19, a20, a21, a22, a23, a24, a25, a26, a27, a28, a29, a30, a31, a32, a33, a34, a35⟩ := hI
  simp only [LndModel.C08.step, stepDownSettle] at h
  (repeat' split at h) <;> cases h <;> constructor <;> life_grind

theorem inv_downFail {s s' : Pair P} (hI : Inv H hash s) (h : step H hash s (.downFail) = some s') :
    Inv H hash s' := by
  obtain ⟨a1, a2, a3, a4, a5, a6, a7, a8, a9, a10, a11, a12, a13, a14, a15, a16, a17, a18, a19, a20, a21, a22, a23, a24, a25, a26, a27, a28, a29, a30, a31, a32, a33, a34, a35⟩ := hI
  simp only [LndModel.C08.step] at h; split at h <;> cases h; constructor <;> life_grind

theorem inv_decide {s s' : Pair P} (b : Bool) (hI : Inv H hash s) (h : step H hash s (.decide b) = some s') :
    Inv H hash s' := by
  obtain ⟨a1, a2, a3, a4, a5, a6, a7, a8, a9, a10, a11, a12, a13, a14, a15, a16, a17, a18, a19, a20, a21, a22, a23, a24, a25, a26, a27, a28, a29, a30, a31, a32, a33, a34, a35⟩ := hI
  simp only [LndModel.C08.step] at h; split at h <;> cases h; constructor <;> life_grind

theorem inv_localReject {s s' : Pair P} (ref : Ref) (hI : Inv H hash s) (h : step H hash s (.localReject ref) = some s') :
    Inv H hash s' := by
  obtain ⟨a1, a2, a3, a4, a5, a6, a7, a8, a9, a10, a11, a12, a13, a14, a15, a16, a17, a18, a19, a20, a21, a22, a23, a24, a25, a26, a27, a28, a29, a30, a31, a32, a33, a34, a35⟩ := hI
  simp only [LndModel.C08.step] at h; split at h <;> cases h; constructor <;> life_grind

theorem inv_commitCircuit {s s' : Pair P} (ref : Ref) (hI : Inv H hash s) (h : step H hash s (.commitCircuit ref) = some s') :
    Inv H hash s' := by
  obtain ⟨a1, a2, a3, a4, a5, a6, a7, a8, a9, a10, a11, a12, a13, a14, a15, a16, a17, a18, a19, a20, a21, a22, a23, a24, a25, a26, a27, a28, a29, a30, a31, a32, a33, a34, a35⟩ := hI
  simp only [LndModel.C08.step] at h; split at h <;> cases h; constructor <;> life_grind

theorem inv_refwdFail {s s' : Pair P} (ref : Ref) (hI : Inv H hash s) (h : step H hash s (.refwdFail ref) = some s') :
    Inv H hash s' := by
  obtain ⟨a1, a2, a3, a4, a5, a6, a7, a8, a9, a10, a11, a12, a13, a14, a15, a16, a17, a18, a19, a20, a21, a22, a23, a24, a25, a26, a27, a28, a29, a30, a31, a32, a33, a34, a35⟩ := hI
  simp only [LndModel.C08.step] at h; split at h <;> cases h; constructor <;> life_grind

theorem inv_switchFail {s s' : Pair P} (hI : Inv H hash s) (h : step H hash s (.switchFail) = some s') :
    Inv H hash s' := by
  obtain ⟨a1, a2, a3, a4, a5, a6, a7, a8, a9, a10, a11, a12, a13, a14, a15, a16, a17, a18, a19, a20, a21, a22, a23, a24, a25, a26, a27, a28, a29, a30, a31, a32, a33, a34, a35⟩ := hI
  simp only [LndModel.C08.step] at h; split at h <;> cases h; constructor <;> life_grind

theorem inv_sendDownAdd {s s' : Pair P} (hI : Inv H hash s) (h : step H hash s (.sendDownAdd) = some s') :
    Inv H hash s' := by
  obtain ⟨a1, a2, a3, a4, a5, a6, a7, a8, a9, a10, a11, a12, a13, a14, a15, a16, a17, a18, a19, a20, a21, a22, a23, a24, a25, a26, a27, a28, a29, a30, a31, a32, a33, a34, a35⟩ := hI
  simp only [LndModel.C08.step] at h; split at h <;> cases h; constructor <;> life_grind

theorem inv_openKeystone {s s' : Pair P} (hI : Inv H hash s) (h : step H hash s (.openKeystone) = some s') :
    Inv H hash s' := by
  obtain ⟨a1, a2, a3, a4, a5, a6, a7, a8, a9, a10, a11, a12, a13, a14, a15, a16, a17, a18, a19, a20, a21, a22, a23, a24, a25, a26, a27, a28, a29, a30, a31, a32, a33, a34, a35⟩ := hI
  simp only [LndModel.C08.step] at h; split at h <;> cases h; constructor <;> life_grind

theorem inv_downSignPersist {s s' : Pair P} (hI : Inv H hash s) (h : step H hash s (.downSignPersist) = some s') :
    Inv H hash s' := by
  obtain ⟨a1, a2, a3, a4, a5, a6, a7, a8, a9, a10, a11, a12, a13, a14, a15, a16, a17, a18, a19, a20, a21, a22, a23, a24, a25, a26, a27, a28, a29, a30, a31, a32, a33, a34, a35⟩ := hI
  simp only [LndModel.C08.step] at h; split at h <;> cases h; constructor <;> life_grind

end LndModel.C08
